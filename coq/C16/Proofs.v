(* C16 — lemmas: decode limits are exact, bounded decoding yields prefixes. *)
From Coq Require Import ZArith NArith List Bool Lia ZifyBool ZifyNat ZifyN.
From PV Require Import C16.Model.
Import ListNotations.
Open Scope Z_scope.

(* Go slices are shorter than 2^63 *)
Definition fits (l : list N) : Prop := len l < max_int64.
Definition prefix (a b : list N) : Prop := exists r, b = a ++ r.
Definition too_short (e : derr) : Prop := e = EEOF \/ e = EUnexpEOF.

Lemma len_nonneg : forall l, 0 <= len l.
Proof. intros l. unfold len. lia. Qed.

Lemma len_app : forall a b, len (a ++ b) = len a + len b.
Proof. intros a b. unfold len. rewrite app_length. lia. Qed.

Lemma len_cons : forall x l, len (x :: l) = 1 + len l.
Proof. intros x l. unfold len. simpl length. lia. Qed.

Lemma len_nil : len [] = 0.
Proof. reflexivity. Qed.

Lemma take_all : forall n l, len l <= n -> take n l = l.
Proof. intros n l H. unfold take, len in *. apply firstn_all2. lia. Qed.

Lemma take_0 : forall l, take 0 l = [].
Proof. intros l. reflexivity. Qed.

Lemma take_cons : forall n x l, 1 <= n -> take n (x :: l) = x :: take (n - 1) l.
Proof.
  intros n x l H. unfold take.
  replace (Z.to_nat n) with (S (Z.to_nat (n - 1))) by lia. reflexivity.
Qed.

Lemma take_app : forall n a b, len a <= n -> take n (a ++ b) = a ++ take (n - len a) b.
Proof.
  intros n a b H. unfold take, len in *.
  rewrite firstn_app. rewrite firstn_all2 by lia. f_equal. f_equal. lia.
Qed.

Lemma take_app_short : forall n a b, 0 <= n <= len a -> take n (a ++ b) = take n a.
Proof.
  intros n a b H. unfold take, len in *.
  rewrite firstn_app. replace (Z.to_nat n - length a)%nat with 0%nat by lia.
  simpl. apply app_nil_r.
Qed.

Lemma len_take : forall n l, 0 <= n -> len (take n l) = Z.min n (len l).
Proof. intros n l H. unfold take, len. rewrite firstn_length. lia. Qed.

Lemma take_prefix : forall n l, prefix (take n l) l.
Proof. intros n l. exists (skipn (Z.to_nat n) l). unfold take. symmetry. apply firstn_skipn. Qed.

Lemma prefix_refl : forall l, prefix l l.
Proof. intros l. exists []. symmetry. apply app_nil_r. Qed.

Lemma prefix_len : forall a b, prefix a b -> len a <= len b.
Proof. intros a b [r ->]. rewrite len_app. pose proof (len_nonneg r). lia. Qed.

Lemma prefix_take : forall a b n, prefix a b -> 0 <= n <= len a -> take n a = take n b.
Proof. intros a b n [r ->] H. symmetry. apply take_app_short. exact H. Qed.

Lemma prefix_app : forall p a b, prefix a b -> prefix (p ++ a) (p ++ b).
Proof. intros p a b [r ->]. exists r. apply app_assoc. Qed.

(* ------------------------------------------------------------------ decodeLimit *)

Lemma decode_limit_bounded : forall n mdb, 0 <= n -> decode_limit n mdb = n.
Proof. intros n mdb H. unfold decode_limit. destruct (0 <=? n) eqn:E; lia. Qed.

Lemma decode_limit_unlimited : decode_limit (-1) (-1) = -1.
Proof. reflexivity. Qed.

(* ------------------------------------------------------------------ copyDecoded *)

Lemma copy_unlimited : forall data st, copy_decoded (data, st) (-1) (-1) = (data, st_err st).
Proof. reflexivity. Qed.

Lemma copy_limit_exact : forall data st mdb,
  let L := decode_limit (-1) mdb in
  0 <= L -> fits data ->
  copy_decoded (data, st) (-1) mdb = if len data <=? L then (data, st_err st) else ([], Some ELimit).
Proof.
  intros data st mdb L HL Hfit. unfold fits in Hfit. unfold copy_decoded. fold L.
  change (0 <=? -1) with false. cbv iota.
  destruct (L <? 0) eqn:E1; [lia|].
  destruct (L =? max_int64) eqn:E2; simpl orb; cbv iota.
  - destruct (len data <=? L) eqn:E3; [reflexivity|lia].
  - destruct (L + 1 <=? len data) eqn:E3; destruct (len data <=? L) eqn:E4; try lia; reflexivity.
Qed.

Lemma copy_bounded : forall data st n mdb, 0 <= n ->
  copy_decoded (data, st) n mdb =
  if n <=? len data then (take n data, None)
  else (data, Some (match st with REof => EEOF | RUnexp => EUnexpEOF | RErr => EOther end)).
Proof.
  intros data st n mdb Hn. unfold copy_decoded.
  destruct (0 <=? n) eqn:E; [reflexivity|lia].
Qed.

(* never more than L bytes, whatever the stream *)
Lemma copy_never_more : forall s mdb b,
  let L := decode_limit (-1) mdb in
  0 <= L -> L <> max_int64 ->
  copy_decoded s (-1) mdb = (b, None) -> len b <= L.
Proof.
  intros [data st] mdb b L HL Hne H. unfold copy_decoded in H. fold L in H.
  change (0 <=? -1) with false in H. cbv iota in H.
  destruct (L <? 0) eqn:E1; [lia|].
  destruct (L =? max_int64) eqn:E2; [lia|]. simpl orb in H. cbv iota in H.
  destruct (L + 1 <=? len data) eqn:E3.
  - discriminate H.
  - inversion H; subst. lia.
Qed.

(* ------------------------------------------------------------------ ASCIIHex *)

Lemma hex_decode_length : forall n p d, (length p <= n)%nat -> hex_decode p = Some d -> length d = Nat.div2 (length p).
Proof.
  induction n as [|n IH]; intros p d Hn H.
  - destruct p; [|simpl in Hn; lia]. simpl in H. inversion H. reflexivity.
  - destruct p as [|a [|b r]].
    + simpl in H. inversion H. reflexivity.
    + simpl in H. inversion H. reflexivity.
    + simpl in H. destruct (hexval a); [|discriminate]. destruct (hexval b); [|discriminate].
      destruct (hex_decode r) as [d'|] eqn:E; [|discriminate]. inversion H; subst.
      simpl. f_equal. apply IH; [simpl in Hn; lia|exact E].
Qed.

Lemma hex_decode_firstn : forall n p d, hex_decode p = Some d ->
  hex_decode (firstn (2 * n) p) = Some (firstn n d).
Proof.
  induction n as [|n IH]; intros p d H.
  - reflexivity.
  - replace (2 * S n)%nat with (S (S (2 * n))) by lia.
    destruct p as [|a [|b r]].
    + simpl in H. inversion H. reflexivity.
    + simpl in H. inversion H. reflexivity.
    + simpl in H. destruct (hexval a) eqn:Ea; [|discriminate]. destruct (hexval b) eqn:Eb; [|discriminate].
      destruct (hex_decode r) as [d'|] eqn:E; [|discriminate]. inversion H; subst.
      cbn [firstn]. cbn [hex_decode]. rewrite Ea, Eb. rewrite (IH r d' E). reflexivity.
Qed.

Definition ahx_p (bb : list N) : list N :=
  let p0 := ahx_strip bb in if Z.odd (len p0) then p0 ++ [48%N] else p0.

Lemma ahx_unfold : forall bb maxLen mdb,
  ahx_decode_length bb maxLen mdb =
  let p := ahx_p bb in
  let decodedLen := len p / 2 in
  if maxLen <? 0 then
    let limit := decode_limit (-1) mdb in
    if (0 <=? limit) && (limit <? decodedLen) then DErr ELimit else ahx_finish p decodedLen
  else if decodedLen <? maxLen then DErr EUnexpEOF
  else ahx_finish p maxLen.
Proof. reflexivity. Qed.

Lemma half_len : forall p, len p / 2 = Z.of_nat (Nat.div2 (length p)).
Proof.
  intros p. unfold len. rewrite Nat.div2_div. rewrite Nat2Z.inj_div. reflexivity.
Qed.

Lemma ahx_finish_take : forall p d n, hex_decode p = Some d -> 0 <= n ->
  ahx_finish p n = DOk (take n d).
Proof.
  intros p d n H Hn. unfold ahx_finish, take.
  replace (Z.to_nat (2 * n)) with (2 * Z.to_nat n)%nat by lia.
  rewrite (hex_decode_firstn _ _ _ H). reflexivity.
Qed.

(* the unlimited decoding determines the complete hex decoding of the stripped input *)
Lemma ahx_full_inv : forall bb full, ahx_decode_length bb (-1) (-1) = DOk full ->
  hex_decode (ahx_p bb) = Some full /\ len full = len (ahx_p bb) / 2.
Proof.
  intros bb full H. rewrite ahx_unfold in H. cbv zeta in H.
  change (-1 <? 0) with true in H. cbv iota in H.
  rewrite decode_limit_unlimited in H. change (0 <=? -1) with false in H. simpl andb in H. cbv iota in H.
  unfold ahx_finish in H.
  destruct (hex_decode (take (2 * (len (ahx_p bb) / 2)) (ahx_p bb))) as [d|] eqn:E; [|discriminate].
  inversion H; subst d. clear H.
  destruct (hex_decode (ahx_p bb)) as [d0|] eqn:E0.
  - pose proof (hex_decode_length _ _ _ (le_n _) E0) as Hl.
    unfold take in E. rewrite half_len in E.
    replace (Z.to_nat (2 * Z.of_nat (Nat.div2 (length (ahx_p bb))))) with (2 * Nat.div2 (length (ahx_p bb)))%nat in E by lia.
    rewrite (hex_decode_firstn _ _ _ E0) in E. rewrite <- Hl in E. rewrite firstn_all in E.
    inversion E; subst. split; [reflexivity|]. rewrite half_len. unfold len. lia.
  - exfalso.
    (* hex_decode of the whole fails but of the even prefix succeeds: the prefix is everything but at most one byte *)
    revert E E0. generalize (ahx_p bb). intros p.
    assert (G : forall n p, (length p <= n)%nat -> hex_decode p = None ->
                hex_decode (take (2 * (len p / 2)) p) = None).
    { clear. induction n as [|n IH]; intros p Hn H.
      - destruct p; [discriminate H|simpl in Hn; lia].
      - destruct p as [|a [|b r]]; try discriminate H.
        assert (Hh : take (2 * (len (a :: b :: r) / 2)) (a :: b :: r) = a :: b :: take (2 * (len r / 2)) r).
        { unfold take. rewrite !half_len. simpl length. cbn [Nat.div2].
          replace (Z.to_nat (2 * Z.of_nat (S (Nat.div2 (length r))))) with (S (S (Z.to_nat (2 * Z.of_nat (Nat.div2 (length r)))))) by lia.
          reflexivity. }
        rewrite Hh. simpl in H. cbn [hex_decode].
        destruct (hexval a); [|reflexivity]. destruct (hexval b); [|reflexivity].
        destruct (hex_decode r) eqn:Er; [discriminate H|].
        rewrite (IH r); [reflexivity|simpl in Hn; lia|exact Er]. }
    intros E E0. rewrite (G _ p (le_n _) E0) in E. discriminate E.
Qed.

Lemma ahx_limit_exact : forall bb full mdb,
  ahx_decode_length bb (-1) (-1) = DOk full ->
  let L := decode_limit (-1) mdb in
  0 <= L ->
  ahx_decode_length bb (-1) mdb = if len full <=? L then DOk full else DErr ELimit.
Proof.
  intros bb full mdb H L HL. destruct (ahx_full_inv _ _ H) as [Hd Hl].
  rewrite ahx_unfold. cbv zeta. change (-1 <? 0) with true. cbv iota. fold L. rewrite <- Hl.
  destruct (0 <=? L) eqn:E0; [|lia]. simpl andb.
  destruct (L <? len full) eqn:E1; destruct (len full <=? L) eqn:E2; try lia; try reflexivity.
  rewrite (ahx_finish_take _ _ _ Hd (len_nonneg _)). rewrite take_all by lia. reflexivity.
Qed.

Lemma ahx_unlimited : forall bb full mdb,
  ahx_decode_length bb (-1) (-1) = DOk full ->
  decode_limit (-1) mdb < 0 ->
  ahx_decode_length bb (-1) mdb = DOk full.
Proof.
  intros bb full mdb H HL. destruct (ahx_full_inv _ _ H) as [Hd Hl].
  rewrite ahx_unfold. cbv zeta. change (-1 <? 0) with true. cbv iota. rewrite <- Hl.
  destruct (0 <=? decode_limit (-1) mdb) eqn:E0; [lia|]. simpl andb. cbv iota.
  rewrite (ahx_finish_take _ _ _ Hd (len_nonneg _)). rewrite take_all by lia. reflexivity.
Qed.

Lemma ahx_bounded : forall bb full n mdb,
  ahx_decode_length bb (-1) (-1) = DOk full -> 0 <= n ->
  ahx_decode_length bb n mdb = if n <=? len full then DOk (take n full) else DErr EUnexpEOF.
Proof.
  intros bb full n mdb H Hn. destruct (ahx_full_inv _ _ H) as [Hd Hl].
  rewrite ahx_unfold. cbv zeta. destruct (n <? 0) eqn:E; [lia|]. rewrite <- Hl.
  destruct (len full <? n) eqn:E1; destruct (n <=? len full) eqn:E2; try lia; try reflexivity.
  apply ahx_finish_take; assumption.
Qed.
