(* Shared page-document model of C33 and C32.  Executable Gallina only; NO proofs here.

   A document is a page TREE as pdfcpu sees it: /Pages nodes with /Kids, /Count and the
   inheritable attributes (/Rotate, /MediaBox, /CropBox; /Resources only as a presence flag),
   and /Page leaves with a content marker (the identity of the page content), their own
   attributes and the non-inheritable boxes.  `resolve` is the document-order walk with
   attribute inheritance (model/xreftable.go: PageDict -> processPageTreeForPageDictDepth +
   checkInheritedPageAttrs: a value present in a dict overrides the inherited one); `view`
   is what an observer of the written file sees of one page. *)
From Coq Require Import ZArith List Bool.
From PV Require Import Lib.GoInt.
Import ListNotations.
Open Scope Z_scope.

Definition rect := (Z * Z * Z * Z)%type.

Record attrs := mkAttrs {
  a_rot : option Z;        (* /Rotate *)
  a_media : option rect;   (* /MediaBox *)
  a_crop : option rect;    (* /CropBox *)
  a_res : bool             (* has a /Resources entry (content of resources is outside the model) *)
}.
Definition no_attrs : attrs := mkAttrs None None None false.

Record pageD := mkPage {
  pg_id : Z;               (* content marker; 0 = blank page created by pdfcpu *)
  pg_attrs : attrs;        (* the page dict's own entries *)
  pg_trim : option rect;
  pg_bleed : option rect;
  pg_art : option rect
}.

Inductive tree :=
| Leaf (p : pageD)
| Node (a : attrs) (count : Z) (kids : list tree).

Definition orelse {A} (own inh : option A) : option A :=
  match own with Some _ => own | None => inh end.

Definition isSome {A} (o : option A) : bool := match o with Some _ => true | None => false end.

(* checkInheritedPageAttrs: entries of the dict replace what was inherited so far *)
Definition inherit (inh own : attrs) : attrs :=
  mkAttrs (orelse (a_rot own) (a_rot inh)) (orelse (a_media own) (a_media inh))
          (orelse (a_crop own) (a_crop inh)) (a_res own || a_res inh).

(* a page dict together with the attributes in effect: PageDict's (d, inhPAttrs) *)
Definition rpage := (pageD * attrs)%type.

Fixpoint resolve (inh : attrs) (t : tree) : list rpage :=
  match t with
  | Leaf p => [(p, inherit inh (pg_attrs p))]
  | Node a _ kids => flat_map (resolve (inherit inh a)) kids
  end.

Definition rot_of (a : attrs) : Z := match a_rot a with Some r => r | None => 0 end.

Record vpage := mkV {
  v_id : Z; v_rot : Z; v_media : option rect; v_crop : option rect;
  v_trim : option rect; v_bleed : option rect; v_art : option rect
}.

Definition view (r : rpage) : vpage :=
  mkV (pg_id (fst r)) (rot_of (snd r)) (a_media (snd r)) (a_crop (snd r))
      (pg_trim (fst r)) (pg_bleed (fst r)) (pg_art (fst r)).

Definition rpages (t : tree) : list rpage := resolve no_attrs t.
Definition pages_of (t : tree) : list vpage := map view (rpages t).
Definition ids_of (t : tree) : list Z := map v_id (pages_of t).

Definition count_of (t : tree) : Z := match t with Leaf _ => 1 | Node _ c _ => c end.

Definition sumZ (l : list Z) : Z := fold_right Z.add 0 l.

(* every /Count equals the number of pages below (what the reader's validation establishes) *)
Fixpoint wf_count (t : tree) : bool :=
  match t with
  | Leaf _ => true
  | Node _ c kids => (c =? sumZ (map count_of kids)) && forallb wf_count kids
  end.

Definition is_node (t : tree) : bool := match t with Node _ _ _ => true | Leaf _ => false end.

(* a boolean condition holds for the attributes of every /Pages node *)
Fixpoint nodes_ok (pb : attrs -> bool) (t : tree) : bool :=
  match t with
  | Leaf _ => true
  | Node a _ kids => pb a && forallb (nodes_ok pb) kids
  end.

(* no /Pages node carries a CropBox, i.e. no CropBox is ever inherited *)
Definition no_crop (a : attrs) : bool := negb (isSome (a_crop a)).
Definition no_node_crop (t : tree) : bool := nodes_ok no_crop t.

Definition lenZ {A} (l : list A) : Z := Z.of_nat (length l).

(* ---------- ExtractPages / AddPages / addPage (pkg/pdfcpu/extract.go, pkg/pdfcpu/page.go) ----------
   Used by split, collect, trim and remove: a NEW context with a flat page tree is built; for every
   requested page number the page dict is copied with
     d["Resources"] = inherited resources, d["MediaBox"] = inhPAttrs.MediaBox,
     if inhPAttrs.CropBox != nil { d["CropBox"] = inhPAttrs.CropBox }
     if inhPAttrs.Rotate%360 != 0 { d["Rotate"] = inhPAttrs.Rotate }
   The new root is created by addPageTreeWithoutPage with MediaBox A4 and no other attributes. *)
Definition xpage (r : rpage) : pageD :=
  let (p, a) := r in
  mkPage (pg_id p)
    (mkAttrs (if Z.rem (rot_of a) 360 =? 0 then a_rot (pg_attrs p) else Some (rot_of a))
             (a_media a)
             (match a_crop a with Some c => Some c | None => a_crop (pg_attrs p) end)
             true)
    (pg_trim p) (pg_bleed p) (pg_art p).

(* observable page up to the representation of the rotation: /Rotate is taken modulo 360 *)
Definition norm_view (v : vpage) : vpage :=
  mkV (v_id v) (v_rot v mod 360) (v_media v) (v_crop v) (v_trim v) (v_bleed v) (v_art v).

Definition a4 : rect := (0, 0, 595, 842).
Definition new_root_attrs : attrs := mkAttrs None (Some a4) None false.

Fixpoint collect_pages (rs : list rpage) (n : Z) (nrs : list Z) : res (list pageD) :=
  match nrs with
  | [] => Ok []
  | k :: ks =>
      if (1 <=? k) && (k <=? n) then
        match nth_error rs (Z.to_nat (k - 1)), collect_pages rs n ks with
        | Some r, Ok l => Ok (xpage r :: l)
        | _, _ => Err
        end
      else Err                                  (* ErrInvalidPageNumber *)
  end.

Definition flat_tree (l : list pageD) : tree := Node new_root_attrs (lenZ l) (map Leaf l).

Definition extract_pages (t : tree) (nrs : list Z) : res tree :=
  match nrs with
  | [] => Err                                   (* ErrMissingPageNumbers *)
  | _ => match collect_pages (rpages t) (count_of t) nrs with
         | Ok l => Ok (flat_tree l)
         | Err => Err
         end
  end.

(* api.PagesForPageRange *)
Definition page_range (from thru : Z) : list Z :=
  if (from <? 1) || (thru <? from) then []
  else map (fun i => from + Z.of_nat i) (seq 0 (Z.to_nat (thru - from + 1))).

(* EmptyPage: blank page with an explicit MediaBox and empty Resources/Contents *)
Definition blank_page (mb : rect) : pageD :=
  mkPage 0 (mkAttrs None (Some mb) None true) None None None.
