(* C15 — round trip of the stream filters.  The filter and pipeline models are shared with C16
   (coq/C16/Model.v); this file only adds the vocabulary of the round-trip statements. No proofs. *)
From Coq Require Import ZArith NArith List Bool.
From PV Require Import C16.Model.
Import ListNotations.
Open Scope Z_scope.

(* a Go []byte *)
Definition bytes (l : list N) : Prop := Forall (fun b => (b < 256)%N) l.

(* A stage (filter + decode parameters) round-trips: Encode succeeds on every byte string, yields
   bytes, and Decode (unlimited) of the result is the original. *)
Definition stage_rt (s : stage) : Prop :=
  forall x, bytes x -> exists e, s_enc s x = Some e /\ bytes e /\ s_dec s e (-1) (-1) = DOk x.

(* stages built from the external codecs (Go encoding/ascii85, internal/filter/lzw, compress/zlib) *)
Definition a85_stage (a85enc : list N -> list N) (a85open : list N -> rstream) : stage :=
  Build_stage (fun x => Some (a85_encode a85enc x)) (a85_decode_length a85open).

Definition lzw_stage (lzwenc : bool -> list N -> list N) (lzwopen : bool -> list N -> rstream) (pm : parms) : stage :=
  Build_stage (fun x => Some (lzw_encode lzwenc pm x)) (lzw_decode_length lzwopen pm).

Definition flate_stage (zenc : list N -> list N) (zopen : list N -> option rstream) (pm : parms) : stage :=
  Build_stage (fun x => Some (flate_encode zenc pm x)) (flate_decode_length zopen pm).

(* the predictor is absent or PredictorNo *)
Definition no_predictor (pm : parms) : Prop := p_pred pm = None \/ p_pred pm = Some 1.

(* ------------------------------------------------------------------ pipelines as lists of (name, parms)
   StreamDict.FilterPipeline is a list of PDFFilter{Name, DecodeParms}; the same name may occur several
   times with different parameters.  Encode and Decode construct one filter per STAGE from that stage's
   own DecodeParms (filter.NewFilter(f.Name, parmsForFilter(f.DecodeParms))). *)
Inductive fname := FAHx | FRL | FA85 | FLZW | FFlate.
Definition fspec := (fname * parms)%type.

(* the external codecs *)
Record codecs := {
  c_a85enc : list N -> list N;  c_a85open : list N -> rstream;
  c_lzwenc : bool -> list N -> list N;  c_lzwopen : bool -> list N -> rstream;
  c_zenc : list N -> list N;  c_zopen : list N -> option rstream }.

(* codec contracts, per (name, parms): what was encoded under pm decodes under the same pm *)
Definition codecs_ok (c : codecs) : Prop :=
  (forall x, bytes x -> bytes (c_a85enc c x) /\ c_a85open c (c_a85enc c x) = (x, REof)) /\
  (forall pm x, bytes x -> bytes (c_lzwenc c (lzw_early pm) x) /\
                c_lzwopen c (lzw_early pm) (c_lzwenc c (lzw_early pm) x) = (x, REof)) /\
  (forall x, bytes x -> bytes (c_zenc c x) /\ c_zopen c (c_zenc c x) = Some (x, REof)).

(* filter.NewFilter(name, parms) as a stage *)
Definition spec_stage (c : codecs) (f : fspec) : stage :=
  match fst f with
  | FAHx => ahx_stage
  | FRL => rl_stage
  | FA85 => a85_stage (c_a85enc c) (c_a85open c)
  | FLZW => lzw_stage (c_lzwenc c) (c_lzwopen c) (snd f)
  | FFlate => flate_stage (c_zenc c) (c_zopen c) (snd f)
  end.

(* StreamDict.Encode / Decode of a pipeline given as (name, parms) list: every stage uses its own parms *)
Definition spec_encode (c : codecs) (specs : list fspec) (x : list N) : option (list N) :=
  pipe_encode (map (spec_stage c) specs) x.
Definition spec_decode (c : codecs) (specs : list fspec) (raw : list N) (maxLen mdb : Z) : dres :=
  pipe_decode (map (spec_stage c) specs) raw maxLen mdb.

(* parameter sets for which Encode is the inverse of Decode (see the two predictor findings) *)
Definition spec_accepted (f : fspec) : Prop :=
  match fst f with FLZW | FFlate => no_predictor (snd f) | _ => True end.

(* NOT the code: an encoder that constructs one filter per filter NAME (the last stage with that name
   wins, as a cache filled while encoding from the last stage to the first would do).  Only used to
   state that per-stage parameters matter (C15_name_cached_encoder_refuted). *)
Definition fname_eqb (a b : fname) : bool :=
  match a, b with FAHx, FAHx | FRL, FRL | FA85, FA85 | FLZW, FLZW | FFlate, FFlate => true | _, _ => false end.
Fixpoint last_parms (n : fname) (specs : list fspec) (dflt : parms) : parms :=
  match specs with
  | [] => dflt
  | f :: rest => last_parms n rest (if fname_eqb (fst f) n then snd f else dflt)
  end.
Fixpoint spec_encode_cached (c : codecs) (specs : list fspec) (x : list N) : option (list N) :=
  match specs with
  | [] => Some x
  | f :: rest =>
    match spec_encode_cached c rest x with
    | Some y => s_enc (spec_stage c (fst f, last_parms (fst f) rest (snd f))) y
    | None => None
    end
  end.
