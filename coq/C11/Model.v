(* C11 — Any PDF object pdfcpu writes parses back to the same object.
   Hand-written executable model.  No proofs here.

   Printers (two, transcribed separately):
     pkg/pdfcpu/types: Boolean/Integer/Float/Name/StringLiteral/HexLiteral/IndirectRef .PDFString,
                       Array.PDFString (array.go), Dict.PDFString (dict.go), EncodeName (string.go)
     pkg/pdfcpu/writeObjects_pdf.go: appendPDFObject, appendPDFArray, arrayObjectNeedsSpace,
                       appendPDFDict, appendPDFDictEntry, dictObjectNeedsSpace
   Parser: pkg/pdfcpu/model/parse.go: ParseObjectContext, parseObjectContext, parseObjectValue,
     trimLeftSpace, positionToNextWhitespaceOrChar, positionToNextEOL, parseArray, parseDict,
     processDictKeys, insertKey, parseName (+ types.DecodeName), parseStringLiteral,
     balancedParenthesesPrefix, parseHexLiteral, hexString, parseHexLiteralOrDict,
     parseBooleanOrNull, parseNumericOrIndRef, startParseNumericOrIndRef, parseIndRef, parseFloat,
     delimiter, CheckRecursionDepth (recursion.go).
   Go stdlib that is modelled, not verified: strconv.Atoi (transcribed: sign, digits, uint64
   cutoff, int64 range), strconv.ParseFloat (decimal syntax incl. exponent and underscores, and the
   overflow threshold; hex floats / inf / nan are NOT modelled: rejected here), unicode.IsSpace
   + UTF-8 decoding of `range s` (as the byte sequences of the white-space runes),
   strconv.FormatFloat(f,'f',12,64) / Itoa (decimal printing).  A real is a decimal
   (sign, mantissa, exponent): the binary <-> decimal conversion of float64 is outside the model.

   Bytes are N; byte strings are list N; Go ints are Z; nat only for fuel. *)
From Coq Require Import NArith ZArith List Bool.
From PV Require Import Lib.GoInt.
Import ListNotations.
Open Scope N_scope.

Definition bytes := list N.

(* ------------------------------------------------------------------ objects *)

Inductive obj :=
| ONull
| OBool (b : bool)
| OInt (z : Z)
| OReal (neg : bool) (m : N) (e : Z)        (* (-1)^neg * m * 10^e ; written reals have e = -12 *)
| OName (s : bytes)
| OStr (s : bytes)                          (* raw (escaped) content between the parentheses *)
| OHex (s : bytes)                          (* the hex digits between < and > *)
| ORef (a b : Z)
| OArr (l : list obj)
| ODict (d : list (bytes * obj)).           (* a Go map, listed in the order sort.Strings gives *)

(* ------------------------------------------------------------------ decimal printing *)

(* strconv.Itoa / AppendInt / FormatFloat integer part: decimal digits, most significant first *)
Fixpoint udigits (fuel : nat) (n : N) (acc : bytes) : bytes :=
  match fuel with
  | O => acc
  | S f => let acc' := (48 + n mod 10) :: acc in
           if n <? 10 then acc' else udigits f (n / 10) acc'
  end.
Definition utoa (n : N) : bytes := udigits (S (N.to_nat (N.log2 n))) n [].
Definition itoa (z : Z) : bytes := if (z <? 0)%Z then 45 :: utoa (Z.abs_N z) else utoa (Z.abs_N z).

(* exactly k digits, zero padded *)
Fixpoint fixdigits (k : nat) (n : N) (acc : bytes) : bytes :=
  match k with
  | O => acc
  | S k' => fixdigits k' (n / 10) ((48 + n mod 10) :: acc)
  end.

Definition pow12 : N := 1000000000000.
(* types.go Float.PDFString = strconv.FormatFloat(f,'f',12,64) on the decimal m * 10^-12 *)
Definition print_real (neg : bool) (m : N) : bytes :=
  (if neg then [45] else []) ++ utoa (m / pow12) ++ 46 :: fixdigits 12 (m mod pow12) [].

(* ------------------------------------------------------------------ names *)

(* string.go:needsHexSequence *)
Definition needs_hex (c : N) : bool :=
  (c =? 40) || (c =? 41) || (c =? 60) || (c =? 62) || (c =? 91) || (c =? 93) || (c =? 123) || (c =? 125)
  || (c =? 47) || (c =? 37) || (c =? 35) || (c <? 33) || (126 <? c).

(* hex.EncodeToString digit (lower case) *)
Definition hexdig (v : N) : N := if v <? 10 then 48 + v else 87 + v.

(* string.go:EncodeName *)
Definition enc1 (c : N) : bytes := if needs_hex c then [35; hexdig (c / 16); hexdig (c mod 16)] else [c].
Definition encode_name (s : bytes) : bytes := flat_map enc1 s.

(* hex.DecodeString digit value (both cases) *)
Definition hexval (c : N) : option N :=
  if (48 <=? c) && (c <=? 57) then Some (c - 48)
  else if (97 <=? c) && (c <=? 102) then Some (c - 87)
  else if (65 <=? c) && (c <=? 70) then Some (c - 55)
  else None.

(* string.go:DecodeName; None = error *)
Fixpoint decode_name (s : bytes) : option bytes :=
  match s with
  | [] => Some []
  | c :: t =>
    if c =? 0 then None
    else if c =? 35 then
      match t with
      | h :: t1 =>
        match t1 with
        | l :: t2 =>
          match hexval h, hexval l with
          | Some hv, Some lv =>
            let b := hv * 16 + lv in
            if b =? 0 then None
            else match decode_name t2 with Some r => Some (b :: r) | None => None end
          | _, _ => None
          end
        | [] => None
        end
      | [] => None
      end
    else match decode_name t with Some r => Some (c :: r) | None => None end
  end.

(* string.go:Escape (used by callers to build StringLiteral values; tied by the harness) *)
Definition esc1 (c : N) : bytes :=
  if c =? 10 then [92; 110] else if c =? 13 then [92; 114] else if c =? 9 then [92; 116]
  else if c =? 8 then [92; 98] else if c =? 12 then [92; 102]
  else if (c =? 92) || (c =? 40) || (c =? 41) then [92; c]
  else [c].
Definition escape (s : bytes) : bytes := flat_map esc1 s.

(* ------------------------------------------------------------------ printers *)

Definition s_null : bytes := [110; 117; 108; 108].
Definition s_true : bytes := [116; 114; 117; 101].
Definition s_false : bytes := [102; 97; 108; 115; 101].

(* types.go Name.PDFString: "/" + (" " for the empty name, else EncodeName) *)
Definition print_name (s : bytes) : bytes := 47 :: match s with [] => [32] | _ => encode_name s end.

(* array.go Array.PDFString: which entry kinds get sepstr *)
Definition arr_sep_S (o : obj) : bool :=
  match o with ODict _ | OArr _ | OName _ => false | _ => true end.
(* dict.go Dict.PDFString: which value kinds are written "/%s %s" *)
Definition dict_sep_S (o : obj) : bool :=
  match o with ONull | ORef _ _ | OInt _ | OReal _ _ _ | OBool _ => true | _ => false end.

(* types: PDFString *)
Fixpoint print_S (o : obj) : bytes :=
  match o with
  | ONull => s_null
  | OBool b => if b then s_true else s_false
  | OInt z => itoa z
  | OReal neg m _ => print_real neg m
  | OName s => print_name s
  | OStr s => 40 :: s ++ [41]
  | OHex s => 60 :: s ++ [62]
  | ORef a b => itoa a ++ 32 :: itoa b ++ [32; 82]
  | OArr l =>
    91 :: (fix items (first : bool) (l : list obj) : bytes :=
             match l with
             | [] => [93]
             | x :: t => (if first then [] else if arr_sep_S x then [32] else []) ++ print_S x ++ items false t
             end) true l
  | ODict d =>
    60 :: 60 :: (fix ents (d : list (bytes * obj)) : bytes :=
                   match d with
                   | [] => [62; 62]
                   | (k, v) :: t => 47 :: encode_name k ++ (if dict_sep_S v then [32] else []) ++ print_S v ++ ents t
                   end) d
  end.

(* writeObjects_pdf.go:arrayObjectNeedsSpace *)
Definition arr_sep_A (o : obj) : bool :=
  match o with ODict _ | OArr _ | OName _ => false | _ => true end.
(* writeObjects_pdf.go:dictObjectNeedsSpace *)
Definition dict_sep_A (o : obj) : bool :=
  match o with ODict _ | OArr _ | OName _ | OStr _ | OHex _ => false | _ => true end.

(* writeObjects_pdf.go:appendPDFObject / appendPDFArray / appendPDFDict / appendPDFDictEntry *)
Fixpoint print_A (o : obj) : bytes :=
  match o with
  | ONull => s_null
  | OBool b => if b then s_true else s_false                 (* strconv.AppendBool *)
  | OInt z => itoa z                                          (* strconv.AppendInt *)
  | OReal neg m _ => print_real neg m                         (* strconv.AppendFloat 'f' 12 *)
  | OName s => print_name s
  | OStr s => 40 :: s ++ [41]
  | OHex s => 60 :: s ++ [62]
  | ORef a b => itoa a ++ 32 :: itoa b ++ [32; 82]
  | OArr l =>
    91 :: (fix items (first : bool) (l : list obj) : bytes :=
             match l with
             | [] => [93]
             | x :: t => (if negb first && arr_sep_A x then [32] else []) ++ print_A x ++ items false t
             end) true l
  | ODict d =>
    60 :: 60 :: (fix ents (d : list (bytes * obj)) : bytes :=
                   match d with
                   | [] => [62; 62]
                   | (k, v) :: t => 47 :: encode_name k ++ (if dict_sep_A v then [32] else []) ++ print_A v ++ ents t
                   end) d
  end.

(* ------------------------------------------------------------------ white space *)

(* byte classes used by trimLeftSpace *)
Inductive bcls := BSp (* \t \v \f ' ' *) | BEol (* \n \r *) | BNul | BPct | BC2 | BE1 | BE2 | BE3 | BOther.
Definition cls (c : N) : bcls :=
  if (c =? 9) || (c =? 11) || (c =? 12) || (c =? 32) then BSp
  else if (c =? 10) || (c =? 13) then BEol
  else if c =? 0 then BNul
  else if c =? 37 then BPct
  else if c =? 194 then BC2
  else if c =? 225 then BE1
  else if c =? 226 then BE2
  else if c =? 227 then BE3
  else BOther.

(* unicode.IsSpace on the rune that `range s` decodes at the head of l:
   length in bytes of that rune if it is white space, else 0.
   U+0085 U+00A0 | U+1680 | U+2000..U+200A U+2028 U+2029 U+202F U+205F | U+3000 *)
Definition uspace_len (l : bytes) : nat :=
  match l with
  | [] => O
  | c :: t =>
    match cls c with
    | BSp | BEol => 1%nat
    | BC2 => match t with d :: _ => if (d =? 133) || (d =? 160) then 2%nat else O | [] => O end
    | BE1 => match t with d :: e :: _ => if (d =? 154) && (e =? 128) then 3%nat else O | _ => O end
    | BE2 => match t with
             | d :: e :: _ =>
               if ((d =? 128) && (((128 <=? e) && (e <=? 138)) || (e =? 168) || (e =? 169) || (e =? 175)))
                  || ((d =? 129) && (e =? 159)) then 3%nat else O
             | _ => O end
    | BE3 => match t with d :: e :: _ => if (d =? 128) && (e =? 128) then 3%nat else O | _ => O end
    | _ => O
    end
  end.

(* strings.TrimLeftFunc(s, unicode.IsSpace) *)
Fixpoint trim_uspace (fuel : nat) (l : bytes) : bytes :=
  match fuel with
  | O => l
  | S f => match uspace_len l with O => l | n => trim_uspace f (skipn n l) end
  end.
(* the whole of l is white space *)
Definition uspaces_only (l : bytes) : bool :=
  match trim_uspace (length l) l with [] => true | _ => false end.
(* strings.TrimSpace *)
Fixpoint trim_right (l : bytes) : bytes :=
  match l with [] => [] | c :: t => if uspaces_only l then [] else c :: trim_right t end.
Definition trim_space (l : bytes) : bytes := trim_right (trim_uspace (length l) l).

(* parse.go:trimLeftSpace(s, relaxed) -> (s, eol).
   One pass: [cmt] = inside a '%' comment; [noeol] = in this round of the for loop only
   whitespaceNoEol runes ('\t','\v','\f',' ',U+85,U+A0,0) have been removed so far, so a '\n'/'\r'
   found now is what `s[0]` is after the first TrimLeftFunc of the relaxed branch. *)
Fixpoint tls (relaxed cmt noeol eol : bool) (l : bytes) : bytes * bool :=
  match l with
  | [] => ([], eol)
  | c :: t =>
    if cmt then
      match cls c with
      | BEol => tls relaxed false true (eol || relaxed) t   (* positionToNextEOL stops here; next round: s[0] is this EOL *)
      | _ => tls relaxed true noeol eol t
      end
    else
      match cls c with
      | BSp | BNul => tls relaxed false noeol eol t
      | BEol => tls relaxed false noeol (eol || (relaxed && noeol)) t
      | BPct => match t with [] => (l, eol) | _ => tls relaxed true noeol eol t end
      | BC2 => match t with
               | d :: t2 => if (d =? 133) || (d =? 160) then tls relaxed false noeol eol t2 else (l, eol)
               | [] => (l, eol) end
      | BE1 | BE2 | BE3 =>
        match uspace_len l, t with
        | S (S (S O)), _ :: _ :: t3 => tls relaxed false false eol t3
        | _, _ => (l, eol)
        end
      | BOther => (l, eol)
      end
  end.

Definition trim_left_space (relaxed : bool) (l : bytes) : bytes * bool := tls relaxed false true false l.
Definition trim (l : bytes) : bytes := fst (trim_left_space false l).

(* ------------------------------------------------------------------ tokens *)

(* parse.go:positionToNextWhitespaceOrChar(s, chars) with chars non-empty:
   Some (s[:i], s[i:]) for the first i whose rune is in chars, white space or 0; None for -1. *)
Fixpoint tok_split (chars : N -> bool) (l : bytes) : option (bytes * bytes) :=
  match l with
  | [] => None
  | c :: t =>
    if (c =? 0) || chars c || negb (Nat.eqb (uspace_len l) 0) then Some ([], l)
    else match tok_split chars t with Some (p, s) => Some (c :: p, s) | None => None end
  end.

Definition in_set (set : bytes) (c : N) : bool := existsb (N.eqb c) set.
Definition set_name : bytes := [47; 60; 62; 40; 41; 91; 93; 37].   (* "/<>()[]%" parseName *)
Definition set_num1 : bytes := [47; 60; 40; 91; 93; 62; 37].       (* "/<([]>%" startParseNumericOrIndRef *)
Definition set_num2 : bytes := [47; 60; 40; 91; 93; 62].           (* "/<([]>"  parseNumericOrIndRef *)
Definition delimiter (c : N) : bool := in_set [60; 62; 91; 93; 40; 41; 47] c.  (* parse.go:delimiter "<>[]()/" *)

(* parse.go:parseName on a line that starts with '/': (decoded name or None on error, new *line).
   The line is advanced before decoding, so it is advanced on a decode error too. *)
Definition parse_name (l : bytes) : option bytes * bytes :=
  match l with
  | c :: t =>
    if c =? 47 then
      match tok_split (in_set set_name) t with
      | None => (decode_name t, [])
      | Some (p, s) => (decode_name p, s)
      end
    else (None, l)
  | [] => (None, l)
  end.

(* parse.go:balancedParenthesesPrefix, started behind the opening '(' with j = 1:
   Some (content, rest behind the closing ')') *)
Fixpoint bal_scan (j : N) (esc : bool) (l : bytes) : option (bytes * bytes) :=
  match l with
  | [] => None
  | c :: t =>
    let keep r := match r with Some (p, s) => Some (c :: p, s) | None => None end in
    if esc then keep (bal_scan j false t)
    else if c =? 92 then keep (bal_scan j true t)
    else
      let j' := if c =? 40 then j + 1 else if c =? 41 then j - 1 else j in
      if j' =? 0 then Some ([], t) else keep (bal_scan j' false t)
  end.

(* a literal string content that balancedParenthesesPrefix closes exactly at its end *)
Fixpoint bal_wf (j : N) (esc : bool) (l : bytes) : bool :=
  match l with
  | [] => negb esc && (j =? 1)
  | c :: t =>
    if esc then bal_wf j false t
    else if c =? 92 then bal_wf j true t
    else
      let j' := if c =? 40 then j + 1 else if c =? 41 then j - 1 else j in
      negb (j' =? 0) && bal_wf j' false t
  end.

(* hexString: None = junk *)
Definition is_hexws (c : N) : bool := (c =? 32) || (c =? 9) || (c =? 10) || (c =? 12) || (c =? 13).
Definition hex_upper (c : N) : option N :=
  if (48 <=? c) && (c <=? 57) then Some c
  else if (65 <=? c) && (c <=? 70) then Some c
  else if (97 <=? c) && (c <=? 102) then Some (c - 32)
  else None.
(* odd = number of digits written since the last padding is odd *)
Fixpoint hex_string (odd : bool) (l : bytes) : option bytes :=
  match l with
  | [] => Some (if odd then [48] else [])
  | c :: t =>
    if is_hexws c then
      match hex_string false t with Some r => Some (if odd then 48 :: r else r) | None => None end
    else match hex_upper c with
         | Some u => match hex_string (negb odd) t with Some r => Some (u :: r) | None => None end
         | None => None
         end
  end.

Fixpoint split_at (x : N) (l : bytes) : option (bytes * bytes) :=
  match l with
  | [] => None
  | c :: t => if c =? x then Some ([], t)
              else match split_at x t with Some (p, s) => Some (c :: p, s) | None => None end
  end.

(* ------------------------------------------------------------------ numbers *)

Inductive ares := AOk (z : Z) | ASyntax | ARange.

Definition is_digit (c : N) : bool := (48 <=? c) && (c <=? 57).
Definition max_u64 : Z := 18446744073709551615.
Definition cutoff_u64 : Z := 1844674407370955162.   (* maxUint64/10 + 1 *)

(* strconv.ParseUint(s, 10, 64) main loop *)
Fixpoint atoi_digits (acc : Z) (l : bytes) : ares :=
  match l with
  | [] => AOk acc
  | c :: t =>
    if is_digit c then
      if (cutoff_u64 <=? acc)%Z then ARange
      else let n1 := (acc * 10 + Z.of_N (c - 48))%Z in
           if (max_u64 <? n1)%Z then ARange else atoi_digits n1 t
    else ASyntax
  end.

(* strconv.Atoi on a 64-bit platform *)
Definition atoi (s : bytes) : ares :=
  match s with
  | [] => ASyntax
  | c :: t =>
    let neg := c =? 45 in
    let body := if (c =? 43) || (c =? 45) then t else s in
    match body with
    | [] => ASyntax
    | _ =>
      match atoi_digits 0 body with
      | AOk un =>
        if neg then (if (9223372036854775808 <? un)%Z then ARange else AOk (- un))
        else (if (9223372036854775807 <? un)%Z then ARange else AOk un)
      | e => e
      end
    end
  end.

(* startParseNumericOrIndRef: drop a "0" / "0.000" prefix in front of a sign *)
Fixpoint drop_zeros (l : bytes) : bytes :=
  match l with c :: t => if c =? 48 then drop_zeros t else l | [] => l end.
Definition is_sign (c : N) : bool := (c =? 43) || (c =? 45).
Definition zero_hack (str : bytes) : bytes :=
  match str with
  | c0 :: c :: t =>
    if negb (c0 =? 48) then str
    else if is_sign c then c :: t
    else if c =? 46 then
      match drop_zeros t with
      | d :: t' => if is_sign d then d :: t' else str
      | [] => str
      end
    else str
  | _ => str
  end.

(* strings.Replace(s, [a], [b], 1) for one byte a *)
Fixpoint replace1 (a b : N) (l : bytes) : bytes :=
  match l with [] => [] | c :: t => if c =? a then b :: t else c :: replace1 a b t end.
(* strings.Replace(s, ".-", ".", 1) *)
Fixpoint replace_dotminus (l : bytes) : bytes :=
  match l with
  | c :: t => match t with
              | d :: t2 => if (c =? 46) && (d =? 45) then 46 :: t2 else c :: replace_dotminus t
              | [] => l
              end
  | [] => []
  end.

(* strconv.readFloat, base 10: digits and '_' *)
Fixpoint span_du (l : bytes) : (bytes * bool) * bytes :=       (* (digits, saw '_'), rest *)
  match l with
  | c :: t =>
    if is_digit c then let '(ds, us, r) := span_du t in (c :: ds, us, r)
    else if c =? 95 then let '(ds, _, r) := span_du t in (ds, true, r)
    else ([], false, l)
  | [] => ([], false, [])
  end.
Definition dval (acc : N) (l : bytes) : N := fold_left (fun a c => a * 10 + (c - 48)) l acc.
(* exponent accumulation: if e < 10000 { e = e*10 + d } *)
Definition eval_sat (l : bytes) : Z :=
  fold_left (fun e c => if (e <? 10000)%Z then (e * 10 + Z.of_N (c - 48))%Z else e) l 0%Z.

(* strconv.underscoreOK on a decimal literal without base prefix *)
Fixpoint us_ok (saw : N) (l : bytes) : bool :=     (* saw: 94 '^', 48 '0', 95 '_', 33 '!' *)
  match l with
  | [] => negb (saw =? 95)
  | c :: t =>
    if is_digit c then us_ok 48 t
    else if c =? 95 then (saw =? 48) && us_ok 95 t
    else if saw =? 95 then false
    else us_ok 33 t
  end.
Definition underscore_ok (s : bytes) : bool :=
  let s := match s with c :: t => if is_sign c then t else s | [] => s end in
  match s with
  | 48 :: c :: _ => if (c =? 98) || (c =? 66) || (c =? 111) || (c =? 79) || (c =? 120) || (c =? 88)
                    then false (* base prefix: not modelled *) else us_ok 94 s
  | _ => us_ok 94 s
  end.

(* 2^1024 - 2^970: decimals at or above it round to +Inf (ParseFloat: ErrRange) *)
Definition f64_over : Z := (2 ^ 1024 - 2 ^ 970)%Z.
Definition overflows (m : N) (nd : Z) (e : Z) : bool :=     (* nd = number of digits of the mantissa text *)
  if m =? 0 then false
  else if (0 <=? e)%Z then
    if (400 <? e)%Z then true else (f64_over <=? Z.of_N m * 10 ^ e)%Z
  else if (nd <? - e)%Z then false
  else (f64_over * 10 ^ (- e) <=? Z.of_N m)%Z.

(* strconv.ParseFloat(s, 64) restricted to decimal syntax: Some (neg, mantissa, exp10) / None = error.
   Not modelled (None): hex floats "0x..p..", "inf", "infinity", "nan". *)
Definition pf_body (neg : bool) (s body : bytes) : option (bool * N * Z) :=
  let '(d1, us1, r1) := span_du body in
  let '(d2, us2, r2, dot) :=
    match r1 with
    | cd :: t => if cd =? 46 then let '(d2, us2, r2) := span_du t in (d2, us2, r2, true)
                 else ([], false, r1, false)
    | [] => ([], false, r1, false)
    end in
  match d1 ++ d2 with
  | [] => None                                        (* !sawdigits *)
  | _ =>
    let ds := d1 ++ d2 in
    let m := dval 0 ds in
    let fin (us : bool) (e : Z) :=
      if us && negb (underscore_ok s) then None
      else let e10 := (e - Z.of_nat (length d2))%Z in
           if overflows m (Z.of_nat (length ds)) e10 then None else Some (neg, m, e10) in
    match r2 with
    | [] => fin (us1 || us2) 0%Z
    | ce :: te =>
      if (ce =? 101) || (ce =? 69) then
        match te with
        | [] => None
        | sg :: te' =>
          let eneg := sg =? 45 in
          let edig := if is_sign sg then te' else te in
          match edig with
          | [] => None
          | d0 :: _ =>
            if is_digit d0 then
              let '(de, use, re) := span_du edig in
              match re with
              | [] => let e := eval_sat de in fin (us1 || us2 || use) (if eneg then - e else e)%Z
              | _ => None
              end
            else None
          end
        end
      else None
    end
  end.

Definition parse_float (s : bytes) : option (bool * N * Z) :=
  match s with
  | [] => None
  | c0 :: t0 => pf_body (c0 =? 45) s (if is_sign c0 then t0 else s)
  end.

(* parse.go:parseFloat : None = (nil, nil) "skip junk" *)
Definition parse_float_tok (s : bytes) : option (bool * N * Z) :=
  let s1 := replace1 44 46 s in
  match parse_float s1 with
  | Some r => Some r
  | None => parse_float (replace_dotminus s1)
  end.

(* the look-ahead of parseNumericOrIndRef + parseIndRef behind the first integer;
   s = l[i1:] (starts with a white-space or '%' byte).  Some (generation, line behind 'R'). *)
Definition lookahead (s : bytes) : option (Z * bytes) :=
  match trim s with
  | [] => None
  | l =>
    match tok_split (in_set set_num2) l with
    | None => None                                   (* i2 = -1 *)
    | Some ([], _) => None                           (* i2 = 0 *)
    | Some (p2, s2) =>
      match s2 with
      | [] => None
      | c2 :: _ =>
        if delimiter c2 then None
        else match atoi p2 with
             | AOk g => match trim s2 with
                        | cr :: t => if cr =? 82 then Some (g, t) else None
                        | [] => None
                        end
             | _ => None
             end
      end
    end
  end.

Definition has_dot_comma (s : bytes) : bool := existsb (fun c => (c =? 46) || (c =? 44)) s.

Definition float_or_null (str l1 : bytes) : obj * bytes :=
  match parse_float_tok str with Some (n, m, e) => (OReal n m e, l1) | None => (ONull, l1) end.

(* parse.go:parseNumericOrIndRef on a non-empty line: (object, new line) *)
Definition parse_numeric (l : bytes) : obj * bytes :=
  let sp := tok_split (in_set set_num1) l in
  let '(str, l1, pos) :=
    match sp with
    | Some (c :: p, s) => (c :: p, s, true)          (* i1 > 0 *)
    | _ => (l, [], false)                            (* i1 <= 0: str = l, l1 = "" *)
    end in
  let str := zero_hack str in
  match atoi str with
  | ARange =>
    if negb (has_dot_comma str) then (OInt 0, l1)    (* #407 *)
    else float_or_null str l1
  | ASyntax => float_or_null str l1
  | AOk i =>
    if negb pos then (OInt i, l1)
    else match l1 with
         | [] => (OInt i, l1)
         | c1 :: _ =>
           if delimiter c1 then (OInt i, l1)
           else match lookahead l1 with
                | Some (g, r) => (ORef i g, r)
                | None => (OInt i, l1)
                end
         end
  end.

(* parse.go:parseBooleanOrNull (strings.ToLower on ASCII letters) *)
Definition lower (c : N) : N := if (65 <=? c) && (c <=? 90) then c + 32 else c.
Fixpoint ci_prefix (pat l : bytes) : option bytes :=
  match pat with
  | [] => Some l
  | p :: pt => match l with
               | c :: t => if lower c =? p then ci_prefix pt t else None
               | [] => None
               end
  end.
Definition bool_or_null (l : bytes) : option (obj * bytes) :=
  match ci_prefix s_null l with
  | Some r => Some (ONull, r)
  | None =>
    match ci_prefix s_true l with
    | Some r => Some (OBool true, r)
    | None => match ci_prefix s_false l with
              | Some r => Some (OBool false, r)
              | None => None
              end
    end
  end.

(* ------------------------------------------------------------------ the parser *)

Inductive perr := EDepth | EOther.
Inductive pres := POk (o : obj) (rest : bytes) | PErr (e : perr) | POOF.

Fixpoint bytes_eqb (a b : bytes) : bool :=
  match a, b with
  | [], [] => true
  | x :: a', y :: b' => (x =? y) && bytes_eqb a' b'
  | _, _ => false
  end.

(* parse.go:insertKey on the key-ordered view of the map: replace or add *)
Fixpoint dict_insert (k : bytes) (v : obj) (d : list (bytes * obj)) : list (bytes * obj) :=
  match d with
  | [] => [(k, v)]
  | (k', v') :: t => if bytes_eqb k k' then (k, v) :: t else (k', v') :: dict_insert k v t
  end.

Definition is_null (o : obj) : bool := match o with ONull => true | _ => false end.

(* recursion.go:CheckRecursionDepth: maxDepth <= 0 means the default 100 *)
Definition eff_depth (maxd : Z) : Z := if (maxd <=? 0)%Z then 100%Z else maxd.

Definition parse_strlit (l : bytes) : pres :=     (* l starts with '(' *)
  match l with
  | _ :: (_ :: _) as t =>
    match bal_scan 1 false t with
    | Some (p, s) => POk (OStr p) s
    | None => PErr EOther
    end
  | _ => PErr EOther
  end.

Definition parse_hexlit (l : bytes) : pres :=     (* l starts with '<', len >= 2 *)
  match l with
  | _ :: t =>
    match split_at 62 t with
    | None => PErr EOther
    | Some (p, s) =>
      match trim_space p with
      | [] => POk (OHex []) s
      | q => match hex_string false q with
             | Some h => POk (OHex h) s
             | None => POk ONull s                 (* "Skip junk": (nil, nil) *)
             end
      end
    end
  | [] => PErr EOther
  end.

Fixpoint parse_obj (fuel : nat) (relaxed : bool) (maxd level : Z) (l : bytes) {struct fuel} : pres :=
  match fuel with
  | O => POOF
  | S f =>
    match l with
    | [] => PErr EOther
    | _ =>
      if (eff_depth maxd <? level)%Z then PErr EDepth else
      match trim l with
      | [] => PErr EOther
      | (c :: t) as l1 =>
        if c =? 91 then                                              (* '[' parseArray *)
          match t with
          | [] => PErr EOther
          | _ => match trim t with
                 | [] => PErr EOther
                 | l2 => parse_arr f relaxed maxd level l2 []
                 end
          end
        else if c =? 47 then                                         (* '/' parseName *)
          match parse_name l1 with
          | (Some n, r) => POk (OName n) r
          | (None, _) => PErr EOther
          end
        else if c =? 60 then                                         (* '<' parseHexLiteralOrDict *)
          match t with
          | [] => PErr EOther
          | d :: t2 =>
            if d =? 60 then                                          (* parseDict *)
              match t2 with
              | _ :: _ :: _ =>
                match trim t2 with
                | [] => PErr EOther
                | l2 => parse_dict f relaxed maxd level l2 []
                end
              | _ => PErr EOther                                     (* len(l) < 4 *)
              end
            else parse_hexlit l1
          end
        else if c =? 40 then parse_strlit l1                         (* '(' *)
        else match bool_or_null l1 with
             | Some (v, r) => POk v r
             | None => let '(v, r) := parse_numeric l1 in POk v r
             end
      end
    end
  end
(* the for loop of parseArray; l is non-empty and trimmed; acc = entries so far, reversed *)
with parse_arr (fuel : nat) (relaxed : bool) (maxd level : Z) (l : bytes) (acc : list obj) {struct fuel} : pres :=
  match fuel with
  | O => POOF
  | S f =>
    match l with
    | [] => PErr EOther                      (* not reached: callers pass a non-empty line *)
    | c :: t =>
      if c =? 93 then POk (OArr (rev acc)) t else
      match parse_obj f relaxed maxd (level + 1) l with
      | POk o l' =>
        match l' with
        | [] => PErr EOther
        | _ => match trim l' with
               | [] => PErr EOther
               | l'' => parse_arr f relaxed maxd level l'' (o :: acc)
               end
        end
      | e => e
      end
    end
  end
(* the for loop of processDictKeys + the end of parseDict; d = entries so far *)
with parse_dict (fuel : nat) (relaxed : bool) (maxd level : Z) (l : bytes) (d : list (bytes * obj)) {struct fuel} : pres :=
  match fuel with
  | O => POOF
  | S f =>
    match l with
    | [] => POk (ODict d) []
    | c :: t =>
      if (c =? 62) && (match t with c' :: _ => c' =? 62 | [] => false end) then POk (ODict d) (tl t) else
      match parse_name l with
      | (None, l1) =>
        if relaxed then                                              (* skip junk, continue *)
          parse_dict f relaxed maxd level (fst (trim_left_space relaxed (tl l1))) d
        else PErr EOther
      | (Some k, l1) =>
        let '(l2, eol) := trim_left_space relaxed l1 in
        match l2 with
        | [] => PErr EOther
        | _ =>
          let vres := if eol then POk (OStr []) l2 else parse_obj f relaxed maxd (level + 1) l2 in
          match vres with
          | POk v l3 =>
            let d' := if is_null v then d else dict_insert k v d in
            match l3 with
            | _ :: _ :: _ =>
              match trim l3 with
              | [] => PErr EOther
              | l4 => parse_dict f relaxed maxd level l4 d'
              end
            | _ => PErr EOther
            end
          | e => e
          end
        end
      end
    end
  end.

(* parse.go:ParseObjectContext: strict, then relaxed unless the depth limit was hit *)
Definition parse_fuel (l : bytes) : nat := (2 * length l + 2)%nat.
Definition parse_top (maxd level : Z) (l : bytes) : pres :=
  match l with
  | [] => PErr EOther
  | _ =>
    match parse_obj (parse_fuel l) false maxd level l with
    | PErr EOther => parse_obj (parse_fuel l) true maxd level l
    | r => r
    end
  end.

(* ------------------------------------------------------------------ the property's vocabulary *)

Definition in_i64 (z : Z) : bool := (-9223372036854775808 <=? z)%Z && (z <=? 9223372036854775807)%Z.
Definition name_wf (s : bytes) : bool := forallb (fun c => (0 <? c) && (c <? 256)) s.
Definition is_hex (c : N) : bool := match hex_upper c with Some _ => true | None => false end.

Fixpoint nodup_keys (d : list (bytes * obj)) : bool :=
  match d with
  | [] => true
  | (k, _) :: t => negb (existsb (fun kv => bytes_eqb k (fst kv)) t) && nodup_keys t
  end.

(* the objects the property quantifies over *)
Fixpoint wf (o : obj) : bool :=
  match o with
  | ONull | OBool _ => true
  | OInt z => in_i64 z
  | OReal _ m e => (e =? -12)%Z && (Z.of_N m <? f64_over * 10 ^ 12)%Z   (* finite: below the float64 overflow threshold *)
  | OName s => name_wf s
  | OStr s => bal_wf 1 false s
  | OHex s => forallb is_hex s
  | ORef a b => in_i64 a && in_i64 b
  | OArr l => forallb wf l
  | ODict d => forallb (fun kv => name_wf (fst kv) && wf (snd kv)) d && nodup_keys d
  end.

Fixpoint depth (o : obj) : Z :=
  match o with
  | OArr l => 1 + fold_right (fun x a => Z.max (depth x) a) 0%Z l
  | ODict d => 1 + fold_right (fun kv a => Z.max (depth (snd kv)) a) 0%Z d
  | _ => 0%Z
  end.

(* hexString on hex digits: upper case, padded to even length *)
Definition hex_norm (s : bytes) : bytes :=
  map (fun c => match hex_upper c with Some u => u | None => c end) s
  ++ (if Nat.odd (length s) then [48] else []).

(* what the written object reads back as *)
Fixpoint norm (o : obj) : obj :=
  match o with
  | OHex s => OHex (hex_norm s)
  | OArr l => OArr (map norm l)
  | ODict d => ODict (flat_map (fun kv => if is_null (snd kv) then [] else [(fst kv, norm (snd kv))]) d)
  | _ => o
  end.

(* the empty name is written "/ ": the blank stays in the buffer *)
Definition residue (o : obj) : bytes := match o with OName [] => [32] | _ => [] end.

(* what may follow a written object in the buffer: a token end, no "int R" look-ahead *)
Definition tok_end (rest : bytes) : bool :=
  match rest with
  | [] => true
  | c :: _ => (c =? 32) || in_set set_num2 c
  end.
Definition no_R (rest : bytes) : bool :=
  match trim rest with c :: _ => negb (c =? 82) | [] => true end.
Definition no_ref (rest : bytes) : bool :=
  match rest with
  | [] => true
  | c :: _ => delimiter c || match lookahead rest with None => true | Some _ => false end
  end.
Definition follow (rest : bytes) : bool := tok_end rest && no_ref rest && no_R rest.
