(* C38: document level — AddWatermarks on selected pages, RemoveWatermarks, DetectWatermarks. *)
From Coq Require Import List NArith Bool Lia.
From PV Require Import C38.Model C38.ProofsIndex C38.ProofsRemove C38.ProofsPage.
Import ListNotations.
Open Scope N_scope.

Definition has_contents (ct : contents) : bool := match ct with CNone => false | _ => true end.

(* some selected page can carry a watermark *)
Fixpoint any_sel (sel : list bool) (ps : list page) : bool :=
  match ps with
  | [] => false
  | p :: ps' => (hd false sel && nonempty_page (pg_ct p)) || any_sel (tl sel) ps'
  end.

(* precondition of the round trip:
   - every page is free of watermark artifacts;
   - every page that received a watermark is selected for removal;
   - [the exact complement of the defect classes] every page selected for removal that did NOT
     receive a watermark has its own /Resources entry and a /Contents entry. *)
Fixpoint pre (sela selr : list bool) (ps : list page) : bool :=
  match ps with
  | [] => true
  | p :: ps' =>
      let a := hd false sela in
      let r := hd false selr in
      clean_page (pg_ct p) && implb a r
      && (if r && negb a then pg_res p && has_contents (pg_ct p) else true)
      && pre (tl sela) (tl selr) ps'
  end.

Definition page_rel (p q : page) : Prop :=
  wrap_equiv (page_bytes (pg_ct p)) (page_bytes (pg_ct q)) /\ clean_page (pg_ct q) = true.

Lemma wrap_equiv_refl c : wrap_equiv c c.
Proof.
  exists [], []. split; [reflexivity|]. split; [reflexivity|]. left. simpl. rewrite app_nil_r. reflexivity.
Qed.

Section Doc.
  Variables mtx x y : bytes.
  Hypothesis Hok : wm_ok mtx x y = true.
  Let wm := wmbb mtx x y.

  Lemma hd_match (sel : list bool) : match sel with [] => false | b :: _ => b end = hd false sel.
  Proof. destruct sel; reflexivity. Qed.

  Lemma add_pages_cons onTop sel p ps :
    add_pages onTop wm sel (p :: ps) =
    (if hd false sel then {| pg_res := true; pg_ct := add_page onTop None wm (pg_ct p) |} else p)
    :: add_pages onTop wm (tl sel) ps.
  Proof. destruct sel; reflexivity. Qed.

  Lemma remove_add_pages onTop : forall ps sela selr removed,
    pre sela selr ps = true ->
    exists qs, remove_pages selr (add_pages onTop wm sela ps) removed = inr (qs, removed || any_sel sela ps)
               /\ Forall2 page_rel ps qs.
  Proof.
    induction ps as [|p ps IH]; intros sela selr removed Hpre.
    - exists []. split; [simpl; rewrite orb_false_r; reflexivity|constructor].
    - cbn [pre] in Hpre. repeat (apply andb_true_iff in Hpre; destruct Hpre as [Hpre ?]).
      rename Hpre into Hcl. rename H into Hrest. rename H0 into Hdef. rename H1 into Himp.
      rewrite add_pages_cons. cbn [any_sel].
      destruct (hd false sela) eqn:Ha; cbn [remove_pages]; rewrite hd_match.
      + (* the page received a watermark, hence is selected for removal *)
        simpl in Himp. rewrite Himp. cbn [pg_res pg_ct negb andb].
        pose proof (page_roundtrip mtx x y Hok onTop (pg_ct p) Hcl) as Hrt. fold wm in Hrt. rewrite Hrt.
        destruct (IH (tl sela) (tl selr) (removed || nonempty_page (pg_ct p)) Hrest) as [qs [Hq HR]].
        exists ({| pg_res := true; pg_ct := expected_after onTop (pg_ct p) |} :: qs).
        destruct (nonempty_page (pg_ct p)) eqn:Hne.
        * rewrite Hq. split; [rewrite orb_assoc; reflexivity|].
          constructor; [|exact HR]. split; [apply page_equiv|apply after_clean; exact Hcl].
        * assert (Hct : pg_ct p = CArray []).
          { destruct (pg_ct p) as [|c|[|c a]]; try discriminate. reflexivity. }
          rewrite Hq. rewrite Hct. split; [rewrite orb_assoc; reflexivity|].
          constructor; [|exact HR]. unfold page_rel. cbn [pg_ct]. rewrite Hct. split; [apply wrap_equiv_refl|reflexivity].
      + cbn [andb orb]. destruct (hd false selr) eqn:Hr.
        * (* selected for removal although it has no watermark *)
          simpl in Hdef. apply andb_true_iff in Hdef. destruct Hdef as [Hres Hct]. rewrite Hres. cbn [negb].
          rewrite (remove_clean_page (pg_ct p) Hcl) by (destruct (pg_ct p); [discriminate|discriminate|discriminate]).
          destruct (IH (tl sela) (tl selr) (removed || false) Hrest) as [qs [Hq HR]].
          rewrite Hq. exists ({| pg_res := true; pg_ct := pg_ct p |} :: qs).
          split; [rewrite orb_false_r; reflexivity|].
          constructor; [|exact HR]. split; [apply wrap_equiv_refl|exact Hcl].
        * destruct (IH (tl sela) (tl selr) removed Hrest) as [qs [Hq HR]].
          rewrite Hq. exists (p :: qs). split; [reflexivity|].
          constructor; [|exact HR]. split; [apply wrap_equiv_refl|exact Hcl].
  Qed.

  Lemma detect_pages_clean qs ps : Forall2 page_rel ps qs -> existsb (fun p => detect_page (pg_ct p)) qs = false.
  Proof.
    intros H. induction H as [|p q ps qs [_ Hc] _ IH]; [reflexivity|].
    simpl. rewrite (detect_clean (pg_ct q) Hc), IH. reflexivity.
  Qed.

  (* AddWatermarks then RemoveWatermarks on a document *)
  Lemma doc_roundtrip onTop d sela selr :
    pre sela selr (d_pages d) = true ->
    if any_sel sela (d_pages d) then
      exists d2, remove_doc selr (add_doc onTop wm sela d) = DOk d2
                 /\ Forall2 page_rel (d_pages d) (d_pages d2)
                 /\ detect_doc d2 = false
    else remove_doc selr (add_doc onTop wm sela d) = DErr ENoWatermark.
  Proof.
    intros Hpre. unfold remove_doc, add_doc. cbn [d_ocg d_pages negb].
    destruct (remove_add_pages onTop (d_pages d) sela selr false Hpre) as [qs [Hq HR]].
    rewrite Hq. cbn [orb]. destruct (any_sel sela (d_pages d)); [|reflexivity].
    exists {| d_ocg := true; d_pages := qs |}. split; [reflexivity|]. split; [exact HR|].
    unfold detect_doc. cbn [d_ocg d_pages andb]. apply (detect_pages_clean qs (d_pages d) HR).
  Qed.

  (* DetectWatermarks after AddWatermarks: true exactly when some selected page could take a watermark *)
  Lemma detect_add_pages onTop : forall ps sel,
    forallb (fun p => clean_page (pg_ct p)) ps = true ->
    existsb (fun p => detect_page (pg_ct p)) (add_pages onTop wm sel ps) = any_sel sel ps.
  Proof.
    induction ps as [|p ps IH]; intros sel Hcl; [reflexivity|].
    simpl in Hcl. apply andb_true_iff in Hcl. destruct Hcl as [Hc Hcl].
    rewrite add_pages_cons. cbn [existsb any_sel]. rewrite (IH (tl sel) Hcl).
    destruct (hd false sel); cbn [pg_ct andb].
    - destruct (nonempty_page (pg_ct p)) eqn:Hne.
      + pose proof (detect_added mtx x y onTop (pg_ct p) Hne) as Hd. fold wm in Hd. rewrite Hd. reflexivity.
      + destruct (pg_ct p) as [|c|[|c a]]; try discriminate. reflexivity.
    - rewrite (detect_clean (pg_ct p) Hc). reflexivity.
  Qed.

  Lemma detect_doc_add onTop d sel :
    forallb (fun p => clean_page (pg_ct p)) (d_pages d) = true ->
    detect_doc (add_doc onTop wm sel d) = any_sel sel (d_pages d).
  Proof. intros Hcl. unfold detect_doc, add_doc. cbn [d_ocg d_pages andb]. apply detect_add_pages. exact Hcl. Qed.

  Lemma detect_doc_clean d :
    forallb (fun p => clean_page (pg_ct p)) (d_pages d) = true -> detect_doc d = false.
  Proof.
    intros Hcl. unfold detect_doc. apply andb_false_iff. right.
    induction (d_pages d) as [|p ps IH]; [reflexivity|].
    simpl in Hcl. apply andb_true_iff in Hcl. destruct Hcl as [Hc Hcl].
    simpl. rewrite (detect_clean (pg_ct p) Hc), (IH Hcl). reflexivity.
  Qed.
End Doc.

(* ---- the defect: removal over pages that never had a watermark ---- *)
Definition wm0 : bytes := wmbb [49; 32; 48] [48] [48].
Definition doc_blank : doc :=
  {| d_ocg := false;
     d_pages := [ {| pg_res := true; pg_ct := CStream [110] |};      (* "n" *)
                  {| pg_res := true; pg_ct := CNone |} ] |}.          (* a blank page *)
Definition doc_inherit : doc :=
  {| d_ocg := false;
     d_pages := [ {| pg_res := true; pg_ct := CStream [110] |};
                  {| pg_res := false; pg_ct := CStream [110] |} ] |}. (* resources inherited from /Pages *)

Lemma remove_all_fails_blank :
  forallb (fun p => clean_page (pg_ct p)) (d_pages doc_blank) = true /\
  remove_doc [true; true] (add_doc true wm0 [true; false] doc_blank) = DErr ENoContents /\
  detect_doc (add_doc true wm0 [true; false] doc_blank) = true.
Proof. vm_compute. repeat split. Qed.

Lemma remove_all_fails_inherit :
  forallb (fun p => clean_page (pg_ct p)) (d_pages doc_inherit) = true /\
  remove_doc [true; true] (add_doc false wm0 [true; false] doc_inherit) = DErr ENoResources /\
  detect_doc (add_doc false wm0 [true; false] doc_inherit) = true.
Proof. vm_compute. repeat split. Qed.

(* ---- the statements of Property.v ---- *)
Lemma page_remove_undoes_add : forall mtx x y onTop ct,
  wm_ok mtx x y = true -> clean_page ct = true ->
  exists ct',
    remove_page (add_page onTop None (wmbb mtx x y) ct)
      = (if nonempty_page ct then POk true ct' [id_gs ++ x] [id_fm ++ y] else POk false ct' [] [])
    /\ wrap_equiv (page_bytes ct) (page_bytes ct')
    /\ clean_page ct' = true
    /\ detect_page ct' = false
    /\ remove_page ct' = POk false ct' [] [].
Proof.
  intros mtx x y onTop ct Hok Hcl. exists (expected_after onTop ct).
  pose proof (page_roundtrip mtx x y Hok onTop ct Hcl) as H1.
  pose proof (after_clean onTop ct Hcl) as H3.
  split; [|split; [apply page_equiv|split; [exact H3|split; [apply detect_clean; exact H3|]]]].
  - destruct (nonempty_page ct) eqn:Hne; [exact H1|].
    destruct ct as [|c|[|c a]]; try discriminate. exact H1.
  - apply remove_clean_page; [exact H3|]. destruct ct as [|c|[|c [|c1 a]]]; destruct onTop; discriminate.
Qed.

Lemma remove_total_idempotent : forall s,
  exists r, remove_artifacts s = Some r
    /\ remove_artifacts (rm_content r)
       = Some {| rm_found := false; rm_content := rm_content r; rm_gs := []; rm_fm := [] |}
    /\ (noocc marker (rm_content r)
        \/ exists a b, rm_content r = a ++ b /\ prefixb marker b = true /\ noocc emc b).
Proof.
  intros s. destruct (remove_artifacts s) as [r|] eqn:H; [|exfalso; exact (remove_artifacts_total s H)].
  exists r. split; [reflexivity|]. split; [exact (remove_artifacts_idem s r H)|exact (remove_artifacts_result s r H)].
Qed.

Lemma page_detect : forall mtx x y onTop ct,
  (nonempty_page ct = true -> detect_page (add_page onTop None (wmbb mtx x y) ct) = true)
  /\ (clean_page ct = true -> detect_page ct = false).
Proof. intros. split; [apply detect_added|apply detect_clean]. Qed.

Lemma doc_remove_undoes_add : forall mtx x y onTop d sela selr,
  wm_ok mtx x y = true -> pre sela selr (d_pages d) = true ->
  if any_sel sela (d_pages d) then
    exists d2, remove_doc selr (add_doc onTop (wmbb mtx x y) sela d) = DOk d2
               /\ Forall2 page_rel (d_pages d) (d_pages d2)
               /\ detect_doc d2 = false
  else remove_doc selr (add_doc onTop (wmbb mtx x y) sela d) = DErr ENoWatermark.
Proof. intros mtx x y onTop d sela selr Hok. exact (doc_roundtrip mtx x y Hok onTop d sela selr). Qed.

Lemma remove_all_pages_refuted :
  (forallb (fun p => clean_page (pg_ct p)) (d_pages doc_blank) = true /\
   remove_doc [true; true] (add_doc true wm0 [true; false] doc_blank) = DErr ENoContents /\
   detect_doc (add_doc true wm0 [true; false] doc_blank) = true)
  /\
  (forallb (fun p => clean_page (pg_ct p)) (d_pages doc_inherit) = true /\
   remove_doc [true; true] (add_doc false wm0 [true; false] doc_inherit) = DErr ENoResources /\
   detect_doc (add_doc false wm0 [true; false] doc_inherit) = true).
Proof. exact (conj remove_all_fails_blank remove_all_fails_inherit). Qed.

Lemma doc_detect : forall mtx x y onTop d sel,
  forallb (fun p => clean_page (pg_ct p)) (d_pages d) = true ->
  detect_doc d = false /\ detect_doc (add_doc onTop (wmbb mtx x y) sel d) = any_sel sel (d_pages d).
Proof. intros. split; [apply detect_doc_clean; assumption|apply detect_doc_add; assumption]. Qed.
