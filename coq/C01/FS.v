(* M-FS — the abstract filesystem model shared by C01 (failure safety), C02 (crash atomicity),
   C03 (success publishes exactly the result), C06/C07 (font install).

   Executable definitions only (no proofs; the lemmas are in FSFacts.v):
     - paths, files (bytes + permission bits), the filesystem as a finite map;
     - a world = filesystem + global call counter + trace of filesystem calls;
     - a fault plan: which call numbers fail (an injected fault has NO effect on the filesystem
       and returns EIO; this is the modelling assumption "a failed syscall did nothing");
     - the primitive operations open_rd / open_excl / create_temp / stat / chmod / write /
       close / rename / remove, each of which is ONE filesystem call;
     - control results of a Go function body (COk / CErr / CPanic) and the discipline of
       deferred closures (with_defer) versus plain continuations (with_cont);
     - the abstract operation body: any list of write chunks ending in COk / CErr / CPanic.

   The plan and the temp-name supply are Section variables: every definition below is a
   function of `fault : plan` and `fresh : fs -> path`.  FSFacts.v proves the lemmas for every
   `fresh` with `m !! fresh m = None` (os.CreateTemp / O_EXCL retry loops return a name that does
   not exist); `fresh_path` is one concrete such supply, used for extraction. *)
From stdpp Require Import gmap.
From Coq Require Import NArith.

Notation path := positive (only parsing).
Definition bytes := list N.
Record file := File { fdata : bytes; fmode : N }.
Notation fs := (gmap positive file) (only parsing).

Inductive errno := EIO | EEXIST | ENOENT.

(* one filesystem call = one event of the trace *)
Inductive opk := OpOpenRd | OpOpenExcl | OpCreateTemp | OpStat | OpChmod | OpWrite | OpClose | OpRename | OpRemove.
Record event := Ev { ev_op : opk; ev_p : path; ev_q : path; ev_res : option errno }.

(* wtr is in reverse order (latest call first) *)
Record world := W { wfs : fs; wcnt : nat; wtr : list event }.

Definition plan := nat -> bool.
Definition nofault : plan := fun _ => false.
Definition single (n : nat) : plan := fun k => Nat.eqb k n.

Inductive outcome (A : Type) := Done (a : A) (w : world) | Fail (e : errno) (w : world).
Arguments Done {A}. Arguments Fail {A}.

Definition world_of {A} (o : outcome A) : world := match o with Done _ w | Fail _ w => w end.
Definition failed {A} (o : outcome A) : bool := match o with Done _ _ => false | Fail _ _ => true end.

(* permission bits: 0666 &^ umask 022, and os.CreateTemp's 0600 *)
Definition mode_new : N := 420.
Definition mode_tmp : N := 384.

(* a concrete temp-name supply: one past the largest name in use *)
Definition pmax_list (l : list positive) : positive := foldr Pos.max 1%positive l.
Definition fresh_path (m : fs) : positive := Pos.succ (pmax_list (map fst (map_to_list m))).

Section Prims.
Variable fault : plan.
Variable fresh : fs -> path.

(* one call: consult the plan at the current call number; a faulted call changes nothing *)
Definition call {A} (op : opk) (p q : path) (w : world) (f : fs -> fs * (A + errno)) : outcome A :=
  if fault (wcnt w) then Fail EIO (W (wfs w) (S (wcnt w)) (Ev op p q (Some EIO) :: wtr w))
  else match f (wfs w) with
       | (m', inl a) => Done a (W m' (S (wcnt w)) (Ev op p q None :: wtr w))
       | (_, inr e) => Fail e (W (wfs w) (S (wcnt w)) (Ev op p q (Some e) :: wtr w))
       end.

(* os.Open(p) *)
Definition open_rd (p : path) (w : world) : outcome unit :=
  call OpOpenRd p p w (fun m => match m !! p with Some _ => (m, inl tt) | None => (m, inr ENOENT) end).
(* os.OpenFile(p, O_WRONLY|O_CREATE|O_EXCL, 0666) *)
Definition open_excl (p : path) (w : world) : outcome unit :=
  call OpOpenExcl p p w (fun m => match m !! p with
                                  | Some _ => (m, inr EEXIST)
                                  | None => (<[p := File [] mode_new]> m, inl tt) end).
(* os.CreateTemp(dir, pattern) (md = mode_tmp) or an O_EXCL retry loop with 0666 (md = mode_new):
   a new empty file under a name that did not exist *)
Definition create_temp (md : N) (w : world) : outcome path :=
  call OpCreateTemp (fresh (wfs w)) (fresh (wfs w)) w (fun m => (<[fresh m := File [] md]> m, inl (fresh m))).
(* os.Stat(p) *)
Definition stat (p : path) (w : world) : outcome file :=
  call OpStat p p w (fun m => match m !! p with Some f => (m, inl f) | None => (m, inr ENOENT) end).
(* f.Chmod(md) on the open file p *)
Definition chmod (p : path) (md : N) (w : world) : outcome unit :=
  call OpChmod p p w (fun m => match m !! p with
                               | Some f => (<[p := File (fdata f) md]> m, inl tt)
                               | None => (m, inr ENOENT) end).
(* f.Write(b) on the open file p *)
Definition write (p : path) (b : bytes) (w : world) : outcome unit :=
  call OpWrite p p w (fun m => match m !! p with
                               | Some f => (<[p := File (fdata f ++ b) (fmode f)]> m, inl tt)
                               | None => (m, inr ENOENT) end).
(* f.Close() *)
Definition close (p : path) (w : world) : outcome unit :=
  call OpClose p p w (fun m => (m, inl tt)).
(* os.Rename(a, b) *)
Definition rename (a b : path) (w : world) : outcome unit :=
  call OpRename a b w (fun m => match m !! a with
                                | Some f => (<[b := f]> (delete a m), inl tt)
                                | None => (m, inr ENOENT) end).
(* os.Remove(p) *)
Definition remove (p : path) (w : world) : outcome unit :=
  call OpRemove p p w (fun m => match m !! p with
                                | Some _ => (delete p m, inl tt)
                                | None => (m, inr ENOENT) end).

(* `err != nil && !errors.Is(err, os.ErrNotExist)` : did remove really fail? *)
Definition remove_failed (o : outcome unit) : bool :=
  match o with Done _ _ => false | Fail ENOENT _ => false | Fail _ _ => true end.

(* close a list of open files one after the other, whatever each close returns
   (errors.Join evaluates all its arguments); the boolean says whether any close failed *)
Fixpoint close_all (ps : list path) (w : world) : bool * world :=
  match ps with
  | [] => (false, w)
  | p :: ps' => let o := close p w in
                let '(b, w') := close_all ps' (world_of o) in
                (failed o || b, w')
  end.

(* ---------- control ---------- *)
(* how a Go function body ended: returned nil / returned an error / panicked *)
Inductive ctl := COk | CErr | CPanic.
Definition ctl_eqb (a b : ctl) : bool :=
  match a, b with COk, COk | CErr, CErr | CPanic, CPanic => true | _, _ => false end.

(* func f() (err error) { defer d(); body }  without recover():
   d runs whichever way the body ended and sees how it ended; if the body returned, the value the
   closure leaves in the named result is the function's result; if the body panicked, the panic
   continues after d has run. *)
Definition with_defer (bodyf : world -> ctl * world) (d : ctl -> world -> ctl * world) (w : world) : ctl * world :=
  let '(r, w1) := bodyf w in
  let '(r', w2) := d r w1 in
  (match r with CPanic => CPanic | _ => r' end, w2).

(* body; k(result)  with no defer: the continuation does not run when the body panics *)
Definition with_cont (bodyf : world -> ctl * world) (k : ctl -> world -> ctl * world) (w : world) : ctl * world :=
  let '(r, w1) := bodyf w in
  match r with CPanic => (CPanic, w1) | _ => k r w1 end.

(* the abstract operation body: writes chunk after chunk into the open file t and then ends
   with fin; a failing write ends it with an error *)
Fixpoint body (t : path) (chunks : list bytes) (fin : ctl) (w : world) : ctl * world :=
  match chunks with
  | [] => (fin, w)
  | c :: cs => match write t c w with
               | Done _ w' => body t cs fin w'
               | Fail _ w' => (CErr, w')
               end
  end.
End Prims.
