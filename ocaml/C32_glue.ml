(* C32 glue (tree parser shared in text with C33_glue.ml): page-tree documents in the prefix encoding written by go/cmd/c33/pgdoc
     P id rot media crop res trim bleed art
     N rot media crop res k <k kids>
   rot = "-" | hex int; boxes = "-" | a,b,c,d (hex ints); res = 0|1. *)
open Model
open Common

let opt_z s = if s = "-" then None else Some (z_of_hex s)
let opt_rect s =
  if s = "-" then None else
  match String.split_on_char ',' s with
  | [a; b; c; d] -> Some (((z_of_hex a, z_of_hex b), z_of_hex c), z_of_hex d)
  | _ -> failwith "bad rect"

let rec sum_counts = function [] -> Z0 | k :: r -> ext_base_z (count_of k) (sum_counts r)

(* returns (tree, remaining tokens) *)
let rec parse_tree toks = match toks with
  | "P" :: id :: rot :: media :: crop :: res :: trim :: bleed :: art :: rest ->
    (Leaf { pg_id = z_of_hex id;
            pg_attrs = { a_rot = opt_z rot; a_media = opt_rect media; a_crop = opt_rect crop; a_res = (res = "1") };
            pg_trim = opt_rect trim; pg_bleed = opt_rect bleed; pg_art = opt_rect art }, rest)
  | "N" :: rot :: media :: crop :: res :: k :: rest ->
    let n = int_of_z (z_of_hex k) in
    let rec kids i toks acc = if i = 0 then (List.rev acc, toks) else
        let (t, toks') = parse_tree toks in kids (i - 1) toks' (t :: acc) in
    let (ks, rest') = kids n rest [] in
    (Node ({ a_rot = opt_z rot; a_media = opt_rect media; a_crop = opt_rect crop; a_res = (res = "1") },
           sum_counts ks, ks), rest')
  | _ -> failwith "bad tree encoding"

let tree_of_string s =
  let toks = List.filter (fun x -> x <> "") (String.split_on_char ' ' s) in
  match parse_tree toks with (t, []) -> t | _ -> failwith "trailing tokens"

let str_rect = function
  | None -> "-"
  | Some (((a, b), c), d) -> String.concat "," [hex_of_z a; hex_of_z b; hex_of_z c; hex_of_z d]

let str_vpage star v =
  if star && v.v_id = Z0 then "0:*" else
  String.concat ":" [hex_of_z v.v_id; hex_of_z v.v_rot; str_rect v.v_media; str_rect v.v_crop;
                     str_rect v.v_trim; str_rect v.v_bleed; str_rect v.v_art]

let str_pages star t = String.concat ";" (List.map (str_vpage star) (pages_of t))


let sel_of s = zlist_of_string s
let flag s = (s = "1")
let dim_of s = if s = "-" then None else
  match String.split_on_char ',' s with
  | [w; h] -> Some (((Z0, Z0), z_of_hex w), z_of_hex h)
  | _ -> failwith "bad dim"

(* box definition: "-" | a,b,c,d (rectangle) | m:l,r,t,b (absolute margins left,right,top,bottom) *)
let opt_def s =
  if s = "-" then None
  else if String.length s > 2 && String.sub s 0 2 = "m:" then
    (match String.split_on_char ',' (String.sub s 2 (String.length s - 2)) with
     | [l; r; t; b] -> Some (BMarg (z_of_hex l, z_of_hex r, z_of_hex t, z_of_hex b))
     | _ -> failwith "bad margins")
  else (match opt_rect s with Some r -> Some (BRect r) | None -> None)

(* ops separated by '|', fields by ' ':
   I sel before dim | R sel | T sel | C pages | O sel delta | A sel media crop trim bleed art | X sel c t b a | K sel rect *)
let op_of_string s =
  match List.filter (fun x -> x <> "") (String.split_on_char ' ' s) with
  | ["I"; sel; b; d] -> OInsert (sel_of sel, flag b, dim_of d)
  | ["R"; sel] -> ORemove (sel_of sel)
  | ["T"; sel] -> OTrim (sel_of sel)
  | ["C"; l] -> OCollect (sel_of l)
  | ["O"; sel; d] -> ORotate (sel_of sel, z_of_hex d)
  | ["A"; sel; m; c; t; b; a] ->
    OAddBox (sel_of sel, { b_media = opt_def m; b_crop = opt_def c; b_trim = opt_def t; b_bleed = opt_def b; b_art = opt_def a })
  | ["X"; sel; c; t; b; a] -> ORmBox (sel_of sel, { r_crop = flag c; r_trim = flag t; r_bleed = flag b; r_art = flag a })
  | ["K"; sel; r] -> (match opt_def r with Some bd -> OCrop (sel_of sel, bd) | None -> failwith "bad crop")
  | _ -> failwith ("bad op " ^ s)

let ops_of_string s = if s = "" then [] else List.map op_of_string (String.split_on_char '|' s)

let str_doc = function
  | Err -> "err"
  | Ok t -> "ok:" ^ (if wf_count t then "" else "BADCOUNT:") ^ str_pages false t

let str_ids = function
  | None -> "none"
  | Some l -> "some:" ^ string_of_zlist l

let dispatch fn args = match fn, args with
  | "pages", [t] -> str_pages false (tree_of_string t)
  | "run", [t; ops] -> str_doc (run (ops_of_string ops) (tree_of_string t))
  | "run", [t] -> str_doc (run [] (tree_of_string t))
  | "spec_ids", [ids; ops] -> str_ids (spec_run (ops_of_string ops) (zlist_of_string ids))
  | "compose_rot", [c; d] -> hex_of_z (compose_rot (z_of_hex c) (z_of_hex d))
  | _ -> failwith ("unknown function " ^ fn)
let () = main dispatch
