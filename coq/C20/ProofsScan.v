(* C20 — the scanner (used_names) finds exactly the resource names in operator position on
   content built from the generator's grammar: text strings with every escape shape followed
   by a use of a resource name of any category. *)
From Coq Require Import List NArith Bool Arith Lia.
From PV Require Import C20.Model C20.ModelScan.
Import ListNotations.
Open Scope N_scope.

(* ---- text strings ---- *)
(* a string body is a sequence of plain bytes (anything but '\') and escapes: a backslash
   followed by ANY byte -- \\ \) \( \n \r \t, the first digit of an octal escape \ddd (the other
   digits are plain bytes), a line continuation (backslash, newline).  Unescaped parentheses
   must be balanced (nested to any depth): balb. *)
Inductive satom := APlain (c : N) | AEsc (c : N).
Definition satom_ok (a : satom) : bool :=
  match a with APlain c => negb (c =? 92) | AEsc _ => true end.
Fixpoint renderAtoms (l : list satom) : bytes :=
  match l with
  | [] => []
  | APlain c :: r => c :: renderAtoms r
  | AEsc c :: r => 92 :: c :: renderAtoms r
  end.
(* from nesting depth d the unescaped parentheses never close more than was opened and end
   at depth 0 *)
Fixpoint balb (d : nat) (l : list satom) : bool :=
  match l with
  | [] => Nat.eqb d 0
  | APlain c :: r =>
      if c =? 40 then balb (S d) r
      else if c =? 41 then match d with O => false | S d' => balb d' r end
      else balb d r
  | AEsc _ :: r => balb d r
  end.
Definition body_ok (l : list satom) : bool := forallb satom_ok l && balb 0 l.

Lemma fwd_atoms : forall atoms d rest,
  forallb satom_ok atoms = true -> balb d atoms = true ->
  fwdScan d (renderAtoms atoms ++ 41 :: rest) = Some rest.
Proof.
  induction atoms as [|a r IH]; intros d rest Hok Hb.
  - simpl in Hb. apply Nat.eqb_eq in Hb. subst. reflexivity.
  - simpl in Hok. apply andb_true_iff in Hok. destruct Hok as [Ha Hr].
    destruct a as [c|c].
    + simpl in Ha. apply negb_true_iff in Ha.
      change (renderAtoms (APlain c :: r) ++ 41 :: rest) with (c :: renderAtoms r ++ 41 :: rest).
      cbn [fwdScan balb] in *. rewrite Ha.
      destruct (c =? 40). apply IH; auto.
      destruct (c =? 41).
      * destruct d as [|d']. discriminate. apply IH; auto.
      * apply IH; auto.
    + change (renderAtoms (AEsc c :: r) ++ 41 :: rest) with (92 :: c :: renderAtoms r ++ 41 :: rest).
      cbn [fwdScan balb] in *. change (92 =? 92) with true. cbv iota. apply IH; auto.
Qed.

(* ---- names ---- *)
Definition regb (c : N) : bool := negb (isws c) && negb (memN c [47; 91; 40; 60]).
Definition name_ok (n : bytes) : bool := negb (Nat.eqb (length n) 0) && forallb regb n.

Lemma splitAt_name : forall n X, forallb regb n = true ->
  splitAt [47; 91; 40; 60] (n ++ 32 :: X) = Some (n, 32 :: X).
Proof.
  induction n as [|c r IH]; intros X H. reflexivity.
  simpl in H. apply andb_true_iff in H. destruct H as [Hc Hr].
  unfold regb in Hc. apply andb_true_iff in Hc. destruct Hc as [H1 H2].
  apply negb_true_iff in H1. apply negb_true_iff in H2.
  cbn [app splitAt]. rewrite H2, H1. cbn [orb]. rewrite IH by exact Hr. reflexivity.
Qed.

Lemma regb_head : forall c, regb c = true ->
  isws c = false /\ (c =? 37) || (c =? 91) || (c =? 40) || (c =? 60) || (c =? 47) = (c =? 37).
Proof.
  intros c H. unfold regb in H. apply andb_true_iff in H. destruct H as [H1 H2].
  apply negb_true_iff in H1. apply negb_true_iff in H2. split. exact H1.
  unfold memN in H2. simpl in H2. rewrite !orb_false_r in H2.
  apply orb_false_iff in H2. destruct H2 as [A H2]. apply orb_false_iff in H2. destruct H2 as [B H2].
  apply orb_false_iff in H2. destruct H2 as [C D]. rewrite B, C, D, A. rewrite !orb_false_r. reflexivity.
Qed.

Lemma ptn_space : forall f l, positionToNext (S f) (32 :: l) = positionToNext (S f) l.
Proof. reflexivity. Qed.

Lemma ptn_at : forall f c r,
  isws c = false ->
  (c =? 37) || (c =? 91) || (c =? 40) || (c =? 60) = false ->
  hasPrefix [66; 73] (c :: r) = false ->
  positionToNext (S f) (c :: r) = PAt (c :: r).
Proof.
  intros f c r Hw Hs Hb. cbn [positionToNext trimws]. rewrite Hw.
  apply orb_false_iff in Hs. destruct Hs as [Hs H60]. apply orb_false_iff in Hs. destruct Hs as [Hs H40].
  apply orb_false_iff in Hs. destruct Hs as [H37 H91].
  rewrite H37, H91, H40, H60, Hb. reflexivity.
Qed.

(* a name token: " /" name " " X', where X' is what follows (not starting a dict) *)
Lemma tok_name : forall n X,
  name_ok n = true -> hasPrefix [60; 60] (trimws X) = false ->
  nextToken [] (32 :: 47 :: n ++ 32 :: X) = (TName n, trimws X).
Proof.
  intros n X Hn HX. unfold name_ok in Hn. apply andb_true_iff in Hn. destruct Hn as [Hl Hr].
  destruct n as [|c r]. discriminate.
  unfold nextToken. cbn [app length]. rewrite ptn_space.
  rewrite (ptn_at _ 47 ((c :: r) ++ 32 :: X)) by reflexivity.
  change (47 =? 47) with true. cbv iota.
  rewrite (splitAt_name (c :: r) X Hr).
  change (trimws (32 :: X)) with (trimws X). rewrite HX. reflexivity.
Qed.

Lemma tok_name_bare : forall n X,
  name_ok n = true -> hasPrefix [60; 60] (trimws X) = false ->
  nextToken [] (47 :: n ++ 32 :: X) = (TName n, trimws X).
Proof.
  intros n X Hn HX. unfold name_ok in Hn. apply andb_true_iff in Hn. destruct Hn as [Hl Hr].
  destruct n as [|c r]. discriminate.
  unfold nextToken. cbn [app length].
  rewrite (ptn_at _ 47 ((c :: r) ++ 32 :: X)) by reflexivity.
  change (47 =? 47) with true. cbv iota.
  rewrite (splitAt_name (c :: r) X Hr).
  change (trimws (32 :: X)) with (trimws X). rewrite HX. reflexivity.
Qed.

(* ---- tokens of the grammar ---- *)
Lemma ptn_str : forall f atoms L, body_ok atoms = true ->
  positionToNext (S (S f)) (40 :: renderAtoms atoms ++ 41 :: L) = positionToNext (S f) L.
Proof.
  intros f atoms L H. unfold body_ok in H. apply andb_true_iff in H. destruct H as [Hok Hb].
  cbn [positionToNext trimws].
  change (isws 40) with false. cbv iota.
  change (40 =? 37) with false. change (40 =? 91) with false. change (40 =? 40) with true. cbv iota.
  unfold skipStr. cbn [tl]. rewrite (fwd_atoms atoms 0%nat L Hok Hb). reflexivity.
Qed.

(* " (" body ") Tj" followed by a space *)
Lemma tok_str : forall atoms Y, body_ok atoms = true ->
  nextToken [] (32 :: 40 :: renderAtoms atoms ++ 41 :: 32 :: 84 :: 106 :: 32 :: Y) = (TOther [84; 106], 32 :: Y).
Proof.
  intros atoms Y H. unfold nextToken. cbn [app length]. rewrite ptn_space.
  rewrite app_length. cbn [length]. rewrite Nat.add_succ_r.
  rewrite (ptn_str _ atoms _ H). reflexivity.
Qed.

Definition restOK (Y : bytes) : Prop := Y = [] \/ exists Y', Y = 32 :: Y'.

Ltac final_op := intros Y [->|[Y' ->]]; reflexivity.
Lemma tok_Tf : forall Y, restOK Y -> nextToken [] (32 :: 84 :: 102 :: Y) = (TOther [84; 102], Y).
Proof. final_op. Qed.
Lemma tok_Do : forall Y, restOK Y -> nextToken [] (68 :: 111 :: Y) = (TOther [68; 111], Y).
Proof. final_op. Qed.
Lemma tok_gs : forall Y, restOK Y -> nextToken [] (103 :: 115 :: Y) = (TOther [103; 115], Y).
Proof. final_op. Qed.
Lemma tok_cs : forall Y, restOK Y -> nextToken [] (99 :: 115 :: Y) = (TOther [99; 115], Y).
Proof. final_op. Qed.
Lemma tok_sh : forall Y, restOK Y -> nextToken [] (115 :: 104 :: Y) = (TOther [115; 104], Y).
Proof. final_op. Qed.
Lemma tok_scn : forall Y, restOK Y -> nextToken [] (115 :: 99 :: 110 :: Y) = (TOther [115; 99; 110], Y).
Proof. final_op. Qed.
Lemma tok_BDC : forall Y, restOK Y -> nextToken [] (66 :: 68 :: 67 :: Y) = (TOther [66; 68; 67], Y).
Proof. final_op. Qed.
Lemma tok_cs_mid : forall Z, nextToken [] (99 :: 115 :: 32 :: Z) = (TOther [99; 115], 32 :: Z).
Proof. reflexivity. Qed.
Lemma tok_T : forall Z, nextToken [] (32 :: 47 :: 84 :: 32 :: 47 :: Z) = (TName [84], 47 :: Z).
Proof. reflexivity. Qed.
Lemma tok_12 : forall Z, nextToken [] (49 :: 50 :: 32 :: Z) = (TOther [49; 50], 32 :: Z).
Proof. reflexivity. Qed.

(* ---- the grammar ---- *)
Inductive use := UFont | UXObject | UExtGState | UColorSpace | UPattern | UShading | UProperties.
Definition catOf (u : use) : rcat :=
  match u with
  | UFont => CFont | UXObject => CXObject | UExtGState => CExtGState | UColorSpace => CColorSpace
  | UPattern => CPattern | UShading => CShading | UProperties => CProperties
  end.

(* " /n 12 Tf", " /n Do", " /n gs", " /n cs", " /Pattern cs /n scn", " /n sh", " /T /n BDC" *)
Definition renderUse (u : use) (n : bytes) : bytes :=
  match u with
  | UFont => 32 :: 47 :: n ++ [32; 49; 50; 32; 84; 102]
  | UXObject => 32 :: 47 :: n ++ [32; 68; 111]
  | UExtGState => 32 :: 47 :: n ++ [32; 103; 115]
  | UColorSpace => 32 :: 47 :: n ++ [32; 99; 115]
  | UPattern => 32 :: 47 :: sPattern ++ 32 :: 99 :: 115 :: 32 :: 47 :: n ++ [32; 115; 99; 110]
  | UShading => 32 :: 47 :: n ++ [32; 115; 104]
  | UProperties => 32 :: 47 :: [84] ++ 32 :: 47 :: n ++ [32; 66; 68; 67]
  end.

Definition seg := (option (list satom) * use * bytes)%type.
Definition renderSeg (s : seg) : bytes :=
  match s with
  | (Some atoms, u, n) => 32 :: 40 :: renderAtoms atoms ++ 41 :: 32 :: 84 :: 106 :: renderUse u n
  | (None, u, n) => renderUse u n
  end.
Definition seg_ok (s : seg) : bool :=
  match s with
  | (str, u, n) =>
      name_ok n &&
      (match str with Some atoms => body_ok atoms | None => true end) &&
      (match u with UColorSpace => negb (builtinCS n) | _ => true end)
  end.
Fixpoint renderSegs (l : list seg) : bytes :=
  match l with [] => [] | s :: r => renderSeg s ++ renderSegs r end.

Lemma renderUse_head : forall u n, exists Y, renderUse u n = 32 :: Y.
Proof. intros u n. destruct u; simpl; eexists; reflexivity. Qed.
Lemma renderSegs_restOK : forall l, restOK (renderSegs l).
Proof.
  intro l. destruct l as [|[[str u] n] r]. left. reflexivity.
  right. simpl. destruct str; simpl.
  - eexists. reflexivity.
  - destruct (renderUse_head u n) as [Y HY]. rewrite HY. eexists. reflexivity.
Qed.

Lemma scan_unfold : forall f pre line n pos name acc,
  scan (S f) pre line n pos name acc =
  match nextToken pre line with
  | (TEnd, _) => SOk acc
  | (TErr, _) => SErr
  | (TUnsupported, _) => SUnsupported
  | (TName t, line') => scan f [] line' true (if n then S pos else O) t acc
  | (TOther t, line') =>
      if negb n then scan f [] line' false pos name acc
      else
        match pos with
        | O =>
            match atPos1 t name with
            | Some (c, pre') => scan f pre' line' false 1 name (reg acc c name)
            | None => scan f [] line' true 1 name acc
            end
        | S O =>
            match atPos2 t with
            | Some c => scan f [] line' false 2 name (reg acc (Some c) name)
            | None => scan f [] line' true 2 name acc
            end
        | S (S p) => scan f [] line' false (S (S (S p))) name acc
        end
  end.
Proof. reflexivity. Qed.

Lemma trimws_reg : forall c r, isws c = false -> trimws (c :: r) = c :: r.
Proof. intros c r H. simpl. rewrite H. reflexivity. Qed.

(* one use, from the idle state (no name pending), with at least 4 units of fuel *)
Lemma use_step : forall u n Y f pos name0 acc,
  name_ok n = true -> (match u with UColorSpace => builtinCS n = false | _ => True end) -> restOK Y ->
  exists pos' name',
    scan (S (S (S (S f)))) [] (renderUse u n ++ Y) false pos name0 acc =
    scan (match u with UFont | UProperties => S f | UPattern => f | _ => S (S f) end)
         [] Y false pos' name' (acc ++ [(catOf u, n)]).
Proof.
  intros u n Y f pos name0 acc Hn Hcs HY.
  destruct u; unfold renderUse; repeat progress (rewrite <- ?app_assoc; cbn [app]).
  - (* Font *)
    rewrite scan_unfold, (tok_name n _ Hn) by reflexivity. cbv iota beta. cbn [trimws isws N.eqb Pos.eqb orb].
    rewrite scan_unfold, tok_12. cbv iota beta. cbn [negb]. cbv iota.
    change (atPos1 [49; 50] n) with (@None (option rcat * bytes)). cbv iota.
    rewrite scan_unfold, (tok_Tf Y HY). cbv iota beta. cbn [negb]. cbv iota.
    change (atPos2 [84; 102]) with (Some CFont). cbv iota.
    eexists; eexists; reflexivity.
  - (* XObject *)
    rewrite scan_unfold, (tok_name n _ Hn) by reflexivity. cbv iota beta. cbn [trimws isws N.eqb Pos.eqb orb].
    rewrite scan_unfold, (tok_Do Y HY). cbv iota beta. cbn [negb]. cbv iota.
    change (atPos1 [68; 111] n) with (Some (Some CXObject, @nil N)). cbv iota.
    eexists; eexists; reflexivity.
  - (* ExtGState *)
    rewrite scan_unfold, (tok_name n _ Hn) by reflexivity. cbv iota beta. cbn [trimws isws N.eqb Pos.eqb orb].
    rewrite scan_unfold, (tok_gs Y HY). cbv iota beta. cbn [negb]. cbv iota.
    change (atPos1 [103; 115] n) with (Some (Some CExtGState, @nil N)). cbv iota.
    eexists; eexists; reflexivity.
  - (* ColorSpace *)
    rewrite scan_unfold, (tok_name n _ Hn) by reflexivity. cbv iota beta. cbn [trimws isws N.eqb Pos.eqb orb].
    rewrite scan_unfold, (tok_cs Y HY). cbv iota beta. cbn [negb]. cbv iota.
    change (atPos1 [99; 115] n) with (Some ((if builtinCS n then None else Some CColorSpace), @nil N)).
    rewrite Hcs. cbv iota.
    eexists; eexists; reflexivity.
  - (* Pattern: " /Pattern cs /n scn" *)
    rewrite scan_unfold, (tok_name sPattern _ eq_refl) by reflexivity. cbv iota beta. cbn [trimws isws N.eqb Pos.eqb orb].
    rewrite scan_unfold, tok_cs_mid. cbv iota beta. cbn [negb]. cbv iota.
    change (atPos1 [99; 115] sPattern) with (Some (@None rcat, @nil N)). cbv iota. cbn [reg].
    rewrite scan_unfold, (tok_name n _ Hn) by reflexivity. cbv iota beta. cbn [trimws isws N.eqb Pos.eqb orb].
    rewrite scan_unfold, (tok_scn Y HY). cbv iota beta. cbn [negb]. cbv iota.
    change (atPos1 [115; 99; 110] n) with (Some (Some CPattern, @nil N)). cbv iota.
    eexists; eexists; reflexivity.
  - (* Shading *)
    rewrite scan_unfold, (tok_name n _ Hn) by reflexivity. cbv iota beta. cbn [trimws isws N.eqb Pos.eqb orb].
    rewrite scan_unfold, (tok_sh Y HY). cbv iota beta. cbn [negb]. cbv iota.
    change (atPos1 [115; 104] n) with (Some (Some CShading, @nil N)). cbv iota.
    eexists; eexists; reflexivity.
  - (* Properties: " /T /n BDC" *)
    rewrite scan_unfold, tok_T. cbv iota beta.
    rewrite scan_unfold, (tok_name_bare n _ Hn) by reflexivity. cbv iota beta. cbn [trimws isws N.eqb Pos.eqb orb].
    rewrite scan_unfold, (tok_BDC Y HY). cbv iota beta. cbn [negb]. cbv iota.
    change (atPos2 [66; 68; 67]) with (Some CProperties). cbv iota.
    eexists; eexists; reflexivity.
Qed.

Definition segName (s : seg) : rcat * bytes := match s with (_, u, n) => (catOf u, n) end.

Lemma seg_step : forall s Y f pos name0 acc,
  seg_ok s = true -> restOK Y ->
  exists g pos' name', (f <= g)%nat /\
    scan (S (S (S (S (S f))))) [] (renderSeg s ++ Y) false pos name0 acc =
    scan g [] Y false pos' name' (acc ++ [segName s]).
Proof.
  intros [[str u] n] Y f pos name0 acc Hok HY. unfold seg_ok in Hok.
  apply andb_true_iff in Hok. destruct Hok as [Hok Hcs]. apply andb_true_iff in Hok. destruct Hok as [Hn Hstr].
  assert (match u with UColorSpace => builtinCS n = false | _ => True end) as Hcs'.
  { destruct u; auto. apply negb_true_iff. exact Hcs. }
  destruct str as [atoms|]; unfold renderSeg, segName.
  - destruct (renderUse_head u n) as [R HR].
    rewrite HR. repeat progress (rewrite <- ?app_assoc; cbn [app]).
    rewrite scan_unfold, (tok_str atoms _ Hstr). cbv iota beta. cbn [negb]. cbv iota.
    change (32 :: R ++ Y) with ((32 :: R) ++ Y). rewrite <- HR.
    destruct (use_step u n Y f pos name0 acc Hn Hcs' HY) as [pos' [name' E]].
    rewrite E. eexists; exists pos', name'. split; [|reflexivity]. destruct u; lia.
  - destruct (use_step u n Y (S f) pos name0 acc Hn Hcs' HY) as [pos' [name' E]].
    rewrite E. eexists; exists pos', name'. split; [|reflexivity]. destruct u; lia.
Qed.

Lemma scan_segs : forall segs fuel pos name0 acc,
  forallb seg_ok segs = true -> (5 * length segs + 1 <= fuel)%nat ->
  scan fuel [] (renderSegs segs) false pos name0 acc = SOk (acc ++ map segName segs).
Proof.
  induction segs as [|s r IH]; intros fuel pos name0 acc Hok Hf.
  - destruct fuel as [|f]. simpl in Hf. lia. simpl. rewrite app_nil_r. reflexivity.
  - simpl in Hok. apply andb_true_iff in Hok. destruct Hok as [Hs Hr].
    simpl length in Hf.
    destruct fuel as [|[|[|[|[|f]]]]]; try lia.
    cbn [renderSegs].
    destruct (seg_step s (renderSegs r) f pos name0 acc Hs (renderSegs_restOK r)) as [g [pos' [name' [Hg E]]]].
    rewrite E. rewrite IH; auto. rewrite <- app_assoc. reflexivity. lia.
Qed.

Lemma renderSeg_len : forall s, (3 <= length (renderSeg s))%nat.
Proof.
  intros [[str u] n]. destruct str; simpl.
  - rewrite app_length. simpl. lia.
  - destruct u; simpl; rewrite ?app_length; simpl; lia.
Qed.
Lemma renderSegs_len : forall segs, (3 * length segs <= length (renderSegs segs))%nat.
Proof.
  induction segs as [|s r IH]; simpl. lia. rewrite app_length. pose proof (renderSeg_len s). lia.
Qed.

(* content built from the grammar: (optional text string with any escapes, shown with Tj)
   followed by a use of a resource name, repeated: the scanner returns exactly the names in
   operator position, with their categories, in order *)
Theorem used_names_exact : forall segs,
  forallb seg_ok segs = true ->
  used_names (renderSegs segs) = SOk (map segName segs).
Proof.
  intros segs H. unfold used_names.
  rewrite (scan_segs segs _ 0%nat [] [] H). reflexivity.
  pose proof (renderSegs_len segs). lia.
Qed.

(* the two former defect witnesses (fixed by 896a0b77 + b5e38ac0) *)
(* "(x (y) /F9 z) Tj /F2 12 Tf" : nested balanced parentheses *)
Definition nested_content : bytes :=
  [40;120;32;40;121;41;32;47;70;57;32;122;41;32;84;106;32;47;70;50;32;49;50;32;84;102].
(* "(a) Tj /F2 12 Tf %)" : a ')' at depth 0 later in the content *)
Definition runon_content : bytes := [40;97;41;32;84;106;32;47;70;50;32;49;50;32;84;102;32;37;41].
Lemma former_witnesses :
  used_names nested_content = SOk [(CFont, [70; 50])] /\
  used_names runon_content = SOk [(CFont, [70; 50])].
Proof. split; vm_compute; reflexivity. Qed.

(* the fallback is still what decides an unbalanced string: "(a (b) Tj /F2 12 Tf" ends at the
   first unescaped ')' *)
Lemma unbalanced_fallback :
  used_names [40;97;32;40;98;41;32;84;106;32;47;70;50;32;49;50;32;84;102] = SOk [(CFont, [70; 50])].
Proof. vm_compute. reflexivity. Qed.
