// Harness for C04: the real pdfcpu binary (built from the tree under test) is run
// for EVERY row of the command table extracted by genc04 (build/C04/table.json)
// in the situations of the property's quantifier. Per run: exit status, stderr
// and a before/after snapshot (names, sizes, sha256) of the working directory.
//
//	K: the guard decision of the model for (row, situation) vs what the binary did
//	   (proceed / refuse-file / refuse-dir / fail); the static verdict `guarded` of
//	   the row vs whether the binary refused an existing output; the command tree
//	   the translator found vs the tree the binary reports through --help.
//	O: the property itself on the binary: an existing output without --force is
//	   never modified and the command exits non-zero with the refusal text; a
//	   non-empty output directory is refused; with --force / nothing named /
//	   nothing there the command runs.
package main

import (
	"bytes"
	"crypto/sha256"
	"encoding/hex"
	"encoding/json"
	"fmt"
	"io"
	"os"
	"os/exec"
	"path/filepath"
	"runtime"
	"sort"
	"strconv"
	"strings"
	"sync"
	"time"

	"verif/vh"
)

// ---------------------------------------------------------------- table.json

type tok struct {
	Name     string `json:"name"`
	Optional bool   `json:"optional"`
	Alt      bool   `json:"alt"`
	Variadic bool   `json:"variadic"`
}

type row struct {
	ID         int      `json:"id"`
	Path       string   `json:"path"`
	Use        string   `json:"use"`
	Tokens     []tok    `json:"tokens"`
	Kind       string   `json:"kind"`
	OutFileTok int      `json:"out_file_tok"`
	OutDirTok  int      `json:"out_dir_tok"`
	Guards     []string `json:"guards"`
}

type cmdInfo struct {
	Path     string `json:"path"`
	Use      string `json:"use"`
	Runnable bool   `json:"runnable"`
}

type table struct {
	Repo     string    `json:"repo"`
	Rows     []row     `json:"rows"`
	All      []cmdInfo `json:"all"`
	Problems []string  `json:"problems"`
}

// ---------------------------------------------------------------- samples

// How to call each command with arguments that make it succeed. Placeholders of
// the Use string that are optional are left out; required ones get vals[name] or
// a default by name. Positions and order come from the Use string (table.json).
type sample struct {
	flags []string
	vals  map[string]string
	in    string // fixture used as inFile (default base.pdf)
	// the operation itself cannot be made to succeed here (no signed sample documents exist):
	// only the refusing situations are compared, the proceeding ones are counted as unavailable
	downstreamUnavailable bool
}

var samples = map[string]sample{
	"create":              {vals: map[string]string{"inFileJSON": "create.json"}},
	"trim":                {flags: []string{"-p", "1"}},
	"collect":             {flags: []string{"-p", "1"}},
	"pages insert":        {flags: []string{"-p", "1"}},
	"pages remove":        {flags: []string{"-p", "1"}},
	"rotate":              {vals: map[string]string{"rotation": "90"}},
	"nup":                 {vals: map[string]string{"n": "2"}},
	"grid":                {vals: map[string]string{"m": "1", "n": "2"}},
	"booklet":             {vals: map[string]string{"n": "2"}},
	"resize":              {vals: map[string]string{"description": "sc:.5"}},
	"poster":              {vals: map[string]string{"description": "f:A6"}},
	"ndown":               {vals: map[string]string{"n": "2"}},
	"cut":                 {vals: map[string]string{"description": "hor:.5"}},
	"crop":                {vals: map[string]string{"description": "[0 0 100 100]"}},
	"zoom":                {vals: map[string]string{"description": "factor:.5"}},
	"boxes add":           {vals: map[string]string{"description": "crop:[0 0 100 100]"}},
	"boxes remove":        {vals: map[string]string{"boxTypes": "crop"}, in: "boxed.pdf"},
	"watermark add":       {vals: map[string]string{"string": "Draft", "description": "pos:c"}},
	"watermark update":    {vals: map[string]string{"string": "Draft2", "description": "pos:c"}, in: "wm.pdf"},
	"watermark remove":    {in: "wm.pdf"},
	"stamp add":           {vals: map[string]string{"string": "Draft", "description": "pos:c"}},
	"stamp update":        {vals: map[string]string{"string": "Draft2", "description": "pos:c"}, in: "stamped.pdf"},
	"stamp remove":        {in: "stamped.pdf"},
	"annotations remove":  {in: "annot.pdf"},
	"bookmarks import":    {flags: []string{"-r"}, vals: map[string]string{"inFileJSON": "bm.json"}},
	"pagemode set":        {vals: map[string]string{"value": "UseOutlines"}},
	"pagelayout set":      {vals: map[string]string{"value": "TwoColumnLeft"}},
	"viewerpref set":      {vals: map[string]string{"inFileJSON": "vp.json"}},
	"import":              {vals: map[string]string{"imageFile": "a.png"}},
	"images extract":      {in: "img.pdf"},
	"images update":       {vals: map[string]string{"imageFile": "img_1_Im0.png"}, in: "img.pdf"},
	"attachments extract": {in: "att.pdf"},
	"portfolio extract":   {in: "port.pdf"},
	"keywords add":        {vals: map[string]string{"keyword": "kw2"}},
	"keywords remove":     {in: "kw.pdf"},
	"properties add":      {vals: map[string]string{"nameValuePair": "k2 = v2"}},
	"properties remove":   {in: "prop.pdf"},
	"extract":             {flags: []string{"-m", "page"}},
	"form remove":         {vals: map[string]string{"fieldID": "llfirstName"}, in: "form.pdf"},
	"form lock":           {in: "form.pdf"},
	"form unlock":         {in: "form.pdf"},
	"form reset":          {in: "form.pdf"},
	"form export":         {in: "form.pdf"},
	"form fill":           {vals: map[string]string{"inFileJSON": "fill.json"}, in: "form.pdf"},
	"form multifill":      {vals: map[string]string{"inFileData": "fill.json"}, in: "form.pdf"},
	"encrypt":             {flags: []string{"--opw", "o", "--upw", "u"}},
	"decrypt":             {flags: []string{"--opw", "o", "--upw", "u"}, in: "enc.pdf"},
	"changeupw":           {flags: []string{"--opw", "o"}, vals: map[string]string{"upwOld": "u", "upwNew": "u2"}, in: "enc.pdf"},
	"changeopw":           {flags: []string{"--upw", "u"}, vals: map[string]string{"opwOld": "o", "opwNew": "o2"}, in: "enc.pdf"},
	"permissions set":     {flags: []string{"--opw", "o", "--upw", "u", "--perm", "all"}, in: "enc.pdf"},
	"signatures remove":   {downstreamUnavailable: true},
}

// side files a sample value refers to (copied from the fixture dir into the case dir)
var sideFiles = []string{"create.json", "bm.json", "vp.json", "a.png", "img_1_Im0.png", "fill.json"}

// ---------------------------------------------------------------- running

type result struct {
	exit     int
	stdout   []byte
	stderr   string
	timedOut bool
}

var bin string

func runBin(dir string, args ...string) result {
	cmd := exec.Command(bin, append([]string{"--conf", "disable"}, args...)...)
	cmd.Dir = dir
	cmd.Env = append(os.Environ(), "HOME="+dir, "XDG_CONFIG_HOME="+filepath.Join(dir, ".xdg"), "GOMAXPROCS=2")
	var so, se bytes.Buffer
	cmd.Stdout, cmd.Stderr = &so, &se
	cmd.Stdin = strings.NewReader("no\nno\n")
	if err := cmd.Start(); err != nil {
		return result{exit: -1, stderr: err.Error()}
	}
	done := make(chan error, 1)
	go func() { done <- cmd.Wait() }()
	var res result
	select {
	case err := <-done:
		if err != nil {
			if ee, ok := err.(*exec.ExitError); ok {
				res.exit = ee.ExitCode()
			} else {
				res.exit = -1
			}
		}
	case <-time.After(120 * time.Second):
		cmd.Process.Kill()
		<-done
		res.exit, res.timedOut = -2, true
	}
	res.stdout, res.stderr = so.Bytes(), se.String()
	return res
}

const (
	refuseFileText = "refusing to overwrite existing file:"
	refuseDirText  = "refusing to write to non-empty directory:"
)

func classify(r result) string {
	switch {
	case r.exit == 0:
		return "proceed"
	case strings.Contains(r.stderr, refuseFileText):
		return "refuse-file"
	case strings.Contains(r.stderr, refuseDirText):
		return "refuse-dir"
	}
	return "fail"
}

func snapshot(dir string) map[string]string {
	m := map[string]string{}
	filepath.Walk(dir, func(p string, info os.FileInfo, err error) error {
		if err != nil {
			return nil
		}
		rel, _ := filepath.Rel(dir, p)
		if rel == "." {
			return nil
		}
		if info.IsDir() {
			m[rel+"/"] = "dir"
			return nil
		}
		f, err := os.Open(p)
		if err != nil {
			m[rel] = "unreadable"
			return nil
		}
		h := sha256.New()
		io.Copy(h, f)
		f.Close()
		m[rel] = strconv.FormatInt(info.Size(), 10) + ":" + hex.EncodeToString(h.Sum(nil))[:16]
		return nil
	})
	return m
}

// what changed among the entries that existed before (new entries are not a change of an existing file)
func changedExisting(before, after map[string]string) []string {
	var out []string
	for k, v := range before {
		if w, ok := after[k]; !ok {
			out = append(out, k+" removed")
		} else if w != v {
			out = append(out, k+" modified")
		}
	}
	sort.Strings(out)
	return out
}

func copyFile(src, dst string) error {
	b, err := os.ReadFile(src)
	if err != nil {
		return err
	}
	return os.WriteFile(dst, b, 0o644)
}

func must(err error, what string) {
	if err != nil {
		fmt.Fprintf(os.Stderr, "hC04: %s: %v\n", what, err)
		os.Exit(3)
	}
}

// ---------------------------------------------------------------- situations

// wire encoding of the model's oname / pstate (see ocaml/C04_glue.ml)
const (
	nNone, nDash, nNamed                                 = "0", "1", "2"
	sAbsent, sRegFile, sEmptyDir, sNonEmptyDir, sStatErr = "0", "1", "2", "3", "4"
)

type situation struct {
	name  string
	force bool
	// values for the output placeholders ("" = leave the optional placeholder out)
	outFile, outDir string
	// model request
	mDir, mFile, mJoined    string
	msDir, msFile, msJoined string
	// preparation of the case directory, after the inputs were copied
	prep func(dir string, c *caseCtx) error
	// expectations of the property (O)
	mustRefuse  bool   // existing output / non-empty dir, no --force: non-zero exit, refusal text, nothing changed
	mustProceed bool   // must exit 0
	noK         bool   // not sent to the model (the situation is outside the guard's model)
	finding     string // suffix of the class when this situation is one of the reported classes
	thorough    bool
	sixth       bool // quick tier: only for a sixth of the rows (rotating with the seed)
}

type caseCtx struct {
	row      row
	smp      sample
	parts    []string // names the command writes under outDir when outFile is named (learnt from a dry run)
	partsErr string
}

const existingJSON = "{\"existing\": true}\n"

func writeExisting(dir, name string) error {
	if strings.HasSuffix(name, ".json") {
		return os.WriteFile(filepath.Join(dir, name), []byte(existingJSON), 0o644)
	}
	return copyFile(filepath.Join(fixDir, "other.pdf"), filepath.Join(dir, name))
}

func fileSituations(outName string, optional bool) []situation {
	mk := func(s situation) situation {
		s.mDir, s.mJoined, s.msDir, s.msJoined = nNone, nNone, sAbsent, sAbsent
		return s
	}
	l := []situation{
		mk(situation{name: "absent", outFile: outName, mFile: nNamed, msFile: sAbsent, mustProceed: true}),
		mk(situation{name: "exists", outFile: outName, mFile: nNamed, msFile: sRegFile, mustRefuse: true,
			prep: func(d string, c *caseCtx) error { return writeExisting(d, outName) }}),
		mk(situation{name: "exists-force", force: true, outFile: outName, mFile: nNamed, msFile: sRegFile, mustProceed: true,
			prep: func(d string, c *caseCtx) error { return writeExisting(d, outName) }}),
		// output equal to the input: named and existing
		mk(situation{name: "same-as-input", outFile: "in.pdf", mFile: nNamed, msFile: sRegFile, mustRefuse: true, noK: true}),
		mk(situation{name: "is-directory", outFile: outName, mFile: nNamed, msFile: sEmptyDir, mustRefuse: true, sixth: true,
			prep: func(d string, c *caseCtx) error { return os.Mkdir(filepath.Join(d, outName), 0o755) }}),
		mk(situation{name: "stat-error", outFile: "in.pdf/" + outName, mFile: nNamed, msFile: sStatErr, sixth: true}),
		// the output lives in a sub-directory (catches guards looking at some other path than the one written)
		mk(situation{name: "exists-in-subdir", outFile: "sub/" + outName, mFile: nNamed, msFile: sRegFile, mustRefuse: true,
			prep: func(d string, c *caseCtx) error {
				if err := os.Mkdir(filepath.Join(d, "sub"), 0o755); err != nil {
					return err
				}
				return writeExisting(d, "sub/"+outName)
			}}),
		// ... absent there, while a file of the same base name exists in the working directory
		mk(situation{name: "absent-in-subdir-decoy", outFile: "sub/" + outName, mFile: nNamed, msFile: sAbsent, mustProceed: true, sixth: true,
			prep: func(d string, c *caseCtx) error {
				if err := os.Mkdir(filepath.Join(d, "sub"), 0o755); err != nil {
					return err
				}
				return writeExisting(d, outName)
			}}),
		mk(situation{name: "absent-force", force: true, outFile: outName, mFile: nNamed, msFile: sAbsent, mustProceed: true, thorough: true}),
	}
	if optional {
		l = append(l, mk(situation{name: "unnamed", outFile: "", mFile: nNone, msFile: sAbsent, mustProceed: true}))
	}
	return l
}

func dirSituations(withFile bool) []situation {
	of, mf := "", nNone
	tag := ""
	if withFile {
		of, mf, tag = "res.pdf", nNamed, "+outfile"
	}
	keep := func(d string, c *caseCtx) error {
		if err := os.Mkdir(filepath.Join(d, "od"), 0o755); err != nil {
			return err
		}
		return os.WriteFile(filepath.Join(d, "od", "keep.txt"), []byte("keep\n"), 0o644)
	}
	mk := func(s situation) situation {
		s.name += tag
		s.outDir, s.outFile, s.mDir, s.mFile = "od", of, nNamed, mf
		s.msFile = sAbsent
		if withFile {
			s.mJoined = nNamed
		} else {
			s.mJoined, s.msJoined = nNone, sAbsent
		}
		return s
	}
	l := []situation{
		mk(situation{name: "dir-empty", msDir: sEmptyDir, msJoined: sAbsent, mustProceed: true,
			prep: func(d string, c *caseCtx) error { return os.Mkdir(filepath.Join(d, "od"), 0o755) }}),
		mk(situation{name: "dir-nonempty", msDir: sNonEmptyDir, msJoined: sAbsent, mustRefuse: true, prep: keep,
			finding: "nonempty-outdir-not-refused"}),
		mk(situation{name: "dir-nonempty-force", force: true, msDir: sNonEmptyDir, msJoined: sAbsent, mustProceed: true, prep: keep}),
		mk(situation{name: "dir-is-file", msDir: sRegFile, msJoined: sStatErr,
			prep: func(d string, c *caseCtx) error {
				return os.WriteFile(filepath.Join(d, "od"), []byte("a regular file\n"), 0o644)
			}}),
	}
	if withFile {
		// the directory already holds the files the command is going to write
		l = append(l, mk(situation{name: "dir-has-parts", msDir: sNonEmptyDir, msJoined: sAbsent, mustRefuse: true,
			finding: "overwrites-existing-output",
			prep: func(d string, c *caseCtx) error {
				if c.partsErr != "" {
					return fmt.Errorf("no dry run: %s", c.partsErr)
				}
				if err := os.Mkdir(filepath.Join(d, "od"), 0o755); err != nil {
					return err
				}
				for _, p := range c.parts {
					if err := os.WriteFile(filepath.Join(d, "od", p), []byte("existing part\n"), 0o644); err != nil {
						return err
					}
				}
				return nil
			}}))
		// outDir/outFile itself exists
		l = append(l, mk(situation{name: "dir-has-outfile", msDir: sNonEmptyDir, msJoined: sRegFile, mustRefuse: true,
			prep: func(d string, c *caseCtx) error {
				if err := os.Mkdir(filepath.Join(d, "od"), 0o755); err != nil {
					return err
				}
				return copyFile(filepath.Join(fixDir, "other.pdf"), filepath.Join(d, "od", "res.pdf"))
			}}))
	}
	return l
}

// ---------------------------------------------------------------- argv

var defaults = map[string]string{"inFile": "in.pdf"}

func argv(c *caseCtx, s situation) ([]string, error) {
	a := strings.Fields(c.row.Path)
	if s.force {
		a = append(a, "--force")
	}
	a = append(a, c.smp.flags...)
	a = append(a, "--")
	for i, t := range c.row.Tokens {
		switch {
		case i == c.row.OutFileTok:
			if s.outFile != "" {
				a = append(a, s.outFile)
			} else if !t.Optional {
				return nil, fmt.Errorf("required output placeholder %s left out", t.Name)
			}
		case i == c.row.OutDirTok:
			a = append(a, s.outDir)
		case t.Alt || t.Optional:
			// alternatives and optional arguments are not used
		default:
			v, ok := c.smp.vals[t.Name]
			if !ok {
				v, ok = defaults[t.Name]
			}
			if !ok {
				return nil, fmt.Errorf("no sample value for required placeholder %q of %q", t.Name, c.row.Path)
			}
			a = append(a, v)
		}
	}
	return a, nil
}

func prepareCase(dir string, c *caseCtx) error {
	if err := os.MkdirAll(dir, 0o755); err != nil {
		return err
	}
	in := c.smp.in
	if in == "" {
		in = "base.pdf"
	}
	if err := copyFile(filepath.Join(fixDir, in), filepath.Join(dir, "in.pdf")); err != nil {
		return err
	}
	for _, v := range c.smp.vals {
		for _, sf := range sideFiles {
			if v == sf {
				if err := copyFile(filepath.Join(fixDir, sf), filepath.Join(dir, sf)); err != nil {
					return err
				}
			}
		}
	}
	return nil
}

// ---------------------------------------------------------------- fixtures

var fixDir string
var fixtureLog []string

func fixtures(repo string) {
	td := filepath.Join(repo, "pkg", "testdata")
	must(os.MkdirAll(fixDir, 0o755), "fixtures dir")
	must(copyFile(filepath.Join(td, "test.pdf"), filepath.Join(fixDir, "other.pdf")), "other.pdf")
	must(copyFile(filepath.Join(td, "test.pdf"), filepath.Join(fixDir, "one.pdf")), "one.pdf")
	must(copyFile(filepath.Join(td, "resources", "logoSmall.png"), filepath.Join(fixDir, "a.png")), "a.png")
	must(copyFile(filepath.Join(td, "annotTest.pdf"), filepath.Join(fixDir, "annot.pdf")), "annot.pdf")
	must(copyFile(filepath.Join(td, "json", "form", "textfield.json"), filepath.Join(fixDir, "create.json")), "create.json")
	must(copyFile(filepath.Join(td, "json", "viewerPreferences.json"), filepath.Join(fixDir, "vp.json")), "vp.json")
	step := func(args ...string) bool {
		r := runBin(fixDir, args...)
		if r.exit != 0 {
			fixtureLog = append(fixtureLog, fmt.Sprintf("fixture step %v: exit %d: %s", args, r.exit, strings.TrimSpace(r.stderr)))
			return false
		}
		return true
	}
	step("merge", "base.pdf", "one.pdf", "one.pdf") // two pages, with bookmarks
	step("bookmarks", "export", "base.pdf", "bm.json")
	step("create", "create.json", "form.pdf")
	if step("form", "export", "form.pdf", "form.json") {
		b, _ := os.ReadFile(filepath.Join(fixDir, "form.json"))
		os.WriteFile(filepath.Join(fixDir, "fill.json"), bytes.ReplaceAll(b, []byte("Jackie"), []byte("Jill")), 0o644)
	}
	step("watermark", "add", "Draft", "pos:c", "base.pdf", "wm.pdf")
	step("stamp", "add", "Draft", "pos:c", "base.pdf", "stamped.pdf")
	step("import", "img.pdf", "a.png")
	os.Mkdir(filepath.Join(fixDir, "imgx"), 0o755)
	if step("images", "extract", "img.pdf", "imgx") {
		copyFile(filepath.Join(fixDir, "imgx", "img_1_Im0.png"), filepath.Join(fixDir, "img_1_Im0.png"))
	}
	copyFile(filepath.Join(fixDir, "base.pdf"), filepath.Join(fixDir, "att.pdf"))
	step("attachments", "add", "att.pdf", "a.png")
	copyFile(filepath.Join(fixDir, "base.pdf"), filepath.Join(fixDir, "port.pdf"))
	step("portfolio", "add", "port.pdf", "a.png")
	step("keywords", "add", "base.pdf", "kw.pdf", "kw1")
	step("properties", "add", "base.pdf", "prop.pdf", "k1 = v1")
	step("encrypt", "--opw", "o", "--upw", "u", "base.pdf", "enc.pdf")
	step("boxes", "add", "crop:[0 0 100 100]", "base.pdf", "boxed.pdf")
}

// ---------------------------------------------------------------- --help tree

type helpCmd struct {
	path  string
	usage string
}

var helpMu sync.Mutex
var helpSem = make(chan struct{}, 8)

func helpTree(path []string, out *[]helpCmd, depth int) {
	if depth > 4 {
		return
	}
	helpSem <- struct{}{}
	r := runBin(fixDir, append(append([]string{}, path...), "--help")...)
	<-helpSem
	text := string(r.stdout) + r.stderr
	lines := strings.Split(text, "\n")
	usage := ""
	var subs []string
	section := ""
	for _, ln := range lines {
		t := strings.TrimSpace(ln)
		if strings.HasSuffix(t, ":") && !strings.HasPrefix(ln, " ") {
			section = t
			continue
		}
		if t == "" {
			continue
		}
		switch section {
		case "Usage:":
			if usage == "" && strings.HasPrefix(t, "pdfcpu") && !strings.HasSuffix(t, "[command]") {
				usage = t
			}
		case "Available Commands:", "Additional Commands:":
			if strings.HasPrefix(ln, "  ") {
				subs = append(subs, strings.Fields(t)[0])
			}
		}
	}
	if len(path) > 0 {
		helpMu.Lock()
		*out = append(*out, helpCmd{path: strings.Join(path, " "), usage: usage})
		helpMu.Unlock()
	}
	var wg sync.WaitGroup
	for _, s := range subs {
		if s == "help" {
			continue
		}
		wg.Add(1)
		go func(s string) {
			defer wg.Done()
			helpTree(append(append([]string{}, path...), s), out, depth+1)
		}(s)
	}
	wg.Wait()
}

// ---------------------------------------------------------------- main

type job struct {
	c   *caseCtx
	s   situation
	dir string
	// results
	args     []string
	res      result
	before   map[string]string
	after    map[string]string
	setupErr string
}

func dashes(s string) string { return strings.ReplaceAll(s, " ", "-") }

func main() {
	r := vh.Start("C04")
	defer r.Finish()

	repo := os.Getenv("VERIF_REPO")
	if repo == "" {
		repo = "/repo"
	}
	build := os.Getenv("VERIF_BUILD")
	if build == "" {
		build = "/verif/build/C04"
	}
	var tb table
	b, err := os.ReadFile(filepath.Join(build, "table.json"))
	must(err, "table.json (written by genc04)")
	must(json.Unmarshal(b, &tb), "table.json")
	if filepath.Clean(tb.Repo) != filepath.Clean(repo) {
		must(fmt.Errorf("table.json was generated from %s, the tree under test is %s", tb.Repo, repo), "table.json")
	}

	work := filepath.Join("/tmp/c04-scratch", fmt.Sprintf("run-%d", os.Getpid()))
	os.RemoveAll(work)
	must(os.MkdirAll(work, 0o755), "scratch dir")
	defer os.RemoveAll(work)
	cleanup := func() { os.RemoveAll(work); os.Remove("/tmp/c04-scratch") }
	defer cleanup()

	// the binary of the tree under test
	bin = filepath.Join(work, "pdfcpu")
	gb := exec.Command("go", "build", "-o", bin, "./cmd/pdfcpu")
	gb.Dir = repo
	gb.Env = append(os.Environ(), "GOFLAGS=-mod=mod", "GOPROXY=off")
	if out, err := gb.CombinedOutput(); err != nil {
		cleanup()
		must(fmt.Errorf("%v\n%s", err, out), "go build ./cmd/pdfcpu in "+repo)
	}
	fixDir = filepath.Join(work, "fx")
	fixtures(repo)

	// ---- the command tree as the binary reports it vs the translator's
	var hc []helpCmd
	helpTree(nil, &hc, 0)
	sort.Slice(hc, func(i, j int) bool { return hc[i].path < hc[j].path })
	known := map[string]cmdInfo{}
	for _, c := range tb.All {
		known[c.Path] = c
	}
	inTable := map[string]bool{}
	for _, rw := range tb.Rows {
		inTable[rw.Path] = true
	}
	helpOut := 0
	for _, h := range hc {
		if h.path == "completion" || strings.HasPrefix(h.path, "completion ") {
			continue
		}
		ci, ok := known[h.path]
		want := "pdfcpu " + strings.Join(strings.Fields(h.path)[:len(strings.Fields(h.path))-1], " ")
		if ok {
			want = strings.Join(strings.Fields(want+" "+ci.Use), " ")
		}
		got := strings.Join(strings.Fields(strings.TrimSuffix(h.usage, " [flags]")), " ")
		switch {
		case !ok:
			r.OracleFail("command-unknown-to-translator", map[string]any{"command": h.path, "usage": h.usage},
				"the binary has a command the translator did not find in the source")
		case ci.Runnable && got != want:
			r.OracleFail("usage-differs-from-translator", map[string]any{"command": h.path, "usage": got, "translator": want},
				"the usage line printed by the binary differs from the Use string the translator read")
		default:
			r.OracleOK()
		}
		hasOut := false
		for _, f := range strings.Fields(strings.NewReplacer("[", " ", "]", " ", "(", " ", ")", " ", "<", " ", ">", " ", "|", " ").Replace(h.usage)) {
			if strings.HasPrefix(f, "out") {
				hasOut = true
			}
		}
		if hasOut {
			helpOut++
			if !inTable[h.path] {
				r.OracleFail("output-command-missing-from-table", map[string]any{"command": h.path, "usage": h.usage},
					"usage names an out* placeholder but the command is not a row of the table")
			}
		}
	}
	r.Case("tablelen", nil, vh.Int(int64(helpOut)))
	r.CountN("help:commands", len(hc))

	// ---- jobs
	var jobs []*job
	for i := range tb.Rows {
		rw := tb.Rows[i]
		c := &caseCtx{row: rw, smp: samples[rw.Path]}
		var sits []situation
		switch rw.Kind {
		case "file":
			t := rw.Tokens[rw.OutFileTok]
			name := "out.pdf"
			if strings.HasSuffix(t.Name, "JSON") {
				name = "out.json"
			}
			sits = fileSituations(name, t.Optional)
		case "dir":
			sits = dirSituations(false)
		case "dirfile":
			sits = append(dirSituations(false), dirSituations(true)...)
			// dry run: which names does the command write when outFile is named?
			d := filepath.Join(work, "dry", strconv.Itoa(rw.ID))
			if err := prepareCase(d, c); err != nil {
				c.partsErr = err.Error()
			} else {
				os.Mkdir(filepath.Join(d, "od"), 0o755)
				a, err := argv(c, situation{outDir: "od", outFile: "res.pdf"})
				if err != nil {
					c.partsErr = err.Error()
				} else if res := runBin(d, a...); res.exit != 0 {
					c.partsErr = fmt.Sprintf("exit %d: %s", res.exit, strings.TrimSpace(res.stderr))
				} else {
					ents, _ := os.ReadDir(filepath.Join(d, "od"))
					for _, e := range ents {
						c.parts = append(c.parts, e.Name())
					}
					if len(c.parts) == 0 {
						c.partsErr = "the dry run wrote nothing"
					}
				}
			}
		default:
			must(fmt.Errorf("row %q: unknown kind %q", rw.Path, rw.Kind), "table.json")
		}
		for _, s := range sits {
			if s.thorough && !r.Thorough() {
				continue
			}
			if !r.Thorough() && s.sixth && (int64(rw.ID)+r.Seed)%6 != 0 {
				// branches inside the shared guard function: a sixth of the rows per seed in the quick tier
				continue
			}
			if len(rw.Guards) == 0 && (s.name == "is-directory" || s.name == "stat-error" || s.name == "same-as-input" || s.name == "dir-is-file" || s.name == "exists-in-subdir" || s.name == "absent-in-subdir-decoy") {
				// the handler reaches no guard: what happens with an unusable output path is the operation's business
				continue
			}
			jobs = append(jobs, &job{c: c, s: s, dir: filepath.Join(work, "c", fmt.Sprintf("%d-%s", rw.ID, s.name))})
		}
	}

	// ---- run them (parallel; every job has its own directory)
	var wg sync.WaitGroup
	ch := make(chan *job)
	nw := runtime.NumCPU()
	if nw > 8 {
		nw = 8
	}
	if nw < 2 {
		nw = 2
	}
	for w := 0; w < nw; w++ {
		wg.Add(1)
		go func() {
			defer wg.Done()
			for j := range ch {
				if err := prepareCase(j.dir, j.c); err != nil {
					j.setupErr = err.Error()
					continue
				}
				if j.s.prep != nil {
					if err := j.s.prep(j.dir, j.c); err != nil {
						j.setupErr = err.Error()
						continue
					}
				}
				a, err := argv(j.c, j.s)
				if err != nil {
					j.setupErr = err.Error()
					continue
				}
				j.args = a
				j.before = snapshot(j.dir)
				j.res = runBin(j.dir, a...)
				j.after = snapshot(j.dir)
			}
		}()
	}
	for _, j := range jobs {
		ch <- j
	}
	close(ch)
	wg.Wait()

	// ---- evaluate, in table order
	refusedExisting := map[int]string{} // row id -> "true"/"false" (did the binary refuse the existing output?)
	for _, j := range jobs {
		rw, s := j.c.row, j.s
		input := map[string]any{"command": rw.Path, "situation": s.name, "args": j.args, "use": rw.Use}
		if j.setupErr != "" {
			r.OracleFail("cannot-exercise:"+dashes(rw.Path), input, "case could not be set up: "+j.setupErr)
			continue
		}
		got := classify(j.res)
		r.Count("outcome:" + got)
		r.Count("situation:" + s.name)
		changed := changedExisting(j.before, j.after)
		stderr := strings.TrimSpace(j.res.stderr)
		if len(stderr) > 300 {
			stderr = stderr[:300]
		}
		input["exit"] = j.res.exit
		input["stderr"] = stderr
		if strings.Contains(j.res.stderr, "panic:") || strings.Contains(j.res.stderr, "goroutine ") || j.res.timedOut {
			r.OracleFail("panic-or-hang:"+dashes(rw.Path), input, "the binary panicked or timed out")
			continue
		}
		unavailable := j.c.smp.downstreamUnavailable && !s.mustRefuse && got == "fail"
		if unavailable {
			r.Count("class:downstream-unavailable")
		}

		// K: model decision for this row and situation
		if !s.noK && !unavailable {
			r.Case("decide", []string{vh.Int(int64(rw.ID)), s.mDir, s.mFile, s.mJoined, vh.Bool(s.force), s.msDir, s.msFile, s.msJoined}, got)
		}

		// O: the property on the binary
		switch {
		case s.mustRefuse:
			suffix := dashes(rw.Path)
			if strings.HasSuffix(s.name, "+outfile") {
				suffix += ":outfile-named"
			}
			switch {
			case len(changed) > 0:
				r.OracleFail("overwrites-existing-output:"+suffix, input,
					"without --force: "+strings.Join(changed, ", "))
			case got == "proceed":
				cl := "no-refusal-for-existing-output:"
				if s.finding == "nonempty-outdir-not-refused" || rw.Kind != "file" {
					cl = "nonempty-outdir-not-refused:"
				}
				r.OracleFail(cl+suffix, input, "exit 0 without --force although the output exists / the directory is not empty")
			case s.name == "same-as-input" && got == "fail":
				// rejected for another reason (e.g. "may appear as inFile or outFile only"): non-zero exit, nothing touched
				r.OracleOK()
			case got == "fail":
				r.OracleFail("no-refusal-message:"+suffix, input, "non-zero exit but not the refusal text")
			default:
				r.OracleOK()
			}
			if s.name == "exists" || s.name == "dir-nonempty" {
				refusedExisting[rw.ID] = vh.Bool(got == "refuse-file" || got == "refuse-dir")
			}
		case s.mustProceed:
			switch {
			case unavailable:
			case got != "proceed":
				r.OracleFail("does-not-proceed:"+dashes(rw.Path)+":"+s.name, input, "expected exit 0 (with --force / nothing named / nothing there)")
			default:
				// the output must now be there (named outputs)
				ok := true
				if s.outDir == "" && s.outFile != "" && s.outFile != "-" {
					_, ok = j.after[s.outFile]
				}
				if s.outDir != "" {
					n := 0
					for k := range j.after {
						if strings.HasPrefix(k, "od/") && k != "od/keep.txt" {
							n++
						}
					}
					ok = n > 0
				}
				if !ok {
					r.OracleFail("proceeds-without-output:"+dashes(rw.Path)+":"+s.name, input, "exit 0 but the named output was not written")
				} else {
					r.OracleOK()
				}
			}
		default:
			// guard error situations: no refusal expected, nothing may change
			if len(changed) > 0 && !s.force {
				r.OracleFail("overwrites-existing-output:"+dashes(rw.Path)+":"+s.name, input, strings.Join(changed, ", "))
			} else {
				r.OracleOK()
			}
		}
	}
	// K: static verdict of the row vs the binary refusing an existing output
	for _, rw := range tb.Rows {
		if v, ok := refusedExisting[rw.ID]; ok {
			r.Case("guarded", []string{vh.Int(int64(rw.ID))}, v)
		}
	}
	for _, l := range fixtureLog {
		r.Sample(map[string]any{"fixture-problem": l})
		fmt.Fprintln(os.Stderr, "hC04:", l)
	}
	r.CountN("rows", len(tb.Rows))
	r.CountN("jobs", len(jobs))
}
