(* C11 — Any PDF object pdfcpu writes parses back to the same object.
   Hand-written executable model.  No proofs here.

   Printers (two, transcribed separately):
     pkg/pdfcpu/types: Boolean/Integer/Float/Name/StringLiteral/HexLiteral/IndirectRef .PDFString,
                       Array.PDFString (array.go), Dict.PDFString (dict.go), EncodeName (string.go)
     pkg/pdfcpu/writeObjects_pdf.go: appendPDFObject, appendPDFArray, arrayObjectNeedsSpace,
                       appendPDFDict, appendPDFDictEntry, dictObjectNeedsSpace
   Parser: pkg/pdfcpu/model/parse.go: ParseObjectContext, parseObjectContext, parseObjectValue,
     trimLeftSpace, positionToNextWhitespaceOrChar, positionToNextEOL, parseArray, parseDict,
     processDictKeys, insertKey, parseName (+ types.DecodeName), parseStringLiteral,
     balancedParenthesesPrefix, parseHexLiteral, hexString, parseHexLiteralOrDict,
     parseBooleanOrNull, parseNumericOrIndRef, startParseNumericOrIndRef, parseIndRef, parseFloat,
     delimiter, CheckRecursionDepth (recursion.go).
   Go stdlib that is modelled, not verified: strconv.Atoi (transcribed: sign, digits, uint64
   cutoff, int64 range), strconv.ParseFloat (decimal syntax incl. exponent and underscores, and the
   overflow threshold; hex floats / inf / nan are NOT modelled: rejected here), unicode.IsSpace
   + UTF-8 decoding of `range s` (as the byte sequences of the white-space runes),
   strconv.FormatFloat(f,'f',12,64) / Itoa (decimal printing).  A real is a decimal
   (sign, mantissa, exponent): the binary <-> decimal conversion of float64 is outside the model.

   Bytes are N; byte strings are list N; Go ints are Z; nat only for fuel. *)
From Coq Require Import NArith ZArith List Bool.
From PV Require Import Lib.GoInt.
Import ListNotations.
Open Scope N_scope.

Definition bytes := list N.

(* ------------------------------------------------------------------ objects *)

Inductive obj :=
| ONull
| OBool (b : bool)
| OInt (z : Z)
| OReal (neg : bool) (m : N) (e : Z)        (* (-1)^neg * m * 10^e ; written reals have e = -12 *)
| OName (s : bytes)
| OStr (s : bytes)                          (* raw (escaped) content between the parentheses *)
| OHex (s : bytes)                          (* the hex digits between < and > *)
| ORef (a b : Z)
| OArr (l : list obj)
| ODict (d : list (bytes * obj)).           (* a Go map, listed in the order sort.Strings gives *)

(* ------------------------------------------------------------------ decimal printing *)

(* strconv.Itoa / AppendInt / FormatFloat integer part: decimal digits, most significant first *)
Fixpoint udigits (fuel : nat) (n : N) (acc : bytes) : bytes :=
  match fuel with
  | O => acc
  | S f => let acc' := (48 + n mod 10) :: acc in
           if n <? 10 then acc' else udigits f (n / 10) acc'
  end.
Definition utoa (n : N) : bytes := udigits (S (N.to_nat (N.log2 n))) n [].
Definition itoa (z : Z) : bytes := if (z <? 0)%Z then 45 :: utoa (Z.abs_N z) else utoa (Z.abs_N z).

(* exactly k digits, zero padded *)
Fixpoint fixdigits (k : nat) (n : N) (acc : bytes) : bytes :=
  match k with
  | O => acc
  | S k' => fixdigits k' (n / 10) ((48 + n mod 10) :: acc)
  end.

Definition pow12 : N := 1000000000000.
(* types.go Float.PDFString = strconv.FormatFloat(f,'f',12,64) on the decimal m * 10^-12 *)
Definition print_real (neg : bool) (m : N) : bytes :=
  (if neg then [45] else []) ++ utoa (m / pow12) ++ 46 :: fixdigits 12 (m mod pow12) [].

(* ------------------------------------------------------------------ names *)

(* string.go:needsHexSequence *)
Definition needs_hex (c : N) : bool :=
  (c =? 40) || (c =? 41) || (c =? 60) || (c =? 62) || (c =? 91) || (c =? 93) || (c =? 123) || (c =? 125)
  || (c =? 47) || (c =? 37) || (c =? 35) || (c <? 33) || (126 <? c).

(* hex.EncodeToString digit (lower case) *)
Definition hexdig (v : N) : N := if v <? 10 then 48 + v else 87 + v.

(* string.go:EncodeName *)
Definition enc1 (c : N) : bytes := if needs_hex c then [35; hexdig (c / 16); hexdig (c mod 16)] else [c].
Definition encode_name (s : bytes) : bytes := flat_map enc1 s.

(* hex.DecodeString digit value (both cases) *)
Definition hexval (c : N) : option N :=
  if (48 <=? c) && (c <=? 57) then Some (c - 48)
  else if (97 <=? c) && (c <=? 102) then Some (c - 87)
  else if (65 <=? c) && (c <=? 70) then Some (c - 55)
  else None.

(* string.go:DecodeName; None = error *)
Fixpoint decode_name (s : bytes) : option bytes :=
  match s with
  | [] => Some []
  | c :: t =>
    if c =? 0 then None
    else if c =? 35 then
      match t with
      | h :: t1 =>
        match t1 with
        | l :: t2 =>
          match hexval h, hexval l with
          | Some hv, Some lv =>
            let b := hv * 16 + lv in
            if b =? 0 then None
            else match decode_name t2 with Some r => Some (b :: r) | None => None end
          | _, _ => None
          end
        | [] => None
        end
      | [] => None
      end
    else match decode_name t with Some r => Some (c :: r) | None => None end
  end.

(* string.go:Escape (used by callers to build StringLiteral values; tied by the harness) *)
Definition esc1 (c : N) : bytes :=
  if c =? 10 then [92; 110] else if c =? 13 then [92; 114] else if c =? 9 then [92; 116]
  else if c =? 8 then [92; 98] else if c =? 12 then [92; 102]
  else if (c =? 92) || (c =? 40) || (c =? 41) then [92; c]
  else [c].
Definition escape (s : bytes) : bytes := flat_map esc1 s.

(* ------------------------------------------------------------------ printers *)

Definition s_null : bytes := [110; 117; 108; 108].
Definition s_true : bytes := [116; 114; 117; 101].
Definition s_false : bytes := [102; 97; 108; 115; 101].

(* types.go Name.PDFString: "/" + (" " for the empty name, else EncodeName) *)
Definition print_name (s : bytes) : bytes := 47 :: match s with [] => [32] | _ => encode_name s end.

(* array.go Array.PDFString: which entry kinds get sepstr *)
Definition arr_sep_S (o : obj) : bool :=
  match o with ODict _ | OArr _ | OName _ => false | _ => true end.
(* dict.go Dict.PDFString: which value kinds are written "/%s %s" *)
Definition dict_sep_S (o : obj) : bool :=
  match o with ONull | ORef _ _ | OInt _ | OReal _ _ _ | OBool _ => true | _ => false end.

(* types: PDFString *)
Fixpoint print_S (o : obj) : bytes :=
  match o with
  | ONull => s_null
  | OBool b => if b then s_true else s_false
  | OInt z => itoa z
  | OReal neg m _ => print_real neg m
  | OName s => print_name s
  | OStr s => 40 :: s ++ [41]
  | OHex s => 60 :: s ++ [62]
  | ORef a b => itoa a ++ 32 :: itoa b ++ [32; 82]
  | OArr l =>
    91 :: (fix items (first : bool) (l : list obj) : bytes :=
             match l with
             | [] => [93]
             | x :: t => (if first then [] else if arr_sep_S x then [32] else []) ++ print_S x ++ items false t
             end) true l
  | ODict d =>
    60 :: 60 :: (fix ents (d : list (bytes * obj)) : bytes :=
                   match d with
                   | [] => [62; 62]
                   | (k, v) :: t => 47 :: encode_name k ++ (if dict_sep_S v then [32] else []) ++ print_S v ++ ents t
                   end) d
  end.

(* writeObjects_pdf.go:arrayObjectNeedsSpace *)
Definition arr_sep_A (o : obj) : bool :=
  match o with ODict _ | OArr _ | OName _ => false | _ => true end.
(* writeObjects_pdf.go:dictObjectNeedsSpace *)
Definition dict_sep_A (o : obj) : bool :=
  match o with ODict _ | OArr _ | OName _ | OStr _ | OHex _ => false | _ => true end.

(* writeObjects_pdf.go:appendPDFObject / appendPDFArray / appendPDFDict / appendPDFDictEntry *)
Fixpoint print_A (o : obj) : bytes :=
  match o with
  | ONull => s_null
  | OBool b => if b then s_true else s_false                 (* strconv.AppendBool *)
  | OInt z => itoa z                                          (* strconv.AppendInt *)
  | OReal neg m _ => print_real neg m                         (* strconv.AppendFloat 'f' 12 *)
  | OName s => print_name s
  | OStr s => 40 :: s ++ [41]
  | OHex s => 60 :: s ++ [62]
  | ORef a b => itoa a ++ 32 :: itoa b ++ [32; 82]
  | OArr l =>
    91 :: (fix items (first : bool) (l : list obj) : bytes :=
             match l with
             | [] => [93]
             | x :: t => (if negb first && arr_sep_A x then [32] else []) ++ print_A x ++ items false t
             end) true l
  | ODict d =>
    60 :: 60 :: (fix ents (d : list (bytes * obj)) : bytes :=
                   match d with
                   | [] => [62; 62]
                   | (k, v) :: t => 47 :: encode_name k ++ (if dict_sep_A v then [32] else []) ++ print_A v ++ ents t
                   end) d
  end.

(* ------------------------------------------------------------------ white space *)

(* byte classes used by trimLeftSpace *)
Inductive bcls := BSp (* \t \v \f ' ' *) | BEol (* \n \r *) | BNul | BPct | BC2 | BE1 | BE2 | BE3 | BOther.
Definition cls (c : N) : bcls :=
  if (c =? 9) || (c =? 11) || (c =? 12) || (c =? 32) then BSp
  else if (c =? 10) || (c =? 13) then BEol
  else if c =? 0 then BNul
  else if c =? 37 then BPct
  else if c =? 194 then BC2
  else if c =? 225 then BE1
  else if c =? 226 then BE2
  else if c =? 227 then BE3
  else BOther.

(* unicode.IsSpace on the rune that `range s` decodes at the head of l:
   length in bytes of that rune if it is white space, else 0.
   U+0085 U+00A0 | U+1680 | U+2000..U+200A U+2028 U+2029 U+202F U+205F | U+3000 *)
Definition uspace_len (l : bytes) : nat :=
  match l with
  | [] => O
  | c :: t =>
    match cls c with
    | BSp | BEol => 1%nat
    | BC2 => match t with d :: _ => if (d =? 133) || (d =? 160) then 2%nat else O | [] => O end
    | BE1 => match t with d :: e :: _ => if (d =? 154) && (e =? 128) then 3%nat else O | _ => O end
    | BE2 => match t with
             | d :: e :: _ =>
               if ((d =? 128) && (((128 <=? e) && (e <=? 138)) || (e =? 168) || (e =? 169) || (e =? 175)))
                  || ((d =? 129) && (e =? 159)) then 3%nat else O
             | _ => O end
    | BE3 => match t with d :: e :: _ => if (d =? 128) && (e =? 128) then 3%nat else O | _ => O end
    | _ => O
    end
  end.

(* strings.TrimLeftFunc(s, unicode.IsSpace) *)
Fixpoint trim_uspace (fuel : nat) (l : bytes) : bytes :=
  match fuel with
  | O => l
  | S f => match uspace_len l with O => l | n => trim_uspace f (skipn n l) end
  end.
(* the whole of l is white space *)
Definition uspaces_only (l : bytes) : bool :=
  match trim_uspace (length l) l with [] => true | _ => false end.
(* strings.TrimSpace *)
Fixpoint trim_right (l : bytes) : bytes :=
  match l with [] => [] | c :: t => if uspaces_only l then [] else c :: trim_right t end.
Definition trim_space (l : bytes) : bytes := trim_right (trim_uspace (length l) l).

(* parse.go:trimLeftSpace(s, relaxed) -> (s, eol).
   One pass: [cmt] = inside a '%' comment; [noeol] = in this round of the for loop only
   whitespaceNoEol runes ('\t','\v','\f',' ',U+85,U+A0,0) have been removed so far, so a '\n'/'\r'
   found now is what `s[0]` is after the first TrimLeftFunc of the relaxed branch. *)
Fixpoint tls (relaxed cmt noeol eol : bool) (l : bytes) : bytes * bool :=
  match l with
  | [] => ([], eol)
  | c :: t =>
    if cmt then
      match cls c with
      | BEol => tls relaxed false true eol l      (* positionToNextEOL: continue at the EOL byte *)
      | _ => tls relaxed true noeol eol t
      end
    else
      match cls c with
      | BSp | BNul => tls relaxed false noeol eol t
      | BEol => tls relaxed false noeol (eol || (relaxed && noeol)) t
      | BPct => match t with [] => (l, eol) | _ => tls relaxed true noeol eol t end
      | BC2 => match t with
               | d :: t2 => if (d =? 133) || (d =? 160) then tls relaxed false noeol eol t2 else (l, eol)
               | [] => (l, eol) end
      | BE1 | BE2 | BE3 =>
        match uspace_len l, t with
        | S (S (S O)), _ :: _ :: t3 => tls relaxed false false eol t3
        | _, _ => (l, eol)
        end
      | BOther => (l, eol)
      end
  end.
