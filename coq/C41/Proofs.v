(* C41 — lemmas about the hand model (Model.v) and the generated tables (Generated.v). *)
From Coq Require Import ZArith NArith List Bool String Lia.
From PV Require Import C41.Model C41.Generated.
Import ListNotations.
Local Open Scope list_scope.

(* ---------- observations distribute over ++ ---------- *)
Lemma stdout_of_app : forall a b, stdout_of (a ++ b) = stdout_of a ++ stdout_of b.
Proof.
  induction a as [|x a IH]; intros b; simpl; [reflexivity|].
  destruct x; simpl; rewrite ?IH, ?app_assoc; reflexivity.
Qed.

Lemma outfile_of_app : forall a b, outfile_of (a ++ b) = outfile_of a ++ outfile_of b.
Proof.
  induction a as [|x a IH]; intros b; simpl; [reflexivity|].
  destruct x; simpl; rewrite ?IH, ?app_assoc; reflexivity.
Qed.

(* the operation's effects when the sink is stdout and the CLI logger is off: exactly the
   document bytes reach stdout, whatever the logger's destination *)
Lemma body_stdout_logoff : forall d acts,
  stdout_of (flat_map (emit d false SnkStdout) acts) = writes_of acts
  /\ outfile_of (flat_map (emit d false SnkStdout) acts) = [].
Proof.
  intros d acts; induction acts as [|a acts [IH1 IH2]]; simpl; [split; reflexivity|].
  destruct a as [b|m]; simpl.
  - rewrite IH1, IH2. split; reflexivity.
  - split; assumption.
Qed.

(* file sink: the document bytes go to the file, whatever the logger does *)
Lemma body_file : forall d on k acts, k <> SnkStdout ->
  outfile_of (flat_map (emit d on k) acts) = writes_of acts.
Proof.
  intros d on k acts Hk; induction acts as [|a acts IH]; simpl; [reflexivity|].
  destruct a as [b|m]; simpl.
  - destruct k; [congruence| |]; simpl; rewrite IH; reflexivity.
  - destruct on; simpl; [destruct d; simpl|]; exact IH.
Qed.

(* file sink with the logger writing to stderr (this tree) or switched off: nothing on stdout *)
Lemma body_file_stdout_quiet : forall on k acts, k <> SnkStdout ->
  stdout_of (flat_map (emit DStderr on k) acts) = [].
Proof.
  intros on k acts Hk; induction acts as [|a acts IH]; simpl; [reflexivity|].
  destruct a as [b|m]; simpl.
  - destruct k; [congruence| |]; simpl; exact IH.
  - destruct on; simpl; exact IH.
Qed.

(* ---------- streamInOutForOperation ---------- *)
Lemma open_input_no_output : forall i e,
  match open_input i e with
  | inl (_, tr) => stdout_of tr = [] /\ outfile_of tr = []
  | inr (_, tr) => stdout_of tr = [] /\ outfile_of tr = []
  end.
Proof.
  intros i e; unfold open_input.
  destruct i; simpl; [split; reflexivity| |].
  - destruct (e_stdin e); simpl; split; reflexivity.
  - destruct (e_open_ok e); simpl; split; reflexivity.
Qed.

Lemma release_no_output : forall s, stdout_of (release_input s) = [] /\ outfile_of (release_input s) = [].
Proof. destruct s; simpl; split; reflexivity. Qed.

(* nothing is written to stdout or to the output while preparing *)
Lemma prep_no_output : forall i o e c,
  match streamInOut i o e c with
  | PErr _ tr _ => stdout_of tr = [] /\ outfile_of tr = []
  | POk _ _ tr _ => stdout_of tr = [] /\ outfile_of tr = []
  end.
Proof.
  intros i o e c; unfold streamInOut.
  pose proof (open_input_no_output i e) as Hin.
  destruct (open_input i e) as [[cl tr]|[s tr]]; [exact Hin|].
  destruct Hin as [H1 H2].
  pose proof (release_no_output s) as [R1 R2].
  destruct (eff_out i o) eqn:Ho; simpl.
  - destruct (e_create e); simpl; rewrite ?stdout_of_app, ?outfile_of_app, ?H1, ?H2, ?R1, ?R2; simpl; split; reflexivity.
  - rewrite stdout_of_app, outfile_of_app, H1, H2; simpl; split; reflexivity.
  - destruct (e_create e); simpl; rewrite ?stdout_of_app, ?outfile_of_app, ?H1, ?H2, ?R1, ?R2; simpl; split; reflexivity.
Qed.

(* io.go:203-206: whenever the sink is stdout the CLI logger has been switched off, the
   switch-off is among the effects, and no byte has reached stdout before it *)
Lemma stdout_sink_disables_cli_log_l : forall i o e c s tr on',
  streamInOut i o e c = POk s SnkStdout tr on' ->
  on' = false /\ In EvLogOff tr /\ stdout_of tr = [] /\ eff_out i o = ADash.
Proof.
  intros i o e c s tr on' H.
  pose proof (prep_no_output i o e c) as Hn. rewrite H in Hn. destruct Hn as [Hn _].
  unfold streamInOut in H.
  destruct (open_input i e) as [[cl tr0]|[s0 tr0]]; [discriminate|].
  destruct (eff_out i o) eqn:Ho.
  - simpl in H. discriminate.
  - inversion H; subst. repeat split; auto. apply in_or_app; right; left; reflexivity.
  - simpl in H. destruct (e_create e); discriminate.
Qed.

(* conversely the sink is stdout exactly when the effective output argument is "-" *)
Lemma sink_decision_l : forall i o e c s k tr on',
  streamInOut i o e c = POk s k tr on' ->
  (k = SnkStdout <-> (o = ADash \/ (i = ADash /\ o = AEmpty))).
Proof.
  intros i o e c s k tr on' H. unfold streamInOut, open_input, create_of in H.
  destruct i, o; simpl in H; destruct (e_stdin e), (e_open_ok e), (e_create e); simpl in H;
    try discriminate; inversion H; subst; split; intros Hx;
    try reflexivity; try discriminate; try (left; reflexivity); try (right; split; reflexivity);
    try (destruct Hx as [Hx|[Hx1 Hx2]]; discriminate).
Qed.

(* totality: every (in, out, environment) yields one of the six error classes or a
   (source, sink) pair given by this table — there is no other outcome *)
Definition decision_spec (i o : arg) (e : env) : (err_class + (src * snk)) :=
  match i, e_stdin e, e_open_ok e with
  | ADash, SCreateFail, _ => inl ErrStdinCreate
  | ADash, SCopyFail, _ => inl ErrStdinRead
  | ADash, SEmpty, _ => inl ErrStdinEmpty
  | ADash, SRewindFail, _ => inl ErrStdinRewind
  | APath, _, false => inl ErrOpenInput
  | _, _, _ =>
    let s := match i with AEmpty => SrcNone | ADash => SrcStdin | APath => SrcFile end in
    match i, o with
    | _, ADash | ADash, AEmpty => inr (s, SnkStdout)
    | _, AEmpty => inl ErrCreateOutput
    | _, APath => match e_create e with CNew => inr (s, SnkFile) | CReplace => inr (s, SnkTemp)
                                   | CFail => inl ErrCreateOutput end
    end
  end.

Lemma decision_total_l : forall i o e c,
  match streamInOut i o e c with
  | PErr cl _ on' => decision_spec i o e = inl cl /\ on' = c
  | POk s k _ on' => decision_spec i o e = inr (s, k) /\ on' = (if match k with SnkStdout => true | _ => false end then false else c)
  end.
Proof.
  intros i o e c. unfold streamInOut, decision_spec, open_input, create_of.
  destruct i, o; simpl; destruct (e_stdin e), (e_open_ok e), (e_create e); simpl; split; reflexivity.
Qed.

(* ---------- the whole stream command ---------- *)

(* with a stdout sink the bytes on stdout are exactly the bytes the operation wrote: no CLI
   log text, whatever the logger's destination and initial state; nothing on failure to prepare *)
Lemma stream_stdout_is_document_l : forall d c i o e acts ok,
  match streamInOut i o e c with
  | POk _ SnkStdout _ _ =>
      stdout_of (fst (run_stream d c i o e acts ok)) = writes_of acts
  | POk _ _ _ _ =>
      outfile_of (fst (run_stream d c i o e acts ok)) = writes_of acts
      /\ (d = DStderr -> stdout_of (fst (run_stream d c i o e acts ok)) = [])
  | PErr _ _ _ =>
      stdout_of (fst (run_stream d c i o e acts ok)) = []
      /\ outfile_of (fst (run_stream d c i o e acts ok)) = []
      /\ snd (run_stream d c i o e acts ok) = false
  end.
Proof.
  intros d c i o e acts ok. unfold run_stream.
  pose proof (prep_no_output i o e c) as Hn.
  destruct (streamInOut i o e c) as [cl tr on'|s k tr on'] eqn:Hs.
  - destruct Hn as [H1 H2]. simpl. auto.
  - destruct Hn as [H1 H2].
    assert (Hfin : forall s k e ok, stdout_of (fst (finalize s k e ok)) = [] /\ outfile_of (fst (finalize s k e ok)) = []).
    { intros s1 k1 e1 ok1. unfold finalize.
      pose proof (release_no_output s1) as [R1 R2].
      destruct ok1, k1; simpl; try destruct (e_replace_ok e1); simpl;
        rewrite ?stdout_of_app, ?outfile_of_app, ?R1, ?R2; simpl; split; reflexivity. }
    destruct (finalize s k e ok) as [fin okf] eqn:Hf.
    pose proof (Hfin s k e ok) as [F1 F2]. rewrite Hf in F1, F2. simpl in F1, F2.
    destruct k; simpl.
    + apply stdout_sink_disables_cli_log_l in Hs. destruct Hs as [Hon _]. subst on'.
      rewrite !stdout_of_app, H1, F1. destruct (body_stdout_logoff d acts) as [B1 _]. rewrite B1, app_nil_r. reflexivity.
    + split.
      * rewrite !outfile_of_app, H2, F2, body_file by discriminate. rewrite app_nil_r. reflexivity.
      * intros ->. rewrite !stdout_of_app, H1, F1, body_file_stdout_quiet by discriminate. reflexivity.
    + split.
      * rewrite !outfile_of_app, H2, F2, body_file by discriminate. rewrite app_nil_r. reflexivity.
      * intros ->. rewrite !stdout_of_app, H1, F1, body_file_stdout_quiet by discriminate. reflexivity.
Qed.

(* stream variant and file variant deliver the same document: both run the same operation,
   so whenever both prepare successfully, what arrives on stdout in the one equals what is
   written to the output file in the other — for any logger state / destination on either side
   and whatever the kind of source *)
Lemma stream_equals_file_l : forall d1 c1 i1 o1 e1 d2 c2 i2 o2 e2 acts ok1 ok2 s1 tr1 on1 s2 k2 tr2 on2,
  streamInOut i1 o1 e1 c1 = POk s1 SnkStdout tr1 on1 ->
  streamInOut i2 o2 e2 c2 = POk s2 k2 tr2 on2 -> k2 <> SnkStdout ->
  stdout_of (fst (run_stream d1 c1 i1 o1 e1 acts ok1)) = outfile_of (fst (run_stream d2 c2 i2 o2 e2 acts ok2)).
Proof.
  intros d1 c1 i1 o1 e1 d2 c2 i2 o2 e2 acts ok1 ok2 s1 tr1 on1 s2 k2 tr2 on2 H1 H2 Hk.
  pose proof (stream_stdout_is_document_l d1 c1 i1 o1 e1 acts ok1) as A. rewrite H1 in A.
  pose proof (stream_stdout_is_document_l d2 c2 i2 o2 e2 acts ok2) as B. rewrite H2 in B.
  destruct k2; [congruence| |]; destruct B as [B _]; rewrite A, B; reflexivity.
Qed.

(* a failing operation or a failing preparation makes the command fail *)
Lemma failing_stream_fails_l : forall d c i o e acts,
  snd (run_stream d c i o e acts false) = false.
Proof.
  intros. unfold run_stream. destruct (streamInOut i o e c) as [cl tr on'|s k tr on']; [reflexivity|].
  unfold finalize. simpl. reflexivity.
Qed.

Lemma exit_status_nonzero_l : forall ok, ok = false -> exit_status ok <> 0%Z.
Proof. intros ok ->. simpl. discriminate. Qed.

Lemma exit_status_zero_l : forall ok, exit_status ok = 0%Z <-> ok = true.
Proof. destruct ok; simpl; split; intros H; try reflexivity; discriminate. Qed.

(* ---------- file-system residue ---------- *)
Lemma step_body_fs : forall d on k acts f,
  fold_left (step_fs k) (flat_map (emit d on k) acts) f = f.
Proof.
  intros d on k acts; induction acts as [|a acts IH]; intros f; simpl; [reflexivity|].
  rewrite fold_left_app. destruct a as [b|m]; simpl.
  - destruct k; simpl; apply IH.
  - destruct on; simpl; [destruct d; simpl|]; apply IH.
Qed.

(* after any stream command — success or failure of the preparation, of the operation or of
   the final rename — the temporary stdin copy and the temporary output are gone, and a failed
   command leaves the output path as it was (absent stays absent, old content stays) *)
Lemma stream_residue_l : forall d c i o e acts ok init,
  let r := run_stream d c i o e acts ok in
  let k := match streamInOut i o e c with POk _ k _ _ => k | _ => SnkFile end in
  let f := final_fs k init (fst r) in
  f_tin f = false /\ f_tmp f = false /\
  (snd r = false ->
     match streamInOut i o e c with
     | POk _ SnkFile _ _ => f_out f = 0%N      (* the freshly created file is removed again *)
     | _ => f_out f = init                     (* nothing was created at the output path *)
     end).
Proof.
  intros d c i o e acts ok init. unfold run_stream, final_fs.
  unfold streamInOut, open_input, create_of.
  destruct i, o; simpl; destruct (e_stdin e), (e_open_ok e), (e_create e); simpl;
    unfold finalize; destruct ok; simpl; try destruct (e_replace_ok e); simpl;
    rewrite ?fold_left_app; simpl; rewrite ?step_body_fs; simpl;
    repeat split; try reflexivity; try discriminate; intros; try congruence; try reflexivity.
Qed.

(* a successful stream command with a file sink leaves the new document at the output path *)
Lemma stream_success_fs_l : forall d c i o e acts init,
  let r := run_stream d c i o e acts true in
  match streamInOut i o e c with
  | POk _ SnkStdout _ _ => snd r = true /\ f_out (final_fs SnkStdout init (fst r)) = init
  | POk _ k _ _ => snd r = true -> f_out (final_fs k init (fst r)) = 2%N
  | PErr _ _ _ => snd r = false
  end.
Proof.
  intros d c i o e acts init. unfold run_stream, final_fs.
  unfold streamInOut, open_input, create_of.
  destruct i, o; simpl; destruct (e_stdin e), (e_open_ok e), (e_create e); simpl;
    unfold finalize; simpl; try destruct (e_replace_ok e); simpl;
    rewrite ?fold_left_app; simpl; rewrite ?step_body_fs; simpl;
    repeat split; try reflexivity; try discriminate; intros; try congruence; try reflexivity.
Qed.

(* ---------- direct writers to os.Stdout ---------- *)
Lemma direct_stdout_guarded_l : forall d c acts,
  stdout_of (run_direct_stdout true d c acts) = writes_of acts.
Proof.
  intros. unfold run_direct_stdout. simpl. destruct (body_stdout_logoff d acts) as [B _]. exact B.
Qed.

(* the guard is necessary: without it a logger pointed at stdout mixes text into the document *)
Lemma direct_stdout_unguarded_leaks : exists d c acts,
  stdout_of (run_direct_stdout false d c acts) <> writes_of acts.
Proof. exists DStdout, true, [ALog [1%N]; AWrite [2%N]]. vm_compute. discriminate. Qed.

(* ---------- JSON commands ---------- *)
Lemma logs_off_silent : forall d l, flat_map (emit d false SnkFile) (map ALog l) = [].
Proof. intros d l; induction l as [|m l IH]; simpl; [reflexivity|exact IH]. Qed.

Lemma json_handler_logoff_l : forall d c pre post json,
  stdout_of (run_json true d c pre post json) = json ++ [nl].
Proof.
  intros. unfold run_json. rewrite !logs_off_silent. simpl. rewrite app_nil_r. reflexivity.
Qed.

Lemma json_cli_logoff_l : forall d c post json,
  stdout_of (run_json false d c [] post json) = json ++ [nl].
Proof.
  intros. unfold run_json. simpl. rewrite !logs_off_silent. simpl. rewrite app_nil_r. reflexivity.
Qed.

Lemma json_stderr_logger_l : forall hl c pre post json,
  stdout_of (run_json hl DStderr c pre post json) = json ++ [nl].
Proof.
  intros. unfold run_json. rewrite stdout_of_app.
  assert (H : forall on l, stdout_of (flat_map (emit DStderr on SnkFile) (map ALog l)) = []).
  { intros on l; induction l as [|m l IH]; simpl; [reflexivity|]. destruct on; simpl; exact IH. }
  rewrite H. simpl. rewrite logs_off_silent. simpl. rewrite app_nil_r. reflexivity.
Qed.

Lemma print_no_lines_l : forall q, stdout_of (print_lines q []) = [].
Proof. destruct q; reflexivity. Qed.

(* ---------- the generated tables ---------- *)
Definition stdin_readers : list string := ["readSeekerFromStdin"; "importImageReader"]%string.

Definition str_in (s : string) (l : list string) : bool := existsb (String.eqb s) l.

(* one row of pkg/cli is fine when
   (1) every use of os.Stdout is dominated by log.SetCLILogger(nil);
   (2) os.Stdin is only touched by the two readers;
   (3) a function that looks at "-" and does I/O routes through the stream helper, a stdin
       helper, a guarded os.Stdout, is one of the two stdin readers, or refuses / skips "-" at
       every mention;
   (4) a function that calls streamInOutForOperation itself hands no text lines to the
       printer (its []string result is nil on every return). *)
Definition cli_row_ok (r : cli_row) : bool :=
  (implb (c_stdout r) (c_stdout_guarded r))
  && (implb (c_stdin r) (str_in (c_name r) stdin_readers))
  && (implb (negb (Nat.eqb (c_ndash r) 0) && c_does_io r)
            (c_reach_stream r || c_reach_stdin r || c_stdout r || c_stdin r || Nat.eqb (c_nreject r) (c_ndash r)))
  && (implb (c_stream_direct r) (c_ret_nil r)).

Definition json_row_ok (r : json_row) : bool := j_handler_logoff r || j_cli_logoff r.

Lemma cli_table_ok : forallb cli_row_ok cli_table = true.
Proof. vm_compute. reflexivity. Qed.

Lemma json_table_ok : forallb json_row_ok json_table = true.
Proof. vm_compute. reflexivity. Qed.

(* the helpers themselves are in the table with the expected facts *)
Definition helper_facts_ok : bool :=
  existsb (fun r => String.eqb (c_name r) "streamInOutForOperation" && c_stdout r && c_stdout_guarded r && c_logoff r) cli_table
  && existsb (fun r => String.eqb (c_name r) "readSeekerFromStdin" && c_stdin r) cli_table
  && negb (Nat.eqb (List.length json_table) 0).

Lemma helper_facts : helper_facts_ok = true.
Proof. vm_compute. reflexivity. Qed.

Lemma cli_rows_l : forall r, In r cli_table ->
  (c_stdout r = true -> c_stdout_guarded r = true /\
     forall d c acts, stdout_of (run_direct_stdout (c_stdout_guarded r) d c acts) = writes_of acts)
  /\ (c_stdin r = true -> In (c_name r) stdin_readers)
  /\ (c_ndash r <> 0 -> c_does_io r = true ->
        c_reach_stream r = true \/ c_reach_stdin r = true \/ c_stdout r = true \/ c_stdin r = true \/ c_nreject r = c_ndash r)
  /\ (c_stream_direct r = true -> c_ret_nil r = true /\ forall q, stdout_of (print_lines q []) = []).
Proof.
  intros r Hin.
  pose proof (proj1 (forallb_forall cli_row_ok cli_table) cli_table_ok r Hin) as H.
  unfold cli_row_ok in H.
  apply andb_true_iff in H; destruct H as [H H4].
  apply andb_true_iff in H; destruct H as [H H3].
  apply andb_true_iff in H; destruct H as [H1 H2].
  split; [|split; [|split]].
  - intros Hs. rewrite Hs in H1. simpl in H1. split; [exact H1|].
    intros d c acts. rewrite H1. apply direct_stdout_guarded_l.
  - intros Hs. rewrite Hs in H2. unfold implb, str_in in H2.
    apply existsb_exists in H2. destruct H2 as [x [Hx Heq]]. apply String.eqb_eq in Heq. subst x. exact Hx.
  - intros Hd Hio. rewrite Hio in H3.
    destruct (Nat.eqb (c_ndash r) 0) eqn:Hz; [apply Nat.eqb_eq in Hz; contradiction|].
    simpl in H3.
    destruct (c_reach_stream r); [left; reflexivity|].
    destruct (c_reach_stdin r); [right; left; reflexivity|].
    destruct (c_stdout r); [right; right; left; reflexivity|].
    destruct (c_stdin r); [right; right; right; left; reflexivity|].
    simpl in H3. right; right; right; right. apply Nat.eqb_eq in H3. exact H3.
  - intros Hs. rewrite Hs in H4. simpl in H4. split; [exact H4|].
    intros q. apply print_no_lines_l.
Qed.

Lemma json_rows_l : forall r, In r json_table ->
  (j_handler_logoff r = true /\
     forall d c pre post json, stdout_of (run_json (j_handler_logoff r) d c pre post json) = json ++ [nl])
  \/ (j_cli_logoff r = true /\
     forall d c post json, stdout_of (run_json (j_handler_logoff r) d c [] post json) = json ++ [nl]).
Proof.
  intros r Hin.
  pose proof (proj1 (forallb_forall json_row_ok json_table) json_table_ok r Hin) as H.
  unfold json_row_ok in H.
  destruct (j_handler_logoff r) eqn:Hh.
  - left. split; [reflexivity|]. intros. apply json_handler_logoff_l.
  - right. simpl in H. split; [exact H|]. intros. apply json_cli_logoff_l.
Qed.

(* ---------- several inputs ---------- *)
Lemma text_fold_ok : forall ins first, snd (text_fold first ins) = forallb in_ok ins.
Proof.
  induction ins as [|r rest IH]; intros first; simpl; [reflexivity|].
  specialize (IH false). destruct (text_fold false rest) as [ss ok]. simpl in IH.
  destruct r; simpl; [exact IH|reflexivity].
Qed.

Lemma list_info_text_ok : forall ins, snd (list_info_text ins) = forallb in_ok ins.
Proof.
  intros ins. unfold list_info_text.
  destruct ins as [|r rest]; [reflexivity|].
  destruct r; [apply text_fold_ok|].
  destruct rest; [reflexivity|apply text_fold_ok].
Qed.

Lemma json_strict_collect : forall ins,
  match json_entries_strict ins with
  | Some es => json_collect ins = (es, true)
  | None => snd (json_collect ins) = false
  end.
Proof.
  induction ins as [|r rest IH]; simpl; [reflexivity|].
  destruct r as [ls e|]; simpl.
  - destruct (json_entries_strict rest) as [es|].
    + rewrite IH. reflexivity.
    + destruct (json_collect rest) as [es ok]. simpl in *. exact IH.
  - destruct (json_collect rest) as [es ok]. reflexivity.
Qed.

Lemma json_collect_ok : forall ins, snd (json_collect ins) = forallb in_ok ins.
Proof.
  induction ins as [|r rest IH]; simpl; [reflexivity|].
  destruct (json_collect rest) as [es ok]. simpl in IH.
  destruct r; simpl; [exact IH|reflexivity].
Qed.

Lemma json_collect_entries : forall ins, forallb in_ok ins = true ->
  fst (json_collect ins) = map (fun r => match r with IOk _ e => e | IErr => [] end) ins.
Proof.
  induction ins as [|r rest IH]; simpl; [reflexivity|].
  destruct r as [ls e|]; simpl; [|discriminate].
  intros H. specialize (IH H). destruct (json_collect rest) as [es ok]. simpl in *. rewrite IH. reflexivity.
Qed.

(* stream variant = file variant on every list of inputs, successful or not, text or JSON *)
Lemma multi_stream_equals_file_l : forall json render ins,
  list_info_stream json render ins = list_info_files json render ins.
Proof.
  intros json render ins. unfold list_info_stream, list_info_files.
  destruct json; [|reflexivity].
  pose proof (json_strict_collect ins) as H.
  destruct (json_entries_strict ins) as [es|].
  - rewrite H. reflexivity.
  - destruct (json_collect ins) as [es ok]. simpl in H. subst ok. reflexivity.
Qed.

(* the command succeeds iff every input is readable; any failure gives a non-zero exit status
   and, in JSON mode, no machine-readable output at all *)
Lemma multi_ok_iff_l : forall json render ins,
  snd (list_info_stream json render ins) = forallb in_ok ins.
Proof.
  intros json render ins. unfold list_info_stream. destruct json; [|apply list_info_text_ok].
  pose proof (json_collect_ok ins) as H. destruct (json_collect ins) as [es ok]. simpl in H. subst ok.
  destruct (forallb in_ok ins); reflexivity.
Qed.

Lemma multi_failing_l : forall json render ins quiet, existsb (fun r => negb (in_ok r)) ins = true ->
  snd (run_multi quiet (list_info_stream json render ins)) <> 0%Z
  /\ snd (run_multi quiet (list_info_files json render ins)) <> 0%Z
  /\ (json = true -> stdout_of (fst (run_multi quiet (list_info_stream json render ins))) = []
                  /\ stdout_of (fst (run_multi quiet (list_info_files json render ins))) = []).
Proof.
  intros json render ins quiet Hex.
  assert (Hf : forallb in_ok ins = false).
  { apply existsb_exists in Hex. destruct Hex as [r [Hin Hr]].
    destruct (forallb in_ok ins) eqn:Ha; [|reflexivity].
    rewrite forallb_forall in Ha. rewrite (Ha r Hin) in Hr. discriminate. }
  rewrite <- multi_stream_equals_file_l.
  pose proof (multi_ok_iff_l json render ins) as Hok. rewrite Hf in Hok.
  unfold run_multi. simpl. rewrite Hok. simpl.
  split; [discriminate|]. split; [discriminate|].
  intros ->. unfold list_info_stream in *.
  destruct (json_collect ins) as [es ok]. destruct ok; simpl in *; [discriminate|].
  split; apply print_no_lines_l.
Qed.

(* success in JSON mode: exactly one line, rendered from one entry per input, in input order *)
Lemma multi_json_success_l : forall render ins, forallb in_ok ins = true ->
  list_info_stream true render ins
  = ([render (map (fun r => match r with IOk _ e => e | IErr => [] end) ins)], true).
Proof.
  intros render ins H. unfold list_info_stream.
  pose proof (json_collect_ok ins) as Hok. pose proof (json_collect_entries ins H) as He.
  destruct (json_collect ins) as [es ok]. simpl in *. rewrite H in Hok. subst ok. rewrite He. reflexivity.
Qed.

(* ---------- page selection: the stdout decision ---------- *)
From Coq Require Import Permutation.

Lemma last_cons : forall (A : Type) (l : list A) (a d : A), last (a :: l) d = last l a.
Proof.
  induction l as [|b l IH]; intros a d; [reflexivity|].
  change (last (a :: b :: l) d) with (last (b :: l) d). rewrite (IH b d), (IH b a). reflexivity.
Qed.

Lemma count_loop_acc : forall m nr c,
  fold_left count_step m (nr, c) = (last (selected m) nr, (c + List.length (selected m))%nat).
Proof.
  induction m as [|[p b] m IH]; intros nr c.
  - simpl. rewrite Nat.add_0_r. reflexivity.
  - change (fold_left count_step ((p, b) :: m) (nr, c))
      with (fold_left count_step m (count_step (nr, c) (p, b))).
    destruct b.
    + change (count_step (nr, c) (p, true)) with (p, S c). rewrite IH.
      change (selected ((p, true) :: m)) with (p :: selected m).
      rewrite last_cons. f_equal. simpl. lia.
    + change (count_step (nr, c) (p, false)) with (nr, c). rewrite IH.
      change (selected ((p, false) :: m)) with (selected m). reflexivity.
Qed.

(* the decision is a function of `selected` only: exactly one key with value true *)
Lemma stdout_page_spec_l : forall m,
  stdout_page m = match selected m with [p] => Some p | _ => None end.
Proof.
  intros m. unfold stdout_page, count_loop. rewrite count_loop_acc. simpl.
  destruct (selected m) as [|p [|q l]]; reflexivity.
Qed.

Lemma filter_perm : forall (A : Type) (f : A -> bool) (l l' : list A),
  Permutation l l' -> Permutation (filter f l) (filter f l').
Proof.
  intros A f l l' H. induction H as [|x l l' H IH|x y l|l l' l'' H1 IH1 H2 IH2]; simpl.
  - constructor.
  - destruct (f x); [constructor|]; exact IH.
  - destruct (f x), (f y); try apply Permutation_refl; apply perm_swap.
  - eapply Permutation_trans; eassumption.
Qed.

(* Go iterates a map in arbitrary order: the decision does not depend on it *)
Lemma stdout_page_perm_l : forall m m', Permutation m m' -> stdout_page m = stdout_page m'.
Proof.
  intros m m' H. rewrite !stdout_page_spec_l.
  assert (Hs : Permutation (selected m) (selected m')).
  { unfold selected. apply Permutation_map. apply filter_perm. exact H. }
  destruct (selected m) as [|p [|q l]] eqn:E.
  - apply Permutation_nil in Hs. rewrite Hs. reflexivity.
  - apply Permutation_length_1_inv in Hs. rewrite Hs. reflexivity.
  - pose proof (Permutation_length Hs) as Hl. simpl in Hl.
    destruct (selected m') as [|p' [|q' l']]; simpl in Hl; try discriminate; reflexivity.
Qed.

(* stdout mode = file mode: stdout carries the document exactly when file mode writes exactly
   one file, and then it is that file; otherwise nothing and a non-zero exit status *)
Lemma stdout_mode_spec_l : forall doc m,
  stdout_mode doc m = match file_mode_outputs doc m with
                      | [d] => (d, 0%Z)
                      | _ => ([], 1%Z)
                      end.
Proof.
  intros doc m. unfold stdout_mode, file_mode_outputs. rewrite stdout_page_spec_l.
  destruct (selected m) as [|p [|q l]]; reflexivity.
Qed.

(* counting keys instead of true values is wrong in both directions *)
Lemma naive_stdout_page_wrong :
  (exists m, stdout_page m = Some 3%Z /\ naive_stdout_page m = None)
  /\ (exists m, stdout_page m = None /\ naive_stdout_page m = Some 2%Z).
Proof.
  split.
  - exists [(2%Z, false); (3%Z, true)]. vm_compute. split; reflexivity.
  - exists [(2%Z, false)]. vm_compute. split; reflexivity.
Qed.

(* the generated table of page-selection consumers: whoever ranges over the map counts the
   entries whose VALUE is true and insists on exactly one; nobody uses len() or indexing *)
Definition sel_row_ok (r : sel_row) : bool :=
  implb (s_ranges r) (s_counts_by_value r && s_single_guard r)
  && negb (s_uses_len r) && negb (s_uses_index r).

Definition sel_table_has_stdout_fn : bool :=
  existsb (fun r => String.eqb (s_name r) "extractSelectedPageToStdout" && s_ranges r) sel_table.

Lemma sel_table_ok : forallb sel_row_ok sel_table = true /\ sel_table_has_stdout_fn = true.
Proof. vm_compute. split; reflexivity. Qed.

Lemma sel_rows_l : forall r, In r sel_table ->
  s_uses_len r = false /\ s_uses_index r = false
  /\ (s_ranges r = true -> s_counts_by_value r = true /\ s_single_guard r = true).
Proof.
  intros r Hin.
  pose proof (proj1 (forallb_forall sel_row_ok sel_table) (proj1 sel_table_ok) r Hin) as H.
  unfold sel_row_ok in H.
  apply andb_true_iff in H; destruct H as [H H3].
  apply andb_true_iff in H; destruct H as [H1 H2].
  apply negb_true_iff in H2. apply negb_true_iff in H3.
  split; [exact H2|]. split; [exact H3|].
  intros Hr. rewrite Hr in H1. simpl in H1. apply andb_true_iff in H1. exact H1.
Qed.

(* ---------- reading stdin ---------- *)
Lemma copy_stdin_err : forall cs, In CErr cs -> snd (copy_stdin cs) = false.
Proof.
  induction cs as [|c cs IH]; intros H; [contradiction|].
  destruct c as [b|]; simpl; [|reflexivity].
  destruct H as [H|H]; [discriminate|].
  specialize (IH H). destruct (copy_stdin cs) as [bs ok]. exact IH.
Qed.

Lemma copy_stdin_ok : forall cs, ~ In CErr cs ->
  copy_stdin cs = (flat_map (fun c => match c with CData b => b | CErr => [] end) cs, true).
Proof.
  induction cs as [|c cs IH]; intros H; [reflexivity|].
  destruct c as [b|]; simpl.
  - rewrite IH; [reflexivity|]. intros Hc. apply H. right. exact Hc.
  - exfalso. apply H. left. reflexivity.
Qed.

(* any failing read makes the result an error, wherever it occurs; without one the result is
   the concatenation of the data *)
Lemma read_all_spec_l : forall cs,
  (In CErr cs -> read_all cs = None /\ stdin_res_of cs = SCopyFail)
  /\ (~ In CErr cs ->
      read_all cs = Some (flat_map (fun c => match c with CData b => b | CErr => [] end) cs)).
Proof.
  intros cs. unfold read_all, stdin_res_of. split.
  - intros H. pose proof (copy_stdin_err cs H) as He.
    destruct (copy_stdin cs) as [bs ok]. simpl in He. subst ok. split; reflexivity.
  - intros H. rewrite (copy_stdin_ok cs H). reflexivity.
Qed.

Lemma stdin_copyfail_prep : forall o e c, e_stdin e = SCopyFail ->
  streamInOut ADash o e c = PErr ErrStdinRead [EvTempInCreate; EvTempInRemove] c.
Proof. intros o e c H. unfold streamInOut, open_input. rewrite H. reflexivity. Qed.

(* stdin_error_is_fatal: a failing read at ANY position makes every command reading "-" fail:
   non-zero exit, nothing on stdout, nothing written to the output, the temporary copy removed,
   the output path untouched *)
Lemma stdin_error_is_fatal_l : forall cs, In CErr cs ->
  forall d c o e acts ok init, e_stdin e = stdin_res_of cs ->
  let r := run_stream d c ADash o e acts ok in
  snd r = false /\ exit_status (snd r) <> 0%Z
  /\ stdout_of (fst r) = [] /\ outfile_of (fst r) = []
  /\ f_tin (final_fs SnkFile init (fst r)) = false
  /\ f_out (final_fs SnkFile init (fst r)) = init.
Proof.
  intros cs Hin d c o e acts ok init He.
  destruct (proj1 (read_all_spec_l cs) Hin) as [_ Hs]. rewrite Hs in He.
  unfold run_stream. rewrite (stdin_copyfail_prep o e c He). simpl.
  repeat split; try reflexivity. discriminate.
Qed.

(* merging the two checks drops a read error that follows a partial read *)
Lemma stdin_merged_refuted : exists cs, In CErr cs /\ stdin_res_merged cs = SOk /\ stdin_res_of cs = SCopyFail.
Proof. exists [CData [37%N]; CErr]. split; [right; left; reflexivity|]. vm_compute. split; reflexivity. Qed.

(* the generated shape of readSeekerFromStdin *)
Definition stdin_copy_shape_ok : bool :=
  sc_err_check_directly_after stdin_copy && sc_err_check_independent_of_n stdin_copy
  && sc_err_returns stdin_copy && sc_empty_check stdin_copy.

Lemma stdin_copy_shape_l : stdin_copy_shape_ok = true.
Proof. vm_compute. reflexivity. Qed.

(* ---------- generic command slots ---------- *)
Definition flag_row_ok (r : flag_row) : bool := Nat.eqb (fl_nnames r) 1.

Lemma flag_table_ok : forallb flag_row_ok flag_table = true
  /\ existsb (fun r => String.eqb (fl_func r) "ListViewerPreferences" && String.eqb (fl_slot r) "BoolVal1") flag_table = true.
Proof. vm_compute. split; reflexivity. Qed.

Lemma flag_rows_l : forall r, In r flag_table -> fl_nnames r = 1%nat.
Proof.
  intros r Hin.
  pose proof (proj1 (forallb_forall flag_row_ok flag_table) (proj1 flag_table_ok) r Hin) as H.
  apply Nat.eqb_eq in H. exact H.
Qed.
