(* C17 — applyHorDiff against TIFF 6.0 section 14 for 8-bit samples; refutation for other depths. *)
From Coq Require Import ZArith NArith List Bool Lia ZifyBool ZifyNat ZifyN Arith.
From PV Require Import Lib.GoInt C17.Model C17.Spec C17.ProofsBase C17.ProofsPng C17.ProofsRows.
Import ListNotations.
Open Scope Z_scope.

(* ---------- the nested loops of applyHorDiff visit the indices colors .. len-1 in order ---------- *)
Lemma fold_left_ext_in (A B : Type) (f g : A -> B -> A) (l : list B) :
  (forall a b, In b l -> f a b = g a b) -> forall a, fold_left f l a = fold_left g l a.
Proof.
  induction l as [|h t IH]; intros Hfg a; simpl; [reflexivity|].
  rewrite Hfg by (now left). apply IH. intros a' b Hb. apply Hfg. now right.
Qed.

Lemma fold_seq_shift (A : Type) (F : A -> nat -> A) (a : nat) :
  forall c s r, fold_left (fun r j => F r (a + j)%nat) (seq s c) r = fold_left F (seq (a + s) c) r.
Proof.
  induction c as [|c IH]; intros s r; simpl; [reflexivity|].
  rewrite IH. now rewrite Nat.add_succ_r.
Qed.

Definition hstep (colors : nat) (r : list N) (idx : nat) : list N :=
  upd idx (add8 (get r idx) (get r (idx - colors))) r.

Lemma hordiff_inner colors i r : (1 <= i)%nat ->
  fold_left (fun r j => upd (i * colors + j) (add8 (get r (i * colors + j)) (get r ((i - 1) * colors + j))) r) (seq 0 colors) r
  = fold_left (hstep colors) (seq (i * colors) colors) r.
Proof.
  intros Hi.
  replace (seq (i * colors) colors) with (seq (i * colors + 0) colors) by (now rewrite Nat.add_0_r).
  rewrite <- (fold_seq_shift _ (hstep colors) (i * colors) colors 0 r).
  apply fold_left_ext_in. intros a j _. unfold hstep.
  replace ((i - 1) * colors + j)%nat with (i * colors + j - colors)%nat by nia.
  reflexivity.
Qed.

Lemma hordiff_outer colors : forall cnt s r, (1 <= s)%nat ->
  fold_left (fun r i =>
               fold_left (fun r j => upd (i * colors + j) (add8 (get r (i * colors + j)) (get r ((i - 1) * colors + j))) r)
                         (seq 0 colors) r) (seq s cnt) r
  = fold_left (hstep colors) (seq (s * colors) (cnt * colors)) r.
Proof.
  induction cnt as [|cnt IH]; intros s r Hs; simpl; [reflexivity|].
  rewrite hordiff_inner by exact Hs. rewrite IH by lia.
  rewrite seq_app, fold_left_app.
  replace (S s * colors)%nat with (s * colors + colors)%nat by lia. reflexivity.
Qed.

Lemma applyHorDiff_flat colors columns row : (1 <= colors)%nat -> (1 <= columns)%nat ->
  length row = (columns * colors)%nat -> applyHorDiff row colors = pngSub row colors.
Proof.
  intros Hc Hn Hlen. unfold applyHorDiff, pngSub. rewrite Hlen.
  rewrite Nat.div_mul by lia. rewrite hordiff_outer by lia.
  replace (1 * colors)%nat with colors by lia.
  replace ((columns - 1) * colors)%nat with (columns * colors - colors)%nat by nia.
  reflexivity.
Qed.

(* ---------- bit packing for 8-bit samples ---------- *)
Lemma bits_of_length w v : length (bits_of w v) = w.
Proof. induction w as [|w IH]; simpl; [reflexivity|]. now rewrite IH. Qed.

Lemma val_of_bits_acc w v : forall acc,
  fold_left (fun a (b : bool) => (2 * a + (if b then 1 else 0))%N) (bits_of w v) acc
  = (acc * 2 ^ N.of_nat w + v mod 2 ^ N.of_nat w)%N.
Proof.
  induction w as [|w IH]; intros acc.
  - simpl. rewrite N.mod_1_r. lia.
  - cbn [bits_of fold_left]. rewrite IH.
    rewrite Nat2N.inj_succ, N.pow_succ_r'.
    rewrite (N.mul_comm 2 (2 ^ N.of_nat w)).
    rewrite (N.mod_mul_r v (2 ^ N.of_nat w) 2) by (try apply N.pow_nonzero; lia).
    rewrite <- N.testbit_spec'. unfold N.b2n.
    generalize (2 ^ N.of_nat w)%N; intros q.
    destruct (N.testbit v (N.of_nat w)); ring.
Qed.

Lemma val_of_bits w v : val_of (bits_of w v) = (v mod 2 ^ N.of_nat w)%N.
Proof. unfold val_of. rewrite val_of_bits_acc. lia. Qed.

Lemma take_samples_length n w bs : length (take_samples n w bs) = n.
Proof. revert bs; induction n as [|n IH]; intros bs; simpl; [reflexivity|]. now rewrite IH. Qed.

Lemma take_samples_bits8 : forall l rest, wf l ->
  take_samples (length l) 8 (flat_map (bits_of 8) l ++ rest) = l.
Proof.
  induction l as [|h t IH]; intros rest Hwf; [reflexivity|].
  inversion Hwf as [|h' t' Hh Ht]; subst h' t'.
  change (flat_map (bits_of 8) (h :: t)) with (bits_of 8 h ++ flat_map (bits_of 8) t).
  rewrite <- app_assoc. simpl length. cbn [take_samples].
  assert (H8 : length (bits_of 8 h) = 8%nat) by apply bits_of_length.
  pose proof (firstn_app_exact _ (bits_of 8 h) (flat_map (bits_of 8) t ++ rest)) as Hf.
  pose proof (skipn_app_exact _ (bits_of 8 h) (flat_map (bits_of 8) t ++ rest)) as Hs.
  rewrite H8 in Hf, Hs. rewrite Hf, Hs.
  rewrite IH by exact Ht. rewrite val_of_bits.
  f_equal. apply N.mod_small. exact Hh.
Qed.

Lemma flat_map_bits_length w l : length (flat_map (bits_of w) l) = (length l * w)%nat.
Proof.
  induction l as [|h t IH]; simpl; [reflexivity|].
  rewrite app_length, bits_of_length, IH. reflexivity.
Qed.

(* undoing the differencing of samples mod 256 is the byte recurrence of the Sub filter with bpp = colors *)
Lemma undiff_raw colors s prior : forall f x,
  undiff_at 256 colors s f x = raw_at 1 colors s prior f x.
Proof.
  induction f as [|f IH]; intros x; simpl; [reflexivity|].
  destruct (x <? colors)%nat; [reflexivity|]. now rewrite IH.
Qed.

Lemma tiff_row8 colors columns row : (1 <= colors)%nat -> (1 <= columns)%nat ->
  length row = (columns * colors)%nat -> wf row ->
  tiff_row colors 8 columns row = unfilter_row 1 colors row row.
Proof.
  intros Hc Hn Hlen Hwf. unfold tiff_row. cbv zeta.
  assert (H1 : take_samples (columns * colors) 8 (flat_map (bits_of 8) row) = row).
  { rewrite <- Hlen. rewrite <- (app_nil_r (flat_map (bits_of 8) row)). apply take_samples_bits8; exact Hwf. }
  assert (H2 : skipn (columns * colors * 8) (flat_map (bits_of 8) row) = []).
  { apply skipn_all2. rewrite flat_map_bits_length. lia. }
  rewrite H1, H2. rewrite <- Hlen.
  change (2 ^ N.of_nat 8)%N with 256%N.
  assert (Hs : map (fun x => undiff_at 256 colors row (S x) x) (seq 0 (length row)) = unfilter_row 1 colors row row).
  { unfold unfilter_row. apply map_ext. intros x. apply undiff_raw. }
  rewrite Hs.
  rewrite <- (unfilter_row_length 1 colors row row) at 1.
  apply take_samples_bits8. apply unfilter_row_wf.
Qed.

Lemma applyHorDiff8 colors columns row : (1 <= colors)%nat -> (1 <= columns)%nat ->
  length row = (columns * colors)%nat -> wf row ->
  applyHorDiff row colors = tiff_row colors 8 columns row.
Proof.
  intros Hc Hn Hlen Hwf.
  rewrite (applyHorDiff_flat colors columns) by assumption.
  rewrite tiff_row8 by assumption.
  apply sub_ok; [exact Hc|reflexivity|exact Hwf].
Qed.

Lemma tiff_row_length colors bpc columns row : length (tiff_row colors bpc columns row) = length row.
Proof. unfold tiff_row. apply take_samples_length. Qed.

(* ---------- the row loop for Predictor 2, 8 bits per component ---------- *)
Lemma rowsLoop_tiff8 colorsZ bppZ columns :
  1 <= colorsZ -> (1 <= columns)%nat ->
  forall rows fuel pr out,
    Forall (row_ok (columns * Z.to_nat colorsZ)) rows ->
    (length (concat rows) < fuel)%nat ->
    rowsLoop fuel (columns * Z.to_nat colorsZ) 2 colorsZ bppZ pr (concat rows) out =
    Some (out ++ concat (map (tiff_row (Z.to_nat colorsZ) 8 columns) rows)).
Proof.
  intros Hc Hn. set (colors := Z.to_nat colorsZ). set (m := (columns * colors)%nat).
  assert (Hcn : (1 <= colors)%nat) by (unfold colors; lia).
  assert (Hm : (1 <= m)%nat) by (unfold m; nia).
  induction rows as [|r rest IH]; intros fuel pr out Hrows Hfuel.
  - destruct fuel as [|f]; [simpl in Hfuel; lia|]. simpl.
    rewrite Nat.min_0_r. simpl. now rewrite app_nil_r.
  - destruct fuel as [|f]; [lia|].
    inversion Hrows as [|r' rest' [Hrl Hrw] Hrest]; subst r' rest'.
    rewrite rowsLoop_S. cbv zeta.
    change (concat (r :: rest)) with (r ++ concat rest) in *.
    rewrite app_length in *.
    assert (Hmin : Nat.min m (length r + length (concat rest)) = m) by lia.
    rewrite Hmin.
    replace (m =? 0)%nat with false by (symmetry; apply Nat.eqb_neq; lia).
    rewrite Nat.eqb_refl. simpl negb. cbv iota.
    assert (Hfn : firstn m (r ++ concat rest) = r) by (rewrite <- Hrl; apply firstn_app_exact).
    assert (Hsn : skipn m (r ++ concat rest) = concat rest) by (rewrite <- Hrl; apply skipn_app_exact).
    rewrite Hfn, Hsn.
    unfold processRow. change (2 =? 2) with true. cbv iota. fold colors.
    rewrite (applyHorDiff8 colors columns r) by assumption.
    rewrite IH by (try assumption; lia).
    simpl map. simpl concat. now rewrite app_assoc.
Qed.

Lemma tiff8_decode_ok colors columns rows :
  1 <= colors -> 1 <= columns -> colors * 8 * columns + 8 <= maxInt ->
  Forall (row_ok (Z.to_nat (spec_rowbytes colors 8 columns))) rows ->
  decode (Some 2) (Some colors) (Some 8) (Some columns) (concat rows) =
  Some (spec_tiff colors 8 columns rows).
Proof.
  intros Hc Hn Hmax Hrows. unfold decode.
  change (2 =? 1) with false. change (negb (validPredictor 2)) with false. cbv iota.
  rewrite parameters_ok by (try assumption; simpl; tauto).
  rewrite rowparams_ok by (try assumption; lia).
  change (2 =? 2) with true. cbv iota.
  assert (Hrb : spec_rowbytes colors 8 columns = columns * colors).
  { unfold spec_rowbytes. rewrite ceil8_eq by nia.
    symmetry. apply (Z.div_unique (colors * 8 * columns + 7) 8 (columns * colors) 7); nia. }
  rewrite Hrb in *.
  assert (Hm : Z.to_nat (columns * colors) = (Z.to_nat columns * Z.to_nat colors)%nat) by (apply Z2Nat.inj_mul; lia).
  rewrite Hm in *.
  rewrite (rowsLoop_tiff8 colors (spec_bpp colors 8) (Z.to_nat columns)); try assumption; try lia.
  simpl app. unfold spec_tiff. change (Z.to_nat 8) with 8%nat.
  assert (Hl : length (concat (map (tiff_row (Z.to_nat colors) 8 (Z.to_nat columns)) rows))
               = (length rows * (Z.to_nat columns * Z.to_nat colors))%nat).
  { clear - Hrows. induction rows as [|r rest IH]; [reflexivity|].
    inversion Hrows as [|r' rest' [Hrl _] Hrest]; subst r' rest'.
    simpl. rewrite app_length, tiff_row_length, IH by exact Hrest. lia. }
  rewrite Hl. rewrite Nat2Z.inj_mul, <- Hm, Z2Nat.id by nia.
  rewrite Z.mod_mul by nia. reflexivity.
Qed.

(* ---------- refutation for the other sample sizes ---------- *)
(* two 16-bit samples 0x0001, 0x0001 of one component: TIFF gives 0x0001, 0x0002; the byte-wise
   loop gives 00 01 01 02 *)
Lemma tiff16_witness :
  decode (Some 2) (Some 1) (Some 16) (Some 2) [0; 1; 0; 1]%N = Some [0; 1; 1; 2]%N /\
  spec_tiff 1 16 2 [[0; 1; 0; 1]%N] = [0; 1; 0; 2]%N.
Proof. split; vm_compute; reflexivity. Qed.

(* eight 1-bit samples 1,0,0,0,0,0,0,0: TIFF gives eight ones (0xff); the code returns the row unchanged *)
Lemma tiff1_witness :
  decode (Some 2) (Some 1) (Some 1) (Some 8) [128]%N = Some [128]%N /\
  spec_tiff 1 1 8 [[128]%N] = [255]%N.
Proof. split; vm_compute; reflexivity. Qed.
