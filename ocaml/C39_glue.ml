(* C39 glue: name-tree wire format
     node := 'L' hexkey '|' hexkey '[' (hexkey '=' hexval (',' hexkey '=' hexval)* )? ']'
           | 'I' hexkey '|' hexkey '(' node* ')'
   keys are hex pairs (possibly empty), values hex numbers. *)
open Model
open Common

let is_hex c = (c >= '0' && c <= '9') || (c >= 'a' && c <= 'f')

let parse_tree (s : string) : node =
  let pos = ref 0 in
  let len = String.length s in
  let peek () = if !pos < len then s.[!pos] else '\000' in
  let expect c = if peek () = c then incr pos else failwith (Printf.sprintf "parse: expected %c at %d" c !pos) in
  let hex () =
    let st = !pos in
    while !pos < len && is_hex s.[!pos] do incr pos done;
    String.sub s st (!pos - st) in
  let rec node () =
    match peek () with
    | 'L' ->
      incr pos;
      let a = bytes_of_hex (hex ()) in expect '|';
      let b = bytes_of_hex (hex ()) in expect '[';
      let rec ents acc =
        if peek () = ']' then (incr pos; List.rev acc)
        else begin
          if acc <> [] then expect ',';
          let k = bytes_of_hex (hex ()) in expect '=';
          let v = n_of_hex (hex ()) in
          ents ((k, v) :: acc)
        end in
      Leaf (ents [], a, b)
    | 'I' ->
      incr pos;
      let a = bytes_of_hex (hex ()) in expect '|';
      let b = bytes_of_hex (hex ()) in expect '(';
      let rec kids acc =
        if peek () = ')' then (incr pos; List.rev acc) else kids (node () :: acc) in
      let ks = kids [] in
      if ks = [] then failwith "parse: inner node without kids";
      Inner (ks, a, b)
    | c -> failwith (Printf.sprintf "parse: unexpected %c at %d" c !pos) in
  let n = node () in
  if !pos <> len then failwith "parse: trailing input";
  n

let str_entries l = String.concat "," (List.map (fun (k, v) -> hex_of_bytes k ^ "=" ^ hex_of_n v) l)

let rec str_tree (n : node) : string =
  match n with
  | Leaf (ns, a, b) -> "L" ^ hex_of_bytes a ^ "|" ^ hex_of_bytes b ^ "[" ^ str_entries ns ^ "]"
  | Inner (ks, a, b) -> "I" ^ hex_of_bytes a ^ "|" ^ hex_of_bytes b ^ "(" ^ String.concat "" (List.map str_tree ks) ^ ")"

let dispatch fn args = match fn, args with
  | "add", [rn; t; k; v] ->
    str_tree (tadd (bool_of_str rn) (parse_tree t) (bytes_of_hex k) (n_of_hex v))
  | "remove", [t; k] ->
    (match tremove (parse_tree t) (bytes_of_hex k) with
     | RPanic -> "panic"
     | R (t', e, ok) -> str_tree t' ^ " " ^ str_of_bool e ^ " " ^ str_of_bool ok)
  | "value", [t; k] ->
    (match tvalue (parse_tree t) (bytes_of_hex k) with
     | None -> "none"
     | Some v -> "some:" ^ hex_of_n v)
  | "keys", [t] -> str_entries (entries (parse_tree t))
  | "less", [a; b] -> str_of_bool (kltb (bytes_of_hex a) (bytes_of_hex b))
  | _ -> failwith ("unknown function " ^ fn)
let () = main dispatch
