// Harness for C33: api.SplitFile / SplitRaw / SplitByPageNrFile / MergeCreateFile /
// MergeAppendFile / MergeCreateZipFile on generated page-tree documents with per-page
// content markers, against the extracted model (coq/C33) and against the property itself.
package main

import (
	"bytes"
	"fmt"
	"io"
	"os"
	"path/filepath"
	"sort"
	"strconv"
	"strings"

	"github.com/pdfcpu/pdfcpu/pkg/api"
	"github.com/pdfcpu/pdfcpu/pkg/pdfcpu"
	"verif/cmd/c33/pgdoc"
	"verif/vh"
)

var (
	r   *vh.Run
	dir string
	seq int
)

func tmp(name string) string {
	seq++
	return filepath.Join(dir, fmt.Sprintf("%d_%s", seq, name))
}

func guard(what string, input any, f func() error) (err error) {
	defer func() {
		if p := recover(); p != nil {
			r.OracleFail("panic:"+what, input, fmt.Sprint(p))
			err = fmt.Errorf("panic: %v", p)
		}
	}()
	return f()
}

// observe records an attribute difference (crop box / rotation of a page) as an observation, not as a
// C33 violation: C33 is about the page SEQUENCE; per-page attributes are C32's business.
var observed = map[string]bool{}

func observe(class string, input any, detail string) {
	r.Count("observation:" + class)
	if !observed[class] {
		observed[class] = true
		r.Sample(map[string]any{"observation": class, "input": input, "detail": detail})
	}
	r.OracleOK()
}

func sems(ps []pgdoc.VPage) []string {
	o := make([]string, len(ps))
	for i, p := range ps {
		o[i] = p.Sem()
	}
	return o
}

func eqInts(a, b []int) bool {
	if len(a) != len(b) {
		return false
	}
	for i := range a {
		if a[i] != b[i] {
			return false
		}
	}
	return true
}

// attrDiff classifies how two page lists with equal markers differ: "", "crop", "rot", "other".
func attrDiff(got, want []pgdoc.VPage) string {
	res := ""
	for i := range got {
		if got[i].Sem() == want[i].Sem() {
			continue
		}
		g, w := got[i], want[i]
		g.Crop, w.Crop = nil, nil
		if g.Sem() == w.Sem() {
			if res == "" {
				res = "crop"
			}
			continue
		}
		g.Rot, w.Rot = 0, 0
		if g.Sem() == w.Sem() && want[i].Rot%360 <= 0 && got[i].Rot == 0 {
			// narrow class: a rotation r with r%360 <= 0 (Go remainder) was dropped
			if res == "" || res == "crop" {
				res = "rot"
			}
			continue
		}
		return "other"
	}
	return res
}

type doc struct {
	t     *pgdoc.Node
	path  string
	bytes []byte
	pages []pgdoc.VPage
}

func mkdoc(t *pgdoc.Node, name string) *doc { return mkdocN(t, name, nil) }

// mkdocN writes the document with the given object numbering (nil: dense; see pgdoc.Sparse).
func mkdocN(t *pgdoc.Node, name string, nb *pgdoc.Numbering) *doc {
	d := &doc{t: t, path: tmp(name)}
	d.bytes = pgdoc.PDFWith(t, nb)
	if nb != nil {
		r.Count("numbering:sparse")
	}
	if err := os.WriteFile(d.path, d.bytes, 0o644); err != nil {
		panic(err)
	}
	ps, err := pgdoc.ReadPages(d.path)
	got := "err"
	if err == nil {
		got = pgdoc.Canon(ps, false)
	}
	// reader + generator sanity: what is read back is what the model says the tree shows
	r.Case("pages", []string{t.Encode()}, got)
	d.pages = ps
	if err != nil {
		d.pages = pgdoc.Flatten(t)
	}
	return d
}

func (d *doc) unchanged() bool {
	b, err := os.ReadFile(d.path)
	return err == nil && bytes.Equal(b, d.bytes)
}

func genOpt(kind int) pgdoc.GenOpt {
	switch kind % 6 {
	case 0:
		return pgdoc.GenOpt{MaxDepth: 0}
	case 1:
		return pgdoc.GenOpt{MaxDepth: 2, NodeRot: true, NodeMedia: true, PageBoxes: true, RootAttrs: true}
	case 2:
		return pgdoc.GenOpt{MaxDepth: 3, NodeRot: true, NodeMedia: true, PageBoxes: true}
	case 3:
		return pgdoc.GenOpt{MaxDepth: 2, NodeRot: true, NodeMedia: true, NodeCrop: true, PageBoxes: true, RootAttrs: true}
	case 4:
		return pgdoc.GenOpt{MaxDepth: 2, NodeRot: true, NegRot: true, RootAttrs: true}
	default:
		return pgdoc.GenOpt{MaxDepth: 1, NodeMedia: true, RootAttrs: true}
	}
}

var kindName = []string{"flat", "inherit", "deep", "nodecrop", "wildrot", "rootmedia"}

// parts of a split: files <base>_<from>[-<thru>].pdf in out, sorted by from
type part struct {
	from, thru int
	pages      []pgdoc.VPage
}

func readParts(out, base string) ([]part, error) {
	fs, _ := filepath.Glob(filepath.Join(out, "*.pdf"))
	var ps []part
	for _, f := range fs {
		n := strings.TrimSuffix(filepath.Base(f), ".pdf")
		if !strings.HasPrefix(n, base+"_") {
			return nil, fmt.Errorf("unexpected file %s", f)
		}
		ft := strings.Split(n[len(base)+1:], "-")
		from, err := strconv.Atoi(ft[0])
		if err != nil {
			return nil, err
		}
		thru := from
		if len(ft) == 2 {
			if thru, err = strconv.Atoi(ft[1]); err != nil {
				return nil, err
			}
		}
		pg, err := pgdoc.ReadPages(f)
		if err != nil {
			return nil, err
		}
		ps = append(ps, part{from, thru, pg})
	}
	sort.Slice(ps, func(i, j int) bool { return ps[i].from < ps[j].from })
	return ps, nil
}

func canonParts(ps []part) (string, string) {
	a := make([]string, len(ps))
	b := make([]string, len(ps))
	for i, p := range ps {
		a[i] = pgdoc.Canon(p.pages, false)
		b[i] = vh.Int(int64(p.from)) + "-" + vh.Int(int64(p.thru))
	}
	return "ok:" + strings.Join(a, "|"), "ok:" + strings.Join(b, ",")
}

// splitOracle: the property on the implementation's output. cuts = expected first pages of the parts (nil: by span).
func splitOracle(op string, d *doc, ps []part, span int, cuts []int, input map[string]any) {
	var all []pgdoc.VPage
	bad := ""
	next := 1
	for i, p := range ps {
		if len(p.pages) == 0 || p.thru < p.from {
			bad = "empty part"
		}
		if p.from != next || p.thru-p.from+1 != len(p.pages) {
			bad = fmt.Sprintf("part %d is named %d-%d, holds %d pages, expected to start at %d", i, p.from, p.thru, len(p.pages), next)
		}
		next = p.thru + 1
		if span > 0 && i < len(ps)-1 && len(p.pages) != span {
			bad = fmt.Sprintf("part %d has %d pages, span %d", i, len(p.pages), span)
		}
		if span > 0 && len(p.pages) > span {
			bad = "part longer than span"
		}
		if cuts != nil && (i >= len(cuts) || cuts[i] != p.from) {
			bad = fmt.Sprintf("part %d starts at %d, expected cuts %v", i, p.from, cuts)
		}
		all = append(all, p.pages...)
	}
	if cuts != nil && len(cuts) != len(ps) {
		bad = fmt.Sprintf("%d parts, expected cuts %v", len(ps), cuts)
	}
	switch {
	case bad != "":
		r.OracleFail(op+"-parts", input, bad)
	case !eqInts(pgdoc.IDs(all), pgdoc.IDs(d.pages)):
		r.OracleFail(op+"-page-sequence", input, fmt.Sprintf("markers %v, original %v", pgdoc.IDs(all), pgdoc.IDs(d.pages)))
	case !d.unchanged():
		r.OracleFail(op+"-input-modified", input, "input file changed")
	default:
		switch attrDiff(all, d.pages) {
		case "":
			r.OracleOK()
		case "crop":
			observe("split-inherited-cropbox-lost", input, "parts "+pgdoc.Canon(all, false)+" original "+pgdoc.Canon(d.pages, false))
		case "rot":
			observe("split-inherited-rotate-lost", input, "parts "+pgdoc.Canon(all, false)+" original "+pgdoc.Canon(d.pages, false))
		default:
			observe(op+"-page-attributes", input, "parts "+pgdoc.Canon(all, false)+" original "+pgdoc.Canon(d.pages, false))
		}
	}
}

func splitSpan(n, span, kind int) {
	t := pgdoc.Gen(r.Rand, n, genOpt(kind))
	d := mkdoc(t, "in.pdf")
	input := map[string]any{"op": "SplitFile", "tree": t.Encode(), "span": span}
	r.Count("split-span:" + kindName[kind%6])

	// SplitRaw: the spans themselves
	var raw string
	guard("SplitRaw", input, func() error {
		f, err := os.Open(d.path)
		if err != nil {
			return err
		}
		defer f.Close()
		pss, err := api.SplitRaw(f, span, nil)
		if err != nil {
			raw = "err"
			return nil
		}
		s := make([]string, len(pss))
		for i, p := range pss {
			s[i] = vh.Int(int64(p.From)) + "-" + vh.Int(int64(p.Thru))
		}
		raw = "ok:" + strings.Join(s, ",")
		return nil
	})
	r.Case("span_parts", []string{vh.Int(int64(n)), vh.Int(int64(span))}, raw)

	out := tmp("out")
	os.MkdirAll(out, 0o755)
	var err error
	if guard("SplitFile", input, func() error { err = api.SplitFile(d.path, out, span, nil); return nil }) != nil {
		return
	}
	if err != nil {
		r.Case("split_span", []string{t.Encode(), vh.Int(int64(span))}, "err")
		if span >= 1 {
			r.OracleFail("split-span-fails", input, err.Error())
		} else {
			r.OracleOK()
		}
		return
	}
	base := strings.TrimSuffix(filepath.Base(d.path), ".pdf")
	ps, err := readParts(out, base)
	if err != nil {
		r.Case("split_span", []string{t.Encode(), vh.Int(int64(span))}, "unreadable:"+err.Error())
		r.OracleFail("split-span-unreadable-output", input, err.Error())
		return
	}
	docs, names := canonParts(ps)
	r.Case("split_span", []string{t.Encode(), vh.Int(int64(span))}, docs)
	r.Case("span_parts", []string{vh.Int(int64(n)), vh.Int(int64(span))}, names)
	splitOracle("split-span", d, ps, span, nil, input)
	os.RemoveAll(out)
	os.Remove(d.path)
}

func validNrs(n int, nrs []int) bool {
	if len(nrs) == 0 || nrs[0] < 2 || nrs[0] > n {
		return false
	}
	for i := 1; i < len(nrs); i++ {
		if nrs[i] <= nrs[i-1] {
			return false
		}
	}
	return true
}

func splitAlong(n int, nrs []int, kind int) {
	t := pgdoc.Gen(r.Rand, n, genOpt(kind))
	d := mkdoc(t, "in.pdf")
	input := map[string]any{"op": "SplitByPageNrFile", "tree": t.Encode(), "pageNrs": nrs}
	out := tmp("out")
	os.MkdirAll(out, 0o755)
	var err error
	if guard("SplitByPageNrFile", input, func() error { err = api.SplitByPageNrFile(d.path, out, nrs, nil); return nil }) != nil {
		return
	}
	args := []string{t.Encode(), vh.Ints(nrs)}
	valid := validNrs(n, nrs)
	if valid {
		r.Count("split-along:valid")
	} else {
		r.Count("split-along:invalid")
	}
	if err != nil {
		r.Case("split_along", args, "err")
		fs, _ := filepath.Glob(filepath.Join(out, "*"))
		if valid {
			r.OracleFail("split-along-fails", input, err.Error())
		} else if len(fs) > 0 {
			r.OracleFail("split-along-rejected-but-wrote-files", input, fmt.Sprint(fs))
		} else {
			r.OracleOK()
		}
		return
	}
	base := strings.TrimSuffix(filepath.Base(d.path), ".pdf")
	ps, err := readParts(out, base)
	if err != nil {
		r.Case("split_along", args, "unreadable:"+err.Error())
		r.OracleFail("split-along-unreadable-output", input, err.Error())
		return
	}
	docs, names := canonParts(ps)
	r.Case("split_along", args, docs)
	r.Case("along_parts", []string{vh.Int(int64(n)), vh.Ints(nrs)}, names)
	if !valid {
		// page numbers must be sorted, unique, >= 2 (doc comment of SplitByPageNr) and the first within the document
		r.OracleFail("split-along-accepts-invalid-page-numbers", input, names)
	} else {
		cuts := []int{1}
		for _, p := range nrs {
			if p <= n {
				cuts = append(cuts, p)
			}
		}
		splitOracle("split-along", d, ps, 0, cuts, input)
	}
	os.RemoveAll(out)
	os.Remove(d.path)
}

// renumberCase: the renumbering of a merge source into the destination's number space
// (patchSourceObjectNumbers through the verif hook): K against the model's fresh numbers, O: no renumbered
// source object lands on a number the destination uses.
func renumberCase(dest, src *doc, input map[string]any) {
	guard("patchSourceObjectNumbers", input, func() error {
		cd, err := api.ReadContextFile(dest.path)
		if err != nil {
			return nil
		}
		cs, err := api.ReadContextFile(src.path)
		if err != nil {
			return nil
		}
		dsize, nsrc := *cd.Size, len(cs.Table)-1
		if err := pdfcpu.VerifPatchSourceObjectNumbers(cs, cd); err != nil {
			r.Case("renumber", []string{vh.Int(int64(dsize)), vh.Int(int64(nsrc))}, "err")
			return nil
		}
		lo, hi, cnt, clash := -1, -1, 0, -1
		for k := range cs.Table {
			if k == 0 {
				continue
			}
			cnt++
			if lo < 0 || k < lo {
				lo = k
			}
			if k > hi {
				hi = k
			}
			if _, used := cd.Table[k]; used {
				clash = k
			}
		}
		got := "none"
		if cnt > 0 {
			got = fmt.Sprintf("%x-%x-%x", lo, hi, cnt)
		}
		r.Case("renumber", []string{vh.Int(int64(dsize)), vh.Int(int64(nsrc))}, got)
		if clash >= 0 || (cnt > 0 && lo < dsize) {
			r.OracleFail("merge-renumber-hits-destination-object", input,
				fmt.Sprintf("source objects renumbered to %d..%d, destination Size %d, %d table entries, clash at %d", lo, hi, dsize, len(cd.Table), clash))
		} else {
			r.OracleOK()
		}
		return nil
	})
}

// mergeCase: mode 0 MergeCreateFile, 1 MergeAppendFile (docs[0] is the existing destination), 2 MergeRaw.
// sparse[i]: document i is written with holes in its object numbering.
func mergeCase(m int, divider bool, mode int, kinds []int, sparse []bool) {
	var docs []*doc
	id := 1
	for i := 0; i < m; i++ {
		o := genOpt(kinds[i])
		o.FirstID = id
		n := 1 + r.Rand.Intn(6)
		id += n
		var nb *pgdoc.Numbering
		if sparse[i] {
			nb = pgdoc.Sparse(r.Rand)
			r.Count(fmt.Sprintf("sparse-position:%d-of-%d", i+1, m))
		}
		docs = append(docs, mkdocN(pgdoc.Gen(r.Rand, n, o), fmt.Sprintf("m%d.pdf", i), nb))
	}
	enc := make([]string, m)
	paths := make([]string, m)
	for i, d := range docs {
		enc[i] = d.t.Encode()
		paths[i] = d.path
	}
	appendMode := mode == 1
	op := []string{"MergeCreateFile", "MergeAppendFile", "MergeRaw"}[mode]
	input := map[string]any{"op": op, "docs": enc, "divider": divider, "sparse": sparse}
	if m >= 2 {
		renumberCase(docs[0], docs[1], input)
	}
	out := tmp("merged.pdf")
	var err error
	if guard(op, input, func() error {
		if mode == 2 {
			var rsc []io.ReadSeeker
			for _, p := range paths {
				f, e := os.Open(p)
				if e != nil {
					return e
				}
				defer f.Close()
				rsc = append(rsc, f)
			}
			w, e := os.Create(out)
			if e != nil {
				return e
			}
			defer w.Close()
			err = api.MergeRaw(rsc, w, divider, nil)
		} else if appendMode {
			// the first document is the existing destination file
			if err := os.WriteFile(out, docs[0].bytes, 0o644); err != nil {
				return err
			}
			err = api.MergeAppendFile(paths[1:], out, divider, nil)
		} else {
			err = api.MergeCreateFile(paths, out, divider, nil)
		}
		return nil
	}) != nil {
		return
	}
	r.Count("merge:" + op)
	args := append([]string{vh.Bool(divider)}, enc...)
	if err != nil {
		r.Case("merge", args, "err")
		r.OracleFail("merge-fails", input, err.Error())
		return
	}
	ps, err := pgdoc.ReadPages(out)
	if err != nil {
		r.Case("merge", args, "unreadable:"+err.Error())
		r.OracleFail("merge-unreadable-output", input, err.Error())
		return
	}
	r.Case("merge", args, "ok:"+pgdoc.Canon(ps, true))
	// property: concatenation, one blank divider exactly between consecutive documents when requested
	var want []pgdoc.VPage
	for i, d := range docs {
		if i > 0 && divider {
			want = append(want, pgdoc.VPage{ID: 0})
		}
		want = append(want, d.pages...)
	}
	ok := len(ps) == len(want)
	if ok {
		for i := range ps {
			if want[i].ID == 0 {
				ok = ok && ps[i].ID == 0
			} else {
				ok = ok && ps[i].Sem() == want[i].Sem()
			}
		}
	}
	unchanged := true
	for i, d := range docs {
		if appendMode && i == 0 {
			continue
		}
		unchanged = unchanged && d.unchanged()
	}
	switch {
	case !eqInts(pgdoc.IDs(ps), pgdoc.IDs(want)):
		r.OracleFail("merge-page-sequence", input, fmt.Sprintf("markers %v, expected %v", pgdoc.IDs(ps), pgdoc.IDs(want)))
	case !unchanged:
		r.OracleFail("merge-input-modified", input, "an input file changed")
	case !ok:
		observe("merge-page-attributes", input, "got "+pgdoc.Canon(ps, true)+" expected "+pgdoc.Canon(want, true))
	default:
		r.OracleOK()
	}
	os.Remove(out)
	for _, d := range docs {
		os.Remove(d.path)
	}
}

// splitMerge: split a sparsely numbered document by span and merge the parts again:
// the marker sequence must be the original one.
func splitMerge(n, span, kind int) {
	t := pgdoc.Gen(r.Rand, n, genOpt(kind))
	d := mkdocN(t, "sm.pdf", pgdoc.Sparse(r.Rand))
	input := map[string]any{"op": "SplitFile+MergeCreateFile", "tree": t.Encode(), "span": span, "sparse": true}
	outDir := tmp("smout")
	os.MkdirAll(outDir, 0o755)
	defer os.RemoveAll(outDir)
	var err error
	if guard("SplitFile", input, func() error { err = api.SplitFile(d.path, outDir, span, nil); return nil }) != nil {
		return
	}
	if err != nil {
		r.OracleFail("split-span-fails", input, err.Error())
		return
	}
	base := strings.TrimSuffix(filepath.Base(d.path), ".pdf")
	ps, err := readParts(outDir, base)
	if err != nil {
		r.OracleFail("split-span-unreadable-output", input, err.Error())
		return
	}
	var paths, enc []string
	for _, p := range ps {
		paths = append(paths, filepath.Join(outDir, spanName(base, p.from, p.thru)))
		enc = append(enc, pgdoc.EncodeFlat(p.pages))
	}
	// the sparse original once more at the end: a sparse document in the last position
	paths = append(paths, d.path)
	enc = append(enc, t.Encode())
	out := tmp("sm-merged.pdf")
	if guard("MergeCreateFile", input, func() error { err = api.MergeCreateFile(paths, out, false, nil); return nil }) != nil {
		return
	}
	r.Count("merge:split+merge")
	args := append([]string{vh.Bool(false)}, enc...)
	if err != nil {
		r.Case("merge", args, "err")
		r.OracleFail("merge-fails", input, err.Error())
		return
	}
	got, err := pgdoc.ReadPages(out)
	if err != nil {
		r.Case("merge", args, "unreadable:"+err.Error())
		r.OracleFail("merge-unreadable-output", input, err.Error())
		return
	}
	r.Case("merge", args, "ok:"+pgdoc.Canon(got, true))
	want := append(append([]int{}, pgdoc.IDs(d.pages)...), pgdoc.IDs(d.pages)...)
	switch {
	case !eqInts(pgdoc.IDs(got), want):
		r.OracleFail("merge-page-sequence", input, fmt.Sprintf("markers %v, expected %v", pgdoc.IDs(got), want))
	case !d.unchanged():
		r.OracleFail("merge-input-modified", input, "an input file changed")
	default:
		r.OracleOK()
	}
	os.Remove(out)
	os.Remove(d.path)
}

func spanName(base string, from, thru int) string {
	if from == thru {
		return fmt.Sprintf("%s_%d.pdf", base, from)
	}
	return fmt.Sprintf("%s_%d-%d.pdf", base, from, thru)
}

func zipCase(na, nb, ka, kb int) {
	oa, ob := genOpt(ka), genOpt(kb)
	ob.FirstID = 100
	var nba, nbb *pgdoc.Numbering
	if r.Rand.Intn(2) == 0 {
		nba = pgdoc.Sparse(r.Rand)
	}
	if r.Rand.Intn(3) == 0 {
		nbb = pgdoc.Sparse(r.Rand)
	}
	a := mkdocN(pgdoc.Gen(r.Rand, na, oa), "za.pdf", nba)
	b := mkdocN(pgdoc.Gen(r.Rand, nb, ob), "zb.pdf", nbb)
	input := map[string]any{"op": "MergeCreateZipFile", "a": a.t.Encode(), "b": b.t.Encode(), "sparse": []bool{nba != nil, nbb != nil}}
	renumberCase(a, b, input)
	out := tmp("zip.pdf")
	var err error
	if guard("MergeCreateZipFile", input, func() error { err = api.MergeCreateZipFile(a.path, b.path, out, nil); return nil }) != nil {
		return
	}
	r.Count("zip:" + kindName[ka%6] + "+" + kindName[kb%6])
	args := []string{a.t.Encode(), b.t.Encode()}
	if err != nil {
		r.Case("zip", args, "err")
		r.OracleFail("zip-fails", input, err.Error())
		return
	}
	ps, err := pgdoc.ReadPages(out)
	if err != nil {
		r.Case("zip", args, "unreadable:"+err.Error())
		r.OracleFail("zip-unreadable-output", input, err.Error())
		return
	}
	r.Case("zip", args, "ok:"+pgdoc.Canon(ps, false))
	var want []pgdoc.VPage
	for i := 0; i < na || i < nb; i++ {
		if i < na {
			want = append(want, a.pages[i])
		}
		if i < nb {
			want = append(want, b.pages[i])
		}
	}
	switch {
	case !eqInts(pgdoc.IDs(ps), pgdoc.IDs(want)):
		r.OracleFail("zip-page-sequence", input, fmt.Sprintf("markers %v, expected %v", pgdoc.IDs(ps), pgdoc.IDs(want)))
	case !a.unchanged() || !b.unchanged():
		r.OracleFail("zip-input-modified", input, "an input file changed")
	default:
		switch attrDiff(ps, want) {
		case "":
			r.OracleOK()
		case "crop":
			observe("zip-inherited-cropbox", input, "got "+pgdoc.Canon(ps, false)+" expected "+pgdoc.Canon(want, false))
		default:
			observe("zip-page-attributes", input, "got "+pgdoc.Canon(ps, false)+" expected "+pgdoc.Canon(want, false))
		}
	}
	os.Remove(out)
	os.Remove(a.path)
	os.Remove(b.path)
}

func main() {
	r = vh.Start("C33")
	defer r.Finish()
	api.DisableConfigDir()
	dir = filepath.Join("/tmp/c33-scratch", fmt.Sprintf("run-%d", os.Getpid()))
	os.RemoveAll(dir)
	if err := os.MkdirAll(dir, 0o755); err != nil {
		panic(err)
	}
	defer os.RemoveAll(dir)

	// split by span: every n in 1..N, every span in 1..n+1 (plus 0 < span cases beyond n)
	N := r.Pick(12, 30)
	k := 0
	for n := 1; n <= N; n++ {
		for span := 1; span <= n+1; span++ {
			if n > 12 && span > 6 && span < n-1 && r.Rand.Intn(3) != 0 {
				continue
			}
			splitSpan(n, span, k)
			k++
		}
	}
	splitSpan(3, -1, 0)
	splitSpan(5, 31, 1)

	// split before page numbers: valid lists, and unsorted / duplicate / out-of-range / < 2 / empty ones
	for i := 0; i < r.Pick(120, 900); i++ {
		n := 1 + r.Rand.Intn(r.Pick(12, 30))
		var nrs []int
		switch r.Rand.Intn(8) {
		case 0: // arbitrary
			for j := r.Rand.Intn(4); j > 0; j-- {
				nrs = append(nrs, r.Rand.Intn(n+4)-1)
			}
		case 1: // sorted, possibly running past the end
			p := 2 + r.Rand.Intn(n)
			for j := 1 + r.Rand.Intn(4); j > 0; j-- {
				nrs = append(nrs, p)
				p += 1 + r.Rand.Intn(n)
			}
		case 2: // duplicate
			p := 2 + r.Rand.Intn(n)
			nrs = []int{p, p}
		default: // valid
			for p := 2; p <= n; p++ {
				if r.Rand.Intn(3) == 0 {
					nrs = append(nrs, p)
				}
			}
			if r.Rand.Intn(4) == 0 && len(nrs) > 0 {
				nrs = append(nrs, n+1+r.Rand.Intn(3))
			}
		}
		splitAlong(n, nrs, i)
	}

	// merges of 1..5 documents, create and append, with and without divider pages
	for i := 0; i < r.Pick(90, 700); i++ {
		m := 1 + r.Rand.Intn(5)
		kinds := make([]int, m)
		for j := range kinds {
			kinds[j] = r.Rand.Intn(6)
		}
		mode := r.Rand.Intn(3)
		if m == 1 && mode == 1 {
			mode = 0
		}
		sparse := make([]bool, m)
		switch i % 4 { // sparse numbering in the first / a middle / the last position, or at random
		case 0:
			sparse[0] = true
		case 1:
			sparse[m/2] = true
		case 2:
			sparse[m-1] = true
		default:
			for j := range sparse {
				sparse[j] = r.Rand.Intn(2) == 0
			}
		}
		mergeCase(m, r.Rand.Intn(2) == 0, mode, kinds, sparse)
	}

	// split a sparsely numbered document and merge the parts (plus the sparse original) again
	for i := 0; i < r.Pick(30, 200); i++ {
		n := 2 + r.Rand.Intn(r.Pick(8, 16))
		splitMerge(n, 1+r.Rand.Intn(n), i)
	}

	// zip merges: all length pairs up to 6 (quick) / 9, random kinds
	Z := r.Pick(6, 9)
	for na := 1; na <= Z; na++ {
		for nb := 1; nb <= Z; nb++ {
			zipCase(na, nb, r.Rand.Intn(6), r.Rand.Intn(6))
			if r.Thorough() {
				zipCase(na, nb, r.Rand.Intn(6), r.Rand.Intn(6))
			}
		}
	}
}
