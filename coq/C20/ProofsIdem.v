(* C20 — "optimizing an already optimized document removes nothing further", for the
   duplicate-form pass: normalise-then-compare is idempotent, compare-then-normalise is not. *)
From Coq Require Import List ZArith NArith Bool Lia.
From PV Require Import C20.Model C20.Proofs.
Import ListNotations.
Open Scope Z_scope.

Section Idem.
  Variable A : Type.
  Variable norm : A -> A.
  Variable eqf : A -> A -> bool.
  Hypothesis norm_idem : forall x, norm (norm x) = norm x.

  (* every element is normalised and was not equal to any earlier one *)
  Definition good (l : list A) : Prop :=
    forall c1 y c2, l = c1 ++ y :: c2 -> norm y = y /\ existsb (eqf y) c1 = false.

  Lemma good_nil : good [].
  Proof. intros c1 y c2 H. destruct c1; discriminate. Qed.

  Lemma good_snoc : forall c y, good c -> norm y = y -> existsb (eqf y) c = false -> good (c ++ [y]).
  Proof.
    intros c y G Hn He c1 y' c2 H.
    destruct c2 as [|z c2' _] using rev_ind.
    - apply app_inj_tail in H. destruct H as [H1 H2]. subst. auto.
    - replace (c1 ++ y' :: c2' ++ [z]) with ((c1 ++ y' :: c2') ++ [z]) in H
        by (rewrite <- app_assoc; reflexivity).
      apply app_inj_tail in H. destruct H as [H1 H2]. apply (G c1 y' c2' H1).
  Qed.

  Lemma dedupAcc_good : forall l c, good c -> good (dedupAcc A norm eqf c l).
  Proof.
    induction l as [|x r IH]; intros c G; simpl. exact G.
    destruct (existsb (eqf (norm x)) c) eqn:E.
    - apply IH. exact G.
    - apply IH. apply good_snoc; auto.
  Qed.

  Lemma dedupAcc_fix : forall c2 c1, good (c1 ++ c2) -> dedupAcc A norm eqf c1 c2 = c1 ++ c2.
  Proof.
    induction c2 as [|y r IH]; intros c1 G; simpl. rewrite app_nil_r. reflexivity.
    destruct (G c1 y r eq_refl) as [Hn He]. rewrite Hn, He.
    rewrite IH. rewrite <- app_assoc. reflexivity.
    rewrite <- app_assoc. exact G.
  Qed.

  Theorem dedup_idempotent : forall l, dedup A norm eqf (dedup A norm eqf l) = dedup A norm eqf l.
  Proof.
    intro l. unfold dedup at 1. apply (dedupAcc_fix (dedup A norm eqf l) []).
    simpl. unfold dedup. apply dedupAcc_good. apply good_nil.
  Qed.
End Idem.

Lemma delKey_idem : forall k d, delKey k (delKey k d) = delKey k d.
Proof.
  intros k d. unfold delKey. induction d as [|kv r IH]; simpl. reflexivity.
  destruct (negb (beqb (fst kv) k)) eqn:E; simpl. rewrite E, IH. reflexivity. exact IH.
Qed.
Lemma normForm_idem : forall o, normForm (normForm o) = normForm o.
Proof. intro o. destruct o; simpl; try reflexivity. rewrite delKey_idem. reflexivity. Qed.

(* the form pass of the optimizer: for every graph, limit and list of forms (any number of
   duplicates, with or without PieceInfo, in any order) *)
Theorem form_dedup_idempotent : forall limit g (forms : list obj),
  dedup obj normForm (eqForm limit g) (dedup obj normForm (eqForm limit g) forms) =
  dedup obj normForm (eqForm limit g) forms.
Proof. intros limit g forms. apply dedup_idempotent. exact normForm_idem. Qed.

Corollary form_dedup_counts_equal : forall limit g forms,
  snd (formDedupCounts limit g forms) = fst (formDedupCounts limit g forms).
Proof. intros limit g forms. unfold formDedupCounts. simpl. rewrite form_dedup_idempotent. reflexivity. Qed.

(* two forms with the same dict and bytes, each carrying a PieceInfo *)
Definition kBBox : bytes := [66;66;111;120]%N.
Definition piForm : obj :=
  OStream [(kBBox, OArr [OInt 0; OInt 0; OInt 10; OInt 10]); (kPieceInfo, ODict [([88]%N, OInt 1)])]
          (Some [113;32;81]%N).
Definition pi_g : graph := fun nr => match nr with 7 => piForm | 8 => piForm | _ => ONull end.

Theorem dedup_late_not_idempotent :
  formDedupLateCounts 100 pi_g [7; 8] = (2%nat, 1%nat) /\ formDedupCounts 100 pi_g [7; 8] = (1%nat, 1%nat).
Proof. split; vm_compute; reflexivity. Qed.
