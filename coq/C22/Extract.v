From Coq Require Import Extraction ExtrOcamlBasic.
From PV Require Import Lib.ExtBase C22.Model.
Extraction "model.ml" ext_base_z ext_base_n ext_base_nat ext_base_res ext_base_list
  rc4 decryptKey encryptAES decryptAES encryptBytes decryptBytes encryptStream decryptStream
  is_sig encryptDeep decryptDeep write_iobj read_emitted
  permissionBytes permsBlock validatePermissions p_written p_reported
  pad32 encKey ownerKey compute_o compute_u validateUser validateOwner.
