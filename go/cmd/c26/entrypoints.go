// Every pkg/api function that stores a command mode in conf.Cmd (Generated.api_entry_modes, regenerated from
// the source), driven end to end. The harness states, per function, the mode(s) it believes the function
// runs under; the "apiEntry" correspondence cases compare that list -- names and modes -- with the table
// extracted from the source, so a new, removed or re-moded entry point is a disagreement.
//
// Arguments only have to get the call as far as reading the document: what the operation does afterwards
// is irrelevant to the access decision. "Proceeds" is judged against the same call with the owner password
// (baseline), and every call is first probed with a wrong password: it must answer ErrWrongPassword, which
// proves that the arguments reach the access decision.
package main

import (
	"bytes"
	"image"
	"image/png"
	"io"
	"os"
	"path/filepath"
	"sort"
	"strings"

	"github.com/pdfcpu/pdfcpu/pkg/api"
	"github.com/pdfcpu/pdfcpu/pkg/pdfcpu"
	"github.com/pdfcpu/pdfcpu/pkg/pdfcpu/color"
	"github.com/pdfcpu/pdfcpu/pkg/pdfcpu/form"
	"github.com/pdfcpu/pdfcpu/pkg/pdfcpu/model"
	"github.com/pdfcpu/pdfcpu/pkg/pdfcpu/types"
)

type entry struct {
	fn   string            // the pkg/api function that assigns conf.Cmd (as in Generated.api_entry_modes)
	via  string            // the exported function called (differs from fn for unexported helpers / variants)
	mode model.CommandMode // the mode this call runs under, by the function's name and documentation
	run  func(e *env, c *model.Configuration) error
}

// env: the encrypted document under test, in memory and as a file, and a scratch directory.
type env struct {
	b    []byte
	file string
	tmp  string
}

func (e *env) rs() io.ReadSeeker { return bytes.NewReader(e.b) }
func (e *env) out(name string) string {
	return filepath.Join(e.tmp, name)
}

// rwCopy: a fresh read/write copy of the document (for the ...AsIncrement functions).
func (e *env) rwCopy() *os.File {
	p := e.out("rw.pdf")
	if err := os.WriteFile(p, e.b, 0o644); err != nil {
		panic(err)
	}
	f, err := os.OpenFile(p, os.O_RDWR, 0o644)
	if err != nil {
		panic(err)
	}
	return f
}

// noDocument: entry points that set a mode but take no input PDF (images -> new PDF): nothing to refuse.
var noDocument = map[string]model.CommandMode{
	"BookletFromImages": model.BOOKLET,
	"GridFromImage":     model.GRID,
	"NUpFromImage":      model.NUP,
}

func pngBytes() []byte {
	var buf bytes.Buffer
	if err := png.Encode(&buf, image.NewRGBA(image.Rect(0, 0, 4, 4))); err != nil {
		panic(err)
	}
	return buf.Bytes()
}

func must[T any](v T, err error) T {
	if err != nil {
		panic(err)
	}
	return v
}

func entries() []entry {
	sink := func() io.Writer { return &bytes.Buffer{} }
	var ann model.AnnotationRenderer = model.NewTextAnnotation(*types.NewRectangle(0, 0, 100, 100), 0, "C26", "ID1", "", 0, &color.Gray,
		"T", nil, nil, "", "", 0, 0, 2, false, "Comment")
	wm := func() *model.Watermark { return must(api.TextWatermark("C26", "scale:0.5", true, false, types.POINTS)) }
	addBoxes := func() *model.PageBoundaries { return must(api.PageBoundaries("crop:[0 0 100 100]", types.POINTS)) }
	remBoxes := func() *model.PageBoundaries { return must(model.ParseBoxList("crop")) }
	bmJSON := `{"bookmarks":[{"title":"C26","page":1}]}`
	formJSON := `{"forms":[{"textfield":[{"name":"x","value":"y"}]}]}`
	createJSON := `{"pages":{"1":{"content":{"text":[{"value":"C26","pos":[100,100],"font":{"name":"Helvetica","size":12}}]}}}}`
	E := func(fn, via string, m model.CommandMode, run func(e *env, c *model.Configuration) error) entry {
		if via == "" {
			via = fn
		}
		return entry{fn, via, m, run}
	}
	return []entry{
		E("AddAnnotations", "", model.ADDANNOTATIONS, func(e *env, c *model.Configuration) error {
			return api.AddAnnotations(e.rs(), sink(), nil, ann, c)
		}),
		E("AddAnnotationsAsIncrement", "", model.ADDANNOTATIONS, func(e *env, c *model.Configuration) error {
			f := e.rwCopy()
			defer f.Close()
			return api.AddAnnotationsAsIncrement(f, nil, ann, c)
		}),
		E("AddAnnotationsMap", "", model.ADDANNOTATIONS, func(e *env, c *model.Configuration) error {
			return api.AddAnnotationsMap(e.rs(), sink(), map[int][]model.AnnotationRenderer{1: {ann}}, c)
		}),
		E("AddAnnotationsMapAsIncrement", "", model.ADDANNOTATIONS, func(e *env, c *model.Configuration) error {
			f := e.rwCopy()
			defer f.Close()
			return api.AddAnnotationsMapAsIncrement(f, map[int][]model.AnnotationRenderer{1: {ann}}, c)
		}),
		E("AddAttachments", "AddAttachments(coll=false)", model.ADDATTACHMENTS, func(e *env, c *model.Configuration) error {
			return api.AddAttachments(e.rs(), sink(), []string{e.out("attach.txt")}, false, c)
		}),
		E("AddAttachments", "AddAttachments(coll=true)", model.ADDATTACHMENTSPORTFOLIO, func(e *env, c *model.Configuration) error {
			return api.AddAttachments(e.rs(), sink(), []string{e.out("attach.txt")}, true, c)
		}),
		E("AddBookmarks", "", model.ADDBOOKMARKS, func(e *env, c *model.Configuration) error {
			return api.AddBookmarks(e.rs(), sink(), []pdfcpu.Bookmark{{Title: "C26", PageFrom: 1}}, true, c)
		}),
		E("AddBoxes", "", model.ADDBOXES, func(e *env, c *model.Configuration) error {
			return api.AddBoxes(e.rs(), sink(), nil, addBoxes(), c)
		}),
		E("AddKeywords", "", model.ADDKEYWORDS, func(e *env, c *model.Configuration) error {
			return api.AddKeywords(e.rs(), sink(), []string{"c26"}, c)
		}),
		E("AddProperties", "", model.ADDPROPERTIES, func(e *env, c *model.Configuration) error {
			return api.AddProperties(e.rs(), sink(), map[string]string{"c26": "x"}, c)
		}),
		E("AddWatermarks", "", model.ADDWATERMARKS, func(e *env, c *model.Configuration) error {
			return api.AddWatermarks(e.rs(), sink(), nil, wm(), c)
		}),
		E("AddWatermarksMap", "", model.ADDWATERMARKS, func(e *env, c *model.Configuration) error {
			return api.AddWatermarksMap(e.rs(), sink(), map[int]*model.Watermark{1: wm()}, c)
		}),
		E("AddWatermarksSliceMap", "", model.ADDWATERMARKS, func(e *env, c *model.Configuration) error {
			return api.AddWatermarksSliceMap(e.rs(), sink(), map[int][]*model.Watermark{1: {wm()}}, c)
		}),
		E("Annotations", "", model.LISTANNOTATIONS, func(e *env, c *model.Configuration) error {
			_, err := api.Annotations(e.rs(), nil, c)
			return err
		}),
		E("Attachments", "", model.LISTATTACHMENTS, func(e *env, c *model.Configuration) error { _, err := api.Attachments(e.rs(), c); return err }),
		E("Booklet", "", model.BOOKLET, func(e *env, c *model.Configuration) error {
			return api.Booklet(e.rs(), sink(), nil, nil, must(api.PDFBookletConfig(2, "", c)), c)
		}),
		E("Bookmarks", "", model.LISTBOOKMARKS, func(e *env, c *model.Configuration) error { _, err := api.Bookmarks(e.rs(), c); return err }),
		E("ChangeOwnerPassword", "", model.CHANGEOPW, func(e *env, c *model.Configuration) error {
			return api.ChangeOwnerPassword(e.rs(), sink(), c.OwnerPW, "newopw", c)
		}),
		E("ChangeUserPassword", "", model.CHANGEUPW, func(e *env, c *model.Configuration) error {
			return api.ChangeUserPassword(e.rs(), sink(), c.UserPW, "newupw", c)
		}),
		E("Collect", "", model.COLLECT, func(e *env, c *model.Configuration) error { return api.Collect(e.rs(), sink(), []string{"1"}, c) }),
		E("Create", "", model.CREATE, func(e *env, c *model.Configuration) error {
			return api.Create(e.rs(), strings.NewReader(createJSON), sink(), c)
		}),
		E("Crop", "", model.CROP, func(e *env, c *model.Configuration) error {
			return api.Crop(e.rs(), sink(), nil, must(api.Box("[10 10 200 200]", types.POINTS)), c)
		}),
		E("Cut", "", model.CUT, func(e *env, c *model.Configuration) error {
			return api.Cut(e.rs(), e.tmp, "cut", []string{"1"}, must(pdfcpu.ParseCutConfig("hor:.5", types.POINTS)), c)
		}),
		E("Decrypt", "", model.DECRYPT, func(e *env, c *model.Configuration) error { return api.Decrypt(e.rs(), sink(), c) }),
		E("DecryptFile", "", model.DECRYPT, func(e *env, c *model.Configuration) error { return api.DecryptFile(e.file, e.out("dec.pdf"), c) }),
		E("Encrypt", "", model.ENCRYPT, func(e *env, c *model.Configuration) error { return api.Encrypt(e.rs(), sink(), c) }),
		E("EncryptFile", "", model.ENCRYPT, func(e *env, c *model.Configuration) error { return api.EncryptFile(e.file, e.out("enc.pdf"), c) }),
		E("ExportBookmarksJSON", "", model.EXPORTBOOKMARKS, func(e *env, c *model.Configuration) error {
			return api.ExportBookmarksJSON(e.rs(), sink(), "src", c)
		}),
		E("ExportForm", "", model.EXPORTFORMFIELDS, func(e *env, c *model.Configuration) error { _, err := api.ExportForm(e.rs(), "src", c); return err }),
		E("ExportFormJSON", "", model.EXPORTFORMFIELDS, func(e *env, c *model.Configuration) error {
			return api.ExportFormJSON(e.rs(), sink(), "src", c)
		}),
		E("ExtractAttachmentsRaw", "", model.EXTRACTATTACHMENTS, func(e *env, c *model.Configuration) error {
			_, err := api.ExtractAttachmentsRaw(e.rs(), e.tmp, nil, c)
			return err
		}),
		E("ExtractAttachmentsRaw", "ExtractAttachments", model.EXTRACTATTACHMENTS, func(e *env, c *model.Configuration) error {
			return api.ExtractAttachments(e.rs(), e.tmp, nil, c)
		}),
		E("ExtractContent", "", model.EXTRACTCONTENT, func(e *env, c *model.Configuration) error {
			return api.ExtractContent(e.rs(), nil, func(io.Reader, int) error { return nil }, c)
		}),
		E("ExtractFonts", "", model.EXTRACTFONTS, func(e *env, c *model.Configuration) error {
			return api.ExtractFonts(e.rs(), nil, func(pdfcpu.Font) error { return nil }, c)
		}),
		E("ExtractImages", "", model.EXTRACTIMAGES, func(e *env, c *model.Configuration) error {
			return api.ExtractImages(e.rs(), nil, func(model.Image, bool, int) error { return nil }, c)
		}),
		E("ExtractImagesRaw", "", model.EXTRACTIMAGES, func(e *env, c *model.Configuration) error {
			_, err := api.ExtractImagesRaw(e.rs(), nil, c)
			return err
		}),
		E("ExtractMetadata", "", model.EXTRACTMETADATA, func(e *env, c *model.Configuration) error {
			return api.ExtractMetadata(e.rs(), func(pdfcpu.Metadata) error { return nil }, c)
		}),
		E("ExtractPages", "", model.EXTRACTPAGES, func(e *env, c *model.Configuration) error {
			return api.ExtractPages(e.rs(), []string{"1"}, func(io.Reader, int) error { return nil }, c)
		}),
		E("FillForm", "", model.FILLFORMFIELDS, func(e *env, c *model.Configuration) error {
			return api.FillForm(e.rs(), strings.NewReader(formJSON), sink(), c)
		}),
		E("FormFields", "", model.LISTFORMFIELDS, func(e *env, c *model.Configuration) error { _, err := api.FormFields(e.rs(), c); return err }),
		E("Grid", "", model.GRID, func(e *env, c *model.Configuration) error {
			return api.Grid(e.rs(), sink(), nil, nil, must(api.PDFGridConfig(1, 2, "", c)), c)
		}),
		E("ImportBookmarks", "", model.IMPORTBOOKMARKS, func(e *env, c *model.Configuration) error {
			return api.ImportBookmarks(e.rs(), strings.NewReader(bmJSON), sink(), true, c)
		}),
		E("ImportImages", "", model.IMPORTIMAGES, func(e *env, c *model.Configuration) error {
			return api.ImportImages(e.rs(), sink(), []io.Reader{bytes.NewReader(pngBytes())}, nil, c)
		}),
		E("InsertPages", "InsertPages(before=true)", model.INSERTPAGESBEFORE, func(e *env, c *model.Configuration) error {
			return api.InsertPages(e.rs(), sink(), []string{"1"}, true, nil, c)
		}),
		E("InsertPages", "InsertPages(before=false)", model.INSERTPAGESAFTER, func(e *env, c *model.Configuration) error {
			return api.InsertPages(e.rs(), sink(), []string{"1"}, false, nil, c)
		}),
		E("Keywords", "", model.LISTKEYWORDS, func(e *env, c *model.Configuration) error { _, err := api.Keywords(e.rs(), c); return err }),
		E("ListBookmarks", "", model.LISTBOOKMARKS, func(e *env, c *model.Configuration) error { _, err := api.ListBookmarks(e.rs(), c); return err }),
		E("ListFormFields", "", model.LISTFORMFIELDS, func(e *env, c *model.Configuration) error { _, err := api.ListFormFields(e.rs(), c); return err }),
		E("ListPageLayout", "", model.LISTPAGELAYOUT, func(e *env, c *model.Configuration) error { _, err := api.ListPageLayout(e.rs(), c); return err }),
		E("ListPageMode", "", model.LISTPAGEMODE, func(e *env, c *model.Configuration) error { _, err := api.ListPageMode(e.rs(), c); return err }),
		E("ListViewerPreferences", "", model.LISTVIEWERPREFERENCES, func(e *env, c *model.Configuration) error {
			_, err := api.ListViewerPreferences(e.rs(), false, c)
			return err
		}),
		E("LockFormFields", "", model.LOCKFORMFIELDS, func(e *env, c *model.Configuration) error { return api.LockFormFields(e.rs(), sink(), nil, c) }),
		E("MergeCreateZip", "", model.MERGECREATEZIP, func(e *env, c *model.Configuration) error {
			return api.MergeCreateZip(e.rs(), e.rs(), sink(), c)
		}),
		E("MergeRaw", "", model.MERGECREATE, func(e *env, c *model.Configuration) error {
			return api.MergeRaw([]io.ReadSeeker{e.rs(), e.rs()}, sink(), false, c)
		}),
		E("MultiFillForm", "", model.MULTIFILLFORMFIELDS, func(e *env, c *model.Configuration) error {
			return api.MultiFillForm(e.file, strings.NewReader(formJSON), e.tmp, "mf", form.JSON, false, c)
		}),
		E("NDown", "", model.NDOWN, func(e *env, c *model.Configuration) error {
			return api.NDown(e.rs(), e.tmp, "nd", []string{"1"}, 2, must(pdfcpu.ParseCutConfigForN(2, "", types.POINTS)), c)
		}),
		E("NUp", "", model.NUP, func(e *env, c *model.Configuration) error {
			return api.NUp(e.rs(), sink(), nil, nil, must(api.PDFNUpConfig(2, "", c)), c)
		}),
		E("Optimize", "", model.OPTIMIZE, func(e *env, c *model.Configuration) error { return api.Optimize(e.rs(), sink(), c) }),
		E("OptimizeFile", "", model.OPTIMIZE, func(e *env, c *model.Configuration) error { return api.OptimizeFile(e.file, e.out("opt.pdf"), c) }),
		E("PDFInfo", "", model.LISTINFO, func(e *env, c *model.Configuration) error {
			_, err := api.PDFInfo(e.rs(), "x.pdf", nil, false, c)
			return err
		}),
		E("PageLayout", "", model.LISTPAGELAYOUT, func(e *env, c *model.Configuration) error { _, err := api.PageLayout(e.rs(), c); return err }),
		E("PageMode", "", model.LISTPAGEMODE, func(e *env, c *model.Configuration) error { _, err := api.PageMode(e.rs(), c); return err }),
		E("Permissions", "", model.LISTPERMISSIONS, func(e *env, c *model.Configuration) error { _, err := api.Permissions(e.rs(), c); return err }),
		E("Permissions", "GetPermissions", model.LISTPERMISSIONS, func(e *env, c *model.Configuration) error { _, err := api.GetPermissions(e.rs(), c); return err }),
		E("Poster", "", model.POSTER, func(e *env, c *model.Configuration) error {
			return api.Poster(e.rs(), e.tmp, "poster", []string{"1"}, must(pdfcpu.ParseCutConfigForPoster("f:A6", types.POINTS)), c)
		}),
		E("Properties", "", model.LISTPROPERTIES, func(e *env, c *model.Configuration) error { _, err := api.Properties(e.rs(), c); return err }),
		E("RemoveAnnotations", "", model.REMOVEANNOTATIONS, func(e *env, c *model.Configuration) error {
			return api.RemoveAnnotations(e.rs(), sink(), nil, []string{"Text"}, nil, c)
		}),
		E("RemoveAnnotationsAsIncrement", "", model.REMOVEANNOTATIONS, func(e *env, c *model.Configuration) error {
			f := e.rwCopy()
			defer f.Close()
			return api.RemoveAnnotationsAsIncrement(f, nil, []string{"Text"}, nil, c)
		}),
		E("RemoveAttachments", "", model.REMOVEATTACHMENTS, func(e *env, c *model.Configuration) error {
			return api.RemoveAttachments(e.rs(), sink(), nil, c)
		}),
		E("RemoveBookmarks", "", model.REMOVEBOOKMARKS, func(e *env, c *model.Configuration) error { return api.RemoveBookmarks(e.rs(), sink(), c) }),
		E("RemoveBoxes", "", model.REMOVEBOXES, func(e *env, c *model.Configuration) error {
			return api.RemoveBoxes(e.rs(), sink(), nil, remBoxes(), c)
		}),
		E("RemoveFormFields", "", model.REMOVEFORMFIELDS, func(e *env, c *model.Configuration) error {
			return api.RemoveFormFields(e.rs(), sink(), []string{"x"}, c)
		}),
		E("RemoveKeywords", "", model.REMOVEKEYWORDS, func(e *env, c *model.Configuration) error {
			return api.RemoveKeywords(e.rs(), sink(), []string{"c26"}, c)
		}),
		E("RemovePages", "", model.REMOVEPAGES, func(e *env, c *model.Configuration) error { return api.RemovePages(e.rs(), sink(), []string{"1"}, c) }),
		E("RemoveProperties", "", model.REMOVEPROPERTIES, func(e *env, c *model.Configuration) error {
			return api.RemoveProperties(e.rs(), sink(), []string{"c26"}, c)
		}),
		E("RemoveSignatures", "", model.REMOVESIGNATURES, func(e *env, c *model.Configuration) error { return api.RemoveSignatures(e.rs(), sink(), c) }),
		E("RemoveWatermarks", "", model.REMOVEWATERMARKS, func(e *env, c *model.Configuration) error {
			return api.RemoveWatermarks(e.rs(), sink(), nil, c)
		}),
		E("ResetFormFields", "", model.RESETFORMFIELDS, func(e *env, c *model.Configuration) error { return api.ResetFormFields(e.rs(), sink(), nil, c) }),
		E("ResetPageLayout", "", model.RESETPAGELAYOUT, func(e *env, c *model.Configuration) error { return api.ResetPageLayout(e.rs(), sink(), c) }),
		E("ResetPageMode", "", model.RESETPAGEMODE, func(e *env, c *model.Configuration) error { return api.ResetPageMode(e.rs(), sink(), c) }),
		E("ResetViewerPreferences", "", model.RESETVIEWERPREFERENCES, func(e *env, c *model.Configuration) error {
			return api.ResetViewerPreferences(e.rs(), sink(), c)
		}),
		E("Resize", "", model.RESIZE, func(e *env, c *model.Configuration) error {
			return api.Resize(e.rs(), sink(), nil, &model.Resize{Scale: 0.5}, c)
		}),
		E("Rotate", "", model.ROTATE, func(e *env, c *model.Configuration) error { return api.Rotate(e.rs(), sink(), 90, nil, c) }),
		E("SetPageLayout", "", model.SETPAGELAYOUT, func(e *env, c *model.Configuration) error {
			return api.SetPageLayout(e.rs(), sink(), model.PageLayoutSinglePage, c)
		}),
		E("SetPageMode", "", model.SETPAGEMODE, func(e *env, c *model.Configuration) error {
			return api.SetPageMode(e.rs(), sink(), model.PageModeUseNone, c)
		}),
		E("SetPermissions", "", model.SETPERMISSIONS, func(e *env, c *model.Configuration) error {
			c.Permissions = model.PermissionsAll
			return api.SetPermissions(e.rs(), sink(), c)
		}),
		E("SetViewerPreferences", "", model.SETVIEWERPREFERENCES, func(e *env, c *model.Configuration) error {
			t := true
			return api.SetViewerPreferences(e.rs(), sink(), model.ViewerPreferences{HideToolbar: &t}, c)
		}),
		E("Trim", "", model.TRIM, func(e *env, c *model.Configuration) error { return api.Trim(e.rs(), sink(), []string{"1"}, c) }),
		E("UnlockFormFields", "", model.UNLOCKFORMFIELDS, func(e *env, c *model.Configuration) error { return api.UnlockFormFields(e.rs(), sink(), nil, c) }),
		E("UpdateImages", "", model.UPDATEIMAGES, func(e *env, c *model.Configuration) error {
			return api.UpdateImages(e.rs(), bytes.NewReader(pngBytes()), sink(), 1, 0, "", c)
		}),
		E("Validate", "", model.VALIDATE, func(e *env, c *model.Configuration) error { return api.Validate(e.rs(), c) }),
		E("ViewerPreferences", "", model.LISTVIEWERPREFERENCES, func(e *env, c *model.Configuration) error {
			_, _, err := api.ViewerPreferences(e.rs(), c)
			return err
		}),
		E("Zoom", "", model.ZOOM, func(e *env, c *model.Configuration) error {
			return api.Zoom(e.rs(), sink(), nil, &model.Zoom{Factor: 0.5}, c)
		}),
		// unexported helpers, through every exported caller
		E("mergeConfiguration", "MergeCreateFile", model.MERGECREATE, func(e *env, c *model.Configuration) error {
			return api.MergeCreateFile([]string{e.file, e.file}, e.out("mc.pdf"), false, c)
		}),
		E("mergeConfiguration", "MergeAppendFile", model.MERGEAPPEND, func(e *env, c *model.Configuration) error {
			dst := e.out("ma.pdf")
			if err := os.WriteFile(dst, e.b, 0o644); err != nil {
				panic(err)
			}
			return api.MergeAppendFile([]string{e.file}, dst, false, c)
		}),
		E("prepareBoxListing", "Boxes", model.LISTBOXES, func(e *env, c *model.Configuration) error { _, err := api.Boxes(e.rs(), nil, c); return err }),
		E("prepareBoxListing", "ListBoxes", model.LISTBOXES, func(e *env, c *model.Configuration) error {
			_, err := api.ListBoxes(e.rs(), nil, nil, c)
			return err
		}),
		E("prepareImagesContext", "Images", model.LISTIMAGES, func(e *env, c *model.Configuration) error { _, err := api.Images(e.rs(), nil, c); return err }),
		E("prepareImagesContext", "ListImages", model.LISTIMAGES, func(e *env, c *model.Configuration) error {
			_, err := api.ListImages(e.rs(), nil, c)
			return err
		}),
		E("readSplitContext", "SplitRaw", model.SPLIT, func(e *env, c *model.Configuration) error { _, err := api.SplitRaw(e.rs(), 1, c); return err }),
		E("readSplitContext", "Split", model.SPLIT, func(e *env, c *model.Configuration) error { return api.Split(e.rs(), e.tmp, "sp", 1, c) }),
		E("readSplitContext", "SplitByPageNr", model.SPLIT, func(e *env, c *model.Configuration) error {
			return api.SplitByPageNr(e.rs(), e.tmp, "spn", []int{2}, c)
		}),
		E("validateSignaturesRaw", "ValidateSignatures", model.VALIDATESIGNATURES, func(e *env, c *model.Configuration) error {
			_, err := api.ValidateSignatures(e.file, false, c)
			return err
		}),
	}
}

// believedTable: function name -> sorted modes, as this harness believes them (driven entries + noDocument).
func believedTable(es []entry) (names []string, modes map[string][]int) {
	set := map[string]map[int]bool{}
	add := func(fn string, m model.CommandMode) {
		if set[fn] == nil {
			set[fn] = map[int]bool{}
		}
		set[fn][int(m)] = true
	}
	for _, e := range es {
		add(e.fn, e.mode)
	}
	for fn, m := range noDocument {
		add(fn, m)
	}
	modes = map[string][]int{}
	for fn, ms := range set {
		names = append(names, fn)
		for m := range ms {
			modes[fn] = append(modes[fn], m)
		}
		sort.Ints(modes[fn])
	}
	sort.Strings(names) // byte order, as the generator sorts
	return
}
