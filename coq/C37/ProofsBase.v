(* C37 — basic facts: string equality, TrimSpace, options, decimal conversion. *)
From Coq Require Import ZArith NArith List Bool Lia Decimal DecimalN DecimalFacts DecimalPos.
From PV Require Import Lib.GoInt C37.Model.
Import ListNotations.
Open Scope Z_scope.

Lemma str_eqb_refl : forall a, str_eqb a a = true.
Proof. induction a as [|x a IH]; simpl; [reflexivity|]. now rewrite N.eqb_refl, IH. Qed.

Lemma str_eqb_eq : forall a b, str_eqb a b = true <-> a = b.
Proof.
  induction a as [|x a IH]; intros [|y b]; simpl; split; intro H; try reflexivity; try discriminate.
  - apply andb_true_iff in H as [H1 H2]. apply N.eqb_eq in H1. apply IH in H2. now subst.
  - inversion H; subst. now rewrite N.eqb_refl, str_eqb_refl.
Qed.

Lemma str_eqb_neq : forall a b, str_eqb a b = false <-> a <> b.
Proof.
  intros a b. split.
  - intros H E. apply str_eqb_eq in E. congruence.
  - intro H. destruct (str_eqb a b) eqn:E; [|reflexivity]. apply str_eqb_eq in E. contradiction.
Qed.

Lemma str_eqb_sym : forall a b, str_eqb a b = str_eqb b a.
Proof.
  intros a b. destruct (str_eqb a b) eqn:E.
  - apply str_eqb_eq in E. subst. now rewrite str_eqb_refl.
  - symmetry. apply str_eqb_neq. apply str_eqb_neq in E. congruence.
Qed.

Lemma strs_eqb_refl : forall l, strs_eqb l l = true.
Proof. induction l as [|x l IH]; simpl; [reflexivity|]. now rewrite str_eqb_refl, IH. Qed.

Lemma strs_eqb_eq : forall a b, strs_eqb a b = true <-> a = b.
Proof.
  induction a as [|x a IH]; intros [|y b]; simpl; split; intro H; try reflexivity; try discriminate.
  - apply andb_true_iff in H as [H1 H2]. apply str_eqb_eq in H1. apply IH in H2. now subst.
  - inversion H; subst. now rewrite str_eqb_refl, strs_eqb_refl.
Qed.

Lemma mem_In : forall s l, mem s l = true <-> In s l.
Proof.
  intros s. induction l as [|x l IH]; simpl.
  - split; [discriminate|tauto].
  - rewrite orb_true_iff, IH, str_eqb_eq. tauto.
Qed.

Lemma is_nil_true : forall A (l : list A), is_nil l = true <-> l = [].
Proof. intros A [|x l]; simpl; split; intro H; try reflexivity; discriminate. Qed.

(* ---- TrimSpace ---- *)

Definition no_lead (s : str) : Prop := match s with [] => True | r :: _ => is_space r = false end.

Lemma trim_left_no_lead : forall s, no_lead (trim_left s).
Proof.
  induction s as [|r s IH]; simpl; [exact I|].
  destruct (is_space r) eqn:E; [exact IH|]. simpl. exact E.
Qed.

Lemma trim_left_id : forall s, no_lead s -> trim_left s = s.
Proof. intros [|r s] H; simpl in *; [reflexivity|]. now rewrite H. Qed.

Lemma trim_left_app_nonspace : forall l x, is_space x = false -> trim_left (l ++ [x]) = trim_left l ++ [x].
Proof.
  induction l as [|r l IH]; intros x Hx; simpl.
  - now rewrite Hx.
  - destruct (is_space r); [now apply IH|reflexivity].
Qed.

Lemma trim_right_no_lead : forall s, no_lead s -> no_lead (trim_right s).
Proof.
  intros [|x s] H; [exact I|]. unfold trim_right. simpl in *.
  rewrite trim_left_app_nonspace by exact H. rewrite rev_app_distr. simpl. exact H.
Qed.

Lemma trim_right_idem : forall s, trim_right (trim_right s) = trim_right s.
Proof.
  intros s. unfold trim_right. rewrite rev_involutive.
  rewrite (trim_left_id (trim_left (rev s))); [reflexivity|apply trim_left_no_lead].
Qed.

(* strings.TrimSpace is idempotent *)
Lemma trim_space_idem : forall s, trim_space (trim_space s) = trim_space s.
Proof.
  intros s. unfold trim_space at 1.
  rewrite (trim_left_id (trim_space s)).
  - unfold trim_space. apply trim_right_idem.
  - unfold trim_space. apply trim_right_no_lead, trim_left_no_lead.
Qed.

Lemma trim_space_nil : trim_space [] = [].
Proof. reflexivity. Qed.

(* what parseOptions returns: trimmed, non-empty strings *)
Lemma parse_options_spec : forall raw x, In x (parse_options raw) -> trim_space x = x /\ x <> [].
Proof.
  intros raw x H. unfold parse_options in H. apply filter_In in H as [H1 H2].
  apply in_map_iff in H1 as [y [Hy _]]. subst x. split; [apply trim_space_idem|].
  intro E. rewrite E in H2. discriminate.
Qed.

Lemma parse_options_fixed : forall raw vs, (forall x, In x vs -> In x (parse_options raw)) -> parse_options vs = vs.
Proof.
  intros raw. induction vs as [|x vs IH]; intro H; [reflexivity|].
  unfold parse_options in *. simpl.
  destruct (parse_options_spec raw x (H x (or_introl eq_refl))) as [Ht Hn].
  rewrite Ht. destruct x as [|c x]; [congruence|]. simpl. f_equal.
  apply IH. intros y Hy. apply H. now right.
Qed.

Lemma mem_nil_parse_options : forall raw, mem [] (parse_options raw) = false.
Proof.
  intros raw. destruct (mem [] (parse_options raw)) eqn:E; [|reflexivity].
  apply mem_In in E. apply parse_options_spec in E as [_ E]. congruence.
Qed.

(* ---- index_of ---- *)

Lemma index_of_spec : forall s l k i, index_of s l k = Some i ->
  (k <= i)%N /\ (N.to_nat (i - k) < length l)%nat /\ nth (N.to_nat (i - k)) l [] = s.
Proof.
  intros s. induction l as [|x l IH]; intros k i H; simpl in H; [discriminate|].
  destruct (str_eqb x s) eqn:E.
  - inversion H; subst. apply str_eqb_eq in E. subst. rewrite N.sub_diag. simpl. repeat split; lia.
  - apply IH in H as [H1 [H2 H3]]. repeat split; [lia| |].
    + simpl. replace (N.to_nat (i - k)) with (S (N.to_nat (i - (k + 1)))) by lia. lia.
    + replace (N.to_nat (i - k)) with (S (N.to_nat (i - (k + 1)))) by lia. simpl. exact H3.
Qed.

Lemma index_of_mem : forall s l k, mem s l = true -> exists i, index_of s l k = Some i.
Proof.
  intros s. induction l as [|x l IH]; intros k H; simpl in *; [discriminate|].
  destruct (str_eqb x s); [eauto|]. simpl in H. now apply IH.
Qed.

Lemma index_of_not_mem : forall s l k, mem s l = false -> index_of s l k = None.
Proof.
  intros s. induction l as [|x l IH]; intros k H; simpl in *; [reflexivity|].
  apply orb_false_iff in H as [H1 H2]. rewrite H1. now apply IH.
Qed.

(* ---- decimal ---- *)

Lemma digits_uint_digits : forall u, digits_uint (uint_digits u) = Some u.
Proof. induction u as [|u IH|u IH|u IH|u IH|u IH|u IH|u IH|u IH|u IH|u IH]; simpl; try rewrite IH; reflexivity. Qed.

Lemma uint_digits_nil : forall u, uint_digits u = [] -> u = Nil.
Proof. intros [| | | | | | | | | |]; simpl; intro H; try reflexivity; discriminate. Qed.

Lemma to_uint_not_nil : forall n, N.to_uint n <> Nil.
Proof.
  intros [|p] E; simpl in E; [discriminate|].
  now apply (DecimalPos.Unsigned.to_uint_nonnil p).
Qed.

Lemma uint_digits_head : forall u, match uint_digits u with [] => True | c :: _ => (48 <= c <= 57)%N end.
Proof. intros [| | | | | | | | | |]; simpl; try exact I; lia. Qed.

Lemma unsigned_dec_itoa : forall n, unsigned_dec (itoa n) = Some (Z.of_N n).
Proof.
  intros n. unfold unsigned_dec, itoa.
  remember (uint_digits (N.to_uint n)) as s eqn:Es.
  assert (D : digits_uint s = Some (N.to_uint n)) by (subst s; apply digits_uint_digits).
  destruct s as [|c t].
  - symmetry in Es. apply uint_digits_nil in Es. now apply to_uint_not_nil in Es.
  - rewrite D. now rewrite DecimalN.Unsigned.of_to.
Qed.

(* Atoi (Itoa i) = i within the int64 range *)
Lemma atoi_itoa : forall n, Z.of_N n <= 9223372036854775807 -> atoi (itoa n) = Some (Z.of_N n).
Proof.
  intros n Hn. unfold atoi.
  pose proof (unsigned_dec_itoa n) as U.
  pose proof (uint_digits_head (N.to_uint n)) as Hh. fold (itoa n) in Hh.
  destruct (itoa n) as [|c t] eqn:E.
  - discriminate U.
  - replace (c =? 45)%N with false by (symmetry; apply N.eqb_neq; lia).
    replace (c =? 43)%N with false by (symmetry; apply N.eqb_neq; lia).
    rewrite U.
    replace (Z.of_N n <=? 9223372036854775807) with true by (symmetry; apply Z.leb_le; lia).
    replace (-9223372036854775808 <=? Z.of_N n) with true by (symmetry; apply Z.leb_le; lia).
    reflexivity.
Qed.

Lemma atoi_nil : atoi [] = None.
Proof. reflexivity. Qed.

Lemma atoi_Off : atoi sOff = None.
Proof. reflexivity. Qed.

Lemma itoa_not_nil : forall n, itoa n <> [].
Proof. intros n E. unfold itoa in E. apply uint_digits_nil in E. now apply to_uint_not_nil in E. Qed.
