#!/usr/bin/env python3
"""Regenerate MANIFEST.json from props/*.json and props/not_applicable.json."""
import glob, json, os
V = os.path.dirname(os.path.dirname(os.path.abspath(__file__)))
props = [json.load(open(p)) for p in sorted(glob.glob(os.path.join(V, "props", "C*.json")))]
na_path = os.path.join(V, "props", "not_applicable.json")
na = json.load(open(na_path)) if os.path.exists(na_path) else []
REQ = ("id", "level_text", "level_note", "technique")
for p in props:
    miss = [k for k in REQ if k not in p]
    if miss:
        print("skipping props/%s.json (not ready: missing %s)" % (p.get("id"), miss))
props = [p for p in props if all(k in p for k in REQ)]
ready_path = os.path.join(V, "props", "ready.json")
ready = set(json.load(open(ready_path))) if os.path.exists(ready_path) else None
if ready is not None:
    props = [p for p in props if p["id"] in ready]
claimed = {p["id"] for p in props}
na = [x for x in na if x["property_id"] not in claimed]
hooks_path = os.path.join(V, "props", "hooks.json")
hooks = json.load(open(hooks_path)) if os.path.exists(hooks_path) else {"source_commits": []}
checks = []
for p in props:
    pid = p["id"]
    checks.append({
        "property_id": pid,
        "quick_cmd": "./check %s --tier quick" % pid,
        "thorough_cmd": "./check %s --tier thorough" % pid,
        "evidence_file": "/verif/evidence/%s.json" % pid,
        "replay_cmd_template": "./check %s --replay {path}" % pid,
        "engine": "coq-proof",
        "level_claimed": {"category": (p.get("level", "proof") if p.get("level", "proof") in ("exploration","fault_enumeration","model_checking","proof","translation_validation","other") else "proof"), "text": p["level_text"], "design_ref": p.get("design_ref", "DESIGN.md §6 " + pid)},
        "level_note": p["level_note"],
        "technique": p["technique"],
    })
m = {
    "version": 1,
    "setup_cmd": "./check --setup",
    "hooks": {
        "guard": "verif",
        "enable": "go build -tags verif (harness module /verif/go with replace github.com/pdfcpu/pdfcpu => /repo)",
        "baseline_off_cmd": "cd /repo && go build ./... && go test -vet=off -count=1 -timeout 25m ./...",
        "source_commits": hooks.get("source_commits", []),
        "add_only": True,
    },
    "engines": [{
        "name": "coq-proof", "path": "/verif/check",
        "serves_properties": sorted(claimed),
        "kind_free_text": "Coq 8.16.1 theorems over Gallina models (translated from the Go source by go2gallina / table extractors, or hand-written and tied by an extraction-based differential check against the implementation), plus a direct property oracle on the implementation that searches for concrete failing inputs",
    }],
    "checks": checks,
    "not_applicable": na,
    "notes": "Every check rebuilds its harness from /repo's working tree with -tags verif, regenerates the translated Gallina, recompiles the property's Coq files, and gates Print Assumptions. See DESIGN.md.",
}
json.dump(m, open(os.path.join(V, "MANIFEST.json"), "w"), indent=1)
print("MANIFEST.json: %d checks, %d not_applicable" % (len(checks), len(na)))
