(* C31 — Page selections mean exactly what the selection syntax says.
   Property theorems only.  Model: C31/Model.v (pkg/api/selectPages.go), syntax and meaning: C31/Spec.v.

   e ranges over the expressions of the syntax: non-empty lists of well-formed terms (even, odd, or
   an optionally '!'/'n'-negated range term #, -#, #-, #-#, l, l-#, l-#-, -l, -l-#, #-l, #-l-# over
   non-empty digit strings); render e is its text, map render_term e its comma separated tokens.
   n is the page count.  expr_fails n e: a number that has to be read does not fit an int.

   The property has three parts.  Parts 1 and 2 (meaning, range) are proved for every expression of
   the syntax.  Part 3 ("expressions outside the syntax are rejected") is FALSE for the code: in
   "^" + e + "(," + e + ")*$" the alternation inside e binds weaker than ^, the group and $, so
   MatchString accepts every string that starts with "even", contains "odd", or merely ENDS in a
   valid term; some of those strings are then evaluated without error ("1-2-3" selects 1,2), one
   family even outside 1..n ("-l--5" selects 1..n+5).  Hence
     C31_rejects_outside_syntax_refuted, C31_selection_in_range_refuted, C31_collection_in_range_refuted
   are proved, and the range theorems carry the suffix _partial: they hold for the expressions of the
   syntax, not for everything ParsePageSelection accepts.  The full statements would be
     forall s toks, ParsePageSelection s = Some toks -> s <> [] -> exists e, render e = s       (false)
     forall s toks n m, ParsePageSelection s = Some toks -> PagesForPageSelection n toks b = Ok (Some m)
                        -> forall p b, In (p, b) m -> 1 <= p <= n                               (false) *)
From Coq Require Import ZArith NArith Bool List.
From PV Require Import Lib.GoInt C31.Model C31.Spec C31.ProofsMain C31.ProofsSyntax.
Import ListNotations.
Open Scope Z_scope.

(* Every expression of the syntax is accepted by ParsePageSelection and split into its terms. *)
Theorem C31_parse_accepts_syntax : forall e, e <> [] -> forallb wf e = true ->
  ParsePageSelection (render e) = Some (map render_term e).
Proof. exact parse_complete. Qed.
Print Assumptions C31_parse_accepts_syntax.

(* The recogniser the harness' oracle is tied to accepts exactly the syntax (it rejects everything
   outside it). *)
Theorem C31_syntax_recogniser_exact : forall s,
  in_syntax s = true <-> exists e, e <> [] /\ forallb wf e = true /\ render e = s.
Proof. exact in_syntax_exact. Qed.
Print Assumptions C31_syntax_recogniser_exact.

(* Selections: the returned map decides page p exactly as the left-to-right fold of the term
   meanings does (a range term sets its pages to selected / deselected, even and odd select their
   pages that are still undecided); the evaluation fails iff a number does not fit. *)
Theorem C31_selection_is_fold : forall n e ens, 0 <= n -> e <> [] -> forallb wf e = true ->
  match PagesForPageSelection n (map render_term e) ens with
  | Err => expr_fails n e = true
  | Ok None => False
  | Ok (Some m) => expr_fails n e = false /\ forall p, mfind p m = sel_den n e p
  end.
Proof. exact selection_is_fold. Qed.
Print Assumptions C31_selection_is_fold.

(* ... and every key of the map (selected or deselected) is a page of the document. *)
Theorem C31_selection_in_range_partial : forall n e ens m, 0 <= n -> e <> [] -> forallb wf e = true ->
  PagesForPageSelection n (map render_term e) ens = Ok (Some m) ->
  forall p b, In (p, b) m -> 1 <= p <= n.
Proof. exact selection_in_range. Qed.
Print Assumptions C31_selection_in_range_partial.

(* Collections: the list is the concatenation of the term ranges in term order, with repetitions;
   a negated term deletes all occurrences of its pages collected so far; an empty result and a
   number that does not fit are the two errors. *)
Theorem C31_collection_is_fold : forall n e, 0 <= n -> forallb wf e = true ->
  PagesForPageCollection n (map render_term e) =
  if expr_fails n e then CErrToken
  else match col_den n e with [] => CErrNoPage | p :: l => COk (p :: l) end.
Proof. exact collection_is_fold. Qed.
Print Assumptions C31_collection_is_fold.

Theorem C31_collection_in_range_partial : forall n e l, 0 <= n -> forallb wf e = true ->
  PagesForPageCollection n (map render_term e) = COk l -> Forall (in_pages n) l.
Proof. exact collection_in_range. Qed.
Print Assumptions C31_collection_in_range_partial.

(* "1-2-3" is outside the syntax, ParsePageSelection accepts it, and it selects / collects 1,2. *)
Theorem C31_rejects_outside_syntax_refuted :
  exists s toks m,
    (~ exists e, e <> [] /\ forallb wf e = true /\ render e = s)
    /\ ParsePageSelection s = Some toks
    /\ PagesForPageSelection 5 toks false = Ok (Some m) /\ mfind 2 m = Some true
    /\ PagesForPageCollection 5 toks = COk [1; 2].
Proof. exact rejects_outside_syntax_refuted. Qed.
Print Assumptions C31_rejects_outside_syntax_refuted.

(* "-l--5" is accepted and, on 2 pages, selects / collects pages 1..7. *)
Theorem C31_selection_in_range_refuted :
  exists s toks n m p b,
    ParsePageSelection s = Some toks /\ PagesForPageSelection n toks false = Ok (Some m)
    /\ In (p, b) m /\ ~ (1 <= p <= n).
Proof. exact selection_in_range_refuted. Qed.
Print Assumptions C31_selection_in_range_refuted.

Theorem C31_collection_in_range_refuted :
  exists s toks n l p,
    ParsePageSelection s = Some toks /\ PagesForPageCollection n toks = COk l
    /\ In p l /\ ~ (1 <= p <= n).
Proof. exact collection_in_range_refuted. Qed.
Print Assumptions C31_collection_in_range_refuted.

(* non-vacuity: "1-3,!2,even,l-1-" on 6 pages; a failing expression; an empty collection *)
Definition ex_e : list term :=
  [TR NoNeg (RRange [49%N] [51%N]); TR Bang (RNum [50%N]); TEven; TR NoNeg (RLmTo [49%N])].
Example C31_nonvacuous :
  forallb wf ex_e = true /\ ex_e <> []
  /\ ParsePageSelection (render ex_e) = Some (map render_term ex_e)
  /\ PagesForPageSelection 6 (map render_term ex_e) false
     = Ok (Some [(1, true); (2, false); (3, true); (4, true); (5, true); (6, true)])
  /\ PagesForPageCollection 6 (map render_term ex_e) = COk [1; 3; 2; 4; 6; 5; 6]
  /\ expr_fails 6 [TR NoNeg (RNum (repeat 57%N 20))] = true
  /\ PagesForPageCollection 6 (map render_term [TR En RL]) = CErrNoPage.
Proof. vm_compute. repeat split; congruence. Qed.
