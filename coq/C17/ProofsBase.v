(* C17 — basic lemmas: byte slices, abs/paeth, the shape of the specification's rows. *)
From Coq Require Import ZArith NArith List Bool Lia ZifyBool ZifyNat ZifyN Arith.
From PV Require Import Lib.GoInt C17.Model C17.Spec.
Import ListNotations.
Open Scope Z_scope.

Definition wf (l : list N) : Prop := Forall (fun b => (b < 256)%N) l.

(* ---------- get / upd ---------- *)
Lemma upd_length i v l : length (upd i v l) = length l.
Proof.
  revert i; induction l as [|h t IH]; intros i; simpl; [reflexivity|].
  destruct i as [|i']; simpl; [reflexivity|]. now rewrite IH.
Qed.

Lemma get_upd_eq i v l : (i < length l)%nat -> get (upd i v l) i = v.
Proof.
  unfold get. revert i; induction l as [|h t IH]; intros i Hi; simpl in *; [lia|].
  destruct i as [|i']; simpl; [reflexivity|]. apply IH; lia.
Qed.

Lemma get_upd_neq i k v l : i <> k -> get (upd i v l) k = get l k.
Proof.
  unfold get. revert i k; induction l as [|h t IH]; intros i k Hne; simpl; [reflexivity|].
  destruct i as [|i'], k as [|k']; simpl; try reflexivity; try lia.
  apply IH; lia.
Qed.

Lemma list_eq_get (l1 l2 : list N) :
  length l1 = length l2 -> (forall k, (k < length l1)%nat -> get l1 k = get l2 k) -> l1 = l2.
Proof.
  intros Hlen Hk. apply (nth_ext l1 l2 0%N 0%N Hlen). exact Hk.
Qed.

Lemma wf_get l k : wf l -> (get l k < 256)%N.
Proof.
  unfold wf, get. intros Hwf. destruct (Nat.lt_ge_cases k (length l)) as [Hlt|Hge].
  - rewrite Forall_forall in Hwf. apply Hwf. now apply nth_In.
  - rewrite nth_overflow by exact Hge. lia.
Qed.

Lemma wf_repeat0 n : wf (repeat 0%N n).
Proof. unfold wf. induction n as [|n IH]; simpl; constructor; [lia|exact IH]. Qed.

Lemma wf_app l1 l2 : wf l1 -> wf l2 -> wf (l1 ++ l2).
Proof. unfold wf. intros H1 H2. apply Forall_app. now split. Qed.

Lemma wf_tl l : wf l -> wf (tl l).
Proof. unfold wf. destruct l as [|h t]; simpl; intros Hwf; [constructor|]. now inversion Hwf. Qed.

(* ---------- abs / paeth ---------- *)
Lemma go_abs_spec x : - 2 ^ 31 <= x < 2 ^ 31 -> go_abs x = Z.abs x.
Proof.
  intros Hx. unfold go_abs. cbv zeta.
  rewrite Z.shiftr_div_pow2 by lia.
  destruct (Z_lt_le_dec x 0) as [Hneg|Hpos].
  - assert (Hm : x / 2 ^ 31 = -1).
    { symmetry. apply (Z.div_unique x (2 ^ 31) (-1) (x + 2 ^ 31)); lia. }
    rewrite Hm, Z.lxor_m1_r. unfold Z.lnot. lia.
  - rewrite Z.div_small by lia. rewrite Z.lxor_0_r. lia.
Qed.

(* the optimised selection of paeth.go against RFC 2083 6.6, on arbitrary ints in abs's range *)
Lemma paeth_select_eq (a b c : Z) :
  0 <= a < 2 ^ 29 -> 0 <= b < 2 ^ 29 -> 0 <= c < 2 ^ 29 ->
  go_abs (b - c + (a - c)) = Z.abs (a + b - c - c) /\
  go_abs (b - c) = Z.abs (a + b - c - a) /\
  go_abs (a - c) = Z.abs (a + b - c - b).
Proof.
  intros Ha Hb Hc.
  assert (H29 : 2 ^ 31 = 4 * 2 ^ 29) by reflexivity.
  rewrite !go_abs_spec by lia.
  repeat split; f_equal; lia.
Qed.

Lemma paeth_eq (a b c : N) :
  (a < 256)%N -> (b < 256)%N -> (c < 256)%N -> paeth a b c = PaethPredictor a b c.
Proof.
  intros Ha Hb Hc. unfold paeth, PaethPredictor. cbv zeta.
  assert (H29 : 2 ^ 29 = 536870912) by reflexivity.
  destruct (paeth_select_eq (Z.of_N a) (Z.of_N b) (Z.of_N c)) as (E1 & E2 & E3); try lia.
  rewrite E1, E2, E3. reflexivity.
Qed.

Lemma PaethPredictor_lt a b c : (a < 256)%N -> (b < 256)%N -> (c < 256)%N -> (PaethPredictor a b c < 256)%N.
Proof.
  intros Ha Hb Hc. unfold PaethPredictor. cbv zeta.
  destruct (_ && _); [exact Ha|]. destruct (_ <=? _); assumption.
Qed.

(* ---------- the specification's row, pointwise ---------- *)
Lemma raw_at_fuel ft bpp filt prior : (1 <= bpp)%nat ->
  forall f1 f2 x, (x < f1)%nat -> (x < f2)%nat ->
  raw_at ft bpp filt prior f1 x = raw_at ft bpp filt prior f2 x.
Proof.
  intros Hbpp. induction f1 as [|f1 IH]; intros f2 x H1 H2; [lia|].
  destruct f2 as [|f2]; [lia|]. simpl.
  destruct (x <? bpp)%nat eqn:Hx; [reflexivity|].
  apply Nat.ltb_ge in Hx. rewrite (IH f2 (x - bpp)%nat) by lia. reflexivity.
Qed.

Lemma nth_map_seq (f : nat -> N) n k : (k < n)%nat -> nth k (map f (seq 0 n)) 0%N = f k.
Proof.
  intros Hk. rewrite (nth_indep _ 0%N (f 0%nat)) by (now rewrite map_length, seq_length).
  rewrite map_nth. rewrite seq_nth by exact Hk. reflexivity.
Qed.

Lemma unfilter_row_length ft bpp filt prior : length (unfilter_row ft bpp filt prior) = length filt.
Proof. unfold unfilter_row. now rewrite map_length, seq_length. Qed.

Lemma unfilter_row_wf ft bpp filt prior : wf (unfilter_row ft bpp filt prior).
Proof.
  unfold wf, unfilter_row. apply Forall_forall. intros y Hy.
  apply in_map_iff in Hy. destruct Hy as (x & Hx & _). subst y. simpl.
  apply N.mod_lt. lia.
Qed.

(* Raw(x) = (Filt(x) + predict(Raw(x-bpp), Prior(x), Prior(x-bpp))) mod 256 *)
Lemma unfilter_row_get ft bpp filt prior x : (1 <= bpp)%nat -> (x < length filt)%nat ->
  get (unfilter_row ft bpp filt prior) x =
  ((get filt x + predict ft (before (unfilter_row ft bpp filt prior) x bpp) (get prior x) (before prior x bpp)) mod 256)%N.
Proof.
  intros Hbpp Hx. unfold get at 1. unfold unfilter_row at 1. rewrite nth_map_seq by exact Hx.
  simpl. unfold before, get.
  destruct (x <? bpp)%nat eqn:Hxb; [reflexivity|].
  apply Nat.ltb_ge in Hxb. unfold unfilter_row. rewrite nth_map_seq by lia.
  rewrite (raw_at_fuel ft bpp filt prior Hbpp x (S (x - bpp)) (x - bpp)%nat) by lia.
  reflexivity.
Qed.

(* ---------- in-place loops: "for i := s; i < s+cnt; i++ { cd[i] = g(cd, i) }" ---------- *)
(* cd agrees with the target R below i and with the initial slice cd0 from i on *)
Definition Inv (R cd0 : list N) (i : nat) (cd : list N) : Prop :=
  length cd = length R /\
  forall k, (k < length R)%nat -> get cd k = if (k <? i)%nat then get R k else get cd0 k.

Lemma fold_upd_inv (g : list N -> nat -> N) (R cd0 : list N) :
  forall cnt s cd, (s + cnt <= length R)%nat ->
    Inv R cd0 s cd ->
    (forall i cd', (s <= i < s + cnt)%nat -> Inv R cd0 i cd' -> g cd' i = get R i) ->
    Inv R cd0 (s + cnt) (fold_left (fun cd i => upd i (g cd i) cd) (seq s cnt) cd).
Proof.
  induction cnt as [|cnt IH]; intros s cd Hle Hinv Hg.
  - simpl. now rewrite Nat.add_0_r.
  - simpl. replace (s + S cnt)%nat with (S s + cnt)%nat by lia.
    apply IH; [lia| |].
    + destruct Hinv as [Hlen Hk]. split; [now rewrite upd_length|].
      intros k Hklt. destruct (Nat.eq_dec s k) as [->|Hne].
      * rewrite get_upd_eq by lia.
        replace (k <? S k)%nat with true by (symmetry; apply Nat.ltb_lt; lia).
        apply Hg; [lia|]. split; assumption.
      * rewrite get_upd_neq by exact Hne. rewrite (Hk k Hklt).
        destruct (k <? s)%nat eqn:E1, (k <? S s)%nat eqn:E2; try reflexivity.
        -- apply Nat.ltb_lt in E1. apply Nat.ltb_ge in E2. lia.
        -- apply Nat.ltb_ge in E1. apply Nat.ltb_lt in E2. lia.
    + intros i cd' Hi Hinv'. apply Hg; [lia|exact Hinv'].
Qed.

Lemma Inv_start R cd0 s : length cd0 = length R ->
  (forall k, (k < s)%nat -> (k < length R)%nat -> get cd0 k = get R k) -> Inv R cd0 s cd0.
Proof.
  intros Hlen Hk. split; [exact Hlen|]. intros k Hklt.
  destruct (k <? s)%nat eqn:E; [|reflexivity]. apply Nat.ltb_lt in E. now apply Hk.
Qed.

Lemma Inv_final R cd0 i cd : (length R <= i)%nat -> Inv R cd0 i cd -> cd = R.
Proof.
  intros Hi [Hlen Hk]. apply list_eq_get; [exact Hlen|].
  intros k Hklt. rewrite Hlen in Hklt. rewrite (Hk k Hklt).
  replace (k <? i)%nat with true by (symmetry; apply Nat.ltb_lt; lia). reflexivity.
Qed.
