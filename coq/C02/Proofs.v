(* C02 — proofs: whatever set of filesystem calls is made ineffective (in particular: all calls from the
   k-th on = a kill after k calls), every protocol leaves the filesystem in one of three shapes:
   untouched / untouched plus the staging file / untouched except that the destination holds the
   complete output. *)
From stdpp Require Import gmap.
From Coq Require Import NArith Lia.
From PV Require Import C01.FS C01.FSFacts C01.Model C02.Model.

(* ---------- the crash plan is what it claims to be, at the level of the single primitive ---------- *)
Lemma call_before_crash {A} k op p q w (f : gmap positive file -> gmap positive file * (A + errno)) :
  wcnt w < k -> call (crash_plan k) op p q w f = call nofault op p q w f.
Proof.
  intros Hlt. unfold call, crash_plan, nofault.
  replace (Nat.leb k (wcnt w)) with false; [reflexivity|]. symmetry. apply Nat.leb_gt. exact Hlt.
Qed.

Lemma call_after_crash {A} k op p q w (f : gmap positive file -> gmap positive file * (A + errno)) :
  k <= wcnt w ->
  call (crash_plan k) op p q w f = Fail EIO (W (wfs w) (S (wcnt w)) (Ev op p q (Some EIO) :: wtr w)).
Proof.
  intros Hle. unfold call, crash_plan.
  replace (Nat.leb k (wcnt w)) with true; [reflexivity|]. symmetry. apply Nat.leb_le. exact Hle.
Qed.

Lemma crash_plan_quiet_before k j : j < k -> crash_plan k j = false.
Proof. intros Hlt. unfold crash_plan. apply Nat.leb_gt. exact Hlt. Qed.

Section AnyPlan.
Variable pl : plan.
Variable fresh : gmap positive file -> positive.
Hypothesis fresh_spec : forall m, m !! fresh m = None.
(* the filesystem before the run and the name of the staging file *)
Variable m0 : gmap positive file.
Variable t : positive.
Hypothesis Ht : m0 !! t = None.

(* clean or staged *)
Definition cs (m : gmap positive file) : Prop := m = m0 \/ exists f, m = <[t := f]> m0.
(* … or published: the destination holds the complete output *)
Definition allowed (d : positive) (new : bytes) (m : gmap positive file) : Prop :=
  cs m \/ exists md, m = <[d := File new md]> m0.

Lemma cs_clean : cs m0.
Proof. left. reflexivity. Qed.
Lemma cs_staged f : cs (<[t := f]> m0).
Proof. right. exists f. reflexivity. Qed.

(* ---------- primitives under an arbitrary plan ---------- *)
Lemma close_wfs p w : wfs (world_of (close pl p w)) = wfs w.
Proof. apply close_fs. Qed.
Lemma close_all_wfs ps w : wfs (snd (close_all pl ps w)) = wfs w.
Proof. apply close_all_spec. Qed.
Lemma open_rd_wfs p w : wfs (world_of (open_rd pl p w)) = wfs w.
Proof. apply open_rd_fs. Qed.
Lemma stat_wfs p w : wfs (world_of (stat pl p w)) = wfs w.
Proof. apply stat_fs. Qed.

Lemma stat_done p w fi w' : stat pl p w = Done fi w' -> wfs w' = wfs w /\ wfs w !! p = Some fi.
Proof.
  unfold stat, call. destruct (pl (wcnt w)); [discriminate|].
  destruct (wfs w !! p) as [f|]; [|discriminate]. intros [= <- <-]. split; reflexivity.
Qed.

Lemma stat_fail p w e w' : stat pl p w = Fail e w' -> wfs w' = wfs w.
Proof. intros H. pose proof (stat_wfs p w) as Hs. rewrite H in Hs. exact Hs. Qed.

Lemma stat_enoent p w w' : stat pl p w = Fail ENOENT w' -> wfs w !! p = None.
Proof.
  unfold stat, call. destruct (pl (wcnt w)); [discriminate|].
  destruct (wfs w !! p) as [f|]; [discriminate|]. reflexivity.
Qed.

Lemma create_temp_done md w t' w' :
  create_temp pl fresh md w = Done t' w' -> t' = fresh (wfs w) /\ wfs w' = <[t' := File [] md]> (wfs w).
Proof.
  unfold create_temp, call. destruct (pl (wcnt w)); [discriminate|]. intros [= <- <-]. split; reflexivity.
Qed.
Lemma create_temp_fail md w e w' : create_temp pl fresh md w = Fail e w' -> wfs w' = wfs w.
Proof. unfold create_temp, call. destruct (pl (wcnt w)); intros [= <- <-]; reflexivity. Qed.

Lemma open_excl_done o w w' : open_excl pl o w = Done tt w' -> wfs w !! o = None.
Proof.
  unfold open_excl, call. destruct (pl (wcnt w)); [discriminate|].
  destruct (wfs w !! o); [discriminate|reflexivity].
Qed.
Lemma open_excl_fail o w e w' : open_excl pl o w = Fail e w' -> wfs w' = wfs w.
Proof.
  unfold open_excl, call. destruct (pl (wcnt w)); [intros [= <- <-]; reflexivity|].
  destruct (wfs w !! o); intros [= <- <-]; reflexivity.
Qed.

Lemma chmod_staged f md w :
  wfs w = <[t := f]> m0 ->
  match chmod pl t md w with
  | Done _ w' => wfs w' = <[t := File (fdata f) md]> m0
  | Fail _ w' => wfs w' = <[t := f]> m0
  end.
Proof.
  intros Hw. unfold chmod, call. destruct (pl (wcnt w)); [exact Hw|].
  rewrite Hw, lookup_insert. cbn. apply insert_insert.
Qed.

Lemma remove_staged f w :
  wfs w = <[t := f]> m0 -> cs (wfs (world_of (remove pl t w))).
Proof.
  intros Hw. unfold remove, call. destruct (pl (wcnt w)); cbn; [rewrite Hw; apply cs_staged|].
  rewrite Hw, lookup_insert. cbn. left. rewrite delete_insert; [reflexivity|exact Ht].
Qed.

Lemma rename_staged f d w :
  wfs w = <[t := f]> m0 ->
  match rename pl t d w with
  | Done _ w' => wfs w' = <[d := f]> m0
  | Fail _ w' => wfs w' = <[t := f]> m0
  end.
Proof.
  intros Hw. unfold rename, call. destruct (pl (wcnt w)); [exact Hw|].
  rewrite Hw, lookup_insert. cbn. rewrite delete_insert; [reflexivity|exact Ht].
Qed.

(* the body: the staging file grows; it returns nil only after every chunk was appended *)
Lemma body_staged chunks fin : forall w f,
  wfs w = <[t := f]> m0 ->
  exists f', wfs (snd (body pl t chunks fin w)) = <[t := f']> m0 /\ fmode f' = fmode f /\
             (fst (body pl t chunks fin w) = COk -> fin = COk /\ fdata f' = fdata f ++ concat chunks) /\
             (fst (body pl t chunks fin w) = CPanic -> fin = CPanic).
Proof.
  induction chunks as [|c cs' IH]; intros w f Hw; cbn [body].
  - exists f. cbn. split; [exact Hw|]. split; [reflexivity|]. split.
    + intros ->. split; [reflexivity|]. rewrite app_nil_r. reflexivity.
    + intros ->. reflexivity.
  - unfold write, call. destruct (pl (wcnt w)).
    + exists f. cbn. split; [exact Hw|]. split; [reflexivity|]. split; discriminate.
    + rewrite Hw, lookup_insert. cbn [fst snd].
      set (w1 := W _ _ _).
      destruct (IH w1 (File (fdata f ++ c) (fmode f))) as (f' & H1 & Hmd & H2 & H3).
      { unfold w1. cbn [wfs]. apply insert_insert. }
      exists f'. split; [exact H1|]. split; [exact Hmd|]. split; [|exact H3].
      intros Hok. destruct (H2 Hok) as [-> Hd]. split; [reflexivity|].
      rewrite Hd. cbn [fdata concat]. rewrite <- app_assoc. reflexivity.
Qed.

(* ---------- api.stagedOutput ---------- *)
Lemma open_all_wfs todo : forall opened w, wfs (snd (open_all pl opened todo w)) = wfs w.
Proof.
  induction todo as [|p ps IH]; intros opened w; cbn [open_all]; [reflexivity|].
  pose proof (open_rd_wfs p w) as Ho. destruct (open_rd pl p w) as [u w1|e w1]; cbn in Ho.
  - rewrite IH. exact Ho.
  - cbn [snd]. rewrite close_all_wfs. exact Ho.
Qed.

Lemma cleanup_cs s f w :
  s_tmp s = t -> wfs w = <[t := f]> m0 -> cs (wfs (cleanup pl s w)).
Proof.
  intros Hs Hw. unfold cleanup, remove_file.
  pose proof (close_all_wfs (s_ins s) (world_of (close pl (s_out s) w))) as Hc.
  destruct (close_all pl (s_ins s) (world_of (close pl (s_out s) w))) as [b w2]. cbn [snd] in *.
  rewrite Hs. apply (remove_staged f). rewrite Hc, close_wfs. exact Hw.
Qed.

Lemma commit_spec s f d w :
  s_tmp s = t -> s_dest s = Some d -> wfs w = <[t := f]> m0 ->
  cs (wfs (snd (commit pl s w))) \/
  (fst (commit pl s w) = COk /\ wfs (snd (commit pl s w)) = <[d := f]> m0).
Proof.
  intros Hs Hd Hw. unfold commit, remove_file. rewrite Hs, Hd.
  pose proof (close_wfs (s_out s) w) as Hc1.
  destruct (close pl (s_out s) w) as [u w1|e w1]; cbn [world_of] in Hc1.
  - pose proof (close_all_wfs (s_ins s) w1) as Hc2.
    destruct (close_all pl (s_ins s) w1) as [bad w2]. cbn [snd] in Hc2.
    assert (Hw2 : wfs w2 = <[t := f]> m0) by (rewrite Hc2, Hc1; exact Hw).
    destruct bad.
    + left. cbn [snd]. apply (remove_staged f). exact Hw2.
    + pose proof (rename_staged f d w2 Hw2) as Hr.
      destruct (rename pl t d w2) as [u2 w3|e3 w3].
      * right. cbn [fst snd]. split; [reflexivity|exact Hr].
      * left. cbn [snd]. apply (remove_staged f). exact Hr.
  - pose proof (close_all_wfs (s_ins s) w1) as Hc2.
    destruct (close_all pl (s_ins s) w1) as [bad w2]. cbn [snd] in Hc2.
    left. cbn [snd]. apply (remove_staged f). rewrite Hc2, Hc1. exact Hw.
Qed.

(* openStagedOutput… towards an existing target d *)
Lemma open_tmp_spec ins d old w :
  wfs w = m0 -> fresh m0 = t -> m0 !! d = Some old ->
  match open_tmp pl fresh ins (Some d) w with
  | Fail _ w' => cs (wfs w')
  | Done s w' => s_tmp s = t /\ s_out s = t /\ s_dest s = Some d /\ s_ins s = ins /\
                 wfs w' = <[t := File [] (fmode old)]> m0
  end.
Proof.
  intros Hw Hfr Hd. unfold open_tmp, stat_opt.
  destruct (stat pl d w) as [fi w1|e w1] eqn:Est.
  2: { left. rewrite (stat_fail _ _ _ _ Est). exact Hw. }
  destruct (stat_done _ _ _ _ Est) as [Hw1 Hfi]. rewrite Hw, Hd in Hfi. injection Hfi as <-.
  destruct (create_temp pl fresh mode_tmp w1) as [t' w2|e w2] eqn:Ect.
  2: { left. rewrite (create_temp_fail _ _ _ _ Ect), Hw1. exact Hw. }
  destruct (create_temp_done _ _ _ _ Ect) as [Ht' Hw2]. rewrite Hw1, Hw in Ht', Hw2. rewrite Hfr in Ht'. subst t'.
  pose proof (chmod_staged _ (fmode old) w2 Hw2) as Hch.
  destruct (chmod pl t (fmode old) w2) as [u w3|e w3].
  - cbn [s_tmp s_out s_dest s_ins fdata] in *. repeat split; try reflexivity. exact Hch.
  - apply (remove_staged (File [] mode_tmp)). rewrite close_wfs. exact Hch.
Qed.

Lemma open_staged_spec ins inF tmpFile d old w :
  wfs w = m0 -> fresh m0 = t -> m0 !! d = Some old ->
  ((tmpFile = Some d /\ opt_eqb inF tmpFile = false) \/ (tmpFile = None /\ inF = Some d)) ->
  match open_staged pl fresh ins inF tmpFile w with
  | Fail _ w' => cs (wfs w')
  | Done s w' => s_tmp s = t /\ s_out s = t /\ s_dest s = Some d /\ s_ins s = ins /\
                 wfs w' = <[t := File [] (fmode old)]> m0
  end.
Proof.
  intros Hw Hfr Hd [[-> Hne]|[-> ->]]; unfold open_staged.
  - rewrite Hne. cbn [negb].
    destruct (open_excl pl d w) as [[] w1|e w1] eqn:Eo.
    + exfalso. pose proof (open_excl_done _ _ _ Eo) as Hn. rewrite Hw, Hd in Hn. discriminate.
    + pose proof (open_excl_fail _ _ _ _ Eo) as Hw1.
      destruct e; try (left; rewrite Hw1; exact Hw).
      apply (open_tmp_spec ins d old w1); [rewrite Hw1; exact Hw|exact Hfr|exact Hd].
  - apply (open_tmp_spec ins d old w); assumption.
Qed.

Lemma key_ok_commit k fin r :
  key_ok k fin -> (r = CPanic -> fin = CPanic) ->
  match decide k r with
  | ACommit => r = COk
  | ACleanup | ANothing => True
  | ACommitKeep => False
  end.
Proof.
  intros [->|[Hna Hnp]] Hp.
  - destruct r; cbn; auto.
  - destruct k, r; cbn; auto; try (exfalso; apply Hna; reflexivity); exfalso; apply Hnp, Hp; reflexivity.
Qed.

Lemma api_any_plan k ins inF outF chunks fin d old w :
  wfs w = m0 -> fresh m0 = t ->
  key_ok k fin -> dest_of (PApi k ins inF outF) = Some d -> m0 !! d = Some old ->
  allowed d (concat chunks) (wfs (snd (api_file pl fresh k ins inF outF chunks fin w))).
Proof.
  intros Hw Hfr Hkey Hdest Hd. unfold api_file.
  pose proof (open_all_wfs ins [] w) as Ho.
  destruct (open_all pl [] ins w) as [[] w1]; cbn [snd] in Ho.
  { left. left. cbn [snd]. rewrite Ho. exact Hw. }
  set (tmpFile := match outF with Some _ => if negb (opt_eqb inF outF) then outF else None | None => None end).
  assert (Hrel : (tmpFile = Some d /\ opt_eqb inF tmpFile = false) \/ (tmpFile = None /\ inF = Some d)).
  { unfold tmpFile. cbn [dest_of] in Hdest. destruct outF as [o|]; [|right; split; [reflexivity|exact Hdest]].
    destruct (opt_eqb inF (Some o)) eqn:E; cbn [negb].
    - right. split; [reflexivity|exact Hdest].
    - left. injection Hdest as ->. split; [reflexivity|exact E]. }
  pose proof (open_staged_spec ins inF tmpFile d old w1 (eq_trans Ho Hw) Hfr Hd Hrel) as Hop.
  destruct (open_staged pl fresh ins inF tmpFile w1) as [s w2|e w2].
  2: { left. cbn [snd]. rewrite close_all_wfs. exact Hop. }
  destruct Hop as (Hs & Hout & Hsd & Hins & Hw2).
  unfold with_defer. rewrite Hout.
  destruct (body_staged chunks fin w2 _ Hw2) as (f' & Hb & _ & Hbok & Hbp).
  destruct (body pl t chunks fin w2) as [rb w3]. cbn [fst snd] in *.
  pose proof (key_ok_commit k fin rb Hkey Hbp) as Hdec.
  destruct (decide k rb).
  - subst rb. destruct (Hbok eq_refl) as [_ Hdata]. cbn [fdata app] in Hdata.
    destruct (commit_spec s f' d w3 Hs Hsd Hb) as [Hc|[_ Hc]].
    + destruct (commit pl s w3) as [rc w4]. cbn [snd] in *. left. exact Hc.
    + destruct (commit pl s w3) as [rc w4]. cbn [snd] in *. right. exists (fmode f').
      rewrite Hc. destruct f' as [dd mm]. cbn in *. rewrite Hdata. reflexivity.
  - cbn [snd]. left. apply (cleanup_cs s f'); assumption.
  - cbn [snd]. left. rewrite Hb. apply cs_staged.
  - contradiction.
Qed.

(* ---------- pkg/pdfcpu createStagedFile / finishStagedFile ---------- *)
Lemma create_staged_file_spec path w :
  wfs w = m0 -> fresh m0 = t ->
  match create_staged_file pl fresh path w with
  | Fail _ w' => cs (wfs w')
  | Done t' w' => t' = t /\ exists md, wfs w' = <[t := File [] md]> m0
  end.
Proof.
  intros Hw Hfr. unfold create_staged_file.
  destruct (create_temp pl fresh mode_new w) as [t' w1|e w1] eqn:Ect.
  2: { left. rewrite (create_temp_fail _ _ _ _ Ect). exact Hw. }
  destruct (create_temp_done _ _ _ _ Ect) as [Ht' Hw1]. rewrite Hw in Ht', Hw1. rewrite Hfr in Ht'. subst t'.
  destruct (stat pl path w1) as [fi w2|e w2] eqn:Est.
  2: { split; [reflexivity|]. exists mode_new. rewrite (stat_fail _ _ _ _ Est). exact Hw1. }
  destruct (stat_done _ _ _ _ Est) as [Hw2 _]. rewrite Hw1 in Hw2.
  pose proof (chmod_staged _ (fmode fi) w2 Hw2) as Hch.
  destruct (chmod pl t (fmode fi) w2) as [u w3|e w3].
  - split; [reflexivity|]. exists (fmode fi). exact Hch.
  - apply (remove_staged (File [] mode_new)). rewrite close_wfs. exact Hch.
Qed.

Lemma finish_staged_file_spec path f writeErr input w :
  wfs w = <[t := f]> m0 ->
  cs (wfs (snd (finish_staged_file pl path t writeErr input w))) \/
  (writeErr = false /\ wfs (snd (finish_staged_file pl path t writeErr input w)) = <[path := f]> m0).
Proof.
  intros Hw. unfold finish_staged_file, remove_file.
  set (w1 := world_of (close pl t w)).
  assert (Hw1 : wfs w1 = <[t := f]> m0) by (unfold w1; rewrite close_wfs; exact Hw).
  destruct (match input with Some i => _ | None => _ end) as [inErr w2] eqn:Ein.
  assert (Hw2 : wfs w2 = <[t := f]> m0).
  { destruct input as [i|]; injection Ein as <- <-; [rewrite close_wfs|]; exact Hw1. }
  destruct (writeErr || failed (close pl t w) || inErr) eqn:Eerr.
  - left. cbn [snd]. apply (remove_staged f). exact Hw2.
  - pose proof (rename_staged f path w2 Hw2) as Hr.
    destruct (rename pl t path w2) as [u w3|e w3].
    + right. cbn [snd]. split; [|exact Hr]. destruct writeErr; [discriminate Eerr|reflexivity].
    + left. cbn [snd]. apply (remove_staged f). exact Hr.
Qed.

Lemma pdf_any_plan k input path chunks fin old w :
  wfs w = m0 -> fresh m0 = t ->
  key_ok k fin -> m0 !! path = Some old ->
  allowed path (concat chunks) (wfs (snd (pdf_staged pl fresh k input path chunks fin w))).
Proof.
  intros Hw Hfr Hkey Hd. unfold pdf_staged.
  destruct (match input with Some i => _ | None => Done tt w end) as [u w1|e w1] eqn:Ein.
  2: { left. left. cbn [snd]. destruct input as [i|]; [|discriminate].
       pose proof (open_rd_wfs i w) as Ho. destruct (open_rd pl i w) as [u0 w0|e0 w0]; [discriminate|].
       injection Ein as _ <-. cbn in Ho. rewrite Ho. exact Hw. }
  assert (Hw1 : wfs w1 = m0).
  { destruct input as [i|]; [|injection Ein as _ <-; exact Hw].
    pose proof (open_rd_wfs i w) as Ho. destruct (open_rd pl i w) as [u0 w0|e0 w0]; [|discriminate].
    injection Ein as _ <-. cbn in Ho. rewrite !stat_wfs, Ho. exact Hw. }
  pose proof (create_staged_file_spec path w1 Hw1 Hfr) as Hcs.
  destruct (create_staged_file pl fresh path w1) as [t' w2|e w2].
  2: { left. cbn [snd]. destruct input as [i|]; [rewrite close_wfs|]; exact Hcs. }
  destruct Hcs as [-> [md Hw2]].
  unfold with_defer.
  destruct (body_staged chunks fin w2 _ Hw2) as (f' & Hb & _ & Hbok & Hbp).
  destruct (body pl t chunks fin w2) as [rb w3]. cbn [fst snd] in *.
  pose proof (key_ok_commit k fin rb Hkey Hbp) as Hdec.
  destruct (decide k rb).
  - subst rb. destruct (Hbok eq_refl) as [_ Hdata]. cbn [fdata app] in Hdata.
    destruct (finish_staged_file_spec path f' false input w3 Hb) as [Hc|[_ Hc]].
    + destruct (finish_staged_file pl path t false input w3) as [rc w4]. cbn [snd] in *. left. exact Hc.
    + destruct (finish_staged_file pl path t false input w3) as [rc w4]. cbn [snd] in *. right. exists (fmode f').
      rewrite Hc. destruct f' as [dd mm]. cbn in *. rewrite Hdata. reflexivity.
  - destruct (finish_staged_file_spec path f' true input w3 Hb) as [Hc|[Hc _]]; [|discriminate Hc].
    destruct (finish_staged_file pl path t true input w3) as [rc w4]. cbn [snd] in *. left. exact Hc.
  - cbn [snd]. left. rewrite Hb. apply cs_staged.
  - contradiction.
Qed.

(* ---------- api.writeCutOutputWith ---------- *)
Lemma close_remove_cs f w : wfs w = <[t := f]> m0 -> cs (wfs (close_remove pl t w)).
Proof. intros Hw. unfold close_remove. apply (remove_staged f). rewrite close_wfs. exact Hw. Qed.

Lemma cut_any_plan out chunks fin old w :
  wfs w = m0 -> fresh m0 = t -> m0 !! out = Some old ->
  allowed out (concat chunks) (wfs (snd (cut_output pl fresh out chunks fin w))).
Proof.
  intros Hw Hfr Hd. unfold cut_output.
  destruct (stat pl out w) as [fi w1|e w1] eqn:Est.
  2: { pose proof (stat_fail _ _ _ _ Est) as Hw1.
       destruct e; try (left; left; cbn [snd]; rewrite Hw1; exact Hw).
       exfalso. pose proof (stat_enoent _ _ _ Est) as Hn. rewrite Hw, Hd in Hn. discriminate. }
  destruct (stat_done _ _ _ _ Est) as [Hw1 _]. rewrite Hw in Hw1.
  destruct (create_temp pl fresh mode_new w1) as [t' w2|e w2] eqn:Ect.
  2: { left. left. cbn [snd]. rewrite (create_temp_fail _ _ _ _ Ect). exact Hw1. }
  destruct (create_temp_done _ _ _ _ Ect) as [Ht' Hw2]. rewrite Hw1 in Ht', Hw2. rewrite Hfr in Ht'. subst t'.
  pose proof (chmod_staged _ (fmode fi) w2 Hw2) as Hch.
  destruct (chmod pl t (fmode fi) w2) as [u w3|e w3].
  2: { left. cbn [snd]. apply (close_remove_cs _ _ Hch). }
  destruct (body_staged chunks fin w3 _ Hch) as (f' & Hb & _ & Hbok & _).
  destruct (body pl t chunks fin w3) as [rb w4]. cbn [fst snd] in *.
  destruct rb.
  - destruct (Hbok eq_refl) as [_ Hdata]. cbn [fdata app] in Hdata. cbn [ctl_eqb negb orb].
    destruct (failed (close pl t w4)).
    + left. cbn [snd]. apply (remove_staged f'). rewrite close_wfs. exact Hb.
    + assert (Hw5 : wfs (world_of (close pl t w4)) = <[t := f']> m0) by (rewrite close_wfs; exact Hb).
      pose proof (rename_staged f' out _ Hw5) as Hr.
      destruct (rename pl t out (world_of (close pl t w4))) as [u2 w6|e6 w6]; cbn [snd].
      * right. exists (fmode f'). rewrite Hr. destruct f' as [dd mm]. cbn in *. rewrite Hdata. reflexivity.
      * left. apply (remove_staged f'). exact Hr.
  - left. cbn [ctl_eqb negb orb snd]. apply (remove_staged f'). rewrite close_wfs. exact Hb.
  - left. cbn [snd]. apply (close_remove_cs _ _ Hb).
Qed.

(* ---------- cli stream output ---------- *)
Lemma create_stream_output_spec out old w :
  wfs w = m0 -> fresh m0 = t -> m0 !! out = Some old ->
  match create_stream_output pl fresh out w with
  | Fail _ w' => cs (wfs w')
  | Done (t', dest) w' => t' = t /\ dest = Some out /\ wfs w' = <[t := File [] (fmode old)]> m0
  end.
Proof.
  intros Hw Hfr Hd. unfold create_stream_output.
  destruct (open_excl pl out w) as [[] w1|e w1] eqn:Eo.
  { exfalso. pose proof (open_excl_done _ _ _ Eo) as Hn. rewrite Hw, Hd in Hn. discriminate. }
  pose proof (open_excl_fail _ _ _ _ Eo) as Hw1. rewrite Hw in Hw1.
  destruct e; try (left; exact Hw1).
  destruct (stat pl out w1) as [fi w2|e w2] eqn:Est.
  2: { left. rewrite (stat_fail _ _ _ _ Est). exact Hw1. }
  destruct (stat_done _ _ _ _ Est) as [Hw2 Hfi]. rewrite Hw1 in Hw2, Hfi. rewrite Hd in Hfi. injection Hfi as <-.
  destruct (create_temp pl fresh mode_tmp w2) as [t' w3|e w3] eqn:Ect.
  2: { left. rewrite (create_temp_fail _ _ _ _ Ect). exact Hw2. }
  destruct (create_temp_done _ _ _ _ Ect) as [Ht' Hw3]. rewrite Hw2 in Ht', Hw3. rewrite Hfr in Ht'. subst t'.
  pose proof (chmod_staged _ (fmode old) w3 Hw3) as Hch.
  destruct (chmod pl t (fmode old) w3) as [u w4|e w4].
  - repeat split. exact Hch.
  - apply (close_remove_cs _ _ Hch).
Qed.

Lemma stream_finalize_spec f d inF opErr w :
  wfs w = <[t := f]> m0 ->
  cs (wfs (snd (stream_finalize pl t (Some d) inF opErr w))) \/
  (opErr = false /\ wfs (snd (stream_finalize pl t (Some d) inF opErr w)) = <[d := f]> m0).
Proof.
  intros Hw. unfold stream_finalize.
  set (w1 := world_of (close pl t w)).
  assert (Hw1 : wfs w1 = <[t := f]> m0) by (unfold w1; rewrite close_wfs; exact Hw).
  destruct (match inF with Some i => _ | None => _ end) as [inErr w2] eqn:Ein.
  assert (Hw2 : wfs w2 = <[t := f]> m0).
  { destruct inF as [i|]; injection Ein as <- <-; [rewrite close_wfs|]; exact Hw1. }
  destruct (opErr || failed (close pl t w) || inErr) eqn:Eerr.
  - left. cbn [snd]. apply (remove_staged f). exact Hw2.
  - pose proof (rename_staged f d w2 Hw2) as Hr.
    destruct (rename pl t d w2) as [u w3|e w3].
    + right. cbn [snd]. split; [|exact Hr]. destruct opErr; [discriminate Eerr|reflexivity].
    + left. cbn [snd]. apply (remove_staged f). exact Hr.
Qed.

Lemma cli_any_plan inF out chunks fin old w :
  wfs w = m0 -> fresh m0 = t -> m0 !! out = Some old ->
  allowed out (concat chunks) (wfs (snd (cli_stream pl fresh inF out chunks fin w))).
Proof.
  intros Hw Hfr Hd. unfold cli_stream.
  destruct (match inF with Some i => open_rd pl i w | None => Done tt w end) as [u w1|e w1] eqn:Ein.
  2: { left. left. cbn [snd]. destruct inF as [i|]; [|discriminate].
       pose proof (open_rd_wfs i w) as Ho. rewrite Ein in Ho. cbn in Ho. rewrite Ho. exact Hw. }
  assert (Hw1 : wfs w1 = m0).
  { destruct inF as [i|]; [|injection Ein as _ <-; exact Hw].
    pose proof (open_rd_wfs i w) as Ho. rewrite Ein in Ho. cbn in Ho. rewrite Ho. exact Hw. }
  pose proof (create_stream_output_spec out old w1 Hw1 Hfr Hd) as Hcs.
  destruct (create_stream_output pl fresh out w1) as [[t' dest] w2|e w2].
  2: { left. cbn [snd]. destruct inF as [i|]; [rewrite close_wfs|]; exact Hcs. }
  destruct Hcs as (-> & -> & Hw2).
  unfold with_cont.
  destruct (body_staged chunks fin w2 _ Hw2) as (f' & Hb & _ & Hbok & _).
  destruct (body pl t chunks fin w2) as [rb w3]. cbn [fst snd] in *.
  destruct rb.
  - destruct (Hbok eq_refl) as [_ Hdata]. cbn [fdata app] in Hdata. cbn [ctl_eqb negb].
    destruct (stream_finalize_spec f' out inF false w3 Hb) as [Hc|[_ Hc]].
    + left. exact Hc.
    + right. exists (fmode f'). rewrite Hc. destruct f' as [dd mm]. cbn in *. rewrite Hdata. reflexivity.
  - cbn [ctl_eqb negb].
    destruct (stream_finalize_spec f' out inF true w3 Hb) as [Hc|[Hc _]]; [|discriminate Hc].
    left. exact Hc.
  - left. cbn [snd]. rewrite Hb. apply cs_staged.
Qed.

(* ---------- what `allowed` means path by path ---------- *)
Lemma allowed_dest d old new m :
  m0 !! d = Some old -> allowed d new m ->
  exists f, m !! d = Some f /\ (f = old \/ fdata f = new).
Proof.
  intros Hd [[->|[f ->]]|[md ->]].
  - exists old. split; [exact Hd|left; reflexivity].
  - exists old. split; [|left; reflexivity].
    rewrite lookup_insert_ne; [exact Hd|]. intros ->. rewrite Ht in Hd. discriminate.
  - exists (File new md). split; [apply lookup_insert|right; reflexivity].
Qed.

Lemma allowed_others d new m p f :
  allowed d new m -> p <> d -> m0 !! p = Some f -> m !! p = Some f.
Proof.
  intros [[->|[f' ->]]|[md ->]] Hne Hp.
  - exact Hp.
  - rewrite lookup_insert_ne; [exact Hp|]. intros ->. rewrite Ht in Hp. discriminate.
  - rewrite lookup_insert_ne; [exact Hp|]. intros ->. apply Hne. reflexivity.
Qed.

Lemma allowed_new_paths d old new m p :
  m0 !! d = Some old -> allowed d new m -> m0 !! p = None -> is_Some (m !! p) -> p = t.
Proof.
  intros Hd [[->|[f' ->]]|[md ->]] Hp [x Hx].
  - rewrite Hp in Hx. discriminate.
  - destruct (Pos.eq_dec p t) as [->|Hne]; [reflexivity|].
    rewrite lookup_insert_ne in Hx by (intros ->; apply Hne; reflexivity). rewrite Hp in Hx. discriminate.
  - destruct (Pos.eq_dec p d) as [->|Hne]; [rewrite Hd in Hp; discriminate|].
    rewrite lookup_insert_ne in Hx by (intros ->; apply Hne; reflexivity). rewrite Hp in Hx. discriminate.
Qed.
End AnyPlan.

(* ---------- all protocols, any plan ---------- *)
Lemma any_plan_allowed fresh :
  (forall m, m !! fresh m = None) ->
  forall pl P chunks fin m0 tr d old,
  proto_ok P fin -> dest_of P = Some d -> m0 !! d = Some old ->
  allowed m0 (fresh m0) d (concat chunks) (wfs (snd (run_proto pl fresh P chunks fin (W m0 0 tr)))).
Proof.
  intros Hfresh pl P chunks fin m0 tr d old Hok Hdest Hd.
  destruct P as [k ins inF outF|k input path|out|inF out]; cbn [run_proto proto_ok] in *.
  - eapply api_any_plan; eauto.
  - cbn in Hdest. injection Hdest as ->. eapply pdf_any_plan; eauto.
  - cbn in Hdest. injection Hdest as ->. eapply cut_any_plan; eauto.
  - cbn in Hdest. injection Hdest as ->. eapply cli_any_plan; eauto.
Qed.

(* ---------- the property ---------- *)
Lemma replace_crash_atomic_proof fresh :
  (forall m, m !! fresh m = None) ->
  forall P chunks fin m0 d old k,
  proto_ok P fin -> dest_of P = Some d -> m0 !! d = Some old ->
  exists f, crash_state fresh P chunks fin m0 k !! d = Some f /\ (f = old \/ fdata f = concat chunks).
Proof.
  intros Hfresh P chunks fin m0 d old k Hok Hdest Hd. unfold crash_state.
  eapply allowed_dest; [apply Hfresh|exact Hd|].
  eapply any_plan_allowed; eauto.
Qed.

Lemma crash_others_untouched_proof fresh :
  (forall m, m !! fresh m = None) ->
  forall P chunks fin m0 d old k,
  proto_ok P fin -> dest_of P = Some d -> m0 !! d = Some old ->
  forall p f, p <> d -> m0 !! p = Some f -> crash_state fresh P chunks fin m0 k !! p = Some f.
Proof.
  intros Hfresh P chunks fin m0 d old k Hok Hdest Hd p f Hne Hp. unfold crash_state.
  eapply allowed_others; [apply Hfresh| |exact Hne|exact Hp].
  eapply any_plan_allowed; eauto.
Qed.

Lemma crash_leftovers_hidden_proof fresh :
  (forall m, m !! fresh m = None) ->
  forall P chunks fin m0 d old k,
  proto_ok P fin -> dest_of P = Some d -> m0 !! d = Some old ->
  forall p, m0 !! p = None -> is_Some (crash_state fresh P chunks fin m0 k !! p) -> p = fresh m0.
Proof.
  intros Hfresh P chunks fin m0 d old k Hok Hdest Hd p Hp Hs. unfold crash_state in Hs.
  eapply allowed_new_paths; [apply Hfresh|exact Hd| |exact Hp|exact Hs].
  eapply any_plan_allowed; eauto.
Qed.

(* no operation of any protocol ever modifies a pre-existing file in place: at every cut point every
   pre-existing path other than the destination holds its original file (bytes and mode), and the
   destination holds either its original file or a file whose bytes are the complete output — there is
   no cut point at which a pre-existing path holds anything else *)
Lemma preexisting_never_written_proof fresh :
  (forall m, m !! fresh m = None) ->
  forall P chunks fin m0 d old k,
  proto_ok P fin -> dest_of P = Some d -> m0 !! d = Some old ->
  forall p f, m0 !! p = Some f ->
  exists f', crash_state fresh P chunks fin m0 k !! p = Some f' /\
             (f' = f \/ (p = d /\ fdata f' = concat chunks)).
Proof.
  intros Hfresh P chunks fin m0 d old k Hok Hdest Hd p f Hp.
  destruct (Pos.eq_dec p d) as [->|Hne].
  - rewrite Hd in Hp. injection Hp as <-.
    destruct (replace_crash_atomic_proof fresh Hfresh P chunks fin m0 d old k Hok Hdest Hd) as (f' & H1 & H2).
    exists f'. split; [exact H1|]. destruct H2 as [H2|H2]; [left; exact H2|right; split; [reflexivity|exact H2]].
  - exists f. split; [|left; reflexivity].
    eapply crash_others_untouched_proof; eauto.
Qed.

(* the same for ANY plan — in particular for a run in which creating the staging file fails (name too
   long, directory not writable): no pre-existing path ever holds anything but its original file, except
   the destination after a completed publish *)
Lemma preexisting_never_written_any_plan_proof fresh :
  (forall m, m !! fresh m = None) ->
  forall pl P chunks fin m0 tr d old,
  proto_ok P fin -> dest_of P = Some d -> m0 !! d = Some old ->
  forall p f, m0 !! p = Some f ->
  exists f', wfs (snd (run_proto pl fresh P chunks fin (W m0 0 tr))) !! p = Some f' /\
             (f' = f \/ (p = d /\ fdata f' = concat chunks)).
Proof.
  intros Hfresh pl P chunks fin m0 tr d old Hok Hdest Hd p f Hp.
  pose proof (any_plan_allowed fresh Hfresh pl P chunks fin m0 tr d old Hok Hdest Hd) as Hall.
  destruct (Pos.eq_dec p d) as [->|Hne].
  - rewrite Hd in Hp. injection Hp as <-.
    destruct (allowed_dest m0 (fresh m0) (Hfresh m0) d old _ _ Hd Hall) as (f' & H1 & H2).
    exists f'. split; [exact H1|]. destruct H2 as [H2|H2]; [left; exact H2|right; split; [reflexivity|exact H2]].
  - exists f. split; [|left; reflexivity].
    eapply allowed_others; [apply Hfresh|exact Hall|exact Hne|exact Hp].
Qed.
