// Package pgdoc is the shared document generator / observer of the C33 and C32
// harnesses: page TREES (Kids/Count/inheritable attributes) with a per-page
// content marker, written as minimal raw PDFs, and an independent page-tree
// walker that reads back (marker, effective rotation, effective boxes) per page
// from a pdfcpu context without using pdfcpu's own PageDict/PageBoundaries.
package pgdoc

import (
	"bytes"
	"fmt"
	"math"
	"math/rand"
	"os"
	"strconv"
	"strings"

	"github.com/pdfcpu/pdfcpu/pkg/api"
	"github.com/pdfcpu/pdfcpu/pkg/pdfcpu/model"
	"github.com/pdfcpu/pdfcpu/pkg/pdfcpu/types"
)

type Rect [4]int

// Attrs are the inheritable page attributes (Resources only as a presence flag).
type Attrs struct {
	Rot   *int
	Media *Rect
	Crop  *Rect
	Res   bool
}

// Node is a page tree node: a page (Leaf) or a Pages node with Kids.
type Node struct {
	Leaf             bool
	ID               int // content marker, > 0 for generated pages
	A                Attrs
	Trim, Bleed, Art *Rect
	Kids             []*Node
}

// VPage is what is observable of one page: marker, effective (inherited) rotation and boxes.
type VPage struct {
	ID               int
	Rot              int
	Media, Crop      *Rect
	Trim, Bleed, Art *Rect
}

func rs(r *Rect) string {
	if r == nil {
		return "-"
	}
	return fmt.Sprintf("%s,%s,%s,%s", hx(r[0]), hx(r[1]), hx(r[2]), hx(r[3]))
}

func hx(i int) string {
	if i < 0 {
		return "-" + strconv.FormatInt(int64(-i), 16)
	}
	return strconv.FormatInt(int64(i), 16)
}

// String is the canonical form compared with the model: id:rot:media:crop:trim:bleed:art (hex).
func (v VPage) String() string {
	return strings.Join([]string{hx(v.ID), hx(v.Rot), rs(v.Media), rs(v.Crop), rs(v.Trim), rs(v.Bleed), rs(v.Art)}, ":")
}

// Canon joins pages with ';'. If starBlank is set, blank pages (marker 0) print as "0:*"
// (used where the size of a generated blank page is not part of the comparison).
func Canon(ps []VPage, starBlank bool) string {
	ss := make([]string, len(ps))
	for i, p := range ps {
		if starBlank && p.ID == 0 {
			ss[i] = "0:*"
		} else {
			ss[i] = p.String()
		}
	}
	return strings.Join(ss, ";")
}

func NormRot(r int) int { return ((r % 360) + 360) % 360 }

// Sem is the semantic identity of a page used by the oracles: rotation mod 360, boxes as they take
// effect (a missing CropBox is the MediaBox).
func (v VPage) Sem() string {
	w := v
	w.Rot = NormRot(v.Rot)
	if w.Crop == nil {
		w.Crop = w.Media
	}
	return w.String()
}

func IDs(ps []VPage) []int {
	o := make([]int, len(ps))
	for i, p := range ps {
		o[i] = p.ID
	}
	return o
}

// ---------------------------------------------------------------- reference flatten (oracle side)

func orR(own, inh *Rect) *Rect {
	if own != nil {
		return own
	}
	return inh
}

func inherit(inh, own Attrs) Attrs {
	o := Attrs{Rot: inh.Rot, Media: orR(own.Media, inh.Media), Crop: orR(own.Crop, inh.Crop), Res: own.Res || inh.Res}
	if own.Rot != nil {
		o.Rot = own.Rot
	}
	return o
}

// Flatten gives the observable page list of a generated tree.
func Flatten(n *Node) []VPage {
	var out []VPage
	var walk func(n *Node, inh Attrs)
	walk = func(n *Node, inh Attrs) {
		a := inherit(inh, n.A)
		if n.Leaf {
			v := VPage{ID: n.ID, Media: a.Media, Crop: a.Crop, Trim: n.Trim, Bleed: n.Bleed, Art: n.Art}
			if a.Rot != nil {
				v.Rot = *a.Rot
			}
			out = append(out, v)
			return
		}
		for _, k := range n.Kids {
			walk(k, a)
		}
	}
	walk(n, Attrs{})
	return out
}

func (n *Node) Count() int {
	if n.Leaf {
		return 1
	}
	c := 0
	for _, k := range n.Kids {
		c += k.Count()
	}
	return c
}

// HasNodeCrop reports whether some Pages node carries a CropBox (inherited CropBox in play).
func (n *Node) HasNodeCrop() bool {
	if n.Leaf {
		return false
	}
	if n.A.Crop != nil {
		return true
	}
	for _, k := range n.Kids {
		if k.HasNodeCrop() {
			return true
		}
	}
	return false
}

// HasInheritedBadRot: some page without its own Rotate inherits a rotation r with r%360 <= 0 and r%360 != 0.
func (n *Node) HasInheritedNegRot() bool {
	bad := false
	var walk func(n *Node, inh *int)
	walk = func(n *Node, inh *int) {
		if n.Leaf {
			if n.A.Rot == nil && inh != nil && *inh%360 < 0 {
				bad = true
			}
			return
		}
		if n.A.Rot != nil {
			inh = n.A.Rot
		}
		for _, k := range n.Kids {
			walk(k, inh)
		}
	}
	walk(n, nil)
	return bad
}

// ---------------------------------------------------------------- model encoding

func optI(p *int) string {
	if p == nil {
		return "-"
	}
	return hx(*p)
}

func b01(b bool) string {
	if b {
		return "1"
	}
	return "0"
}

// Encode is the prefix encoding parsed by the OCaml glue:
//
//	P id rot media crop res trim bleed art
//	N rot media crop res k  <k kids>
func (n *Node) Encode() string {
	var sb strings.Builder
	var walk func(n *Node)
	walk = func(n *Node) {
		if sb.Len() > 0 {
			sb.WriteByte(' ')
		}
		if n.Leaf {
			sb.WriteString(strings.Join([]string{"P", hx(n.ID), optI(n.A.Rot), rs(n.A.Media), rs(n.A.Crop), b01(n.A.Res), rs(n.Trim), rs(n.Bleed), rs(n.Art)}, " "))
			return
		}
		sb.WriteString(strings.Join([]string{"N", optI(n.A.Rot), rs(n.A.Media), rs(n.A.Crop), b01(n.A.Res), hx(len(n.Kids))}, " "))
		for _, k := range n.Kids {
			walk(k)
		}
	}
	walk(n)
	return sb.String()
}

// EncodeFlat encodes an observed page list as a flat document (one /Pages root without attributes,
// every page with its effective attributes as own entries): it shows exactly these pages.
func EncodeFlat(ps []VPage) string {
	var sb strings.Builder
	sb.WriteString("N - - - 0 " + hx(len(ps)))
	for _, v := range ps {
		rot := v.Rot
		sb.WriteString(" " + strings.Join([]string{"P", hx(v.ID), hx(rot), rs(v.Media), rs(v.Crop), "1", rs(v.Trim), rs(v.Bleed), rs(v.Art)}, " "))
	}
	return sb.String()
}

// ---------------------------------------------------------------- generator

type GenOpt struct {
	MaxDepth  int  // 1..3: nesting of Pages nodes below the root
	NodeRot   bool // Rotate on Pages nodes
	NodeMedia bool // MediaBox on Pages nodes (pages may then omit theirs)
	NodeCrop  bool // CropBox on Pages nodes
	NegRot    bool // allow negative / >= 360 rotations
	PageBoxes bool // own CropBox/TrimBox/BleedBox/ArtBox on pages
	RootAttrs bool // attributes on the root node
	FirstID   int  // markers FirstID, FirstID+1, ...
}

var rots = []int{0, 90, 180, 270}
var wildRots = []int{0, 90, 180, 270, 360, 450, -90, -180, -270, 720}

func pickRot(r *rand.Rand, wild bool) *int {
	v := rots[r.Intn(len(rots))]
	if wild && r.Intn(3) == 0 {
		v = wildRots[r.Intn(len(wildRots))]
	}
	return &v
}

func inner(r *rand.Rand, m Rect) *Rect {
	a := 1 + r.Intn(20)
	b := 1 + r.Intn(20)
	return &Rect{m[0] + a, m[1] + b, m[2] - 1 - r.Intn(20), m[3] - 1 - r.Intn(20)}
}

// Gen makes a random tree with exactly n pages (n >= 0).
func Gen(r *rand.Rand, n int, o GenOpt) *Node {
	id := o.FirstID
	if id == 0 {
		id = 1
	}
	var mk func(n, depth int, haveMedia bool, top bool) *Node
	mk = func(n, depth int, haveMedia bool, top bool) *Node {
		nd := &Node{}
		if !top || o.RootAttrs {
			if o.NodeRot && r.Intn(3) == 0 {
				nd.A.Rot = pickRot(r, o.NegRot)
			}
			if o.NodeMedia && r.Intn(2) == 0 {
				nd.A.Media = &Rect{0, 0, 300 + r.Intn(300), 400 + r.Intn(300)}
				haveMedia = true
			}
			if o.NodeCrop && r.Intn(3) == 0 {
				nd.A.Crop = &Rect{5 + r.Intn(20), 5 + r.Intn(20), 200 + r.Intn(90), 300 + r.Intn(90)}
			}
			if r.Intn(4) == 0 {
				nd.A.Res = true
			}
		}
		rem := n
		for rem > 0 {
			if depth < o.MaxDepth && r.Intn(3) == 0 {
				c := 1 + r.Intn(rem)
				if r.Intn(2) == 0 && c > 3 {
					c = 1 + r.Intn(3)
				}
				nd.Kids = append(nd.Kids, mk(c, depth+1, haveMedia, false))
				rem -= c
				continue
			}
			p := &Node{Leaf: true, ID: id}
			id++
			p.A.Res = true
			if !haveMedia || r.Intn(2) == 0 {
				p.A.Media = &Rect{0, 0, 300 + r.Intn(300), 400 + r.Intn(300)}
			}
			if r.Intn(2) == 0 {
				p.A.Rot = pickRot(r, o.NegRot)
			}
			if o.PageBoxes {
				m := Rect{0, 0, 290, 390}
				if r.Intn(4) == 0 {
					p.A.Crop = inner(r, m)
				}
				if r.Intn(5) == 0 {
					p.Trim = inner(r, m)
				}
				if r.Intn(6) == 0 {
					p.Bleed = inner(r, m)
				}
				if r.Intn(6) == 0 {
					p.Art = inner(r, m)
				}
			}
			nd.Kids = append(nd.Kids, p)
			rem--
		}
		return nd
	}
	return mk(n, 0, false, true)
}

// Simple makes a flat document of n pages without inherited attributes.
func Simple(r *rand.Rand, n, firstID int) *Node {
	return Gen(r, n, GenOpt{MaxDepth: 0, FirstID: firstID})
}

// ---------------------------------------------------------------- raw PDF writer

func rectPDF(r *Rect) string { return fmt.Sprintf("[%d %d %d %d]", r[0], r[1], r[2], r[3]) }

func attrsPDF(a Attrs) string {
	s := ""
	if a.Rot != nil {
		s += fmt.Sprintf(" /Rotate %d", *a.Rot)
	}
	if a.Media != nil {
		s += " /MediaBox " + rectPDF(a.Media)
	}
	if a.Crop != nil {
		s += " /CropBox " + rectPDF(a.Crop)
	}
	if a.Res {
		s += " /Resources << >>"
	}
	return s
}

// Marker content stream of page id.
func markerContent(id int) string { return fmt.Sprintf("%d w\n", id) }

// Numbering controls the object numbers of a written document (nil: dense 1..N, /Size N+1).
type Numbering struct {
	Map      func(i int) int // strictly increasing map from the logical number 1..N to the object number
	ExtraEnd int             // /Size = highest number + 1 + ExtraEnd
	ListFree bool            // list the holes as free entries (linked free list) instead of leaving them out of the xref table
}

// Sparse makes a numbering with holes: at the start, in the middle and/or at the end of the number
// space, or with the highest number far above the object count.
func Sparse(r *rand.Rand) *Numbering {
	start, stride, gapAt, gap := 0, 1, -1, 0
	switch r.Intn(5) {
	case 0:
		start = 1 + r.Intn(9)
	case 1:
		gapAt, gap = 1+r.Intn(6), 1+r.Intn(12)
	case 2:
		stride = 2 + r.Intn(6)
	case 3:
		start, gapAt, gap = 1+r.Intn(4), 2+r.Intn(5), 1+r.Intn(30)
	default:
		start, stride, gapAt, gap = r.Intn(3), 1+r.Intn(3), 1+r.Intn(8), 100+r.Intn(400)
	}
	n := &Numbering{ListFree: r.Intn(3) == 0}
	if r.Intn(3) == 0 {
		n.ExtraEnd = 1 + r.Intn(40)
	}
	n.Map = func(i int) int {
		v := start + i*stride
		if gapAt >= 0 && i > gapAt {
			v += gap
		}
		return v
	}
	return n
}

// PDF serialises the tree as a minimal PDF 1.4 file with dense object numbers.
func PDF(root *Node) []byte { return PDFWith(root, nil) }

// PDFWith serialises the tree with the given object numbering (xref table in subsections).
func PDFWith(root *Node, nb *Numbering) []byte {
	num := func(i int) int { return i }
	if nb != nil && nb.Map != nil {
		num = nb.Map
	}
	var objs []string // objs[i] = body of logical object i+1
	alloc := func() int { objs = append(objs, ""); return len(objs) }
	catalog := alloc()
	var emit func(n *Node, parent int) int
	emit = func(n *Node, parent int) int {
		me := alloc()
		par := ""
		if parent > 0 {
			par = fmt.Sprintf(" /Parent %d 0 R", num(parent))
		}
		if n.Leaf {
			c := alloc()
			content := markerContent(n.ID)
			objs[c-1] = fmt.Sprintf("<< /Length %d >>\nstream\n%sendstream", len(content), content)
			s := fmt.Sprintf("<< /Type /Page%s%s /Contents %d 0 R", par, attrsPDF(n.A), num(c))
			if n.Trim != nil {
				s += " /TrimBox " + rectPDF(n.Trim)
			}
			if n.Bleed != nil {
				s += " /BleedBox " + rectPDF(n.Bleed)
			}
			if n.Art != nil {
				s += " /ArtBox " + rectPDF(n.Art)
			}
			objs[me-1] = s + " >>"
			return me
		}
		kids := make([]string, len(n.Kids))
		for i, k := range n.Kids {
			kids[i] = fmt.Sprintf("%d 0 R", num(emit(k, me)))
		}
		objs[me-1] = fmt.Sprintf("<< /Type /Pages%s%s /Count %d /Kids [%s] >>", par, attrsPDF(n.A), n.Count(), strings.Join(kids, " "))
		return me
	}
	pages := emit(root, 0)
	objs[catalog-1] = fmt.Sprintf("<< /Type /Catalog /Pages %d 0 R >>", num(pages))
	var b bytes.Buffer
	b.WriteString("%PDF-1.4\n%\xe2\xe3\xcf\xd3\n")
	offs := map[int]int{}
	highest := 0
	for i, o := range objs {
		k := num(i + 1)
		offs[k] = b.Len()
		if k > highest {
			highest = k
		}
		fmt.Fprintf(&b, "%d 0 obj\n%s\nendobj\n", k, o)
	}
	size := highest + 1
	if nb != nil {
		size += nb.ExtraEnd
	}
	// xref entries: used objects; object 0; optionally the holes as a linked free list
	type ent struct {
		off, gen int
		free     bool
	}
	ents := map[int]ent{}
	for k, o := range offs {
		ents[k] = ent{o, 0, false}
	}
	var free []int
	if nb != nil && nb.ListFree {
		for k := 1; k < size; k++ {
			if _, ok := offs[k]; !ok {
				free = append(free, k)
			}
		}
	}
	next := 0
	for i := len(free) - 1; i >= 0; i-- {
		ents[free[i]] = ent{next, 1, true}
		next = free[i]
	}
	ents[0] = ent{next, 65535, true}
	x := b.Len()
	b.WriteString("xref\n")
	for k := 0; k < size; {
		if _, ok := ents[k]; !ok {
			k++
			continue
		}
		j := k
		for {
			if _, ok := ents[j]; !ok {
				break
			}
			j++
		}
		fmt.Fprintf(&b, "%d %d\n", k, j-k)
		for ; k < j; k++ {
			e := ents[k]
			t := "n"
			if e.free {
				t = "f"
			}
			fmt.Fprintf(&b, "%010d %05d %s \n", e.off, e.gen, t)
		}
	}
	fmt.Fprintf(&b, "trailer\n<< /Size %d /Root %d 0 R >>\nstartxref\n%d\n%%%%EOF\n", size, num(catalog), x)
	return b.Bytes()
}

func WritePDF(root *Node, path string) error { return os.WriteFile(path, PDF(root), 0o644) }

// ---------------------------------------------------------------- independent reader

func num(ctx *model.Context, o types.Object) (int, error) {
	o, err := ctx.Dereference(o)
	if err != nil {
		return 0, err
	}
	switch v := o.(type) {
	case types.Integer:
		return v.Value(), nil
	case types.Float:
		f := v.Value()
		if f != math.Round(f) {
			return 0, fmt.Errorf("non-integral number %v", f)
		}
		return int(f), nil
	}
	return 0, fmt.Errorf("not a number: %v", o)
}

func rectOf(ctx *model.Context, d types.Dict, key string) (*Rect, error) {
	o, ok := d[key]
	if !ok {
		return nil, nil
	}
	o, err := ctx.Dereference(o)
	if err != nil {
		return nil, err
	}
	a, ok := o.(types.Array)
	if !ok || len(a) != 4 {
		return nil, fmt.Errorf("%s: not a 4-array", key)
	}
	var r Rect
	for i := range a {
		if r[i], err = num(ctx, a[i]); err != nil {
			return nil, fmt.Errorf("%s: %v", key, err)
		}
	}
	return &r, nil
}

func contentMarker(ctx *model.Context, d types.Dict) (int, error) {
	o, ok := d["Contents"]
	if !ok {
		return 0, nil
	}
	var buf []byte
	var one func(o types.Object) error
	one = func(o types.Object) error {
		o, err := ctx.Dereference(o)
		if err != nil {
			return err
		}
		switch v := o.(type) {
		case types.StreamDict:
			if err := v.Decode(); err != nil {
				return err
			}
			buf = append(buf, v.Content...)
		case types.Array:
			for _, e := range v {
				if err := one(e); err != nil {
					return err
				}
			}
		case nil:
		default:
			return fmt.Errorf("unexpected Contents %T", o)
		}
		return nil
	}
	if err := one(o); err != nil {
		return 0, err
	}
	s := strings.TrimSpace(string(buf))
	if s == "" {
		return 0, nil
	}
	f := strings.Fields(s)
	if len(f) != 2 || f[1] != "w" {
		return 0, fmt.Errorf("unexpected content %q", s)
	}
	return strconv.Atoi(f[0])
}

// Pages walks the page tree of ctx by itself (Kids order, attribute inheritance from ancestors only)
// and also checks every Pages node's /Count and every /Parent against the walk.
func Pages(ctx *model.Context) ([]VPage, error) {
	root, err := ctx.Pages()
	if err != nil || root == nil {
		return nil, fmt.Errorf("no page tree root: %v", err)
	}
	var out []VPage
	var walk func(ir types.IndirectRef, parent *types.IndirectRef, inh Attrs, depth int) (int, error)
	walk = func(ir types.IndirectRef, parent *types.IndirectRef, inh Attrs, depth int) (int, error) {
		if depth > 50 {
			return 0, fmt.Errorf("page tree too deep")
		}
		d, err := ctx.DereferenceDict(ir)
		if err != nil || d == nil {
			return 0, fmt.Errorf("obj %d: no dict: %v", ir.ObjectNumber.Value(), err)
		}
		if parent != nil {
			p, ok := d["Parent"].(types.IndirectRef)
			if !ok || p.ObjectNumber != parent.ObjectNumber {
				return 0, fmt.Errorf("obj %d: /Parent %v does not point at the node listing it (%d)", ir.ObjectNumber.Value(), d["Parent"], parent.ObjectNumber.Value())
			}
		}
		var own Attrs
		if o, ok := d["Rotate"]; ok {
			v, err := num(ctx, o)
			if err != nil {
				return 0, err
			}
			own.Rot = &v
		}
		if own.Media, err = rectOf(ctx, d, "MediaBox"); err != nil {
			return 0, err
		}
		if own.Crop, err = rectOf(ctx, d, "CropBox"); err != nil {
			return 0, err
		}
		a := inherit(inh, own)
		t := d.Type()
		if t == nil {
			return 0, fmt.Errorf("obj %d: no Type", ir.ObjectNumber.Value())
		}
		switch *t {
		case "Page":
			v := VPage{Media: a.Media, Crop: a.Crop}
			if a.Rot != nil {
				v.Rot = *a.Rot
			}
			if v.ID, err = contentMarker(ctx, d); err != nil {
				return 0, err
			}
			if v.Trim, err = rectOf(ctx, d, "TrimBox"); err != nil {
				return 0, err
			}
			if v.Bleed, err = rectOf(ctx, d, "BleedBox"); err != nil {
				return 0, err
			}
			if v.Art, err = rectOf(ctx, d, "ArtBox"); err != nil {
				return 0, err
			}
			out = append(out, v)
			return 1, nil
		case "Pages":
			kids := d.ArrayEntry("Kids")
			c := 0
			for _, k := range kids {
				kr, ok := k.(types.IndirectRef)
				if !ok {
					return 0, fmt.Errorf("kid is not a reference")
				}
				j, err := walk(kr, &ir, a, depth+1)
				if err != nil {
					return 0, err
				}
				c += j
			}
			cnt := d.IntEntry("Count")
			if cnt == nil || *cnt != c {
				return 0, fmt.Errorf("obj %d: /Count %v but %d pages below", ir.ObjectNumber.Value(), cnt, c)
			}
			return c, nil
		}
		return 0, fmt.Errorf("obj %d: Type %s", ir.ObjectNumber.Value(), *t)
	}
	n, err := walk(*root, nil, Attrs{}, 0)
	if err != nil {
		return nil, err
	}
	if n != ctx.PageCount {
		return nil, fmt.Errorf("PageCount %d but %d pages in the tree", ctx.PageCount, n)
	}
	return out, nil
}

// ReadPages reads a PDF file (pdfcpu reader + validation) and returns its observable pages.
func ReadPages(path string) ([]VPage, error) {
	ctx, err := api.ReadContextFile(path)
	if err != nil {
		return nil, fmt.Errorf("read %s: %w", path, err)
	}
	return Pages(ctx)
}

// ErrClass maps an error to a small stable enum for the correspondence stream.
func ErrClass(err error) string {
	if err == nil {
		return "ok"
	}
	return "err"
}
