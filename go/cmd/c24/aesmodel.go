// K for revisions 5 and 6: the extracted code model (c_validate_*_aes, c_calc_ou_aes, c_write_perms,
// c_validate_perms, c_hashRev6) against the real functions, and the extracted specification model (alg2B, alg8-13)
// against the independent implementation.  SHA-2 and AES are parameters of the Coq models; they are replayed from a
// tape recorded while the independent implementation runs the same computation on Go's crypto packages.
package main

import (
	"bytes"
	"fmt"
	"strings"

	"github.com/pdfcpu/pdfcpu/pkg/pdfcpu"
	"github.com/pdfcpu/pdfcpu/pkg/pdfcpu/model"
	"verif/vh"
)

func withTape(f func()) string {
	t := []string{}
	tape = &t
	defer func() { tape = nil }()
	f()
	return strings.Join(t, ";")
}

func optHex(b []byte, ok bool) string {
	if !ok {
		return "!"
	}
	return hx(b)
}

func okKey(ok bool, key []byte, err bool) string {
	switch {
	case err:
		return "err"
	case ok:
		return "ok|" + hx(key)
	}
	return "no"
}

func partAESModel(r *vh.Run) {
	all := aesPasswords(r)
	var short []pwCase
	for _, p := range all {
		if len(p.raw) <= 12 {
			short = append(short, p)
		}
	}
	for _, rev := range []int{5, 6} {
		pws := all
		n := len(all)
		if rev == 6 { // Algorithm 2.B tapes are large: few, short passwords
			pws = short
			n = r.Pick(2, 6)
		}
		for i := 0; i < n; i++ {
			upw := pws[(i*5+1)%len(pws)]
			opw := pws[(i*3+2)%len(pws)]
			R := vh.Int(int64(rev))
			p := int64(int32(randP(r)))
			if r.Rand.Intn(6) == 0 {
				p = randP(r)
			}
			emd := r.Rand.Intn(3) != 0

			// ---- reader: a document written by the independent writer for the prepared passwords
			if upw.ok && opw.ok {
				fk := randBytes(r, 32)
				U, UE := iAlg8(rev, upw.prepared, randBytes(r, 8), randBytes(r, 8), fk)
				O, OE := iAlg9(rev, opw.prepared, randBytes(r, 8), randBytes(r, 8), U, fk)
				cands := []pwCase{upw, opw, pws[r.Rand.Intn(len(pws))]}
				if rev == 6 && !r.Thorough() {
					cands = cands[:2]
				}
				for _, cand := range cands {
					pp, perr := pdfcpu.VerifC24ProcessInput(cand.raw)
					q := trunc127(pp)
					// user
					c := &model.Context{Configuration: model.NewDefaultConfiguration(), XRefTable: &model.XRefTable{}}
					c.E = &model.Enc{O: O, U: U, OE: OE, UE: UE, L: 256, P: int(p), R: rev, V: 5, Emd: emd, ID: docID}
					c.UserPW = cand.raw
					var ok bool
					err := guard(func() (e error) { ok, e = pdfcpu.VerifC24ValidateUserPassword(c); return })
					var sres string
					tp := withTape(func() {
						if perr == nil {
							iAlg11(rev, q, U, UE)
						}
						if cand.ok {
							sok, skey := iAlg11(rev, cand.prepared, U, UE)
							sres = okKey(sok, skey, false)
						} else {
							sres = "err"
						}
					})
					r.Case("aes_vuser", []string{tp, R, hx([]byte(cand.raw)), optHex(pp, perr == nil), hx(U), hx(UE)}, okKey(ok, c.EncKey, err != nil))
					r.Case("s_alg11", []string{tp, R, hx([]byte(cand.raw)), optHex([]byte(cand.sasl), cand.ok), hx(U), hx(UE)}, sres)
					// owner
					c = &model.Context{Configuration: model.NewDefaultConfiguration(), XRefTable: &model.XRefTable{}}
					c.E = &model.Enc{O: O, U: U, OE: OE, UE: UE, L: 256, P: int(p), R: rev, V: 5, Emd: emd, ID: docID}
					c.OwnerPW = cand.raw
					err = guard(func() (e error) { ok, e = pdfcpu.VerifC24ValidateOwnerPassword(c); return })
					tp = withTape(func() {
						if perr == nil {
							iAlg12(rev, q, O, OE, U)
						}
						if cand.ok {
							sok, skey := iAlg12(rev, cand.prepared, O, OE, U)
							sres = okKey(sok, skey, false)
						} else {
							sres = "err"
						}
					})
					r.Case("aes_vowner", []string{tp, R, hx([]byte(cand.raw)), optHex(pp, perr == nil), hx(O), hx(OE), hx(U)}, okKey(ok, c.EncKey, err != nil))
					r.Case("s_alg12", []string{tp, R, hx([]byte(cand.raw)), optHex([]byte(cand.sasl), cand.ok), hx(O), hx(OE), hx(U)}, sres)
				}
			}

			// ---- writer: calcOAndU + writePermissions on a real context
			if opw.raw != "" {
				ctx := newCtx(rev == 6)
				ctx.UserPW, ctx.OwnerPW = upw.raw, opw.raw
				ctx.EncryptUsingAES, ctx.EncryptKeyLength = true, 256
				d := pdfcpu.VerifC24NewEncryptDict(rev == 6, true, 256, int16(p))
				var err error
				if ctx.E, err = pdfcpu.VerifC24SupportedEncryption(ctx, d); err != nil {
					panic(err)
				}
				ctx.E.P, ctx.E.Emd = int(p), emd
				upp, uperr := pdfcpu.VerifC24ProcessInput(upw.raw)
				opp, operr := pdfcpu.VerifC24ProcessInput(opw.raw)
				cerr := guard(func() error { return pdfcpu.VerifC24CalcOAndU(ctx, d) })
				e, fk := ctx.E, append([]byte{}, ctx.EncKey...)
				ru, ro := make([]byte, 16), make([]byte, 16)
				if len(e.U) == 48 {
					ru = e.U[32:48]
				}
				if len(e.O) == 48 {
					ro = e.O[32:48]
				}
				if len(fk) != 32 {
					fk = make([]byte, 32)
				}
				var sres string
				tp := withTape(func() {
					// what the code model asks for: the passwords as pdfcpu prepares them
					if uperr == nil {
						u1, _ := iAlg8(rev, trunc127(upp), ru[:8], ru[8:], fk)
						if operr == nil {
							iAlg9(rev, trunc127(opp), ro[:8], ro[8:], u1, fk)
						}
					}
					if upw.ok && opw.ok {
						su, sue := iAlg8(rev, upw.prepared, ru[:8], ru[8:], fk)
						so, soe := iAlg9(rev, opw.prepared, ro[:8], ro[8:], su, fk)
						sres = hx(su) + "|" + hx(so) + "|" + hx(sue) + "|" + hx(soe)
					} else {
						sres = "none"
					}
				})
				cres := "none"
				if cerr == nil {
					cres = hx(e.U) + "|" + hx(e.O) + "|" + hx(e.UE) + "|" + hx(e.OE)
				}
				r.Case("aes_calc", []string{tp, R, hx([]byte(upw.raw)), optHex(upp, uperr == nil), hx([]byte(opw.raw)), optHex(opp, operr == nil), hx(ru), hx(ro), hx(fk)}, cres)
				r.Case("s_alg89", []string{tp, R, hx([]byte(upw.raw)), optHex([]byte(upw.sasl), upw.ok), hx([]byte(opw.raw)), optHex([]byte(opw.sasl), opw.ok),
					hx(ru[:8]), hx(ru[8:]), hx(ro[:8]), hx(ro[8:]), hx(fk)}, sres)
				if cerr != nil {
					continue
				}

				// Perms
				P, EM := vh.Int(p), vh.Bool(emd)
				werr := guard(func() error { return pdfcpu.VerifC24WritePermissions(ctx, d) })
				wres := "none"
				if werr == nil {
					wres = hx(ctx.E.Perms)
				}
				rnd := randBytes(r, 4)
				var s10 []byte
				tp = withTape(func() {
					iAlg10(p, emd, make([]byte, 4), fk)
					s10 = iAlg10(p, emd, rnd, fk)
				})
				r.Case("aes_wperms", []string{tp, P, EM, hx(fk)}, wres)
				r.Case("s_alg10", []string{tp, P, EM, hx(rnd), hx(fk)}, hx(s10))
				for _, tamper := range []bool{false, true} {
					perms := append([]byte{}, s10...)
					if tamper {
						perms[r.Rand.Intn(16)] ^= 1 << uint(r.Rand.Intn(8))
					}
					c := &model.Context{Configuration: model.NewDefaultConfiguration(), XRefTable: &model.XRefTable{}}
					c.E = &model.Enc{Perms: perms, P: int(p), R: rev, Emd: emd}
					c.EncKey = fk
					var pok bool
					perr := guard(func() (e error) { pok, e = pdfcpu.VerifC24ValidatePermissions(c); return })
					var s13 bool
					tp = withTape(func() { s13 = iAlg13(perms, fk, p, emd) })
					pres := "no"
					if perr != nil {
						pres = "err"
					} else if pok {
						pres = "ok"
					}
					r.Case("aes_vperms", []string{tp, hx(perms), P, EM, hx(fk)}, pres)
					r.Case("s_alg13", []string{tp, hx(perms), P, EM, hx(fk)}, vh.Bool(s13))
				}
			}
		}
	}
	// Algorithm 2.B alone
	for i := 0; i < r.Pick(2, 8); i++ {
		pw := randBytes(r, r.Rand.Intn(10))
		var ud []byte
		if i%2 == 1 {
			ud = randBytes(r, 48)
		}
		input := cat(pw, randBytes(r, 8), ud)
		var want []byte
		tp := withTape(func() { want, _ = iAlg2B(input, pw, ud) })
		got, _, err := pdfcpu.VerifC24HashRev6(input, pw, ud)
		res := hx(got)
		if err != nil {
			res = "err"
		}
		r.Case("aes_hash6", []string{tp, hx(input), hx(pw), hx(ud)}, res)
		r.Case("s_alg2B", []string{tp, hx(input), hx(pw), hx(ud)}, hx(want))
		if !bytes.Equal(got, want) {
			r.OracleFail("iso-mismatch:hashRev6", map[string]any{"input": hx(input)}, fmt.Sprint(err))
		}
	}
}
