(* C09 — proofs of the limit logic. *)
From Coq Require Import ZArith List Bool String Lia ZifyBool.
From PV Require Import Lib.GoInt Lib.GoIntFacts C09.Model C09.Generated.
Import ListNotations.
Open Scope Z_scope.

Lemma maxInt64_val : maxInt64 = 9223372036854775807.
Proof. reflexivity. Qed.
Lemma dmdb_val : DefaultMaxDecodeBytes = 536870912.
Proof. reflexivity. Qed.
Lemma inS64 : forall z, inS W z <-> -9223372036854775808 <= z <= 9223372036854775807.
Proof. intro z. unfold inS, W, minS, maxS. simpl. lia. Qed.

Lemma inS64_fwd : forall z, inS W z -> -9223372036854775808 <= z <= 9223372036854775807.
Proof. intro z. apply inS64. Qed.
Lemma inS64_bwd : forall z, -9223372036854775808 <= z <= 9223372036854775807 -> inS W z.
Proof. intro z. apply inS64. Qed.
Lemma wrap_id : forall z, inS W z -> wrapS W z = z.
Proof. intros z H. apply wrapS_id; [unfold W; lia|exact H]. Qed.
Local Opaque maxInt64 DefaultMaxDecodeBytes.

(* ---- copyDecoded ---- *)
Lemma decoded_le_limit : forall mdb avail maxLen n,
  inS W mdb -> inS W maxLen -> 0 <= avail ->
  copyDecoded mdb avail maxLen = DOk n ->
  0 <= n <= avail /\ n <= effLimit mdb maxLen avail /\
  (maxLen < 0 -> 0 < mdb < maxInt64 -> n <= mdb) /\
  (maxLen < 0 -> mdb = 0 -> n <= DefaultMaxDecodeBytes).
Proof.
  intros mdb avail maxLen n Hm Hl Ha H.
  apply inS64_fwd in Hm. apply inS64_fwd in Hl. pose proof maxInt64_val as HM. pose proof dmdb_val as HD.
  unfold copyDecoded, effLimit, decodeLimit in *. cbv zeta in *.
  destruct (0 <=? maxLen) eqn:E0.
  - destruct (avail <? maxLen) eqn:E1; inversion H; subst. lia.
  - remember (if mdb =? 0 then DefaultMaxDecodeBytes else mdb) as limit eqn:EL.
    assert (HL : (mdb = 0 /\ limit = 536870912) \/ (mdb <> 0 /\ limit = mdb))
      by (destruct (mdb =? 0) eqn:Ez; lia).
    clear EL.
    destruct (limit <? 0) eqn:En; [inversion H; subst; simpl; lia|].
    destruct (limit =? maxInt64) eqn:Ex; [inversion H; subst; simpl; lia|].
    assert (HR : inS W (limit + 1)). { apply inS64_bwd. lia. }
    unfold saddw in H. rewrite (wrap_id _ HR) in H.
    destruct (limit <? Z.min avail (limit + 1)) eqn:E2; inversion H; subst.
    simpl. lia.
Qed.

(* the one addition of copyDecoded never wraps *)
Lemma copyDecoded_no_overflow : forall mdb maxLen,
  inS W mdb -> inS W maxLen -> maxLen < 0 ->
  let limit := decodeLimit mdb maxLen in
  0 <= limit -> limit <> maxInt64 -> saddw W limit 1 = limit + 1.
Proof.
  intros mdb maxLen Hm Hl Hneg limit H0 Hx. apply inS64_fwd in Hm. pose proof maxInt64_val as HM.
  unfold saddw. apply wrap_id. apply inS64_bwd. subst limit. unfold decodeLimit in *.
  destruct (0 <=? maxLen); [lia|].
  pose proof dmdb_val as HD. destruct (mdb =? 0); lia.
Qed.

Lemma bomb_fails : forall mdb avail, 0 < mdb < maxInt64 -> mdb < avail ->
  copyDecoded mdb avail (-1) = DErrLimit.
Proof.
  intros mdb avail Hm Ha. pose proof maxInt64_val as HM.
  unfold copyDecoded, decodeLimit. simpl.
  destruct (mdb =? 0) eqn:Ez; [lia|]. destruct (mdb <? 0) eqn:En; [lia|].
  destruct (mdb =? maxInt64) eqn:Ex; [lia|].
  unfold saddw. rewrite wrap_id by (apply inS64_bwd; lia).
  destruct (mdb <? Z.min avail (mdb + 1)) eqn:E2; [reflexivity|lia].
Qed.

Lemma negative_limit_unbounded : forall mdb avail, mdb < 0 -> copyDecoded mdb avail (-1) = DOk avail.
Proof.
  intros mdb avail Hm. unfold copyDecoded, decodeLimit. simpl.
  destruct (mdb =? 0) eqn:Ez; [lia|]. destruct (mdb <? 0) eqn:En; [reflexivity|lia].
Qed.

(* ---- readStreamContent ---- *)
Lemma encoded_le_stream_limit : forall len maxb n,
  streamAlloc len maxb = Ok n -> n = 0 \/ (n = len /\ 0 < n <= maxb).
Proof.
  intros len maxb n H. unfold streamAlloc in H.
  destruct (len <=? 0) eqn:E0; [inversion H; left; reflexivity|].
  destruct (maxb <? len) eqn:E1; inversion H; subst. right. lia.
Qed.

(* ---- xref stream expansion ---- *)
Lemma fromIndex_bounded : forall idx size total l relaxed tot size',
  inS W (MaxObjectCount l) -> inS W (MaxXRefEntries l) ->
  Forall (fun p => inS W (fst p) /\ inS W (snd p)) idx ->
  1 <= size <= MaxObjectCount l -> 0 <= total <= Z.max 0 (MaxXRefEntries l) ->
  fromIndex idx size total l relaxed = Ok (tot, size') ->
  total <= tot <= Z.max 0 (MaxXRefEntries l) /\ size <= size' <= MaxObjectCount l.
Proof.
  induction idx as [|[start n] rest IH]; intros size total l relaxed tot size' Hmoc Hmxe Hall Hs Ht H.
  - simpl in H. inversion H; subst. lia.
  - simpl in H. inversion Hall as [|x xs [Hst Hn] Hrest]; subst. simpl in Hst, Hn.
    pose proof (inS64_fwd _ Hmoc) as Bmoc. pose proof (inS64_fwd _ Hmxe) as Bmxe.
    apply inS64_fwd in Hst. apply inS64_fwd in Hn.
    destruct (start <? 0) eqn:E1; [discriminate|].
    destruct (n <? 0) eqn:E2; [discriminate|]. simpl in H.
    unfold ssubw, saddw in H.
    rewrite (wrap_id (MaxObjectCount l - n)) in H by (apply inS64_bwd; lia).
    destruct (MaxObjectCount l - n <? start) eqn:E3; [discriminate|].
    rewrite (wrap_id (start + n)) in H by (apply inS64_bwd; lia).
    rewrite (wrap_id (MaxXRefEntries l - total)) in H by (apply inS64_bwd; lia).
    destruct ((size <? start + n) && negb relaxed) eqn:E4; [discriminate|].
    destruct (MaxXRefEntries l - total <? n) eqn:E5; [discriminate|].
    rewrite (wrap_id (total + n)) in H by (apply inS64_bwd; lia).
    assert (Hs' : 1 <= (if size <? start + n then start + n else size) <= MaxObjectCount l)
      by (destruct (size <? start + n) eqn:E6; lia).
    assert (Ht' : 0 <= total + n <= Z.max 0 (MaxXRefEntries l)) by lia.
    pose proof (IH _ _ _ _ _ _ Hmoc Hmxe Hrest Hs' Ht' H) as R.
    destruct (size <? start + n) eqn:E6; lia.
Qed.

Lemma xref_objs_bounded : forall size idx l relaxed tot cap size',
  inS W size -> inS W (MaxObjectCount l) -> inS W (MaxXRefEntries l) ->
  match idx with Some ix => Forall (fun p => inS W (fst p) /\ inS W (snd p)) ix | None => True end ->
  xrefObjects size idx l relaxed = Ok (tot, cap, size') ->
  0 <= tot <= Z.max 0 (MaxXRefEntries l) /\ 1 <= cap <= MaxObjectCount l /\
  cap <= size' <= MaxObjectCount l.
Proof.
  intros size idx l relaxed tot cap size' Hsz Hmoc Hmxe Hall H.
  unfold xrefObjects, xRefStreamSize in H.
  destruct (size <=? 0) eqn:E0; [discriminate|].
  destruct (MaxObjectCount l <? size) eqn:E1; [discriminate|].
  destruct idx as [ix|].
  - destruct (fromIndex ix size 0 l relaxed) as [[t s]|] eqn:E; [|discriminate].
    inversion H; subst.
    apply fromIndex_bounded in E; try assumption; lia.
  - unfold fromSize in H. destruct (MaxXRefEntries l <? size) eqn:E2; [discriminate|].
    inversion H; subst. lia.
Qed.

(* ---- object streams, images ---- *)
Lemma objstm_bounded : forall n first l, objStreamOK n first l = true ->
  1 <= n <= MaxObjectStreamCount l /\ 0 <= first <= MaxObjectStreamFirst l.
Proof. intros n first l H. unfold objStreamOK in H. lia. Qed.

(* the struct built by ObjectStreamDictWithLimits carries the CONFIGURED decode limit, and the lazy
   full decode of the object stream content is bounded by it *)
Lemma objstm_decode_limit : forall n first l mdb o,
  objectStreamDictWithLimits n first l mdb = Ok o ->
  o_mdb o = mdb /\ o_count o = n /\ o_first o = first /\
  1 <= n <= MaxObjectStreamCount l /\ 0 <= first <= MaxObjectStreamFirst l.
Proof.
  intros n first l mdb o H. unfold objectStreamDictWithLimits in H.
  destruct (objStreamOK n first l) eqn:E; [|discriminate]. inversion H; subst. simpl.
  pose proof (objstm_bounded n first l E). tauto.
Qed.

Lemma objstm_content_bounded : forall n first l mdb o avail k,
  inS W mdb -> 0 <= avail ->
  objectStreamDictWithLimits n first l mdb = Ok o ->
  osdFullDecode o avail = DOk k ->
  0 <= k <= avail /\ k <= effLimit mdb (-1) avail /\
  (0 < mdb < maxInt64 -> k <= mdb) /\ (mdb = 0 -> k <= DefaultMaxDecodeBytes).
Proof.
  intros n first l mdb o avail k Hm Ha Ho Hd.
  destruct (objstm_decode_limit _ _ _ _ _ Ho) as [Hmdb _]. unfold osdFullDecode in Hd. rewrite Hmdb in Hd.
  assert (Hl : inS W (-1)) by (apply inS64_bwd; lia).
  destruct (decoded_le_limit mdb avail (-1) k Hm Hl Ha Hd) as [H1 [H2 [H3 H4]]].
  split; [exact H1|]. split; [exact H2|]. split; [intro Hp; apply H3; [lia|exact Hp]|intro Hz; apply H4; [lia|exact Hz]].
Qed.

Lemma objstm_bomb_fails : forall n first l mdb o avail,
  0 < mdb < maxInt64 -> mdb < avail ->
  objectStreamDictWithLimits n first l mdb = Ok o -> osdFullDecode o avail = DErrLimit.
Proof.
  intros n first l mdb o avail Hm Ha Ho.
  destruct (objstm_decode_limit _ _ _ _ _ Ho) as [Hmdb _]. unfold osdFullDecode. rewrite Hmdb.
  apply bomb_fails; assumption.
Qed.

Lemma image_bounded : forall w h l px rb, imageOK w h l = Ok (px, rb) ->
  0 < w /\ 0 < h /\ px = w * h /\ px <= MaxImagePixels l /\ rb = 4 * px /\
  rb <= MaxImageBytes l /\ rb <= maxInt64.
Proof.
  intros w h l px rb H. unfold imageOK, mul64 in H.
  destruct ((w <=? 0) || (h <=? 0)) eqn:E0; [discriminate|].
  destruct ((0 <=? w) && (0 <=? h) && (w * h <=? maxInt64)) eqn:E1; [|discriminate].
  destruct (MaxImagePixels l <? w * h) eqn:E2; [discriminate|].
  destruct ((0 <=? w * h) && (0 <=? 4) && (w * h * 4 <=? maxInt64)) eqn:E3; [|discriminate].
  destruct (MaxImageBytes l <? w * h * 4) eqn:E4; [discriminate|].
  inversion H; subst. lia.
Qed.

(* ---- predictor row buffers ---- *)
Lemma rowParams_exact : forall p c b col rs rl bpp,
  predictorRowParams p c b col = Ok (rs, rl, bpp) ->
  0 <= b /\ 0 <= c /\ 0 <= col /\
  rs = (b * c * col + 7) / 8 /\ rl = (if p =? 2 then rs else rs + 1) /\
  0 <= rs /\ rl <= maxInt64 /\ b * c * col + 7 <= maxInt64.
Proof.
  intros p c b col rs rl bpp H. pose proof maxInt64_val as HM.
  unfold predictorRowParams, mul64, addInt in H.
  destruct ((0 <=? b) && (0 <=? c) && (b * c <=? maxInt64)) eqn:E1; [|discriminate].
  destruct ((0 <=? b * c) && (0 <=? 7) && (b * c + 7 <=? maxInt64)) eqn:E2; [|discriminate].
  destruct ((0 <=? b * c) && (0 <=? col) && (b * c * col <=? maxInt64)) eqn:E3; [|discriminate].
  destruct ((0 <=? b * c * col) && (0 <=? 7) && (b * c * col + 7 <=? maxInt64)) eqn:E4; [|discriminate].
  assert (Hrs : 0 <= (b * c * col + 7) / 8 <= b * c * col + 7).
  { split; [apply Z.div_pos; lia|]. apply Z.div_le_upper_bound; lia. }
  destruct (p =? 2) eqn:Ep.
  - inversion H; subst. repeat split; lia.
  - destruct ((0 <=? (b * c * col + 7) / 8) && (0 <=? 1) && ((b * c * col + 7) / 8 + 1 <=? maxInt64)) eqn:E5;
      [|discriminate].
    inversion H; subst. repeat split; lia.
Qed.

(* the row pre-check of decodePostProcess, for BOTH decode modes (every maxLen): whenever the row
   buffers are allocated, a row fits the decode limit in force *)
Lemma row_buffers_le_limit : forall mdb p c b col maxLen rs rl,
  rowGuard mdb p c b col maxLen = RAlloc rs rl ->
  let limit := decodeLimit mdb (-1) in
  (0 <= limit -> rl <= limit) /\ (0 < mdb -> rl <= mdb) /\ (mdb = 0 -> rl <= DefaultMaxDecodeBytes) /\
  0 <= rs <= rl /\ rl <= rs + 1 /\ rl <= maxInt64.
Proof.
  intros mdb p c b col maxLen rs rl H limit. pose proof dmdb_val as HD.
  unfold rowGuard in H. destruct p as [p|]; [|discriminate].
  destruct (p =? 1); [discriminate|]. destruct (negb (validPredictor p)); [discriminate|].
  destruct (flateParameters c b col) as [[[c' b'] col']|]; [|discriminate].
  destruct (predictorRowParams p c' b' col') as [[[rs' rl'] bpp]|] eqn:E; [|discriminate].
  destruct ((0 <=? decodeLimit mdb (-1)) && (decodeLimit mdb (-1) <? rl')) eqn:EL; [discriminate|].
  inversion H; subst rs' rl'.
  destruct (rowParams_exact _ _ _ _ _ _ _ E) as [_ [_ [_ [_ [Hrl [Hrs [Hmax _]]]]]]].
  subst limit. unfold decodeLimit in *. simpl in *.
  destruct (mdb =? 0) eqn:Ez; destruct (p =? 2); lia.
Qed.

(* ... and a row that does not fit is rejected with the limit error, whatever maxLen *)
Lemma row_bomb_fails : forall mdb p c b col c' b' col' maxLen rs rl bpp,
  0 < mdb -> p <> 1 -> validPredictor p = true ->
  flateParameters c b col = Ok (c', b', col') ->
  predictorRowParams p c' b' col' = Ok (rs, rl, bpp) -> mdb < rl ->
  rowGuard mdb (Some p) c b col maxLen = RErrLimit.
Proof.
  intros mdb p c b col c' b' col' maxLen rs rl bpp Hm Hp Hv Hf Hr Hl.
  unfold rowGuard. destruct (p =? 1) eqn:E1; [lia|]. rewrite Hv. simpl. rewrite Hf, Hr.
  unfold decodeLimit. simpl. destruct (mdb =? 0) eqn:Ez; [lia|].
  destruct ((0 <=? mdb) && (mdb <? rl)) eqn:E; [reflexivity|lia].
Qed.

(* ---- RunLengthDecode ---- *)
Definition rl_inv (limit written : Z) (out : list N) : Prop :=
  written = Z.of_nat (length out) /\ (0 <= limit -> written <= limit).
Definition rl_good (limit : Z) (r : rlres) : Prop :=
  r <> RLFuel /\ (0 <= limit -> Z.of_nat (length (rl_out r)) <= limit).

Lemma rl_stop_good : forall limit maxLen written out, rl_inv limit written out ->
  rl_good limit (rl_stop maxLen out).
Proof.
  intros limit maxLen written out [Hw Hl]. unfold rl_stop, rl_good.
  destruct (0 <=? maxLen); simpl; rewrite rev_length; (split; [discriminate|lia]).
Qed.

Lemma rl_literal_inv : forall c src limit maxLen written out, rl_inv limit written out ->
  match rl_literal c src limit maxLen written out with
  | RLStop r => rl_good limit r
  | RLCont src' w' out' => rl_inv limit w' out' /\ (length src' <= length src)%nat
  end.
Proof.
  induction c as [|c IH]; intros src limit maxLen written out Hinv; simpl.
  - split; [exact Hinv|lia].
  - destruct (rl_at_limit limit written) eqn:E.
    + apply (rl_stop_good limit maxLen written out Hinv).
    + destruct src as [|x src'].
      * destruct Hinv as [Hw Hl]. unfold rl_good. simpl. rewrite rev_length. split; [discriminate|lia].
      * assert (Hinv' : rl_inv limit (written + 1) (x :: out)).
        { destruct Hinv as [Hw Hl]. unfold rl_inv, rl_at_limit in *. simpl length. split; lia. }
        specialize (IH src' limit maxLen (written + 1) (x :: out) Hinv').
        destruct (rl_literal c src' limit maxLen (written + 1) (x :: out)); [exact IH|].
        destruct IH as [Hi Hlen]. split; [exact Hi|simpl; lia].
Qed.

Lemma rl_repeat_inv : forall c x limit maxLen written out, rl_inv limit written out ->
  match rl_repeat c x limit maxLen written out with
  | RLStop r => rl_good limit r
  | RLCont _ w' out' => rl_inv limit w' out'
  end.
Proof.
  induction c as [|c IH]; intros x limit maxLen written out Hinv; simpl.
  - exact Hinv.
  - destruct (rl_at_limit limit written) eqn:E.
    + apply (rl_stop_good limit maxLen written out Hinv).
    + apply IH. destruct Hinv as [Hw Hl]. unfold rl_inv, rl_at_limit in *. simpl length. split; lia.
Qed.

Lemma rl_ok_good : forall limit written out, rl_inv limit written out -> rl_good limit (RLOk (rev out)).
Proof. intros limit written out [Hw Hl]. unfold rl_good. simpl. rewrite rev_length. split; [discriminate|lia]. Qed.
Lemma rl_eof_good : forall limit written out, rl_inv limit written out -> rl_good limit (RLErrEOF (rev out)).
Proof. intros limit written out [Hw Hl]. unfold rl_good. simpl. rewrite rev_length. split; [discriminate|lia]. Qed.

Lemma rl_loop_S : forall fuel b rest limit maxLen written out,
  rl_loop (S fuel) (b :: rest) limit maxLen written out =
  if (b =? 128)%N then RLOk (rev out)
  else if (b <? 128)%N then
    if (length rest <? S (N.to_nat b))%nat then RLErrEOF (rev out)
    else match rl_literal (S (N.to_nat b)) rest limit maxLen written out with
         | RLStop r => r
         | RLCont src' w' out' => rl_loop fuel src' limit maxLen w' out'
         end
  else match rest with
       | [] => RLErrEOF (rev out)
       | x :: rest' =>
         match rl_repeat (N.to_nat (257 - b)) x limit maxLen written out with
         | RLStop r => r
         | RLCont _ w' out' => rl_loop fuel rest' limit maxLen w' out'
         end
       end.
Proof. reflexivity. Qed.

Lemma rl_loop_good : forall fuel src limit maxLen written out,
  rl_inv limit written out -> (length src <= fuel)%nat ->
  rl_good limit (rl_loop fuel src limit maxLen written out).
Proof.
  induction fuel as [|fuel IH]; intros src limit maxLen written out Hinv Hlen.
  - destruct src; [|simpl in Hlen; lia]. apply (rl_ok_good _ _ _ Hinv).
  - destruct src as [|b rest]; [apply (rl_ok_good _ _ _ Hinv)|].
    assert (Hlen' : (length rest <= fuel)%nat) by (simpl in Hlen; lia).
    rewrite rl_loop_S.
    destruct (b =? 128)%N; [apply (rl_ok_good _ _ _ Hinv)|].
    destruct (b <? 128)%N.
    + destruct (length rest <? S (N.to_nat b))%nat; [apply (rl_eof_good _ _ _ Hinv)|].
      pose proof (rl_literal_inv (S (N.to_nat b)) rest limit maxLen written out Hinv) as HL.
      destruct (rl_literal (S (N.to_nat b)) rest limit maxLen written out) as [r|src' w' out'].
      * exact HL.
      * destruct HL as [Hi Hl]. apply IH; [exact Hi|lia].
    + destruct rest as [|x rest']; [apply (rl_eof_good _ _ _ Hinv)|].
      pose proof (rl_repeat_inv (N.to_nat (257 - b)) x limit maxLen written out Hinv) as HR.
      destruct (rl_repeat (N.to_nat (257 - b)) x limit maxLen written out) as [r|src' w' out'].
      * exact HR.
      * apply IH; [exact HR|simpl in Hlen'; lia].
Qed.

Lemma runlength_le_limit : forall mdb maxLen src,
  let limit := decodeLimit mdb maxLen in
  rlDecode mdb maxLen src <> RLFuel /\
  (0 <= limit -> Z.of_nat (length (rl_out (rlDecode mdb maxLen src))) <= limit).
Proof.
  intros mdb maxLen src limit. unfold rlDecode.
  apply rl_loop_good; [|lia]. unfold rl_inv. simpl. split; [reflexivity|lia].
Qed.

(* the limit error is only raised with the buffer exactly at the limit, on a full decode *)
Lemma rl_literal_limit : forall c src limit maxLen written out o, rl_inv limit written out ->
  rl_literal c src limit maxLen written out = RLStop (RLErrLimit o) ->
  maxLen < 0 /\ Z.of_nat (length o) = limit.
Proof.
  induction c as [|c IH]; intros src limit maxLen written out o Hinv H; simpl in H; [discriminate|].
  destruct (rl_at_limit limit written) eqn:E.
  - unfold rl_stop in H. destruct (0 <=? maxLen) eqn:Em; inversion H; subst.
    destruct Hinv as [Hw _]. unfold rl_at_limit in E. rewrite rev_length. lia.
  - destruct src as [|x src']; [discriminate|].
    apply (IH src' limit maxLen (written + 1) (x :: out) o); [|exact H].
    destruct Hinv as [Hw Hl]. unfold rl_inv, rl_at_limit in *. simpl length. split; lia.
Qed.

(* ---- ASCIIHexDecode ---- *)
Lemma ahx_alloc_le_limit : forall mdb digits maxLen n, 0 <= digits ->
  ahxGate mdb digits maxLen = AHAlloc n ->
  0 <= n <= digits / 2 /\ n <= maxInt64 / 2 /\
  (maxLen < 0 -> 0 <= decodeLimit mdb (-1) -> n <= decodeLimit mdb (-1)) /\ (0 <= maxLen -> n = maxLen).
Proof.
  intros mdb digits maxLen n Hd H. unfold ahxGate in H.
  assert (H2 : 0 <= digits / 2) by (apply Z.div_pos; lia).
  destruct (maxLen <? 0) eqn:Em.
  - destruct ((0 <=? decodeLimit mdb (-1)) && (decodeLimit mdb (-1) <? digits / 2)) eqn:El; [discriminate|].
    destruct (maxInt64 / 2 <? digits / 2) eqn:Eo; [discriminate|]. inversion H; subst. lia.
  - destruct (digits / 2 <? maxLen) eqn:Ee; [discriminate|].
    destruct (maxInt64 / 2 <? maxLen) eqn:Eo; [discriminate|]. inversion H; subst. lia.
Qed.

(* ---- decode call sites ---- *)
Open Scope string_scope.
(* FROZEN list (file, function) of call sites known to ignore conf.Limits.MaxDecodeBytes
   (defect class decode-site-ignores-configured-limit), plus StreamDict.Encode whose
   filter.NewFilter call only encodes.  A site that is not configured and not in this list
   breaks decode_sites_ok. *)
Definition known_sites : list (string * string) := [
  ("pkg/pdfcpu/extract.go", "ExtractFont");
  ("pkg/pdfcpu/extract.go", "decodeImage");
  ("pkg/pdfcpu/extract.go", "extractMetadataFromDict");
  ("pkg/pdfcpu/font/fontDict.go", "usedGIDsFromCMapIndRef");
  ("pkg/pdfcpu/keyword.go", "removeKeywordsFromMetadata");
  ("pkg/pdfcpu/model/attach.go", "decodeFileSpecStreamDict");
  ("pkg/pdfcpu/model/xreftable.go", "XRefTable.DumpObject");
  ("pkg/pdfcpu/model/xreftable.go", "XRefTable.decodeContentStream");
  ("pkg/pdfcpu/model/xreftable.go", "appendToContentStream");
  ("pkg/pdfcpu/optimize.go", "removeEmptyContentStreams");
  ("pkg/pdfcpu/sign/sign.go", "extractCRLsFromDSS");
  ("pkg/pdfcpu/sign/sign.go", "extractCertsFromDSS");
  ("pkg/pdfcpu/sign/sign.go", "extractOCSPsFromDSS");
  ("pkg/pdfcpu/stamp.go", "detectArtifacts");
  ("pkg/pdfcpu/stamp.go", "patchFirstContentStreamForWatermark");
  ("pkg/pdfcpu/stamp.go", "removeArtifacts");
  ("pkg/pdfcpu/validate/metaData.go", "catalogMetaData");
  ("pkg/pdfcpu/writeImage.go", "streamBytes");
  ("pkg/pdfcpu/types/streamdict.go", "StreamDict.Encode")
].
(* ("pkg/pdfcpu/read.go", "xRefStreamDict") was listed here until pdfcpu dd3ad7ed (the xref stream was
   decoded with saveDecodedStreamContent(nil, ...), i.e. under the default limit: defect class
   xrefstm-decode-ignores-configured-limit); the translator still reports such a call as LDefault. *)
(* constructions of types.ObjectStreamDict that may leave MaxDecodeBytes unset: the write-side
   constructor (its content is produced by the writer, never decoded from a file) *)
Definition osd_write_side : list (string * string) :=
  [("pkg/pdfcpu/types/streamdict.go", "NewObjectStreamDict")].

Lemma osd_constructions_ok : forallb (site_ok osd_write_side) osd_constructions = true.
Proof. vm_compute. reflexivity. Qed.

Lemma osd_limit_plumbed :
  (forall c, In c osd_constructions -> site_ok osd_write_side c = true) /\
  (exists c, In c osd_constructions /\ s_func c = "ObjectStreamDictWithLimits" /\ s_kind c = LConfigured) /\
  (forall s, In s decode_sites -> is_field s = true ->
     s_func s = "LazyObjectStreamObject.GetData").
Proof.
  split; [apply forallb_forall; exact osd_constructions_ok|]. split.
  - exists (mksite "pkg/pdfcpu/model/parse.go" "ObjectStreamDictWithLimits" "ObjectStreamDict{}" LConfigured MNone).
    split; [|split; reflexivity]. unfold osd_constructions. repeat (first [left; reflexivity | right]).
  - assert (H : forallb (fun s => negb (is_field s) || String.eqb (s_func s) "LazyObjectStreamObject.GetData")
                  decode_sites = true) by (vm_compute; reflexivity).
    intros s Hin Hf. apply (proj1 (forallb_forall _ _) H) in Hin. rewrite Hf in Hin. simpl in Hin.
    apply String.eqb_eq. exact Hin.
Qed.

(* partial decodes (maxLen >= 0) found in the sources; the harness drives a row bomb through each of them.
   A new partial-decode caller breaks partial_sites_ok until it is listed here and given a bomb. *)
Definition partial_sites_covered : list (string * string) :=
  [("pkg/pdfcpu/read.go", "parseObjectStream")].
Lemma partial_sites_ok :
  forallb (fun s => negb (is_partial s) || existsb (fun a => same_site a s) partial_sites_covered) decode_sites = true.
Proof. vm_compute. reflexivity. Qed.
Lemma partial_sites_all : forall s, In s decode_sites -> is_partial s = true ->
  existsb (fun a => same_site a s) partial_sites_covered = true.
Proof.
  intros s Hin Hp. pose proof (proj1 (forallb_forall _ _) partial_sites_ok s Hin) as H.
  cbv beta in H. rewrite Hp in H. exact H.
Qed.

Definition encode_only : list (string * string) := [("pkg/pdfcpu/types/streamdict.go", "StreamDict.Encode")].

Lemma decode_sites_ok : forallb (site_ok known_sites) decode_sites = true.
Proof. vm_compute. reflexivity. Qed.

Lemma decode_sites_all : forall s, In s decode_sites -> site_ok known_sites s = true.
Proof. apply forallb_forall. exact decode_sites_ok. Qed.

Lemma decode_sites_refuted : exists s, In s decode_sites /\ is_configured s = false /\
  site_ok encode_only s = false.
Proof.
  exists (mksite "pkg/pdfcpu/optimize.go" "removeEmptyContentStreams" "Decode" LDefault MFull).
  split; [|split; reflexivity].
  unfold decode_sites. repeat (first [left; reflexivity | right]).
Qed.
