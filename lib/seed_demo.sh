#!/bin/sh
# usage: seed_demo.sh <name> <prop> <agent-outdir> standalone|test <pkgdir-for-test> <run-regex>
# Runs the demonstration in the kept scratch worktree /tmp/sv-<name> with the patch and with the patch reverted,
# records both outcomes in /verif/seeded/<name>/meta.json, then removes the worktree.
NAME=$1; PROP=$2; OUT=$3; KIND=$4; PKG=$5; RX=$6
WT=/tmp/sv-$NAME
export GOFLAGS=-mod=mod GOPROXY=off
run() {
  if [ "$KIND" = standalone ]; then
    rm -rf /tmp/demo-$NAME; cp -r $OUT/demo /tmp/demo-$NAME
    grep -rlE "/tmp/mut[0-9]*-[A-Za-z0-9]+" /tmp/demo-$NAME | xargs -r sed -i -E "s#/tmp/mut[0-9]*-[A-Za-z0-9]+-out/demo#/tmp/demo-$NAME#g; s#/tmp/mut[0-9]*-[A-Za-z0-9]+#$WT#g"
    cp $WT/go.sum /tmp/demo-$NAME/go.sum
    # arguments / environment / -race of the recorded demo command
    DC=$(python3 -c "import json;print(json.load(open('$OUT/meta.json')).get('demo_cmd',''))" 2>/dev/null)
    ARGS=$(echo "$DC" | sed -n -E 's#.*go run( -race)? \.( |$)(.*)#\3#p' | sed -E "s#/tmp/mut[0-9]*-[A-Za-z0-9]+#$WT#g; s#[;&|].*##")
    RACE=""; echo "$DC" | grep -q "go run -race" && RACE="-race"
    TZV=$(echo "$DC" | grep -oE "TZ=[A-Za-z_/]+" | head -1)
    (cd /tmp/demo-$NAME && env $TZV timeout 1500 go run $RACE . $ARGS 2>&1 | tail -3; echo "exit=$?")
  else
    cp $OUT/demo/*_test.go $WT/$PKG/
    (cd $WT && timeout 1500 go test $GOTESTFLAGS -vet=off -count=1 -run "$RX" ./$PKG/ 2>&1 | tail -3)
  fi
}
W=$(run | tr '\n' ' ' | cut -c1-400)
git -C $WT apply -R $OUT/patch.diff
P=$(run | tr '\n' ' ' | cut -c1-400)
python3 - "$NAME" "$W" "$P" <<'PY'
import json,sys
p='/verif/seeded/%s/meta.json'%sys.argv[1]; m=json.load(open(p))
m.setdefault('verification',{})['demo_confirmed']={'with_patch':sys.argv[2],'without_patch':sys.argv[3],'by':'maintainer run in scratch worktree'}
json.dump(m,open(p,'w'),indent=1)
PY
echo "WITH: $W"; echo "WITHOUT: $P"
rm -rf /tmp/demo-$NAME; git -C /repo worktree remove --force $WT
