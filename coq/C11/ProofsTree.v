(* C11 — the round trip by nested induction over object trees. *)
From Coq Require Import NArith ZArith List Bool Lia ZifyBool ZifyNat ZifyN.
From PV Require Import Lib.GoInt C11.Model C11.ProofsLex C11.ProofsLeaf C11.ProofsUnfold.
Import ListNotations.
Open Scope N_scope.
Ltac Zify.zify_post_hook ::= Z.div_mod_to_equations.

(* ------------------------------------------------------------------ nested induction principle *)

Section ObjInd.
  Variable P : obj -> Prop.
  Hypothesis Hnull : P ONull.
  Hypothesis Hbool : forall b, P (OBool b).
  Hypothesis Hint : forall z, P (OInt z).
  Hypothesis Hreal : forall n m e, P (OReal n m e).
  Hypothesis Hname : forall s, P (OName s).
  Hypothesis Hstr : forall s, P (OStr s).
  Hypothesis Hhex : forall s, P (OHex s).
  Hypothesis Href : forall a b, P (ORef a b).
  Hypothesis Harr : forall l, Forall P l -> P (OArr l).
  Hypothesis Hdict : forall d, Forall (fun kv => P (snd kv)) d -> P (ODict d).

  Fixpoint obj_ind2 (o : obj) : P o :=
    match o with
    | ONull => Hnull
    | OBool b => Hbool b
    | OInt z => Hint z
    | OReal n m e => Hreal n m e
    | OName s => Hname s
    | OStr s => Hstr s
    | OHex s => Hhex s
    | ORef a b => Href a b
    | OArr l => Harr l ((fix go (l : list obj) : Forall P l :=
                           match l with
                           | [] => Forall_nil _
                           | x :: t => Forall_cons x (obj_ind2 x) (go t)
                           end) l)
    | ODict d => Hdict d ((fix go (d : list (bytes * obj)) : Forall (fun kv => P (snd kv)) d :=
                             match d with
                             | [] => Forall_nil _
                             | kv :: t => Forall_cons kv (obj_ind2 (snd kv)) (go t)
                             end) d)
    end.
End ObjInd.

(* ------------------------------------------------------------------ the printers, unfolded *)

Fixpoint items_S (first : bool) (l : list obj) : bytes :=
  match l with
  | [] => [93]
  | x :: t => (if first then [] else if arr_sep_S x then [32] else []) ++ print_S x ++ items_S false t
  end.
Fixpoint ents_S (d : list (bytes * obj)) : bytes :=
  match d with
  | [] => [62; 62]
  | (k, v) :: t => 47 :: encode_name k ++ (if dict_sep_S v then [32] else []) ++ print_S v ++ ents_S t
  end.

Lemma print_S_arr : forall l, print_S (OArr l) = 91 :: items_S true l.
Proof. intros. reflexivity. Qed.

Lemma print_S_dict : forall d, print_S (ODict d) = 60 :: 60 :: ents_S d.
Proof. intros. reflexivity. Qed.

Fixpoint items_A (first : bool) (l : list obj) : bytes :=
  match l with
  | [] => [93]
  | x :: t => (if negb first && arr_sep_A x then [32] else []) ++ print_A x ++ items_A false t
  end.
Fixpoint ents_A (d : list (bytes * obj)) : bytes :=
  match d with
  | [] => [62; 62]
  | (k, v) :: t => 47 :: encode_name k ++ (if dict_sep_A v then [32] else []) ++ print_A v ++ ents_A t
  end.

Lemma print_A_arr : forall l, print_A (OArr l) = 91 :: items_A true l.
Proof. intros. reflexivity. Qed.

Lemma print_A_dict : forall d, print_A (ODict d) = 60 :: 60 :: ents_A d.
Proof. intros. reflexivity. Qed.

(* the two printers write the same bytes *)
Lemma print_A_S : forall o, print_A o = print_S o.
Proof.
  induction o as [| | | | | | | |l IH|d IH] using obj_ind2; try reflexivity.
  - rewrite print_A_arr, print_S_arr. f_equal. generalize true.
    induction IH as [|x t Hx _ IHt]; intros b; [reflexivity|].
    cbn [items_A items_S]. rewrite Hx, IHt.
    destruct b; [reflexivity|]. cbn [negb andb]. destruct x; reflexivity.
  - rewrite print_A_dict, print_S_dict. do 2 f_equal.
    induction IH as [|[k v] t Hv _ IHt]; [reflexivity|].
    cbn [ents_A ents_S]. cbn [snd] in Hv. rewrite Hv, IHt. destruct v; reflexivity.
Qed.

(* ------------------------------------------------------------------ first bytes *)

Definition firstc (c : N) : bool := plain c && negb (c =? 82) && negb (c =? 93) && negb (c =? 62).

Lemma print_first : forall o, exists c t, print_S o = c :: t /\ firstc c = true
  /\ (arr_sep_S o = false -> in_set set_num2 c = true)
  /\ (dict_sep_S o = false -> in_set set_num2 c = true).
Proof.
  intros o. destruct o as [|b|z|n m e|s|s|s|a b|l|d].
  - exists 110, [117; 108; 108]. repeat split; discriminate.
  - destruct b; [exists 116, [114; 117; 101]|exists 102, [97; 108; 115; 101]]; repeat split; discriminate.
  - destruct (itoa_shape z) as (c & t & E & Hc & _). exists c, t. cbn [print_S].
    repeat split; try assumption; try discriminate.
    unfold firstc, plain. unfold is_digit in Hc. lia.
  - destruct (print_real_shape n m) as (c & pre & fp & E & Hc & _). exists c, (pre ++ 46 :: fp).
    cbn [print_S]. repeat split; try assumption; try discriminate.
    unfold firstc, plain. unfold is_digit in Hc. lia.
  - exists 47, (match s with [] => [32] | _ => encode_name s end). repeat split; reflexivity.
  - exists 40, (s ++ [41]). repeat split; reflexivity.
  - exists 60, (s ++ [62]). repeat split; reflexivity.
  - destruct (itoa_shape a) as (c & t & E & Hc & _). exists c, (t ++ 32 :: itoa b ++ [32; 82]).
    cbn [print_S]. rewrite E. repeat split; try discriminate.
    unfold firstc, plain. unfold is_digit in Hc. lia.
  - rewrite print_S_arr. exists 91, (items_S true l). repeat split; reflexivity.
  - rewrite print_S_dict. exists 60, (60 :: ents_S d). repeat split; reflexivity.
Qed.

Lemma firstc_plain : forall c, firstc c = true -> plain c = true.
Proof.
  intros c H. unfold firstc in H. apply andb_true_iff in H. destruct H as [H _].
  apply andb_true_iff in H. destruct H as [H _]. apply andb_true_iff in H. destruct H as [H _]. exact H.
Qed.

(* ------------------------------------------------------------------ follow *)

Lemma follow_nil : follow [] = true.
Proof. reflexivity. Qed.

Lemma follow_delim : forall c t, in_set set_num2 c = true -> follow (c :: t) = true.
Proof.
  intros c t Hc. unfold follow. destruct (plain_num2 c Hc) as [Hp Hn].
  apply andb_true_iff. split; [apply andb_true_iff; split|].
  - unfold tok_end. rewrite Hc. apply orb_true_r.
  - unfold no_ref. rewrite (delimiter_num2 c Hc). reflexivity.
  - unfold no_R. rewrite trim_plain by exact Hp. lia.
Qed.

(* a token that is not an integer, behind a blank: the look-ahead gives up *)
Lemma lookahead_tok : forall c p cont,
  plain c = true -> Forall (tokch (in_set set_num2)) (c :: p) ->
  (forall q, atoi (c :: p ++ q) = ASyntax \/ atoi (c :: p ++ q) = ARange) ->
  lookahead (32 :: (c :: p) ++ cont) = None.
Proof.
  intros c p cont Hc Htok Hat. unfold lookahead. cbn [app]. rewrite trim_sp_plain by exact Hc.
  change (c :: p ++ cont) with ((c :: p) ++ cont). rewrite tok_split_app by exact Htok.
  destruct (tok_split (in_set set_num2) cont) as [[p' s]|]; [|reflexivity].
  cbn [app]. destruct s as [|c2 s']; [reflexivity|].
  destruct (delimiter c2); [reflexivity|].
  destruct (Hat p') as [-> | ->]; reflexivity.
Qed.

Lemma toks_of_letters : forall l, forallb (fun c => (97 <=? c) && (c <=? 122)) l = true ->
  Forall (tokch (in_set set_num2)) l.
Proof.
  induction l as [|c t IH]; intros H; [constructor|].
  cbn [forallb] in H. apply andb_true_iff in H. destruct H as [Hc Ht].
  constructor; [|apply IH; exact Ht]. split; [lia|].
  unfold in_set, set_num2. cbn [existsb]. lia.
Qed.

Lemma lookahead_word : forall c p cont,
  forallb (fun c => (97 <=? c) && (c <=? 122)) (c :: p) = true ->
  lookahead (32 :: (c :: p) ++ cont) = None.
Proof.
  intros c p cont H. pose proof H as H'. cbn [forallb] in H'. apply andb_true_iff in H'. destruct H' as [Hc _].
  apply lookahead_tok.
  - unfold plain. lia.
  - apply toks_of_letters. exact H.
  - intros q. left. apply atoi_letter; [unfold is_digit; lia|lia|lia].
Qed.

Lemma lookahead_open : forall c t, in_set set_num2 c = true -> lookahead (32 :: c :: t) = None.
Proof.
  intros c t Hc. unfold lookahead. destruct (plain_num2 c Hc) as [Hp _].
  rewrite trim_sp_plain by exact Hp.
  rewrite tok_split_end; [reflexivity|exact sub_num2|].
  unfold endch. rewrite Hc. apply orb_true_r.
Qed.

Lemma follow_sp_print : forall o cont, wf o = true -> arr_sep_S o = true -> follow cont = true ->
  follow (32 :: print_S o ++ cont) = true.
Proof.
  intros o cont Hwf Hsep Hf.
  destruct (print_first o) as (c & t & E & Hfc & _ & _).
  pose proof (firstc_plain c Hfc) as Hp.
  unfold follow. apply andb_true_iff. split; [apply andb_true_iff; split|].
  - reflexivity.
  - unfold no_ref. change (delimiter 32) with false. cbn [orb].
    assert (Hl : lookahead (32 :: print_S o ++ cont) = None); [|rewrite Hl; reflexivity].
    destruct o as [|b|z|n m e|s|s|s|a b|l|d]; try discriminate Hsep.
    + apply (lookahead_word 110 [117; 108; 108]). reflexivity.
    + destruct b; [apply (lookahead_word 116 [114; 117; 101])|apply (lookahead_word 102 [97; 108; 115; 101])]; reflexivity.
    + (* int *)
      cbn [print_S wf] in *. unfold follow in Hf.
      apply andb_true_iff in Hf. destruct Hf as [Hf HnR].
      apply andb_true_iff in Hf. destruct Hf as [Hend _].
      unfold lookahead. rewrite E. cbn [app]. rewrite trim_sp_plain by exact Hp.
      change (c :: t ++ cont) with ((c :: t) ++ cont). rewrite <- E.
      rewrite tok_split_tok; [|exact sub_num2|apply numch_toks; [apply itoa_numch|auto]|exact Hend].
      destruct cont as [|c2 cont']; [reflexivity|].
      rewrite E. destruct (delimiter c2); [reflexivity|]. rewrite <- E.
      rewrite atoi_itoa by exact Hwf.
      unfold no_R in HnR. destruct (trim (c2 :: cont')) as [|cr tr]; [reflexivity|].
      destruct (cr =? 82); [discriminate|reflexivity].
    + (* real *)
      cbn [print_S] in *.
      destruct (print_real_shape n m) as (c0 & pre & fp & E' & Hc0 & Hpre & Hfp & _).
      rewrite E'. change (c0 :: pre ++ 46 :: fp) with (c0 :: (pre ++ 46 :: fp)).
      apply lookahead_tok.
      * unfold plain. unfold is_digit in Hc0. lia.
      * rewrite <- E'. apply numch_toks; [apply print_real_numch|auto].
      * intros q. rewrite <- app_assoc. cbn [app]. apply atoi_bad. reflexivity.
    + apply lookahead_open. reflexivity.
    + apply lookahead_open. reflexivity.
    + (* ref *)
      cbn [print_S wf] in *. apply andb_true_iff in Hwf. destruct Hwf as [Ha Hb].
      destruct (itoa_shape a) as (ca & ta & Ea & Hca & _).
      assert (Hpa : plain ca = true) by (unfold plain, is_digit in *; lia).
      unfold lookahead. rewrite <- app_assoc. rewrite Ea at 1. cbn [app]. rewrite trim_sp_plain by exact Hpa.
      change (ca :: ta ++ 32 :: (itoa b ++ [32; 82]) ++ cont) with ((ca :: ta) ++ 32 :: (itoa b ++ [32; 82]) ++ cont).
      rewrite <- Ea.
      rewrite tok_split_tok; [|exact sub_num2|apply numch_toks; [apply itoa_numch|auto]|reflexivity].
      rewrite Ea at 1. change (delimiter 32) with false. cbv iota.
      rewrite atoi_itoa by exact Ha.
      destruct (itoa_shape b) as (c' & t' & E2 & Hc' & _). rewrite E2. cbn [app].
      rewrite trim_sp_plain by (unfold plain, is_digit in *; lia).
      unfold is_digit in Hc'. assert (c' =? 82 = false) as -> by lia. reflexivity.
  - unfold no_R. rewrite E. cbn [app]. rewrite trim_sp_plain by exact Hp.
    unfold firstc in Hfc. lia.
Qed.

(* ------------------------------------------------------------------ parse_obj on the leaf kinds *)

Lemma depth_nonneg : forall o, (0 <= depth o)%Z.
Proof.
  destruct o; cbn [depth]; try lia.
  - induction l as [|x t IH]; cbn [fold_right]; lia.
  - induction d as [|x t IH]; cbn [fold_right]; lia.
Qed.

Definition fuel_ok (f : nat) (l : bytes) : Prop := (2 * length l + 1 <= f)%nat.

Lemma parse_obj_other : forall f relaxed maxd level c t,
  plain c = true -> (level <= eff_depth maxd)%Z ->
  c <> 91 -> c <> 47 -> c <> 60 -> c <> 40 ->
  parse_obj (S f) relaxed maxd level (c :: t) =
  match bool_or_null (c :: t) with
  | Some (v, r) => POk v r
  | None => let '(v, r) := parse_numeric (c :: t) in POk v r
  end.
Proof.
  intros f relaxed maxd level c t Hp Hl H1 H2 H3 H4. rewrite parse_obj_eq.
  assert ((eff_depth maxd <? level)%Z = false) as -> by lia.
  rewrite trim_plain by exact Hp.
  assert (c =? 91 = false) as -> by lia. assert (c =? 47 = false) as -> by lia.
  assert (c =? 60 = false) as -> by lia. assert (c =? 40 = false) as -> by lia. reflexivity.
Qed.

Lemma parse_obj_numeric : forall f relaxed maxd level c t,
  (is_digit c = true \/ c = 45) -> (level <= eff_depth maxd)%Z ->
  parse_obj (S f) relaxed maxd level (c :: t) = let '(v, r) := parse_numeric (c :: t) in POk v r.
Proof.
  intros f relaxed maxd level c t Hc Hl.
  rewrite parse_obj_other; try (unfold plain, is_digit in *; lia).
  rewrite bool_or_null_num by exact Hc. reflexivity.
Qed.

(* ------------------------------------------------------------------ the main induction *)

Definition rt_stmt (o : obj) : Prop :=
  wf o = true ->
  forall f relaxed maxd level rest,
    (level + depth o <= eff_depth maxd)%Z -> follow rest = true -> fuel_ok f (print_S o ++ rest) ->
    parse_obj f relaxed maxd level (print_S o ++ rest) = POk (norm o) (residue o ++ rest).

Lemma follow_tok_end : forall rest, follow rest = true -> tok_end rest = true.
Proof.
  intros rest H. unfold follow in H. apply andb_true_iff in H. destruct H as [H _].
  apply andb_true_iff in H. destruct H as [H _]. exact H.
Qed.

Lemma fuel_S : forall f l, fuel_ok f l -> exists f', f = S f'.
Proof. intros f l H. unfold fuel_ok in H. destruct f; [lia|eauto]. Qed.

Lemma rt_leaf_null : rt_stmt ONull.
Proof.
  intros _ f relaxed maxd level rest Hd _ Hfu. destruct (fuel_S _ _ Hfu) as [f' ->].
  cbn [print_S depth] in *. unfold s_null. cbn [app].
  rewrite parse_obj_other; try (unfold plain; lia). reflexivity.
Qed.

Lemma rt_leaf_bool : forall b, rt_stmt (OBool b).
Proof.
  intros b _ f relaxed maxd level rest Hd _ Hfu. destruct (fuel_S _ _ Hfu) as [f' ->].
  cbn [print_S depth] in *. destruct b; unfold s_true, s_false; cbn [app];
    (rewrite parse_obj_other; try (unfold plain; lia)); reflexivity.
Qed.

Lemma rt_leaf_int : forall z, rt_stmt (OInt z).
Proof.
  intros z Hwf f relaxed maxd level rest Hd Hfo Hfu. destruct (fuel_S _ _ Hfu) as [f' ->].
  cbn [print_S depth wf] in *.
  destruct (itoa_shape z) as (c & t & E & Hc & _).
  rewrite E. cbn [app]. rewrite parse_obj_numeric; [|exact Hc|lia].
  change (c :: t ++ rest) with ((c :: t) ++ rest). rewrite <- E.
  rewrite parse_numeric_int by assumption. reflexivity.
Qed.

Lemma rt_leaf_real : forall n m e, rt_stmt (OReal n m e).
Proof.
  intros n m e Hwf f relaxed maxd level rest Hd Hfo Hfu. destruct (fuel_S _ _ Hfu) as [f' ->].
  cbn [print_S depth wf norm residue] in *.
  apply andb_true_iff in Hwf. destruct Hwf as [He Hm]. apply Z.eqb_eq in He. subst e.
  destruct (print_real_shape n m) as (c & pre & fp & E & Hc & _).
  rewrite E. cbn [app]. rewrite parse_obj_numeric; [|exact Hc|lia].
  change (c :: (pre ++ 46 :: fp) ++ rest) with ((c :: pre ++ 46 :: fp) ++ rest). rewrite <- E.
  rewrite parse_numeric_real; [reflexivity|exact Hm|apply follow_tok_end; exact Hfo].
Qed.

Lemma rt_leaf_ref : forall a b, rt_stmt (ORef a b).
Proof.
  intros a b Hwf f relaxed maxd level rest Hd Hfo Hfu. destruct (fuel_S _ _ Hfu) as [f' ->].
  cbn [print_S depth wf norm residue] in *.
  apply andb_true_iff in Hwf. destruct Hwf as [Ha Hb].
  destruct (itoa_shape a) as (c & t & E & Hc & _).
  rewrite <- app_assoc. rewrite E at 1. cbn [app]. rewrite parse_obj_numeric; [|exact Hc|lia].
  change (c :: t ++ 32 :: (itoa b ++ [32; 82]) ++ rest) with ((c :: t) ++ 32 :: (itoa b ++ [32; 82]) ++ rest).
  rewrite <- E. rewrite <- app_assoc. cbn [app].
  rewrite parse_numeric_ref by assumption. reflexivity.
Qed.

Lemma rt_leaf_name : forall s, rt_stmt (OName s).
Proof.
  intros s Hwf f relaxed maxd level rest Hd Hfo Hfu. destruct (fuel_S _ _ Hfu) as [f' ->].
  cbn [print_S depth wf norm] in *.
  assert (E : exists t, print_name s = 47 :: t) by (unfold print_name; eauto).
  destruct E as [t E]. rewrite E. cbn [app]. rewrite parse_obj_eq.
  assert ((eff_depth maxd <? level)%Z = false) as -> by lia.
  rewrite trim_plain by reflexivity.
  change (47 =? 91) with false. change (47 =? 47) with true. cbv iota.
  change (47 :: t ++ rest) with ((47 :: t) ++ rest). rewrite <- E.
  cbv zeta. rewrite parse_name_print; [reflexivity|exact Hwf|apply follow_tok_end; exact Hfo].
Qed.

Lemma rt_leaf_str : forall s, rt_stmt (OStr s).
Proof.
  intros s Hwf f relaxed maxd level rest Hd Hfo Hfu. destruct (fuel_S _ _ Hfu) as [f' ->].
  cbn [print_S depth wf norm residue] in *. cbn [app]. rewrite <- app_assoc. cbn [app]. rewrite parse_obj_eq.
  assert ((eff_depth maxd <? level)%Z = false) as -> by lia.
  rewrite trim_plain by reflexivity.
  change (40 =? 91) with false. change (40 =? 47) with false. change (40 =? 60) with false.
  change (40 =? 40) with true. cbv iota.
  apply parse_strlit_print. exact Hwf.
Qed.

Lemma rt_leaf_hex : forall s, rt_stmt (OHex s).
Proof.
  intros s Hwf f relaxed maxd level rest Hd Hfo Hfu. destruct (fuel_S _ _ Hfu) as [f' ->].
  cbn [print_S depth wf norm residue] in *. cbn [app]. rewrite <- app_assoc. cbn [app]. rewrite parse_obj_eq.
  assert ((eff_depth maxd <? level)%Z = false) as -> by lia.
  rewrite trim_plain by reflexivity.
  change (60 =? 91) with false. change (60 =? 47) with false. change (60 =? 60) with true. cbv iota.
  assert (Hd2 : exists d t2, s ++ 62 :: rest = d :: t2 /\ d <> 60).
  { destruct s as [|c t]; cbn [app]; [exists 62, rest; split; [reflexivity|lia]|].
    exists c, (t ++ 62 :: rest). split; [reflexivity|].
    cbn [forallb] in Hwf. apply andb_true_iff in Hwf. destruct Hwf as [Hc _].
    destruct (is_hex_range c Hc) as (Hr & _ & _). unfold is_hex, hex_upper in Hc.
    destruct ((48 <=? c) && (c <=? 57)) eqn:E1; [lia|].
    destruct ((65 <=? c) && (c <=? 70)) eqn:E2; [lia|].
    destruct ((97 <=? c) && (c <=? 102)) eqn:E3; [lia|discriminate]. }
  destruct Hd2 as (d & t2 & E & Hne). rewrite E.
  assert (d =? 60 = false) as -> by lia. rewrite <- E.
  apply parse_hexlit_print. exact Hwf.
Qed.

(* ---- arrays *)

Definition sepnext (t : list obj) : bytes :=
  match t with y :: _ => if arr_sep_S y then [32] else [] | [] => [] end.
Fixpoint items_body (l : list obj) : bytes :=
  match l with
  | [] => [93]
  | x :: t => print_S x ++ sepnext t ++ items_body t
  end.

Lemma items_S_body : forall l, items_S true l = items_body l.
Proof.
  assert (H : forall l, items_S false l = sepnext l ++ items_body l).
  { induction l as [|x t IH]; [reflexivity|].
    cbn [items_S items_body sepnext]. rewrite IH. rewrite <- ?app_assoc. reflexivity. }
  intros l. destruct l as [|x t]; [reflexivity|].
  cbn [items_S items_body]. rewrite H. reflexivity.
Qed.

Lemma items_body_first : forall l rest, exists c t, items_body l ++ rest = c :: t /\ plain c = true.
Proof.
  intros l rest. destruct l as [|x l'].
  - exists 93, rest. split; reflexivity.
  - cbn [items_body]. destruct (print_first x) as (c & t & E & Hc & _). rewrite E.
    exists c, (t ++ (sepnext l' ++ items_body l') ++ rest). split; [rewrite <- !app_assoc; reflexivity|].
    apply firstc_plain. exact Hc.
Qed.

Lemma follow_items : forall t rest, forallb wf t = true -> follow (sepnext t ++ items_body t ++ rest) = true.
Proof.
  induction t as [|y t' IH]; intros rest Hwf.
  - cbn [sepnext items_body app]. apply follow_delim. reflexivity.
  - cbn [forallb] in Hwf. apply andb_true_iff in Hwf. destruct Hwf as [Hy Ht'].
    cbn [sepnext items_body]. destruct (arr_sep_S y) eqn:Es.
    + cbn [app]. rewrite <- app_assoc. apply follow_sp_print; [exact Hy|exact Es|].
      rewrite <- app_assoc. apply IH. exact Ht'.
    + cbn [app]. destruct (print_first y) as (c & t & E & _ & Hdel & _). rewrite E. cbn [app].
      apply follow_delim. apply Hdel. exact Es.
Qed.

(* white space left over by the element, then the separator, then a plain byte *)
Lemma trim_blanks : forall c t, plain c = true ->
  trim (c :: t) = c :: t /\ trim (32 :: c :: t) = c :: t /\ trim (32 :: 32 :: c :: t) = c :: t.
Proof.
  intros c t Hp. repeat split.
  - apply trim_plain. exact Hp.
  - apply trim_sp_plain. exact Hp.
  - unfold trim, trim_left_space. cbn [tls]. rewrite !cls_32. cbn [tls]. rewrite (cls_plain c Hp). reflexivity.
Qed.

Lemma max_fold_le : forall (l : list obj) x, In x l ->
  (depth x <= fold_right (fun x a => Z.max (depth x) a) 0%Z l)%Z.
Proof.
  induction l as [|y t IH]; intros x Hin; [contradiction|].
  cbn [fold_right]. destruct Hin as [-> | Hin]; [lia|]. specialize (IH x Hin). lia.
Qed.

Lemma arr_loop : forall l, Forall rt_stmt l -> forallb wf l = true ->
  forall f relaxed maxd level rest acc,
    (forall x, In x l -> (level + 1 + depth x <= eff_depth maxd)%Z) ->
    (2 * length (items_body l ++ rest) + 2 <= f)%nat ->
    parse_arr f relaxed maxd level (items_body l ++ rest) acc = POk (OArr (rev acc ++ map norm l)) rest.
Proof.
  induction l as [|x t IH]; intros HP Hwf f relaxed maxd level rest acc Hdep Hfu.
  - destruct f as [|f]; [lia|]. rewrite parse_arr_eq. cbn [items_body app map].
    change (93 =? 93) with true. cbv iota. rewrite app_nil_r. reflexivity.
  - destruct f as [|f]; [cbn [length] in Hfu; lia|].
    inversion HP as [|? ? Hx Ht]; subst.
    cbn [forallb] in Hwf. apply andb_true_iff in Hwf. destruct Hwf as [Hwx Hwt].
    rewrite parse_arr_eq. cbn [items_body]. rewrite <- !app_assoc.
    destruct (print_first x) as (c & u & E & Hfc & _ & _).
    assert (Hc93 : c =? 93 = false) by (unfold firstc in Hfc; lia).
    rewrite E at 1. cbn [app]. rewrite Hc93.
    assert (Hlen : length (print_S x ++ sepnext t ++ items_body t ++ rest) =
                   (length (print_S x) + length (sepnext t) + length (items_body t ++ rest))%nat).
    { rewrite !app_length. lia. }
    assert (Hpl : (1 <= length (print_S x))%nat) by (rewrite E; cbn [length]; lia).
    cbn [items_body] in Hfu. rewrite <- !app_assoc in Hfu.
    rewrite Hx; [|exact Hwx|apply Hdep; left; reflexivity|apply follow_items; exact Hwt|unfold fuel_ok; lia].
    (* what is left: residue, separator, the other items *)
    destruct (items_body_first t rest) as (c2 & u2 & E2 & Hp2).
    assert (Htrim : exists sp, residue x ++ sepnext t ++ items_body t ++ rest = sp ++ c2 :: u2
              /\ (sp = [] \/ sp = [32] \/ sp = [32; 32])).
    { exists (residue x ++ sepnext t). split; [rewrite E2, <- app_assoc; reflexivity|].
      assert (Hr : residue x = [] \/ residue x = [32]).
      { unfold residue. destruct x; auto. destruct s; auto. }
      assert (Hs : sepnext t = [] \/ sepnext t = [32]).
      { unfold sepnext. destruct t as [|y t']; auto. destruct (arr_sep_S y); auto. }
      destruct Hr as [-> | ->], Hs as [-> | ->]; cbn [app]; auto. }
    destruct Htrim as (sp & Esp & Hsp). rewrite Esp.
    destruct (trim_blanks c2 u2 Hp2) as (T0 & T1 & T2).
    assert (Hres : (length (residue x) <= 1)%nat).
    { unfold residue. destruct x as [| | | |s| | | | |]; cbn [length]; try lia. destruct s; cbn [length]; lia. }
    assert (Hnext : parse_arr f relaxed maxd level (items_body t ++ rest) (norm x :: acc)
                    = POk (OArr (rev acc ++ map norm (x :: t))) rest).
    { rewrite IH; [|exact Ht|exact Hwt|intros y Hy; apply Hdep; right; exact Hy|lia].
      cbn [rev map]. rewrite <- app_assoc. reflexivity. }
    rewrite E2 in Hnext.
    destruct Hsp as [-> | [-> | ->]]; cbn [app]; rewrite ?T0, ?T1, ?T2; exact Hnext.
Qed.

Lemma rt_arr : forall l, Forall rt_stmt l -> rt_stmt (OArr l).
Proof.
  intros l HP Hwf f relaxed maxd level rest Hd _ Hfu. destruct (fuel_S _ _ Hfu) as [f' ->].
  cbn [wf norm residue] in *. rewrite print_S_arr, items_S_body in *. cbn [app] in *.
  rewrite parse_obj_eq.
  assert (Hd0 : (0 <= fold_right (fun x a => Z.max (depth x) a) 0 l)%Z).
  { clear. induction l; cbn [fold_right]; lia. }
  cbn [depth] in Hd.
  assert ((eff_depth maxd <? level)%Z = false) as -> by lia.
  rewrite trim_plain by reflexivity. change (91 =? 91) with true. cbv iota.
  destruct (items_body_first l rest) as (c & u & E & Hp). rewrite E.
  rewrite trim_plain by exact Hp. rewrite <- E.
  rewrite arr_loop; [reflexivity|exact HP|exact Hwf| |].
  - intros x Hx. pose proof (max_fold_le l x Hx). lia.
  - unfold fuel_ok in Hfu. cbn [length] in Hfu. lia.
Qed.

(* ---- dictionaries *)

Definition normd (d : list (bytes * obj)) : list (bytes * obj) :=
  flat_map (fun kv => if is_null (snd kv) then [] else [(fst kv, norm (snd kv))]) d.

Lemma bytes_eqb_eq : forall a b, bytes_eqb a b = true <-> a = b.
Proof.
  induction a as [|x a IH]; intros b; destruct b as [|y b]; cbn [bytes_eqb]; split; intros H; try reflexivity; try discriminate.
  - apply andb_true_iff in H. destruct H as [H1 H2]. apply N.eqb_eq in H1. apply IH in H2. subst. reflexivity.
  - inversion H; subst. rewrite N.eqb_refl. cbn [andb]. apply IH. reflexivity.
Qed.

Lemma dict_insert_new : forall k v d, ~ In k (map fst d) -> dict_insert k v d = d ++ [(k, v)].
Proof.
  induction d as [|[k' v'] t IH]; intros Hn; [reflexivity|].
  cbn [dict_insert]. destruct (bytes_eqb k k') eqn:E.
  - apply bytes_eqb_eq in E. subst. exfalso. apply Hn. left. reflexivity.
  - cbn [app]. rewrite IH; [reflexivity|]. intros Hin. apply Hn. right. exact Hin.
Qed.

Lemma is_null_norm : forall v, is_null (norm v) = is_null v.
Proof. destruct v; reflexivity. Qed.

Lemma ents_first : forall d rest, exists a b t, ents_S d ++ rest = a :: b :: t /\ in_set set_num2 a = true.
Proof.
  intros d rest. destruct d as [|[k v] t].
  - exists 62, 62, rest. split; reflexivity.
  - cbn [ents_S app].
    assert (H : exists b t', (encode_name k ++ (if dict_sep_S v then [32] else []) ++ print_S v ++ ents_S t) ++ rest = b :: t').
    { destruct (print_first v) as (c & u & E & _). rewrite E.
      destruct (encode_name k) as [|e es]; [destruct (dict_sep_S v)|]; cbn [app]; eauto. }
    destruct H as (b & t' & E). rewrite E. exists 47, b, t'. split; reflexivity.
Qed.

Lemma nodup_not_in : forall k v t, nodup_keys ((k, v) :: t) = true -> ~ In k (map fst t) /\ nodup_keys t = true.
Proof.
  intros k v t H. cbn [nodup_keys] in H. apply andb_true_iff in H. destruct H as [H1 H2].
  split; [|exact H2]. intros Hin. apply negb_true_iff in H1.
  assert (existsb (fun kv => bytes_eqb k (fst kv)) t = true); [|congruence].
  apply existsb_exists. apply in_map_iff in Hin. destruct Hin as ([k' v'] & Ek & Hin).
  exists (k', v'). split; [exact Hin|]. cbn [fst] in *. subst. apply bytes_eqb_eq. reflexivity.
Qed.

Lemma dict_loop : forall d, Forall (fun kv => rt_stmt (snd kv)) d ->
  forallb (fun kv => name_wf (fst kv) && wf (snd kv)) d = true -> nodup_keys d = true ->
  forall f relaxed maxd level rest d0,
    (forall kv, In kv d -> (level + 1 + depth (snd kv) <= eff_depth maxd)%Z) ->
    (forall k, In k (map fst d0) -> ~ In k (map fst d)) ->
    (2 * length (ents_S d ++ rest) + 2 <= f)%nat ->
    parse_dict f relaxed maxd level (ents_S d ++ rest) d0 = POk (ODict (d0 ++ normd d)) rest.
Proof.
  induction d as [|[k v] t IH]; intros HP Hwf Hnd f relaxed maxd level rest d0 Hdep Hdis Hfu.
  - destruct f as [|f]; [lia|]. rewrite parse_dict_eq. cbn [ents_S app normd flat_map].
    change (62 =? 62) with true. cbn [andb tl]. rewrite app_nil_r. reflexivity.
  - destruct f as [|f]; [cbn [length] in Hfu; lia|].
    inversion HP as [|? ? Hv Ht]; subst. cbn [snd] in Hv.
    cbn [forallb fst snd] in Hwf. apply andb_true_iff in Hwf. destruct Hwf as [Hkv Hwt].
    apply andb_true_iff in Hkv. destruct Hkv as [Hk Hwv].
    destruct (nodup_not_in k v t Hnd) as [Hknew Hndt].
    rewrite parse_dict_eq. cbn [ents_S app]. change (47 =? 62) with false. cbn [andb].
    (* key *)
    destruct (print_first v) as (c & u & E & Hfc & _ & Hdsep).
    pose proof (firstc_plain c Hfc) as Hpc.
    assert (Hend : tok_end (((if dict_sep_S v then [32] else []) ++ print_S v ++ ents_S t) ++ rest) = true).
    { destruct (dict_sep_S v) eqn:Es; [reflexivity|]. rewrite E. cbn [app]. unfold tok_end.
      rewrite (Hdsep eq_refl). apply orb_true_r. }
    rewrite <- app_assoc. rewrite parse_name_enc by assumption.
    assert (Htls : trim_left_space relaxed (((if dict_sep_S v then [32] else []) ++ print_S v ++ ents_S t) ++ rest)
                   = (print_S v ++ ents_S t ++ rest, false)).
    { unfold trim_left_space. rewrite <- !app_assoc. rewrite E.
      destruct (dict_sep_S v); cbn [app]; [apply tls_sp_plain|apply tls_plain]; exact Hpc. }
    rewrite Htls. rewrite E at 1. cbn [app].
    assert (Hpl : (1 <= length (print_S v))%nat) by (rewrite E; cbn [length]; lia).
    cbn [ents_S] in Hfu. rewrite !app_length in Hfu. cbn [length] in Hfu. rewrite !app_length in Hfu.
    destruct (ents_first t rest) as (a & b & tl' & E2 & Ha).
    rewrite Hv; [|exact Hwv|apply (Hdep (k, v)); left; reflexivity|rewrite E2; apply follow_delim; exact Ha
                 |unfold fuel_ok; rewrite !app_length; lia].
    rewrite is_null_norm.
    destruct (plain_num2 a Ha) as [Hpa _].
    assert (Hres : exists sp, residue v ++ ents_S t ++ rest = sp ++ a :: b :: tl' /\ (sp = [] \/ sp = [32])).
    { exists (residue v). split; [rewrite E2; reflexivity|].
      unfold residue. destruct v; auto. destruct s; auto. }
    destruct Hres as (sp & Esp & Hsp). rewrite Esp.
    assert (Hdis' : forall d1 : list (bytes * obj), (forall k0, In k0 (map fst d1) -> In k0 (map fst d0) \/ k0 = k) ->
              forall k0, In k0 (map fst d1) -> ~ In k0 (map fst t)).
    { intros d1 Hsub k0 Hin Hin2. destruct (Hsub k0 Hin) as [Hold | ->].
      - apply (Hdis k0 Hold). right. exact Hin2.
      - apply Hknew. exact Hin2. }
    assert (Hnext : forall d1 : list (bytes * obj), (forall k0, In k0 (map fst d1) -> In k0 (map fst d0) \/ k0 = k) ->
              parse_dict f relaxed maxd level (a :: b :: tl') d1 = POk (ODict (d1 ++ normd t)) rest).
    { intros d1 Hsub. rewrite <- E2. apply IH; [exact Ht|exact Hwt|exact Hndt| |apply Hdis'; exact Hsub|rewrite app_length; lia].
      intros kv Hin. apply Hdep. right. exact Hin. }
    assert (Hfinal : parse_dict f relaxed maxd level (a :: b :: tl')
                       (if is_null v then d0 else dict_insert k (norm v) d0)
                     = POk (ODict (d0 ++ normd ((k, v) :: t))) rest).
    { assert (En : normd ((k, v) :: t) = (if is_null v then [] else [(k, norm v)]) ++ normd t) by reflexivity.
      rewrite En. destruct (is_null v).
      - cbn [app]. apply Hnext. intros k0 Hin. left. exact Hin.
      - rewrite dict_insert_new by (intros Hin; apply (Hdis k Hin); left; reflexivity).
        rewrite Hnext; [cbn [app]; rewrite <- app_assoc; reflexivity|].
        intros k0 Hin. rewrite map_app in Hin. apply in_app_or in Hin. destruct Hin as [Hin | Hin]; [left; exact Hin|].
        cbn [map fst In] in Hin. destruct Hin as [<- | []]. right. reflexivity. }
    destruct Hsp as [-> | ->]; cbn [app].
    + rewrite trim_plain by exact Hpa. exact Hfinal.
    + rewrite trim_sp_plain by exact Hpa. exact Hfinal.
Qed.

Lemma max_fold_le_d : forall (d : list (bytes * obj)) kv, In kv d ->
  (depth (snd kv) <= fold_right (fun kv a => Z.max (depth (snd kv)) a) 0%Z d)%Z.
Proof.
  induction d as [|y t IH]; intros x Hin; [contradiction|].
  cbn [fold_right]. destruct Hin as [-> | Hin]; [lia|]. specialize (IH x Hin). lia.
Qed.

Lemma rt_dict : forall d, Forall (fun kv => rt_stmt (snd kv)) d -> rt_stmt (ODict d).
Proof.
  intros d HP Hwf f relaxed maxd level rest Hd _ Hfu. destruct (fuel_S _ _ Hfu) as [f' ->].
  cbn [wf residue] in *. apply andb_true_iff in Hwf. destruct Hwf as [Hwf Hnd].
  rewrite print_S_dict in *. cbn [app] in *.
  rewrite parse_obj_eq.
  assert (Hd0 : (0 <= fold_right (fun kv a => Z.max (depth (snd kv)) a) 0 d)%Z).
  { clear. induction d; cbn [fold_right]; lia. }
  cbn [depth] in Hd.
  assert ((eff_depth maxd <? level)%Z = false) as -> by lia.
  rewrite trim_plain by reflexivity.
  change (60 =? 91) with false. change (60 =? 47) with false. change (60 =? 60) with true. cbv iota.
  destruct (ents_first d rest) as (a & b & t & E & Ha). rewrite E.
  destruct (plain_num2 a Ha) as [Hpa _].
  rewrite trim_plain by exact Hpa. rewrite <- E.
  rewrite dict_loop; [reflexivity|exact HP|exact Hwf|exact Hnd| | |].
  - intros kv Hin. pose proof (max_fold_le_d d kv Hin). lia.
  - intros k [].
  - unfold fuel_ok in Hfu. cbn [length] in Hfu. lia.
Qed.

Theorem rt_all : forall o, rt_stmt o.
Proof.
  induction o using obj_ind2.
  - apply rt_leaf_null.
  - apply rt_leaf_bool.
  - apply rt_leaf_int.
  - apply rt_leaf_real.
  - apply rt_leaf_name.
  - apply rt_leaf_str.
  - apply rt_leaf_hex.
  - apply rt_leaf_ref.
  - apply rt_arr. assumption.
  - apply rt_dict. assumption.
Qed.
