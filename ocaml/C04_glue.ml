open Model
open Common
(* wire: oname 0 = "" | 1 = "-" | 2 = a path; pstate 0 absent | 1 regular file | 2 empty dir |
   3 non-empty dir | 4 stat/readdir error other than not-exist; force 0/1; row index hex *)
let oname s = match s with "0" -> NoName | "1" -> Dash | "2" -> Named | _ -> failwith "oname"
let pstate s = match s with "0" -> Absent | "1" -> RegFile | "2" -> EmptyDir | "3" -> NonEmptyDir
  | "4" -> StatErr | _ -> failwith "pstate"
let force s = bool_of_str s
let dec d = match d with Proceed -> "proceed" | Refuse MsgFile -> "refuse-file" | Refuse MsgDir -> "refuse-dir" | Fail -> "fail"
let dispatch fn args = match fn, args with
  | "decide", [i; d; f; j; fo; sd; sf; sj] ->
    (match decide_idx (n_of_hex i) (oname d) (oname f) (oname j) (force fo) (pstate sd) (pstate sf) (pstate sj) with
     | Some x -> dec x | None -> "norow")
  | "guarded", [i] ->
    (match guarded_idx (n_of_hex i) with Some b -> str_of_bool b | None -> "norow")
  | "tablelen", [] -> hex_of_n table_len
  | "file", [n; fo; s] -> dec (ensureOutputFileAvailable (oname n) (force fo) (pstate s))
  | "dir", [n; fo; s] -> dec (ensureOutputDirEmpty (oname n) (force fo) (pstate s))
  | _ -> failwith ("unknown function " ^ fn)
let () = main dispatch
