From Coq Require Import Extraction ExtrOcamlBasic.
From PV Require Import Lib.ExtBase C34.Generated C34.Model.
Extraction "model.ml" ext_base_z ext_base_n ext_base_nat ext_base_res ext_base_list
  getPageNumber get4upPos nup2OutputPageNr nup4OutputPageNr nup4BasicSideFoldOutputPageNr
  nup4BasicTopFoldOutputPageNr nup4AdvancedSideFoldOutputPageNr nupLRTBOutputPageNr nup8OutputPageNr
  nupPerfectBound nupPageNumber getBookletPageOrdering getBookletOrdering nupSlots nupOutputPages.
