(* C02 — Replacing an existing file is atomic at every crash point.
   Property theorems only; each is closed by an exact lemma and followed by Print Assumptions.

   Reading: a run is the sequence of filesystem calls of one staging protocol P (api *File skeleton,
   pdfcpu createStagedFile/finishStagedFile, api.writeCutOutputWith, cli stream output) whose
   destination d exists in the initial filesystem m0, with any body (any list of write chunks, ending in
   Ok / Err / Panic).  `crash_state fresh P chunks fin m0 k` is the filesystem left by a process kill
   after the first k calls (C02/Model.v: every call numbered >= k is ineffective; crash_plan_before /
   crash_plan_after).  `fresh` is any temp-name supply returning unused names. *)
From stdpp Require Import gmap.
From Coq Require Import NArith String List Bool.
From PV Require Import C01.FS C01.FSFacts C01.Model C02.Model C02.Generated C02.Proofs C02.ProofsSites.

(* a call numbered below the cut is performed exactly as in the uninterrupted run … *)
Theorem crash_plan_before : forall A k op p q w (f : gmap positive file -> gmap positive file * (A + errno)),
  wcnt w < k -> call (crash_plan k) op p q w f = call nofault op p q w f.
Proof. intros A. exact (@call_before_crash A). Qed.
Print Assumptions crash_plan_before.

(* … and a call numbered at or above it leaves the filesystem as it is *)
Theorem crash_plan_after : forall A k op p q w (f : gmap positive file -> gmap positive file * (A + errno)),
  k <= wcnt w ->
  call (crash_plan k) op p q w f = Fail EIO (W (wfs w) (S (wcnt w)) (Ev op p q (Some EIO) :: wtr w)).
Proof. intros A. exact (@call_after_crash A). Qed.
Print Assumptions crash_plan_after.

(* replace_crash_atomic: at every cut point the destination holds its complete previous file (bytes and
   mode) or a file whose bytes are the complete new output *)
Theorem replace_crash_atomic : forall fresh,
  (forall m, m !! fresh m = None) ->
  forall P chunks fin m0 d old k,
  proto_ok P fin -> dest_of P = Some d -> m0 !! d = Some old ->
  exists f, crash_state fresh P chunks fin m0 k !! d = Some f /\ (f = old \/ fdata f = concat chunks).
Proof. exact replace_crash_atomic_proof. Qed.
Print Assumptions replace_crash_atomic.

(* crash_leftovers_hidden (model part): the only path that can exist after the cut and did not exist
   before is the name returned by the protocol's CreateTemp call … *)
Theorem crash_leftovers_hidden : forall fresh,
  (forall m, m !! fresh m = None) ->
  forall P chunks fin m0 d old k,
  proto_ok P fin -> dest_of P = Some d -> m0 !! d = Some old ->
  forall p, m0 !! p = None -> is_Some (crash_state fresh P chunks fin m0 k !! p) -> p = fresh m0.
Proof. exact crash_leftovers_hidden_proof. Qed.
Print Assumptions crash_leftovers_hidden.

(* … (source part) and at every staging site of the sources (table regenerated on every run) that name
   is, for every destination and every random suffix, in the directory of the destination and starts
   with ".<base of the destination>.tmp-" *)
Theorem staging_names_hidden :
  forall name s, In (name, s) staging_sites ->
  forall target suffix, exists n, render_site s target suffix = Some n /\ hidden_next_to target n = true.
Proof. exact staging_names_hidden_proof. Qed.
Print Assumptions staging_names_hidden.

Theorem staging_sites_listed :
  map fst staging_sites =
  ["openStagedOutputWithOperations"; "createStreamOutput"; "writeCutOutputWith"; "createStagedFile"]%string.
Proof. exact sites_listed_proof. Qed.
Print Assumptions staging_sites_listed.

(* the functions that open the output of a publish protocol (table regenerated on every run): the destination
   is inspected with os.Stat only (symlinks are followed: mode and existence are those of the resolved file,
   and the NAME is what gets re-bound by the rename), and every open is O_CREATE|O_EXCL without O_TRUNC/O_APPEND:
   no existing path — regular, symlink, device — can be opened for writing by a publish site *)
Theorem publish_sites_exclusive :
  forall name s, In (name, s) publish_sites ->
  (forall k, In k (ps_stats s) -> k = SStat) /\
  (forall fl, In fl (ps_opens s) -> open_exclusive fl = true) /\
  ps_opens s <> [].
Proof. exact publish_sites_exclusive_proof. Qed.
Print Assumptions publish_sites_exclusive.

Theorem publish_sites_listed :
  map fst publish_sites =
  ["createStreamOutput"; "openStagedOutputWithOperations"; "createStagedFile"; "writeCutOutputWith"]%string.
Proof. exact publish_sites_listed_proof. Qed.
Print Assumptions publish_sites_listed.

(* no operation of any protocol ever writes into a pre-existing file: at every cut point every
   pre-existing path other than the destination holds its original file, and the destination holds its
   original file or the complete output *)
Theorem preexisting_never_written : forall fresh,
  (forall m, m !! fresh m = None) ->
  forall P chunks fin m0 d old k,
  proto_ok P fin -> dest_of P = Some d -> m0 !! d = Some old ->
  forall p f, m0 !! p = Some f ->
  exists f', crash_state fresh P chunks fin m0 k !! p = Some f' /\
             (f' = f \/ (p = d /\ fdata f' = concat chunks)).
Proof. exact preexisting_never_written_proof. Qed.
Print Assumptions preexisting_never_written.

(* the same three shapes hold for ANY set of ineffective calls (any fault plan), not only for cuts:
   untouched / untouched + the staging file / untouched except destination := complete output *)
Theorem replace_atomic_any_plan : forall fresh,
  (forall m, m !! fresh m = None) ->
  forall pl P chunks fin m0 tr d old,
  proto_ok P fin -> dest_of P = Some d -> m0 !! d = Some old ->
  allowed m0 (fresh m0) d (concat chunks) (wfs (snd (run_proto pl fresh P chunks fin (W m0 0 tr)))).
Proof. exact any_plan_allowed. Qed.
Print Assumptions replace_atomic_any_plan.

(* preexisting_never_written for ANY plan: whichever calls fail — in particular when creating the staging
   file fails (ENAMETOOLONG for a long output name, unwritable directory) — no protocol ever writes into a
   pre-existing file: there is no fallback that opens the destination itself *)
Theorem preexisting_never_written_any_plan : forall fresh,
  (forall m, m !! fresh m = None) ->
  forall pl P chunks fin m0 tr d old,
  proto_ok P fin -> dest_of P = Some d -> m0 !! d = Some old ->
  forall p f, m0 !! p = Some f ->
  exists f', wfs (snd (run_proto pl fresh P chunks fin (W m0 0 tr))) !! p = Some f' /\
             (f' = f \/ (p = d /\ fdata f' = concat chunks)).
Proof. exact preexisting_never_written_any_plan_proof. Qed.
Print Assumptions preexisting_never_written_any_plan.

(* non-vacuity: an in-place update of path 2 (old bytes 7 7, mode 0600) with output 1 2 —
   cut before anything: old; cut after CreateTemp: old + staging file; cut in the middle of the writes:
   old + partial staging file; no cut: the complete output with the old mode.  And the three other
   protocols reach the published state as well. *)
Definition ex_m0 : gmap positive file := {[ 2%positive := File [7%N; 7%N] 384 ]}.
Definition ex_P := PApi KFlag [2%positive] (Some 2%positive) None.
Definition look (k : nat) (P : proto) (p : positive) : option file :=
  crash_state fresh_path P [[1%N]; [2%N]] COk ex_m0 k !! p.
Example C02_nonvacuous :
  (forall m, m !! fresh_path m = None) /\ proto_ok ex_P CPanic /\ dest_of ex_P = Some 2%positive /\
  (look 0 ex_P 2 = Some (File [7%N; 7%N] 384) /\ look 0 ex_P 3 = None) /\
  (look 3 ex_P 2 = Some (File [7%N; 7%N] 384) /\ look 3 ex_P 3 = Some (File [] mode_tmp)) /\
  (look 5 ex_P 2 = Some (File [7%N; 7%N] 384) /\ look 5 ex_P 3 = Some (File [1%N] 384)) /\
  (look 9 ex_P 2 = Some (File [1%N; 2%N] 384) /\ look 9 ex_P 3 = None) /\
  (look 100 ex_P 2 = Some (File [1%N; 2%N] 384) /\ look 100 ex_P 3 = None) /\
  look 100 (PPdf KFlag None 2) 2 = Some (File [1%N; 2%N] 384) /\
  look 100 (PCut 2) 2 = Some (File [1%N; 2%N] 384) /\
  look 100 (PCli None 2) 2 = Some (File [1%N; 2%N] 384).
Proof.
  split; [exact fresh_path_spec|]. split; [left; reflexivity|]. split; [reflexivity|].
  repeat split; vm_compute; reflexivity.
Qed.

(* the CreateTemp-failure branch of every protocol (explicit existing output 3, input 2): the call that
   creates the staging file fails (its index in each protocol's trace: 3, 0, 1, 2); the run returns an error,
   the trace shows the failed CreateTemp, nothing was created and both files are what they were *)
Definition ex_m1 : gmap positive file := {[ 2%positive := File [5%N] 416; 3%positive := File [7%N; 7%N] 384 ]}.
Definition ct_failed (r : ctl * world) : bool :=
  existsb (fun e => match ev_op e, ev_res e with OpCreateTemp, Some _ => true | _, _ => false end) (wtr (snd r))
  && negb (existsb (fun e => match ev_op e, ev_res e with
                             | OpWrite, None | OpRename, None | OpChmod, None | OpRemove, None => true
                             | _, _ => false end) (wtr (snd r))).
Definition ct_run (n : nat) (P : proto) := run_proto (single n) fresh_path P [[1%N]; [2%N]] COk (W ex_m1 0 []).
Definition ct_ok (n : nat) (P : proto) : bool :=
  ctl_eqb (fst (ct_run n P)) CErr && ct_failed (ct_run n P) &&
  match wfs (snd (ct_run n P)) !! 2%positive, wfs (snd (ct_run n P)) !! 3%positive, wfs (snd (ct_run n P)) !! 4%positive with
  | Some (File [5%N] 416), Some (File [7%N; 7%N] 384), None => true
  | _, _, _ => false
  end.
Example C02_createtemp_failure :
  ct_ok 3 (PApi KFlag [2%positive] (Some 2%positive) (Some 3%positive)) = true /\
  ct_ok 0 (PPdf KFlag None 3) = true /\
  ct_ok 1 (PCut 3) = true /\
  ct_ok 2 (PCli None 3) = true.
Proof. repeat split; vm_compute; reflexivity. Qed.
