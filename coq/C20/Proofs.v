(* C20 — lemmas: the unfolding relation is an equivalence; helper facts about lookup,
   pairs and font-name normalisation. *)
From Coq Require Import List ZArith NArith Bool Lia.
From PV Require Import C20.Model C20.Spec.
Import ListNotations.
Open Scope Z_scope.

Lemma beqb_eq : forall a b, beqb a b = true <-> a = b.
Proof.
  induction a as [|x a IH]; destruct b as [|y b]; simpl; split; intro H; try congruence; auto.
  - apply andb_true_iff in H. destruct H as [H1 H2]. apply N.eqb_eq in H1. apply IH in H2. congruence.
  - inversion H; subst. apply andb_true_iff. split. apply N.eqb_refl. apply IH. reflexivity.
Qed.
Lemma beqb_refl : forall a, beqb a a = true.
Proof. intro a. apply beqb_eq. reflexivity. Qed.

Lemma lookup_In : forall k d v, lookup k d = Some v -> In (k, v) d.
Proof.
  intros k d v. induction d as [|[k' v'] r IH]; simpl; intro H. discriminate.
  destruct (beqb k' k) eqn:E.
  - apply beqb_eq in E. inversion H; subst. left. reflexivity.
  - right. apply IH. exact H.
Qed.
Lemma lookup_None_notin : forall k d, lookup k d = None -> ~ In k (map fst d).
Proof.
  intros k d. induction d as [|[k' v'] r IH]; simpl; intros H Hin. exact Hin.
  destruct (beqb k' k) eqn:E. discriminate.
  destruct Hin as [Hin|Hin]. subst. rewrite beqb_refl in E. discriminate. apply IH; assumption.
Qed.
Lemma lookup_Some_in : forall k d v, lookup k d = Some v -> In k (map fst d).
Proof.
  intros k d v H. apply lookup_In in H. apply (in_map fst) in H. exact H.
Qed.
Lemma in_lookup : forall k d, In k (map fst d) -> exists v, lookup k d = Some v.
Proof.
  intros k d. induction d as [|[k' v'] r IH]; simpl; intro H. contradiction.
  destruct (beqb k' k) eqn:E. eexists; reflexivity.
  destruct H as [H|H]. subst. rewrite beqb_refl in E. discriminate. apply IH. exact H.
Qed.

Lemma nodupb_NoDup : forall l, nodupb l = true -> NoDup l.
Proof.
  induction l as [|k t IH]; simpl; intro H. constructor.
  apply andb_true_iff in H. destruct H as [H1 H2]. constructor.
  - intro Hin. apply negb_true_iff in H1.
    assert (existsb (beqb k) t = true) as Hx.
    { apply existsb_exists. exists k. split. exact Hin. apply beqb_refl. }
    congruence.
  - apply IH. exact H2.
Qed.

(* ---- simhead is monotone / reflexive / symmetric / transitive in R ---- *)
Lemma Forall2_refl_R : forall (R : obj -> obj -> Prop) l, (forall x, R x x) -> Forall2 R l l.
Proof. intros R l H. induction l; constructor; auto. Qed.
Lemma Forall2_sym_R : forall (R S : obj -> obj -> Prop) l1 l2,
  (forall x y, R x y -> S y x) -> Forall2 R l1 l2 -> Forall2 S l2 l1.
Proof. intros R S l1 l2 H F. induction F; constructor; auto. Qed.
Lemma Forall2_trans_R : forall (R S T : obj -> obj -> Prop) l1 l2 l3,
  (forall x y z, R x y -> S y z -> T x z) -> Forall2 R l1 l2 -> Forall2 S l2 l3 -> Forall2 T l1 l3.
Proof.
  intros R S T l1 l2 l3 H F. revert l3. induction F as [|x y t1 t2 Hxy F IH]; intros l3 G; inversion G; subst; constructor; eauto.
Qed.

Lemma simdict_refl : forall (R : obj -> obj -> Prop) g d, (forall x, R x x) -> simdict R g g d d.
Proof. intros R g d H k. destruct (lookup k d); auto. Qed.
Lemma simdict_sym : forall (R S : obj -> obj -> Prop) g1 g2 d1 d2,
  (forall x y, R x y -> S y x) -> simdict R g1 g2 d1 d2 -> simdict S g2 g1 d2 d1.
Proof. intros R S g1 g2 d1 d2 H D k. specialize (D k). destruct (lookup k d1), (lookup k d2); auto. Qed.
Lemma simdict_trans : forall (R S T : obj -> obj -> Prop) g1 g2 g3 d1 d2 d3,
  (forall x y z, R x y -> S y z -> T x z) ->
  simdict R g1 g2 d1 d2 -> simdict S g2 g3 d2 d3 -> simdict T g1 g3 d1 d3.
Proof.
  intros R S T g1 g2 g3 d1 d2 d3 H D E k. specialize (D k). specialize (E k).
  destruct (lookup k d1), (lookup k d2), (lookup k d3); try contradiction; eauto.
Qed.

Lemma simhead_refl : forall (R : obj -> obj -> Prop) g a, (forall x, R x x) -> simhead R g g a a.
Proof.
  intros R g a H. destruct a; simpl; auto.
  - apply Forall2_refl_R. exact H.
  - apply simdict_refl. exact H.
  - split. apply simdict_refl. exact H. reflexivity.
Qed.
Lemma simhead_sym : forall (R S : obj -> obj -> Prop) g1 g2 a b,
  (forall x y, R x y -> S y x) -> simhead R g1 g2 a b -> simhead S g2 g1 b a.
Proof.
  intros R S g1 g2 a b H D. destruct a, b; simpl in *; try contradiction; auto.
  - eapply Forall2_sym_R; eauto.
  - eapply simdict_sym; eauto.
  - destruct D as [D1 D2]. split. eapply simdict_sym; eauto. auto.
Qed.
Lemma simhead_trans : forall (R S T : obj -> obj -> Prop) g1 g2 g3 a b c,
  (forall x y z, R x y -> S y z -> T x z) ->
  simhead R g1 g2 a b -> simhead S g2 g3 b c -> simhead T g1 g3 a c.
Proof.
  intros R S T g1 g2 g3 a b c H D E.
  destruct a, b; simpl in D; try contradiction; destruct c; simpl in E; try contradiction; simpl; try congruence.
  - eauto.
  - eapply Forall2_trans_R; eauto.
  - eapply simdict_trans; eauto.
  - destruct D as [D1 D2]. destruct E as [E1 E2]. split. eapply simdict_trans; eauto. congruence.
Qed.

Theorem sim_refl : forall n g o, sim n g o g o.
Proof.
  induction n as [|m IH]; intros g o; simpl. exact I.
  apply simhead_refl. intro x. apply IH.
Qed.
Theorem sim_sym : forall n g1 o1 g2 o2, sim n g1 o1 g2 o2 -> sim n g2 o2 g1 o1.
Proof.
  induction n as [|m IH]; intros g1 o1 g2 o2 H; simpl in *. exact I.
  apply (simhead_sym (fun x y => sim m g1 x g2 y) _ g1 g2); [|exact H]. intros x y Hxy. apply IH. exact Hxy.
Qed.
Theorem sim_trans : forall n g1 o1 g2 o2 g3 o3,
  sim n g1 o1 g2 o2 -> sim n g2 o2 g3 o3 -> sim n g1 o1 g3 o3.
Proof.
  induction n as [|m IH]; intros g1 o1 g2 o2 g3 o3 H1 H2; simpl in *. exact I.
  apply (simhead_trans (fun x y => sim m g1 x g2 y) (fun x y => sim m g2 x g3 y) _ g1 g2 g3 _ (deref g2 o2) _);
    [|exact H1|exact H2].
  intros x y z Hxy Hyz. eapply IH; eauto.
Qed.

(* the generation number of a reference is irrelevant for the reader *)
Lemma sim_ref_gen_l : forall n g1 a x y g2 o, sim n g1 (ORef a x) g2 o -> sim n g1 (ORef a y) g2 o.
Proof. intros n g1 a x y g2 o H. destruct n; simpl in *; exact H. Qed.
Lemma sim_ref_gen_r : forall n g1 o g2 a x y, sim n g1 o g2 (ORef a x) -> sim n g1 o g2 (ORef a y).
Proof. intros n g1 o g2 a x y H. destruct n; simpl in *; exact H. Qed.

(* a reference and its target are the same for the reader, unless the target is itself a
   bare reference *)
Lemma sim_deref_l : forall n g1 o1 g2 o2,
  isref (deref g1 o1) = false -> sim n g1 (deref g1 o1) g2 o2 -> sim n g1 o1 g2 o2.
Proof.
  intros n g1 o1 g2 o2 Hr H. destruct n; simpl in *. exact I.
  destruct (deref g1 o1) eqn:E; simpl in *; try discriminate; exact H.
Qed.
Lemma sim_deref_l_inv : forall n g1 o1 g2 o2,
  isref (deref g1 o1) = false -> sim n g1 o1 g2 o2 -> sim n g1 (deref g1 o1) g2 o2.
Proof.
  intros n g1 o1 g2 o2 Hr H. destruct n; simpl in *. exact I.
  destruct (deref g1 o1) eqn:E; simpl in *; try discriminate; exact H.
Qed.

(* ---- font-name normalisation respects sim ---- *)
Lemma sim_name_head : forall m g1 v1 g2 v2 s,
  sim (S m) g1 v1 g2 v2 -> (deref g1 v1 = OName s <-> deref g2 v2 = OName s).
Proof.
  intros m g1 v1 g2 v2 s H. simpl in H.
  destruct (deref g1 v1), (deref g2 v2); simpl in H; try contradiction; split; intro E; try discriminate; congruence.
Qed.

Lemma fontval_sim : forall m g1 v1 g2 v2,
  sim m g1 v1 g2 v2 -> sim m g1 (fontval g1 v1) g2 (fontval g2 v2).
Proof.
  intros m g1 v1 g2 v2 H. destruct m as [|m]. exact I.
  unfold fontval.
  destruct (deref g1 v1) eqn:E1.
  all: try (destruct (deref g2 v2) eqn:E2;
            [ .. ]; try exact H;
            exfalso; simpl in H; rewrite E1, E2 in H; simpl in H; exact H).
  (* deref g1 v1 = OName s *)
  assert (deref g2 v2 = OName s) as E2 by (apply (sim_name_head m g1 v1 g2 v2 s H); exact E1).
  rewrite E2. simpl. reflexivity.
Qed.

Definition type_agree (m : nat) (g1 : graph) (d1 : dict) (g2 : graph) (d2 : dict) : Prop :=
  match lookup kType d1, lookup kType d2 with
  | None, None => True
  | Some t1, Some t2 => sim m g1 t1 g2 t2
  | _, _ => False
  end.

Lemma isfont_agree : forall m g1 d1 g2 d2,
  type_agree (S m) g1 d1 g2 d2 -> isfont g1 d1 = isfont g2 d2.
Proof.
  intros m g1 d1 g2 d2 H. unfold type_agree in H. unfold isfont.
  destruct (lookup kType d1) as [t1|], (lookup kType d2) as [t2|]; try contradiction; auto.
  simpl in H. destruct (deref g1 t1), (deref g2 t2); simpl in H; try contradiction; auto. congruence.
Qed.

Lemma norm_sim : forall m g1 d1 g2 d2 k v1 v2,
  type_agree m g1 d1 g2 d2 -> sim m g1 v1 g2 v2 ->
  sim m g1 (norm g1 d1 k v1) g2 (norm g2 d2 k v2).
Proof.
  intros m g1 d1 g2 d2 k v1 v2 HT H. destruct m as [|m]. exact I.
  unfold norm. rewrite (isfont_agree m g1 d1 g2 d2 HT).
  destruct (isfont g2 d2 && special k). apply fontval_sim. exact H. exact H.
Qed.

(* raw entry-wise agreement implies agreement of the normalised dicts *)
Lemma simdict_intro : forall m g1 d1 g2 d2,
  (forall k, match lookup k d1, lookup k d2 with
             | None, None => True
             | Some v1, Some v2 => sim m g1 v1 g2 v2
             | _, _ => False end) ->
  simdict (fun x y => sim m g1 x g2 y) g1 g2 d1 d2.
Proof.
  intros m g1 d1 g2 d2 H k. pose proof (H k) as Hk.
  destruct (lookup k d1) as [v1|] eqn:E1, (lookup k d2) as [v2|] eqn:E2; try contradiction; auto.
  apply norm_sim. unfold type_agree. exact (H kType). exact Hk.
Qed.
