// A hand-written encrypted PDF writer and a raw reader for the encryption dictionary and stream objects of
// the files pdfcpu writes.  Nothing in this file calls pdfcpu.
package main

import (
	"bytes"
	"compress/zlib"
	"encoding/hex"
	"fmt"
	"io"
	"regexp"
	"strconv"
)

const docTitle = "verif c24 secret title"
const docContent = "0 0 m 100 100 l S"

var docID = []byte("\x01\x23\x45\x67\x89\xab\xcd\xef\x01\x23\x45\x67\x89\xab\xcd\xef")

type encParams struct {
	R, V, Length int
	CM           cryptMethod
	P            int64
	EncMeta      bool
	O, U, OE, UE []byte
	Perms        []byte
	ID           []byte
}

func plainPDF(v20 bool) []byte { return buildPDF(v20, nil, nil) }

// buildPDF writes a one-page document; with ep != nil strings and streams are encrypted with fileKey (Algorithm 1/1.A)
func buildPDF(v20 bool, ep *encParams, fileKey []byte) []byte {
	var b bytes.Buffer
	if v20 {
		b.WriteString("%PDF-2.0\n")
	} else {
		b.WriteString("%PDF-1.7\n")
	}
	var offs []int
	obj := func(s string) {
		offs = append(offs, b.Len())
		fmt.Fprintf(&b, "%d 0 obj\n%s\nendobj\n", len(offs), s)
	}
	iv := []byte("0123456789abcdef")
	encStr := func(objNr int, s string) string {
		if ep == nil {
			return "(" + s + ")"
		}
		return "<" + hex.EncodeToString(iEncryptData(ep.CM, fileKey, objNr, 0, []byte(s), iv)) + ">"
	}
	obj("<< /Type /Catalog /Pages 2 0 R >>")
	obj("<< /Type /Pages /Kids [3 0 R] /Count 1 >>")
	obj("<< /Type /Page /Parent 2 0 R /MediaBox [0 0 200 200] /Contents 4 0 R /Resources << >> >>")
	content := []byte(docContent)
	if ep != nil {
		content = iEncryptData(ep.CM, fileKey, 4, 0, content, iv)
	}
	obj(fmt.Sprintf("<< /Length %d >>\nstream\n%s\nendstream", len(content), content))
	obj("<< /Title " + encStr(5, docTitle) + " /Producer " + encStr(5, "x") + " >>")
	encRef := ""
	if ep != nil {
		hx := func(x []byte) string { return "<" + hex.EncodeToString(x) + ">" }
		d := fmt.Sprintf("<< /Filter /Standard /V %d /R %d /P %d /O %s /U %s", ep.V, ep.R, int32(ep.P), hx(ep.O), hx(ep.U))
		if ep.V >= 2 {
			d += fmt.Sprintf(" /Length %d", ep.Length)
		}
		if !ep.EncMeta {
			d += " /EncryptMetadata false"
		}
		if ep.V >= 4 {
			cfm, l := "V2", ep.Length/8
			switch ep.CM {
			case cmAESV2:
				cfm = "AESV2"
			case cmAESV3:
				cfm = "AESV3"
			}
			d += fmt.Sprintf(" /CF << /StdCF << /AuthEvent /DocOpen /CFM /%s /Length %d >> >> /StmF /StdCF /StrF /StdCF", cfm, l)
		}
		if ep.R >= 5 {
			d += fmt.Sprintf(" /OE %s /UE %s /Perms %s", hx(ep.OE), hx(ep.UE), hx(ep.Perms))
		}
		obj(d + " >>")
		encRef = fmt.Sprintf(" /Encrypt %d 0 R", len(offs))
	}
	xref := b.Len()
	fmt.Fprintf(&b, "xref\n0 %d\n0000000000 65535 f \n", len(offs)+1)
	for _, o := range offs {
		fmt.Fprintf(&b, "%010d 00000 n \n", o)
	}
	id := hex.EncodeToString(docID)
	fmt.Fprintf(&b, "trailer\n<< /Size %d /Root 1 0 R /Info 5 0 R%s /ID [<%s> <%s>] >>\nstartxref\n%d\n%%%%EOF\n", len(offs)+1, encRef, id, id, xref)
	return b.Bytes()
}

// ---- raw reader

var (
	reStdFilter = regexp.MustCompile(`/Filter\s*/Standard`)
	reStream    = regexp.MustCompile(`(?s)(\d+) (\d+) obj\s*<<((?:[^<>]|<[0-9A-Fa-f\s]*>|<<[^<>]*>>)*)>>\s*stream\r?\n`)
	reID        = regexp.MustCompile(`/ID\s*\[\s*<([0-9A-Fa-f]+)>`)
)

func intEntry(d, key string) (int64, bool) {
	m := regexp.MustCompile(`/` + key + `\s+(-?\d+)`).FindStringSubmatch(d)
	if m == nil {
		return 0, false
	}
	v, _ := strconv.ParseInt(m[1], 10, 64)
	return v, true
}

func hexEntry(d, key string) []byte {
	m := regexp.MustCompile(`/` + key + `\s*<([0-9A-Fa-f\s]*)>`).FindStringSubmatch(d)
	if m == nil {
		return nil
	}
	b, _ := hex.DecodeString(string(bytes.Join(bytes.Fields([]byte(m[1])), nil)))
	return b
}

// parseEncryption finds the standard security handler dictionary and the first trailer ID in a raw PDF file
func parseEncryption(pdf []byte) (*encParams, error) {
	loc := reStdFilter.FindIndex(pdf)
	if loc == nil {
		return nil, fmt.Errorf("no /Filter /Standard dictionary found")
	}
	start := bytes.LastIndex(pdf[:loc[0]], []byte(" obj"))
	end := bytes.Index(pdf[loc[0]:], []byte("endobj"))
	if start < 0 || end < 0 {
		return nil, fmt.Errorf("encryption dictionary object not delimited")
	}
	d := string(pdf[start : loc[0]+end])
	ep := &encParams{EncMeta: true, Length: 40}
	v, _ := intEntry(d, "V")
	r, _ := intEntry(d, "R")
	p, okp := intEntry(d, "P")
	if !okp {
		return nil, fmt.Errorf("no /P")
	}
	ep.V, ep.R, ep.P = int(v), int(r), p
	// the top-level /Length precedes /CF in the files under test; take the first /Length outside of /CF
	top := regexp.MustCompile(`(?s)/CF\s*<<.*?>>\s*>>`).ReplaceAllString(d, "")
	if l, ok := intEntry(top, "Length"); ok {
		ep.Length = int(l)
	}
	if ep.V == 5 {
		ep.Length = 256
	}
	if regexp.MustCompile(`/EncryptMetadata\s+false`).MatchString(d) {
		ep.EncMeta = false
	}
	ep.O, ep.U, ep.OE, ep.UE, ep.Perms = hexEntry(d, "O"), hexEntry(d, "U"), hexEntry(d, "OE"), hexEntry(d, "UE"), hexEntry(d, "Perms")
	ep.CM = cmRC4
	if cfm := regexp.MustCompile(`/CFM\s*/(\w+)`).FindStringSubmatch(d); cfm != nil {
		switch cfm[1] {
		case "AESV2":
			ep.CM = cmAESV2
		case "AESV3":
			ep.CM = cmAESV3
		}
	}
	idm := reID.FindSubmatch(pdf)
	if idm == nil {
		return nil, fmt.Errorf("no /ID")
	}
	ep.ID, _ = hex.DecodeString(string(idm[1]))
	return ep, nil
}

type rawStream struct {
	objNr, gen int
	dict       string
	data       []byte
}

func rawStreams(pdf []byte) []rawStream {
	var out []rawStream
	for _, loc := range reStream.FindAllSubmatchIndex(pdf, -1) {
		d := string(pdf[loc[6]:loc[7]])
		l, ok := intEntry(d, "Length")
		if !ok || loc[1]+int(l) > len(pdf) {
			continue
		}
		n, _ := strconv.Atoi(string(pdf[loc[2]:loc[3]]))
		g, _ := strconv.Atoi(string(pdf[loc[4]:loc[5]]))
		out = append(out, rawStream{n, g, d, pdf[loc[1] : loc[1]+int(l)]})
	}
	return out
}

func inflate(b []byte) []byte {
	zr, err := zlib.NewReader(bytes.NewReader(b))
	if err != nil {
		return nil
	}
	out, _ := io.ReadAll(zr)
	return out
}

// findContent decrypts every stream object with fileKey (Algorithm 1 / 1.A) and reports whether one of them is the
// known page content (possibly Flate encoded)
func findContent(pdf []byte, ep *encParams, fileKey []byte) bool {
	for _, s := range rawStreams(pdf) {
		if regexp.MustCompile(`/Type\s*/XRef`).MatchString(s.dict) {
			continue
		}
		pt, ok := iDecryptData(ep.CM, fileKey, s.objNr, s.gen, s.data)
		if !ok {
			continue
		}
		if bytes.Contains(pt, []byte(docContent)) || bytes.Contains(inflate(pt), []byte(docContent)) {
			return true
		}
	}
	return false
}
