(* C23 — lemmas: the emitted form of an object has the string cipher applied exactly once to every
   string leaf at every depth, except below a signature /Contents entry; streams; the lazy hole. *)
From Coq Require Import ZArith NArith List Bool Lia.
From PV Require Import Lib.GoInt C22.Model C22.Proofs C23.Model.
Import ListNotations.

Lemma mapres_nth : forall (A B : Type) (f : A -> res B) l l' i a,
  mapres f l = Ok l' -> nth_error l i = Some a -> exists b, nth_error l' i = Some b /\ f a = Ok b.
Proof.
  intros A B f. induction l as [|x t IH]; intros l' i a H Hn.
  - destruct i; discriminate.
  - simpl in H. destruct (f x) as [y|] eqn:Hfx; [|discriminate].
    destruct (mapres f t) as [t2|] eqn:Hft; [|discriminate]. inversion H; subst.
    destruct i as [|i]; simpl in *.
    + inversion Hn; subst. exists y. split; [reflexivity | assumption].
    + eapply IH; eauto.
Qed.

Lemma mapres_nth_none : forall (A B : Type) (f : A -> res B) l l' i,
  mapres f l = Ok l' -> nth_error l i = None -> nth_error l' i = None.
Proof.
  intros A B f. induction l as [|x t IH]; intros l' i H Hn.
  - simpl in H. inversion H; subst. destruct i; reflexivity.
  - simpl in H. destruct (f x) as [y|] eqn:Hfx; [|discriminate].
    destruct (mapres f t) as [t2|] eqn:Hft; [|discriminate]. inversion H; subst.
    destruct i as [|i]; simpl in *; [discriminate | eapply IH; eauto].
Qed.

Section Leaves.
  Variable E : bytes -> res bytes.

  (* every sub-object addressed by a path: untouched below a signature /Contents, otherwise the
     sub-object of the output at the same path is the encryption of the sub-object of the input *)
  Lemma subobject_enciphered : forall p o o' x,
    encryptDeep E o = Ok o' -> get o p = Some x ->
    if exempt o p then get o' p = Some x
    else exists x', get o' p = Some x' /\ encryptDeep E x = Ok x'.
  Proof.
    induction p as [|s p IH]; intros o o' x He Hg.
    - simpl in *. inversion Hg; subst. exists o'. split; [reflexivity | assumption].
    - destruct s as [i|i]; simpl in Hg.
      + destruct o; try discriminate. simpl in He.
        destruct (mapres (encryptDeep E) l) as [l'|] eqn:Hm; [|discriminate]. inversion He; subst o'.
        destruct (nth_error l i) as [a|] eqn:Hn; [|discriminate].
        destruct (mapres_nth _ _ _ _ _ _ _ Hm Hn) as (a' & Hn' & Ha).
        simpl. rewrite Hn, Hn'. apply IH; assumption.
      + destruct o; try discriminate. simpl in He.
        destruct (mapres (on_entry (is_sig d) (encryptDeep E)) d) as [d'|] eqn:Hm; [|discriminate].
        inversion He; subst o'.
        destruct (nth_error d i) as [[k v]|] eqn:Hn; [|discriminate].
        destruct (mapres_nth _ _ _ _ _ _ _ Hm Hn) as ([k' v'] & Hn' & Ha).
        simpl. rewrite Hn, Hn'. unfold on_entry in Ha.
        destruct (is_sig d && bytes_eqb k kContents) eqn:Hs.
        * inversion Ha; subst. simpl. assumption.
        * destruct (encryptDeep E v) as [v2|] eqn:Hv; [|discriminate]. inversion Ha; subst.
          simpl. apply IH; assumption.
  Qed.

  (* same shape: no path appears or disappears *)
  Lemma shape_kept : forall p o o', encryptDeep E o = Ok o' -> get o p = None -> get o' p = None.
  Proof.
    induction p as [|s p IH]; intros o o' He Hg; [discriminate|].
    destruct s as [i|i]; simpl in Hg |- *.
    - destruct o; simpl in He;
        try (inversion He; subst; reflexivity);
        try (destruct (E b); inversion He; reflexivity).
      + destruct (mapres (encryptDeep E) l) as [l'|] eqn:Hm; [|discriminate]. inversion He; subst o'.
        destruct (nth_error l i) as [a|] eqn:Hn.
        * destruct (mapres_nth _ _ _ _ _ _ _ Hm Hn) as (a' & Hn' & Ha). rewrite Hn'. eapply IH; eauto.
        * rewrite (mapres_nth_none _ _ _ _ _ _ Hm Hn). reflexivity.
      + destruct (mapres (on_entry (is_sig d) (encryptDeep E)) d); inversion He; reflexivity.
    - destruct o; simpl in He;
        try (inversion He; subst; reflexivity);
        try (destruct (E b); inversion He; reflexivity).
      + destruct (mapres (encryptDeep E) l); inversion He; reflexivity.
      + destruct (mapres (on_entry (is_sig d) (encryptDeep E)) d) as [d'|] eqn:Hm; [|discriminate].
        inversion He; subst o'.
        destruct (nth_error d i) as [[k v]|] eqn:Hn.
        * destruct (mapres_nth _ _ _ _ _ _ _ Hm Hn) as ([k' v'] & Hn' & Ha). rewrite Hn'.
          unfold on_entry in Ha. destruct (is_sig d && bytes_eqb k kContents).
          -- inversion Ha; subst. assumption.
          -- destruct (encryptDeep E v) as [v2|] eqn:Hv; [|discriminate]. inversion Ha; subst. eapply IH; eauto.
        * rewrite (mapres_nth_none _ _ _ _ _ _ Hm Hn). reflexivity.
  Qed.

  (* the leaf form: the cipher is applied exactly once to the bytes of every non-exempt string *)
  Lemma string_leaf_enciphered : forall p o o' b,
    encryptDeep E o = Ok o' -> exempt o p = false ->
    (get o p = Some (OStr b) -> exists c, E b = Ok c /\ get o' p = Some (OStr c)) /\
    (get o p = Some (OHex b) -> exists c, E b = Ok c /\ get o' p = Some (OHex c)).
  Proof.
    intros p o o' b He Hex. split; intro Hg;
      pose proof (subobject_enciphered p o o' _ He Hg) as H; rewrite Hex in H;
      destruct H as (x' & Hg' & Hx); simpl in Hx; destruct (E b) as [c|]; try discriminate;
      inversion Hx; subst; exists c; split; [reflexivity | assumption | reflexivity | assumption].
  Qed.

  Lemma exempt_leaf_kept : forall p o o' x,
    encryptDeep E o = Ok o' -> exempt o p = true -> get o p = Some x -> get o' p = Some x.
  Proof.
    intros p o o' x He Hex Hg. pose proof (subobject_enciphered p o o' x He Hg) as H.
    rewrite Hex in H. exact H.
  Qed.
End Leaves.

(* ---- what reaches the output for one indirect object ---- *)

Definition covered (strE stmE : bytes -> res bytes) (to_os : bool) (io : iobj) (e : emitted) : Prop :=
  match e with
  | EmTop o' =>
      exists o, io = IObj o /\
        forall p x, get o p = Some x ->
          if exempt o p then get o' p = Some x
          else exists x', get o' p = Some x' /\ encryptDeep strE x = Ok x'
  | EmTopStream d' raw' =>
      exists d filters raw, io = IStream d filters raw /\
        (forall p x, get (ODict d) p = Some x ->
           if exempt (ODict d) p then get (ODict d') p = Some x
           else exists x', get (ODict d') p = Some x' /\ encryptDeep strE x = Ok x') /\
        (if type_is nXRef d || skips_crypt filters then raw' = raw else stmE raw = Ok raw')
  | EmMember o =>
      (* in clear inside the current object stream; the object stream itself is written as an
         IStream whose Type is ObjStm and whose only filter is Flate: see objstm_data_enciphered *)
      to_os = true /\ io = IObj o
  end.

Lemma encryptDict_deep : forall E d d', encryptDict E d = Ok d' -> encryptDeep E (ODict d) = Ok (ODict d').
Proof.
  intros E d d' H. unfold encryptDict in H. destruct (encryptDeep E (ODict d)) as [o|] eqn:He; [|discriminate].
  simpl in He. destruct (mapres (on_entry (is_sig d) (encryptDeep E)) d); [|discriminate].
  inversion He; subst. inversion H; subst. reflexivity.
Qed.

Lemma keyed_covered : forall strE stmE to_os io e,
  (forall o, io <> ILazy o) ->
  write_keyed strE stmE to_os io = Ok e -> covered strE stmE to_os io e.
Proof.
  intros strE stmE to_os io e Hnl H. destruct io as [o|d filters raw|o]; simpl in H.
  - assert (G : forall e, match encryptDeep strE o with Ok o' => Ok (EmTop o') | Err => Err end = Ok e ->
                covered strE stmE to_os (IObj o) e).
    { intros e0 H0. destruct (encryptDeep strE o) as [o'|] eqn:He; [|discriminate]. inversion H0; subst.
      simpl. exists o. split; [reflexivity|]. intros p x Hg. eapply subobject_enciphered; eauto. }
    assert (G0 : forall o0, encryptDeep strE o0 = Ok o0 -> covered strE stmE to_os (IObj o0) (EmTop o0)).
    { intros o0 He. simpl. exists o0. split; [reflexivity|]. intros p x Hg. eapply subobject_enciphered; eauto. }
    destruct o; try (destruct to_os; [inversion H; subst; simpl; split; reflexivity | apply G; exact H]);
      inversion H; subst; apply G0; reflexivity.
  - destruct (encryptDict strE d) as [d'|] eqn:Hd; [|discriminate].
    pose proof (encryptDict_deep _ _ _ Hd) as Hdeep.
    pose proof (encryptDict_type_is strE nXRef _ _ Hd) as Hx.
    assert (P : forall p x, get (ODict d) p = Some x ->
           if exempt (ODict d) p then get (ODict d') p = Some x
           else exists x', get (ODict d') p = Some x' /\ encryptDeep strE x = Ok x').
    { intros p x Hg. eapply subobject_enciphered; eauto. }
    rewrite Hx, write_skips_eq in H.
    destruct (type_is nXRef d || skips_crypt filters) eqn:Hskip.
    + inversion H; subst. simpl. exists d, filters, raw. rewrite Hskip. repeat split; auto.
    + destruct (stmE raw) as [raw'|] eqn:Hs; [|discriminate]. inversion H; subst. simpl.
      exists d, filters, raw. rewrite Hskip. repeat split; auto.
  - exfalso. apply (Hnl o). reflexivity.
Qed.

(* writeIndirectObject with a key set: every indirect object, undecoded object-stream members included
   (they are decoded first: decoded io), is covered *)
Lemma emitted_covered : forall strE stmE to_os io e,
  write_iobj true strE stmE to_os io = Ok e -> covered strE stmE to_os (decoded io) e.
Proof.
  intros strE stmE to_os io e H. unfold write_iobj in H. unfold decoded.
  apply keyed_covered; [|exact H]. intros o Heq. destruct io; simpl in Heq; discriminate.
Qed.

(* every stream except xref streams and streams whose only filter is Crypt has its data enciphered;
   in particular XMP metadata (the writer has no EncryptMetadata=false mode) and object streams *)
Lemma stream_data_enciphered : forall strE stmE to_os d filters raw d' raw',
  write_iobj true strE stmE to_os (IStream d filters raw) = Ok (EmTopStream d' raw') ->
  type_is nXRef d = false -> skips_crypt filters = false -> stmE raw = Ok raw'.
Proof.
  intros strE stmE to_os d filters raw d' raw' H Hx Hc.
  pose proof (emitted_covered strE stmE to_os _ _ H) as Hcov.
  simpl in Hcov. destruct Hcov as (d0 & f0 & r0 & Heq & _ & Hraw). inversion Heq; subst.
  rewrite Hx, Hc in Hraw. exact Hraw.
Qed.

(* an undecoded member with a key set: emitted as the encryption of the decoded object (or as a member of
   an object stream); without a key it is emitted as the decoded object, never copied verbatim *)
Lemma lazy_enciphered : forall strE stmE o e,
  write_iobj true strE stmE false (ILazy o) = Ok e ->
  exists o', e = EmTop o' /\ encryptDeep strE o = Ok o'.
Proof.
  intros strE stmE o e H. unfold write_iobj in H. simpl in H.
  destruct o; simpl in H; try (inversion H; subst; eexists; split; reflexivity);
    match type of H with
    | match ?x with _ => _ end = _ => destruct x as [o'|] eqn:He; [|discriminate]; inversion H; subst;
        exists o'; split; [reflexivity | exact He]
    end.
Qed.

Lemma lazy_unkeyed_decoded : forall strE stmE to_os o,
  write_iobj false strE stmE to_os (ILazy o) = write_plain to_os (IObj o).
Proof. reflexivity. Qed.
