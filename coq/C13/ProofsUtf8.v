(* C13 proofs, part 2: the UTF-8 layer (Go strings <-> runes).
   U: scanning the UTF-8 encoding of a scalar value gives that value back;
   V: a valid UTF-8 string is the encoding of the (scalar) runes it scans to. *)
From Coq Require Import NArith ZArith List Bool Lia ZifyBool ZifyNat ZifyN.
From PV Require Import Lib.GoInt C13.Model C13.ProofsUtf16.
Import ListNotations.
Open Scope N_scope.
Ltac Zify.zify_post_hook ::= Z.div_mod_to_equations.

(* evaluate an [if] whose condition lia can decide *)
Ltac ev1 :=
  match goal with
  | |- context [if ?c then _ else _] =>
    lazymatch c with true => fail | false => fail | _ => idtac end;
    first [ replace c with true by (symmetry; lia) | replace c with false by (symmetry; lia) ]
  end.
Ltac ev := repeat (ev1; cbv beta iota).

(* ---------------------------------------------------------------- bit lemmas for UTF-8 *)
Lemma land_3f : forall x, N.land x 0x3F = x mod 64.
Proof. intro x. change 0x3F with (N.ones 6). rewrite land_mask. reflexivity. Qed.
Lemma land_1f : forall x, N.land x 0x1F = x mod 32.
Proof. intro x. change 0x1F with (N.ones 5). rewrite land_mask. reflexivity. Qed.
Lemma land_0f : forall x, N.land x 0x0F = x mod 16.
Proof. intro x. change 0x0F with (N.ones 4). rewrite land_mask. reflexivity. Qed.
Lemma land_07 : forall x, N.land x 0x07 = x mod 8.
Proof. intro x. change 0x07 with (N.ones 3). rewrite land_mask. reflexivity. Qed.

Lemma lor_80 : forall x, x < 64 -> N.lor 0x80 x = 128 + x.
Proof. intros x Hx. change 0x80 with (2 * 2 ^ 6). rewrite lor_tag by (change (2 ^ 6) with 64; lia). reflexivity. Qed.
Lemma lor_C0 : forall x, x < 64 -> N.lor 0xC0 x = 192 + x.
Proof. intros x Hx. change 0xC0 with (3 * 2 ^ 6). rewrite lor_tag by (change (2 ^ 6) with 64; lia). reflexivity. Qed.
Lemma lor_E0 : forall x, x < 32 -> N.lor 0xE0 x = 224 + x.
Proof. intros x Hx. change 0xE0 with (7 * 2 ^ 5). rewrite lor_tag by (change (2 ^ 5) with 32; lia). reflexivity. Qed.
Lemma lor_F0 : forall x, x < 16 -> N.lor 0xF0 x = 240 + x.
Proof. intros x Hx. change 0xF0 with (15 * 2 ^ 4). rewrite lor_tag by (change (2 ^ 4) with 16; lia). reflexivity. Qed.

Lemma lor2 : forall a b, b < 64 -> N.lor (N.shiftl a 6) b = a * 64 + b.
Proof. intros a b Hb. rewrite lor_shiftl_add by (change (2 ^ 6) with 64; lia). reflexivity. Qed.

Lemma lor3 : forall a b c, b < 64 -> c < 64 ->
  N.lor (N.lor (N.shiftl a 12) (N.shiftl b 6)) c = a * 4096 + b * 64 + c.
Proof.
  intros a b c Hb Hc. rewrite (shl_mul b 6). change (2 ^ 6) with 64.
  rewrite lor_shiftl_add by (change (2 ^ 12) with 4096; lia). change (2 ^ 12) with 4096.
  replace (a * 4096 + b * 64) with ((a * 64 + b) * 2 ^ 6) by (change (2 ^ 6) with 64; lia).
  rewrite lor_tag by (change (2 ^ 6) with 64; lia). change (2 ^ 6) with 64. lia.
Qed.

Lemma lor4 : forall a b c d, b < 64 -> c < 64 -> d < 64 ->
  N.lor (N.lor (N.lor (N.shiftl a 18) (N.shiftl b 12)) (N.shiftl c 6)) d
  = a * 262144 + b * 4096 + c * 64 + d.
Proof.
  intros a b c d Hb Hc Hd. rewrite (shl_mul b 12), (shl_mul c 6). change (2 ^ 6) with 64. change (2 ^ 12) with 4096.
  rewrite lor_shiftl_add by (change (2 ^ 18) with 262144; lia). change (2 ^ 18) with 262144.
  replace (a * 262144 + b * 4096) with ((a * 64 + b) * 2 ^ 12) by (change (2 ^ 12) with 4096; lia).
  rewrite lor_tag by (change (2 ^ 12) with 4096; lia). change (2 ^ 12) with 4096.
  replace ((a * 64 + b) * 4096 + c * 64) with (((a * 64 + b) * 64 + c) * 2 ^ 6) by (change (2 ^ 6) with 64; lia).
  rewrite lor_tag by (change (2 ^ 6) with 64; lia). change (2 ^ 6) with 64. lia.
Qed.

(* ---------------------------------------------------------------- utf8.EncodeRune, arithmetically *)

Lemma EncodeRune_1 : forall r, r <= 0x7F -> utf8_EncodeRune r = [r].
Proof.
  intros r Hr. unfold utf8_EncodeRune, byte. ev. f_equal. apply N.mod_small. lia.
Qed.

Lemma EncodeRune_2 : forall r, 0x80 <= r -> r <= 0x7FF -> utf8_EncodeRune r = [192 + r / 64; 128 + r mod 64].
Proof.
  intros r H1 H2. unfold utf8_EncodeRune, byte, t2, tx, maskx. ev.
  rewrite !land_3f, !shr_div. change (2 ^ 6) with 64.
  rewrite lor_C0, lor_80 by lia. f_equal; [| f_equal]; lia.
Qed.

Lemma EncodeRune_3 : forall r, 0x800 <= r -> r <= 0xFFFF -> (r < 0xD800 \/ 0xE000 <= r) ->
  utf8_EncodeRune r = [224 + r / 4096; 128 + (r / 64) mod 64; 128 + r mod 64].
Proof.
  intros r H1 H2 H3. unfold utf8_EncodeRune, byte, t3, tx, maskx. ev.
  rewrite !land_3f, !shr_div. change (2 ^ 6) with 64. change (2 ^ 12) with 4096.
  rewrite lor_E0, !lor_80 by lia. f_equal; [| f_equal; [| f_equal]]; lia.
Qed.

Lemma EncodeRune_4 : forall r, 0x10000 <= r -> r <= 0x10FFFF ->
  utf8_EncodeRune r = [240 + r / 262144; 128 + (r / 4096) mod 64; 128 + (r / 64) mod 64; 128 + r mod 64].
Proof.
  intros r H1 H2. unfold utf8_EncodeRune, byte, t4, tx, maskx. ev.
  rewrite !land_3f, !shr_div. change (2 ^ 6) with 64. change (2 ^ 12) with 4096. change (2 ^ 18) with 262144.
  rewrite lor_F0, !lor_80 by lia. f_equal; [| f_equal; [| f_equal; [| f_equal]]]; lia.
Qed.

(* ---------------------------------------------------------------- one step of utf8_scan *)

Lemma scan_1 : forall b0 rest, b0 < 0x80 -> utf8_scan (b0 :: rest) = Some b0 :: utf8_scan rest.
Proof. intros b0 rest H. cbn [utf8_scan]. ev. reflexivity. Qed.

Lemma scan_2 : forall b0 b1 rest, 0xC2 <= b0 -> b0 <= 0xDF -> 0x80 <= b1 -> b1 <= 0xBF ->
  utf8_scan (b0 :: b1 :: rest) = Some ((b0 mod 32) * 64 + b1 mod 64) :: utf8_scan rest.
Proof.
  intros b0 b1 rest H1 H2 H3 H4. cbn [utf8_scan]. unfold utf8_first, mask2, maskx. ev.
  rewrite land_1f, land_3f, lor2 by lia. reflexivity.
Qed.

Lemma scan_3 : forall b0 b1 b2 rest, 0xE0 <= b0 -> b0 <= 0xEF -> 0x80 <= b1 -> b1 <= 0xBF ->
  (b0 = 0xE0 -> 0xA0 <= b1) -> (b0 = 0xED -> b1 <= 0x9F) -> 0x80 <= b2 -> b2 <= 0xBF ->
  utf8_scan (b0 :: b1 :: b2 :: rest)
  = Some ((b0 mod 16) * 4096 + (b1 mod 64) * 64 + b2 mod 64) :: utf8_scan rest.
Proof.
  intros b0 b1 b2 rest H1 H2 H3 H4 H5 H6 H7 H8. cbn [utf8_scan]. unfold utf8_first, utf8_cont, mask3, maskx.
  destruct (N.eq_dec b0 0xE0) as [-> | N1]; [| destruct (N.eq_dec b0 0xED) as [-> | N2]];
    ev; rewrite land_0f, !land_3f, lor3 by lia; reflexivity.
Qed.

Lemma scan_4 : forall b0 b1 b2 b3 rest, 0xF0 <= b0 -> b0 <= 0xF4 -> 0x80 <= b1 -> b1 <= 0xBF ->
  (b0 = 0xF0 -> 0x90 <= b1) -> (b0 = 0xF4 -> b1 <= 0x8F) -> 0x80 <= b2 -> b2 <= 0xBF ->
  0x80 <= b3 -> b3 <= 0xBF ->
  utf8_scan (b0 :: b1 :: b2 :: b3 :: rest)
  = Some ((b0 mod 8) * 262144 + (b1 mod 64) * 4096 + (b2 mod 64) * 64 + b3 mod 64) :: utf8_scan rest.
Proof.
  intros b0 b1 b2 b3 rest H1 H2 H3 H4 H5 H6 H7 H8 H9 H10. cbn [utf8_scan].
  unfold utf8_first, utf8_cont, mask4, maskx.
  destruct (N.eq_dec b0 0xF0) as [-> | N1]; [| destruct (N.eq_dec b0 0xF4) as [-> | N2]];
    ev; rewrite land_07, !land_3f, lor4 by lia; reflexivity.
Qed.

(* ---------------------------------------------------------------- U: scan (encode r) = r *)

Lemma scan_EncodeRune : forall r rest, scalar r ->
  utf8_scan (utf8_EncodeRune r ++ rest) = Some r :: utf8_scan rest.
Proof.
  intros r rest Hr. unfold scalar in Hr.
  destruct (N.le_gt_cases r 0x7F) as [H1 | H1].
  { rewrite EncodeRune_1 by lia. cbn [app]. apply scan_1. lia. }
  destruct (N.le_gt_cases r 0x7FF) as [H2 | H2].
  { rewrite EncodeRune_2 by lia. cbn [app]. rewrite scan_2 by lia. do 2 f_equal. lia. }
  destruct (N.le_gt_cases r 0xFFFF) as [H3 | H3].
  { rewrite EncodeRune_3 by lia. cbn [app]. rewrite scan_3 by lia. do 2 f_equal. lia. }
  rewrite EncodeRune_4 by lia. cbn [app]. rewrite scan_4 by lia. do 2 f_equal. lia.
Qed.

Lemma scan_text : forall cps, Forall scalar cps -> utf8_scan (utf8_of_runes cps) = map Some cps.
Proof.
  intros cps H. induction H as [| r rs Hr _ IH]; [reflexivity |].
  unfold utf8_of_runes in *. cbn [flat_map map]. rewrite scan_EncodeRune by exact Hr. rewrite IH. reflexivity.
Qed.

Lemma runes_of_text : forall cps, Forall scalar cps ->
  runes_of_string (utf8_of_runes cps) = cps /\ utf8_valid (utf8_of_runes cps) = true.
Proof.
  intros cps H. unfold runes_of_string, utf8_valid. rewrite scan_text by exact H. split.
  - rewrite map_map. cbn [opt_rune]. apply map_id.
  - rewrite forallb_forall. intros o Ho. apply in_map_iff in Ho as [r [<- _]]. reflexivity.
Qed.

(* ---------------------------------------------------------------- V: valid strings *)

Lemma first_inv : forall b0 sz lo hi, utf8_first b0 = Some (sz, lo, hi) ->
  (sz = 2 /\ 0xC2 <= b0 /\ b0 <= 0xDF /\ lo = 0x80 /\ hi = 0xBF)
  \/ (sz = 3 /\ 0xE0 <= b0 /\ b0 <= 0xEF /\ 0x80 <= lo /\ hi <= 0xBF /\ (b0 = 0xE0 -> lo = 0xA0) /\ (b0 = 0xED -> hi = 0x9F))
  \/ (sz = 4 /\ 0xF0 <= b0 /\ b0 <= 0xF4 /\ 0x80 <= lo /\ hi <= 0xBF /\ (b0 = 0xF0 -> lo = 0x90) /\ (b0 = 0xF4 -> hi = 0x8F)).
Proof.
  intros b0 sz lo hi F. unfold utf8_first in F.
  repeat match type of F with context [if ?c then _ else _] => destruct c eqn:? end;
    try discriminate; injection F as <- <- <-; lia.
Qed.

(* one step of the scan: either the first byte is invalid, or a prefix of the string is the
   UTF-8 encoding of the scalar value that was decoded *)
Lemma scan_step : forall b0 r1,
  (exists t, utf8_scan (b0 :: r1) = None :: t)
  \/ (exists r pre rest, b0 :: r1 = pre ++ rest /\ utf8_scan (b0 :: r1) = Some r :: utf8_scan rest
        /\ utf8_EncodeRune r = pre /\ scalar r /\ (length rest < length (b0 :: r1))%nat).
Proof.
  intros b0 r1.
  destruct (b0 <? 0x80) eqn:Hascii.
  { right. exists b0, [b0], r1. rewrite scan_1 by lia. rewrite EncodeRune_1 by lia.
    repeat split; [unfold scalar; lia | cbn; lia]. }
  destruct (utf8_first b0) as [[[sz lo] hi] |] eqn:F.
  2:{ left. cbn [utf8_scan]. rewrite Hascii, F. eexists. reflexivity. }
  destruct r1 as [| b1 r2].
  { left. cbn [utf8_scan]. rewrite Hascii, F. eexists. reflexivity. }
  destruct ((b1 <? lo) || (hi <? b1)) eqn:Hacc.
  { left. cbn [utf8_scan]. rewrite Hascii, F, Hacc. eexists. reflexivity. }
  apply first_inv in F as Hinv.
  destruct Hinv as [[-> Hr] | [[-> Hr] | [-> Hr]]].
  - (* two bytes *)
    right. exists ((b0 mod 32) * 64 + b1 mod 64), [b0; b1], r2.
    rewrite scan_2 by lia. rewrite EncodeRune_2 by lia.
    repeat split; [f_equal; [| f_equal]; lia | unfold scalar; lia | cbn; lia].
  - (* three bytes *)
    destruct r2 as [| b2 r3].
    { left. cbn [utf8_scan]. rewrite Hascii, F, Hacc. eexists. reflexivity. }
    destruct (utf8_cont b2) eqn:Hc2.
    2:{ left. cbn [utf8_scan]. rewrite Hascii, F, Hacc, Hc2. eexists. reflexivity. }
    unfold utf8_cont in Hc2.
    right. exists ((b0 mod 16) * 4096 + (b1 mod 64) * 64 + b2 mod 64), [b0; b1; b2], r3.
    rewrite scan_3 by lia. rewrite EncodeRune_3 by lia.
    repeat split; [f_equal; [| f_equal; [| f_equal]]; lia | unfold scalar; lia | cbn; lia].
  - (* four bytes *)
    destruct r2 as [| b2 r3].
    { left. cbn [utf8_scan]. rewrite Hascii, F, Hacc. eexists. reflexivity. }
    destruct (utf8_cont b2) eqn:Hc2.
    2:{ left. cbn [utf8_scan]. rewrite Hascii, F, Hacc, Hc2. eexists. reflexivity. }
    destruct r3 as [| b3 r4].
    { left. cbn [utf8_scan]. rewrite Hascii, F, Hacc, Hc2. eexists. reflexivity. }
    destruct (utf8_cont b3) eqn:Hc3.
    2:{ left. cbn [utf8_scan]. rewrite Hascii, F, Hacc, Hc2, Hc3. eexists. reflexivity. }
    unfold utf8_cont in Hc2, Hc3.
    right. exists ((b0 mod 8) * 262144 + (b1 mod 64) * 4096 + (b2 mod 64) * 64 + b3 mod 64), [b0; b1; b2; b3], r4.
    rewrite scan_4 by lia. rewrite EncodeRune_4 by lia.
    repeat split; [f_equal; [| f_equal; [| f_equal; [| f_equal]]]; lia | unfold scalar; lia | cbn; lia].
Qed.

Lemma valid_string_n : forall n s, (length s <= n)%nat -> utf8_valid s = true ->
  utf8_of_runes (runes_of_string s) = s /\ Forall scalar (runes_of_string s).
Proof.
  induction n as [| n IH]; intros s Hlen Hv.
  - destruct s; [split; [reflexivity | constructor] | cbn in Hlen; lia].
  - destruct s as [| b0 r1]; [split; [reflexivity | constructor] |].
    unfold utf8_valid, runes_of_string in *.
    destruct (scan_step b0 r1) as [[t Ht] | [r [pre [rest [Hs [Hscan [Henc [Hsc Hl]]]]]]]].
    + rewrite Ht in Hv. cbn in Hv. discriminate.
    + rewrite Hscan in *. cbn [forallb is_some andb map opt_rune] in *.
      destruct (IH rest) as [IH1 IH2]; [cbn in Hl, Hlen; lia | exact Hv |].
      unfold utf8_of_runes in *. cbn [flat_map]. rewrite IH1, Henc, Hs. split; [reflexivity |].
      constructor; assumption.
Qed.

Lemma valid_string : forall s, utf8_valid s = true ->
  utf8_of_runes (runes_of_string s) = s /\ Forall scalar (runes_of_string s).
Proof. intros s. apply (valid_string_n (length s)). apply le_n. Qed.

(* []rune(s) never contains anything but scalar values, valid or not *)
Lemma runes_scalar_n : forall n s, (length s <= n)%nat -> Forall scalar (runes_of_string s).
Proof.
  induction n as [| n IH]; intros s Hlen.
  - destruct s; [constructor | cbn in Hlen; lia].
  - destruct s as [| b0 r1]; [constructor |]. unfold runes_of_string in *.
    destruct (scan_step b0 r1) as [[t Ht] | [r [pre [rest [Hs [Hscan [Henc [Hsc Hl]]]]]]]].
    + (* invalid first byte: RuneError, then the scan of the tail *)
      assert (Ht' : t = utf8_scan r1).
      { revert Ht. cbn [utf8_scan].
        repeat match goal with |- context [match ?c with _ => _ end] =>
          lazymatch c with utf8_scan _ => fail | _ => destruct c end end;
        intro Ht; try discriminate; injection Ht as <-; reflexivity. }
      rewrite Ht, Ht'. cbn [map opt_rune]. constructor; [unfold scalar, RuneError; lia |].
      apply IH. cbn in Hlen. lia.
    + rewrite Hscan. cbn [map opt_rune]. constructor; [exact Hsc |]. apply IH. cbn in Hl, Hlen. lia.
Qed.

Lemma runes_scalar : forall s, Forall scalar (runes_of_string s).
Proof. intro s. apply (runes_scalar_n (length s)). apply le_n. Qed.
