From PV Require Import C19.Generated C19.Model.
Theorem C19_placeholder : True. Proof. exact I. Qed.
Print Assumptions C19_placeholder.
