(* C39 — order facts for Go string comparison on byte lists, the `order` tactic on keys,
   and lemmas about sorted association lists (the specification side). *)
From Coq Require Import List NArith Bool Lia Orders OrdersTac.
From PV Require Import C39.Model.
Import ListNotations.

Lemma keqb_eq a b : keqb a b = true <-> a = b.
Proof.
  revert b. induction a as [|x a IH]; intros [|y b]; cbn; try (split; congruence).
  rewrite andb_true_iff, N.eqb_eq, IH. split; [intros [-> ->]; reflexivity | intros E; inversion E; auto].
Qed.

Lemma kltb_irrefl a : kltb a a = false.
Proof. induction a as [|x a IH]; cbn; [reflexivity|]. rewrite N.ltb_irrefl. exact IH. Qed.

Lemma kltb_trans a b c : kltb a b = true -> kltb b c = true -> kltb a c = true.
Proof.
  revert b c. induction a as [|x a IH]; intros [|y b] [|z c]; cbn; try congruence.
  destruct (N.ltb_spec x y) as [Hxy|Hxy].
  - intros _. destruct (N.ltb_spec y z) as [Hyz|Hyz].
    + intros _. destruct (N.ltb_spec x z); [reflexivity|lia].
    + destruct (N.ltb_spec z y); [congruence|]. intros _.
      destruct (N.ltb_spec x z); [reflexivity|lia].
  - destruct (N.ltb_spec y x) as [Hyx|Hyx]; [congruence|]. intros Hab.
    assert (x = y) by lia. subst y.
    destruct (N.ltb_spec x z) as [Hxz|Hxz]; [reflexivity|].
    destruct (N.ltb_spec z x); [congruence|]. apply IH; assumption.
Qed.

Lemma kltb_total a b : kltb a b = true \/ a = b \/ kltb b a = true.
Proof.
  revert b. induction a as [|x a IH]; intros [|y b]; cbn; auto.
  destruct (N.ltb_spec x y); [auto|]. destruct (N.ltb_spec y x); [auto|].
  assert (x = y) by lia. subst y. destruct (IH b) as [H1|[->|H1]]; auto.
Qed.

(* ---- the order as a module, to get the `order` tactic ---- *)
Module KO <: EqLtLe.
  Definition t := key.
  Definition eq := @Logic.eq key.
  Definition lt (a b : key) := kltb a b = true.
  Definition le (a b : key) := kltb a b = true \/ a = b.
End KO.
Notation klt := KO.lt.
Notation kle := KO.le.

Module KP <: IsTotalOrder KO.
  Definition eq_equiv : Equivalence KO.eq := eq_equivalence.
  Lemma lt_strorder : StrictOrder KO.lt.
  Proof.
    split.
    - intros a H. unfold KO.lt in H. rewrite kltb_irrefl in H. discriminate.
    - intros a b c. apply kltb_trans.
  Qed.
  Lemma lt_compat : Proper (KO.eq ==> KO.eq ==> iff) KO.lt.
  Proof. intros a a' -> b b' ->. reflexivity. Qed.
  Lemma le_lteq : forall x y, KO.le x y <-> KO.lt x y \/ KO.eq x y.
  Proof. reflexivity. Qed.
  Lemma lt_total : forall x y, KO.lt x y \/ KO.eq x y \/ KO.lt y x.
  Proof. exact kltb_total. Qed.
End KP.
Module KT := !MakeOrderTac KO KP.

(* `order` on keys: first restate Leibniz (dis)equalities on keys with KO.eq *)
Ltac korder_prep :=
  repeat match goal with
  | H : @Logic.eq ?T ?a ?b |- _ => unify T key; change (KO.eq a b) in H
  | H : ~ @Logic.eq ?T ?a ?b |- _ => unify T key; change (~ KO.eq a b) in H
  | |- @Logic.eq ?T ?a ?b => unify T key; change (KO.eq a b)
  | |- ~ @Logic.eq ?T ?a ?b => unify T key; change (~ KO.eq a b)
  end.
Ltac order := korder_prep; KT.order.

Lemma kltb_spec a b : BoolSpec (klt a b) (kle b a) (kltb a b).
Proof.
  destruct (kltb a b) eqn:E; constructor; [exact E|].
  destruct (kltb_total a b) as [H|[->|H]]; [congruence| right; reflexivity | left; exact H].
Qed.
Lemma keqb_spec a b : BoolSpec (a = b) (a <> b) (keqb a b).
Proof.
  destruct (keqb a b) eqn:E; constructor; [apply keqb_eq; exact E|].
  intros H. apply keqb_eq in H. congruence.
Qed.
Lemma kleb_spec a b : BoolSpec (kle a b) (klt b a) (kleb a b).
Proof.
  unfold kleb. destruct (keqb_spec a b) as [->|Hne]; cbn.
  - constructor. right; reflexivity.
  - destruct (kltb_spec a b) as [H|H]; constructor; [left; exact H|]. order.
Qed.
Lemma within_lim_spec a b k : BoolSpec (kle a k /\ kle k b) (klt k a \/ klt b k) (within_lim a b k).
Proof.
  unfold within_lim. destruct (kleb_spec a k); cbn; [|constructor; auto].
  destruct (kleb_spec k b); constructor; auto.
Qed.

(* destruct every key comparison in sight *)
Ltac kcases :=
  repeat match goal with
  | |- context [kltb ?a ?b] => destruct (kltb_spec a b)
  | |- context [keqb ?a ?b] => destruct (keqb_spec a b)
  | |- context [kleb ?a ?b] => destruct (kleb_spec a b)
  end.

(* ---- sorted key lists ---- *)
Fixpoint lsorted (l : list key) : Prop :=
  match l with
  | a :: ((b :: _) as r) => klt a b /\ lsorted r
  | _ => True
  end.
Definition khd (l : list key) : key := hd [] l.
Definition klast (l : list key) : key := last l [].
Notation ekeys m := (map (@fst key val) m) (only parsing).

Lemma lsorted_tail a l : lsorted (a :: l) -> lsorted l.
Proof. destruct l; cbn; tauto. Qed.

Lemma lsorted_lb a l : lsorted (a :: l) -> forall x, In x l -> klt a x.
Proof.
  revert a. induction l as [|b l IH]; intros a Hs x Hin; [destruct Hin|].
  destruct Hs as [Hab Hs]. destruct Hin as [->|Hin]; [exact Hab|].
  specialize (IH b Hs x Hin). order.
Qed.

Lemma lsorted_cons a l : (forall x, In x l -> klt a x) -> lsorted l -> lsorted (a :: l).
Proof. destruct l as [|b l]; cbn; intros H Hs; [exact I|]. split; [apply H; left; reflexivity|exact Hs]. Qed.

Lemma klast_cons a l : l <> [] -> klast (a :: l) = klast l.
Proof. destruct l; [congruence|reflexivity]. Qed.

Lemma klast_in l : l <> [] -> In (klast l) l.
Proof.
  induction l as [|a l IH]; [congruence|]. intros _. destruct l as [|b l]; [left; reflexivity|].
  right. change (klast (a :: b :: l)) with (klast (b :: l)). apply IH. discriminate.
Qed.

Lemma lsorted_ub l : lsorted l -> forall x, In x l -> kle x (klast l).
Proof.
  induction l as [|a l IH]; intros Hs x Hin; [destruct Hin|].
  destruct l as [|b l].
  - destruct Hin as [->|[]]. right; reflexivity.
  - change (klast (a :: b :: l)) with (klast (b :: l)).
    destruct Hin as [->|Hin].
    + assert (klt x (klast (b :: l))).
      { apply (lsorted_lb x (b :: l) Hs). apply klast_in. discriminate. }
      order.
    + apply IH; [exact (lsorted_tail _ _ Hs)|exact Hin].
Qed.

Lemma lsorted_hd_lb l : lsorted l -> forall x, In x l -> kle (khd l) x.
Proof.
  destruct l as [|a l]; intros Hs x Hin; [destruct Hin|]. cbn.
  destruct Hin as [->|Hin]; [right; reflexivity|]. left. exact (lsorted_lb a l Hs x Hin).
Qed.

Lemma lsorted_app l1 l2 :
  lsorted l1 -> lsorted l2 -> (forall x y, In x l1 -> In y l2 -> klt x y) -> lsorted (l1 ++ l2).
Proof.
  induction l1 as [|a l1 IH]; intros H1 H2 H; [exact H2|].
  cbn [app]. apply lsorted_cons.
  - intros x Hin. apply in_app_or in Hin. destruct Hin as [Hin|Hin].
    + exact (lsorted_lb a l1 H1 x Hin).
    + apply H; [left; reflexivity|exact Hin].
  - apply IH; [exact (lsorted_tail _ _ H1)|exact H2|]. intros x y Hx Hy. apply H; [right; exact Hx|exact Hy].
Qed.

Lemma lsorted_app_inv l1 l2 : lsorted (l1 ++ l2) ->
  lsorted l1 /\ lsorted l2 /\ (forall x y, In x l1 -> In y l2 -> klt x y).
Proof.
  induction l1 as [|a l1 IH]; intros Hs.
  - split; [exact I|]. split; [exact Hs|]. intros x y [].
  - cbn [app] in Hs. destruct (IH (lsorted_tail _ _ Hs)) as (H1 & H2 & H3).
    split; [|split; [exact H2|]].
    + apply lsorted_cons; [|exact H1]. intros x Hin. apply (lsorted_lb a _ Hs). apply in_or_app; left; exact Hin.
    + intros x y [->|Hx] Hy; [|apply H3; assumption].
      apply (lsorted_lb x _ Hs). apply in_or_app; right; exact Hy.
Qed.

Lemma khd_app l1 l2 : l1 <> [] -> khd (l1 ++ l2) = khd l1.
Proof. destruct l1; [congruence|reflexivity]. Qed.
Lemma klast_app l1 l2 : l2 <> [] -> klast (l1 ++ l2) = klast l2.
Proof.
  intros H. induction l1 as [|a l1 IH]; [reflexivity|].
  cbn [app]. rewrite klast_cons; [exact IH|]. destruct l1; cbn; [exact H|discriminate].
Qed.
Lemma khd_in l : l <> [] -> In (khd l) l.
Proof. destruct l; [congruence|left; reflexivity]. Qed.

(* ---- the specification is a finite map on sorted association lists ---- *)
Lemma ekeys_app m1 m2 : ekeys (m1 ++ m2) = ekeys m1 ++ ekeys m2.
Proof. apply map_app. Qed.

Lemma m_lookup_none k m : m_lookup k m = None <-> ~ In k (ekeys m).
Proof.
  induction m as [|[k' v] m IH]; cbn; [tauto|].
  destruct (keqb_spec k' k) as [->|Hne].
  - split; [discriminate|]. intros H. exfalso. apply H. left; reflexivity.
  - rewrite IH. split; [intros H [E|Hin]; [congruence|tauto] | tauto].
Qed.

Lemma m_lookup_app k m1 m2 :
  m_lookup k (m1 ++ m2) = match m_lookup k m1 with Some v => Some v | None => m_lookup k m2 end.
Proof. induction m1 as [|[k' v] m1 IH]; cbn; [reflexivity|]. destruct (keqb k' k); [reflexivity|exact IH]. Qed.

Lemma m_add_keys k v m x : In x (ekeys (m_add k v m)) <-> x = k \/ In x (ekeys m).
Proof.
  induction m as [|[k' v'] m IH]; cbn; [intuition congruence|].
  destruct (kltb_spec k' k); cbn.
  - rewrite IH. tauto.
  - destruct (keqb_spec k' k) as [->|Hne]; cbn; [|intuition congruence]. intuition congruence.
Qed.

Lemma m_add_sorted k v m : lsorted (ekeys m) -> lsorted (ekeys (m_add k v m)).
Proof.
  induction m as [|[k' v'] m IH]; intros Hs; [exact I|]. cbn.
  destruct (kltb_spec k' k) as [Hlt|Hge].
  - cbn. apply lsorted_cons; [|apply IH; exact (lsorted_tail _ _ Hs)].
    intros x Hin. fold (ekeys (m_add k v m)) in Hin. apply m_add_keys in Hin. destruct Hin as [->|Hin]; [exact Hlt|].
    exact (lsorted_lb k' _ Hs x Hin).
  - destruct (keqb_spec k' k) as [->|Hne]; [exact Hs|].
    cbn. split; [order|exact Hs].
Qed.

Lemma m_add_ne k v m : m_add k v m <> [].
Proof. destruct m as [|[k' v'] m]; cbn; [discriminate|]. destruct (kltb k' k); [discriminate|]. destruct (keqb k' k); discriminate. Qed.

Lemma m_remove_keys_incl k m x : In x (ekeys (m_remove k m)) -> In x (ekeys m).
Proof.
  induction m as [|[k' v'] m IH]; cbn; [tauto|].
  destruct (keqb k' k); cbn; [tauto|]. intros [H|H]; [auto|right; auto].
Qed.

Lemma m_remove_sorted k m : lsorted (ekeys m) -> lsorted (ekeys (m_remove k m)).
Proof.
  induction m as [|[k' v'] m IH]; intros Hs; [exact I|]. cbn.
  destruct (keqb k' k); [exact (lsorted_tail _ _ Hs)|].
  cbn. apply lsorted_cons; [|apply IH; exact (lsorted_tail _ _ Hs)].
  intros x Hin. apply (lsorted_lb k' _ Hs). exact (m_remove_keys_incl k m x Hin).
Qed.

Lemma m_remove_notin k m : ~ In k (ekeys m) -> m_remove k m = m.
Proof.
  induction m as [|[k' v'] m IH]; cbn; [reflexivity|]. intros H.
  destruct (keqb_spec k' k) as [->|Hne]; [tauto|]. f_equal. apply IH. tauto.
Qed.

(* lookups after add / remove: the sorted list behaves as a finite map *)
Lemma m_lookup_add k v m k' : lsorted (ekeys m) ->
  m_lookup k' (m_add k v m) =
  if keqb k k' then match m_lookup k m with Some x => Some x | None => Some v end else m_lookup k' m.
Proof.
  induction m as [|[k0 v0] m IH]; intros Hs; cbn.
  - destruct (keqb k k'); reflexivity.
  - destruct (kltb_spec k0 k) as [Hlt|Hge]; cbn.
    + rewrite (IH (lsorted_tail _ _ Hs)).
      destruct (keqb_spec k0 k') as [->|Hne]; destruct (keqb_spec k k') as [->|Hne']; try reflexivity; try order.
      destruct (keqb_spec k0 k'); [order|reflexivity].
    + destruct (keqb_spec k0 k) as [->|Hne]; cbn.
      * destruct (keqb_spec k k'); reflexivity.
      * destruct (keqb_spec k k') as [->|Hne']; [|reflexivity].
        destruct (keqb_spec k0 k'); [congruence|].
        assert (Hn : m_lookup k' m = None).
        { apply m_lookup_none. intros Hin. pose proof (lsorted_lb k0 _ Hs k' Hin). order. }
        rewrite Hn. reflexivity.
Qed.

Lemma m_lookup_remove k m k' : lsorted (ekeys m) ->
  m_lookup k' (m_remove k m) = if keqb k k' then None else m_lookup k' m.
Proof.
  induction m as [|[k0 v0] m IH]; intros Hs; cbn.
  - destruct (keqb k k'); reflexivity.
  - destruct (keqb_spec k0 k) as [->|Hne].
    + destruct (keqb_spec k k') as [->|Hne']; [|reflexivity].
      apply m_lookup_none. intros Hin. pose proof (lsorted_lb k' _ Hs k' Hin). order.
    + cbn. rewrite (IH (lsorted_tail _ _ Hs)).
      destruct (keqb_spec k0 k') as [->|Hne']; [|reflexivity].
      destruct (keqb_spec k k'); [congruence|reflexivity].
Qed.

(* add / remove / lookup distribute over a concatenation split at the right place *)
Lemma m_add_app_left k v m1 m2 : (exists x, In x (ekeys m1) /\ kle k x) -> lsorted (ekeys m1) ->
  m_add k v (m1 ++ m2) = m_add k v m1 ++ m2.
Proof.
  induction m1 as [|[k' v'] m1 IH]; intros (x & Hin & Hle) Hs; [destruct Hin|]. cbn.
  destruct (kltb_spec k' k) as [Hlt|Hge]; [|destruct (keqb k' k); reflexivity].
  cbn. f_equal. apply IH; [|exact (lsorted_tail _ _ Hs)].
  destruct Hin as [E|Hin]; [cbn in E; subst x; order|]. exists x. split; assumption.
Qed.

Lemma m_add_app_right k v m1 m2 : (forall x, In x (ekeys m1) -> klt x k) ->
  m_add k v (m1 ++ m2) = m1 ++ m_add k v m2.
Proof.
  induction m1 as [|[k' v'] m1 IH]; intros H; [reflexivity|]. cbn.
  assert (Hlt : klt k' k) by (apply H; left; reflexivity).
  destruct (kltb_spec k' k); [|order]. f_equal. apply IH. intros x Hin. apply H. right; exact Hin.
Qed.

Lemma m_remove_app_left k m1 m2 : In k (ekeys m1) -> m_remove k (m1 ++ m2) = m_remove k m1 ++ m2.
Proof.
  induction m1 as [|[k' v'] m1 IH]; intros Hin; [destruct Hin|]. cbn.
  destruct (keqb_spec k' k) as [->|Hne]; [reflexivity|]. cbn. f_equal. apply IH.
  destruct Hin as [E|Hin]; [cbn in E; congruence|exact Hin].
Qed.

Lemma m_remove_app_right k m1 m2 : ~ In k (ekeys m1) -> m_remove k (m1 ++ m2) = m1 ++ m_remove k m2.
Proof.
  induction m1 as [|[k' v'] m1 IH]; intros Hin; [reflexivity|]. cbn.
  destruct (keqb_spec k' k) as [->|Hne]; [exfalso; apply Hin; left; reflexivity|].
  f_equal. apply IH. intros H. apply Hin. right; exact H.
Qed.
