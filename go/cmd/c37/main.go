// Harness for C37: form export and fill round-trip.
//
//	K  the field states read off the real PDF (abs.go: V, DV, Opt, Ff, MaxLen, AA/F/JS format, appearance
//	   state names) go through the extracted model's export_form / api_fill and are compared with what
//	   api.ExportForm / api.FillForm really produce: the exported JSON, the field states after the fill,
//	   the export after the fill, and the outcome class (ok / noop = ErrNoFormFieldsAffected / err);
//	O  the property itself on the implementation: fill(export f) leaves every value unchanged; valid new
//	   values are reported by the next export; fields that are and stay locked keep their values; a second
//	   identical fill changes nothing; no panic.
//
// Forms are generated with pdfcpu's own api.Create from random JSON form descriptions (all six field
// types, random values / defaults / options / lock flags, one or two pages), further states are produced
// by editing the field dictionaries of a generated form (explicit /Opt radio groups, values with outer
// blanks, unnamed fields), and the sample forms of pkg/samples/form are used as they are.
package main

import (
	"bytes"
	"encoding/json"
	"errors"
	"fmt"
	"os"
	"path/filepath"
	"sort"
	"strings"
	"time"

	"github.com/pdfcpu/pdfcpu/pkg/api"
	"github.com/pdfcpu/pdfcpu/pkg/font"
	"github.com/pdfcpu/pdfcpu/pkg/pdfcpu/form"
	"github.com/pdfcpu/pdfcpu/pkg/pdfcpu/model"
	"github.com/pdfcpu/pdfcpu/pkg/pdfcpu/primitives"
	"github.com/pdfcpu/pdfcpu/pkg/pdfcpu/types"
	"verif/vh"
)

var r *vh.Run

func conf() *model.Configuration { return model.NewDefaultConfiguration() }

// ---- implementation wrappers ----

func realExport(pdf []byte) (fg *form.FormGroup, err error) {
	defer func() {
		if p := recover(); p != nil {
			err = fmt.Errorf("panic: %v", p)
		}
	}()
	fg, err = api.ExportForm(bytes.NewReader(pdf), "x.pdf", conf())
	if err == nil && len(fg.Forms) > 0 {
		// exportPageFields ranges over a map: fix the order so that a seed determines the run
		f := &fg.Forms[0]
		sort.SliceStable(f.TextFields, func(i, j int) bool { return idNum(f.TextFields[i].ID) < idNum(f.TextFields[j].ID) })
		sort.SliceStable(f.DateFields, func(i, j int) bool { return idNum(f.DateFields[i].ID) < idNum(f.DateFields[j].ID) })
		sort.SliceStable(f.CheckBoxes, func(i, j int) bool { return idNum(f.CheckBoxes[i].ID) < idNum(f.CheckBoxes[j].ID) })
		sort.SliceStable(f.RadioButtonGroups, func(i, j int) bool { return idNum(f.RadioButtonGroups[i].ID) < idNum(f.RadioButtonGroups[j].ID) })
		sort.SliceStable(f.ComboBoxes, func(i, j int) bool { return idNum(f.ComboBoxes[i].ID) < idNum(f.ComboBoxes[j].ID) })
		sort.SliceStable(f.ListBoxes, func(i, j int) bool { return idNum(f.ListBoxes[i].ID) < idNum(f.ListBoxes[j].ID) })
	}
	return fg, err
}

// realFill returns the output and "ok" | "noop" | "err" | "panic".
func realFill(pdf []byte, fg *form.FormGroup) (out []byte, status string, err error) {
	defer func() {
		if p := recover(); p != nil {
			out, status, err = nil, "panic", fmt.Errorf("panic: %v", p)
		}
	}()
	b, err := json.Marshal(fg)
	if err != nil {
		return nil, "err", err
	}
	var w bytes.Buffer
	err = api.FillForm(bytes.NewReader(pdf), bytes.NewReader(b), &w, conf())
	if err != nil {
		if errors.Is(err, api.ErrNoFormFieldsAffected) {
			return nil, "noop", err
		}
		return nil, "err", err
	}
	return w.Bytes(), "ok", nil
}

func cloneFG(fg *form.FormGroup) *form.FormGroup {
	b, _ := json.Marshal(fg)
	var c form.FormGroup
	if err := json.Unmarshal(b, &c); err != nil {
		panic(err)
	}
	return &c
}

// ---- random material ----

var alphabets = []string{
	"abcdefghijklmnopqrstuvwxyz", "ABCXYZ", "0123456789", " ", " ()\\<>&%#/[]{}", "äöüßéñçÅ", "ЖизньЯ", "αβγΩ", "-_.,;:!?'\"",
}

func word(min, max int) string {
	n := min + r.Rand.Intn(max-min+1)
	var sb strings.Builder
	for i := 0; i < n; i++ {
		a := []rune(alphabets[r.Rand.Intn(len(alphabets))])
		if r.Rand.Intn(3) > 0 {
			a = []rune(alphabets[0])
		}
		sb.WriteRune(a[r.Rand.Intn(len(a))])
	}
	return sb.String()
}

var dateExts = []string{"yyyy-mm-dd", "dd.mm.yyyy", "d.m.yyyy", "mm/dd/yyyy", "yyyy/m/d", "dd-mm-yyyy", "m-d-yyyy", "yyyy.dd.mm"}

func dateIn(ext string) string {
	df, err := primitives.DateFormatForFmtExt(ext)
	if err != nil {
		return ""
	}
	t := time.Date(1900+r.Rand.Intn(200), time.Month(1+r.Rand.Intn(12)), 1+r.Rand.Intn(28), 0, 0, 0, 0, time.UTC)
	return t.Format(df.Int)
}

func textValue(multiline bool, maxlen int) string {
	var s string
	switch r.Rand.Intn(12) {
	case 0:
		s = ""
	case 1:
		s = dateIn(dateExts[r.Rand.Intn(len(dateExts))]) // a text value that looks like a date
	case 2:
		s = " " + word(1, 6) + " "
	case 3:
		s = fmt.Sprint(r.Rand.Intn(1000))
	case 4:
		if multiline {
			s = word(1, 8) + "\n" + word(1, 8)
		} else {
			s = word(1, 12)
		}
	default:
		s = word(1, 14)
	}
	if maxlen > 0 {
		rr := []rune(s)
		if len(rr) > maxlen {
			s = string(rr[:maxlen])
		}
	}
	return s
}

var optionPool = []string{"female", "male", "non binary", "a", "b", "c d", "1", "0", "2", "Yes", "No", "x#y", "äö", "Жи", "A/B", "(p)", "10", "north", "south", "east", "west", "-1", "+1", "Ω"}

func options() []string {
	n := 2 + r.Rand.Intn(4)
	seen := map[string]bool{}
	var o []string
	for len(o) < n {
		s := optionPool[r.Rand.Intn(len(optionPool))]
		if r.Rand.Intn(6) == 0 {
			s = word(1, 6)
		}
		s = strings.TrimSpace(s)
		if s == "" || seen[s] {
			continue
		}
		seen[s] = true
		o = append(o, s)
	}
	return o
}

func subset(o []string) []string {
	var s []string
	for _, i := range r.Rand.Perm(len(o)) {
		if r.Rand.Intn(2) == 0 {
			s = append(s, o[i])
		}
	}
	return s
}

// ---- form generation through api.Create ----

type genInfo struct{ kinds map[string]int }

func genCreateJSON() ([]byte, genInfo) {
	info := genInfo{kinds: map[string]int{}}
	nPages := 1
	if r.Rand.Intn(5) == 0 {
		nPages = 2
	}
	pages := map[string]any{}
	nr := 0
	for p := 1; p <= nPages; p++ {
		content := map[string][]any{}
		y := 790.0
		nf := 1 + r.Rand.Intn(9)
		for i := 0; i < nf; i++ {
			nr++
			id := fmt.Sprintf("f%d", nr)
			if r.Rand.Intn(6) == 0 {
				id = fmt.Sprintf("Fld %d ä", nr)
			}
			locked := r.Rand.Intn(4) == 0
			f := map[string]any{"id": id, "locked": locked}
			h := 20.0
			switch r.Rand.Intn(7) {
			case 0, 1:
				ml := r.Rand.Intn(3) == 0
				maxlen := 0
				if !ml && r.Rand.Intn(3) == 0 {
					maxlen = 3 + r.Rand.Intn(12)
				}
				if ml {
					h = 50
					f["multiline"] = true
					f["height"] = h
				}
				if maxlen > 0 {
					f["maxlen"] = maxlen
				}
				if r.Rand.Intn(2) == 0 {
					f["value"] = textValue(ml, maxlen)
				}
				if r.Rand.Intn(4) == 0 {
					f["default"] = textValue(ml, maxlen)
				}
				f["width"] = 200
				content["textfield"] = append(content["textfield"], f)
				info.kinds["text"]++
			case 2:
				ext := dateExts[r.Rand.Intn(len(dateExts))]
				f["format"] = ext
				if r.Rand.Intn(2) == 0 {
					f["value"] = dateIn(ext)
				}
				if r.Rand.Intn(4) == 0 {
					f["default"] = dateIn(ext)
				}
				f["width"] = 100
				content["datefield"] = append(content["datefield"], f)
				info.kinds["date"]++
			case 3:
				f["value"] = r.Rand.Intn(2) == 0
				if r.Rand.Intn(3) == 0 {
					f["default"] = r.Rand.Intn(2) == 0
				}
				f["width"] = 12
				content["checkbox"] = append(content["checkbox"], f)
				info.kinds["checkbox"]++
			case 4:
				o := options()
				if r.Rand.Intn(4) > 0 {
					f["value"] = o[r.Rand.Intn(len(o))]
				}
				if r.Rand.Intn(4) == 0 {
					f["default"] = o[r.Rand.Intn(len(o))]
				}
				f["orientation"] = "hor"
				f["width"] = 12
				f["buttons"] = map[string]any{"values": o, "label": map[string]any{"value": "x", "width": 40, "gap": 5, "pos": "right"}}
				content["radiobuttongroup"] = append(content["radiobuttongroup"], f)
				info.kinds["radio"]++
			case 5:
				o := options()
				f["options"] = o
				if r.Rand.Intn(4) > 0 {
					f["value"] = o[r.Rand.Intn(len(o))]
				}
				if r.Rand.Intn(4) == 0 {
					f["default"] = o[r.Rand.Intn(len(o))]
				}
				f["edit"] = r.Rand.Intn(4) == 0
				f["width"] = 150
				content["combobox"] = append(content["combobox"], f)
				info.kinds["combo"]++
			case 6:
				o := options()
				f["options"] = o
				multi := r.Rand.Intn(2) == 0
				f["multi"] = multi
				if multi {
					if r.Rand.Intn(4) > 0 {
						f["values"] = subset(o)
					}
					if r.Rand.Intn(4) == 0 {
						f["defaults"] = subset(o)
					}
				} else {
					if r.Rand.Intn(4) > 0 {
						f["value"] = o[r.Rand.Intn(len(o))]
					}
					if r.Rand.Intn(4) == 0 {
						f["default"] = o[r.Rand.Intn(len(o))]
					}
				}
				h = 60
				f["width"] = 150
				f["height"] = h
				content["listbox"] = append(content["listbox"], f)
				info.kinds["list"]++
			}
			y -= h + 12
			f["pos"] = []float64{150, y}
		}
		pages[fmt.Sprint(p)] = map[string]any{"content": content}
	}
	doc := map[string]any{
		"paper": "A4P", "origin": "LowerLeft",
		"fonts": map[string]any{"input": map[string]any{"name": "Helvetica", "size": 10}, "label": map[string]any{"name": "Helvetica", "size": 10}},
		"pages": pages,
	}
	b, _ := json.Marshal(doc)
	return b, info
}

const directedJSON = `{
 "paper": "A4P", "origin": "LowerLeft",
 "fonts": {"input": {"name": "Helvetica", "size": 12}, "label": {"name": "Helvetica", "size": 12}},
 "pages": {"1": {"content": {
   "textfield": [
     {"id": "t1", "value": "Jackie", "pos": [180, 770], "width": 100, "maxlen": 10},
     {"id": "t2", "multiline": true, "pos": [180, 700], "width": 100, "height": 50, "default": "dd"},
     {"id": "t3", "value": "kept", "pos": [300, 770], "width": 100, "locked": true}
   ],
   "datefield": [ {"id": "d1", "pos": [180, 650], "width": 80, "format": "d.m.yyyy", "value": "1.2.2003"},
                  {"id": "d2", "pos": [300, 650], "width": 80, "format": "yyyy-mm-dd", "value": "2001-02-03", "locked": true} ],
   "checkbox": [ {"id": "c1", "value": true, "pos": [180, 620], "width": 12}, {"id": "c2", "value": false, "pos": [280, 620], "width": 12, "locked": true} ],
   "radiobuttongroup": [ {"id": "r2", "value": "a", "locked": true, "orientation": "hor", "pos": [70, 560], "width": 12, "buttons": {"values": ["a", "b"], "label": {"value": "x", "width": 50, "gap": 10, "pos": "right"}}},
     {"id": "r1", "value": "b", "orientation": "hor", "pos": [70, 590], "width": 12, "buttons": {"values": ["a", "b", "c d"], "label": {"value": "x", "width": 50, "gap": 10, "pos": "right"}}} ],
   "combobox": [ {"id": "co1", "value": "male", "options": ["female", "male", "non binary"], "edit": false, "pos": [150, 550], "width": 100},
                 {"id": "co2", "value": "female", "options": ["female", "male", "non binary"], "edit": false, "pos": [300, 550], "width": 100, "locked": true} ],
   "listbox": [ {"id": "l1", "value": "male", "options": ["female", "male", "non binary"], "multi": false, "pos": [150, 480], "width": 100, "height": 42},
                {"id": "l2", "values": ["male", "female"], "options": ["female", "male", "non binary"], "multi": true, "pos": [300, 480], "width": 100, "height": 42} ]
 }}}
}`

func createPDF(spec []byte) (pdf []byte, err error) {
	defer func() {
		if p := recover(); p != nil {
			err = fmt.Errorf("panic: %v", p)
		}
	}()
	var w bytes.Buffer
	if err := api.Create(nil, bytes.NewReader(spec), &w, conf()); err != nil {
		return nil, err
	}
	return w.Bytes(), nil
}

// ---- value mutation ----

type mutation struct {
	edge map[string]string // field id -> narrow edge class of the new value (deselect, …)
}

// mutateValid gives every field a random valid value for its type and flips some lock flags.
func mutateValid(f *form.Form, flipLocks bool, force string) mutation {
	m := mutation{edge: map[string]string{}}
	flip := func(l *bool) {
		if flipLocks && r.Rand.Intn(4) == 0 {
			*l = !*l
		}
	}
	for _, t := range f.TextFields {
		if r.Rand.Intn(5) > 0 {
			t.Value = textValue(t.Multiline, t.MaxLen)
		}
		flip(&t.Locked)
	}
	for _, t := range f.DateFields {
		if r.Rand.Intn(5) > 0 {
			t.Value = dateIn(t.Format)
		}
		flip(&t.Locked)
	}
	for _, t := range f.CheckBoxes {
		if force != "" {
			t.Value = !t.Value
		} else {
			t.Value = r.Rand.Intn(2) == 0
		}
		flip(&t.Locked)
	}
	for _, t := range f.RadioButtonGroups {
		switch {
		case force != "radio" && len(t.Options) > 0 && r.Rand.Intn(8) > 0:
			t.Value = t.Options[r.Rand.Intn(len(t.Options))]
		case force == "radio" || r.Rand.Intn(2) == 0:
			if t.Value != "" {
				m.edge[t.ID] = "radio-deselect"
			}
			t.Value = ""
		}
		flip(&t.Locked)
	}
	for _, t := range f.ComboBoxes {
		switch {
		case len(t.Options) > 0 && r.Rand.Intn(8) > 0:
			t.Value = t.Options[r.Rand.Intn(len(t.Options))]
		case r.Rand.Intn(2) == 0:
			t.Value = ""
		}
		flip(&t.Locked)
	}
	for _, t := range f.ListBoxes {
		switch {
		case t.Multi && r.Rand.Intn(8) > 0:
			t.Values = subset(t.Options)
		case force != "list" && !t.Multi && len(t.Options) > 0 && r.Rand.Intn(8) > 0:
			t.Values = []string{t.Options[r.Rand.Intn(len(t.Options))]}
		case force == "list" || r.Rand.Intn(2) == 0:
			if !t.Multi && len(t.Values) > 0 {
				m.edge[t.ID] = "listbox-single-deselect"
			}
			t.Values = nil
		}
		flip(&t.Locked)
	}
	return m
}

// mutateLockAndChange: every field toggles its lock flag AND gets a valid value different from the current
// one in the same fill (unlocked -> locked + new value is the transition every fill* function must honour).
func mutateLockAndChange(f *form.Form) {
	other := func(cur string, opts []string) string {
		for _, i := range r.Rand.Perm(len(opts)) {
			if opts[i] != cur {
				return opts[i]
			}
		}
		return cur
	}
	for _, t := range f.TextFields {
		for i := 0; i < 20; i++ {
			if v := textValue(t.Multiline, t.MaxLen); v != t.Value {
				t.Value = v
				break
			}
		}
		t.Locked = !t.Locked
	}
	for _, t := range f.DateFields {
		for i := 0; i < 20; i++ {
			if v := dateIn(t.Format); v != t.Value {
				t.Value = v
				break
			}
		}
		t.Locked = !t.Locked
	}
	for _, t := range f.CheckBoxes {
		t.Value = !t.Value
		t.Locked = !t.Locked
	}
	for _, t := range f.RadioButtonGroups {
		t.Value = other(t.Value, t.Options)
		t.Locked = !t.Locked
	}
	for _, t := range f.ComboBoxes {
		t.Value = other(t.Value, t.Options)
		t.Locked = !t.Locked
	}
	for _, t := range f.ListBoxes {
		cur := ""
		if len(t.Values) > 0 {
			cur = t.Values[0]
		}
		if o := other(cur, t.Options); o != cur {
			t.Values = []string{o}
		}
		t.Locked = !t.Locked
	}
}

// mutateInvalid plants values outside the options / formats (correspondence only).
func mutateInvalid(f *form.Form) {
	bad := func(opts []string) string {
		switch r.Rand.Intn(9) {
		case 0:
			return "1"
		case 1:
			return "nope"
		case 2:
			return " " + word(1, 4)
		case 3:
			return fmt.Sprint(len(opts)) // first index out of range
		case 4:
			return fmt.Sprint(len(opts) - 1)
		case 5:
			return "-1"
		case 6:
			return "+1"
		case 7:
			return "00"
		}
		return "7"
	}
	for _, t := range f.RadioButtonGroups {
		if r.Rand.Intn(2) == 0 {
			t.Value = bad(t.Options)
			if r.Rand.Intn(3) == 0 {
				t.Options = nil
			}
		}
	}
	for _, t := range f.ComboBoxes {
		if r.Rand.Intn(2) == 0 {
			t.Value = bad(t.Options)
			switch r.Rand.Intn(3) {
			case 0:
				t.Options = nil
			case 1:
				t.Editable = true
			}
		}
	}
	for _, t := range f.ListBoxes {
		if r.Rand.Intn(2) == 0 {
			t.Values = append(append([]string(nil), t.Values...), bad(t.Options))
			if r.Rand.Intn(3) == 0 {
				t.Options = nil
			}
		}
	}
	for _, t := range f.DateFields {
		if r.Rand.Intn(3) == 0 {
			t.Value = "31.31.31"
		}
	}
	// entries that match by name only / by id only / not at all
	rekey := func(id, name *string) {
		switch r.Rand.Intn(8) {
		case 0:
			*id = "9999"
		case 1:
			*id, *name = "9999", "nobody"
		case 2:
			*name = "nobody"
		}
	}
	for _, t := range f.TextFields {
		rekey(&t.ID, &t.Name)
	}
	for _, t := range f.DateFields {
		rekey(&t.ID, &t.Name)
	}
	for _, t := range f.CheckBoxes {
		rekey(&t.ID, &t.Name)
		t.Value = !t.Value
	}
	for _, t := range f.RadioButtonGroups {
		rekey(&t.ID, &t.Name)
	}
	for _, t := range f.ComboBoxes {
		rekey(&t.ID, &t.Name)
	}
	for _, t := range f.ListBoxes {
		rekey(&t.ID, &t.Name)
	}
}

// ---- one scenario ----

func candidates(fs []pfield, fgs ...*form.FormGroup) map[string]bool {
	c := map[string]bool{}
	for _, f := range fs {
		if f.tag == 'T' {
			if f.v != nil {
				c[*f.v] = true
			}
			if f.dv != nil {
				c[*f.dv] = true
			}
		}
	}
	for _, fg := range fgs {
		if fg == nil {
			continue
		}
		for _, f := range fg.Forms {
			for _, t := range f.TextFields {
				c[t.Value] = true
			}
			for _, t := range f.DateFields {
				c[t.Value] = true
			}
		}
	}
	return c
}

func valuesByID(fg *form.FormGroup) map[string]jentry {
	m := map[string]jentry{}
	for _, e := range jEntries(&fg.Forms[0]) {
		m[e.id] = e
	}
	return m
}

var typeName = map[byte]string{'T': "text", 'D': "date", 'C': "checkbox", 'R': "radio", 'O': "combo", 'L': "list"}

func input(origin string, pdf []byte, fg *form.FormGroup, extra map[string]any) map[string]any {
	in := map[string]any{"origin": origin, "pdf_hex": vh.Hex(pdf)}
	if fg != nil {
		b, _ := json.Marshal(fg)
		in["fill_json"] = string(b)
	}
	for k, v := range extra {
		in[k] = v
	}
	return in
}

// fillCase runs one fill on the implementation, records the correspondence cases and returns the
// output (or the input when nothing was written) and the export after the fill.
func fillCase(origin string, pdf []byte, p0 []pfield, fg *form.FormGroup, edge string) (after []byte, exp *form.FormGroup, status string) {
	tbl := dateTable(candidates(p0, fg))
	out, status, err := realFill(pdf, fg)
	jw := wJForm(jEntries(&fg.Forms[0]))
	r.Count("fill:" + status)
	switch status {
	case "panic":
		r.OracleFail("fill-panics:"+panicClass(err)+edge, input(origin, pdf, fg, nil), err.Error())
		r.Case("fill", []string{tbl, wPForm(p0), jw}, "err")
		return nil, nil, status
	case "err":
		r.Case("fill", []string{tbl, wPForm(p0), jw}, "err")
		r.Sample(map[string]any{"fill_error": err.Error()})
		return nil, nil, status
	case "noop":
		r.Case("fill", []string{tbl, wPForm(p0), jw}, "noop")
		after = pdf
	default:
		p1, err := abstractPDF(out)
		if err != nil {
			r.Count("skipped:abstract-after-fill")
			return nil, nil, "skip"
		}
		r.Case("fill", []string{tbl, wPForm(p0), jw}, "ok:"+wPForm(p1))
		after = out
	}
	exp, err = realExport(after)
	if err != nil {
		r.Case("fillexport", []string{tbl, wPForm(p0), jw}, "err")
		r.Count("export-after-fill:err")
		r.Sample(map[string]any{"export_after_fill_error": err.Error(), "origin": origin})
		return after, nil, status
	}
	// the table must also know the strings now stored in the form
	r.Case("fillexport", []string{dateTable(candidates(p0, fg, exp)), wPForm(p0), jw}, "ok:"+wJFormSorted(jEntries(&exp.Forms[0])))
	return after, exp, status
}

// pick: fields without /T are judged under one class of their own (their lookup matches any unnamed entry).
func pick(special, normal string) string {
	if special != "" {
		return special
	}
	return normal
}

func panicClass(err error) string {
	s := err.Error()
	switch {
	case strings.Contains(s, "index out of range"):
		return "index-out-of-range"
	case strings.Contains(s, "nil pointer"):
		return "nil-pointer"
	}
	return "other"
}

func scenario(origin string, pdf []byte, mutate bool) {
	p0, err := abstractPDF(pdf)
	r.Count("scenario:" + strings.SplitN(origin, ":", 2)[0])
	if err != nil {
		r.Count("skipped:" + origin + ":unsupported")
		r.Sample(map[string]any{"skipped": origin, "why": err.Error()})
		return
	}
	j0, err := realExport(pdf)
	tbl0 := dateTable(candidates(p0))
	if err != nil {
		r.Case("export", []string{tbl0, wPForm(p0)}, "err")
		r.Count("export:err")
		r.Sample(map[string]any{"export_error": err.Error(), "origin": origin})
		return
	}
	for _, f := range p0 {
		r.Count("field:" + string(f.tag) + ":locked=" + vh.Bool(f.locked))
	}
	e0 := jEntries(&j0.Forms[0])
	r.Case("export", []string{tbl0, wPForm(p0)}, "ok:"+wJFormSorted(e0))
	v0 := valuesByID(j0)
	locked0 := map[string]bool{}
	unnamed := map[string]string{}
	for _, f := range p0 {
		locked0[f.id] = f.locked
		if f.name == "" {
			unnamed[f.id] = "unnamed-field-takes-other-entry:"
		}
	}

	// O1: fill with the values just exported
	_, j1, st := fillCase(origin, pdf, p0, cloneFG(j0), "")
	if st == "err" {
		// an error writes nothing, so every value is kept; the correspondence case records the class
		r.Count("fill-exported:err")
	}
	if j1 == nil && (st == "ok" || st == "noop") {
		r.OracleFail("export-fails-after-fill-exported", input(origin, pdf, j0, nil), "api.ExportForm fails after filling with the exported data")
	}
	if j1 != nil {
		v1 := valuesByID(j1)
		for id, e := range v0 {
			if g, ok := v1[id]; !ok || g.value != e.value {
				r.OracleFail(pick(unnamed[id], "fill-exported-changes-value:")+typeName[e.tag], input(origin, pdf, j0, map[string]any{"field": id}),
					fmt.Sprintf("field %s: exported %q, after filling with the export %q", id, e.value, g.value))
			} else {
				r.OracleOK()
			}
		}
	}
	if !mutate {
		return
	}

	// O2/O3: fill with random valid values and lock flags
	for round := 0; round < 3; round++ {
		jv := cloneFG(j0)
		force := ""
		if strings.HasPrefix(origin, "directed") && round < 2 {
			force = []string{"list", "radio"}[round]
		}
		var mut mutation
		if round == 2 {
			mut = mutation{edge: map[string]string{}}
			mutateLockAndChange(&jv.Forms[0])
			r.Count("round:lock-transition-and-value-change")
		} else {
			mut = mutateValid(&jv.Forms[0], round == 1 && force == "", force)
		}
		hasEdge := func(ec string) bool {
			for _, c := range mut.edge {
				if c == ec {
					return true
				}
			}
			return false
		}
		edge := "" // narrows the class of a panic
		if hasEdge("listbox-single-deselect") {
			edge = ":listbox-single-deselect"
		}
		after, j2, st := fillCase(origin, pdf, p0, jv, edge)
		if st == "err" {
			r.OracleFail("fill-valid-values-fails", input(origin, pdf, jv, nil), "api.FillForm returned an error for valid values")
		}
		if j2 == nil {
			if st == "ok" || st == "noop" {
				cls := "export-fails-after-valid-fill"
				if hasEdge("radio-deselect") {
					cls += ":radio-deselect"
				}
				r.OracleFail(cls, input(origin, pdf, jv, nil), "api.ExportForm fails on the form that api.FillForm produced from valid values")
			}
			continue
		}
		want := valuesByID(jv)
		got := valuesByID(j2)
		for id, e := range want {
			g, ok := got[id]
			cls := typeName[e.tag]
			if ec := mut.edge[id]; ec != "" {
				cls = ec
				r.Count("edge:" + ec)
			}
			if ok && unnamed[id] == "" {
				// the lock flag of the fill data is what the next export reports (every type; also on unlock)
				if g.lock != e.lock {
					r.OracleFail("lock-flag-not-reported:"+typeName[e.tag], input(origin, pdf, jv, map[string]any{"field": id}),
						fmt.Sprintf("field %s: fill data locked=%v, exported locked=%v", id, e.lock, g.lock))
				} else {
					r.OracleOK()
				}
			}
			switch {
			case !locked0[id]:
				if e.lock && v0[id].value != e.value {
					r.Count("lock-and-change:" + typeName[e.tag])
				}
				if !ok || g.value != e.value {
					r.OracleFail(pick(unnamed[id], "valid-value-not-reported:")+cls, input(origin, pdf, jv, map[string]any{"field": id}),
						fmt.Sprintf("field %s: filled %q, exported %q", id, e.value, g.value))
				} else {
					r.OracleOK()
				}
			case e.lock:
				// locked before, still locked afterwards: the value must be the old one
				if !ok || g.value != v0[id].value {
					r.OracleFail(pick(unnamed[id], "locked-field-overwritten:")+typeName[e.tag], input(origin, pdf, jv, map[string]any{"field": id}),
						fmt.Sprintf("locked field %s: had %q, fill data %q, exported %q", id, v0[id].value, e.value, g.value))
				} else {
					r.OracleOK()
				}
			default:
				r.Count("unlock-and-fill:" + typeName[e.tag])
			}
		}
		// idempotence: the same data once more
		if st == "ok" {
			if p2, err := abstractPDF(after); err == nil {
				_, j3, st3 := fillCase(origin+":again", after, p2, jv, "")
				if j3 != nil {
					g3 := valuesByID(j3)
					for id, e := range got {
						if locked0[id] && !want[id].lock {
							continue // unlock-and-fill: not covered by the property
						}
						if g3[id].value != e.value {
							r.OracleFail(pick(unnamed[id], "second-fill-changes-value:")+typeName[e.tag], input(origin, after, jv, map[string]any{"field": id}),
								fmt.Sprintf("field %s: %q after the first fill, %q after the second", id, e.value, g3[id].value))
						} else {
							r.OracleOK()
						}
					}
				} else if st3 == "err" {
					r.Count("second-fill:err")
				}
			}
		}
	}

	// invalid data: correspondence only (outcome class and resulting states)
	jb := cloneFG(j0)
	mutateInvalid(&jb.Forms[0])
	fillCase(origin+":invalid", pdf, p0, jb, "")
}

// ---- edited forms: states api.Create never produces ----

var dropAllNames bool

func editedForms(pdf []byte) [][]byte {
	var outs [][]byte
	edit := func(fn func(ctx *model.Context, d types.Dict, ft string, ff int) bool) {
		ctx, err := readCtx(pdf)
		if err != nil {
			return
		}
		fields, err := form.Fields(ctx.XRefTable)
		if err != nil {
			return
		}
		changed := false
		for _, o := range fields {
			d, err := ctx.DereferenceDict(o)
			if err != nil || len(d) == 0 {
				continue
			}
			ft := d.NameEntry("FT")
			if ft == nil {
				continue
			}
			ff := 0
			if i := d.IntEntry("Ff"); i != nil {
				ff = *i
			}
			if fn(ctx, d, *ft, ff) {
				changed = true
			}
		}
		if !changed {
			return
		}
		var w bytes.Buffer
		if err := api.WriteContext(ctx, &w); err == nil {
			outs = append(outs, w.Bytes())
		}
	}
	lit := func(s string) types.StringLiteral {
		e, err := types.EscapedUTF16String(s)
		if err != nil {
			panic(err)
		}
		return types.StringLiteral(*e)
	}
	// radio groups with an explicit /Opt array: V and DV become indices
	edit(func(ctx *model.Context, d types.Dict, ft string, ff int) bool {
		kids := d.ArrayEntry("Kids")
		if ft == "Btn" && len(kids) == 0 && ff&ffPushbutton == 0 {
			// check box whose on state is not called Yes
			ap, err := ctx.DereferenceDict(d["AP"])
			if err != nil || len(ap) == 0 {
				return false
			}
			done := false
			for _, key := range []string{"N", "D"} {
				n, err := ctx.DereferenceDict(ap[key])
				if err != nil || len(n) == 0 {
					continue
				}
				if v, ok := n["Yes"]; ok {
					delete(n, "Yes")
					n["On"] = v
					done = true
				}
			}
			if !done {
				return false
			}
			for _, key := range []string{"V", "DV", "AS"} {
				if s := d.NameEntry(key); s != nil && *s == "Yes" {
					d[key] = types.Name("On")
				}
			}
			return true
		}
		if ft != "Btn" || len(kids) < 2 {
			return false
		}
		var opts types.Array
		idx := map[string]int{}
		for i, k := range kids {
			kd, err := ctx.DereferenceDict(k)
			if err != nil {
				return false
			}
			on, err := onState(ctx, kd)
			if err != nil || on == nil {
				return false
			}
			idx[*on] = i
			opts = append(opts, lit(*on))
			// rename the on state to the index, as viewers that write /Opt do
			ap, _ := ctx.DereferenceDict(kd["AP"])
			n, _ := ctx.DereferenceDict(ap["N"])
			enc := types.EncodeName(*on)
			if v, ok := n[enc]; ok {
				delete(n, enc)
				n[fmt.Sprint(i)] = v
			}
			if as := kd.NameEntry("AS"); as != nil && *as != "Off" {
				kd["AS"] = types.Name(fmt.Sprint(i))
			}
		}
		d["Opt"] = opts
		for _, key := range []string{"V", "DV"} {
			if s := d.NameEntry(key); s != nil && *s != "Off" {
				n, _ := types.DecodeName(*s)
				if i, ok := idx[n]; ok {
					d[key] = types.Name(fmt.Sprint(i))
				}
			}
		}
		return true
	})
	// choice values with outer blanks, text fields without /T
	edit(func(ctx *model.Context, d types.Dict, ft string, ff int) bool {
		switch ft {
		case "Ch":
			if a := d.ArrayEntry("Opt"); a != nil {
				// a blank option and one with outer blanks: parseOptions drops / trims them
				d["Opt"] = append(append(types.Array{lit("  ")}, a...), lit(" zz "), lit(""))
			}
			if ff&ffMultiselect != 0 {
				return true
			}
			if sl := d.StringLiteralEntry("V"); sl != nil {
				s, _ := types.StringLiteralToString(*sl)
				d["V"] = lit(" " + s + " ")
				return true
			}
		case "Tx":
			if dropAllNames || r.Rand.Intn(2) == 0 {
				d.Delete("T")
				return true
			}
		}
		return false
	})
	return outs
}

// ---- main ----

func setupFonts() {
	dir, err := os.MkdirTemp("", "c37fonts")
	if err != nil {
		panic(err)
	}
	font.UserFontDir = dir
	repo := os.Getenv("VERIF_REPO")
	if repo == "" {
		repo = "/repo"
	}
	if err := api.InstallFonts([]string{filepath.Join(repo, "pkg", "testdata", "fonts", "Roboto-Regular.ttf")}); err != nil {
		fmt.Fprintln(os.Stderr, "install fonts:", err)
	}
}

func samples() []string {
	repo := os.Getenv("VERIF_REPO")
	if repo == "" {
		repo = "/repo"
	}
	var l []string
	for _, dir := range []string{"demoSinglePage", "lock", "fill"} {
		m, _ := filepath.Glob(filepath.Join(repo, "pkg", "samples", "form", dir, "*.pdf"))
		l = append(l, m...)
	}
	sort.Strings(l)
	return l
}

func main() {
	api.DisableConfigDir()
	r = vh.Start("C37")
	defer r.Finish()
	setupFonts()
	defer os.RemoveAll(font.UserFontDir)

	// unit correspondence of the string helpers
	for _, s := range []string{"", " ", "a", " a", "a ", " a b ", " x ", "\tq\n", "\u0085z　", "x​"} {
		r.Case("trim", []string{wStr(s)}, wStr(strings.TrimSpace(s)))
	}

	for _, path := range samples() {
		pdf, err := os.ReadFile(path)
		if err != nil || len(pdf) == 0 {
			continue
		}
		name := filepath.Base(filepath.Dir(path)) + "/" + filepath.Base(path)
		latin := strings.Contains(name, "english") || strings.Contains(name, "person")
		scenario("sample:"+name, pdf, latin && (r.Thorough() || strings.Contains(name, "demoSinglePage")))
	}

	// a fixed form with every field type; deselection of single-select lists and radio groups is forced
	if pdf, err := createPDF([]byte(directedJSON)); err == nil {
		scenario("directed", pdf, true)
		dropAllNames = true
		ed := editedForms(pdf)
		dropAllNames = false
		for _, e := range ed {
			scenario("directed-edited", e, true)
		}
	} else {
		r.Count("create:directed-rejected")
	}

	n := r.Pick(14, 160)
	for i := 0; i < n; i++ {
		spec, info := genCreateJSON()
		pdf, err := createPDF(spec)
		if err != nil {
			r.Count("create:rejected")
			r.Sample(map[string]any{"create_error": err.Error()})
			continue
		}
		for k, c := range info.kinds {
			r.CountN("created:"+k, c)
		}
		scenario("generated", pdf, true)
		if i%3 == 0 {
			for _, e := range editedForms(pdf) {
				scenario("edited", e, true)
			}
		}
	}
}
