(* C02 — crash semantics on top of the M-FS model (C01/FS.v) and the staging protocols of C01/Model.v.
   No proofs here.

   Crash = the process is killed between two filesystem calls: the first k calls of the run are
   performed, nothing after them.  FS.v routes every filesystem call of every protocol through
   `call`, which consults the plan at the current call number; a call whose number is planned to fail
   has NO effect on the filesystem.  So the filesystem a kill after k calls leaves behind is the
   filesystem at the end of the run under `crash_plan k` (every call numbered >= k is ineffective; the
   control flow after the k-th call is fictitious and cannot touch the filesystem).  Lemmas
   call_before_crash / call_after_crash in Proofs.v state exactly this for `call`.

   Two more protocols are transcribed here (they are not part of C01's Model.v):
   api.writeCutOutputWith (pkg/api/cut.go) and cli.streamInOutForOperation/finalize (pkg/cli/io.go). *)
From stdpp Require Import gmap.
From Coq Require Import NArith String.
From PV Require Import C01.FS C01.Model.

Definition crash_plan (k : nat) : plan := fun j => Nat.leb k j.

Section Protocols.
Variable fault : plan.
Variable fresh : gmap positive file -> positive.

(* close the temporary output and remove it: the deferred closure of writeCutOutputWith when the
   function leaves before `closed = true` (`if !closed { f.Close() }; if !committed { remove(f.Name()) }`) *)
Definition close_remove (t : positive) (w : world) : world :=
  world_of (remove fault t (world_of (close fault t w))).

(* pkg/api/cut.go writeCutOutputWith(ctx, outFile, operation, ops):
     mode, exists, err := cutDestinationMode(outFile)       — stat; ErrNotExist: exists = false; other error: return
     f := ops.createTemp(Dir(outFile), "."+Base(outFile)+".tmp-*")   — O_RDWR|O_CREATE|O_EXCL 0666 on a random name
     defer { if !closed { f.Close() }; if !committed { remove(f.Name()) } }
     defer fault.Catch(&err)                                 — a panic of the body becomes an error
     if exists { f.Chmod(mode) }
     writeErr, flushErr := writeAndFlush(ctx, f); closeErr := f.Close(); closed = true
     if any error: return err;  rename(f.Name(), outFile) (error: return); committed = true *)
Definition cut_output (out : positive) (chunks : list bytes) (fin : ctl) (w : world) : ctl * world :=
  let go (md : option N) (w : world) : ctl * world :=
    match create_temp fault fresh mode_new w with
    | Fail _ w => (CErr, w)
    | Done t w =>
      match (match md with Some m => chmod fault t m w | None => Done tt w end) with
      | Fail _ w => (CErr, close_remove t w)
      | Done _ w =>
        let '(r, w) := body fault t chunks fin w in
        match r with
        | CPanic => (CErr, close_remove t w)
        | _ =>
          let o := close fault t w in
          if negb (ctl_eqb r COk) || failed o then (CErr, world_of (remove fault t (world_of o)))
          else match rename fault t out (world_of o) with
               | Fail _ w => (CErr, world_of (remove fault t w))
               | Done _ w => (COk, w)
               end
        end
      end
    end in
  match stat fault out w with
  | Fail ENOENT w => go None w
  | Fail _ w => (CErr, w)
  | Done fi w => go (Some (fmode fi)) w
  end.

(* pkg/cli/io.go createStreamOutput(fileName): (file, tmpFile, replaceOut) *)
Definition create_stream_output (out : positive) (w : world) : outcome (positive * option positive) :=
  match open_excl fault out w with
  | Done _ w => Done (out, None) w
  | Fail EEXIST w =>
    match stat fault out w with
    | Fail e w => Fail e w
    | Done fi w =>
      match create_temp fault fresh mode_tmp w with
      | Fail e w => Fail e w
      | Done t w =>
        match chmod fault t (fmode fi) w with
        | Fail e w => Fail e (close_remove t w)
        | Done _ w => Done (t, Some out) w
        end
      end
    end
  | Fail e w => Fail e w
  end.

(* streamInOutFinalizer.finalize(op, opErr) with a regular input file (temporaryIn == nil):
   close output; close input; on any error remove f.outFile (ENOENT tolerated) and return;
   replaceOut == "": done; ReplaceFile(outFile, replaceOut); on error remove outFile *)
Definition stream_finalize (t : positive) (dest : option positive) (inF : option positive)
           (opErr : bool) (w : world) : ctl * world :=
  let o := close fault t w in
  let w := world_of o in
  let '(inErr, w) := match inF with
                     | Some i => let o2 := close fault i w in (failed o2, world_of o2)
                     | None => (false, w) end in
  if opErr || failed o || inErr then (CErr, world_of (remove fault t w))
  else match dest with
       | None => (COk, w)
       | Some d => match rename fault t d w with
                   | Fail _ w => (CErr, world_of (remove fault t w))
                   | Done _ w => (COk, w)
                   end
       end.

(* streamInOutForOperation(inFile, outFile, op) followed by `return finalize(fn(rs, w))`
   (pkg/cli/content_exec.go, pages_exec.go): no defer — nothing runs when the body panics *)
Definition cli_stream (inF : option positive) (out : positive) (chunks : list bytes) (fin : ctl) (w : world)
  : ctl * world :=
  match (match inF with Some i => open_rd fault i w | None => Done tt w end) with
  | Fail _ w => (CErr, w)
  | Done _ w =>
    match create_stream_output out w with
    | Fail _ w => (CErr, match inF with Some i => world_of (close fault i w) | None => w end)
    | Done (t, dest) w =>
        with_cont (body fault t chunks fin)
                  (fun r w => stream_finalize t dest inF (negb (ctl_eqb r COk)) w) w
    end
  end.

(* ---------- every modelled protocol that can replace an existing file ---------- *)
Inductive proto :=
| PApi (k : key) (ins : list positive) (inF outF : option positive)   (* every single-output *File function of pkg/api *)
| PPdf (k : key) (input : option positive) (path : positive)          (* WriteContext / WriteReader / CopyFile *)
| PCut (out : positive)                                               (* writeCutOutputWith: cut / ndown / poster *)
| PCli (inF : option positive) (out : positive).                      (* cli stream output *)

Definition run_proto (P : proto) (chunks : list bytes) (fin : ctl) (w : world) : ctl * world :=
  match P with
  | PApi k ins inF outF => api_file fault fresh k ins inF outF chunks fin w
  | PPdf k input path => pdf_staged fault fresh k input path chunks fin w
  | PCut out => cut_output out chunks fin w
  | PCli inF out => cli_stream inF out chunks fin w
  end.
End Protocols.

(* the path the protocol publishes to *)
Definition dest_of (P : proto) : option positive :=
  match P with
  | PApi _ _ inF outF => match outF with
                         | Some o => if opt_eqb inF outF then inF else Some o
                         | None => inF end
  | PPdf _ _ path => Some path
  | PCut out => Some out
  | PCli _ out => Some out
  end.

(* the deferred decision commits only a body that returned nil: a completion flag (what every function
   of the regenerated C01 table uses), or the error variable / no defer with a body that does not panic.
   writeCutOutputWith converts panics into errors and cli_stream has no defer: no condition. *)
Definition key_ok (k : key) (fin : ctl) : Prop := k = KFlag \/ (k <> KAlways /\ fin <> CPanic).
Definition proto_ok (P : proto) (fin : ctl) : Prop :=
  match P with
  | PApi k _ _ _ => key_ok k fin
  | PPdf k _ _ => key_ok k fin
  | PCut _ => True
  | PCli _ _ => True
  end.

(* the filesystem left by a kill after the first k filesystem calls of the run that starts in m0 *)
Definition crash_state (fresh : gmap positive file -> positive) (P : proto) (chunks : list bytes) (fin : ctl)
           (m0 : gmap positive file) (k : nat) : gmap positive file :=
  wfs (snd (run_proto (crash_plan k) fresh P chunks fin (W m0 0 []))).

(* the uninterrupted run *)
Definition full_run (fresh : gmap positive file -> positive) (P : proto) (chunks : list bytes) (fin : ctl)
           (m0 : gmap positive file) : ctl * world :=
  run_proto nofault fresh P chunks fin (W m0 0 []).

(* ---------- staging-name patterns (instantiated by Generated.v from the Go sources) ---------- *)
(* how a staging site builds the directory and the name pattern it hands to CreateTemp, as a function of
   the destination path: tokens of the string concatenation *)
Inductive dtok := DDir | DOther.                       (* filepath.Dir(target) / anything else *)
Inductive ptok := PLit (s : list N) | PBase | POther.   (* "literal" / filepath.Base(target) / anything else *)
Record site := Site { site_dir : dtok; site_pat : list ptok }.

(* a path name = directory + base name (byte strings) *)
Record pname := PName { pn_dir : list N; pn_base : list N }.

(* the name CreateTemp(dir, pattern) / the O_EXCL retry loop creates: `*` (or the end of the prefix)
   replaced by a random suffix *)
Fixpoint render_pat (base suffix : list N) (l : list ptok) : option (list N) :=
  match l with
  | [] => Some []
  | PLit s :: r => match render_pat base suffix r with
                   | Some x => Some (flat_map (fun c => if N.eqb c 42 then suffix else [c]) s ++ x)
                   | None => None end
  | PBase :: r => match render_pat base suffix r with Some x => Some (base ++ x) | None => None end
  | POther :: _ => None
  end.
Definition render_site (s : site) (target : pname) (suffix : list N) : option pname :=
  match site_dir s, render_pat (pn_base target) suffix (site_pat s) with
  | DDir, Some b => Some (PName (pn_dir target) b)
  | _, _ => None
  end.

Fixpoint is_prefix (a b : list N) : bool :=
  match a, b with
  | [] , _ => true
  | x :: a', y :: b' => N.eqb x y && is_prefix a' b'
  | _ :: _, [] => false
  end.
Fixpoint bytes_eqb (a b : list N) : bool :=
  match a, b with
  | [], [] => true
  | x :: a', y :: b' => N.eqb x y && bytes_eqb a' b'
  | _, _ => false
  end.
(* ".<base>.tmp-" *)
Definition hidden_prefix (base : list N) : list N := 46%N :: base ++ [46; 116; 109; 112; 45]%N.
(* hidden staging file next to the destination *)
Definition hidden_next_to (target n : pname) : bool :=
  bytes_eqb (pn_dir n) (pn_dir target)
  && is_prefix (hidden_prefix (pn_base target)) (pn_base n).

(* the shape every site must have: Dir(target), "." Base(target) ".tmp-…" *)
Definition site_shape_ok (s : site) : bool :=
  match site_dir s, site_pat s with
  | DDir, [PLit a; PBase; PLit b] => bytes_eqb a [46%N] && is_prefix [46; 116; 109; 112; 45]%N b
  | _, _ => false
  end.

(* how a publish site looks at and opens its output (instantiated by Generated.v from the Go sources):
   every os.Stat (follows symlinks: the destination's mode and existence are those of the file the path
   resolves to) / os.Lstat call, and the os.O_* flag set of every OpenFile call *)
Inductive statk := SStat | SLstat.
Record pubsite := PubSite { ps_stats : list statk; ps_opens : list (list string) }.
Definition has_flag (f : string) (l : list string) : bool := existsb (String.eqb f) l.
(* an open that can only CREATE a file that does not exist (O_CREATE|O_EXCL fails on any existing name, also
   a symlink) and never truncates or appends *)
Definition open_exclusive (l : list string) : bool :=
  has_flag "O_CREATE" l && has_flag "O_EXCL" l &&
  negb (has_flag "O_TRUNC" l) && negb (has_flag "O_APPEND" l) && negb (has_flag "OTHER" l).
Definition pubsite_ok (s : pubsite) : bool :=
  forallb (fun k => match k with SStat => true | SLstat => false end) (ps_stats s) &&
  forallb open_exclusive (ps_opens s).

(* ---------- entry points for the correspondence harness ---------- *)
(* an arbitrary plan (the glue builds: one failing call, e.g. the CreateTemp call, combined with a cut) *)
Definition run_c02_plan (pl : plan) (P : proto) (init : list (positive * file)) (chunks : list bytes) (fin : ctl)
  : ctl * world :=
  run_proto pl fresh_hi P chunks fin (W (fs_of_list init) 0 []).
Definition run_c02 (n : option nat) (P : proto) (init : list (positive * file)) (chunks : list bytes) (fin : ctl)
  : ctl * world :=
  run_proto (match n with Some k => crash_plan k | None => nofault end) fresh_hi P chunks fin (W (fs_of_list init) 0 []).
