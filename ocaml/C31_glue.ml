(* C31 glue.  Strings are hex pairs; a token list is hex strings joined by ',' ("nil" = no tokens). *)
open Model
open Common
let toks_of_string (s : string) : n list list =
  if s = "nil" then [] else List.map bytes_of_hex (String.split_on_char ',' s)
let string_of_toks (l : n list list) : string =
  match l with [] -> "nil" | _ -> String.concat "," (List.map hex_of_bytes l)
let string_of_smap (m : (z * bool) list) : string =
  String.concat "," (List.map (fun (k, v) -> hex_of_z k ^ (if v then "=t" else "=f")) m)
let dispatch fn args = match fn, args with
  | "parse", [s] ->
    (match parsePageSelection (bytes_of_hex s) with None -> "err" | Some l -> "ok:" ^ string_of_toks l)
  | "syn", [s] -> str_of_bool (in_syntax (bytes_of_hex s))
  | "sel", [n; toks; ens] ->
    (match pagesForPageSelection (z_of_hex n) (toks_of_string toks) (bool_of_str ens) with
     | Err -> "err" | Ok None -> "ok:nil" | Ok (Some m) -> "ok:" ^ string_of_smap m)
  | "rem", [n; toks] ->
    (match remainingPagesForPageRemoval (z_of_hex n) (toks_of_string toks) with
     | Err -> "err" | Ok m -> "ok:" ^ string_of_smap m)
  | "col", [n; toks] ->
    (match pagesForPageCollection (z_of_hex n) (toks_of_string toks) with
     | CErrToken -> "err:token" | CErrNoPage -> "err:nopage" | COk l -> "ok:" ^ string_of_zlist l)
  | _ -> failwith ("unknown function " ^ fn)
let () = main dispatch
