// Harness for C01: a failed or aborted operation never damages or leaves behind files.
//
// (a) correspondence + oracle on the real staging helpers driven with a recording/faulting
//     operation table (api.stagedOutput through the verif export, pdfcpu.finishStagedFile/
//     writeReader), for every fault index and every path relation: final directory + call trace
//     of the real run are compared with the extracted model's run.
// (b) whole public operations on a real temp directory with a panicking logger at each log-call
//     index, with failing writers/readers, and multi-output operations: the directory is
//     snapshotted before/after and must be unchanged when the call fails.
package main

import (
	"errors"
	"fmt"
	"os"
	"path/filepath"
	"sort"
	"strings"
	"syscall"

	"github.com/pdfcpu/pdfcpu/pkg/api"
	"verif/vh"
)

const scratch = "/tmp/c01-scratch"

var errIO = errors.New("injected EIO")

// names of the model's paths
var pathName = map[int]string{1: "", 2: "in.pdf", 3: "out.pdf", 4: "in2.pdf", 5: "other.dat"}

func canon(name string) string {
	if name == "" {
		return "1"
	}
	b := filepath.Base(name)
	for id, n := range pathName {
		if n == b {
			return fmt.Sprintf("%x", id)
		}
	}
	return "T"
}

func cls(err error) string {
	switch {
	case err == nil:
		return "ok"
	case errors.Is(err, errIO):
		return "eio"
	case errors.Is(err, os.ErrExist):
		return "eexist"
	case errors.Is(err, os.ErrNotExist):
		return "enoent"
	}
	return "eio"
}

type fsEntry struct {
	id   int
	mode os.FileMode
	data []byte
}

// world of one real run: call counter, fault index, trace
type env struct {
	dir     string
	n       int
	faultAt int
	trace   []string
}

func (e *env) fault() bool {
	i := e.n
	e.n++
	return i == e.faultAt
}
func (e *env) rec(op, args string, err error) {
	e.trace = append(e.trace, op+"("+args+")="+cls(err))
}
func (e *env) path(id int) string {
	if id == 0 || pathName[id] == "" {
		return ""
	}
	return filepath.Join(e.dir, pathName[id])
}

func (e *env) ops() api.VerifFileOps {
	return api.VerifFileOps{
		OpenExclusive: func(name string, flag int, perm os.FileMode) (*os.File, error) {
			if e.fault() {
				e.rec("openx", canon(name), errIO)
				return nil, errIO
			}
			f, err := os.OpenFile(name, flag, perm)
			e.rec("openx", canon(name), err)
			return f, err
		},
		CreateTemp: func(dir, pattern string) (*os.File, error) {
			if e.fault() {
				e.rec("mktemp", "T", errIO)
				return nil, errIO
			}
			f, err := os.CreateTemp(dir, pattern)
			e.rec("mktemp", "T", err)
			return f, err
		},
		Stat: func(name string) (os.FileInfo, error) {
			if e.fault() {
				e.rec("stat", canon(name), errIO)
				return nil, errIO
			}
			fi, err := os.Stat(name)
			e.rec("stat", canon(name), err)
			return fi, err
		},
		Chmod: func(f *os.File, mode os.FileMode) error {
			if e.fault() {
				e.rec("chmod", canon(f.Name()), errIO)
				return errIO
			}
			err := f.Chmod(mode)
			e.rec("chmod", canon(f.Name()), err)
			return err
		},
		Close: func(f *os.File) error { return e.closeFile(f) },
		Remove: func(name string) error {
			if e.fault() {
				e.rec("remove", canon(name), errIO)
				return errIO
			}
			err := os.Remove(name)
			e.rec("remove", canon(name), err)
			return err
		},
		Replace: func(a, b string) error {
			if e.fault() {
				e.rec("rename", canon(a)+","+canon(b), errIO)
				return errIO
			}
			err := os.Rename(a, b)
			e.rec("rename", canon(a)+","+canon(b), err)
			return err
		},
	}
}

var leaked []*os.File // files whose close was faulted; closed at the end of the case

func (e *env) closeFile(f *os.File) error {
	if e.fault() {
		e.rec("close", canon(f.Name()), errIO)
		leaked = append(leaked, f)
		return errIO
	}
	err := f.Close()
	e.rec("close", canon(f.Name()), err)
	return err
}

func (e *env) openRd(name string) (*os.File, error) {
	if e.fault() {
		e.rec("openrd", canon(name), errIO)
		return nil, errIO
	}
	f, err := os.Open(name)
	e.rec("openrd", canon(name), err)
	return f, err
}

func (e *env) write(f *os.File, b []byte) error {
	if e.fault() {
		e.rec("write", canon(f.Name()), errIO)
		return errIO
	}
	_, err := f.Write(b)
	e.rec("write", canon(f.Name()), err)
	return err
}

// body: chunk writes, then ok / err / panic
func (e *env) body(f *os.File, chunks [][]byte, fin string) error {
	for _, c := range chunks {
		if err := e.write(f, c); err != nil {
			return err
		}
	}
	switch fin {
	case "err":
		return errors.New("processing failed")
	case "panic":
		panic("injected panic in body")
	}
	return nil
}

// snapshot of a directory: canonical name : mode : hex contents, sorted by canonical name
func snapshot(dir string) string {
	ents, err := os.ReadDir(dir)
	if err != nil {
		return "ERR:" + err.Error()
	}
	var l []string
	for _, de := range ents {
		p := filepath.Join(dir, de.Name())
		fi, err := os.Lstat(p)
		if err != nil {
			l = append(l, canon(de.Name())+":?:")
			continue
		}
		if fi.IsDir() {
			l = append(l, canon(de.Name())+":dir:")
			continue
		}
		b, _ := os.ReadFile(p)
		l = append(l, fmt.Sprintf("%s:%x:%s", canon(de.Name()), uint32(fi.Mode().Perm()), vh.Hex(b)))
	}
	sort.Strings(l)
	return strings.Join(l, ";")
}

// raw snapshot with real names (for whole-operation runs)
func rawSnapshot(dir string) string {
	var l []string
	filepath.Walk(dir, func(p string, fi os.FileInfo, err error) error {
		if err != nil || p == dir {
			return nil
		}
		rel, _ := filepath.Rel(dir, p)
		if fi.IsDir() {
			l = append(l, rel+"/")
			return nil
		}
		b, _ := os.ReadFile(p)
		l = append(l, fmt.Sprintf("%s:%o:%d:%x", rel, uint32(fi.Mode().Perm()), len(b), fnv(b)))
		return nil
	})
	sort.Strings(l)
	return strings.Join(l, ";")
}

func fnv(b []byte) uint64 {
	h := uint64(14695981039346656037)
	for _, c := range b {
		h ^= uint64(c)
		h *= 1099511628211
	}
	return h
}

func mkdir(r *vh.Run, tag string, n int) string {
	d := filepath.Join(scratch, fmt.Sprintf("%s-%d-%d", tag, os.Getpid(), n))
	os.RemoveAll(d)
	if err := os.MkdirAll(d, 0o755); err != nil {
		panic(err)
	}
	return d
}

func populate(dir string, init []fsEntry) {
	for _, f := range init {
		p := filepath.Join(dir, pathName[f.id])
		if err := os.WriteFile(p, f.data, 0o644); err != nil {
			panic(err)
		}
		if err := os.Chmod(p, f.mode); err != nil {
			panic(err)
		}
	}
}

func fsArg(init []fsEntry) string {
	var l []string
	for _, f := range init {
		l = append(l, fmt.Sprintf("%x:%x:%s", f.id, uint32(f.mode), vh.Hex(f.data)))
	}
	return strings.Join(l, ";")
}
func idArg(id int) string {
	if id == 0 {
		return "-"
	}
	return fmt.Sprintf("%x", id)
}
func idsArg(ids []int) string {
	var l []string
	for _, i := range ids {
		l = append(l, fmt.Sprintf("%x", i))
	}
	return strings.Join(l, ",")
}
func chunksArg(chunks [][]byte) string {
	var l []string
	for _, c := range chunks {
		if len(c) == 0 {
			l = append(l, ".")
		} else {
			l = append(l, vh.Hex(c))
		}
	}
	return strings.Join(l, ",")
}
func faultArg(n int) string {
	if n < 0 {
		return "-"
	}
	return fmt.Sprintf("%x", n)
}

func closeLeaked() {
	for _, f := range leaked {
		f.Close()
	}
	leaked = nil
}

func main() {
	if len(os.Args) >= 5 && os.Args[1] == "--c01-child" {
		childMain(os.Args[2:])
		return
	}
	r := vh.Start("C01")
	defer r.Finish()
	api.DisableConfigDir()
	syscall.Umask(0o022)
	os.MkdirAll(scratch, 0o755)
	defer func() {
		ents, _ := filepath.Glob(filepath.Join(scratch, fmt.Sprintf("*-%d-*", os.Getpid())))
		for _, e := range ents {
			os.RemoveAll(e)
		}
	}()
	partAPIStaged(r)
	partPdfStaged(r)
	partWholeOps(r)
	partMultiFill(r)
	partAttachments(r)
	partStraceFchmod(r)
}
