(* C26 — proofs. *)
From Coq Require Import ZArith NArith List Bool Lia String.
From PV Require Import C26.Generated C26.Spec C26.Model C26.Audit.
Import ListNotations.
Open Scope Z_scope.

(* ------------------------------------------------------------------ bit facts (all P : Z) *)

Lemma land_pow2 : forall P k, 0 <= k ->
  Z.land P (2 ^ k) = if Z.testbit P k then 2 ^ k else 0.
Proof.
  intros P k Hk. apply Z.bits_inj'. intros n Hn.
  rewrite Z.land_spec, Z.pow2_bits_eqb by exact Hk.
  destruct (Z.eqb_spec k n) as [Heq|Hne].
  - subst n. destruct (Z.testbit P k).
    + rewrite Z.pow2_bits_true by exact Hk. reflexivity.
    + rewrite Z.bits_0. reflexivity.
  - rewrite andb_false_r. destruct (Z.testbit P k).
    + rewrite Z.pow2_bits_false by exact Hne. reflexivity.
    + rewrite Z.bits_0. reflexivity.
Qed.

Lemma land_pow2_eqb0 : forall P k, 0 <= k ->
  (Z.land P (2 ^ k) =? 0) = negb (Z.testbit P k).
Proof.
  intros P k Hk. rewrite land_pow2 by exact Hk.
  destruct (Z.testbit P k); simpl.
  - apply Z.eqb_neq. assert (0 < 2 ^ k) by (apply Z.pow_pos_nonneg; lia). lia.
  - reflexivity.
Qed.

(* ------------------------------------------------------------------ association list facts *)

Fixpoint nodupb (l : list Z) : bool :=
  match l with
  | [] => true
  | x :: tl => negb (existsb (Z.eqb x) tl) && nodupb tl
  end.

Lemma nodupb_sound : forall l, nodupb l = true -> NoDup l.
Proof.
  induction l as [|x tl IH]; intros Hb.
  - constructor.
  - simpl in Hb. apply andb_true_iff in Hb. destruct Hb as [Hx Htl].
    constructor.
    + intro Hin. apply negb_true_iff in Hx.
      assert (Hex : existsb (Z.eqb x) tl = true).
      { apply existsb_exists. exists x. split; [exact Hin | apply Z.eqb_refl]. }
      congruence.
    + apply IH. exact Htl.
Qed.

Lemma lookup_of_In : forall (l : list (Z * (Z * Z))) k v,
  NoDup (map fst l) -> In (k, v) l -> perm_lookup l k = Some v.
Proof.
  induction l as [|[k0 v0] tl IH]; intros k v Hnd Hin.
  - destruct Hin.
  - simpl in Hnd. inversion Hnd as [|x xs Hnotin Hnd']; subst.
    simpl. destruct Hin as [Heq|Hin].
    + inversion Heq; subst. rewrite Z.eqb_refl. reflexivity.
    + destruct (Z.eqb_spec k0 k) as [Hk|Hk].
      * subst k0. exfalso. apply Hnotin.
        change k with (fst (k, v)). apply in_map. exact Hin.
      * apply IH; assumption.
Qed.

Lemma In_of_lookup : forall (l : list (Z * (Z * Z))) k v,
  perm_lookup l k = Some v -> In (k, v) l.
Proof.
  induction l as [|[k0 v0] tl IH]; intros k v Hl.
  - discriminate.
  - simpl in Hl. destruct (Z.eqb_spec k0 k) as [Hk|Hk].
    + inversion Hl; subst. left. reflexivity.
    + right. apply IH. exact Hl.
Qed.

Lemma perm_keys_nodup : NoDup (map fst perm_table).
Proof. apply nodupb_sound. vm_compute. reflexivity. Qed.

Lemma perm_lookup_row : forall mode e m,
  In (mode, (e, m)) perm_table -> perm_lookup perm_table mode = Some (e, m).
Proof. intros mode e m Hin. apply lookup_of_In; [exact perm_keys_nodup | exact Hin]. Qed.

(* ------------------------------------------------------------------ hasNeededPermissions *)

(* what the table-driven code computes, in terms of the specification's bits *)
Definition refuses (e m P R : Z) : bool :=
  (negb (e =? 0) && denies_extract P R) || (negb (m =? 0) && denies_modify P R).

Lemma hasNeeded_of_row : forall mode e m P R,
  perm_lookup perm_table mode = Some (e, m) ->
  hasNeededPermissions mode P R = negb (refuses e m P R).
Proof.
  intros mode e m P R Hl.
  unfold hasNeededPermissions, maskExtract, maskModify, refuses,
    denies_extract, denies_modify, has_bit, extract_pos, modify_pos,
    bit_extract, bit_extract_accessibility, bit_modify, bit_assemble.
  rewrite Hl. cbn [fst snd].
  destruct (e =? 0); destruct (m =? 0); destruct (R >=? 3); cbn [negb andb orb Z.gtb Z.compare];
    try reflexivity;
    change 512 with (2 ^ 9); change 16 with (2 ^ 4);
    change 1024 with (2 ^ 10); change 8 with (2 ^ 3);
    rewrite ?land_pow2_eqb0 by lia;
    change (10 - 1) with 9; change (5 - 1) with 4; change (11 - 1) with 10; change (4 - 1) with 3;
    repeat match goal with |- context [Z.testbit P ?k] => destruct (Z.testbit P k) end;
    reflexivity.
Qed.

Lemma hasNeeded_no_row : forall mode P R,
  perm_lookup perm_table mode = None -> hasNeededPermissions mode P R = true.
Proof.
  intros mode P R Hl. unfold hasNeededPermissions, maskExtract, maskModify. rewrite Hl. reflexivity.
Qed.

Lemma needs_iff_refused : forall mode e m, In (mode, (e, m)) perm_table -> forall P R,
  hasNeededPermissions mode P R = false <->
  ((e <> 0 /\ denies_extract P R = true) \/ (m <> 0 /\ denies_modify P R = true)).
Proof.
  intros mode e m Hin P R.
  rewrite (hasNeeded_of_row mode e m P R (perm_lookup_row _ _ _ Hin)).
  unfold refuses. rewrite negb_false_iff, orb_true_iff, !andb_true_iff, !negb_true_iff, !Z.eqb_neq.
  reflexivity.
Qed.

(* ------------------------------------------------------------------ the access path *)

(* a non-empty user password -- whatever its bytes, blanks included -- counts as supplied credentials *)
Lemma supplied_of_nonempty_upw : forall opw upw, upw <> [] -> noCredentialsSupplied opw upw = false.
Proof.
  intros opw upw Hne. unfold noCredentialsSupplied, pw_empty.
  destruct upw as [|b tl]; [contradiction|]. apply andb_false_r.
Qed.

(* no owner password supplied: the owner is not authenticated for revision 5 and 6, whatever /O says *)
Lemma no_owner_password_not_authenticated : forall R ownerMatches, R = 5 \/ R = 6 ->
  validateOwnerPassword R [] ownerMatches = false.
Proof.
  intros R ownerMatches [HR|HR]; subst R; unfold validateOwnerPassword; reflexivity.
Qed.

Lemma wrong_owner_password_not_authenticated : forall R opw, validateOwnerPassword R opw false = false.
Proof.
  intros R opw. unfold validateOwnerPassword.
  destruct (R =? 5); [destruct (validateOwnerPasswordAES256_noOwnerPW opw); reflexivity|].
  destruct (R =? 6); [destruct (validateOwnerPasswordAES256Rev6_noOwnerPW opw); reflexivity|].
  reflexivity.
Qed.

Lemma user_password_access : forall mode e m, In (mode, (e, m)) perm_table ->
  forall ownerMatches opw upw P R, upw <> [] -> validateOwnerPassword R opw ownerMatches = false ->
  checkForEncryption true ownerMatches true true opw upw mode P R =
    if rejectsEncrypted mode then EncryptedUnsupported
    else if needsOwnerAndUserPassword mode then OwnerRequired
    else if refuses e m P R then Denied else Proceed.
Proof.
  intros mode e m Hin ownerMatches opw upw P R Hne Hown.
  unfold checkForEncryption, setupAccess, handlePermissions. rewrite Hown. cbn [negb andb].
  rewrite (hasNeeded_of_row mode e m P R (perm_lookup_row _ _ _ Hin)).
  rewrite (supplied_of_nonempty_upw opw upw Hne).
  destruct (rejectsEncrypted mode); [reflexivity|].
  destruct (needsOwnerAndUserPassword mode); cbn [negb andb]; [reflexivity|].
  rewrite negb_involutive. reflexivity.
Qed.

Lemma user_password_access_no_row : forall mode, perm_lookup perm_table mode = None ->
  forall ownerMatches opw upw P R, upw <> [] -> validateOwnerPassword R opw ownerMatches = false ->
  checkForEncryption true ownerMatches true true opw upw mode P R =
    if rejectsEncrypted mode then EncryptedUnsupported
    else if needsOwnerAndUserPassword mode then OwnerRequired
    else Proceed.
Proof.
  intros mode Hl ownerMatches opw upw P R Hne Hown.
  unfold checkForEncryption, setupAccess, handlePermissions. rewrite Hown. cbn [negb andb].
  rewrite (hasNeeded_no_row mode P R Hl).
  rewrite (supplied_of_nonempty_upw opw upw Hne).
  destruct (rejectsEncrypted mode); [reflexivity|].
  destruct (needsOwnerAndUserPassword mode); cbn [negb andb]; reflexivity.
Qed.

(* the consequence for the property: a revision 5/6 document opened WITHOUT an owner password goes through
   the permission check even when its owner password is the empty string (ownerMatches = true) *)
Lemma no_owner_password_consults_permissions : forall mode e m, In (mode, (e, m)) perm_table ->
  forall ownerMatches upw P R, R = 5 \/ R = 6 -> upw <> [] ->
  checkForEncryption true ownerMatches true true [] upw mode P R =
    if rejectsEncrypted mode then EncryptedUnsupported
    else if needsOwnerAndUserPassword mode then OwnerRequired
    else if refuses e m P R then Denied else Proceed.
Proof.
  intros mode e m Hin ownerMatches upw P R HR Hne.
  apply (user_password_access mode e m Hin ownerMatches [] upw P R Hne).
  apply no_owner_password_not_authenticated. exact HR.
Qed.

(* commands that insist on both passwords have no permission requirement in the table *)
Definition both_free_row (r : Z * (Z * Z)) : bool :=
  negb (needsOwnerAndUserPassword (fst r)) || ((fst (snd r) =? 0) && (snd (snd r) =? 0)).

Lemma needsBoth_rows_free : forallb both_free_row perm_table = true.
Proof. vm_compute. reflexivity. Qed.

Lemma needsBoth_hasNeeded : forall mode P R,
  needsOwnerAndUserPassword mode = true -> hasNeededPermissions mode P R = true.
Proof.
  intros mode P R Hnb.
  destruct (perm_lookup perm_table mode) as [[e m]|] eqn:Hl.
  - pose proof (proj1 (forallb_forall _ _) needsBoth_rows_free _ (In_of_lookup _ _ _ Hl)) as Hrow.
    unfold both_free_row in Hrow. cbn [fst snd] in Hrow. rewrite Hnb in Hrow. cbn [negb orb] in Hrow.
    apply andb_true_iff in Hrow. destruct Hrow as [He Hm].
    rewrite (hasNeeded_of_row mode e m P R Hl). unfold refuses. rewrite He, Hm. reflexivity.
  - apply hasNeeded_no_row. exact Hl.
Qed.

Lemma owner_never_denied : forall encrypted ownerMatches userOK permsOK opw upw mode P R,
  validateOwnerPassword R opw ownerMatches = true ->
  checkForEncryption encrypted ownerMatches userOK permsOK opw upw mode P R <> Denied.
Proof.
  intros encrypted ownerMatches userOK permsOK opw upw mode P R Hown.
  unfold checkForEncryption, handleUnencryptedFile, setupAccess, handlePermissions. rewrite Hown. cbn [negb andb].
  destruct encrypted; cbn [negb].
  - destruct (rejectsEncrypted mode); [discriminate|].
    destruct (needsOwnerAndUserPassword mode) eqn:Hnb; cbn [negb].
    + rewrite (needsBoth_hasNeeded mode P R Hnb).
      destruct userOK, permsOK, (noCredentialsSupplied opw upw); discriminate.
    + destruct permsOK; discriminate.
  - destruct ((mode =? CM_DECRYPT) || (mode =? CM_SETPERMISSIONS)); [discriminate|].
    destruct (mode =? CM_ENCRYPT); cbn [negb]; [|discriminate].
    destruct (pw_empty opw); discriminate.
Qed.

Lemma unencrypted_never_denied : forall ownerOK userOK permsOK opw upw mode P R,
  checkForEncryption false ownerOK userOK permsOK opw upw mode P R <> Denied.
Proof.
  intros ownerOK userOK permsOK opw upw mode P R.
  unfold checkForEncryption, handleUnencryptedFile. cbn [negb].
  destruct ((mode =? CM_DECRYPT) || (mode =? CM_SETPERMISSIONS)); [discriminate|].
  destruct (mode =? CM_ENCRYPT); cbn [negb]; [|discriminate].
  destruct (pw_empty opw); discriminate.
Qed.

(* ------------------------------------------------------------------ coverage of the table *)

Definition classified_ok (m : Z) : bool :=
  row_satisfies (spec_kind m) (perm_lookup perm_table m) || rejectsEncrypted m.

Definition listed (l : list Z) (m : Z) : bool := existsb (Z.eqb m) l.

Lemma listed_In : forall l m, listed l m = true <-> In m l.
Proof.
  intros l m. unfold listed. rewrite existsb_exists. split.
  - intros [x [Hin Heq]]. apply Z.eqb_eq in Heq. subst. exact Hin.
  - intros Hin. exists m. split; [exact Hin | apply Z.eqb_refl].
Qed.

Lemma classified_table : forallb (fun m => listed known_unclassified m || classified_ok m) all_modes = true.
Proof. vm_compute. reflexivity. Qed.

Lemma every_mode_classified_partial : forall m, In m all_modes ->
  In m known_unclassified \/ classified_ok m = true.
Proof.
  intros m Hin.
  pose proof (proj1 (forallb_forall _ _) classified_table m Hin) as H.
  apply orb_true_iff in H. destruct H as [H|H].
  - left. apply listed_In. exact H.
  - right. exact H.
Qed.

(* the specification knows every command mode of the current source *)
Definition kind_is_row (k : kind) : bool := match k with KRow => true | _ => false end.
Lemma spec_knows_every_mode : forallb (fun m => negb (kind_is_row (spec_kind m))) all_modes = true.
Proof. vm_compute. reflexivity. Qed.

(* consequence: a classified command that the specification says must be refused does not proceed *)
Lemma classified_refuses : forall m, classified_ok m = true ->
  forall ownerMatches opw upw P R, upw <> [] -> validateOwnerPassword R opw ownerMatches = false ->
  spec_must_refuse (spec_kind m) P R = true ->
  checkForEncryption true ownerMatches true true opw upw m P R <> Proceed.
Proof.
  intros m Hc ownerMatches opw upw P R Hne Hown Hmust.
  unfold classified_ok in Hc. apply orb_true_iff in Hc.
  destruct (perm_lookup perm_table m) as [[e mo]|] eqn:Hl.
  - rewrite (user_password_access m e mo (In_of_lookup _ _ _ Hl) ownerMatches opw upw P R Hne Hown).
    destruct (rejectsEncrypted m); [discriminate|].
    destruct (needsOwnerAndUserPassword m); [discriminate|].
    destruct Hc as [Hc|Hc]; [|discriminate].
    unfold refuses.
    destruct (spec_kind m); cbn in Hc, Hmust; try discriminate.
    + rewrite Hc, Hmust. discriminate.
    + rewrite Hc, Hmust. rewrite orb_true_r. discriminate.
    + apply andb_true_iff in Hmust. destruct Hmust as [Hx Hy]. rewrite Hx, Hy.
      rewrite !andb_true_r. rewrite Hc. discriminate.
  - rewrite (user_password_access_no_row m Hl ownerMatches opw upw P R Hne Hown).
    destruct (rejectsEncrypted m); [discriminate|].
    destruct Hc as [Hc|Hc]; [|discriminate].
    destruct (spec_kind m); cbn in Hc, Hmust; discriminate.
Qed.

Lemma spec_refusal_partial : forall m, In m all_modes -> ~ In m known_unclassified ->
  forall ownerMatches opw upw P R, upw <> [] -> validateOwnerPassword R opw ownerMatches = false ->
  spec_must_refuse (spec_kind m) P R = true ->
  checkForEncryption true ownerMatches true true opw upw m P R <> Proceed.
Proof.
  intros m Hin Hnot. destruct (every_mode_classified_partial m Hin) as [H|H].
  - contradiction.
  - apply classified_refuses. exact H.
Qed.

(* every listed exception is a real gap: with all permission bits clear (P = -3901 is
   model.PermissionsNone 0xF0C3 as int16) the command proceeds on the user password alone *)
Definition P_none : Z := -3901.
Definition is_gap (m : Z) : bool :=
  listed all_modes m && spec_must_refuse (spec_kind m) P_none 4 &&
  match userOnlyAccess m P_none 4 with Proceed => true | _ => false end.

Lemma known_unclassified_are_gaps : forallb is_gap known_unclassified = true.
Proof. vm_compute. reflexivity. Qed.

Lemma every_mode_classified_refuted : exists m P R,
  In m all_modes /\ spec_must_refuse (spec_kind m) P R = true /\ userOnlyAccess m P R = Proceed.
Proof.
  exists CM_RESIZE, P_none, 4. split; [|split].
  - apply listed_In. vm_compute. reflexivity.
  - vm_compute. reflexivity.
  - vm_compute. reflexivity.
Qed.

(* Remark (not part of the property): ISO 32000-1 Table 22 lets bit 5 govern copying/extraction for
   every revision (bit 10 only adds extraction for accessibility).  pdfcpu's revision >= 3 layout
   looks at bit 10 only, so a document with bit 5 clear and bit 10 set is extracted from. *)
Lemma remark_iso_bit5_not_consulted_for_rev3 : exists P,
  has_bit P bit_extract = false /\ userOnlyAccess CM_EXTRACTIMAGES P 4 = Proceed.
Proof. exists 512. split; vm_compute; reflexivity. Qed.

(* ------------------------------------------------------------------ entry points -> command mode *)

(* the tables regenerated from pkg/api and pkg/cli are the audited ones (closed terms: by computation) *)
Lemma api_modes_audited :
  api_entry_modes = map (fun x : string * (kind * list Z) => (fst x, snd (snd x))) audited_api.
Proof. vm_compute. reflexivity. Qed.

Lemma api_entry_mode_lists_ok : api_entry_mode_lists = map snd api_entry_modes.
Proof. vm_compute. reflexivity. Qed.

Lemma cli_modes_audited :
  cli_command_modes = audited_cli_commands /\ cli_dispatch = audited_cli_dispatch.
Proof. split; vm_compute; reflexivity. Qed.

Definition kind_eqb (a b : kind) : bool :=
  match a, b with
  | KFree, KFree | KExtract, KExtract | KModify, KModify | KEither, KEither | KRow, KRow => true
  | _, _ => false
  end.

Lemma kind_eqb_eq : forall a b, kind_eqb a b = true -> a = b.
Proof. intros a b; destruct a, b; simpl; intros H; try reflexivity; discriminate. Qed.

Fixpoint zlist_eqb (a b : list Z) : bool :=
  match a, b with
  | [], [] => true
  | x :: a', y :: b' => (x =? y) && zlist_eqb a' b'
  | _, _ => false
  end.

Lemma zlist_eqb_eq : forall a b, zlist_eqb a b = true -> a = b.
Proof.
  induction a as [|x a IH]; destruct b as [|y b]; simpl; intros H; try reflexivity; try discriminate.
  apply andb_true_iff in H. destruct H as [Hx Hl]. apply Z.eqb_eq in Hx. subst. f_equal. apply IH. exact Hl.
Qed.

(* per audited pkg/api entry point: every mode is a CommandMode constant of the source, the kind judged from the
   entry point's name equals the kind Spec.v gives the mode, and the mode's row in the permission table
   satisfies that kind (or the mode is refused on every encrypted file / is one of the known gaps) *)
Definition api_entry_ok (x : string * (kind * list Z)) : bool :=
  let k := fst (snd x) in
  negb (match snd (snd x) with [] => true | _ => false end) &&
  forallb (fun mode =>
    listed all_modes mode && kind_eqb (spec_kind mode) k &&
    (row_satisfies k (perm_lookup perm_table mode) || rejectsEncrypted mode || listed known_unclassified mode))
    (snd (snd x)).

Lemma audited_api_ok : forallb api_entry_ok audited_api = true.
Proof. vm_compute. reflexivity. Qed.

Lemma entry_point_kind : forall f k modes, In (f, (k, modes)) audited_api ->
  forall mode, In mode modes ->
  In mode all_modes /\ spec_kind mode = k /\
  (row_satisfies k (perm_lookup perm_table mode) || rejectsEncrypted mode || listed known_unclassified mode) = true.
Proof.
  intros f k modes Hin mode Hm.
  pose proof (proj1 (forallb_forall _ _) audited_api_ok _ Hin) as H.
  unfold api_entry_ok in H. cbn [fst snd] in H. apply andb_true_iff in H. destruct H as [_ H].
  pose proof (proj1 (forallb_forall _ _) H mode Hm) as Hx.
  apply andb_true_iff in Hx. destruct Hx as [Hx Hrow]. apply andb_true_iff in Hx. destruct Hx as [Hall Hk].
  split; [apply listed_In; exact Hall|]. split; [apply kind_eqb_eq; exact Hk | exact Hrow].
Qed.

(* pkg/cli: a constructor gives the same constants to conf.Cmd and to Command.Mode (handlers that only set
   conf.Cmd have no Mode), and every one of them is a CommandMode constant of the source *)
Definition cli_entry_ok (x : string * (list Z * list Z)) : bool :=
  let c := fst (snd x) in let m := snd (snd x) in
  (match m with [] => true | _ => zlist_eqb c m end) &&
  forallb (listed all_modes) c && forallb (listed all_modes) m.

Lemma cli_commands_ok : forallb cli_entry_ok cli_command_modes = true.
Proof. vm_compute. reflexivity. Qed.

Lemma cli_cmd_is_mode : forall f c m, In (f, (c, m)) cli_command_modes -> m = [] \/ c = m.
Proof.
  intros f c m Hin.
  pose proof (proj1 (forallb_forall _ _) cli_commands_ok _ Hin) as H.
  unfold cli_entry_ok in H. cbn [fst snd] in H.
  apply andb_true_iff in H. destruct H as [H _]. apply andb_true_iff in H. destruct H as [H _].
  destruct m as [|x m']; [left; reflexivity|]. right. apply zlist_eqb_eq. exact H.
Qed.
