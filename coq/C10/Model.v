(* C10 — cancellation of a read.  Executable model, no proofs.

   A read is a program over six control constructs that are exactly the ways in
   which pkg/pdfcpu/read.go and pkg/pdfcpu/model/parse.go treat the error returned
   by a poll of the Go context (c.Err()):

     Poll        if err := c.Err(); err != nil { return err }         (exit poll)
     Seq p q     p; if err != nil { return err }; q                   (propagate, possibly %w-wrapped)
     Try p q r   p; if err != nil { q; return } ; r                   (fallback q replaces the error;
                                                                       Swallow p = Try p Skip Skip is the
                                                                       relaxed-mode "skip this object")
     Retry p q r p; if err == nil { r } else if cerr := c.Err(); cerr != nil { return cerr } else { q; return }
                                                                      (the context is PROBED after a failure: a
                                                                       cancelled context stops the fallback q;
                                                                       model.ParseObjectContext (relaxed re-parse),
                                                                       parseXRefStreamOrRepair (xref repair),
                                                                       processObject (skip malformed object))
     Fail        an error caused by the input
     Skip        code that does not poll

   The Go context is a function from the index of the poll (0,1,2,...) to the
   error it returns (None = nil).  The state counts polls made and "late" polls
   (polls that returned a non-nil error): late polls are the work done after the
   cancellation became visible.  *)
From Coq Require Import NArith List Bool.
From PV Require Import Lib.GoInt.
Import ListNotations.
Open Scope N_scope.

Inductive prog :=
| Skip | Poll | Fail
| Seq (p q : prog)
| Try (p q r : prog)
| Retry (p q r : prog).

Inductive outcome := Done | CtxErr (e : N) | InErr.

Record state := mkst { polls : N; late : N }.
Definition tick (s : state) := mkst (polls s + 1) (late s).
Definition tick_late (s : state) := mkst (polls s + 1) (late s + 1).

Definition is_done (o : outcome) : bool := match o with Done => true | _ => false end.

Fixpoint run (poll : N -> option N) (p : prog) (s : state) : outcome * state :=
  match p with
  | Skip => (Done, s)
  | Poll => match poll (polls s) with
            | None => (Done, tick s)
            | Some e => (CtxErr e, tick_late s)
            end
  | Fail => (InErr, s)
  | Seq p q => let (o, s1) := run poll p s in
               if is_done o then run poll q s1 else (o, s1)
  | Try p q r => let (o, s1) := run poll p s in
                 if is_done o then run poll r s1 else run poll q s1
  | Retry p q r => let (o, s1) := run poll p s in
                 if is_done o then run poll r s1
                 else match poll (polls s1) with
                      | Some e => (CtxErr e, tick_late s1)     (* the CONTEXT's error (adbdecb6) *)
                      | None => run poll q (tick s1)
                      end
  end.

Definition Swallow (p : prog) : prog := Try p Skip Skip.
Definition seqs (l : list prog) : prog := fold_right Seq Skip l.
Definition pollsN (n : nat) : prog := seqs (repeat Poll n).

(* ---- structural analyses (computable; their meaning is proved in Proofs.v) ---- *)

(* started with the context already cancelled, p cannot return Done *)
Fixpoint guard (p : prog) : bool :=
  match p with
  | Skip => false | Poll => true | Fail => true
  | Seq p q => guard p || guard q
  | Try p q r => guard q && (guard p || guard r)
  | Retry p q r => guard p || guard r
  end.

(* p contains no poll *)
Fixpoint nopoll (p : prog) : bool :=
  match p with
  | Skip => true | Poll => false | Fail => true
  | Seq p q => nopoll p && nopoll q
  | Try p q r => nopoll p && nopoll q && nopoll r
  | Retry p q r => false
  end.

(* p always returns Done *)
Fixpoint nofail (p : prog) : bool :=
  match p with
  | Skip => true | Poll => false | Fail => false
  | Seq p q => nofail p && nofail q
  | Try p q r => nofail q && nofail r
  | Retry p q r => nofail p && nofail r
  end.

(* p never returns Done after one of its polls was late *)
Fixpoint tight (p : prog) : bool :=
  match p with
  | Skip | Poll | Fail => true
  | Seq p q => tight q && (tight p || guard q)
  | Try p q r => tight r && (tight p || guard r) && tight q && (nopoll p || guard q)
  | Retry p q r => tight r && (tight p || guard r) && tight q
  end.

(* bound on late polls of p when started cancelled (lc) / not yet cancelled (lb) *)
Fixpoint lc (p : prog) : N :=
  match p with
  | Skip => 0 | Poll => 1 | Fail => 0
  | Seq p q => if guard p then lc p else lc p + lc q
  | Try p q r => if guard p then lc p + lc q else lc p + N.max (lc q) (lc r)
  | Retry p q r => if guard p then lc p + 1
                   else if nofail p then lc p + lc r else lc p + N.max 1 (lc r)
  end.
Fixpoint lb (p : prog) : N :=
  match p with
  | Skip => 0 | Poll => 1 | Fail => 0
  | Seq p q => N.max (if tight p then lb p else lb p + lc q) (N.max (lb q) (lc q))
  | Try p q r => N.max (N.max (lb p + lc q) (N.max (lb q) (lc q)))
                       (N.max (if tight p then 0 else lb p + lc r) (N.max (lb r) (lc r)))
  | Retry p q r =>
      let x := N.max (if tight p then 0 else lb p + lc r) (N.max (lb r) (lc r)) in
      if nofail p then x else N.max (N.max (lb p + 1) (N.max (lb q) (lc q))) x
  end.
Definition lbc (p : prog) : N := N.max (lb p) (lc p).

(* ---- the read, transcribed from ReadWithContext's call graph ---- *)

(* one indirect object read from the file: model.object (read.go) =
   buffer() [one pass per growth of the buffer (the loop runs at least once): the poll at the head of
   buffer()'s loop, then the scan loop of model.DetectKeywordsWithContext which polls ONCE PER ITERATION
   (one iteration per string literal / comment skipped before endobj/stream is decided):
   od0 = iterations of the first pass, odrest = iterations of the further passes], then
   model.ParseObjectContext [ok exit polls in processDictKeys, inside the Retry],
   then (stream dicts) loadStreamDict -> ensureIndirectStreamLength -> int64Object
   [op exit polls of the nested object read].  obig: "endobj" not inside the buffer (endInd < 0). *)
Record fobj := mkfo { od0 : nat; odrest : list nat; ok_ : nat; op : nat; obig : bool }.  (* obig is informative only *)

(* parse.go DetectKeywordsWithContext: for { if err := c.Err(); err != nil { return } ; skip one literal/comment } *)
Definition scan (iters : nat) : prog := pollsN iters.
(* read.go buffer(): for endInd < 0 && streamInd < 0 { poll; grow; DetectKeywordsWithContext(...) } *)
Definition pass (d : nat) : prog := Seq Poll (scan d).
Definition buffer_polls (o : fobj) : prog := Seq (pass (od0 o)) (seqs (map pass (odrest o))).
Definition parse_obj (o : fobj) : prog :=
  Seq (buffer_polls o) (Retry (pollsN (ok_ o)) (pollsN (ok_ o)) Skip).

(* read.go parseAndLoad: object + resolveObject, then loadStreamDict *)
Definition parse_and_load (o : fobj) : prog := Seq (parse_obj o) (pollsN (op o)).

(* read.go processObject (adbdecb6): after a failure of parseAndLoad the context is probed first, in
   both modes; cancelled -> the context's error.  Otherwise relaxed mode skips the malformed object
   (endInd >= 0) and strict mode returns the error — which, the probe having seen no cancellation,
   is an input error (Fail).  Not modelled: relaxed mode with endInd < 0 also returns the error. *)
Definition process_object (relaxed : bool) (o : fobj) : prog :=
  Retry (parse_and_load o) (if relaxed then Skip else Fail) Skip.

(* items met by bypassXrefSection while scanning the file line by line *)
Inductive fitem := FObj (o : fobj) | FTrailer (keys : nat).

Definition bypass_item (relaxed : bool) (i : fitem) : prog :=
  match i with
  | FObj o => process_object relaxed o
  | FTrailer k => Retry (pollsN k) (pollsN k) Skip  (* processXRefRepairLine -> processTrailer: propagates *)
  end.

(* read.go bypassXrefSection: no poll of its own in the scan loop *)
Definition bypass (relaxed : bool) (file : list fitem) : prog :=
  seqs (map (bypass_item relaxed) file).

(* xref sections, newest first: classic table+trailer, or xref stream *)
Inductive section := STable (keys : nat) | SStream (o : fobj).

(* read.go buildXRefTableStartingAt: poll at the loop head; tryXRefSection errors propagate;
   parseXRefStreamOrRepair: an error of parseXRefStream starts bypassXrefSection and the loop is
   left ("repaired") — unless the context is cancelled (probe c.Err(), commit 1364969e).
   The strict-mode /Index mismatch exit is not modelled (it needs a malformed /Index). *)
Fixpoint chain (relaxed : bool) (file : list fitem) (l : list section) : prog :=
  match l with
  | [] => Skip
  | STable k :: rest => Seq Poll (Seq (Retry (pollsN k) (pollsN k) Skip) (chain relaxed file rest))
  | SStream o :: rest => Seq Poll (Retry (parse_and_load o) (bypass relaxed file) (chain relaxed file rest))
  end.

(* read.go decodeObjectStreams / decodeObjectStream: poll, parse the stream object, load its
   content, buildObjectArrayForObjectStream polls once per contained object; all propagate *)
Record ostream := mkos { os_obj : fobj; os_n : nat }.
Definition ostream_prog (x : ostream) : prog :=
  Seq Poll (Seq (parse_and_load (os_obj x)) (pollsN (os_n x))).

(* xref table entries as dereferenceObject sees them *)
Inductive entry := EFree | ECached | EParse (o : fobj).

(* read.go dereferenceObjectsRaw/Sorted first loop + dereferenceAndLoad: relaxed mode swallows
   the error of ParseObjectWithContext (o == nil -> return nil); loadStreamDict errors propagate;
   repoff: ctx.Read.RepairOffset > 0 ("xref" found on the second line): relaxed mode tries the
   object a second time at the shifted offset before skipping it (the shifted read is modelled
   with the same poll counts). *)
Definition entry_prog (relaxed repoff : bool) (e : entry) : prog :=
  match e with
  | EParse o => Seq Poll (if relaxed
                          then Try (parse_obj o)
                                   (if repoff then Try (parse_obj o) Skip (pollsN (op o)) else Skip)
                                   (pollsN (op o))
                          else parse_and_load o)
  | _ => Poll
  end.
(* second loop: one poll per entry that is neither free nor compressed *)
Definition entry_poll2 (e : entry) : prog :=
  match e with EFree => Skip | _ => Poll end.

Definition deref (relaxed repoff : bool) (es : list entry) : prog :=
  Seq (seqs (map (entry_prog relaxed repoff) es)) (seqs (map entry_poll2 es)).

Record shape := mkshape {
  s_relaxed : bool;
  s_repoff : bool;               (* ctx.Read.RepairOffset > 0 *)
  s_prefail : bool;              (* NewContext / offsetLastXRefSection / headerVersion reject the input *)
  s_sections : list section;
  s_file : list fitem;           (* what bypassXrefSection would meet *)
  s_enc : nat;                   (* exit polls under checkForEncryption *)
  s_ostreams : list ostream;
  s_entries : list entry
}.

(* read.go ReadWithContext *)
Definition read_prog (s : shape) : prog :=
  Seq (if s_prefail s then Fail else Skip)
  (Seq (chain (s_relaxed s) (s_file s) (s_sections s))
  (Seq (pollsN (s_enc s))
  (Seq (seqs (map ostream_prog (s_ostreams s)))
       (deref (s_relaxed s) (s_repoff s) (s_entries s))))).

Definition st0 := mkst 0 0.
Definition read (poll : N -> option N) (s : shape) : outcome * state := run poll (read_prog s) st0.

(* the counting context of the harness: nil k times, then error e for ever *)
Definition flip_at (k : option N) (e : N) : N -> option N :=
  fun i => match k with None => None | Some k => if k <=? i then Some e else None end.

(* "number of enclosing stages": the late-poll bound, for every shape *)
Definition stage_bound : N := 6.
