From Coq Require Import Extraction ExtrOcamlBasic.
From PV Require Import Lib.ExtBase C36.Model.
Extraction "model.ml" ext_base_z ext_base_n ext_base_nat ext_base_res ext_base_list
  roundtrip to_outline from_outline dests_resolve titles_clean empty_tree tadd tvalue.
