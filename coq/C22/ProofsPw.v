(* C22 — passwords of the standard security handler R2-R4: the three 32-byte padding sites agree, and the
   owner password alone reproduces the file key that the user password gives. *)
From Coq Require Import ZArith NArith List Bool Lia ZifyBool ZifyNat ZifyN.
From PV Require Import Lib.GoInt C22.Model C22.Proofs.
Import ListNotations.

Lemma pad_const_length : length pad_const = 32%nat. Proof. reflexivity. Qed.

Lemma pad32_spec : forall pw, pad32 pw = firstn 32 (pw ++ pad_const).
Proof.
  intro pw. unfold pad32. rewrite lenN_length. destruct (32 <=? N.of_nat (length pw))%N eqn:H.
  - apply N.leb_le in H. rewrite firstn_app. replace (32 - length pw)%nat with 0%nat by lia.
    rewrite firstn_O, app_nil_r. reflexivity.
  - apply N.leb_gt in H. rewrite firstn_app. rewrite (firstn_all2 (n := 32) pw) by lia.
    f_equal. f_equal. lia.
Qed.

Lemma pad32_length : forall pw, length (pad32 pw) = 32%nat.
Proof.
  intro pw. rewrite pad32_spec, firstn_length, app_length, pad_const_length. lia.
Qed.

Lemma firstn32_app_long : forall (x y : bytes), (32 <= length x)%nat -> firstn 32 (x ++ y) = firstn 32 x.
Proof.
  intros x y H. rewrite firstn_app. replace (32 - length x)%nat with 0%nat by lia.
  rewrite firstn_O, app_nil_r. reflexivity.
Qed.

(* only the first 32 bytes of a password matter, at every site *)
Lemma pad32_prefix : forall pw, pad32 (firstn 32 pw) = pad32 pw.
Proof.
  intro pw. rewrite !pad32_spec. destruct (le_lt_dec 32 (length pw)) as [H|H].
  - rewrite (firstn32_app_long pw) by assumption.
    rewrite firstn32_app_long by (rewrite firstn_length; lia).
    rewrite firstn_firstn. reflexivity.
  - rewrite (firstn_all2 (n := 32) pw) by lia. reflexivity.
Qed.

Lemma pad32_idempotent : forall pw, pad32 (pad32 pw) = pad32 pw.
Proof.
  intro pw. rewrite (pad32_spec (pad32 pw)). rewrite firstn32_app_long by (rewrite pad32_length; lia).
  apply firstn_all2. rewrite pad32_length. lia.
Qed.

Lemma encKey_pad32 : forall md5 upw o p id r emd l,
  encKey md5 (pad32 upw) o p id r emd l = encKey md5 upw o p id r emd l.
Proof. intros. unfold encKey. rewrite pad32_idempotent. reflexivity. Qed.

Lemma encKey_prefix : forall md5 upw o p id r emd l,
  encKey md5 (firstn 32 upw) o p id r emd l = encKey md5 upw o p id r emd l.
Proof. intros. unfold encKey. rewrite pad32_prefix. reflexivity. Qed.

Lemma ownerKey_prefix : forall md5 opw upw r l, opw <> [] ->
  ownerKey md5 (firstn 32 opw) upw r l = ownerKey md5 opw upw r l.
Proof.
  intros md5 opw upw r l H. unfold ownerKey. destruct opw as [|x t]; [contradiction|].
  change (pad32 (match firstn 32 (x :: t) with [] => upw | _ :: _ => firstn 32 (x :: t) end))
    with (pad32 (firstn 32 (x :: t))).
  rewrite pad32_prefix. reflexivity.
Qed.

Lemma compute_o_user_prefix : forall md5 opw upw r l, opw <> [] ->
  compute_o md5 opw (firstn 32 upw) r l = compute_o md5 opw upw r l.
Proof.
  intros md5 opw upw r l H. unfold compute_o. rewrite pad32_prefix.
  unfold ownerKey. destruct opw; [contradiction | reflexivity].
Qed.

Lemma compute_u_pad32 : forall md5 upw o p id r emd l,
  compute_u md5 (pad32 upw) o p id r emd l = compute_u md5 upw o p id r emd l.
Proof. intros. unfold compute_u. rewrite encKey_pad32. reflexivity. Qed.

Lemma validateUser_pad32 : forall md5 upw o u p id r emd l,
  validateUser md5 (pad32 upw) o u p id r emd l = validateUser md5 upw o u p id r emd l.
Proof. intros. unfold validateUser. rewrite compute_u_pad32. reflexivity. Qed.

(* ---- RC4 chains ---- *)

Lemma rc4_chain_app : forall ks1 ks2 d,
  rc4_chain (ks1 ++ ks2) d = match rc4_chain ks1 d with Err => Err | Ok c => rc4_chain ks2 c end.
Proof.
  induction ks1 as [|k t IH]; intros ks2 d; simpl; [reflexivity|].
  destruct (rc4 k d); [apply IH | reflexivity].
Qed.

Lemma rc4_chain_rev : forall ks d c, rc4_chain ks d = Ok c -> rc4_chain (rev ks) c = Ok d.
Proof.
  induction ks as [|k t IH]; intros d c H; simpl in *.
  - inversion H; reflexivity.
  - destruct (rc4 k d) as [m|] eqn:Hk; [|discriminate].
    rewrite rc4_chain_app, (IH _ _ H). simpl. rewrite (rc4_involutive _ _ _ Hk). reflexivity.
Qed.

Lemma xorkey_0 : forall key, xorkey key 0 = key.
Proof.
  intro key. unfold xorkey. induction key as [|b t IH]; simpl; [reflexivity|].
  rewrite N.lxor_0_r, IH. reflexivity.
Qed.

Lemma recover_chain_rev : forall key r, (r = 2 \/ r = 3 \/ r = 4)%Z ->
  recover_chain key r = rev (key :: (if (3 <=? r)%Z then map (xorkey key) up_1_19 else [])).
Proof.
  intros key r [H|[H|H]]; subst; unfold recover_chain; simpl; rewrite ?xorkey_0; reflexivity.
Qed.

(* Algorithm 7 undoes Algorithm 3: what validateOwnerPassword recovers from /O is the padded user password *)
Lemma owner_recovers_user : forall md5 opw upw r l ov, (r = 2 \/ r = 3 \/ r = 4)%Z ->
  compute_o md5 opw upw r l = Ok ov ->
  rc4_chain (recover_chain (ownerKey md5 opw upw r l) r) ov = Ok (pad32 upw).
Proof.
  intros md5 opw upw r l ov Hr H. unfold compute_o in H.
  rewrite recover_chain_rev by assumption. apply rc4_chain_rev. exact H.
Qed.

(* opening with the owner password: same verdict and same file key as opening with the user password *)
Lemma owner_password_opens : forall md5 opw upw any o u p id r emd l, (r = 2 \/ r = 3 \/ r = 4)%Z ->
  opw <> [] ->
  compute_o md5 opw upw r l = Ok o ->
  validateOwner md5 opw any o u p id r emd l = validateUser md5 upw o u p id r emd l.
Proof.
  intros md5 opw upw any o u p id r emd l Hr Hne Ho. unfold validateOwner.
  assert (Hk : ownerKey md5 opw any r l = ownerKey md5 opw upw r l).
  { unfold ownerKey. destruct opw; [contradiction | reflexivity]. }
  rewrite Hk, (owner_recovers_user _ _ _ _ _ _ Hr Ho). apply validateUser_pad32.
Qed.

Lemma pad0_length : forall u : bytes, (32 <= length (u ++ repeatN 0 (32 - length u)))%nat.
Proof. intro u. rewrite app_length, repeatN_length. lia. Qed.

(* the user password validates against the U it produced, and yields the key it was encrypted with *)
Lemma user_password_opens : forall md5 upw o p id r emd l u key, (r = 2 \/ r = 3 \/ r = 4)%Z ->
  compute_u md5 upw o p id r emd l = Ok (u, key) ->
  validateUser md5 upw o u p id r emd l = Ok (true, key).
Proof.
  intros md5 upw o p id r emd l u key Hr H. unfold validateUser. rewrite H.
  assert (Hlen : (32 <= length u)%nat).
  { unfold compute_u in H. destruct (rc4 _ []); [|discriminate].
    match type of H with match ?x with _ => _ end = _ => destruct x as [u0|]; [|discriminate] end.
    inversion H; subst. apply pad0_length. }
  destruct Hr as [Hr|[Hr|Hr]]; subst; simpl; rewrite ?bytes_eqb_refl; try reflexivity;
    rewrite lenN_length; assert (Hle : (16 <=? N.of_nat (length u))%N = true) by (apply N.leb_le; lia);
    rewrite Hle; reflexivity.
Qed.
