(* C01 — staged_fault_safe: one statement over all modelled single-output protocols. *)
From stdpp Require Import gmap.
From Coq Require Import NArith.
From PV Require Import C01.FS C01.FSFacts C01.Model C01.Proofs C01.ProofsPdf.

(* a protocol instance = which staging protocol + its key + its path arguments *)
Inductive protocol :=
| PApi (k : key) (ins : list positive) (inF outF : option positive)   (* pkg/api *File skeleton over stagedOutput *)
| PPdf (k : key) (input : option positive) (path : positive)          (* pkg/pdfcpu createStagedFile + finishStagedFile *)
| PNewFile (path : positive).                                         (* pkg/pdfcpu writeNewFile *)

Definition run_protocol (pl : plan) (fresh : gmap positive file -> positive) (P : protocol)
           (chunks : list bytes) (fin : ctl) (w : world) : ctl * world :=
  match P with
  | PApi k ins inF outF => api_file pl fresh k ins inF outF chunks fin w
  | PPdf k input path => pdf_staged pl fresh k input path chunks fin w
  | PNewFile path => write_new_file pl path chunks fin w
  end.

(* the side conditions: the key tolerates this ending of the body; for the api skeleton the residual
   case (new output + open inputs, see api_staged_fault_safe_partial) is excluded *)
Definition protocol_safe_for (P : protocol) (fin : ctl) (m0 : gmap positive file) : Prop :=
  match P with
  | PApi k ins inF outF =>
      safe_for k fin /\ (ins = [] \/ forall o, outF = Some o -> opt_eqb inF outF = false -> is_Some (m0 !! o))
  | PPdf k _ _ => safe_for k fin
  | PNewFile _ => fin <> CPanic
  end.

Lemma staged_fault_safe_proof fresh :
  (forall m, m !! fresh m = None) ->
  forall pl fin, one_cause pl fin ->
  forall P chunks m0 tr, protocol_safe_for P fin m0 ->
  forall r w', run_protocol pl fresh P chunks fin (W m0 0 tr) = (r, w') -> r <> COk ->
  unchanged m0 (wfs w').
Proof.
  intros Hfresh pl fin Hcause P chunks m0 tr Hsafe r w' Hrun Hr.
  destruct P as [k ins inF outF|k input path|path]; cbn [run_protocol protocol_safe_for] in *.
  - destruct Hsafe as [Hk Hrel].
    exact (api_staged_fault_safe_proof fresh Hfresh pl fin Hcause k ins inF outF chunks m0 tr Hk Hrel r w' Hrun Hr).
  - exact (pdf_staged_fault_safe_proof fresh Hfresh pl fin Hcause k input path chunks m0 tr Hsafe r w' Hrun Hr).
  - exact (write_new_file_fault_safe_proof pl fin Hcause Hsafe path chunks m0 tr r w' Hrun Hr).
Qed.
