(* C06 — batch installs of fonts / cheat sheets / certificates are all-or-nothing.
   Executable Gallina model (no proofs here).  Built on the M-FS vocabulary of C01/FS.v
   (file, bytes, errno, plan = which call numbers fail, "a faulted call did nothing").

   New here: directories.  A directory is a path (list of components); the tree maps every
   EXISTING directory to the regular files directly in it.  Sub-directories of d are the keys
   d ++ [c] ++ ...; os.RemoveAll d drops every key that has d as a prefix.

   Programs transcribed line by line (file:function cited at each definition):
     write_gob           pkg/font/install.go   writeGobWithOperations (+ encodeGobFile, removeTemporaryFont)
     sync_dirs           pkg/font/install.go   syncCollectionDirectories = pkg/api/font.go syncTransactionDirectories
     commit_core         the loop shared (textually triplicated in pdfcpu) by
                         font.commitCollectionFonts / api.commitStagedFontsWithOperations / api.publishCheatSheets
     rollback            font.rollbackCollectionFonts = api.rollbackCommittedFonts = api.rollbackCheatSheets
     commit_collection   pkg/font/install.go   commitCollectionFonts
     install_collection  pkg/font/install.go   installTrueTypeCollectionResults (+ installTrueTypeCollectionMembers)
     install_fonts       pkg/api/font.go       installFonts + commitStagedFontsWithOperations (staging phase abstract)
     cheat_batch         pkg/api/font.go       createUserFontDemoBatch + publishCheatSheets (generation abstract)
     publish_certs       pkg/api/certificate.go publishCertificateImports + stage/backup/rollback/cleanup

   An error value is modelled by the list of paths its text names (os.PathError / os.LinkError name
   the paths of the failing call; "font backup retained at %s" names the backup directory). *)
From stdpp Require Import gmap.
From Coq Require Import NArith.
From PV Require Import C01.FS.

(* notations, not definitions: the std++ map lemmas must see the gmap types syntactically *)
Notation dir := (list positive) (only parsing).
Notation dcontent := (gmap positive file) (only parsing).
Notation tree := (gmap (list positive) (gmap positive file)) (only parsing).

Inductive pathref := PDir (d : dir) | PFile (d : dir) (n : positive).
Definition error := list pathref.
Definition oerr := option error.            (* None = nil *)
(* errors.Join *)
Definition ejoin (a b : oerr) : oerr :=
  match a, b with
  | None, x => x
  | x, None => x
  | Some x, Some y => Some (x ++ y)
  end.
Definition is_err (a : oerr) : bool := match a with Some _ => true | None => false end.

Inductive dop := DMkdirTemp | DCreateTemp | DLstat | DEncode | DChmod | DSync | DClose | DVerify
               | DRename | DRemove | DRemoveAll | DSyncDir | DSave.
(* de_data: the bytes an encode call wrote (empty for the other calls) *)
Record devent := DEv { de_op : dop; de_p : pathref; de_q : pathref; de_res : option errno; de_data : bytes }.
(* dtr is in reverse order (latest call first) *)
Record dworld := DW { wt : tree; dcnt : nat; dtr : list devent }.

Inductive dout (A : Type) := DDone (a : A) (w : dworld) | DFail (e : errno) (m : error) (w : dworld).
Arguments DDone {A}. Arguments DFail {A}.
Definition dworld_of {A} (o : dout A) : dworld := match o with DDone _ w | DFail _ _ w => w end.

(* installedFontMode = 0644 *)
Definition mode_inst : N := 420.

Definition lookup_file (t : tree) (d : dir) (n : positive) : option file :=
  match t !! d with Some c => c !! n | None => None end.

Definition rename_tree (d1 : dir) (n1 : positive) (d2 : dir) (n2 : positive) (t : tree) : option tree :=
  match t !! d1 with
  | None => None
  | Some c1 =>
    match c1 !! n1 with
    | None => None
    | Some f =>
      let t1 := <[d1 := delete n1 c1]> t in
      match t1 !! d2 with
      | None => None
      | Some c2 => Some (<[d2 := <[n2 := f]> c2]> t1)
      end
    end
  end.

Definition under (d x : dir) : bool := bool_decide (d `prefix_of` x).
Definition remove_all_tree (d : dir) (t : tree) : tree := filter (fun kv => under d (fst kv) = false) t.

Definition update_file (d : dir) (n : positive) (g : file -> file) (t : tree) : option tree :=
  match t !! d with
  | None => None
  | Some c => match c !! n with
              | None => None
              | Some f => Some (<[d := <[n := g f]> c]> t)
              end
  end.

(* concrete name supplies (extraction); the theorems hold for every supply with the freshness specs *)
Definition pmax_dir (d : dir) : positive := foldr Pos.max 1%positive d.
Definition fresh_child (t : tree) (p : dir) : positive :=
  Pos.succ (foldr Pos.max 1%positive (map (fun kv => pmax_dir (fst kv)) (map_to_list t))).
(* temp file names: above every existing name in the directory and above a reserved bound *)
Definition fresh_name (bound : positive) (c : dcontent) : positive :=
  Pos.succ (Pos.max bound (pmax_list (map fst (map_to_list c)))).

Section Progs.
Variable pl : plan.
Variable freshd : tree -> dir -> positive.
Variable freshn : dcontent -> positive.
(* how many bytes a faulted encode leaves in the temporary file *)
Variable kpart : nat.

(* mf / mn: the paths named by the error of an injected / a natural failure of this call *)
Definition dcalld {A} (op : dop) (p q : pathref) (mf mn : error) (dok dfault : bytes) (w : dworld)
    (f : tree -> option (tree * A)) (onfault : tree -> tree) : dout A :=
  if pl (dcnt w) then DFail EIO mf (DW (onfault (wt w)) (S (dcnt w)) (DEv op p q (Some EIO) dfault :: dtr w))
  else match f (wt w) with
       | Some (t', a) => DDone a (DW t' (S (dcnt w)) (DEv op p q None dok :: dtr w))
       | None => DFail ENOENT mn (DW (wt w) (S (dcnt w)) (DEv op p q (Some ENOENT) [] :: dtr w))
       end.
Definition dcallm {A} (op : dop) (p q : pathref) (mf mn : error) := @dcalld A op p q mf mn [] [].
(* os.PathError / os.LinkError name the paths of the call *)
Definition dcall {A} (op : dop) (p q : pathref) := @dcallm A op p q [p; q] [p; q].

(* os.MkdirTemp(p, pattern) *)
Definition mkdir_temp (p : dir) (w : dworld) : dout dir :=
  let d := p ++ [freshd (wt w) p] in
  dcallm DMkdirTemp (PDir d) (PDir p) [] [] w
    (fun t => match t !! p with Some _ => Some (<[d := ∅]> t, d) | None => None end) id.
(* os.CreateTemp(d, pattern): new empty file, mode 0600 *)
Definition create_temp (d : dir) (w : dworld) : dout positive :=
  let n := match wt w !! d with Some c => freshn c | None => 1%positive end in
  dcallm DCreateTemp (PFile d n) (PFile d n) [] [] w
    (fun t => match t !! d with Some c => Some (<[d := <[n := File [] mode_tmp]> c]> t, n) | None => None end) id.
(* os.Lstat / os.Stat *)
Definition lstat (d : dir) (n : positive) (w : dworld) : dout unit :=
  dcall DLstat (PFile d n) (PFile d n) w
    (fun t => match lookup_file t d n with Some _ => Some (t, tt) | None => None end) id.
(* gob.NewEncoder(f).Encode(fd): appends data; a failing encode may leave a prefix behind *)
Definition encode (d : dir) (n : positive) (data : bytes) (w : dworld) : dout unit :=
  dcalld DEncode (PFile d n) (PFile d n) [PFile d n; PFile d n] [PFile d n; PFile d n] data (firstn kpart data) w
    (fun t => match update_file d n (fun f => File (fdata f ++ data) (fmode f)) t with
              | Some t' => Some (t', tt) | None => None end)
    (fun t => match update_file d n (fun f => File (fdata f ++ firstn kpart data) (fmode f)) t with
              | Some t' => t' | None => t end).
Definition chmod (d : dir) (n : positive) (md : N) (w : dworld) : dout unit :=
  dcall DChmod (PFile d n) (PFile d n) w
    (fun t => match update_file d n (fun f => File (fdata f) md) t with
              | Some t' => Some (t', tt) | None => None end) id.
Definition fsync (d : dir) (n : positive) (w : dworld) : dout unit :=
  dcall DSync (PFile d n) (PFile d n) w (fun t => Some (t, tt)) id.
Definition close (d : dir) (n : positive) (w : dworld) : dout unit :=
  dcall DClose (PFile d n) (PFile d n) w (fun t => Some (t, tt)) id.
(* readGob(temp) + ttfEqual: read the file back; fails when it is missing *)
Definition verify (d : dir) (n : positive) (w : dworld) : dout unit :=
  dcall DVerify (PFile d n) (PFile d n) w
    (fun t => match lookup_file t d n with Some _ => Some (t, tt) | None => None end) id.
(* fileutil.ReplaceFile = os.Rename *)
Definition rename (d1 : dir) (n1 : positive) (d2 : dir) (n2 : positive) (w : dworld) : dout unit :=
  dcall DRename (PFile d1 n1) (PFile d2 n2) w
    (fun t => match rename_tree d1 n1 d2 n2 t with Some t' => Some (t', tt) | None => None end) id.
(* os.Remove *)
Definition remove (d : dir) (n : positive) (w : dworld) : dout unit :=
  dcall DRemove (PFile d n) (PFile d n) w
    (fun t => match t !! d with
              | Some c => match c !! n with Some _ => Some (<[d := delete n c]> t, tt) | None => None end
              | None => None end) id.
(* os.RemoveAll: never fails on its own *)
Definition remove_all (d : dir) (w : dworld) : dout unit :=
  dcall DRemoveAll (PDir d) (PDir d) w (fun t => Some (remove_all_tree d t, tt)) id.
(* fileutil.SyncDirectory: open + fsync + close of the directory *)
Definition sync_dir (d : dir) (w : dworld) : dout unit :=
  dcall DSyncDir (PDir d) (PDir d) w (fun t => match t !! d with Some _ => Some (t, tt) | None => None end) id.
(* pdfcpu.SaveCertificates(certs, stageFile): (re)writes the whole file *)
Definition save (d : dir) (n : positive) (data : bytes) (valid : bool) (w : dworld) : dout unit :=
  dcallm DSave (PFile d n) (PFile d n) [PFile d n] [] w
    (fun t => if valid then match update_file d n (fun f => File data (fmode f)) t with
                            | Some t' => Some (t', tt) | None => None end
              else None) id.

(* `err != nil && !errors.Is(err, os.ErrNotExist)` *)
Definition remove_err (o : dout unit) : oerr :=
  match o with DDone _ _ => None | DFail ENOENT _ _ => None | DFail _ m _ => Some m end.
Definition out_err {A} (o : dout A) : oerr := match o with DDone _ _ => None | DFail _ m _ => Some m end.

(* ---------- writeGobWithOperations (pkg/font/install.go:1102) ----------
   result: (error, published) where published mirrors `tempName == ""` (the rename happened) *)
Definition gob_body (d : dir) (t n : positive) (data : bytes) (w1 : dworld) : (oerr * bool * bool) * dworld :=
  (* (err, closed, published) *)
  match encode d t data w1 with
  | DFail _ m w2 => (Some m, false, false, w2)
  | DDone _ w2 =>
  match chmod d t mode_inst w2 with
  | DFail _ m w3 => (Some m, false, false, w3)
  | DDone _ w3 =>
  match fsync d t w3 with
  | DFail _ m w4 => (Some m, false, false, w4)
  | DDone _ w4 =>
  match close d t w4 with
  | DFail _ m w5 => (Some m, true, false, w5)
  | DDone _ w5 =>
  match verify d t w5 with
  | DFail _ m w6 => (Some m, true, false, w6)
  | DDone _ w6 =>
  match rename d t d n w6 with
  | DFail _ m w7 => (Some m, true, false, w7)
  | DDone _ w7 =>
  match sync_dir d w7 with
  | DFail _ m w8 => (Some m, true, true, w8)
  | DDone _ w8 => (None, true, true, w8)
  end end end end end end end.

Definition write_gob (d : dir) (n : positive) (data : bytes) (w : dworld) : (oerr * bool) * dworld :=
  match create_temp d w with
  | DFail _ m w1 => (Some m, false, w1)
  | DDone t w1 =>
    let '(e, closed, published, w2) := gob_body d t n data w1 in
    (* deferred closure *)
    let '(e1, w3) := if closed then (e, w2)
                     else let o := close d t w2 in (ejoin e (out_err o), dworld_of o) in
    if published then (e1, true, w3)
    else let o := remove d t w3 in (ejoin e1 (remove_err o), false, dworld_of o)
  end.

(* ---------- syncCollectionDirectories / syncTransactionDirectories ----------
   every distinct directory is synced, all of them even after a failure; the error names the directory *)
Fixpoint sync_dirs (seen ds : list dir) (w : dworld) : oerr * dworld :=
  match ds with
  | [] => (None, w)
  | d :: ds' =>
    if bool_decide (d ∈ seen) then sync_dirs seen ds' w
    else let o := sync_dir d w in
         let '(e, w') := sync_dirs (d :: seen) ds' (dworld_of o) in
         (ejoin (out_err o) e, w')
  end.

(* committedCollectionFont / committedFontFile / committedCheatSheet *)
Record crec := CRec { r_name : positive; r_had : bool; r_comm : bool }.

(* rollback loop: `for i := len(files)-1; i >= 0; i--`; recs is kept latest first *)
Fixpoint rollback_loop (F B : dir) (recs : list crec) (w : dworld) : oerr * dworld :=
  match recs with
  | [] => (None, w)
  | r :: rs =>
    let '(e1, w1) := if r_comm r then let o := remove F (r_name r) w in (remove_err o, dworld_of o)
                     else (None, w) in
    let '(e2, w2) := if r_had r then let o := rename B (r_name r) F (r_name r) w1 in (out_err o, dworld_of o)
                     else (None, w1) in
    let '(e3, w3) := rollback_loop F B rs w2 in
    (ejoin (ejoin e1 e2) e3, w3)
  end.

(* rollbackCollectionFonts (install.go:1367) = rollbackCommittedFonts (api/font.go:257) = rollbackCheatSheets *)
Definition rollback (F B : dir) (recs : list crec) (w : dworld) : oerr * dworld :=
  let '(e, w1) := rollback_loop F B recs w in
  let '(es, w2) := sync_dirs [] [F; B] w1 in
  match ejoin e es with
  | Some m => (Some (m ++ [PDir B]), w2)        (* "... backup retained at <backupDir>" *)
  | None =>
    match remove_all B w2 with
    | DFail _ m w3 => (Some m, w3)              (* "remove font backup: %w" *)
    | DDone _ w3 => sync_dirs [] [F] w3
    end
  end.

(* the commit loop; returns (commit error, records latest first, world) *)
Fixpoint commit_core (F S B : dir) (names : list positive) (recs : list crec) (w : dworld)
  : oerr * list crec * dworld :=
  match names with
  | [] => (None, recs, w)
  | n :: ns =>
    let step (had : bool) (w1 : dworld) :=
      match rename S n F n w1 with
      | DFail _ m w2 => (Some m, CRec n had false :: recs, w2)
      | DDone _ w2 =>
        match sync_dirs [] [S; F] w2 with
        | (Some m, w3) => (Some m, CRec n had true :: recs, w3)
        | (None, w3) => commit_core F S B ns (CRec n had true :: recs) w3
        end
      end in
    match lstat F n w with
    | DDone _ w1 =>
      match rename F n B n w1 with
      | DFail _ m w2 => (Some m, CRec n false false :: recs, w2)
      | DDone _ w2 =>
        match sync_dirs [] [F; B] w2 with
        | (Some m, w3) => (Some m, CRec n true false :: recs, w3)
        | (None, w3) => step true w3
        end
      end
    | DFail ENOENT _ w1 => step false w1
    | DFail _ m w1 => (Some m, CRec n false false :: recs, w1)
    end
  end.

(* result of a whole operation: the returned error, whether every target was published
   (Go: `installed` / `published` / the commit loop ran to its end), cleanup warnings *)
Record res := Res { r_err : oerr; r_pub : bool; r_warn : list error }.

Inductive variant := VColl | VCheat.

(* removeAll(backupDir) + sync after a complete commit *)
Definition finalize (F B : dir) (w : dworld) : oerr * dworld :=
  match remove_all B w with
  | DFail _ m w1 => (Some m, w1)
  | DDone _ w1 => sync_dirs [] [F] w1
  end.

(* commitCollectionFonts (install.go:1393): cleanup failures are warnings;
   publishCheatSheets (api/font.go:640): cleanup failures are returned with published = true *)
Definition commit_batch (v : variant) (F S : dir) (names : list positive) (w : dworld) : res * dworld :=
  match mkdir_temp F w with
  | DFail _ m w1 => (Res (Some m) false [], w1)
  | DDone B w1 =>
    let '(ce, recs, w2) := commit_core F S B names [] w1 in
    match ce with
    | Some m => let '(re, w3) := rollback F B recs w2 in (Res (ejoin (Some m) re) false [], w3)
    | None =>
      let '(fe, w3) := finalize F B w2 in
      match v, fe with
      | _, None => (Res None true [], w3)
      | VColl, Some m => (Res None true [m], w3)
      | VCheat, Some m => (Res (Some m) true [], w3)
      end
    end
  end.

(* ---------- installTrueTypeCollectionMembers (install.go:1442) ---------- *)
(* a member that parses: its RAW PostScript name (name table), the file name n it is staged and committed
   under = sanitize.Path(raw) (installTrueTypeRep, install.go:1259: sanitise, THEN reserve, THEN writeGob), its
   representation; or a member that does not parse *)
Inductive member := MValid (raw n : positive) (data : bytes) | MInvalid.

(* the staging decision alone: accept, or reject at member k (0-based) because it does not parse / because its
   SANITISED name was already reserved by an earlier member *)
Inductive decision := Accept | RejInvalid (k : nat) | RejDup (k : nat).
Fixpoint stage_decide (ms : list member) (seen : list positive) (k : nat) : decision :=
  match ms with
  | [] => Accept
  | MInvalid :: _ => RejInvalid k
  | MValid _ n _ :: ms' => if bool_decide (n ∈ seen) then RejDup k else stage_decide ms' (n :: seen) (S k)
  end.
Definition member_target (m : member) : list positive := match m with MValid _ n _ => [n] | MInvalid => [] end.

Fixpoint stage_members (S : dir) (ms : list member) (seen : list positive) (w : dworld)
  : oerr * list positive * dworld :=
  match ms with
  | [] => (None, rev seen, w)
  | MInvalid :: _ => (Some [], rev seen, w)                   (* parse error of member i *)
  | MValid _ n data :: ms' =>
    if bool_decide (n ∈ seen) then (Some [], rev seen, w)     (* ErrDuplicatePostScriptName: reserve(sanitised name) *)
    else match write_gob S n data w with
         | (Some m, _, w1) => (Some m, rev seen, w1)
         | (None, _, w1) => stage_members S ms' (n :: seen) w1
         end
  end.

(* installTrueTypeCollectionResults (install.go:1479); src = the open collection file (not in the tree) *)
Definition install_collection (F : dir) (src : pathref) (ms : list member) (w : dworld) : res * dworld :=
  match mkdir_temp F w with
  | DFail _ m w1 =>
    let o := dcall DClose src src w1 (fun t => Some (t, tt)) id in
    (Res (ejoin (Some m) (out_err o)) false [], dworld_of o)
  | DDone Sd w1 =>
    (* body: (result, closed) *)
    let '(r, closed, w2) :=
      match stage_members Sd ms [] w1 with
      | (Some m, _, w2) => (Res (Some m) false [], false, w2)
      | (None, names, w2) =>
        match dcall DClose src src w2 (fun t => Some (t, tt)) id with
        | DFail _ m w3 => (Res (Some m) false [], true, w3)
        | DDone _ w3 =>
          let '(r, w4) := commit_batch VColl F Sd names w3 in
          (* commitCollectionFonts returns only an error; published iff nil *)
          (r, true, w4)
        end
      end in
    (* defer 2: removeAll(stagingDir) *)
    let o := remove_all Sd w2 in
    let r1 := match out_err o with
              | None => r
              | Some m => if r_pub r then Res (r_err r) true (r_warn r ++ [m])
                          else Res (ejoin (r_err r) (Some m)) false (r_warn r)
              end in
    (* defer 1: close the source unless closed *)
    if closed then (r1, dworld_of o)
    else let o2 := dcall DClose src src (dworld_of o) (fun t => Some (t, tt)) id in
         (Res (ejoin (r_err r1) (out_err o2)) (r_pub r1) (r_warn r1), dworld_of o2)
  end.

(* ---------- api.installFonts (api/font.go:402) ----------
   The staging phase (installFontInputs: per input a sub-directory of the staging directory, the
   pkg/font installers, mergeStagedFont renames) only touches the staging directory; it is abstract:
   it leaves `sc` as the files of the staging directory and `junk` sub-directories, and succeeds or not. *)
Definition set_staging (S : dir) (sc : dcontent) (junk : list (positive * dcontent)) (t : tree) : tree :=
  foldr (fun j t' => <[S ++ [fst j] := snd j]> t') (<[S := sc]> t) junk.

Definition install_fonts (F : dir) (sc : dcontent) (junk : list (positive * dcontent)) (stage_ok : bool)
    (names : list positive) (reload_ok : bool) (w : dworld) : res * dworld :=
  match mkdir_temp F w with                                   (* createStagingDir *)
  | DFail _ m w1 => (Res (Some m) false [], w1)
  | DDone Sd w1 =>
    let w1' := DW (set_staging Sd sc (if stage_ok then [] else junk) (wt w1)) (dcnt w1) (dtr w1) in
    let '(r, w2) :=
      if negb stage_ok then (Res (Some []) false [], w1')
      else
      (* commitStagedFontsWithOperations (api/font.go:289) *)
      match mkdir_temp F w1' with
      | DFail _ m w2 => (Res (Some m) false [], w2)
      | DDone B w2 =>
        let '(ce, recs, w3) := commit_core F Sd B names [] w2 in
        match ce with
        | Some m => let '(re, w4) := rollback F B recs w3 in (Res (ejoin (Some m) re) false [], w4)
        | None =>
          if reload_ok then
            let '(fe, w4) := finalize F B w3 in
            (Res None true (match fe with Some m => [m] | None => [] end), w4)
          else let '(re, w4) := rollback F B recs w3 in (Res (ejoin (Some []) re) false [], w4)
        end
      end in
    (* deferred removeAll(stagingDir) *)
    let o := remove_all Sd w2 in
    match out_err o with
    | None => (r, dworld_of o)
    | Some m => if r_pub r then (Res (r_err r) true (r_warn r ++ [m]), dworld_of o)
                else (Res (ejoin (r_err r) (Some m)) false (r_warn r), dworld_of o)
    end
  end.

(* ---------- createUserFontDemoBatch (api/font.go:757) ---------- *)
Definition cheat_batch (F : dir) (sc : dcontent) (stage_ok : bool) (names : list positive) (w : dworld)
  : res * dworld :=
  match mkdir_temp F w with
  | DFail _ m w1 => (Res (Some m) false [], w1)
  | DDone Sd w1 =>
    let w1' := DW (set_staging Sd sc [] (wt w1)) (dcnt w1) (dtr w1) in
    let '(r, w2) := if stage_ok then commit_batch VCheat F Sd names w1'
                    else (Res (Some []) false [], w1') in
    let o := remove_all Sd w2 in
    (Res (ejoin (r_err r) (out_err o)) (r_pub r) (r_warn r), dworld_of o)
  end.

(* ---------- certificates (api/certificate.go) ---------- *)
(* stagedCertificateImport; names are files of the one directory C = model.TrustedCertDir *)
Record cert := Cert { c_out : positive; c_data : bytes; c_valid : bool;
                      c_stage : positive; c_backup : option positive; c_had : bool; c_pub : bool }.

(* createCertificateTransactionFile (certificate.go:346) *)
Definition create_tx_file (C : dir) (w : dworld) : (oerr * positive) * dworld :=
  match create_temp C w with
  | DFail _ m w1 => (Some m, 1%positive, w1)
  | DDone t w1 =>
    match close C t w1 with
    | DFail _ m w2 => let o := remove C t w2 in (ejoin (Some m) (remove_err o), t, dworld_of o)
    | DDone _ w2 => (None, t, w2)
    end
  end.

(* cleanupCertificateImports (certificate.go:359) *)
Fixpoint cleanup_certs (C : dir) (st : list cert) (remove_backups : bool) (w : dworld) : oerr * dworld :=
  match st with
  | [] => (None, w)
  | c :: cs =>
    let o := remove C (c_stage c) w in
    let '(e2, w2) := match c_backup c with
                     | Some b => if remove_backups || negb (c_had c)
                                 then let o2 := remove C b (dworld_of o) in (remove_err o2, dworld_of o2)
                                 else (None, dworld_of o)
                     | None => (None, dworld_of o)
                     end in
    let '(e3, w3) := cleanup_certs C cs remove_backups w2 in
    (ejoin (ejoin (remove_err o) e2) e3, w3)
  end.

(* stageCertificateImports (certificate.go:371); staged is kept in order *)
Fixpoint stage_certs (C : dir) (imps : list (positive * bytes * bool)) (staged : list cert) (w : dworld)
  : oerr * list cert * dworld :=
  match imps with
  | [] => (None, staged, w)
  | (out, data, valid) :: rest =>
    match create_tx_file C w with
    | (Some m, _, w1) => let '(ce, w2) := cleanup_certs C staged true w1 in (ejoin (Some m) ce, staged, w2)
    | (None, t, w1) =>
      let staged' := staged ++ [Cert out data valid t None false false] in
      match save C t data valid w1 with
      | DFail _ m w2 => let '(ce, w3) := cleanup_certs C staged' true w2 in (ejoin (Some m) ce, staged', w3)
      | DDone _ w2 => stage_certs C rest staged' w2
      end
    end
  end.

(* backupCertificateDestinations (certificate.go:392): returns the updated records *)
Fixpoint backup_certs (C : dir) (todo done : list cert) (w : dworld) : oerr * list cert * dworld :=
  match todo with
  | [] => (None, done, w)
  | c :: cs =>
    match lstat C (c_out c) w with
    | DFail ENOENT _ w1 => backup_certs C cs (done ++ [c]) w1
    | DFail _ m w1 => (Some m, done ++ c :: cs, w1)
    | DDone _ w1 =>
      match create_tx_file C w1 with
      | (Some m, _, w2) => (Some m, done ++ c :: cs, w2)
      | (None, b, w2) =>
        let c1 := Cert (c_out c) (c_data c) (c_valid c) (c_stage c) (Some b) false false in
        match remove C b w2 with
        | DFail ENOENT _ w3 | DDone _ w3 =>
          match rename C (c_out c) C b w3 with
          | DFail _ m w4 => (Some m, done ++ c1 :: cs, w4)
          | DDone _ w4 =>
            let c2 := Cert (c_out c) (c_data c) (c_valid c) (c_stage c) (Some b) true false in
            backup_certs C cs (done ++ [c2]) w4
          end
        | DFail _ m w3 => (Some m, done ++ c1 :: cs, w3)
        end
      end
    end
  end.

(* rollbackCertificateImports (certificate.go:417): from the last record to the first;
   returns the records as updated (published / hadOriginal cleared) for the cleanup *)
Fixpoint rollback_certs_loop (C : dir) (rst : list cert) (w : dworld) : oerr * list cert * dworld :=
  (* rst = reversed records *)
  match rst with
  | [] => (None, [], w)
  | c :: cs =>
    let '(e1, w1) := if c_pub c then let o := remove C (c_out c) w in (remove_err o, dworld_of o) else (None, w) in
    let '(e2, had', w2) :=
      if c_had c then
        match c_backup c with
        | Some b => match rename C b C (c_out c) w1 with
                    | DFail _ m w2 => (Some (m ++ [PFile C b]), true, w2)
                    | DDone _ w2 => (None, false, w2)
                    end
        | None => (None, true, w1)
        end
      else (None, false, w1) in
    let c' := Cert (c_out c) (c_data c) (c_valid c) (c_stage c) (c_backup c) had' false in
    let '(e3, cs', w3) := rollback_certs_loop C cs w2 in
    (ejoin (ejoin e1 e2) e3, c' :: cs', w3)
  end.

Definition rollback_certs (C : dir) (st : list cert) (w : dworld) : oerr * dworld :=
  let '(e, rst', w1) := rollback_certs_loop C (rev st) w in
  let '(ce, w2) := cleanup_certs C (rev rst') false w1 in
  (ejoin e ce, w2).

Fixpoint publish_loop (C : dir) (todo done : list cert) (w : dworld) : oerr * list cert * dworld :=
  match todo with
  | [] => (None, done, w)
  | c :: cs =>
    match rename C (c_stage c) C (c_out c) w with
    | DFail _ m w1 => (Some m, done ++ c :: cs, w1)
    | DDone _ w1 =>
      publish_loop C cs (done ++ [Cert (c_out c) (c_data c) (c_valid c) (c_stage c) (c_backup c) (c_had c) true]) w1
    end
  end.

(* publishCertificateImports (certificate.go:436) *)
Definition publish_certs (C : dir) (imps : list (positive * bytes * bool)) (w : dworld) : res * dworld :=
  match stage_certs C imps [] w with
  | (Some m, _, w1) => (Res (Some m) false [], w1)
  | (None, staged, w1) =>
    match backup_certs C staged [] w1 with
    | (Some m, st2, w2) => let '(re, w3) := rollback_certs C st2 w2 in (Res (ejoin (Some m) re) false [], w3)
    | (None, st2, w2) =>
      match publish_loop C st2 [] w2 with
      | (Some m, st3, w3) => let '(re, w4) := rollback_certs C st3 w3 in (Res (ejoin (Some m) re) false [], w4)
      | (None, st3, w3) => let '(ce, w4) := cleanup_certs C st3 true w3 in (Res ce true [], w4)
      end
    end
  end.
End Progs.

(* ---------- entry points for extraction: initial world, concrete name supplies ---------- *)
Definition plan_of (flt : option nat) : plan := match flt with Some n => single n | None => nofault end.
(* two faults: the first failure and one failing rollback step *)
Definition plan2 (a b : option nat) : plan := fun k => plan_of a k || plan_of b k.
Definition w_init (t : tree) : dworld := DW t 0 [].
Definition tree_of_list (l : list (dir * list (positive * file))) : tree :=
  list_to_map (map (fun e => (fst e, list_to_map (snd e) : dcontent)) l).
Definition tree_to_list (t : tree) : list (dir * list (positive * file)) :=
  map (fun e => (fst e, map_to_list (snd e))) (map_to_list t).
Definition content_of_list (l : list (positive * file)) : dcontent := list_to_map l.

(* runs with the concrete supplies; `bound` is above every target name so that temp names never collide *)
Definition run_gob (f1 f2 : option nat) (kp : nat) (bound : positive) (init : tree) (d : dir) (n : positive) (data : bytes) :=
  write_gob (plan2 f1 f2) (fresh_name bound) kp d n data (w_init init).
Definition run_commit (v : variant) (f1 f2 : option nat) (init : tree) (F S : dir) (names : list positive) :=
  commit_batch (plan2 f1 f2) fresh_child v F S names (w_init init).
Definition run_collection (f1 f2 : option nat) (kp : nat) (bound : positive) (init : tree) (F : dir) (ms : list member) :=
  install_collection (plan2 f1 f2) fresh_child (fresh_name bound) kp F (PDir []) ms (w_init init).
Definition run_fonts (f1 f2 : option nat) (init : tree) (F : dir) (sc : dcontent) (junk : list (positive * dcontent))
    (stage_ok : bool) (names : list positive) (reload_ok : bool) :=
  install_fonts (plan2 f1 f2) fresh_child F sc junk stage_ok names reload_ok (w_init init).
Definition run_cheat (f1 f2 : option nat) (init : tree) (F : dir) (sc : dcontent) (stage_ok : bool) (names : list positive) :=
  cheat_batch (plan2 f1 f2) fresh_child F sc stage_ok names (w_init init).
Definition run_decide (ms : list member) : decision := stage_decide ms [] 0.
Definition run_certs (f1 f2 : option nat) (bound : positive) (init : tree) (C : dir) (imps : list (positive * bytes * bool)) :=
  publish_certs (plan2 f1 f2) (fresh_name bound) C imps (w_init init).
