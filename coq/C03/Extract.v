From Coq Require Import Extraction ExtrOcamlBasic.
From PV Require Import Lib.ExtBase C01.FS C03.Model.
Extraction "model.ml" ext_base_z ext_base_n ext_base_nat ext_base_res ext_base_list
  mk_state dir_to_list inos_to_list run_api_i run_copy_i run_write_reader_i run_aliases run_multi_image_i run_import_images_i run_incr_api_i.
