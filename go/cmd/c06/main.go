// Harness for C06 (batch installs are all-or-nothing) and, with --mode C07, for C07 (durability).
//
// C06: the REAL functions font.writeGobWithOperations, font.commitCollectionFonts,
// font.installTrueTypeCollectionResults, api.installFonts (+ commitStagedFontsWithOperations),
// api.publishCheatSheets / createUserFontDemoBatch and api.publishCertificateImports are driven through
// the verif export files with a recording + faulting operation table, on real temporary directories:
//
//	K  result / operation trace / final directory tree are compared with the extracted Coq model;
//	O  the property itself is evaluated on the real tree (all-new or exactly-old, leftovers named).
package main

import (
	"flag"
	"fmt"
	"os"
	"path/filepath"
	"runtime"

	"github.com/pdfcpu/pdfcpu/pkg/api"
	"verif/vh"
)

var scratch string

func main() {
	if len(os.Args) >= 4 && os.Args[1] == "--strace-child" {
		runtime.LockOSThread()
		api.DisableConfigDir()
		straceChild(os.Args[2:])
		return
	}
	mode := flag.String("mode", "C06", "C06|C07")
	runtime.LockOSThread()
	// vh.Start parses the flags
	id := "C06"
	for i, a := range os.Args {
		if (a == "--mode" || a == "-mode") && i+1 < len(os.Args) {
			id = os.Args[i+1]
		}
	}
	r := vh.Start(id)
	defer r.Finish()
	_ = mode
	api.DisableConfigDir()
	var err error
	scratch, err = os.MkdirTemp("", "c06-harness-")
	if err != nil {
		panic(err)
	}
	defer os.RemoveAll(scratch)
	if err := loadProto(); err != nil {
		panic(err)
	}
	if id == "C07" {
		runC07(r)
		return
	}
	famGob(r)
	famCommit(r, "coll")
	famCommit(r, "cheat")
	famCollection(r)
	famFonts(r)
	famCheat(r)
	famCerts(r)
	famReal(r)
	famSanitise(r)
	famTargetKinds(r)
	straceC06(r)
}

var baseN int

// newBase makes a fresh directory whose sub-directory "1" is the model's directory [1].
func newBase() string {
	baseN++
	b := filepath.Join(scratch, fmt.Sprintf("b%d", baseN))
	if err := os.MkdirAll(filepath.Join(b, "1"), 0o755); err != nil {
		panic(err)
	}
	return b
}

func must(err error) {
	if err != nil {
		panic(err)
	}
}
