// /DecodeParms boundaries ("broken filters"): K on the Flate predictor parameter guard, and generated
// documents with every boundary value on every kind of stream the readers decode.
package main

import (
	"bytes"
	"errors"
	"fmt"
	"io"
	"math/rand"
	"strings"

	"github.com/pdfcpu/pdfcpu/pkg/filter"
	"verif/vh"
)

// ------------------------------------------------------------------ K: flate.parameters / predictorRowParams

func kFlateParams(r *vh.Run) {
	const absent = int64(-1 << 62) // marker for "entry not present"
	preds := []int64{absent, 0, 1, 2, 3, 9, 10, 11, 12, 13, 14, 15, 16, -1}
	cols := []int64{absent, -1, 0, 1, 2, 3, 4, 5, 1 << 31, 1 << 62}
	bpcs := []int64{absent, -1, 0, 1, 2, 4, 8, 16, 3, 32}
	colms := []int64{absent, -1, 0, 1, 2, 1 << 31, 1<<63 - 1}
	w := func(v int64) string {
		if v == absent {
			return "-"
		}
		return vh.Int(v)
	}
	for _, p := range preds {
		for _, c := range cols {
			for _, b := range bpcs {
				for _, k := range colms {
					parms := map[string]int{}
					for name, v := range map[string]int64{"Predictor": p, "Colors": c, "BitsPerComponent": b, "Columns": k} {
						if v != absent {
							parms[name] = int(v)
						}
					}
					res := func() (res string) {
						defer func() {
							if e := recover(); e != nil {
								res = "panic"
								r.OracleFail("panic:filter.flate.decodePostProcess", map[string]any{"parms": parms}, fmt.Sprint(e))
							}
						}()
						// empty input: only the parameter stage decides; a small decode limit keeps row buffers small
						_, err := filter.VerifC09FlatePostProcess(parms, 1<<16, bytes.NewReader(nil), -1)
						if err != nil && !errors.Is(err, filter.ErrDecodeLimitExceeded) {
							return "err"
						}
						return "ok"
					}()
					if res != "panic" {
						r.OracleOK()
					}
					r.Case("post_process_params", []string{w(p), w(c), w(b), w(k)}, res)
					// accepted by the guard: run real rows through the stage (every division, every row buffer)
					if res == "ok" && p != absent && p != 1 {
						func() {
							defer func() {
								if e := recover(); e != nil {
									r.OracleFail("panic:filter.flate.decodePostProcess", map[string]any{"parms": parms, "data": "48 zero bytes"}, fmt.Sprint(e))
								}
							}()
							filter.VerifC09FlatePostProcess(parms, 1<<16, bytes.NewReader(make([]byte, 48)), -1)
							r.OracleOK()
						}()
					}
					if p != absent && c != absent && b != absent && k != absent {
						rs, rl, bpp, err := filter.VerifC09PredictorRowParams(int(p), int(c), int(b), int(k))
						out := "err"
						if err == nil {
							out = "ok:" + vh.Int(int64(rs)) + ":" + vh.Int(int64(rl)) + ":" + vh.Int(int64(bpp))
						}
						r.Case("predictor_row_params", []string{vh.Int(p), vh.Int(c), vh.Int(b), vh.Int(k)}, out)
					}
				}
			}
		}
	}
}

// ------------------------------------------------------------------ documents

func encodeWith(name string, data []byte) []byte {
	f, err := filter.NewFilter(name, nil)
	if err != nil {
		panic(err)
	}
	rd, err := f.Encode(bytes.NewReader(data))
	if err != nil {
		panic(err)
	}
	b, _ := io.ReadAll(rd)
	return b
}

var parmValues = map[string][]string{
	"Predictor":        {"0", "1", "2", "3", "9", "10", "11", "12", "13", "14", "15", "16", "-1"},
	"Colors":           {"-1", "0", "1", "2", "3", "4", "5", "2147483648"},
	"BitsPerComponent": {"-1", "0", "1", "2", "4", "8", "16", "3", "32"},
	"Columns":          {"-1", "0", "1", "2147483648", "9223372036854775807"},
	"EarlyChange":      {"-1", "0", "1", "2"},
}

var streamKinds = []string{"xref", "objstm", "content", "metadata", "icc", "image", "fontfile"}

// parmsDoc puts `/Filter /<filterName> /DecodeParms <<parms>>` on one stream of the given kind.
func parmsDoc(kind, filterName, parms string) []byte {
	fd := "/Filter/" + filterName + "/DecodeParms<<" + parms + ">>"
	enc := func(data string) string { return string(encodeWith(filterName, []byte(data))) }
	d := baseDoc()
	raw := func(dict, data string) string {
		e := enc(data)
		return fmt.Sprintf("<<%s%s/Length %d>>\nstream\n%s\nendstream", dict, fd, len(e), e)
	}
	switch kind {
	case "content":
		d.objs[4] = raw("", "BT /F1 12 Tf 10 10 Td (hi) Tj ET")
	case "metadata":
		d.objs[1] = "<</Type/Catalog/Pages 2 0 R/Metadata 6 0 R>>"
		d.objs[6] = raw("/Type/Metadata/Subtype/XML", "<?xpacket begin='' id='W5M0MpCehiHzreSzNTczkc9d'?><x:xmpmeta xmlns:x='adobe:ns:meta/'></x:xmpmeta><?xpacket end='w'?>")
	case "icc":
		d.objs[3] = "<</Type/Page/Parent 2 0 R/Contents 4 0 R/Resources<</Font<</F1 5 0 R>>/ColorSpace<</CS0[/ICCBased 6 0 R]>>>>>>"
		d.objs[6] = raw("/N 3/Alternate/DeviceRGB", strings.Repeat("\x00", 128))
	case "image":
		d.objs[3] = "<</Type/Page/Parent 2 0 R/Contents 4 0 R/Resources<</Font<</F1 5 0 R>>/XObject<</Im0 6 0 R>>>>>>"
		d.objs[4] = stream("", "q 10 0 0 10 0 0 cm /Im0 Do Q")
		d.objs[6] = raw("/Type/XObject/Subtype/Image/Width 4/Height 4/ColorSpace/DeviceRGB/BitsPerComponent 8", strings.Repeat("\x10\x20\x30", 16))
	case "fontfile":
		d.objs[5] = "<</Type/Font/Subtype/TrueType/BaseFont/ABCDEF+Foo/FirstChar 32/LastChar 32/Widths[500]/FontDescriptor 6 0 R>>"
		d.objs[6] = "<</Type/FontDescriptor/FontName/ABCDEF+Foo/Flags 32/FontBBox[0 0 1000 1000]/ItalicAngle 0/Ascent 800/Descent -200/CapHeight 700/StemV 80/FontFile2 7 0 R>>"
		d.objs[7] = raw("/Length1 64", strings.Repeat("\x00\x01\x00\x00", 16))
	case "objstm", "xref":
		return parmsXRefDoc(kind, filterName, fd)
	}
	return d.bytes()
}

// parmsXRefDoc: xref-stream file whose object stream (kind objstm) or xref stream (kind xref) carries the parms.
func parmsXRefDoc(kind, filterName, fd string) []byte {
	d := baseDoc()
	var b bytes.Buffer
	fmt.Fprintf(&b, "%%PDF-1.7\n%%\xe2\xe3\xcf\xd3\n")
	type row struct{ t, a, c int }
	rows := map[int]row{0: {0, 0, 65535}}
	rows[4] = row{1, b.Len(), 0}
	fmt.Fprintf(&b, "4 0 obj\n%s\nendobj\n", d.objs[4])
	inside := []int{1, 2, 3, 5}
	var hdr, body bytes.Buffer
	for i, n := range inside {
		fmt.Fprintf(&hdr, "%d %d ", n, body.Len())
		body.WriteString(d.objs[n] + "\n")
		rows[n] = row{2, 6, i}
	}
	rows[6] = row{1, b.Len(), 0}
	osData := hdr.String() + body.String()
	osFD, osBytes := "", []byte(osData)
	if kind == "objstm" {
		osFD, osBytes = fd, encodeWith(filterName, []byte(osData))
	}
	fmt.Fprintf(&b, "6 0 obj\n<</Type/ObjStm/N %d/First %d%s/Length %d>>\nstream\n", len(inside), hdr.Len(), osFD, len(osBytes))
	b.Write(osBytes)
	b.WriteString("\nendstream\nendobj\n")
	xoff := b.Len()
	rows[7] = row{1, xoff, 0}
	var data bytes.Buffer
	for n := 0; n <= 7; n++ {
		data.Write(be(rows[n].t, 1))
		data.Write(be(rows[n].a, 4))
		data.Write(be(rows[n].c, 2))
	}
	xFD, xBytes := "", data.Bytes()
	if kind == "xref" {
		xFD, xBytes = fd, encodeWith(filterName, data.Bytes())
	}
	fmt.Fprintf(&b, "7 0 obj\n<</Type/XRef/Size 8/W[1 4 2]/Root 1 0 R%s/Length %d>>\nstream\n", xFD, len(xBytes))
	b.Write(xBytes)
	fmt.Fprintf(&b, "\nendstream\nendobj\nstartxref\n%d\n%%%%EOF\n", xoff)
	return b.Bytes()
}

type pdoc struct {
	gdoc
	single bool
}

// decodeParmsDocs: each value alone with the others defaulted (for Colors / BitsPerComponent / Columns under a
// TIFF and a PNG predictor, where they are used), and pairs (all of them in the thorough tier, nPairs sampled
// in the quick tier), for every stream kind and both filters.
func decodeParmsDocs(r *rand.Rand, nPairs int, all bool) []pdoc {
	var out []pdoc
	names := []string{"Predictor", "Colors", "BitsPerComponent", "Columns", "EarlyChange"}
	var singles, pairs []string
	for _, n := range names {
		for _, v := range parmValues[n] {
			if n == "Predictor" || n == "EarlyChange" {
				singles = append(singles, fmt.Sprintf("/%s %s", n, v))
			} else {
				singles = append(singles, fmt.Sprintf("/Predictor 2/%s %s", n, v), fmt.Sprintf("/Predictor 12/%s %s", n, v), fmt.Sprintf("/%s %s", n, v))
			}
		}
	}
	for i, a := range names {
		for _, bn := range names[i+1:] {
			for _, va := range parmValues[a] {
				for _, vb := range parmValues[bn] {
					p := fmt.Sprintf("/%s %s/%s %s", a, va, bn, vb)
					if a != "Predictor" {
						pairs = append(pairs, "/Predictor 2"+p, "/Predictor 15"+p)
					} else {
						pairs = append(pairs, p)
					}
				}
			}
		}
	}
	for _, kind := range streamKinds {
		for _, fl := range []string{"FlateDecode", "LZWDecode"} {
			for _, s := range singles {
				out = append(out, pdoc{gdoc{fmt.Sprintf("dp-%s-%s-%s", kind, fl[:3], strings.ReplaceAll(s[1:], "/", "_")), parmsDoc(kind, fl, s), ""}, true})
			}
		}
	}
	if all {
		for _, kind := range streamKinds {
			for _, fl := range []string{"FlateDecode", "LZWDecode"} {
				for _, s := range pairs {
					out = append(out, pdoc{gdoc{fmt.Sprintf("dp-%s-%s-%s", kind, fl[:3], strings.ReplaceAll(s[1:], "/", "_")), parmsDoc(kind, fl, s), ""}, false})
				}
			}
		}
	} else {
		for i := 0; i < nPairs; i++ {
			kind, fl, s := streamKinds[r.Intn(len(streamKinds))], []string{"FlateDecode", "FlateDecode", "LZWDecode"}[r.Intn(3)], pairs[r.Intn(len(pairs))]
			out = append(out, pdoc{gdoc{fmt.Sprintf("dp-%s-%s-%s", kind, fl[:3], strings.ReplaceAll(s[1:], "/", "_")), parmsDoc(kind, fl, s), ""}, false})
		}
	}
	return out
}
