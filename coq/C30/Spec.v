(* C30 — INDEPENDENT specification of "loopback, private, link-local, multicast or unspecified",
   written from the RFCs as CIDR blocks over the address read as ONE big-endian number.  It shares no
   definition with Model.v (no To4, no byte tests, no masks).  No proofs here.

   IPv4 (32-bit number v):
     127.0.0.0/8      loopback            RFC 1122 3.2.1.3 (g), RFC 6890
     10.0.0.0/8       private             RFC 1918 s.3
     172.16.0.0/12    private             RFC 1918 s.3
     192.168.0.0/16   private             RFC 1918 s.3
     169.254.0.0/16   link-local          RFC 3927
     224.0.0.0/4      multicast           RFC 5771 (contains 224.0.0.0/24 link-local multicast)
     0.0.0.0          unspecified         RFC 1122 3.2.1.3 (a)
   IPv6 (128-bit number v):
     ::1              loopback            RFC 4291 2.5.3
     ::               unspecified         RFC 4291 2.5.2
     fc00::/7         unique local        RFC 4193
     fe80::/10        link-local unicast  RFC 4291 2.5.6
     ff00::/8         multicast           RFC 4291 2.7
     ::ffff:0:0/96    IPv4-mapped         RFC 4291 2.5.5.2 : classified as the embedded IPv4 address *)
From Coq Require Import NArith List.
Import ListNotations.
Open Scope N_scope.

(* big-endian value of a byte string *)
Definition num (l : list N) : N := fold_left (fun acc b => acc * 256 + b) l 0.

(* v (a width-bit number) lies in base/plen *)
Definition in_cidr (width v base plen : N) : bool :=
  v / 2 ^ (width - plen) =? base / 2 ^ (width - plen).

Definition q4 (a b c d : N) : N := a * 2 ^ 24 + b * 2 ^ 16 + c * 2 ^ 8 + d.
(* h:0:0:0:0:0:0:0 *)
Definition g6 (h : N) : N := h * 2 ^ 112.

Definition spec_v4 (v : N) : bool :=
  in_cidr 32 v (q4 127 0 0 0) 8
  || in_cidr 32 v (q4 10 0 0 0) 8
  || in_cidr 32 v (q4 172 16 0 0) 12
  || in_cidr 32 v (q4 192 168 0 0) 16
  || in_cidr 32 v (q4 169 254 0 0) 16
  || in_cidr 32 v (q4 224 0 0 0) 4
  || (v =? 0).

Definition spec_v6 (v : N) : bool :=
  (v =? 1)
  || (v =? 0)
  || in_cidr 128 v (g6 0xfc00) 7
  || in_cidr 128 v (g6 0xfe80) 10
  || in_cidr 128 v (g6 0xff00) 8
  || (in_cidr 128 v (0xffff * 2 ^ 32) 96 && spec_v4 (v mod 2 ^ 32)).

(* an address given as 4 or 16 bytes; any other length is not an IP address *)
Definition private_or_local (a : list N) : bool :=
  match length a with
  | 4%nat => spec_v4 (num a)
  | 16%nat => spec_v6 (num a)
  | _ => false
  end.
