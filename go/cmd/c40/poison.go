package main

// "Poisoner" inputs for C40: unusual but (mostly) accepted PDFs that drive every repair path of the
// reader which stores the address of a package-level variable (&zero) or rebuilds the free list:
// cross-reference sections without object 0, a single subsection starting at 1, dangling free entries
// with generation 0 / 1 / 65535, a missing or in-use head, the xref-stream variants, and files whose
// startxref is wrong (bypassXrefSection).  One goroutine reads them while the others work on ordinary
// documents; an effect on the others shows up in their run-alone fingerprints and in the sentinels.

import (
	"bytes"
	"fmt"
)

type freeEnt struct {
	nr   int
	next int
	gen  int
}

type poisonSpec struct {
	name     string
	first    int       // first object number of the single subsection / of /Index (0 or 1)
	head     *freeEnt  // entry for object 0 when first == 0 (nil: object 0 is written as in-use garbage)
	free     []freeEnt // free entries among the objects 5..
	stream   bool      // cross-reference stream instead of a table
	badStart bool      // startxref points into the void: the reader has to scan the file
}

// buildPoisoner writes a one-page document: 1 catalog, 2 pages, 3 page, 4 content, 5.. free entries.
func buildPoisoner(sp poisonSpec) []byte {
	var b bytes.Buffer
	b.WriteString("%PDF-1.7\n%\xe2\xe3\xcf\xd3\n")
	off := map[int]int{}
	obj := func(nr int, body string) {
		off[nr] = b.Len()
		fmt.Fprintf(&b, "%d 0 obj\n%s\nendobj\n", nr, body)
	}
	obj(1, "<</Type/Catalog/Pages 2 0 R>>")
	obj(2, "<</Type/Pages/Kids[3 0 R]/Count 1>>")
	obj(3, "<</Type/Page/Parent 2 0 R/MediaBox[0 0 200 200]/Contents 4 0 R/Resources<<>>>>")
	content := "0 0 m 100 100 l S"
	obj(4, fmt.Sprintf("<</Length %d>>\nstream\n%s\nendstream", len(content), content))
	last := 4
	free := map[int]freeEnt{}
	for _, f := range sp.free {
		free[f.nr] = f
		if f.nr > last {
			last = f.nr
		}
	}
	size := last + 1
	if !sp.stream {
		xref := b.Len()
		fmt.Fprintf(&b, "xref\n%d %d\n", sp.first, size-sp.first)
		for nr := sp.first; nr < size; nr++ {
			switch {
			case nr == 0 && sp.head != nil:
				fmt.Fprintf(&b, "%010d %05d f \n", sp.head.next, sp.head.gen)
			case nr == 0:
				fmt.Fprintf(&b, "%010d %05d n \n", 9, 0)
			case off[nr] != 0:
				fmt.Fprintf(&b, "%010d %05d n \n", off[nr], 0)
			default:
				f, ok := free[nr]
				if !ok {
					f = freeEnt{nr, 0, 1}
				}
				fmt.Fprintf(&b, "%010d %05d f \n", f.next, f.gen)
			}
		}
		fmt.Fprintf(&b, "trailer\n<</Size %d/Root 1 0 R>>\nstartxref\n", size)
		if sp.badStart {
			xref += 7
		}
		fmt.Fprintf(&b, "%d\n%%%%EOF\n", xref)
		return b.Bytes()
	}
	// cross-reference stream: object number size, fields W [1 4 2], not compressed
	xnr := size
	size++
	xoff := b.Len()
	var data bytes.Buffer
	ent := func(t, a, c int) {
		data.Write([]byte{byte(t), byte(a >> 24), byte(a >> 16), byte(a >> 8), byte(a), byte(c >> 8), byte(c)})
	}
	for nr := sp.first; nr < size; nr++ {
		switch {
		case nr == 0 && sp.head != nil:
			ent(0, sp.head.next, sp.head.gen)
		case nr == 0:
			ent(1, 9, 0)
		case nr == xnr:
			ent(1, xoff, 0)
		case off[nr] != 0:
			ent(1, off[nr], 0)
		default:
			f, ok := free[nr]
			if !ok {
				f = freeEnt{nr, 0, 1}
			}
			ent(0, f.next, f.gen)
		}
	}
	fmt.Fprintf(&b, "%d 0 obj\n<</Type/XRef/Size %d/Root 1 0 R/W[1 4 2]/Index[%d %d]/Length %d>>\nstream\n", xnr, size, sp.first, size-sp.first, data.Len())
	b.Write(data.Bytes())
	b.WriteString("\nendstream\nendobj\nstartxref\n")
	if sp.badStart {
		xoff += 5
	}
	fmt.Fprintf(&b, "%d\n%%%%EOF\n", xoff)
	return b.Bytes()
}

func poisonSpecs() []poisonSpec {
	head := func(next, gen int) *freeEnt { return &freeEnt{0, next, gen} }
	var out []poisonSpec
	for _, stream := range []bool{false, true} {
		k := "table"
		if stream {
			k = "stream"
		}
		out = append(out,
			// object 0 omitted, single subsection starting at 1
			poisonSpec{name: k + "-no0-free-gen1", first: 1, free: []freeEnt{{5, 0, 1}}, stream: stream},
			poisonSpec{name: k + "-no0-free-gen0", first: 1, free: []freeEnt{{5, 0, 0}}, stream: stream},
			poisonSpec{name: k + "-no0-free-gen65535", first: 1, free: []freeEnt{{5, 0, 65535}}, stream: stream},
			poisonSpec{name: k + "-no0-free-mixed", first: 1, free: []freeEnt{{5, 0, 1}, {6, 0, 65535}, {7, 5, 0}}, stream: stream},
			poisonSpec{name: k + "-no0-nofree", first: 1, stream: stream},
			// object 0 present: dangling free entries that the head does not reach
			poisonSpec{name: k + "-head0-dangling", first: 0, head: head(0, 65535), free: []freeEnt{{5, 0, 1}, {6, 0, 65535}}, stream: stream},
			poisonSpec{name: k + "-head-to-5-dangling-6", first: 0, head: head(5, 65535), free: []freeEnt{{5, 0, 1}, {6, 0, 2}}, stream: stream},
			poisonSpec{name: k + "-head-wrong-gen", first: 0, head: head(5, 0), free: []freeEnt{{5, 0, 1}}, stream: stream},
			poisonSpec{name: k + "-head-to-inuse", first: 0, head: head(3, 65535), free: []freeEnt{{5, 0, 1}}, stream: stream},
			poisonSpec{name: k + "-head-nonzero-nofree", first: 0, head: head(4, 65535), stream: stream},
			poisonSpec{name: k + "-head-in-use", first: 0, head: nil, free: []freeEnt{{5, 0, 1}}, stream: stream},
			poisonSpec{name: k + "-free-cycle", first: 0, head: head(5, 65535), free: []freeEnt{{5, 6, 1}, {6, 5, 1}}, stream: stream},
			// wrong startxref: the reader scans the file (bypassXrefSection) and repairs object 0
			poisonSpec{name: k + "-badstart", first: 0, head: head(0, 65535), stream: stream, badStart: true},
			poisonSpec{name: k + "-badstart-no0-free", first: 1, free: []freeEnt{{5, 0, 1}}, stream: stream, badStart: true},
		)
	}
	return out
}
