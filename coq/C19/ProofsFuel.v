(* C19 — the fuel given to the model (one more than the number of object numbers and references
   occurring in the table) always suffices: write_model never answers WFuel.  Each recursive
   call of visit marks one more number of that finite universe as written. *)
From Coq Require Import List ZArith NArith Bool Lia.
From PV Require Import C19.Generated C19.Model C19.ProofsClosed.
Import ListNotations.

Definition mu (U : list N) (s : st) : nat := length (filter (fun n => negb (written s n)) U).

Lemma mu_mono : forall U s s', incl (dom s) (dom s') -> mu U s' <= mu U s.
Proof.
  intros U s s' Hi. unfold mu. induction U as [|x U IH]; simpl; [lia|].
  destruct (written s x) eqn:W.
  - apply written_iff in W. apply Hi in W. apply written_iff in W. rewrite W. simpl. exact IH.
  - simpl. destruct (written s' x); simpl; lia.
Qed.

Lemma mu_cons : forall U s n r, In n U -> written s n = false -> mu U ((n, r) :: s) < mu U s.
Proof.
  intros U s n r Hin W. unfold mu. induction U as [|x U IH]; [destruct Hin|].
  pose proof (mu_mono U s ((n, r) :: s)) as Hle. unfold mu in Hle.
  assert (Hi : incl (dom s) (dom ((n, r) :: s))) by (intros k Hk; simpl; right; exact Hk).
  specialize (Hle Hi).
  assert (Hw : forall k, written ((n, r) :: s) k = N.eqb n k || written s k) by reflexivity.
  cbn [filter]. rewrite Hw.
  destruct (N.eqb n x) eqn:E.
  - apply N.eqb_eq in E. subst x. rewrite W. simpl in *. lia.
  - destruct Hin as [Hx|Hin]; [subst; rewrite N.eqb_refl in E; discriminate|]. specialize (IH Hin).
    destruct (written s x); simpl in *; lia.
Qed.

Lemma dfind_in : forall k d o, dfind k d = Some o -> exists k', In (k', o) d.
Proof.
  induction d as [|[k' v] d IH]; intros o H; simpl in H; [discriminate|].
  destruct (beqb k' k).
  - inversion H; subst. exists k'. left. reflexivity.
  - destruct (IH o H) as [k2 Hin]. exists k2. right. exact Hin.
Qed.

Lemma dfind_refs : forall k d o U, dfind k d = Some o -> incl (refs (ODict d)) U -> incl (refs o) U.
Proof.
  intros k d o U H Hi m Hm. destruct (dfind_in k d o H) as [k' Hin]. apply Hi. simpl.
  apply in_flat_map. exists (k', o). split; [exact Hin|exact Hm].
Qed.

Lemma dfind_dset : forall k k' v d o, dfind k (dset k' v d) = Some o -> o = v \/ dfind k d = Some o.
Proof.
  intros k k' v d. induction d as [|[k2 v2] d IH]; intros o H; simpl in *.
  - destruct (beqb k' k); [inversion H; left; reflexivity|discriminate].
  - destruct (beqb k2 k') eqn:E; simpl in H.
    + destruct (beqb k2 k); [inversion H; left; reflexivity|right; exact H].
    + destruct (beqb k2 k); [right; exact H|exact (IH o H)].
Qed.

Lemma lookup_refs : forall g n fl o, lookup g n = Some (fl, o) -> incl (refs o) (all_refs g).
Proof.
  induction g as [|[m [fl' o']] g IH]; intros n fl o H; simpl in H; [discriminate|].
  destruct (N.eqb m n).
  - inversion H; subst. intros x Hx. simpl. right. apply in_or_app. left. exact Hx.
  - intros x Hx. simpl. right. apply in_or_app. right. exact (IH n fl o H x Hx).
Qed.

Lemma filter_len : forall (A : Type) (f : A -> bool) (l : list A), length (filter f l) <= length l.
Proof. intros A f l. induction l as [|x l IH]; simpl; [lia|]. destruct (f x); simpl; lia. Qed.

Section Fuel.
  Variable g : graph.
  Let U := all_refs g.

  Lemma seqm_nf : forall (A : Type) (fn : A -> st -> wres) (f : nat) (l : list A),
    (forall x, In x l -> forall s, mu U s < f -> fn x s <> WFuel) ->
    (forall x s s', In x l -> fn x s = WOk s' -> incl (dom s) (dom s')) ->
    forall s, mu U s < f -> seqm fn l s <> WFuel.
  Proof.
    intros A fn f l. induction l as [|x l IH]; intros Hnf Hinc s Hmu; simpl; [discriminate|].
    destruct (fn x s) as [s1| |] eqn:E; [| discriminate | exfalso; exact (Hnf x (or_introl eq_refl) s Hmu E)].
    apply IH.
    - intros y Hy. apply Hnf. right. exact Hy.
    - intros y a b Hy. apply Hinc. right. exact Hy.
    - pose proof (mu_mono U s s1 (Hinc x s s1 (or_introl eq_refl) E)). lia.
  Qed.

  Section DeepNF.
    Variable f : nat.
    Hypothesis Hnf : forall wp dest n s, In n U -> mu U s < f -> visit g f wp dest n s <> WFuel.

    Lemma deep_inc : forall o wp dest s s', deep (visit g f) wp dest o s = WOk s' -> incl (dom s) (dom s').
    Proof.
      intros o wp dest s s' H. apply (ext_incl g). exact (proj1 (deep_ext g (visit g f) (visit_ext g f) o wp dest s s' H)).
    Qed.

    Lemma deep_nf : forall o wp dest s, incl (refs o) U -> mu U s < f -> deep (visit g f) wp dest o s <> WFuel.
    Proof.
      induction o as [|tg v|z|nm|n|l IH|d IH|d x IH] using obj_ind'; intros wp dest s Hi Hmu; simpl; try discriminate.
      - apply Hnf; [apply Hi; simpl; left; reflexivity|exact Hmu].
      - destruct l as [|y r]; [discriminate|]. rewrite Forall_forall in IH. destruct dest.
        + apply seqm_nf with (f := f); [| |exact Hmu].
          * intros a Ha s0 Hs0. apply IH; [right; exact Ha| |exact Hs0].
            intros m Hm. apply Hi. simpl. apply in_or_app. right. apply in_flat_map. exists a. split; assumption.
          * intros a s0 s1 _ Hd. exact (deep_inc _ _ _ _ _ Hd).
        + apply seqm_nf with (f := f); [| |exact Hmu].
          * intros a Ha s0 Hs0. apply IH; [exact Ha| |exact Hs0].
            intros m Hm. apply Hi. simpl. change (In m (flat_map refs (y :: r))). apply in_flat_map. exists a. split; assumption.
          * intros a s0 s1 _ Hd. exact (deep_inc _ _ _ _ _ Hd).
      - rewrite Forall_forall in IH. apply seqm_nf with (f := f); [| |exact Hmu].
        + intros a Ha s0 Hs0. apply IH; [exact Ha| |exact Hs0].
          intros m Hm. apply Hi. simpl. apply in_flat_map. exists a. split; assumption.
        + intros a s0 s1 _ Hd. exact (deep_inc _ _ _ _ _ Hd).
    Qed.

    Lemma deep_values_nf : forall o wp dest s, incl (refs o) U -> mu U s < f ->
      deep_values (visit g f) wp dest o s <> WFuel.
    Proof.
      intros o wp dest s Hi Hmu. destruct o as [|tg v|z|nm|n|l|d|d x]; simpl; try discriminate.
      - exact (deep_nf (OArr l) wp dest s Hi Hmu).
      - exact (deep_nf (ODict d) wp dest s Hi Hmu).
      - apply seqm_nf with (f := f); [| |exact Hmu].
        + intros a Ha s0 Hs0. apply deep_nf; [|exact Hs0].
          intros m Hm. apply Hi. simpl. apply in_flat_map. exists a. split; assumption.
        + intros a s0 s1 _ Hd. exact (deep_inc _ _ _ _ _ Hd).
    Qed.
  End DeepNF.

  Local Opaque deep_values.
  Lemma visit_nf : forall fuel wp dest n s, In n U -> mu U s < fuel -> visit g fuel wp dest n s <> WFuel.
  Proof.
    induction fuel as [|f IH]; intros wp dest n s Hn Hmu; [lia|]. simpl.
    destruct (written s n) eqn:W; [discriminate|].
    assert (Hgen : forall fl o, lookup g n = Some (fl, o) ->
              deep_values (visit g f) wp dest o ((n, (MGen wp dest, o)) :: s) <> WFuel).
    { intros fl o L. apply (deep_values_nf f IH).
      - exact (lookup_refs g n fl o L).
      - pose proof (mu_cons U s n (MGen wp dest, o) Hn W). lia. }
    destruct (lookup g n) as [[fl o]|] eqn:L; [|discriminate].
    destruct fl.
    - destruct o as [|tg v|z|nm|k|l|d|d x]; try (exact (Hgen _ _ eq_refl)); try discriminate.
      destruct (is_page d && false); [discriminate|exact (Hgen _ _ eq_refl)].
    - destruct o as [|tg v|z|nm|k|l|d|d x]; try (exact (Hgen _ _ eq_refl)); try discriminate.
      destruct (is_page d && true); [discriminate|exact (Hgen _ _ eq_refl)].
  Qed.
  Local Transparent deep_values.

  Lemma visit_inc : forall fuel wp dest n s s', visit g fuel wp dest n s = WOk s' -> incl (dom s) (dom s').
  Proof. intros. apply (ext_incl g). exact (proj1 (visit_ext g _ _ _ _ _ _ H)). Qed.

  Definition vals_in (d : dict) : Prop := forall k o, dfind k d = Some o -> incl (refs o) U.

  Lemma entries_nf : forall fuel wp d keys s, vals_in d -> mu U s < fuel -> entries g fuel wp d keys s <> WFuel.
  Proof.
    intros fuel wp d keys s Hv Hmu. unfold entries. apply seqm_nf with (f := fuel); [| |exact Hmu].
    - intros k _ s0 Hs0. destruct (dfind k d) as [o|] eqn:F; [|discriminate].
      assert (Hd : deep (visit g fuel) wp false o s0 <> WFuel)
        by (apply (deep_nf fuel (visit_nf fuel)); [exact (Hv k o F)|exact Hs0]).
      destruct o; try exact Hd; discriminate.
    - intros k s0 s1 _ Hk. destruct (dfind k d) as [o|]; [|inversion Hk; subst; apply incl_refl].
      destruct o; try (exact (deep_inc fuel _ _ _ _ _ Hk)). inversion Hk; subst. apply incl_refl.
  Qed.

  Lemma entries_inc : forall fuel wp d keys s s', entries g fuel wp d keys s = WOk s' -> incl (dom s) (dom s').
  Proof. intros. apply (ext_incl g). exact (proj1 (entries_ext g _ _ _ _ _ _ H)). Qed.

  Lemma vals_in_lookup : forall n fl d, lookup g n = Some (fl, ODict d) -> vals_in d.
  Proof. intros n fl d L k o F. exact (dfind_refs k d o U F (lookup_refs g n fl (ODict d) L)). Qed.

  Lemma page_dict_nf : forall fuel n d s, vals_in d -> In n U -> mu U s < fuel -> page_dict g fuel n d s <> WFuel.
  Proof.
    intros fuel n d s Hv Hn Hmu. unfold page_dict. destruct (written s n) eqn:W; [discriminate|].
    destruct (dfind kParent d) as [[]|]; try discriminate.
    apply entries_nf; [exact Hv|]. pose proof (mu_cons U s n (MPage, ODict d) Hn W). lia.
  Qed.

  Lemma page_dict_inc : forall fuel n d s s', page_dict g fuel n d s = WOk s' -> incl (dom s) (dom s').
  Proof. intros. apply (ext_incl g). exact (proj1 (page_dict_ext g _ _ _ _ _ H)). Qed.

  Lemma lookup_in_U : forall n e, lookup g n = Some e -> In n U.
  Proof.
    unfold U. induction g as [|[m [fl o]] g0 IH]; intros n e H; simpl in H; [discriminate|].
    destruct (N.eqb m n) eqn:E.
    - apply N.eqb_eq in E. subst. simpl. left. reflexivity.
    - simpl. right. apply in_or_app. right. exact (IH n e H).
  Qed.

  Section KidsNF.
    Variable node : N -> st -> list N -> pres.
    Variable fuel : nat.
    Hypothesis Hnode_nf : forall k s seen, mu U s < fuel -> node k s seen <> PFuel.
    Hypothesis Hnode_inc : forall k s seen s' seen' c, node k s seen = POk s' seen' c -> incl (dom s) (dom s').

    Lemma wkids_nf : forall a s seen acc cnt, mu U s < fuel -> wkids g node fuel a s seen acc cnt <> KFuel.
    Proof.
      induction a as [|o a IH]; intros s seen acc cnt Hmu; simpl; [discriminate|].
      destruct o as [|tg v|z|nm|k|l|d|d x]; try discriminate.
      - apply IH. exact Hmu.
      - destruct (lookup g k) as [[fl [| | | | | |kd|]]|] eqn:L; try discriminate.
        destruct (dtype kd) as [t|]; try discriminate.
        destruct (beqb t kPages).
        + destruct (node k s seen) as [s1 seen1 c| |] eqn:En; [|discriminate|exfalso; exact (Hnode_nf k s seen Hmu En)].
          apply IH. pose proof (mu_mono U s s1 (Hnode_inc _ _ _ _ _ _ En)). lia.
        + destruct (beqb t kPage); try discriminate.
          destruct (page_dict g fuel k kd s) as [s1| |] eqn:Ep; [|discriminate|].
          * apply IH. pose proof (mu_mono U s s1 (page_dict_inc _ _ _ _ _ Ep)). lia.
          * exfalso. revert Ep. apply page_dict_nf; [exact (vals_in_lookup k fl kd L)|exact (lookup_in_U k _ L)|exact Hmu].
    Qed.

    Lemma wkids_inc : forall a s seen acc cnt s' seen' kids' cnt',
      wkids g node fuel a s seen acc cnt = KOk s' seen' kids' cnt' -> incl (dom s) (dom s').
    Proof.
      induction a as [|o a IH]; intros s seen acc cnt s' seen' kids' cnt' H; simpl in H.
      - inversion H; subst. apply incl_refl.
      - destruct o as [|tg v|z|nm|k|l|d|d x]; try discriminate.
        + exact (IH _ _ _ _ _ _ _ _ H).
        + destruct (lookup g k) as [[fl [| | | | | |kd|]]|]; try discriminate.
          destruct (dtype kd) as [t|]; try discriminate.
          destruct (beqb t kPages).
          * destruct (node k s seen) as [s1 seen1 c| |] eqn:En; try discriminate.
            eapply incl_tran; [exact (Hnode_inc _ _ _ _ _ _ En)|exact (IH _ _ _ _ _ _ _ _ H)].
          * destruct (beqb t kPage); try discriminate.
            destruct (page_dict g fuel k kd s) as [s1| |] eqn:Ep; try discriminate.
            eapply incl_tran; [exact (page_dict_inc _ _ _ _ _ Ep)|exact (IH _ _ _ _ _ _ _ _ H)].
    Qed.

    (* the kept kids are references that occur in the original array *)
    Lemma wkids_kids : forall a s seen acc cnt s' seen' kids' cnt',
      wkids g node fuel a s seen acc cnt = KOk s' seen' kids' cnt' ->
      forall o, In o kids' -> In o acc \/ In o a.
    Proof.
      induction a as [|o a IH]; intros s seen acc cnt s' seen' kids' cnt' H x Hx; simpl in H.
      - inversion H; subst. left. apply in_rev. exact Hx.
      - destruct o as [|tg v|z|nm|k|l|d|d y]; try discriminate.
        + destruct (IH _ _ _ _ _ _ _ _ H x Hx) as [Ha|Ha]; [left; exact Ha|right; right; exact Ha].
        + destruct (lookup g k) as [[fl [| | | | | |kd|]]|]; try discriminate.
          destruct (dtype kd) as [t|]; try discriminate.
          destruct (beqb t kPages).
          * destruct (node k s seen) as [s1 seen1 c| |]; try discriminate.
            destruct (IH _ _ _ _ _ _ _ _ H x Hx) as [[Ha|Ha]|Ha];
              [right; left; exact Ha|left; exact Ha|right; right; exact Ha].
          * destruct (beqb t kPage); try discriminate.
            destruct (page_dict g fuel k kd s) as [s1| |]; try discriminate.
            destruct (IH _ _ _ _ _ _ _ _ H x Hx) as [[Ha|Ha]|Ha];
              [right; left; exact Ha|left; exact Ha|right; right; exact Ha].
    Qed.
  End KidsNF.

  Lemma pages_node_inc : forall depth fuel n s seen s' seen' c,
    pages_node g depth fuel n s seen = POk s' seen' c -> incl (dom s) (dom s').
  Proof. intros. apply (ext_incl g). exact (proj1 (pages_node_ext g _ _ _ _ _ _ _ _ H)). Qed.

  Local Opaque entries.
  Lemma pages_node_nf : forall depth fuel n s seen, mu U s < fuel -> pages_node g depth fuel n s seen <> PFuel.
  Proof.
    induction depth as [|dp IH]; intros fuel n s seen Hmu; simpl; [discriminate|].
    destruct (memn n seen); [discriminate|].
    destruct (lookup g n) as [[fl [| | | | | |d|]]|] eqn:L; try discriminate.
    destruct (wkids g (pages_node g dp fuel) fuel (kids_of d) s (n :: seen) [] 0%Z) as [s1 seen1 kidsNew cnt| |] eqn:Ek;
      [|discriminate|].
    - match goal with |- context [entries g fuel false ?dd pages_keys ?ss] =>
        destruct (entries g fuel false dd pages_keys ss) as [s2| |] eqn:Ee; try discriminate end.
      exfalso. revert Ee. apply entries_nf.
      + intros k o F. apply dfind_dset in F. destruct F as [->|F]; [intros m []|].
        apply dfind_dset in F. destruct F as [->|F].
        * intros m Hm. simpl in Hm. apply in_flat_map in Hm. destruct Hm as [x [Hx Hm]].
          destruct (wkids_kids _ _ _ _ _ _ _ _ _ _ _ Ek x Hx) as [[]|Hk].
          unfold kids_of in Hk. destruct (dfind kKids d) as [[| | | | |a| |]|] eqn:Fk; try destruct Hk.
          apply (dfind_refs kKids d (OArr a) U Fk (lookup_refs g n fl (ODict d) L)). simpl.
          apply in_flat_map. exists x. split; assumption.
        * exact (vals_in_lookup n fl d L k o F).
      + assert (Hinc : incl (dom s) (dom s1)).
        { exact (wkids_inc (pages_node g dp fuel) fuel (pages_node_inc dp fuel) _ _ _ _ _ _ _ _ _ Ek). }
        pose proof (mu_mono U s s1 Hinc).
        pose proof (mu_mono U s1 ((n, (MPages, ODict (dset kCount (OInt cnt) (dset kKids (OArr kidsNew) d)))) :: s1)
                      (fun k Hk => or_intror Hk)). lia.
    - exfalso. revert Ek.
      apply (wkids_nf (pages_node g dp fuel) fuel (fun k a b Hab => IH fuel k a b Hab) (pages_node_inc dp fuel)). exact Hmu.
  Qed.

  Theorem write_model_nofuel : forall maxd delv root info,
    write_model g maxd (fuel_for g) delv root info <> WFuel.
  Proof.
    intros maxd delv root info. unfold write_model, fuel_for. fold U.
    set (fuel := S (length U)).
    assert (Hall : forall s, mu U s < fuel).
    { intros s. unfold mu, fuel. pose proof (filter_len _ (fun n => negb (written s n)) U). lia. }
    destruct (write_root g maxd fuel delv root) as [s1| |] eqn:E1; [|discriminate|].
    - unfold write_info. destruct info as [i|]; [|discriminate].
      destruct (lookup g i) as [[fl o]|] eqn:L; [|discriminate].
      destruct o as [|tg v|z|nm|k|l|d|d x]; try discriminate.
      destruct (written s1 i); [discriminate|]. destruct (is_page d && _); [discriminate|].
      apply (deep_values_nf fuel (visit_nf fuel)); [exact (lookup_refs g i fl _ L)|apply Hall].
    - exfalso. unfold write_root in E1.
      destruct (lookup g root) as [[fl [| | | | | |d0|]]|] eqn:L; try discriminate.
      assert (Hv : vals_in (if delv then ddel kVersion d0 else d0)).
      { destruct delv; [|exact (vals_in_lookup root fl d0 L)].
        intros k o F. apply (vals_in_lookup root fl d0 L k o).
        clear -F. induction d0 as [|[k' v] d0 IH]; simpl in *; [discriminate|].
        destruct (beqb k' kVersion) eqn:Ev.
        - destruct (beqb k' k) eqn:Ek; [|exact (IH F)].
          (* k' = kVersion was deleted, so k is found further on; but then k' = k is impossible
             unless the later occurrence is returned: dfind after ddel never returns a Version key *)
          exfalso. apply beqb_eq in Ev. apply beqb_eq in Ek. subst.
          clear IH. induction d0 as [|[k2 v2] d0 IH2]; simpl in F; [discriminate|].
          destruct (beqb k2 kVersion) eqn:E2; [exact (IH2 F)|].
          simpl in F. rewrite E2 in F. exact (IH2 F).
        - simpl in F. destruct (beqb k' k); [exact F|exact (IH F)]. }
      match type of E1 with context [entries g fuel false ?dd root_keys_pre ?ss] =>
        destruct (entries g fuel false dd root_keys_pre ss) as [sa| |] eqn:Ea end.
      + match type of E1 with context [dfind kPages ?dd] => destruct (dfind kPages dd) as [[| | | |p| | |]|]; try discriminate end.
        destruct (pages_node g maxd fuel p sa []) as [sb seenb cb| |] eqn:Eb; try discriminate.
        * revert E1. apply entries_nf; [exact Hv|apply Hall].
        * revert Eb. apply pages_node_nf. apply Hall.
      + discriminate.
      + revert Ea. apply entries_nf; [exact Hv|apply Hall].
  Qed.
  Local Transparent entries.
End Fuel.
