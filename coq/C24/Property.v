(* C24 — Encryption parameters interoperate with the ISO 32000 algorithms.  Property theorems only.
   Code model: C24/Model.v (transcribed from pkg/pdfcpu/crypto.go); specification model: C24/Spec.v (transcribed
   from ISO 32000-1 Algorithms 2-7 and ISO 32000-2 Algorithms 2.A, 2.B, 8-13); shared primitives: C24/Prims.v. *)
From Coq Require Import NArith ZArith List Bool.
Import ListNotations.
From PV Require Import C24.Prims C24.Model C24.Spec C24.Proofs.
Open Scope N_scope.

(* R 2,3,4 — for every password (any length, any bytes), O entry, P, file identifier, key length, EncryptMetadata: *)

(* the file key pdfcpu uses (encKey) is the one of Algorithm 2 *)
Theorem C24_code_eq_spec_key : forall userpw e, rev234 (eR e) ->
  c_encKey userpw e = alg2 userpw (eO e) (eP e) (eID e) (eR e) (eL e) (eEmd e).
Proof. exact encKey_eq. Qed.
Print Assumptions C24_code_eq_spec_key.

(* the O entry pdfcpu writes (o) is the one of Algorithm 3, for every pair of passwords incl. the empty owner password *)
Theorem C24_code_eq_spec_O : forall ownerpw userpw r l, 2 <= r ->
  c_o ownerpw userpw r l = alg3 ownerpw userpw r l.
Proof. exact o_eq. Qed.
Print Assumptions C24_code_eq_spec_O.

(* the U entry pdfcpu writes (u) is the one of Algorithm 4 (R2), resp. the 16 bytes of Algorithm 5 followed by 16
   bytes of (arbitrary, here zero) padding (R 3,4); the key returned with it is the one of Algorithm 2 *)
Theorem C24_code_eq_spec_U : forall userpw e,
  let key := alg2 userpw (eO e) (eP e) (eID e) (eR e) (eL e) (eEmd e) in
  (eR e = 2 -> c_u userpw e = (alg4 key, key)) /\
  (eR e = 3 \/ eR e = 4 -> c_u userpw e = (alg5_16 key (eID e) ++ zeros 16, key) /\ length (alg5_16 key (eID e)) = 16%nat).
Proof.
  intros userpw e key. split.
  - intros H. subst key. rewrite H. apply u_eq_r2. exact H.
  - intros H. split; [apply u_eq_r34; exact H | apply length_alg5_16].
Qed.
Print Assumptions C24_code_eq_spec_U.

(* pdfcpu accepts a user password exactly when Algorithm 6 does, and derives the same key - for every U entry, well
   formed or not *)
Theorem C24_accepts_iff_spec_user : forall userpw e, rev234 (eR e) ->
  c_validate_user_rc4 userpw e = alg6 userpw (eO e) (eU e) (eP e) (eID e) (eR e) (eL e) (eEmd e).
Proof. exact validate_user_eq. Qed.
Print Assumptions C24_accepts_iff_spec_user.

(* pdfcpu accepts an owner password exactly when Algorithm 7 does (an empty owner slot falls back to the user slot as in
   Algorithm 3 step a) *)
Theorem C24_accepts_iff_spec_owner : forall ownerpw userpw e, rev234 (eR e) ->
  c_validate_owner_rc4 ownerpw userpw e
  = alg7 ownerpw userpw (eO e) (eU e) (eP e) (eID e) (eR e) (eL e) (eEmd e).
Proof. exact validate_owner_eq. Qed.
Print Assumptions C24_accepts_iff_spec_owner.
