(* C13 — Unicode text stored in a PDF reads back unchanged.
   Executable hand-written model (no proofs here) of
     /repo/pkg/pdfcpu/types/utf16.go   IsUTF16BE, decodeUTF16String, EncodeUTF16String,
                                        EscapedUTF16String, StringLiteralToString, HexLiteralToString
     /repo/pkg/pdfcpu/types/string.go  Escape, escaped, regularChar, Unescape, ByteForOctalString
     /repo/pkg/pdfcpu/types/pdfDocEncoding.go  pdfDocEncodingRune, decodePDFDocEncoding,
                                        hasPDFDocEncodingControlByte
     /repo/pkg/pdfcpu/types/types.go   NewHexLiteral, HexLiteral.Bytes
   and of the Go standard library functions they call (go1.25 sources):
     unicode/utf16  EncodeRune, DecodeRune, RuneLen, Encode, Decode
     unicode/utf8   EncodeRune, DecodeRuneInString / []rune(string), ValidString
     encoding/hex   EncodeToString, DecodeString.
   Conventions: a Go string / []byte is a list of N (each < 256), a rune is an N (runes obtained
   from []rune(string) are never negative), a uint16 is an N (< 65536).  Bit operations are kept as
   bit operations (N.land / N.lor / N.shiftl / N.shiftr), integer conversions byte(x) / uint16(x)
   are explicit [mod]. *)
From Coq Require Import NArith List Bool.
From PV Require Import Lib.GoInt.
Import ListNotations.
Open Scope N_scope.

Definition byte (x : N) : N := x mod 256.
Definition uint16 (x : N) : N := x mod 65536.
Definition is_byte (b : N) : bool := b <? 256.
Definition bytes_ok (l : list N) : bool := forallb is_byte l.

(* ------------------------------------------------------------------ unicode/utf16 *)
Definition replacementChar : N := 0xFFFD.
Definition maxRune : N := 0x10FFFF.
Definition surr1 : N := 0xd800.
Definition surr2 : N := 0xdc00.
Definition surr3 : N := 0xe000.
Definition surrSelf : N := 0x10000.

(* utf16.RuneLen for r >= 0: 1, 2, or 0 standing for -1 *)
Definition utf16_RuneLen (r : N) : N :=
  if (r <? surr1) || ((surr3 <=? r) && (r <? surrSelf)) then 1
  else if (surrSelf <=? r) && (r <=? maxRune) then 2
  else 0.

(* utf16.EncodeRune:  r -= surrSelf; return surr1 + (r>>10)&0x3ff, surr2 + r&0x3ff *)
Definition utf16_EncodeRune (r : N) : N * N :=
  if (r <? surrSelf) || (maxRune <? r) then (replacementChar, replacementChar)
  else let r' := r - surrSelf in
       (surr1 + N.land (N.shiftr r' 10) 0x3ff, surr2 + N.land r' 0x3ff).

(* utf16.DecodeRune:  (r1-surr1)<<10 | (r2 - surr2) + surrSelf
   (Go precedence: << binds tighter than | and +, which are left associative) *)
Definition utf16_DecodeRune (r1 r2 : N) : N :=
  if (surr1 <=? r1) && (r1 <? surr2) && (surr2 <=? r2) && (r2 <? surr3)
  then N.lor (N.shiftl (r1 - surr1) 10) (r2 - surr2) + surrSelf
  else replacementChar.

(* utf16.Encode *)
Definition utf16_Encode1 (v : N) : list N :=
  let k := utf16_RuneLen v in
  if k =? 1 then [uint16 v]
  else if k =? 2 then let '(r1, r2) := utf16_EncodeRune v in [uint16 r1; uint16 r2]
  else [uint16 replacementChar].
Definition utf16_Encode (s : list N) : list N := flat_map utf16_Encode1 s.

(* utf16.Decode (decode loop; i++ / i += 2) *)
Fixpoint utf16_Decode (s : list N) : list N :=
  match s with
  | [] => []
  | r :: rest =>
    if (r <? surr1) || (surr3 <=? r) then r :: utf16_Decode rest
    else match rest with
         | r2 :: rest' =>
           if (surr1 <=? r) && (r <? surr2) && (surr2 <=? r2) && (r2 <? surr3)
           then utf16_DecodeRune r r2 :: utf16_Decode rest'
           else replacementChar :: utf16_Decode rest
         | [] => replacementChar :: utf16_Decode rest
         end
  end.

(* ------------------------------------------------------------------ unicode/utf8 *)
Definition RuneError : N := 0xFFFD.
Definition tx : N := 0x80.
Definition t2 : N := 0xC0.
Definition t3 : N := 0xE0.
Definition t4 : N := 0xF0.
Definition maskx : N := 0x3F.
Definition mask2 : N := 0x1F.
Definition mask3 : N := 0x0F.
Definition mask4 : N := 0x07.

(* utf8.EncodeRune / encodeRuneNonASCII *)
Definition utf8_EncodeRune (r : N) : list N :=
  if r <=? 0x7F then [byte r]
  else if r <=? 0x7FF then
    [N.lor t2 (byte (N.shiftr r 6)); N.lor tx (N.land (byte r) maskx)]
  else if (r <? 0xD800) || ((0xDFFF <? r) && (r <=? 0xFFFF)) then
    [N.lor t3 (byte (N.shiftr r 12)); N.lor tx (N.land (byte (N.shiftr r 6)) maskx);
     N.lor tx (N.land (byte r) maskx)]
  else if (0xFFFF <? r) && (r <=? 0x10FFFF) then
    [N.lor t4 (byte (N.shiftr r 18)); N.lor tx (N.land (byte (N.shiftr r 12)) maskx);
     N.lor tx (N.land (byte (N.shiftr r 6)) maskx); N.lor tx (N.land (byte r) maskx)]
  else [0xEF; 0xBF; 0xBD].

(* string([]rune) / the EncodeRune loop at the end of decodeUTF16String *)
Definition utf8_of_runes (rr : list N) : list N := flat_map utf8_EncodeRune rr.

(* utf8.first / acceptRanges for a lead byte >= 0x80: Some (size, lo, hi) or None for xx *)
Definition utf8_first (b0 : N) : option (N * N * N) :=
  if b0 <? 0xC2 then None
  else if b0 <=? 0xDF then Some (2, 0x80, 0xBF)
  else if b0 =? 0xE0 then Some (3, 0xA0, 0xBF)
  else if b0 =? 0xED then Some (3, 0x80, 0x9F)
  else if b0 <=? 0xEF then Some (3, 0x80, 0xBF)
  else if b0 =? 0xF0 then Some (4, 0x90, 0xBF)
  else if b0 <=? 0xF3 then Some (4, 0x80, 0xBF)
  else if b0 =? 0xF4 then Some (4, 0x80, 0x8F)
  else None.

Definition utf8_cont (b : N) : bool := (0x80 <=? b) && (b <=? 0xBF).

(* Repeated utf8.DecodeRuneInString over a string: [Some r] for a decoded rune, [None] for an
   invalid byte (Go: RuneError, width 1). *)
Fixpoint utf8_scan (s : list N) : list (option N) :=
  match s with
  | [] => []
  | b0 :: r1 =>
    if b0 <? 0x80 then Some b0 :: utf8_scan r1 else
    match utf8_first b0 with
    | None => None :: utf8_scan r1
    | Some (sz, lo, hi) =>
      match r1 with
      | [] => None :: utf8_scan r1
      | b1 :: r2 =>
        if (b1 <? lo) || (hi <? b1) then None :: utf8_scan r1 else
        if sz =? 2 then
          Some (N.lor (N.shiftl (N.land b0 mask2) 6) (N.land b1 maskx)) :: utf8_scan r2
        else
        match r2 with
        | [] => None :: utf8_scan r1
        | b2 :: r3 =>
          if negb (utf8_cont b2) then None :: utf8_scan r1 else
          if sz =? 3 then
            Some (N.lor (N.lor (N.shiftl (N.land b0 mask3) 12) (N.shiftl (N.land b1 maskx) 6))
                        (N.land b2 maskx)) :: utf8_scan r3
          else
          match r3 with
          | [] => None :: utf8_scan r1
          | b3 :: r4 =>
            if negb (utf8_cont b3) then None :: utf8_scan r1 else
            Some (N.lor (N.lor (N.lor (N.shiftl (N.land b0 mask4) 18) (N.shiftl (N.land b1 maskx) 12))
                               (N.shiftl (N.land b2 maskx) 6)) (N.land b3 maskx)) :: utf8_scan r4
          end
        end
      end
    end
  end.

Definition opt_rune (o : option N) : N := match o with Some r => r | None => RuneError end.
Definition is_some (o : option N) : bool := match o with Some _ => true | None => false end.

(* []rune(s) *)
Definition runes_of_string (s : list N) : list N := map opt_rune (utf8_scan s).
(* utf8.ValidString(s) / utf8.Valid(b) *)
Definition utf8_valid (s : list N) : bool := forallb is_some (utf8_scan s).

(* ------------------------------------------------------------------ utf16.go *)

(* IsUTF16BE *)
Definition IsUTF16BE (b : list N) : bool :=
  match b with
  | b0 :: b1 :: _ => Nat.even (length b) && (b0 =? 0xFE) && (b1 =? 0xFF)
  | _ => false   (* len 0, or len 1 (odd) *)
  end.

(* IsStringUTF16BE: strings.HasPrefix(s, "\376\377") *)
Definition IsStringUTF16BE (s : list N) : bool :=
  match s with b0 :: b1 :: _ => (b0 =? 0xFE) && (b1 =? 0xFF) | _ => false end.

(* val := (uint16(b[i]) << 8) + uint16(b[i+1]) *)
Definition be16 (b0 b1 : N) : N := uint16 (uint16 (N.shiftl b0 8) + b1).

(* the "Collect code points" loop of decodeUTF16String on b[2:]; Err = one of the three
   fmt.Errorf returns.  A trailing single byte cannot occur (IsUTF16BE checked the length is
   even; Go would panic on b[i+1]); the model answers Err there. *)
Fixpoint collect_units (b : list N) : res (list N) :=
  match b with
  | [] => Ok []
  | _ :: [] => Err
  | b0 :: b1 :: rest =>
    let val := be16 b0 b1 in
    if (val <=? 0xD7FF) || ((0xE000 <=? val) && (val <=? 0xFFFF)) then
      match collect_units rest with Ok u => Ok (val :: u) | Err => Err end
    else
      match rest with
      | [] => Err                                   (* i+2 >= len(b) *)
      | _ :: [] => Err
      | b2 :: b3 :: rest' =>
        if (0xDC00 <=? val) && (val <=? 0xDFFF) then Err else
        let val2 := be16 b2 b3 in
        if (val2 <? 0xDC00) || (0xDFFF <? val2) then Err else
        match collect_units rest' with Ok u => Ok (val :: val2 :: u) | Err => Err end
      end
  end.

(* decodeUTF16String up to and including utf16.Decode: the decoded runes *)
Definition decodeUTF16Runes (b : list N) : res (list N) :=
  if negb (IsUTF16BE b) then Err else
  match collect_units (skipn 2 b) with
  | Err => Err
  | Ok u16 => Ok (utf16_Decode u16)
  end.

(* decodeUTF16String / DecodeUTF16String *)
Definition decodeUTF16String (b : list N) : res (list N) :=
  match decodeUTF16Runes b with
  | Err => Err
  | Ok rr => Ok (utf8_of_runes rr)
  end.

(* EncodeUTF16String after rr := utf16.Encode([]rune(s)) *)
Definition unit_bytes (r : N) : list N := [byte (N.shiftr r 8); byte (N.land r 0xFF)].
Definition EncodeUTF16Runes (runes : list N) : list N :=
  [0xFE; 0xFF] ++ flat_map unit_bytes (utf16_Encode runes).
Definition EncodeUTF16String (s : list N) : list N := EncodeUTF16Runes (runes_of_string s).

(* ------------------------------------------------------------------ string.go *)

(* Escape *)
Definition escape_byte (c : N) : list N :=
  if c =? 0x0A then [0x5c; 110]        (* \n *)
  else if c =? 0x0D then [0x5c; 114]   (* \r *)
  else if c =? 0x09 then [0x5c; 116]   (* \t *)
  else if c =? 0x08 then [0x5c; 98]    (* \b *)
  else if c =? 0x0C then [0x5c; 102]   (* \f *)
  else if (c =? 0x5c) || (c =? 40) || (c =? 41) then [0x5c; c]
  else [c].
Definition Escape (s : list N) : list N := flat_map escape_byte s.

(* escaped *)
Definition escaped (c : N) : bool * N :=
  if c =? 110 then (false, 0x0A)
  else if c =? 114 then (false, 0x0D)
  else if c =? 116 then (false, 0x09)
  else if c =? 98 then (false, 0x08)
  else if c =? 102 then (false, 0x0C)
  else if (c =? 40) || (c =? 41) then (false, c)
  else if (48 <=? c) && (c <=? 55) then (true, c)
  else (false, c).

Definition is_octal_digit (c : N) : bool := (48 <=? c) && (c <=? 55).
Definition is_nil (l : list N) : bool := match l with [] => true | _ => false end.

(* ByteForOctalString: strconv.ParseUint(s, 8, 16) & 0xff; 0 on error / bad length *)
Definition ByteForOctalString (o : list N) : N :=
  if is_nil o || Nat.ltb 3 (length o) then 0
  else if forallb is_octal_digit o
       then byte (N.land (fold_left (fun a d => a * 8 + (d - 48)) o 0) 0xff)
       else 0.

(* loop state of Unescape: esc, longEol, octalCode, b (output, reversed) *)
Record ust := mkU { u_esc : bool; u_long : bool; u_oct : list N; u_out : list N }.

(* one iteration of the for loop of Unescape *)
Definition unescape_step (st : ust) (c : N) : res ust :=
  let le := u_long st in
  let oct := u_oct st in
  let out := u_out st in
  let esc := if le then false else u_esc st in
  if le && (c =? 0x0A) then Ok (mkU esc false oct out) else
  let pending := negb (is_nil oct) in
  if pending && is_octal_digit c then
    let oct' := oct ++ [c] in
    if Nat.eqb (length oct') 3 then Ok (mkU false false [] (ByteForOctalString oct' :: out))
    else Ok (mkU esc false oct' out)
  else
  let esc := if pending then false else esc in
  let out := if pending then ByteForOctalString oct :: out else out in
  let oct := if pending then [] else oct in
  if negb (c =? 0x5c) && negb esc then Ok (mkU esc false oct (c :: out)) else
  if c =? 0x5c then
    if negb esc then Ok (mkU true false oct out)
    else if negb (is_nil oct) then Err
    else Ok (mkU false false oct (c :: out))
  else
  if c =? 0x0A then Ok (mkU false false oct out) else
  if c =? 0x0D then Ok (mkU esc true oct out) else
  let '(octal, c') := escaped c in
  if octal then Ok (mkU esc false (oct ++ [c']) out)
  else Ok (mkU false false oct (c' :: out)).

Fixpoint unescape_loop (s : list N) (st : ust) : res ust :=
  match s with
  | [] => Ok st
  | c :: rest => match unescape_step st c with Err => Err | Ok st' => unescape_loop rest st' end
  end.

Definition Unescape (s : list N) : res (list N) :=
  match unescape_loop s (mkU false false [] []) with
  | Err => Err
  | Ok st =>
    Ok (rev (if negb (is_nil (u_oct st)) then ByteForOctalString (u_oct st) :: u_out st else u_out st))
  end.

(* EscapedUTF16String *)
Definition EscapedUTF16String (s : list N) : res (list N) :=
  if negb (utf8_valid s) then Err else Ok (Escape (EncodeUTF16String s)).

(* ------------------------------------------------------------------ pdfDocEncoding.go *)
Definition pdfDocEncoding : list (N * N) :=
  [(0x18,0x02d8);(0x19,0x02c7);(0x1a,0x02c6);(0x1b,0x02d9);(0x1c,0x02dd);(0x1d,0x02db);
   (0x1e,0x02da);(0x1f,0x02dc);(0x80,0x2022);(0x81,0x2020);(0x82,0x2021);(0x83,0x2026);
   (0x84,0x2014);(0x85,0x2013);(0x86,0x0192);(0x87,0x2044);(0x88,0x2039);(0x89,0x203a);
   (0x8a,0x2212);(0x8b,0x2030);(0x8c,0x201e);(0x8d,0x201c);(0x8e,0x201d);(0x8f,0x2018);
   (0x90,0x2019);(0x91,0x201a);(0x92,0x2122);(0x93,0xfb01);(0x94,0xfb02);(0x95,0x0141);
   (0x96,0x0152);(0x97,0x0160);(0x98,0x0178);(0x99,0x017d);(0x9a,0x0131);(0x9b,0x0142);
   (0x9c,0x0153);(0x9d,0x0161);(0x9e,0x017e);(0xa0,0x20ac)].

Definition pdfDocEncodingRune (b : N) : N :=
  match find (fun p => fst p =? b) pdfDocEncoding with
  | Some p => snd p
  | None =>
    if (b =? 0x09) || (b =? 0x0a) || (b =? 0x0d) || ((0x20 <=? b) && (b <=? 0x7e))
       || ((0xa1 <=? b) && (b <=? 0xff) && negb (b =? 0xad))
    then b else 0xFFFD
  end.

Definition decodePDFDocEncoding (b : list N) : list N := utf8_of_runes (map pdfDocEncodingRune b).
Definition hasPDFDocEncodingControlByte (b : list N) : bool :=
  existsb (fun c => (0x18 <=? c) && (c <=? 0x1f)) b.

(* bytes.TrimPrefix(bb, []byte{239, 187, 191}) *)
Definition trim_utf8_bom (b : list N) : list N :=
  match b with
  | b0 :: b1 :: b2 :: rest => if (b0 =? 239) && (b1 =? 187) && (b2 =? 191) then rest else b
  | _ => b
  end.

(* common tail of StringLiteralToString / HexLiteralToString *)
Definition fallback_text (bb : list N) : list N :=
  let bb := trim_utf8_bom bb in
  if utf8_valid bb && negb (hasPDFDocEncodingControlByte bb) then bb else decodePDFDocEncoding bb.

(* StringLiteralToString *)
Definition StringLiteralToString (sl : list N) : res (list N) :=
  match Unescape sl with
  | Err => Err
  | Ok bb => if IsUTF16BE bb then decodeUTF16String bb else Ok (fallback_text bb)
  end.

(* ------------------------------------------------------------------ encoding/hex, types.go *)
Definition hexdigit (v : N) : N := if v <? 10 then 48 + v else 87 + v.   (* "0123456789abcdef" *)
(* NewHexLiteral: hex.EncodeToString *)
Definition NewHexLiteral (b : list N) : list N :=
  flat_map (fun v => [hexdigit (N.shiftr v 4); hexdigit (N.land v 0x0f)]) b.

(* reverseHexTable *)
Definition hexval (c : N) : option N :=
  if (48 <=? c) && (c <=? 57) then Some (c - 48)
  else if (97 <=? c) && (c <=? 102) then Some (c - 87)
  else if (65 <=? c) && (c <=? 70) then Some (c - 55)
  else None.

(* HexLiteral.Bytes: hex.DecodeString *)
Fixpoint hex_decode (s : list N) : res (list N) :=
  match s with
  | [] => Ok []
  | _ :: [] => Err                               (* ErrLength / InvalidByteError *)
  | p :: q :: rest =>
    match hexval p, hexval q with
    | Some a, Some b =>
      match hex_decode rest with Ok l => Ok (N.lor (N.shiftl a 4) b :: l) | Err => Err end
    | _, _ => Err
    end
  end.

(* HexLiteralToString *)
Definition HexLiteralToString (hl : list N) : res (list N) :=
  match hex_decode hl with
  | Err => Err
  | Ok bb =>
    if IsUTF16BE bb then decodeUTF16String bb else
    match Unescape bb with
    | Err => Err
    | Ok bb' => Ok (fallback_text bb')
    end
  end.
