From Coq Require Import Extraction ExtrOcamlBasic.
From PV Require Import Lib.ExtBase C08.Model.
Extraction "model.ml" ext_base_z ext_base_n ext_base_nat ext_base_res ext_base_list
  depth_exceeded page_number prev_chain sibling_list guarded_descent indexed_ok buf_to_int64 read_length is_indef_term detect_marker post_process_params predictor_row_params cmap4_layout.
