(* C40: determinism of the lock-protected sections under every interleaving. *)
From Coq Require Import Arith NArith List Bool Lia.
From PV Require Import C40.Model.
Import ListNotations.
Open Scope N_scope.

(* The result of a section as a function of the environment alone. *)
Definition env_table (e : env) : table := match e_fonts e with Some t => t | None => [] end.
Definition is_none {A} (o : option A) : bool := match o with None => true | Some _ => false end.

Definition det_result (e : env) (s : sec) : result :=
  match s with
  | SLoad | SReload => err_result (is_none (e_fonts e))
  | SLookup n => RFont (lookup n (env_table e))
  | SNames => RNames (map fst (env_table e))
  | SDisable => RUnit
  | SReadCfg => RCfg true
  | SLoadCerts => err_result (is_none (e_pool e))
  | SInvalidate => RUnit
  | SGetPool => RPool (e_pool e)
  end.

Fixpoint det_run (e : env) (ss : list sec) : result :=
  match ss with
  | [] => RUnit
  | s :: ss' => let r := det_result e s in
                if is_err r || null ss' then r else det_run e ss'
  end.

Section Steps.
Variable e : env.

Lemma step_coherent s st : coherent e st -> coherent e (fst (step e s st)).
Proof.
  intros (Hcfg & Hf & Hp). unfold coherent.
  destruct s; cbn [step]; unfold do_load.
  - destruct (s_once st) eqn:Ho; [cbn [fst]; rewrite Ho; auto|].
    destruct (e_fonts e) as [t|] eqn:He; cbn; rewrite ?He; auto.
  - destruct (e_fonts e) as [t|] eqn:He; cbn; rewrite ?He; auto.
  - cbn; auto.
  - cbn; auto.
  - cbn; auto.
  - cbn; auto.
  - destruct (s_loaded st && (s_dir st =? e_certdir e) && (s_rev st =? e_rev e)) eqn:Hhit; cbn [fst]; auto.
    destruct (e_pool e) as [p|] eqn:Hpool; cbn; auto.
    repeat split; auto. intros _ _ _. exists p. auto.
  - cbn; repeat split; auto. intros Hl. discriminate.
  - cbn; auto.
Qed.

Lemma step_fonts_stable s st : fonts_loaded e st -> fonts_loaded e (fst (step e s st)).
Proof.
  intros (Ho & Hne). unfold fonts_loaded. destruct s; cbn [step]; try (cbn; auto; fail).
  - rewrite Ho. cbn. auto.
  - unfold do_load. destruct (e_fonts e); cbn; auto.
  - destruct (s_loaded st && (s_dir st =? e_certdir e) && (s_rev st =? e_rev e)); cbn; auto.
    destruct (e_pool e); cbn; auto.
Qed.

Lemma step_pool_stable s st : pool_loaded e st -> pool_loaded e (fst (step e s st)).
Proof.
  intros (p & Hp & Hs). unfold pool_loaded. destruct s; cbn [step]; try (cbn; eauto; fail).
  - destruct (s_once st); cbn; eauto. unfold do_load. destruct (e_fonts e); cbn; eauto.
  - unfold do_load. destruct (e_fonts e); cbn; eauto.
  - destruct (s_loaded st && (s_dir st =? e_certdir e) && (s_rev st =? e_rev e)); cbn; eauto.
    rewrite Hp. cbn. eauto.
Qed.

Lemma step_gain1 s st : coherent e st -> gives1 s = true -> is_err (snd (step e s st)) = false ->
  fonts_loaded e (fst (step e s st)).
Proof.
  intros (Hcfg & Hf & Hp) Hg Hne. unfold fonts_loaded.
  destruct s; try discriminate; cbn [step] in *.
  - destruct (s_once st) eqn:Ho; cbn [fst snd] in *.
    + split; auto. specialize (Hf eq_refl). destruct (e_fonts e); [discriminate|].
      rewrite Hf in Hne. discriminate.
    + unfold do_load in *. destruct (e_fonts e); cbn in *; [split; auto; discriminate | discriminate].
  - unfold do_load in *. destruct (e_fonts e); cbn in *; [split; auto; discriminate | discriminate].
Qed.

Lemma step_gain2 s st : coherent e st -> gives2 s = true -> is_err (snd (step e s st)) = false ->
  pool_loaded e (fst (step e s st)).
Proof.
  intros (Hcfg & Hf & Hp) Hg Hne. unfold pool_loaded.
  destruct s; try discriminate; cbn [step] in *.
  destruct (s_loaded st && (s_dir st =? e_certdir e) && (s_rev st =? e_rev e)) eqn:Hhit; cbn [fst snd] in *.
  - apply andb_prop in Hhit as [Hhit Hr]. apply andb_prop in Hhit as [Hl Hd].
    apply N.eqb_eq in Hr. apply N.eqb_eq in Hd. auto.
  - destruct (e_pool e) as [p|]; cbn in *; [eauto | discriminate].
Qed.

(* Under coherence (and the knowledge the section needs) the result is the environment's. *)
Lemma step_det s st (k1 k2 : bool) :
  coherent e st -> (k1 = true -> fonts_loaded e st) -> (k2 = true -> pool_loaded e st) ->
  needs k1 k2 s = true -> snd (step e s st) = det_result e s.
Proof.
  intros (Hcfg & Hf & Hp) H1 H2 Hn.
  destruct s; cbn [step det_result needs] in *.
  - destruct (s_once st) eqn:Ho; cbn [snd].
    + specialize (Hf eq_refl). destruct (e_fonts e); cbn; [destruct Hf as [-> _] | rewrite Hf]; reflexivity.
    + unfold do_load. destruct (e_fonts e); reflexivity.
  - unfold do_load. destruct (e_fonts e); reflexivity.
  - destruct (H1 Hn) as [Ho Hne]. specialize (Hf Ho). unfold env_table.
    destruct (e_fonts e); [destruct Hf as [_ ->]; reflexivity | congruence].
  - destruct (H1 Hn) as [Ho Hne]. specialize (Hf Ho). unfold env_table.
    destruct (e_fonts e); [destruct Hf as [_ ->]; reflexivity | congruence].
  - reflexivity.
  - cbn. rewrite Hcfg. reflexivity.
  - destruct (s_loaded st && (s_dir st =? e_certdir e) && (s_rev st =? e_rev e)) eqn:Hhit; cbn [snd].
    + apply andb_prop in Hhit as [Hhit Hr]. apply andb_prop in Hhit as [Hl Hd].
      apply N.eqb_eq in Hr. apply N.eqb_eq in Hd. destruct (Hp Hl Hd Hr) as (p & -> & _). reflexivity.
    + destruct (e_pool e); reflexivity.
  - reflexivity.
  - destruct (H2 Hn) as (p & -> & ->). reflexivity.
Qed.

(* An operation run alone from a coherent state returns det_run. *)
Lemma run_op_det ss : forall st (k1 k2 : bool),
  coherent e st -> (k1 = true -> fonts_loaded e st) -> (k2 = true -> pool_loaded e st) ->
  wf_secs k1 k2 ss = true -> run_op e st ss = det_run e ss.
Proof.
  induction ss as [|s ss IH]; intros st k1 k2 Hc H1 H2 Hwf; [reflexivity|].
  cbn [wf_secs] in Hwf. apply andb_prop in Hwf as [Hn Hwf].
  cbn [run_op det_run].
  pose proof (step_det s st k1 k2 Hc H1 H2 Hn) as Hd.
  pose proof (step_coherent s st Hc) as Hc'.
  pose proof (step_gain1 s st Hc) as Hg1. pose proof (step_gain2 s st Hc) as Hg2.
  pose proof (step_fonts_stable s st) as Hs1. pose proof (step_pool_stable s st) as Hs2.
  destruct (step e s st) as [st' r]. cbn [fst snd] in *. subst r.
  destruct (is_err (det_result e s) || null ss) eqn:Hstop; [reflexivity|].
  apply orb_false_elim in Hstop as [Hne _].
  apply (IH st' (k1 || gives1 s)%bool (k2 || gives2 s)%bool); auto.
  - intros Hk. apply orb_prop in Hk as [Hk|Hk]; auto.
  - intros Hk. apply orb_prop in Hk as [Hk|Hk]; auto.
Qed.

(* ---- the interleaved run ---- *)
Variables k10 k20 : bool.     (* what is known to have been loaded before the concurrent phase *)

Definition entry_ok (st : state) (x : op * list sec) : Prop :=
  exists k1 k2 : bool, (k1 = true -> fonts_loaded e st) /\ (k2 = true -> pool_loaded e st) /\
    wf_secs k1 k2 (snd x) = true /\ det_run e (snd x) = det_run e (fst x).
Definition prog_ok (st : state) (p : prog) : Prop := Forall (entry_ok st) p.
Definition all_ok (st : state) (ps : list prog) : Prop := Forall (prog_ok st) ps.
Definition stable (st st' : state) : Prop :=
  (fonts_loaded e st -> fonts_loaded e st') /\ (pool_loaded e st -> pool_loaded e st').
Definition good (x : event) : Prop := snd x = det_run e (snd (fst x)).

Lemma entry_ok_stable st st' x : stable st st' -> entry_ok st x -> entry_ok st' x.
Proof.
  intros [S1 S2] (k1 & k2 & H1 & H2 & Hwf & Hd). exists k1, k2.
  split; [intros K; apply S1; auto|]. split; [intros K; apply S2; auto|]. split; assumption.
Qed.

Lemma prog_ok_stable st st' p : stable st st' -> prog_ok st p -> prog_ok st' p.
Proof. intros S H. unfold prog_ok in *. eapply Forall_impl; [|exact H]. intros x. apply entry_ok_stable; auto. Qed.

Lemma stable_refl st : stable st st.
Proof. split; auto. Qed.

Lemma tstep_ok t p st :
  coherent e st -> prog_ok st p ->
  coherent e (fst (fst (tstep e t p st))) /\
  stable st (fst (fst (tstep e t p st))) /\
  prog_ok (fst (fst (tstep e t p st))) (snd (fst (tstep e t p st))) /\
  Forall good (snd (tstep e t p st)).
Proof.
  intros Hc Hp. unfold tstep.
  destruct p as [|[o ss] rest]; cbn [fst snd].
  { split; [exact Hc|]. split; [apply stable_refl|]. split; constructor. }
  inversion Hp as [|x l Hx Hrest]; subst.
  destruct ss as [|s ss]; cbn [fst snd].
  { split; [exact Hc|]. split; [apply stable_refl|]. split; [exact Hrest|].
    constructor; [|constructor].
    destruct Hx as (k1 & k2 & _ & _ & _ & Hd). unfold good; cbn in *. exact Hd. }
  destruct Hx as (k1 & k2 & H1 & H2 & Hwf & Hd). cbn [fst snd] in *.
  cbn [wf_secs] in Hwf. apply andb_prop in Hwf as [Hn Hwf].
  pose proof (step_det s st k1 k2 Hc H1 H2 Hn) as Hdet.
  pose proof (step_coherent s st Hc) as Hc'.
  pose proof (step_gain1 s st Hc) as Hg1. pose proof (step_gain2 s st Hc) as Hg2.
  pose proof (step_fonts_stable s st) as Hs1. pose proof (step_pool_stable s st) as Hs2.
  destruct (step e s st) as [st' r]. cbn [fst snd] in *. subst r.
  assert (Hst : stable st st') by (split; auto).
  cbn [det_run] in Hd.
  destruct (is_err (det_result e s) || null ss) eqn:Hstop; cbn [fst snd].
  - split; [exact Hc'|]. split; [exact Hst|]. split.
    + apply prog_ok_stable with st; auto.
    + constructor; [|constructor]. unfold good; cbn. exact Hd.
  - apply orb_false_elim in Hstop as [Hne _].
    split; [exact Hc'|]. split; [exact Hst|]. split; [|constructor].
    constructor; [|apply prog_ok_stable with st; auto].
    exists (k1 || gives1 s)%bool, (k2 || gives2 s)%bool. cbn [fst snd].
    split; [|split; [|split]]; auto.
    + intros Hk. apply orb_prop in Hk as [Hk|Hk]; auto.
    + intros Hk. apply orb_prop in Hk as [Hk|Hk]; auto.
Qed.

Lemma Forall_update {A} (P : A -> Prop) i x (l : list A) : Forall P l -> P x -> Forall P (update i x l).
Proof.
  revert i. induction l as [|y l IH]; intros i Hl Hx; [destruct i; constructor|].
  inversion Hl; subst. destruct i; cbn; constructor; auto.
Qed.

Lemma stable_trans a b c : stable a b -> stable b c -> stable a c.
Proof. intros [A1 A2] [B1 B2]. split; auto. Qed.

Lemma run_ok sched : forall ps st, coherent e st -> all_ok st ps ->
  Forall good (snd (run e sched ps st)) /\ coherent e (fst (run e sched ps st)) /\
  stable st (fst (run e sched ps st)).
Proof.
  induction sched as [|t sch IH]; intros ps st Hc Hall; cbn [run].
  { split; [constructor | split; [exact Hc | apply stable_refl]]. }
  destruct (nth_error ps t) as [p|] eqn:Hnth; [|apply IH; auto].
  assert (Hp : prog_ok st p).
  { unfold all_ok in Hall. rewrite Forall_forall in Hall. apply Hall. eapply nth_error_In; eauto. }
  destruct (tstep_ok t p st Hc Hp) as (Hc' & Hst & Hp' & Hev).
  destruct (tstep e t p st) as [[st' p'] ev]. cbn [fst snd] in *.
  assert (Hall' : all_ok st' (update t p' ps)).
  { apply Forall_update; auto. unfold all_ok in *. eapply Forall_impl; [|exact Hall].
    intros q. apply prog_ok_stable; auto. }
  destruct (IH (update t p' ps) st' Hc' Hall') as (Hg & Hcf & Hsf).
  destruct (run e sch (update t p' ps) st') as [stf evs]. cbn [fst snd] in *.
  split; [apply Forall_app; split; auto|]. split; [exact Hcf|]. eapply stable_trans; eauto.
Qed.

Lemma init_all_ok st ths :
  (k10 = true -> fonts_loaded e st) -> (k20 = true -> pool_loaded e st) ->
  wf_threads k10 k20 ths -> all_ok st (map init_prog ths).
Proof.
  intros H1 H2 Hwf. unfold all_ok, wf_threads in *. rewrite Forall_map.
  eapply Forall_impl; [|exact Hwf]. intros ops Hops. unfold prog_ok, init_prog. rewrite Forall_map.
  eapply Forall_impl; [|exact Hops]. intros o Ho. exists k10, k20. cbn. auto.
Qed.

(* Main lemma: every operation completed in any interleaving returned what it returns when
   run alone from the initial state. *)
Lemma deterministic_gen st0 ths sched :
  coherent e st0 ->
  (k10 = true -> fonts_loaded e st0) -> (k20 = true -> pool_loaded e st0) ->
  wf_threads k10 k20 ths ->
  forall t o r, In (t, o, r) (snd (run e sched (map init_prog ths) st0)) ->
    In o (nth t ths []) -> r = run_op e st0 o.
Proof.
  intros Hc H1 H2 Hwf t o r Hin Ho.
  destruct (run_ok sched _ st0 Hc (init_all_ok st0 ths H1 H2 Hwf)) as (Hg & _ & _).
  rewrite Forall_forall in Hg. specialize (Hg _ Hin). unfold good in Hg. cbn in Hg. subst r.
  symmetry. apply run_op_det with k10 k20; auto.
  unfold wf_threads in Hwf. rewrite Forall_forall in Hwf.
  destruct (Nat.lt_ge_cases t (length ths)) as [Hlt|Hge].
  - assert (Hth : In (nth t ths []) ths) by (apply nth_In; exact Hlt).
    specialize (Hwf _ Hth). rewrite Forall_forall in Hwf. apply Hwf. exact Ho.
  - rewrite nth_overflow in Ho by exact Hge. destruct Ho.
Qed.

End Steps.

(* Events are attributed correctly: an event of thread t names an operation of thread t. *)
Lemma tstep_events_from_prog e t p st x :
  In x (snd (tstep e t p st)) -> fst (fst x) = t /\ In (snd (fst x)) (map fst p).
Proof.
  unfold tstep. destruct p as [|[o ss] rest]; cbn; [tauto|].
  destruct ss as [|s ss]; cbn.
  { intros [<-|[]]. cbn. auto. }
  destruct (step e s st) as [st' r]. destruct (is_err r || null ss); cbn; [|tauto].
  intros [<-|[]]. cbn. auto.
Qed.

Lemma tstep_prog_sub e t p st o :
  In o (map fst (snd (fst (tstep e t p st)))) -> In o (map fst p).
Proof.
  unfold tstep. destruct p as [|[o' ss] rest]; cbn; [tauto|].
  destruct ss as [|s ss]; cbn; [tauto|].
  destruct (step e s st) as [st' r]. destruct (is_err r || null ss); cbn; tauto.
Qed.

Definition ops_within (ps : list prog) (ths : list (list op)) : Prop :=
  forall t p, nth_error ps t = Some p -> forall o, In o (map fst p) -> In o (nth t ths []).

Lemma nth_error_update {A} i j (x : A) l y :
  nth_error (update i x l) j = Some y ->
  (i = j /\ y = x /\ exists z, nth_error l j = Some z) \/ (i <> j /\ nth_error l j = Some y).
Proof.
  revert i j. induction l as [|a l IH]; intros i j H.
  { destruct i; destruct j; cbn in H; discriminate. }
  destruct i; destruct j; cbn in *.
  - inversion H; subst. left. eauto.
  - right. split; [discriminate|exact H].
  - right. split; [discriminate|exact H].
  - destruct (IH _ _ H) as [(-> & -> & Hz)|(Hne & Hy)]; [left; auto | right; auto].
Qed.

Lemma run_events_attributed e sched : forall ps st ths, ops_within ps ths ->
  forall x, In x (snd (run e sched ps st)) -> In (snd (fst x)) (nth (fst (fst x)) ths []).
Proof.
  induction sched as [|t sch IH]; intros ps st ths Hw x Hin; cbn [run] in Hin; [destruct Hin|].
  destruct (nth_error ps t) as [p|] eqn:Hnth; [|eapply IH; eauto].
  pose proof (tstep_events_from_prog e t p st) as Hev.
  pose proof (tstep_prog_sub e t p st) as Hsub.
  destruct (tstep e t p st) as [[st' p'] ev]. cbn [fst snd] in *.
  assert (Hw' : ops_within (update t p' ps) ths).
  { intros j q Hq o Ho. destruct (nth_error_update _ _ _ _ _ Hq) as [(<- & -> & _)|(Hne & Hq')].
    - apply (Hw t p Hnth). apply Hsub. exact Ho.
    - apply (Hw j q Hq'). exact Ho. }
  specialize (IH (update t p' ps) st' ths Hw').
  destruct (run e sch (update t p' ps) st') as [stf evs]. cbn [fst snd] in *.
  apply in_app_or in Hin as [Hin|Hin]; [|apply IH; exact Hin].
  destruct (Hev x Hin) as [-> Hop]. apply (Hw t p Hnth). exact Hop.
Qed.

Lemma init_ops_within ths : ops_within (map init_prog ths) ths.
Proof.
  intros t p Hp o Ho. rewrite nth_error_map in Hp.
  destruct (nth_error ths t) as [ops|] eqn:Hn; [|discriminate]. cbn in Hp. inversion Hp; subst.
  unfold init_prog in Ho. rewrite map_map in Ho. cbn in Ho. rewrite map_id in Ho.
  rewrite (nth_error_nth _ _ _ Hn). exact Ho.
Qed.

(* Full statement: no side condition on the event. *)
Lemma deterministic e k1 k2 st0 ths sched :
  coherent e st0 ->
  (k1 = true -> fonts_loaded e st0) -> (k2 = true -> pool_loaded e st0) ->
  wf_threads k1 k2 ths ->
  forall t o r, In (t, o, r) (snd (run e sched (map init_prog ths) st0)) ->
    In o (nth t ths []) /\ r = run_op e st0 o.
Proof.
  intros Hc H1 H2 Hwf t o r Hin.
  pose proof (run_events_attributed e sched _ st0 ths (init_ops_within ths) _ Hin) as Ho. cbn in Ho.
  split; [exact Ho|]. eapply deterministic_gen; eauto.
Qed.

Lemma schedule_independent e k1 k2 st0 ths sched1 sched2 :
  coherent e st0 ->
  (k1 = true -> fonts_loaded e st0) -> (k2 = true -> pool_loaded e st0) ->
  wf_threads k1 k2 ths ->
  forall t o r1 r2,
    In (t, o, r1) (snd (run e sched1 (map init_prog ths) st0)) ->
    In (t, o, r2) (snd (run e sched2 (map init_prog ths) st0)) -> r1 = r2.
Proof.
  intros Hc H1 H2 Hwf t o r1 r2 Hin1 Hin2.
  destruct (deterministic e k1 k2 st0 ths sched1 Hc H1 H2 Hwf _ _ _ Hin1) as [_ ->].
  destruct (deterministic e k1 k2 st0 ths sched2 Hc H1 H2 Hwf _ _ _ Hin2) as [_ ->]. reflexivity.
Qed.

(* coherence is an invariant of every run (so a concurrent phase can be followed by another) *)
Lemma run_coherent e k1 k2 st0 ths sched :
  coherent e st0 ->
  (k1 = true -> fonts_loaded e st0) -> (k2 = true -> pool_loaded e st0) ->
  wf_threads k1 k2 ths ->
  coherent e (fst (run e sched (map init_prog ths) st0)).
Proof.
  intros Hc H1 H2 Hwf.
  apply (run_ok e sched _ st0 Hc (init_all_ok e k1 k2 st0 ths H1 H2 Hwf)).
Qed.

(* What was loaded before the concurrent phase is still what the final state holds, whatever the
   schedule did (reloads, invalidations, redundant loads): the table is the disk's, the pool the
   disk's. *)
Lemma final_state e k1 k2 st0 ths sched :
  coherent e st0 ->
  (k1 = true -> fonts_loaded e st0) -> (k2 = true -> pool_loaded e st0) ->
  wf_threads k1 k2 ths ->
  let stf := fst (run e sched (map init_prog ths) st0) in
  (fonts_loaded e st0 -> s_once stf = true /\ e_fonts e = Some (s_fonts stf)) /\
  (pool_loaded e st0 -> s_pool stf = e_pool e /\ e_pool e <> None) /\
  s_cfg stf = true.
Proof.
  intros Hc H1 H2 Hwf stf.
  destruct (run_ok e sched _ st0 Hc (init_all_ok e k1 k2 st0 ths H1 H2 Hwf)) as (_ & Hcf & [S1 S2]).
  fold stf in Hcf, S1, S2. destruct Hcf as (Hcfg & Hf & _).
  split; [|split; [|exact Hcfg]].
  - intros HL. destruct (S1 HL) as [Ho Hne]. split; [exact Ho|].
    specialize (Hf Ho). destruct (e_fonts e) as [t|]; [destruct Hf as [_ ->]; reflexivity | congruence].
  - intros HP. destruct (S2 HP) as (p & Hp & Hs). rewrite Hp, Hs. split; [reflexivity | discriminate].
Qed.

Lemma init_coherent e : coherent e (fst (step e SDisable init_state)).
Proof. unfold coherent; cbn. repeat split; intros; discriminate. Qed.
