(* C26 — Restricted documents refuse operations their permissions deny.
   Property theorems only; each is closed by an exact lemma and followed by Print Assumptions.

   perm_table, maskExtract, maskModify, needsOwnerAndUserPassword, rejectsEncrypted, all_modes:
     Generated.v, regenerated from crypto.go / read.go / model/configuration.go on every run.
   hasNeededPermissions, handlePermissions, setupAccess, checkForEncryption: Model.v (hand transcription).
   denies_extract, denies_modify, spec_kind, spec_must_refuse, row_satisfies: Spec.v (ISO 32000-1 Table 22
     bits, revision 2 / revision >= 3 layouts; what each command does). *)
From Coq Require Import ZArith NArith List Bool String.
From PV Require Import C26.Generated C26.Spec C26.Model C26.Audit C26.Proofs.
Import ListNotations.
Open Scope Z_scope.

(* For EVERY row of the permission table, every integer P (all bit patterns, also outside 32 bits) and
   every revision R: the permission test fails exactly when the command is classified as extracting and
   the document denies extraction, or is classified as modifying and the document denies modification. *)
Theorem C26_needs_iff_refused : forall mode e m, In (mode, (e, m)) perm_table -> forall P R,
  hasNeededPermissions mode P R = false <->
  ((e <> 0 /\ denies_extract P R = true) \/ (m <> 0 /\ denies_modify P R = true)).
Proof. exact needs_iff_refused. Qed.
Print Assumptions C26_needs_iff_refused.

(* The whole access decision for an encrypted document when only a (non-empty) user password matches
   (owner password absent or wrong, /Perms consistent): refused with ErrPermissionDenied exactly in the
   cases above, otherwise the command proceeds ("commands whose rights are granted proceed"), except
   for commands pdfcpu never runs on encrypted input (ErrEncrypted) or that insist on the owner password.
   opw, upw are the RAW password byte strings handed to pdfcpu: the statement holds for EVERY non-empty
   user password -- blanks, tabs, newlines, NUL bytes, any length -- and every (wrong or empty) owner
   password; "no credentials supplied" is Generated.noCredentialsSupplied, extracted from the source. *)
Theorem C26_user_password_access : forall mode e m, In (mode, (e, m)) perm_table ->
  forall ownerMatches opw upw P R, upw <> [] -> validateOwnerPassword R opw ownerMatches = false ->
  checkForEncryption true ownerMatches true true opw upw mode P R =
    if rejectsEncrypted mode then EncryptedUnsupported
    else if needsOwnerAndUserPassword mode then OwnerRequired
    else if (negb (e =? 0) && denies_extract P R) || (negb (m =? 0) && denies_modify P R)
         then Denied else Proceed.
Proof. exact user_password_access. Qed.
Print Assumptions C26_user_password_access.

(* The owner is not authenticated (the hypothesis above holds) whenever the supplied owner password does
   not match, and -- revision 5 and 6 -- whenever NO owner password is supplied, even if the document's
   owner password is the empty string (ownerMatches = true).  Hence: no owner password supplied =>
   the permission check is consulted. *)
Theorem C26_no_owner_password_consults_permissions : forall mode e m, In (mode, (e, m)) perm_table ->
  forall ownerMatches upw P R, R = 5 \/ R = 6 -> upw <> [] ->
  checkForEncryption true ownerMatches true true [] upw mode P R =
    if rejectsEncrypted mode then EncryptedUnsupported
    else if needsOwnerAndUserPassword mode then OwnerRequired
    else if (negb (e =? 0) && denies_extract P R) || (negb (m =? 0) && denies_modify P R)
         then Denied else Proceed.
Proof. exact no_owner_password_consults_permissions. Qed.
Print Assumptions C26_no_owner_password_consults_permissions.

Theorem C26_wrong_owner_password_not_authenticated : forall R opw,
  validateOwnerPassword R opw false = false.
Proof. exact wrong_owner_password_not_authenticated. Qed.
Print Assumptions C26_wrong_owner_password_not_authenticated.

(* A matching owner password is never answered with ErrPermissionDenied — any command mode (any
   integer), any P, R, encrypted or not. *)
Theorem C26_owner_never_denied : forall encrypted ownerMatches userOK permsOK opw upw mode P R,
  validateOwnerPassword R opw ownerMatches = true ->
  checkForEncryption encrypted ownerMatches userOK permsOK opw upw mode P R <> Denied.
Proof. exact owner_never_denied. Qed.
Print Assumptions C26_owner_never_denied.

(* Unencrypted documents are never answered with ErrPermissionDenied. *)
Theorem C26_unencrypted_never_denied : forall ownerOK userOK permsOK opw upw mode P R,
  checkForEncryption false ownerOK userOK permsOK opw upw mode P R <> Denied.
Proof. exact unencrypted_never_denied. Qed.
Print Assumptions C26_unencrypted_never_denied.

(* Coverage of the table.  Full statement (REFUTED on the current source, see below):
     forall m, In m all_modes -> classified_ok m = true
   i.e. every command mode that reads content out of the document or changes it has a row asking for
   the matching right (or is refused on every encrypted file).
   Proved: it holds for every command mode except those listed in Spec.known_unclassified. *)
Theorem C26_every_mode_classified_partial : forall m, In m all_modes ->
  In m known_unclassified \/
  (row_satisfies (spec_kind m) (perm_lookup perm_table m) || rejectsEncrypted m) = true.
Proof. exact every_mode_classified_partial. Qed.
Print Assumptions C26_every_mode_classified_partial.

(* ... and therefore: for every command mode outside that list, whenever the specification says the
   document denies what the command does, user-password-only access does not proceed. *)
Theorem C26_spec_refusal_partial : forall m, In m all_modes -> ~ In m known_unclassified ->
  forall ownerMatches opw upw P R, upw <> [] -> validateOwnerPassword R opw ownerMatches = false ->
  spec_must_refuse (spec_kind m) P R = true ->
  checkForEncryption true ownerMatches true true opw upw m P R <> Proceed.
Proof. exact spec_refusal_partial. Qed.
Print Assumptions C26_spec_refusal_partial.

(* The finding: a command mode of the current source that changes the document proceeds on a document
   that denies everything (witness RESIZE, P = PermissionsNone, R = 4) ... *)
Theorem C26_every_mode_classified_refuted : exists m P R,
  In m all_modes /\ spec_must_refuse (spec_kind m) P R = true /\ userOnlyAccess m P R = Proceed.
Proof. exact every_mode_classified_refuted. Qed.
Print Assumptions C26_every_mode_classified_refuted.

(* ... and every entry of the exception list is such a gap (the list is not padded). *)
Theorem C26_known_unclassified_are_gaps : forall m, In m known_unclassified ->
  is_gap m = true.
Proof. exact (proj1 (forallb_forall _ _) known_unclassified_are_gaps). Qed.
Print Assumptions C26_known_unclassified_are_gaps.

(* ---- which command mode is the permission check asked about?  Every pkg/api entry point stores a constant
   in conf.Cmd; every pkg/cli constructor a constant in conf.Cmd and Command.Mode; dispatchTable maps modes to
   handlers.  The tables regenerated from the source on every run are EQUAL to the audited ones (Audit.v:
   each entry point with the mode its name / documentation says). *)
Theorem C26_api_modes_audited :
  api_entry_modes = map (fun x : string * (kind * list Z) => (fst x, snd (snd x))) audited_api.
Proof. exact api_modes_audited. Qed.
Print Assumptions C26_api_modes_audited.

(* the name-free copy the extracted model answers the harness with is the same table *)
Theorem C26_api_entry_mode_lists : api_entry_mode_lists = map snd api_entry_modes.
Proof. exact api_entry_mode_lists_ok. Qed.
Print Assumptions C26_api_entry_mode_lists.

Theorem C26_cli_modes_audited :
  cli_command_modes = audited_cli_commands /\ cli_dispatch = audited_cli_dispatch.
Proof. exact cli_modes_audited. Qed.
Print Assumptions C26_cli_modes_audited.

Theorem C26_cli_cmd_is_mode : forall f c m, In (f, (c, m)) cli_command_modes -> m = [] \/ c = m.
Proof. exact cli_cmd_is_mode. Qed.
Print Assumptions C26_cli_cmd_is_mode.

(* ... and for every audited pkg/api entry point the kind judged from its NAME (extract / modify / either /
   free) equals the kind of the command mode it runs under, and that mode's row in the permission table asks
   for the matching right (or the mode is refused on every encrypted file, or is a documented gap). *)
Theorem C26_entry_point_kind_matches_mode : forall f k modes, In (f, (k, modes)) audited_api ->
  forall mode, In mode modes ->
  In mode all_modes /\ spec_kind mode = k /\
  (row_satisfies k (perm_lookup perm_table mode) || rejectsEncrypted mode || listed known_unclassified mode) = true.
Proof. exact entry_point_kind. Qed.
Print Assumptions C26_entry_point_kind_matches_mode.

(* non-vacuity: the table has extracting and modifying rows, both outcomes occur for both layouts,
   and the specification knows every command mode of the source *)
Example C26_nonvacuous :
  perm_lookup perm_table CM_EXTRACTIMAGES = Some (1, 0) /\ perm_lookup perm_table CM_ROTATE = Some (0, 1)
  /\ userOnlyAccess CM_EXTRACTIMAGES (-3901) 2 = Denied /\ userOnlyAccess CM_EXTRACTIMAGES (-3901 + 16) 2 = Proceed
  /\ userOnlyAccess CM_EXTRACTIMAGES (-3901 + 16) 3 = Denied /\ userOnlyAccess CM_EXTRACTIMAGES (-3901 + 512) 3 = Proceed
  /\ userOnlyAccess CM_ROTATE (-3901) 2 = Denied /\ userOnlyAccess CM_ROTATE (-3901 + 8) 2 = Proceed
  /\ userOnlyAccess CM_ROTATE (-3901 + 8) 6 = Denied /\ userOnlyAccess CM_ROTATE (-3901 + 1024) 6 = Proceed
  /\ userOnlyAccess CM_LISTINFO (-3901) 4 = Proceed
  (* a blank (whitespace-only) user password is a supplied credential; no password at all is not *)
  /\ checkForEncryption true false true true [] [32%N; 9%N; 10%N] CM_ROTATE (-3901) 4 = Denied
  /\ checkForEncryption true false true true [] [] CM_ROTATE (-3901) 4 = Proceed
  (* AES-256 document whose owner password is empty (ownerMatches = true), opened with the user password only *)
  /\ checkForEncryption true true true true [] [117%N] CM_ROTATE (-3901) 6 = Denied
  /\ checkForEncryption true true true true [111%N] [117%N] CM_ROTATE (-3901) 6 = Proceed
  /\ forallb (fun m => negb (kind_is_row (spec_kind m))) all_modes = true.
Proof. vm_compute. repeat split; reflexivity. Qed.
