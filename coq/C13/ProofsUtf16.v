(* C13 proofs, part 1: bit arithmetic, utf16.Encode / Decode, the code-unit scan of
   decodeUTF16String, round trip at the level of Unicode scalar values, and the characterisation
   of the byte strings the decoder accepts. *)
From Coq Require Import NArith ZArith List Bool Lia ZifyBool ZifyNat ZifyN.
From PV Require Import Lib.GoInt C13.Model.
Import ListNotations.
Open Scope N_scope.
Ltac Zify.zify_post_hook ::= Z.div_mod_to_equations.

(* ---------------------------------------------------------------- bit operations as arithmetic *)

Lemma land_shiftl_low : forall x y k, y < 2 ^ k -> N.land (N.shiftl x k) y = 0.
Proof.
  intros x y k Hy. apply N.bits_inj. intro n. rewrite N.land_spec, N.bits_0.
  destruct (N.lt_ge_cases n k) as [Hn | Hn].
  - rewrite N.shiftl_spec_low by exact Hn. reflexivity.
  - assert (Hyn : N.testbit y n = false).
    { destruct (N.eq_dec y 0) as [-> | Hy0]; [apply N.bits_0 |].
      apply N.bits_above_log2. apply N.log2_lt_pow2; [lia |].
      apply N.lt_le_trans with (2 ^ k); [exact Hy |]. apply N.pow_le_mono_r; lia. }
    rewrite Hyn. apply andb_false_r.
Qed.

Lemma lor_shiftl_add : forall x y k, y < 2 ^ k -> N.lor (N.shiftl x k) y = x * 2 ^ k + y.
Proof.
  intros x y k Hy.
  rewrite <- N.lxor_lor by (apply land_shiftl_low; exact Hy).
  rewrite <- N.add_nocarry_lxor by (apply land_shiftl_low; exact Hy).
  rewrite N.shiftl_mul_pow2. reflexivity.
Qed.

(* constant | small value, for the tag bytes of UTF-8 *)
Lemma lor_tag : forall t k x, x < 2 ^ k -> N.lor (t * 2 ^ k) x = t * 2 ^ k + x.
Proof. intros t k x Hx. rewrite <- lor_shiftl_add by exact Hx. rewrite N.shiftl_mul_pow2. reflexivity. Qed.

Lemma land_mask : forall x k, N.land x (N.ones k) = x mod 2 ^ k.
Proof. intros. apply N.land_ones. Qed.

Lemma shr_div : forall x k, N.shiftr x k = x / 2 ^ k.
Proof. intros. apply N.shiftr_div_pow2. Qed.

Lemma shl_mul : forall x k, N.shiftl x k = x * 2 ^ k.
Proof. intros. apply N.shiftl_mul_pow2. Qed.

(* ---------------------------------------------------------------- scalar values *)

Definition scalar (r : N) : Prop := r < 0xD800 \/ (0xE000 <= r /\ r <= 0x10FFFF).
Definition is_scalar (r : N) : bool := (r <? 0xD800) || ((0xE000 <=? r) && (r <=? 0x10FFFF)).

Lemma is_scalar_iff : forall r, is_scalar r = true <-> scalar r.
Proof. intro r. unfold is_scalar, scalar. lia. Qed.

(* ---------------------------------------------------------------- utf16.Encode *)

Lemma land_3ff : forall x, N.land x 0x3ff = x mod 1024.
Proof. intro x. change 0x3ff with (N.ones 10). rewrite land_mask. reflexivity. Qed.
Lemma land_ff : forall x, N.land x 0xFF = x mod 256.
Proof. intro x. change 0xFF with (N.ones 8). rewrite land_mask. reflexivity. Qed.

Lemma Encode1_bmp : forall r, r < 0xD800 \/ (0xE000 <= r /\ r < 0x10000) -> utf16_Encode1 r = [r].
Proof.
  intros r Hr. unfold utf16_Encode1, utf16_RuneLen, surr1, surr3, surrSelf, maxRune, uint16.
  replace ((r <? 55296) || (57344 <=? r) && (r <? 65536)) with true by (symmetry; lia).
  simpl. f_equal. apply N.mod_small. lia.
Qed.

Lemma Encode1_supp : forall r, 0x10000 <= r -> r <= 0x10FFFF ->
  utf16_Encode1 r = [0xD800 + (r - 0x10000) / 1024; 0xDC00 + (r - 0x10000) mod 1024].
Proof.
  intros r Hlo Hhi.
  unfold utf16_Encode1, utf16_RuneLen, utf16_EncodeRune, surr1, surr2, surr3, surrSelf, maxRune, uint16.
  replace ((r <? 55296) || (57344 <=? r) && (r <? 65536)) with false by (symmetry; lia).
  replace ((65536 <=? r) && (r <=? 1114111)) with true by (symmetry; lia).
  replace ((r <? 65536) || (1114111 <? r)) with false by (symmetry; lia).
  cbv beta iota zeta. change (1 =? 1) with true. change (2 =? 1) with false. change (2 =? 2) with true.
  cbv iota.
  rewrite !land_3ff, shr_div. change (2 ^ 10) with 1024.
  rewrite (N.mod_small ((r - 65536) / 1024) 1024) by lia.
  f_equal; [| f_equal]; apply N.mod_small; lia.
Qed.

(* ---------------------------------------------------------------- unit <-> two bytes *)

(* specification-level big-endian serialisation of a 16-bit unit *)
Definition be_bytes (u : N) : list N := [u / 256; u mod 256].

Lemma unit_bytes_spec : forall u, u < 65536 -> unit_bytes u = be_bytes u.
Proof.
  intros u Hu. unfold unit_bytes, be_bytes, byte. rewrite land_ff, shr_div. change (2 ^ 8) with 256.
  f_equal; [| f_equal]; apply N.mod_small; lia.
Qed.

Lemma be16_spec : forall b0 b1, b0 < 256 -> b1 < 256 -> be16 b0 b1 = b0 * 256 + b1.
Proof.
  intros b0 b1 H0 H1. unfold be16, uint16. rewrite shl_mul. change (2 ^ 8) with 256.
  rewrite (N.mod_small (b0 * 256)) by lia. apply N.mod_small. lia.
Qed.

Lemma be16_be_bytes : forall u, u < 65536 -> be16 (u / 256) (u mod 256) = u.
Proof. intros u Hu. rewrite be16_spec by lia. lia. Qed.

(* ---------------------------------------------------------------- the scan of decodeUTF16String *)

Definition res_cons (us : list N) (r : res (list N)) : res (list N) :=
  match r with Ok l => Ok (us ++ l) | Err => Err end.

Lemma collect_bmp : forall u rest, u < 65536 -> (u < 0xD800 \/ 0xE000 <= u) ->
  collect_units (be_bytes u ++ rest) = res_cons [u] (collect_units rest).
Proof.
  intros u rest Hu Hr. unfold be_bytes. cbn [app collect_units].
  rewrite be16_be_bytes by exact Hu.
  replace ((u <=? 55295) || (57344 <=? u) && (u <=? 65535)) with true by (symmetry; lia).
  destruct (collect_units rest); reflexivity.
Qed.

Lemma collect_pair : forall h l rest, 0xD800 <= h -> h < 0xDC00 -> 0xDC00 <= l -> l < 0xE000 ->
  collect_units (be_bytes h ++ be_bytes l ++ rest) = res_cons [h; l] (collect_units rest).
Proof.
  intros h l rest Hh1 Hh2 Hl1 Hl2. unfold be_bytes. cbn [app collect_units].
  rewrite !be16_be_bytes by lia.
  replace ((h <=? 55295) || (57344 <=? h) && (h <=? 65535)) with false by (symmetry; lia).
  replace ((56320 <=? h) && (h <=? 57343)) with false by (symmetry; lia).
  replace ((l <? 56320) || (57343 <? l)) with false by (symmetry; lia).
  destruct (collect_units rest); reflexivity.
Qed.

(* ---------------------------------------------------------------- utf16.Decode *)

Lemma Decode_bmp : forall u rest, (u < 0xD800 \/ 0xE000 <= u) ->
  utf16_Decode (u :: rest) = u :: utf16_Decode rest.
Proof.
  intros u rest Hu. cbn [utf16_Decode]. unfold surr1, surr3.
  replace ((u <? 55296) || (57344 <=? u)) with true by (symmetry; lia). reflexivity.
Qed.

Lemma Decode_pair : forall h l rest, 0xD800 <= h -> h < 0xDC00 -> 0xDC00 <= l -> l < 0xE000 ->
  utf16_Decode (h :: l :: rest) = (0x10000 + (h - 0xD800) * 1024 + (l - 0xDC00)) :: utf16_Decode rest.
Proof.
  intros h l rest Hh1 Hh2 Hl1 Hl2. cbn [utf16_Decode]. unfold utf16_DecodeRune, surr1, surr2, surr3, surrSelf.
  replace ((h <? 55296) || (57344 <=? h)) with false by (symmetry; lia).
  replace ((55296 <=? h) && (h <? 56320) && (56320 <=? l) && (l <? 57344)) with true by (symmetry; lia).
  rewrite lor_shiftl_add by (change (2 ^ 10) with 1024; lia). change (2 ^ 10) with 1024.
  f_equal. lia.
Qed.

(* ---------------------------------------------------------------- round trip, scalar level *)

Lemma Encode_cons : forall r rs, utf16_Encode (r :: rs) = utf16_Encode1 r ++ utf16_Encode rs.
Proof. reflexivity. Qed.

Lemma units_roundtrip : forall cps, Forall scalar cps ->
  collect_units (flat_map unit_bytes (utf16_Encode cps)) = Ok (utf16_Encode cps)
  /\ utf16_Decode (utf16_Encode cps) = cps.
Proof.
  intros cps H. induction H as [| r rs Hr _ [IHc IHd]]; [split; reflexivity |].
  rewrite Encode_cons. unfold scalar in Hr.
  destruct (N.lt_ge_cases r 0x10000) as [Hb | Hs].
  - rewrite Encode1_bmp by lia. cbn [app flat_map].
    rewrite unit_bytes_spec by lia. split.
    + rewrite collect_bmp by lia. rewrite IHc. reflexivity.
    + rewrite Decode_bmp by lia. rewrite IHd. reflexivity.
  - rewrite Encode1_supp by lia. cbn [app flat_map].
    rewrite !unit_bytes_spec by lia. split.
    + rewrite collect_pair by lia. rewrite IHc. reflexivity.
    + rewrite Decode_pair by lia. rewrite IHd. f_equal. lia.
Qed.

Lemma Encode_units_even : forall us, Nat.even (length (flat_map unit_bytes us)) = true.
Proof. induction us as [| u us IH]; [reflexivity | exact IH]. Qed.

Lemma IsUTF16BE_Encode : forall rr, IsUTF16BE (EncodeUTF16Runes rr) = true.
Proof.
  intro rr. unfold EncodeUTF16Runes, IsUTF16BE. cbn [app].
  change (length (254 :: 255 :: ?l)) with (S (S (length l))).
  cbn [length Nat.even]. rewrite Encode_units_even. reflexivity.
Qed.

Lemma utf16_roundtrip : forall cps, Forall scalar cps ->
  decodeUTF16Runes (EncodeUTF16Runes cps) = Ok cps.
Proof.
  intros cps H. unfold decodeUTF16Runes. rewrite IsUTF16BE_Encode. cbn [negb].
  unfold EncodeUTF16Runes. cbn [app skipn].
  destruct (units_roundtrip cps H) as [Hc Hd]. rewrite Hc, Hd. reflexivity.
Qed.

(* ---------------------------------------------------------------- what the decoder accepts *)

(* Independent definition of a well-formed UTF-16 code unit sequence together with the scalar
   values it denotes (Unicode 3.9, D91): non-surrogate units stand for themselves, a high
   surrogate must be followed by a low surrogate. *)
Inductive wf_units : list N -> list N -> Prop :=
| wf_nil : wf_units [] []
| wf_bmp : forall u us cps, u < 0xD800 \/ (0xE000 <= u /\ u < 0x10000) ->
    wf_units us cps -> wf_units (u :: us) (u :: cps)
| wf_pair : forall h l us cps, 0xD800 <= h -> h < 0xDC00 -> 0xDC00 <= l -> l < 0xE000 ->
    wf_units us cps ->
    wf_units (h :: l :: us) ((0x10000 + (h - 0xD800) * 1024 + (l - 0xDC00)) :: cps).

(* a well-formed UTF-16BE PDF text string: BOM, then the units big-endian *)
Definition wf_utf16be (b : list N) (cps : list N) : Prop :=
  exists us, wf_units us cps /\ b = [0xFE; 0xFF] ++ flat_map be_bytes us.

Lemma wf_units_scalar : forall us cps, wf_units us cps -> Forall scalar cps.
Proof.
  intros us cps H. induction H as [| u us cps Hu _ IH | h l us cps H1 H2 H3 H4 _ IH];
    constructor; try exact IH; unfold scalar; lia.
Qed.

Lemma wf_collect : forall us cps, wf_units us cps ->
  collect_units (flat_map be_bytes us) = Ok us /\ utf16_Decode us = cps.
Proof.
  intros us cps H. induction H as [| u us cps Hu _ [IHc IHd] | h l us cps H1 H2 H3 H4 _ [IHc IHd]].
  - split; reflexivity.
  - cbn [flat_map]. split.
    + rewrite collect_bmp by lia. rewrite IHc. reflexivity.
    + rewrite Decode_bmp by lia. rewrite IHd. reflexivity.
  - cbn [flat_map]. split.
    + rewrite collect_pair by lia. rewrite IHc. reflexivity.
    + rewrite Decode_pair by lia. rewrite IHd. reflexivity.
Qed.

Lemma be_bytes_even : forall us, Nat.even (length (flat_map be_bytes us)) = true.
Proof. induction us as [| u us IH]; [reflexivity | exact IH]. Qed.

(* well-formed input is never rejected, and decodes to the scalar values it denotes *)
Lemma decode_wellformed : forall b cps, wf_utf16be b cps -> decodeUTF16Runes b = Ok cps.
Proof.
  intros b cps [us [Hwf ->]]. unfold decodeUTF16Runes, IsUTF16BE. cbn [app].
  change (length (254 :: 255 :: ?l)) with (S (S (length l))).
  cbn [length Nat.even]. rewrite be_bytes_even. cbn [negb andb N.eqb Pos.eqb skipn].
  destruct (wf_collect us cps Hwf) as [Hc Hd]. rewrite Hc, Hd. reflexivity.
Qed.

(* conversely: whatever the scan accepts is a well-formed unit sequence *)
Lemma collect_sound : forall n b us, (length b <= n)%nat -> bytes_ok b = true ->
  collect_units b = Ok us -> exists cps, wf_units us cps /\ b = flat_map be_bytes us.
Proof.
  induction n as [| n IH]; intros b us Hlen Hb Hc.
  - destruct b; [| cbn in Hlen; lia]. cbn in Hc. injection Hc as <-. exists []. split; [constructor | reflexivity].
  - destruct b as [| b0 [| b1 rest]].
    + cbn in Hc. injection Hc as <-. exists []. split; [constructor | reflexivity].
    + cbn in Hc. discriminate.
    + cbn [collect_units] in Hc. cbn [bytes_ok forallb] in Hb. unfold is_byte in Hb.
      apply andb_true_iff in Hb as [Hb0 Hb]. apply andb_true_iff in Hb as [Hb1 Hb].
      rewrite be16_spec in Hc by lia.
      set (u := b0 * 256 + b1) in *.
      assert (Hu : u < 65536) by (unfold u; lia).
      assert (Hbe : [b0; b1] = be_bytes u).
      { unfold be_bytes, u. f_equal; [| f_equal]; lia. }
      destruct ((u <=? 55295) || (57344 <=? u) && (u <=? 65535)) eqn:Hcase.
      * destruct (collect_units rest) as [us' |] eqn:Hrest; [| discriminate].
        injection Hc as <-.
        destruct (IH rest us') as [cps [Hwf Heq]]; [cbn in Hlen; lia | exact Hb | exact Hrest |].
        exists (u :: cps). split; [constructor; [lia | exact Hwf] |].
        cbn [flat_map]. rewrite <- Hbe, <- Heq. reflexivity.
      * destruct rest as [| b2 [| b3 rest']]; try discriminate.
        destruct ((56320 <=? u) && (u <=? 57343)) eqn:Hlow; [discriminate |].
        cbn [forallb] in Hb.
        apply andb_true_iff in Hb as [Hb2 Hb]. apply andb_true_iff in Hb as [Hb3 Hb].
        rewrite be16_spec in Hc by lia.
        set (v := b2 * 256 + b3) in *.
        assert (Hbe2 : [b2; b3] = be_bytes v).
        { unfold be_bytes, v. f_equal; [| f_equal]; lia. }
        destruct ((v <? 56320) || (57343 <? v)) eqn:Hv; [discriminate |].
        destruct (collect_units rest') as [us' |] eqn:Hrest; [| discriminate].
        injection Hc as <-.
        destruct (IH rest' us') as [cps [Hwf Heq]]; [cbn in Hlen; lia | exact Hb | exact Hrest |].
        exists ((0x10000 + (u - 0xD800) * 1024 + (v - 0xDC00)) :: cps).
        split; [constructor; try lia; exact Hwf |].
        cbn [flat_map]. rewrite <- Hbe, <- Hbe2, <- Heq. reflexivity.
Qed.

Lemma IsUTF16BE_inv : forall b, IsUTF16BE b = true -> exists rest, b = 0xFE :: 0xFF :: rest.
Proof.
  intros b H. destruct b as [| b0 [| b1 rest]]; try discriminate. unfold IsUTF16BE in H.
  apply andb_true_iff in H as [H H1]. apply andb_true_iff in H as [_ H0].
  apply N.eqb_eq in H0, H1. subst. exists rest. reflexivity.
Qed.

(* the decoder accepts exactly the well-formed strings *)
Lemma decode_accepts_only_wellformed : forall b rr, bytes_ok b = true ->
  decodeUTF16Runes b = Ok rr -> wf_utf16be b rr.
Proof.
  intros b rr Hb H. unfold decodeUTF16Runes in H.
  destruct (IsUTF16BE b) eqn:HB; [| discriminate]. cbn [negb] in H.
  destruct (IsUTF16BE_inv b HB) as [rest ->]. cbn [skipn] in H.
  destruct (collect_units rest) as [us |] eqn:Hc; [| discriminate]. injection H as <-.
  cbn [bytes_ok forallb] in Hb. apply andb_true_iff in Hb as [_ Hb]. apply andb_true_iff in Hb as [_ Hb].
  destruct (collect_sound (length rest) rest us (le_n _) Hb Hc) as [cps [Hwf Heq]].
  exists us. split; [| cbn [app]; rewrite Heq; reflexivity].
  destruct (wf_collect us cps Hwf) as [_ Hd]. rewrite Hd. exact Hwf.
Qed.

(* ---------------------------------------------------------------- explicit rejections *)

Lemma collect_prefix : forall pre cps x, wf_units pre cps ->
  collect_units (flat_map be_bytes pre ++ x) = res_cons pre (collect_units x).
Proof.
  intros pre cps x H. induction H as [| u us cps Hu _ IH | h l us cps H1 H2 H3 H4 _ IH].
  - cbn [flat_map app]. destruct (collect_units x); reflexivity.
  - cbn [flat_map]. rewrite <- app_assoc. rewrite collect_bmp by lia. rewrite IH.
    destruct (collect_units x); reflexivity.
  - cbn [flat_map]. rewrite <- !app_assoc. rewrite collect_pair by lia. rewrite IH.
    destruct (collect_units x); reflexivity.
Qed.

(* a low surrogate where a character must start *)
Lemma collect_lone_low : forall u x, 0xDC00 <= u -> u < 0xE000 -> collect_units (be_bytes u ++ x) = Err.
Proof.
  intros u x H1 H2. unfold be_bytes. cbn [app collect_units]. rewrite be16_be_bytes by lia.
  replace ((u <=? 55295) || (57344 <=? u) && (u <=? 65535)) with false by (symmetry; lia).
  destruct x as [| b2 [| b3 x']]; try reflexivity.
  replace ((56320 <=? u) && (u <=? 57343)) with true by (symmetry; lia). reflexivity.
Qed.

(* a high surrogate at the end of the string *)
Lemma collect_high_at_end : forall h, 0xD800 <= h -> h < 0xDC00 -> collect_units (be_bytes h) = Err.
Proof.
  intros h H1 H2. unfold be_bytes. cbn [collect_units]. rewrite be16_be_bytes by lia.
  replace ((h <=? 55295) || (57344 <=? h) && (h <=? 65535)) with false by (symmetry; lia). reflexivity.
Qed.

(* a high surrogate followed by a unit that is not a low surrogate *)
Lemma collect_high_unpaired : forall h v x, 0xD800 <= h -> h < 0xDC00 -> v < 65536 ->
  (v < 0xDC00 \/ 0xE000 <= v) -> collect_units (be_bytes h ++ be_bytes v ++ x) = Err.
Proof.
  intros h v x H1 H2 Hv Hn. unfold be_bytes. cbn [app collect_units]. rewrite !be16_be_bytes by lia.
  replace ((h <=? 55295) || (57344 <=? h) && (h <=? 65535)) with false by (symmetry; lia).
  replace ((56320 <=? h) && (h <=? 57343)) with false by (symmetry; lia).
  replace ((v <? 56320) || (57343 <? v)) with true by (symmetry; lia). reflexivity.
Qed.

Lemma decode_collect_err : forall x, collect_units x = Err -> decodeUTF16Runes (0xFE :: 0xFF :: x) = Err.
Proof.
  intros x H. unfold decodeUTF16Runes. destruct (IsUTF16BE (254 :: 255 :: x)); [| reflexivity].
  cbn [negb skipn]. rewrite H. reflexivity.
Qed.

Lemma decode_rejects_lone_low : forall pre cps u x, wf_units pre cps -> 0xDC00 <= u -> u < 0xE000 ->
  decodeUTF16Runes ([0xFE; 0xFF] ++ flat_map be_bytes pre ++ be_bytes u ++ x) = Err.
Proof.
  intros pre cps u x Hwf H1 H2. cbn [app]. apply decode_collect_err.
  rewrite (collect_prefix pre cps _ Hwf), collect_lone_low by lia. reflexivity.
Qed.

Lemma decode_rejects_high_at_end : forall pre cps h, wf_units pre cps -> 0xD800 <= h -> h < 0xDC00 ->
  decodeUTF16Runes ([0xFE; 0xFF] ++ flat_map be_bytes pre ++ be_bytes h) = Err.
Proof.
  intros pre cps h Hwf H1 H2. cbn [app]. apply decode_collect_err.
  rewrite (collect_prefix pre cps _ Hwf), collect_high_at_end by lia. reflexivity.
Qed.

Lemma decode_rejects_high_unpaired : forall pre cps h v x, wf_units pre cps ->
  0xD800 <= h -> h < 0xDC00 -> v < 65536 -> (v < 0xDC00 \/ 0xE000 <= v) ->
  decodeUTF16Runes ([0xFE; 0xFF] ++ flat_map be_bytes pre ++ be_bytes h ++ be_bytes v ++ x) = Err.
Proof.
  intros pre cps h v x Hwf H1 H2 Hv Hn. cbn [app]. apply decode_collect_err.
  rewrite (collect_prefix pre cps _ Hwf), collect_high_unpaired by lia. reflexivity.
Qed.

Lemma decode_rejects_odd_length : forall b, Nat.even (length b) = false -> decodeUTF16Runes b = Err.
Proof.
  intros b H. unfold decodeUTF16Runes, IsUTF16BE. destruct b as [| b0 [| b1 rest]]; try reflexivity.
  rewrite H. reflexivity.
Qed.

Lemma decode_rejects_missing_bom : forall b0 b1 rest, (b0 <> 0xFE \/ b1 <> 0xFF) ->
  decodeUTF16Runes (b0 :: b1 :: rest) = Err.
Proof.
  intros b0 b1 rest H. unfold decodeUTF16Runes, IsUTF16BE.
  replace (Nat.even (length (b0 :: b1 :: rest)) && (b0 =? 254) && (b1 =? 255)) with false; [reflexivity |].
  symmetry. destruct (Nat.even (length (b0 :: b1 :: rest))); [| reflexivity]. cbn [andb]. lia.
Qed.

Lemma decode_rejects_short : forall b, (length b < 2)%nat -> decodeUTF16Runes b = Err.
Proof. intros b H. destruct b as [| b0 [| b1 rest]]; try reflexivity. cbn in H. lia. Qed.
