(* C03 — the table of alias loops regenerated from the sources (Generated.v). *)
From Coq Require Import String List Bool.
From PV Require Import C03.Generated.
Import ListNotations.

Lemma alias_loops_proof :
  forallb (fun r => snd r) alias_loops = true /\
  (forall f, In f ["rejectGridImageOutputAlias"; "rejectNUpImageOutputAlias"; "rejectBookletImageOutputAlias";
                   "validateImportImagesOutput"]%string -> In f (map fst alias_loops)).
Proof.
  split; [vm_compute; reflexivity|].
  intros f Hin. cbn in Hin.
  repeat (destruct Hin as [<-|Hin]; [vm_compute; tauto|]). contradiction.
Qed.
