(* C34 — booklet and n-up placement: hand-written part of the model (no proofs).
   The position functions themselves (nup2OutputPageNr, nup4*, nupLRTBOutputPageNr,
   nup8OutputPageNr, nupPerfectBound, get4upPos, getPageNumber, nupPageNumber) are in
   Generated.v, regenerated from pkg/pdfcpu/booklet.go and nup.go on every run.
   Here: the dispatch and the loops around them, transcribed line by line.

   Configuration (what the code reads from *model.NUp):
     nupN      = nup.N()                       (int(Grid.Height*Grid.Width))
     btype     = nup.BookletType               (0 Booklet, 1 BookletAdvanced, 2 BookletPerfectBound)
     binding   = nup.BookletBinding            (0 LongEdge, 1 ShortEdge)
     landscape = nup.PageDim.Landscape()
     topfold   = nup.IsTopFoldBinding()
     multifolio, folio = nup.MultiFolio, nup.FolioSize
   A Go panic (nil function value, slice bounds) is Err. *)
From PV Require Import Lib.GoInt C34.Generated.
Open Scope Z_scope.
Open Scope bool_scope.

(* 0, 1, ..., n-1 as Go ints: `for i := range n` *)
Definition zrange (n : Z) : list Z := map Z.of_nat (seq 0 (Z.to_nat n)).

Definition posFn := Z -> Z -> list Z -> (Z * bool).

(* booklet.go getBookletPageOrdering: the switch selecting pageNumberFn; None = the nil func value *)
Definition selectFn (IW nupN btype binding : Z) (landscape topfold : bool) : option posFn :=
  if (btype =? 0) || (btype =? 1) then
    if nupN =? 2 then Some (fun i n ps => nup2OutputPageNr IW i n ps btype landscape nupN topfold)
    else if nupN =? 4 then Some (fun i n ps => nup4OutputPageNr IW i n ps btype landscape nupN topfold)
    else if nupN =? 6 then Some (fun i n ps => nupLRTBOutputPageNr IW i n ps btype landscape nupN topfold)
    else if nupN =? 8 then
      if binding =? 1 then Some (fun i n ps => nupLRTBOutputPageNr IW i n ps btype landscape nupN topfold)
      else Some (fun i n ps => nup8OutputPageNr IW i n ps btype landscape nupN topfold)
    else None
  else if btype =? 2 then Some (fun i n ps => nupPerfectBound IW i n ps btype landscape nupN topfold)
  else None.

(* booklet.go getBookletPageOrdering: make(pageCount) + `for i := range pageCount` *)
Definition getBookletPageOrdering (IW nupN btype binding : Z) (landscape topfold : bool)
    (pageNumbers : list Z) (pageCount : Z) : res (list (Z * bool)) :=
  if pageCount <? 0 then Err (* make: len out of range *) else
  match selectFn IW nupN btype binding landscape topfold with
  | Some f => Ok (map (fun i => f i pageCount pageNumbers) (zrange pageCount))
  | None => if pageCount =? 0 then Ok [] else Err (* call of a nil func *)
  end.

(* pageCount%m != 0 -> pageCount += m - pageCount%m   (booklet.go getBookletOrdering, nup.go impositionPages) *)
Definition padTo (k m : Z) : Z := if Z.rem k m =? 0 then k else k + (m - Z.rem k m).

(* pageNumbers[start:stop] ; Go panics unless 0 <= start <= stop <= cap (cap >= len; the
   slices here come from append, so stop <= len is what the callers rely on; stop > len is Err) *)
Definition sliceOf (l : list Z) (start stop : Z) : res (list Z) :=
  if (0 <=? start) && (start <=? stop) && (stop <=? slice_len l)
  then Ok (firstn (Z.to_nat (stop - start)) (skipn (Z.to_nat start) l)) else Err.

(* int(math.Ceil(float64(a)/float64(b))) for 0 <= a, 0 < b (exact below 2^53) *)
Definition ceilDiv (a b : Z) : Z := (a + b - 1) / b.

(* one iteration of the multi-folio loop; state = (nPagesPerSignature, bookletPages) *)
Definition folioStep (IW nupN btype binding : Z) (landscape topfold : bool)
    (pageNumbers : list Z) (pageCount : Z) (st : res (Z * list (Z * bool))) (j : Z) : res (Z * list (Z * bool)) :=
  match st with
  | Err => Err
  | Ok (nPPS, acc) =>
    let start := j * nPPS in
    let stop := (j + 1) * nPPS in
    let '(stop, nPPS) := if stop >? slice_len pageNumbers then (slice_len pageNumbers, pageCount - start) else (stop, nPPS) in
    match sliceOf pageNumbers start stop with
    | Err => Err
    | Ok sl =>
      match getBookletPageOrdering IW nupN btype binding landscape topfold sl nPPS with
      | Err => Err
      | Ok bp => Ok (nPPS, acc ++ bp)
      end
    end
  end.

(* booklet.go getBookletOrdering; pageNumbers = sortSelectedPages(pages) *)
Definition getBookletOrdering (IW nupN btype binding : Z) (landscape topfold multifolio : bool) (folio : Z)
    (pageNumbers : list Z) : res (list (Z * bool)) :=
  let pageCount := slice_len pageNumbers in
  let sheetPageCount := 2 * nupN in
  if sheetPageCount <=? 0 then Err (* integer divide by zero / outside the accepted configurations *) else
  let pageCount := padTo pageCount sheetPageCount in
  if multifolio then
    let nPPS := folio * 4 in
    if nPPS <=? 0 then Err (* folio size <= 0 is rejected by the API *) else
    let nSig := ceilDiv pageCount nPPS in
    match fold_left (folioStep IW nupN btype binding landscape topfold pageNumbers pageCount) (zrange nSig) (Ok (nPPS, [])) with
    | Ok (_, bp) => Ok bp
    | Err => Err
    end
  else getBookletPageOrdering IW nupN btype binding landscape topfold pageNumbers pageCount.

(* nup.go impositionPages: the slot sequence (page number per slot, 0 = blank) and the number of
   output pages; rr = nup.RectsForGrid() has nupN cells. *)
Definition nupSlots (IW nupN : Z) (sorted : list Z) : list Z :=
  let pageCount := padTo (slice_len sorted) nupN in
  map (fun i => nupPageNumber IW i sorted 0 false nupN false) (zrange pageCount).

(* outputPageNr starts at 1 and is incremented at every i > 0 with i % len(rr) = 0 *)
Definition nupOutputPages (nupN : Z) (sorted : list Z) : Z :=
  let pageCount := padTo (slice_len sorted) nupN in
  1 + Z.of_nat (length (filter (fun i => (0 <? i) && (Z.rem i nupN =? 0)) (zrange pageCount))).

(* ---- the selected-page set: types.IntSet = map[int]bool.  api.PagesForPageSelection stores a
   deselected page n as pages[n] = false (not by deleting the key), so the map is modelled as an
   association list (key, value) with distinct keys, in arbitrary (map iteration) order.
   nup.go sortSelectedPages: collect the keys whose value is true, sort.Ints ascending
   (sort.Ints is modelled by insertion sort). *)
Fixpoint insertZ (x : Z) (l : list Z) : list Z :=
  match l with
  | [] => [x]
  | y :: t => if x <=? y then x :: l else y :: insertZ x t
  end.

Fixpoint isortZ (l : list Z) : list Z :=
  match l with
  | [] => []
  | x :: t => insertZ x (isortZ t)
  end.

Definition sortSelectedPages (pages : list (Z * bool)) : list Z :=
  isortZ (map fst (filter snd pages)).

(* getBookletOrdering(pages types.IntSet, nup) as called by bookletPages / BookletFromImages *)
Definition getBookletOrderingOfMap (IW nupN btype binding : Z) (landscape topfold multifolio : bool) (folio : Z)
    (pages : list (Z * bool)) : res (list (Z * bool)) :=
  getBookletOrdering IW nupN btype binding landscape topfold multifolio folio (sortSelectedPages pages).

(* impositionPages(…, selectedPages types.IntSet, …) *)
Definition nupSlotsOfMap (IW nupN : Z) (pages : list (Z * bool)) : list Z := nupSlots IW nupN (sortSelectedPages pages).
Definition nupOutputPagesOfMap (nupN : Z) (pages : list (Z * bool)) : Z := nupOutputPages nupN (sortSelectedPages pages).
