(* C29 — Removing signatures removes them all and nothing else.
   Executable model, transcribed from
     pkg/pdfcpu/model/xreftable.go : RemoveAllSignatures, removeSigAnnot, removePageAnnotationForSig
     pkg/pdfcpu/validate/form.go   : cacheSig (which dictionaries count as "a signature")
     pkg/api/api.go                : ReadAndValidate (len(ctx.Signatures)==0 -> ErrNoSignatures)
   NO proofs in this file.

   What is modelled.  The part of the object graph the three functions read or write:
     - the AcroForm field FOREST (/Fields, /Kids to any depth).  validate/form.go walks it with a
       FormFieldVisit that rejects cycles and shared kids, so after validation it IS a forest; a
       node carries its object number, so page /Annots arrays can refer to it by number;
     - per node: own /FT, /Subtype == Widget, presence of /Rect, /P (page object number);
     - per page (in page order): object number and the /Annots array (absent / list of
       indirect references; generation numbers are 0 throughout);
     - the annotation dictionaries that are NOT part of the forest, with their own /FT
       (cacheSig is also called for every page annotation: validate/annotation.go detectSignature);
     - catalog entries DSS, Legal, Perms, Extensions, AcroForm (and a stray /Perm key, which the
       code deleted instead of /Perms before fix 31c53709); AcroForm /SigFlags.
   Not modelled (excluded by validation before RemoveAllSignatures runs, see the NOTE in the Go
   loop): Fields entries that are not indirect references, undereferenceable or empty dicts;
   /P pointing to a non-dictionary (the only error return of removeSigAnnot). *)
From Coq Require Import NArith List Bool.
Import ListNotations.
Open Scope N_scope.

Inductive ftype := Tx | Btn | Ch | Sig.

Definition is_sig (t : ftype) : bool := match t with Sig => true | _ => false end.
Definition osig (o : option ftype) : bool := match o with Some t => is_sig t | None => false end.

(* a field / widget dictionary of the AcroForm forest; kids = [] stands for "no /Kids or empty" *)
Inductive field :=
  Field (id : N) (ft : option ftype) (widget rect : bool) (p : option N) (kids : list field).

Definition f_id (f : field) := let '(Field i _ _ _ _ _) := f in i.
Definition f_ft (f : field) := let '(Field _ t _ _ _ _) := f in t.
Definition f_widget (f : field) := let '(Field _ _ w _ _ _) := f in w.
Definition f_rect (f : field) := let '(Field _ _ _ r _ _) := f in r.
Definition f_p (f : field) := let '(Field _ _ _ _ p _) := f in p.
Definition f_kids (f : field) := let '(Field _ _ _ _ _ k) := f in k.

Definition page := (N * option (list N))%type.       (* page object number, /Annots *)

Record form := { fm_fields : list field; fm_sigflags : bool (* /SigFlags present *) }.

Record doc := {
  d_form   : option form;      (* xRefTable.Form (nil <-> no AcroForm or no/empty Fields) *)
  d_acro   : bool;             (* catalog has /AcroForm *)
  d_perms  : bool;             (* catalog /Perms  (DocMDP, UR3) *)
  d_perm   : bool;             (* catalog /Perm   (not a PDF key; deleted by the code before 31c53709) *)
  d_dss    : bool;
  d_legal  : bool;
  d_ext    : bool;             (* /Extensions *)
  d_pages  : list page;        (* in page order *)
  d_others : list (N * option ftype)   (* annotation dicts outside the forest: number, own /FT *)
}.

Definition alist (a : option (list N)) : list N := match a with Some l => l | None => [] end.

(* ---- removePageAnnotationForSig(xRefTable, pIndRef, indRef) on the page dict d ---- *)
Definition remove_from_annots (a : option (list N)) (v : N) : option (list N) :=
  match a with
  | None => None                                   (* obj, ok := d.Find("Annots"); !ok -> return *)
  | Some [] => Some []                             (* len(annots) == 0 -> return *)
  | Some l =>
      match filter (fun x => negb (x =? v)) l with (* for v in annots: if v != indRef append *)
      | [] => None                                 (* len(arr) == 0 -> delete(d, "Annots") *)
      | l' => Some l'                              (* d["Annots"] = arr *)
      end
  end.

(* the page dictionary is found by object number (DereferenceDict(pIndRef)); a /P that names no
   page of the document finds a dictionary without /Annots (or nil): nothing happens *)
Definition remove_page_annot (pages : list page) (p v : N) : list page :=
  map (fun pg : page => let '(pid, a) := pg in
         if pid =? p then (pid, remove_from_annots a v) else (pid, a)) pages.

(* the `if subType == Widget { ... }` block, used twice in removeSigAnnot.
   None = the function returned early (`return nil`), Some pages = fell through *)
Definition widget_block (pages : list page) (f : field) : option (list page) :=
  if f_widget f then
    if negb (f_rect f) then None                   (* no Rect -> return nil *)
    else match f_p f with
         | None => None                            (* p == nil -> return nil *)
         | Some p => Some (remove_page_annot pages p (f_id f))
         end
  else Some pages.

(* ---- removeSigAnnot(xRefTable, indRef, d) ---- *)
Definition remove_sig_annot (pages : list page) (f : field) : list page :=
  match widget_block pages f with
  | None => pages
  | Some pages1 =>
      match f_kids f with
      | [k] =>                                     (* len(kids) != 1 -> return *)
          match widget_block pages1 k with
          | None => pages1
          | Some pages2 => pages2
          end
      | _ => pages1
      end
  end.

(* `ft != nil && *ft != "Sig"` -> the field is kept in arr *)
Definition keep (f : field) : bool :=
  match f_ft f with Some t => negb (is_sig t) | None => false end.

Definition sweep (pages : list page) (fields : list field) : list page :=
  fold_left (fun pg f => if keep f then pg else remove_sig_annot pg f) fields pages.

(* ---- (xRefTable *XRefTable) RemoveAllSignatures() ---- *)
Definition remove_all (d : doc) : doc :=
  (* delete(d, "DSS"); delete(d, "Legal"); delete(d, "Perms"); delete(d, "Extensions") *)
  let d0 := {| d_form := d_form d; d_acro := d_acro d; d_perms := false; d_perm := d_perm d;
               d_dss := false; d_legal := false; d_ext := false;
               d_pages := d_pages d; d_others := d_others d |} in
  match d_form d with
  | None => d0                                     (* xRefTable.Form == nil -> return *)
  | Some fm =>
      match fm_fields fm with
      | [] =>                                      (* no / empty Fields -> delete(d, "AcroForm") *)
          {| d_form := d_form d; d_acro := false; d_perms := false; d_perm := d_perm d;
             d_dss := false; d_legal := false; d_ext := false;
             d_pages := d_pages d; d_others := d_others d |}
      | fields =>
          let arr := filter keep fields in
          let pages' := sweep (d_pages d) fields in
          match arr with
          | [] =>                                  (* only Sig fields: delete(d, "AcroForm") *)
              {| d_form := d_form d; d_acro := false; d_perms := false; d_perm := d_perm d;
                 d_dss := false; d_legal := false; d_ext := false;
                 d_pages := pages'; d_others := d_others d |}
          | _ =>                                   (* Form["Fields"] = arr; delete(Form, "SigFlags") *)
              {| d_form := Some {| fm_fields := arr; fm_sigflags := false |};
                 d_acro := d_acro d; d_perms := false; d_perm := d_perm d;
                 d_dss := false; d_legal := false; d_ext := false;
                 d_pages := pages'; d_others := d_others d |}
          end
      end
  end.

(* what a reader of the written file sees as the field forest *)
Definition visible_fields (d : doc) : list field :=
  if d_acro d then match d_form d with Some fm => fm_fields fm | None => [] end else [].
Definition visible_sigflags (d : doc) : bool :=
  if d_acro d then match d_form d with Some fm => fm_sigflags fm | None => false end else false.

(* ---- which dictionaries validation records in ctx.Signatures (cacheSig: OWN /FT == Sig) ---- *)
Fixpoint own_sig (f : field) : bool :=
  let '(Field _ t _ _ _ ks) := f in
  osig t || (fix any (l : list field) : bool :=
               match l with [] => false | k :: r => own_sig k || any r end) ks.

Definition own_sig_any (l : list field) : bool := existsb own_sig l.

Definition on_some_page (pages : list page) (v : N) : bool :=
  existsb (fun pg : page => existsb (N.eqb v) (alist (snd pg))) pages.

Definition has_sigs (d : doc) : bool :=
  own_sig_any (match d_form d with Some fm => fm_fields fm | None => [] end)
  || existsb (fun o : N * option ftype => osig (snd o) && on_some_page (d_pages d) (fst o)) (d_others d).

(* ---- api.RemoveSignatures: ReadAndValidate + write.  None = ErrNoSignatures, no output ---- *)
Definition remove_signatures (d : doc) : option doc :=
  if has_sigs d then Some (remove_all d) else None.

(* ================= specification vocabulary (used by the theorems and the oracle) ========== *)

(* effective field type: own /FT, else inherited from the parent *)
Definition eff (inh : option ftype) (f : field) : option ftype :=
  match f_ft f with Some t => Some t | None => inh end.

(* all nodes of a subtree with their effective types, pre-order *)
Fixpoint nodes (inh : option ftype) (f : field) : list (N * option ftype) :=
  let '(Field i t _ _ _ ks) := f in
  let e := match t with Some x => Some x | None => inh end in
  (i, e) :: (fix go (l : list field) : list (N * option ftype) :=
               match l with [] => [] | k :: r => nodes e k ++ go r end) ks.

Definition forest_nodes (l : list field) : list (N * option ftype) := flat_map (nodes None) l.

(* object numbers of every signature-bearing dictionary of the document *)
Definition sig_ids (d : doc) : list N :=
  map fst (filter (fun x => osig (snd x)) (forest_nodes (visible_fields d)))
  ++ map fst (filter (fun o : N * option ftype => osig (snd o) && on_some_page (d_pages d) (fst o)) (d_others d)).
Definition nonsig_nodes (l : list field) : list (N * option ftype) :=
  filter (fun x => negb (osig (snd x))) (forest_nodes l).

Definition mem (v : N) (l : list N) : bool := existsb (N.eqb v) l.

(* the (page, annotation) pairs removeSigAnnot removes for a top-level field: depends on the
   field only, never on the page contents (used by the proofs and by the supported-class test) *)
Definition ops (f : field) : list (N * N) :=
  if f_widget f then
    if negb (f_rect f) then []
    else match f_p f with
         | None => []
         | Some p =>
             (p, f_id f) :: match f_kids f with
                            | [k] => if f_widget k && f_rect k then
                                       match f_p k with Some q => [(q, f_id k)] | None => [] end
                                     else []
                            | _ => []
                            end
         end
  else match f_kids f with
       | [k] => if f_widget k && f_rect k then
                  match f_p k with Some q => [(q, f_id k)] | None => [] end
                else []
       | _ => []
       end.

Definition all_ops (fields : list field) : list (N * N) :=
  flat_map ops (filter (fun f => negb (keep f)) fields).

Definition in_ops (L : list (N * N)) (pid v : N) : bool :=
  existsb (fun o : N * N => (fst o =? pid) && (snd o =? v)) L.

(* ---- the class of documents on which the code meets the property (decidable) ---- *)
(* a kept top-level field hides no signature below it *)
Definition no_nested_sig (f : field) : bool := negb (own_sig f).
(* below a top-level Sig field everything is (effectively) Sig *)
Definition all_sig_below (f : field) : bool :=
  forallb (fun x => osig (snd x)) (nodes None f).
Definition top_ok (f : field) : bool :=
  match f_ft f with
  | None => false                                   (* class ft-less-top-level-field *)
  | Some Sig => all_sig_below f
  | Some _ => no_nested_sig f                       (* class nested-sig-field *)
  end.
(* every page reference to a signature dictionary is one of the two probes of removeSigAnnot *)
Definition widgets_reached (d : doc) : bool :=
  forallb (fun pg : page =>
     forallb (fun v => negb (mem v (sig_ids d)) || in_ops (all_ops (visible_fields d)) (fst pg) v)
             (alist (snd pg))) (d_pages d).
Definition supported (d : doc) : bool :=
  d_acro d
  && forallb top_ok (visible_fields d)
  && negb (existsb (fun o : N * option ftype => osig (snd o) && on_some_page (d_pages d) (fst o)) (d_others d))
  && widgets_reached d.

(* ---- canonical rendering for the correspondence harness (pure data, no strings) ---- *)
Definition top_ids (d : doc) : list N := map f_id (visible_fields d).

(* validate/form.go sets xRefTable.Form only from the catalog's /AcroForm *)
Definition wf_doc (d : doc) : Prop :=
  match d_form d with Some _ => d_acro d = true | None => True end.

(* ---- the property, as predicates on (document before, document after) ---- *)
(* no signature-bearing field is left, no page refers to a signature dictionary of the input,
   certification / usage-rights / signature flags / DSS are gone *)
Definition no_sig_left (d d' : doc) : Prop :=
  sig_ids d' = [] /\
  (forall x, In x (forest_nodes (visible_fields d')) -> osig (snd x) = false) /\
  (forall pg v, In pg (d_pages d') -> In v (alist (snd pg)) -> mem v (sig_ids d) = false) /\
  d_perms d' = false /\ visible_sigflags d' = false /\
  d_dss d' = false /\ d_legal d' = false /\ d_ext d' = false.

(* every non-signature field (with its effective type, in document order) and nothing else is in
   the forest; the kept top-level fields are the same subtrees; pages keep their order and every
   annotation that is not a signature dictionary, in order *)
Definition non_sig_unchanged (d d' : doc) : Prop :=
  forest_nodes (visible_fields d') = nonsig_nodes (visible_fields d) /\
  visible_fields d' = filter keep (visible_fields d) /\
  map fst (d_pages d') = map fst (d_pages d) /\
  Forall2 (fun pg pg' : page =>
             fst pg' = fst pg /\
             alist (snd pg') = filter (fun v => negb (mem v (sig_ids d))) (alist (snd pg)))
          (d_pages d) (d_pages d') /\
  d_others d' = d_others d.

(* the part of "nothing else" that holds for EVERY document: pages keep their order, a page only
   loses references to a top-level field the code treats as signature, or to its only kid *)
Definition removable (d : doc) (v : N) : Prop :=
  exists f, In f (visible_fields d) /\ keep f = false /\
            (v = f_id f \/ exists k, f_kids f = [k] /\ v = f_id k).
Definition only_sig_probes_removed (d d' : doc) : Prop :=
  visible_fields d' = filter keep (visible_fields d) /\
  map fst (d_pages d') = map fst (d_pages d) /\
  Forall2 (fun pg pg' : page =>
             fst pg' = fst pg /\
             exists rm : N -> bool,
               alist (snd pg') = filter (fun v => negb (rm v)) (alist (snd pg)) /\
               forall v, rm v = true -> removable d v)
          (d_pages d) (d_pages d') /\
  d_others d' = d_others d /\ d_perms d' = false /\ d_perm d' = d_perm d /\
  visible_sigflags d' = false /\ d_dss d' = false /\ d_legal d' = false /\ d_ext d' = false.
