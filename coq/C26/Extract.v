From Coq Require Import Extraction ExtrOcamlBasic.
From PV Require Import Lib.ExtBase C26.Generated C26.Spec C26.Model.
Extraction "model.ml" ext_base_z ext_base_n ext_base_nat ext_base_res ext_base_list
  maskExtract maskModify hasNeededPermissions needsOwnerAndUserPassword rejectsEncrypted
  handlePermissions validateOwnerPassword setupAccess checkForEncryption perm_lookup perm_table all_modes noCredentialsSupplied pw_empty api_entry_mode_lists
  spec_kind spec_must_refuse row_satisfies.
