(* C12 glue: byte strings are hex pairs; results are canonical text *)
open Model
open Common
(* table-driven byte conversion (common.ml's goes through sprintf per byte) *)
let byte_tab : n array = Array.init 256 n_of_int
let hex_tab : string array = Array.init 256 (Printf.sprintf "%02x")
let bytes_of_hex (s : string) : n list =
  let l = String.length s / 2 in
  let rec go i acc = if i < 0 then acc else go (i - 1) (byte_tab.(hexval s.[2*i] * 16 + hexval s.[2*i+1]) :: acc) in
  go (l - 1) []
let hex_of_bytes (l : n list) : string =
  let buf = Buffer.create 64 in
  List.iter (fun b -> let v = int_of_n b in
    Buffer.add_string buf (if v >= 0 && v < 256 then hex_tab.(v) else Printf.sprintf "[%x]" v)) l;
  Buffer.contents buf
let res_bytes r = match r with Ok b -> "ok:" ^ hex_of_bytes b | Err -> "err"
let dres r = match r with
  | DOk b -> "ok:" ^ hex_of_bytes b
  | DErr ENul -> "err:nul"
  | DErr EShort -> "err:short"
  | DErr EHex -> "err:hex"
let dispatch fn args = match fn, args with
  | "Escape", [s] -> hex_of_bytes (escape (bytes_of_hex s))
  | "Unescape", [s] -> res_bytes (unescape (bytes_of_hex s))
  | "EncodeName", [s] -> hex_of_bytes (encodeName (bytes_of_hex s))
  | "DecodeName", [s] -> dres (decodeName (bytes_of_hex s))
  | "needsHex", [c] -> str_of_bool (needsHexSequence (n_of_hex c))
  | "ParseLit", [l] ->
    (match parseStringLiteral (bytes_of_hex l) with
     | Ok (a, b) -> "ok:" ^ hex_of_bytes a ^ ":" ^ hex_of_bytes b
     | Err -> "err")
  | "parensEscaped", [s] -> str_of_bool (parensEscaped false (bytes_of_hex s))
  | "nameWF", [s] -> str_of_bool (nameWF (bytes_of_hex s))
  | _ -> failwith ("unknown function " ^ fn)
let () = main dispatch
