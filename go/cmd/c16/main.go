// Harness for C16: decode limits are exact and bounded decoding yields prefixes.
//
// K (correspondence): decodeLimit, copyDecoded, ASCIIHex / RunLength encoders and decoders,
// predictorRowParams, processRow, flate.decodePostProcess (row loop) and AHx/RL pipelines through
// StreamDict are run on generated inputs and compared byte-for-byte with the extracted model.
// O (oracle): for every filter (incl. ASCII85, LZW, Flate with and without predictor rows) and for
// pipelines of length 1..3 through StreamDict, the property itself is evaluated on the real code:
// limit exactness for limits around the decoded length and prefix property for bounded decoding.
package main

import (
	"bytes"
	"compress/zlib"
	"errors"
	"fmt"
	"io"
	"strconv"
	"strings"

	"github.com/pdfcpu/pdfcpu/pkg/filter"
	"github.com/pdfcpu/pdfcpu/pkg/pdfcpu/types"
	"verif/vh"
)

var r *vh.Run

func cls(err error) string {
	switch {
	case err == nil:
		return ""
	case errors.Is(err, filter.ErrDecodeLimitExceeded):
		return "limit"
	case errors.Is(err, io.ErrUnexpectedEOF):
		return "unexpeof"
	case errors.Is(err, io.EOF):
		return "eof"
	}
	return "other"
}

func res(b []byte, err error) string {
	if err != nil {
		return "err:" + cls(err)
	}
	return "ok:" + vh.Hex(b)
}

// guard runs f and converts a panic into an error result.
func guard(f func() ([]byte, error)) (b []byte, err error) {
	defer func() {
		if x := recover(); x != nil {
			b, err = nil, fmt.Errorf("panic: %v", x)
		}
	}()
	return f()
}

func decodeWith(name string, parms map[string]int, in []byte, maxLen, mdb int64) ([]byte, error) {
	return guard(func() ([]byte, error) {
		f, err := filter.NewFilter(name, parms, mdb)
		if err != nil {
			return nil, err
		}
		var rd io.Reader
		if maxLen < 0 {
			rd, err = f.Decode(bytes.NewReader(in))
		} else {
			rd, err = f.DecodeLength(bytes.NewReader(in), maxLen)
		}
		if err != nil {
			return nil, err
		}
		return io.ReadAll(rd)
	})
}

func encodeWith(name string, parms map[string]int, in []byte) ([]byte, error) {
	return guard(func() ([]byte, error) {
		f, err := filter.NewFilter(name, parms)
		if err != nil {
			return nil, err
		}
		rd, err := f.Encode(bytes.NewReader(in))
		if err != nil {
			return nil, err
		}
		return io.ReadAll(rd)
	})
}

func zcompress(b []byte) []byte {
	var buf bytes.Buffer
	w := zlib.NewWriter(&buf)
	w.Write(b)
	w.Close()
	return buf.Bytes()
}

// ---------------------------------------------------------------- generators

func rnd(n int) []byte {
	b := make([]byte, n)
	for i := range b {
		b[i] = byte(r.Rand.Intn(256))
	}
	return b
}

func rep(x byte, n int) []byte { return bytes.Repeat([]byte{x}, n) }

// nonrun returns n bytes without two equal neighbours.
func nonrun(n int) []byte {
	b := make([]byte, n)
	for i := range b {
		b[i] = byte(r.Rand.Intn(256))
		for i > 0 && b[i] == b[i-1] {
			b[i] = byte(r.Rand.Intn(256))
		}
	}
	return b
}

func cat(bs ...[]byte) []byte { return bytes.Join(bs, nil) }

func genData() [][]byte {
	var out [][]byte
	out = append(out, []byte{}, []byte{0}, []byte{0x80}, []byte{0x80, 0x80}, []byte{1, 1, 2}, []byte{1, 2, 2}, []byte{1, 2, 2, 3})
	for _, n := range []int{2, 3, 126, 127, 128, 129, 130, 255, 256, 257, 384, 385} {
		out = append(out, rep(byte(r.Rand.Intn(256)), n))
		out = append(out, nonrun(n))
	}
	for _, n := range []int{126, 127, 128, 129} {
		x := byte(r.Rand.Intn(256))
		out = append(out, cat(nonrun(n), rep(x, 3)))
		out = append(out, cat(rep(x, n), nonrun(5)))
		nr := nonrun(n)
		out = append(out, cat(nr, []byte{nr[n-1]}))         // equal pair straddling the block boundary
		out = append(out, cat(nr, []byte{nr[n-1], nr[n-1]})) // run starting at the boundary
		out = append(out, cat(rep(x, n), rep(x+1, n)))
	}
	n := r.Pick(30, 300)
	for i := 0; i < n; i++ {
		// small alphabet: many short runs
		l := r.Rand.Intn(r.Pick(60, 400))
		b := make([]byte, l)
		a := 1 + r.Rand.Intn(3)
		for j := range b {
			b[j] = byte(r.Rand.Intn(a + 1))
		}
		out = append(out, b)
		out = append(out, rnd(r.Rand.Intn(r.Pick(50, 300))))
		// mixed blocks
		var m []byte
		for k := r.Rand.Intn(5); k >= 0; k-- {
			switch r.Rand.Intn(3) {
			case 0:
				m = append(m, rep(byte(r.Rand.Intn(4)), 1+r.Rand.Intn(140))...)
			case 1:
				m = append(m, nonrun(1+r.Rand.Intn(140))...)
			default:
				m = append(m, rnd(r.Rand.Intn(10))...)
			}
		}
		out = append(out, m)
	}
	return out
}

// limits around the decoded length F (bounded lengths use the same grid).
func grid(F int) []int64 {
	var g []int64
	if F <= r.Pick(24, 80) {
		for i := 0; i <= F+2; i++ {
			g = append(g, int64(i))
		}
		return g
	}
	seen := map[int64]bool{}
	for _, v := range []int{0, 1, 2, F / 2, F - 2, F - 1, F, F + 1, F + 2, r.Rand.Intn(F), r.Rand.Intn(F)} {
		if v >= 0 && !seen[int64(v)] {
			seen[int64(v)] = true
			g = append(g, int64(v))
		}
	}
	return g
}

// effective unbounded-decode limit of a filter built with maxDecodeBytes mdb (-1: none)
func effLimit(mdb int64) int64 {
	if mdb == 0 {
		return filter.DefaultMaxDecodeBytes
	}
	if mdb < 0 {
		return -1
	}
	return mdb
}

// ---------------------------------------------------------------- oracle for one filter input

type fcase struct {
	name   string // filter name
	tag    string // short id for classes
	parms  map[string]int
	in     []byte
	rowLen int  // >0 for Flate with predictor
	exact  bool // DecodeLength(n) returns exactly min(n,|full|) or a too-short error (false: at least, whole rows)
	kfn    string // model function for correspondence ("" = none)
}

func pstr(p map[string]int) string {
	if len(p) == 0 {
		return ""
	}
	return fmt.Sprint(p)
}

func checkFilter(c fcase) {
	full, err := decodeWith(c.name, c.parms, c.in, -1, -1)
	r.Count("filter:" + c.tag)
	if err != nil {
		r.Count("full-decoding-fails:" + c.tag)
	}
	inp := func(kind string, v int64) map[string]any {
		return map[string]any{"filter": c.name, "parms": pstr(c.parms), "encoded": vh.Hex(c.in), kind: v}
	}
	F := len(full)
	mdbs := append(grid(F)[1:], -1, 0)
	if err != nil {
		mdbs = []int64{-1, 0, 1, 2, 5, int64(len(c.in))}
	}
	for _, mdb := range mdbs {
		got, gerr := decodeWith(c.name, c.parms, c.in, -1, mdb)
		if c.kfn != "" {
			r.Case(c.kfn, []string{vh.Hex(c.in), vh.Int(-1), vh.Int(mdb)}, res(got, gerr))
		}
		L := effLimit(mdb)
		// never more than L bytes, whatever the input
		if gerr == nil && L >= 0 && int64(len(got)) > L {
			r.OracleFail("returns-more-than-limit:"+c.tag, inp("limit", mdb), fmt.Sprintf("returned %d bytes", len(got)))
			continue
		}
		if err != nil {
			r.OracleOK()
			continue
		}
		switch {
		case L < 0 || int64(F) <= L:
			if gerr == nil && bytes.Equal(got, full) {
				r.OracleOK()
			} else if cls(gerr) == "limit" && c.rowLen > 0 && int64(c.rowLen) > L {
				r.OracleFail("flate-predictor-rowlen-exceeds-limit", inp("limit", mdb),
					fmt.Sprintf("full decoding has %d bytes <= limit %d but Decode fails with the decode-limit error because the row length %d (incl. PNG filter byte) exceeds the limit (flateDecode.go decodePostProcess)", F, L, c.rowLen))
			} else {
				r.OracleFail("rejects-within-limit:"+c.tag, inp("limit", mdb), fmt.Sprintf("full %d bytes, limit %d, got %s", F, L, trunc(res(got, gerr))))
			}
		default:
			if cls(gerr) == "limit" {
				r.OracleOK()
			} else {
				r.OracleFail("no-limit-error:"+c.tag, inp("limit", mdb), fmt.Sprintf("full %d bytes, limit %d, got %s", F, L, trunc(res(got, gerr))))
			}
		}
	}
	ns := grid(F)
	if err != nil {
		ns = []int64{0, 1, 2, 5}
	}
	for _, n := range ns {
		got, gerr := decodeWith(c.name, c.parms, c.in, n, -1)
		if c.kfn != "" {
			r.Case(c.kfn, []string{vh.Hex(c.in), vh.Int(n), vh.Int(-1)}, res(got, gerr))
			// the limit is not consulted by a bounded decode
			got2, gerr2 := decodeWith(c.name, c.parms, c.in, n, 1)
			r.Case(c.kfn, []string{vh.Hex(c.in), vh.Int(n), vh.Int(1)}, res(got2, gerr2))
		}
		if err != nil {
			continue
		}
		want := min(int(n), F)
		e := cls(gerr)
		switch {
		case gerr == nil && len(got) >= want && len(got) <= F && bytes.Equal(got, full[:len(got)]) && (!c.exact || len(got) == want):
			r.OracleOK()
		case gerr != nil && int(n) > F && (e == "eof" || e == "unexpeof"):
			r.OracleOK() // "reports that the data is too short"
		default:
			r.OracleFail("bounded-not-prefix:"+c.tag, inp("maxLen", n), fmt.Sprintf("full %d bytes, got %s", F, trunc(res(got, gerr))))
		}
	}
}

func trunc(s string) string {
	if len(s) > 120 {
		return s[:120] + "..."
	}
	return s
}

// ---------------------------------------------------------------- readers with a terminal status

type sreader struct {
	data  []byte
	st    string
	chunk int
}

var errBroken = errors.New("broken stream")

func (s *sreader) Read(p []byte) (int, error) {
	if len(s.data) == 0 {
		switch s.st {
		case "eof":
			return 0, io.EOF
		case "unexp":
			return 0, io.ErrUnexpectedEOF
		}
		return 0, errBroken
	}
	n := min(len(p), len(s.data), s.chunk)
	copy(p, s.data[:n])
	s.data = s.data[n:]
	return n, nil
}

var statuses = []string{"eof", "unexp", "err"}

// ---------------------------------------------------------------- sections

func sectionLimitAndCopy() {
	vals := []int64{-2, -1, 0, 1, 2, 5, 1 << 20, filter.DefaultMaxDecodeBytes, 1<<63 - 1, -1 << 63}
	for _, ml := range vals {
		for _, mdb := range vals {
			r.Case("decode_limit", []string{vh.Int(ml), vh.Int(mdb)}, vh.Int(filter.VerifDecodeLimit(ml, mdb)))
		}
	}
	for i := 0; i < r.Pick(12, 60); i++ {
		data := rnd(r.Rand.Intn(12))
		F := int64(len(data))
		for _, st := range statuses {
			var mls []int64
			for n := int64(-1); n <= F+2; n++ {
				mls = append(mls, n)
			}
			for _, ml := range mls {
				mdbs := []int64{-1, 0, 1<<63 - 1}
				if ml < 0 {
					for l := int64(1); l <= F+2; l++ {
						mdbs = append(mdbs, l)
					}
				}
				for _, mdb := range mdbs {
					b, err := guard(func() ([]byte, error) {
						return filter.VerifCopyDecoded(&sreader{append([]byte(nil), data...), st, 1 + r.Rand.Intn(5)}, ml, mdb)
					})
					r.Case("copy_decoded", []string{vh.Hex(data), st, vh.Int(ml), vh.Int(mdb)}, res(b, err))
				}
			}
		}
	}
}

func ahxVariants(d []byte) [][]byte {
	e, _ := encodeWith(filter.ASCIIHex, nil, d)
	out := [][]byte{e}
	out = append(out, bytes.ToUpper(e))
	var ws []byte
	for _, c := range e {
		if r.Rand.Intn(4) == 0 {
			ws = append(ws, []byte{9, 10, 12, 13, 32}[r.Rand.Intn(5)])
		}
		ws = append(ws, c)
	}
	out = append(out, ws)
	if len(e) > 1 {
		out = append(out, cat(e[:len(e)-2], []byte{'>'}))  // odd number of digits
		out = append(out, e[:len(e)-1])                    // no eod
		out = append(out, e[:len(e)-2])                    // no eod, odd
		out = append(out, cat(e, []byte("zz 41>42")))      // garbage after eod
		bad := append([]byte(nil), e...)
		bad[r.Rand.Intn(len(bad)-1)] = []byte{'g', 0, 0x80, 'G', '/', ':', '@', '`', 0x0b}[r.Rand.Intn(9)]
		out = append(out, bad)
	}
	return out
}

func rlVariants(d []byte) [][]byte {
	e, _ := encodeWith(filter.RunLength, nil, d)
	out := [][]byte{e}
	out = append(out, e[:len(e)-1]) // no eod
	out = append(out, cat(e, rnd(3)))
	if len(e) > 2 {
		out = append(out, e[:1+r.Rand.Intn(len(e)-1)]) // truncated
		out = append(out, e[:len(e)-2])
	}
	return out
}

func sectionAHxRL(data [][]byte) {
	for _, d := range data {
		e, err := encodeWith(filter.ASCIIHex, nil, d)
		r.Case("ahx_encode", []string{vh.Hex(d)}, res(e, err))
		e, err = encodeWith(filter.RunLength, nil, d)
		r.Case("rl_encode", []string{vh.Hex(d)}, res(e, err))
		if len(d) > 0 {
			b := d[0]
			cnt := r.Rand.Intn(3) * 64
			start := 0
			src := d
			// detect(i, start, 0x80, b, src) with i-start = cnt: emulate by prefixing cnt bytes
			src = cat(rep(b, cnt), d)
			got := filter.VerifRLDetect(cnt, start, 0x80, b, src) - start
			r.Case("detect", []string{vh.Uint(uint64(b)), vh.Hex(d), strconv.Itoa(cnt)}, strconv.Itoa(got))
		}
		if len(d) > r.Pick(140, 400) && r.Rand.Intn(3) != 0 {
			continue
		}
		for _, v := range ahxVariants(d) {
			checkFilter(fcase{name: filter.ASCIIHex, tag: "AHx", in: v, exact: true, kfn: "ahx_decode"})
		}
		for _, v := range rlVariants(d) {
			checkFilter(fcase{name: filter.RunLength, tag: "RL", in: v, exact: true, kfn: "rl_decode"})
		}
	}
	// arbitrary bytes as RunLength / ASCIIHex input (malformed encodings)
	for i := 0; i < r.Pick(150, 1500); i++ {
		b := rnd(r.Rand.Intn(24))
		for j := range b {
			if r.Rand.Intn(3) == 0 {
				b[j] = []byte{0, 1, 2, 3, 0x7f, 0x80, 0x81, 0xff, 0xfe, 0xfd}[r.Rand.Intn(10)]
			}
		}
		checkFilter(fcase{name: filter.RunLength, tag: "RL", in: b, exact: true, kfn: "rl_decode"})
		h := make([]byte, r.Rand.Intn(16))
		for j := range h {
			h[j] = []byte("0123456789abcdefABCDEF \n\t>gG\x00")[r.Rand.Intn(29)]
		}
		checkFilter(fcase{name: filter.ASCIIHex, tag: "AHx", in: h, exact: true, kfn: "ahx_decode"})
	}
}

func sectionStreamFilters(data [][]byte) {
	for i, d := range data {
		if len(d) > r.Pick(150, 600) || (!r.Thorough() && i%3 != 0 && len(d) > 8) {
			continue
		}
		e, _ := encodeWith(filter.ASCII85, nil, d)
		checkFilter(fcase{name: filter.ASCII85, tag: "A85", in: e, exact: true})
		checkFilter(fcase{name: filter.ASCII85, tag: "A85", in: cat(e, []byte("\r\n")), exact: true})
		// framing of ascii85Decode.DecodeLength (eod marker, trailing CR/LF) against the model
		for _, v := range [][]byte{e, cat(e, []byte("\n\r\n")), e[:len(e)-1], cat(e[:len(e)-2], []byte(">~")), cat(e, []byte(" ")), cat(e, []byte("\r"))} {
			// the body is valid base-85 here, so success depends on the framing only
			_, derr := decodeWith(filter.ASCII85, nil, v, -1, -1)
			s := "ok"
			if derr != nil {
				s = "err:" + cls(derr)
			}
			r.Case("a85_frame", []string{vh.Hex(v)}, s)
		}
		for _, ec := range []int{-1, 0, 1} {
			p := map[string]int{}
			if ec >= 0 {
				p["EarlyChange"] = ec
			}
			e, _ = encodeWith(filter.LZW, p, d)
			checkFilter(fcase{name: filter.LZW, tag: "LZW", parms: p, in: e, exact: true})
		}
		e, _ = encodeWith(filter.Flate, nil, d)
		checkFilter(fcase{name: filter.Flate, tag: "Flate", in: e, exact: true})
		checkFilter(fcase{name: filter.Flate, tag: "Flate", parms: map[string]int{"Predictor": 1, "Columns": 3}, in: e, exact: true})
	}
}

type pcfg struct{ pred, colors, bpc, cols int }

func (p pcfg) parms() map[string]int {
	m := map[string]int{"Predictor": p.pred}
	if p.colors > 0 {
		m["Colors"] = p.colors
	}
	if p.bpc > 0 {
		m["BitsPerComponent"] = p.bpc
	}
	if p.cols > 0 {
		m["Columns"] = p.cols
	}
	return m
}

func optInt(v int) string {
	if v <= 0 {
		return ""
	}
	return vh.Int(int64(v))
}

func genPcfg() pcfg {
	p := pcfg{pred: []int{2, 10, 11, 12, 13, 14, 15}[r.Rand.Intn(7)]}
	if r.Rand.Intn(3) != 0 {
		p.colors = 1 + r.Rand.Intn(4)
	}
	if r.Rand.Intn(3) != 0 {
		p.bpc = []int{1, 2, 4, 8, 16}[r.Rand.Intn(5)]
	}
	if r.Rand.Intn(4) != 0 {
		p.cols = 1 + r.Rand.Intn(6)
	}
	return p
}

// rawRows builds an inflated stream of nrows rows for p (PNG: random valid filter bytes).
func rawRows(p pcfg, rowLen, nrows int) []byte {
	var raw []byte
	for i := 0; i < nrows; i++ {
		row := rnd(rowLen)
		if p.pred != 2 {
			row[0] = byte(r.Rand.Intn(5))
		}
		raw = append(raw, row...)
	}
	return raw
}

func sectionPredictor() {
	// predictorRowParams
	for _, pred := range []int{2, 10, 15} {
		for _, colors := range []int{1, 3, 4, 1 << 31, 1 << 60} {
			for _, bpc := range []int{1, 2, 4, 8, 16} {
				for _, cols := range []int{1, 2, 7, 1 << 31, 1 << 57, 1<<63 - 1} {
					rs, rl, bpp, err := filter.VerifPredictorRowParams(pred, colors, bpc, cols)
					s := "err"
					if err == nil {
						s = "ok:" + vh.Int(int64(rs)) + "," + vh.Int(int64(rl)) + "," + vh.Int(int64(bpp))
					}
					r.Case("row_params", []string{vh.Int(int64(pred)), vh.Int(int64(colors)), vh.Int(int64(bpc)), vh.Int(int64(cols))}, s)
				}
			}
		}
	}
	n := r.Pick(60, 600)
	for i := 0; i < n; i++ {
		p := genPcfg()
		rowSize, rowLen, bpp, err := filter.VerifPredictorRowParams(p.pred, max(p.colors, 1), map[bool]int{true: p.bpc, false: 8}[p.bpc > 0], max(p.cols, 1))
		if err != nil {
			panic(err)
		}
		colors := max(p.colors, 1)
		// processRow
		cr := rnd(rowLen)
		pr := rnd(rowLen)
		if p.pred != 2 {
			cr[0] = byte(r.Rand.Intn(6))
		}
		d, perr := guard(func() ([]byte, error) { return filter.VerifProcessRow(pr, cr, p.pred, colors, bpp) })
		pdat := pr[1:]
		s := "err"
		if perr == nil {
			s = "ok:" + vh.Hex(d)
		}
		r.Case("process_row", []string{vh.Int(int64(p.pred)), strconv.Itoa(colors), strconv.Itoa(bpp), vh.Hex(pdat), vh.Hex(cr)}, s)

		// the row loop on an inflated stream with every terminal status
		nrows := r.Rand.Intn(5)
		raw := rawRows(p, rowLen, nrows)
		switch r.Rand.Intn(6) {
		case 0:
			if rowLen > 1 {
				raw = append(raw, rnd(1+r.Rand.Intn(rowLen-1))...) // partial last row
			}
		case 1:
			if p.pred != 2 && nrows > 0 {
				raw[(nrows-1)*rowLen] = 5 + byte(r.Rand.Intn(250)) // undefined PNG filter byte in the last row
			}
		}
		F := nrows * rowSize
		for _, st := range statuses {
			for _, ml := range append(grid(F), -1) {
				mdbs := []int64{-1}
				if ml < 0 {
					mdbs = append(mdbs, grid(F + 2)...)
				} else {
					mdbs = append(mdbs, 1, int64(rowLen))
				}
				for _, mdb := range mdbs {
					b, err := guard(func() ([]byte, error) {
						return filter.VerifFlatePostProcess(&sreader{append([]byte(nil), raw...), st, 1 + r.Rand.Intn(7)}, p.parms(), ml, mdb)
					})
					r.Case("flate_post", []string{vh.Hex(raw), st, vh.Int(int64(p.pred)), optInt(p.colors), optInt(p.bpc), optInt(p.cols), vh.Int(ml), vh.Int(mdb)}, res(b, err))
				}
			}
		}
		// oracle through the real Flate filter
		if len(raw) == nrows*rowLen {
			checkFilter(fcase{name: filter.Flate, tag: "Flate+pred", parms: p.parms(), in: zcompress(raw), rowLen: rowLen, exact: false})
		}
	}
}

// ---------------------------------------------------------------- pipelines through StreamDict

type pstage struct {
	name   string
	model  string // stage name in the model, "" if external codec
	pf     types.PDFFilter
	rowLen int
	pred   *pcfg
}

func mkDict(m map[string]int) types.Dict {
	if m == nil {
		return nil
	}
	d := types.Dict{}
	for k, v := range m {
		d[k] = types.Integer(v)
	}
	return d
}

func genStage(dataLen int, allowPred bool) pstage {
	switch k := r.Rand.Intn(7); {
	case k == 0:
		return pstage{name: "AHx", model: "AHx", pf: types.PDFFilter{Name: filter.ASCIIHex}}
	case k == 1:
		return pstage{name: "RL", model: "RL", pf: types.PDFFilter{Name: filter.RunLength}}
	case k == 2:
		return pstage{name: "A85", pf: types.PDFFilter{Name: filter.ASCII85}}
	case k == 3:
		ec := r.Rand.Intn(2)
		return pstage{name: "LZW", pf: types.PDFFilter{Name: filter.LZW, DecodeParms: mkDict(map[string]int{"EarlyChange": ec})}}
	case k == 4 || !allowPred:
		return pstage{name: "Flate", pf: types.PDFFilter{Name: filter.Flate}}
	default:
		// PNG Up / None rows; rowSize must divide the data length
		cols := 1
		for _, c := range []int{5, 4, 3, 2} {
			if dataLen > 0 && dataLen%c == 0 && r.Rand.Intn(2) == 0 {
				cols = c
				break
			}
		}
		p := pcfg{pred: 10 + r.Rand.Intn(6), cols: cols}
		return pstage{name: "Flate+pred", pf: types.PDFFilter{Name: filter.Flate, DecodeParms: mkDict(p.parms())}, rowLen: cols + 1, pred: &p}
	}
}

// encodeStage encodes d for stage s (the predictor stage is encoded here: PNG None/Up rows + zlib,
// because flate.Encode does not apply predictors, see C15).
func encodeStage(s pstage, d []byte) []byte {
	if s.pred == nil {
		parms := map[string]int{}
		for k, v := range s.pf.DecodeParms {
			parms[k] = v.(types.Integer).Value()
		}
		e, err := encodeWith(s.pf.Name, parms, d)
		if err != nil {
			panic(err)
		}
		return e
	}
	cols := s.pred.cols
	var raw []byte
	prev := make([]byte, cols)
	for i := 0; i+cols <= len(d); i += cols {
		row := d[i : i+cols]
		if r.Rand.Intn(2) == 0 {
			raw = append(raw, 0)
			raw = append(raw, row...)
		} else {
			raw = append(raw, 2)
			for j := range row {
				raw = append(raw, row[j]-prev[j])
			}
		}
		prev = row
	}
	return zcompress(raw)
}

func sdDecode(pl []types.PDFFilter, raw []byte, maxLen, mdb int64) ([]byte, error) {
	return guard(func() ([]byte, error) {
		sd := types.NewStreamDict(types.NewDict(), 0, nil, nil, pl)
		sd.Raw = raw
		return sd.DecodeLengthWithLimit(maxLen, mdb)
	})
}

func sectionPipelines(data [][]byte) {
	n := r.Pick(120, 1500)
	for i := 0; i < n; i++ {
		d := data[r.Rand.Intn(len(data))]
		if len(d) > r.Pick(90, 300) {
			d = d[:r.Pick(90, 300)]
		}
		k := 1 + r.Rand.Intn(3)
		stages := make([]pstage, k)
		inter := make([][]byte, k+1) // inter[j] = input of stage j; inter[k] = content
		inter[k] = d
		allModel := true
		for j := k - 1; j >= 0; j-- {
			if i%5 == 0 {
				stages[j] = []pstage{{name: "AHx", model: "AHx", pf: types.PDFFilter{Name: filter.ASCIIHex}}, {name: "RL", model: "RL", pf: types.PDFFilter{Name: filter.RunLength}}}[r.Rand.Intn(2)]
			} else {
				stages[j] = genStage(len(inter[j+1]), true)
			}
			inter[j] = encodeStage(stages[j], inter[j+1])
			if stages[j].model == "" {
				allModel = false
			}
		}
		var pl []types.PDFFilter
		var names, mnames []string
		maxInter, maxRowLen := 0, 0
		for j, s := range stages {
			pl = append(pl, s.pf)
			names = append(names, s.name)
			mnames = append(mnames, s.model)
			maxInter = max(maxInter, len(inter[j+1]))
			maxRowLen = max(maxRowLen, s.rowLen)
		}
		pname := strings.Join(names, ",")
		r.Count("pipeline-len:" + strconv.Itoa(k))
		inp := func(kind string, v int64) map[string]any {
			return map[string]any{"pipeline": pname, "filters": fmt.Sprint(pl), "raw": vh.Hex(inter[0]), kind: v}
		}
		full, err := sdDecode(pl, inter[0], -1, -1)
		if err != nil || !bytes.Equal(full, d) {
			r.OracleFail("pipeline-full-decode", inp("limit", -1), "unlimited decoding of the generated encoding fails or differs: "+trunc(res(full, err)))
			continue
		}
		r.OracleOK()
		F := len(d)
		// limits: around the final length and around the largest intermediate stage output
		lims := grid(F)[1:]
		for _, v := range []int{maxInter - 1, maxInter, maxInter + 1, maxRowLen - 1, maxRowLen} {
			if v > 0 {
				lims = append(lims, int64(v))
			}
		}
		for _, L := range lims {
			got, gerr := sdDecode(pl, inter[0], -1, L)
			if allModel {
				r.Case("pipe_decode", []string{strings.Join(mnames, ","), vh.Hex(inter[0]), vh.Int(-1), vh.Int(L)}, res(got, gerr))
			}
			switch {
			case gerr == nil && int64(len(got)) > L:
				r.OracleFail("returns-more-than-limit:pipeline", inp("limit", L), fmt.Sprintf("returned %d bytes", len(got)))
			case int64(maxInter) <= L && gerr == nil && bytes.Equal(got, d):
				r.OracleOK()
			case int64(maxInter) <= L && cls(gerr) == "limit" && int64(maxRowLen) > L:
				r.OracleFail("flate-predictor-rowlen-exceeds-limit", inp("limit", L), fmt.Sprintf("every stage output has at most %d bytes <= limit %d, row length %d", maxInter, L, maxRowLen))
			case int64(maxInter) > L && cls(gerr) == "limit":
				r.OracleOK()
			default:
				r.OracleFail("pipeline-limit-not-exact", inp("limit", L), fmt.Sprintf("stage outputs up to %d bytes, final %d, limit %d, got %s", maxInter, F, L, trunc(res(got, gerr))))
			}
		}
		for _, nn := range grid(F) {
			got, gerr := sdDecode(pl, inter[0], nn, -1)
			if allModel {
				r.Case("pipe_decode", []string{strings.Join(mnames, ","), vh.Hex(inter[0]), vh.Int(nn), vh.Int(-1)}, res(got, gerr))
			}
			e := cls(gerr)
			switch {
			case int(nn) <= F && gerr == nil && bytes.Equal(got, d[:nn]):
				r.OracleOK()
			case int(nn) > F && (e == "eof" || e == "unexpeof"):
				r.OracleOK()
			default:
				r.OracleFail("pipeline-bounded-not-prefix", inp("maxLen", nn), fmt.Sprintf("final %d bytes, got %s", F, trunc(res(got, gerr))))
			}
		}
		if allModel {
			// pipe_encode against StreamDict.Encode
			e, eerr := guard(func() ([]byte, error) {
				sd := types.NewStreamDict(types.NewDict(), 0, nil, nil, pl)
				sd.Content = d
				if err := sd.Encode(); err != nil {
					return nil, err
				}
				return sd.Raw, nil
			})
			r.Case("pipe_encode", []string{strings.Join(mnames, ","), vh.Hex(d)}, res(e, eerr))
		}
	}
}

func main() {
	r = vh.Start("C16")
	defer r.Finish()
	data := genData()
	sectionLimitAndCopy()
	sectionAHxRL(data)
	sectionStreamFilters(data)
	sectionPredictor()
	sectionPipelines(data)
}
