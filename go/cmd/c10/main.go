package main

import (
	"bytes"
	"context"
	"errors"
	"fmt"
	"os"
	"runtime"
	"strings"
	"time"

	"github.com/pdfcpu/pdfcpu/pkg/api"
	"github.com/pdfcpu/pdfcpu/pkg/pdfcpu"
	"github.com/pdfcpu/pdfcpu/pkg/pdfcpu/model"
)

type cctx struct {
	context.Context
	k     int
	n     int
	sites []string
	rec   bool
	flipT time.Time
}

func (c *cctx) Err() error {
	i := c.n
	c.n++
	if c.rec {
		pcs := make([]uintptr, 24)
		m := runtime.Callers(2, pcs)
		fr := runtime.CallersFrames(pcs[:m])
		var st []string
		for {
			f, more := fr.Next()
			fn := f.Function
			if j := strings.LastIndex(fn, "."); j >= 0 {
				fn = fn[j+1:]
			}
			if fn == "main" || fn == "ReadWithContext" {
				break
			}
			st = append(st, fmt.Sprintf("%s:%d", fn, f.Line))
			if !more {
				break
			}
		}
		c.sites = append(c.sites, strings.Join(st, "<"))
	}
	if c.k >= 0 && i >= c.k {
		if i == c.k {
			c.flipT = time.Now()
		}
		return context.Canceled
	}
	return nil
}

func main() {
	api.DisableConfigDir()
	f := os.Args[1]
	b, _ := os.ReadFile(f)
	if strings.HasPrefix(f, "gen:") {
		var n int
		fmt.Sscanf(f, "gen:%d", &n)
		b = genXRefStreamDoc(n)
		os.WriteFile("/tmp/C10-scratch/gen.pdf", b, 0o644)
	}
	conf := model.NewDefaultConfiguration()
	if len(os.Args) > 2 && os.Args[2] == "strict" {
		conf.ValidationMode = model.ValidationStrict
	}
	c := &cctx{Context: context.Background(), k: -1, rec: os.Getenv("SITES") != ""}
	_, err := pdfcpu.ReadWithContext(c, bytes.NewReader(b), conf)
	total := c.n
	if c.rec {
		m := map[string]int{}
		for _, s := range c.sites {
			m[s]++
		}
		for s, n := range m {
			fmt.Println("SITE", n, s)
		}
		return
	}
	fmt.Println("total", total, err)
	maxExtra := 0
	kmax := total
	if kmax > 40 {
		kmax = 40
	}
	t0 := time.Now()
	pdfcpu.ReadWithContext(context.Background(), bytes.NewReader(b), conf)
	fmt.Println("full read", time.Since(t0))
	for k := 0; k <= kmax; k++ {
		c := &cctx{Context: context.Background(), k: k, rec: true}
		ctx, err := pdfcpu.ReadWithContext(c, bytes.NewReader(b), conf)
		el := time.Since(c.flipT)
		extra := c.n - k - 1
		if extra > maxExtra {
			maxExtra = extra
		}
		if extra > 0 || !errors.Is(err, context.Canceled) || ctx != nil {
			fmt.Println("k", k, "extra", extra, "err", err, ctx != nil, el)
			if k < len(c.sites) {
				for _, s := range c.sites[k:min(len(c.sites), k+6)] {
					fmt.Println("    ", s)
				}
			}
		}
	}
	fmt.Println("maxExtra", maxExtra)
}

// genXRefStreamDoc builds a PDF with n filler objects (uncompressed) and an uncompressed xref stream.
func genXRefStreamDoc(n int) []byte {
	var w bytes.Buffer
	w.WriteString("%PDF-1.7\n%\xe2\xe3\xcf\xd3\n")
	offs := []int{0}
	obj := func(body string) {
		offs = append(offs, w.Len())
		fmt.Fprintf(&w, "%d 0 obj\n%s\nendobj\n", len(offs)-1, body)
	}
	obj("<</Type/Catalog/Pages 2 0 R>>")
	obj("<</Type/Pages/Kids[3 0 R]/Count 1>>")
	obj("<</Type/Page/Parent 2 0 R/MediaBox[0 0 200 200]>>")
	for i := 0; i < n; i++ {
		obj(fmt.Sprintf("<</K %d/V(filler)>>", i))
	}
	xoff := w.Len()
	nr := len(offs)
	var data bytes.Buffer
	data.Write([]byte{0, 0, 0, 0, 0, 0xff, 0xff})
	for i := 1; i < nr; i++ {
		o := offs[i]
		data.Write([]byte{1, byte(o >> 24), byte(o >> 16), byte(o >> 8), byte(o), 0, 0})
	}
	data.Write([]byte{1, byte(xoff >> 24), byte(xoff >> 16), byte(xoff >> 8), byte(xoff), 0, 0})
	fmt.Fprintf(&w, "%d 0 obj\n<</Type/XRef/Size %d/W[1 4 2]/Root 1 0 R/Length %d>>\nstream\n", nr, nr+1, data.Len())
	w.Write(data.Bytes())
	w.WriteString("\nendstream\nendobj\nstartxref\n")
	fmt.Fprintf(&w, "%d\n%%%%EOF\n", xoff)
	return w.Bytes()
}
