(* C34: 8-up long edge (nup8OutputPageNr = nupLRTB after a re-ordering inside blocks of four)
   and perfect binding (a permutation inside every sheet). *)
From PV Require Import Lib.GoInt Lib.GoIntFacts C34.Generated C34.Model C34.ProofsBase C34.ProofsPos.
From Coq Require Import Lia ZifyBool Permutation.
Open Scope Z_scope.
Ltac Zify.zify_post_hook ::= Z.to_euclidean_division_equations.

(* ---- 8-up, long edge *)
Definition r8 (i : Z) : Z :=
  let lp := if (i / 8) mod 2 =? 0
            then (if i mod 4 =? 0 then 1 else if i mod 4 =? 1 then 2 else if i mod 4 =? 2 then 0 else 3)
            else (if i mod 4 =? 0 then 3 else if i mod 4 =? 1 then 0 else if i mod 4 =? 2 then 2 else 1) in
  lp + i / 4 * 4.

Definition p8 (n i : Z) : Z := pLRTB 8 n (r8 i).

Lemma fst_let_pair (X : Z * bool) (r : bool) : fst (let '(a, _) := X in (a, r)) = fst X.
Proof. destruct X; reflexivity. Qed.

Lemma r8_range n i : n mod 16 = 0 -> 0 <= i < n -> 0 <= r8 i < n.
Proof. intros Hn Hi. unfold r8. cbv zeta. split_ifs; lia. Qed.

Lemma r8_inj i j : 0 <= i -> 0 <= j -> r8 i = r8 j -> i = j.
Proof. intros Hi Hj. unfold r8. cbv zeta. split_ifs; lia. Qed.

Lemma nup8_idx IW i n pages bt ls tf : fits IW n -> n mod 16 = 0 -> 0 <= i < n ->
  fst (nup8OutputPageNr IW i n pages bt ls 8 tf) = getPage pages (p8 n i).
Proof.
  intros Hf Hn16 Hi. pose proof Hf as Hf'. start_idx IW Hf.
  unfold nup8OutputPageNr. cbv beta zeta.
  unwrap IW. rewrite !fst_if. rewrite !fst_let_pair.
  unfold p8, r8. cbv zeta.
  split_ifs; try (rewrite nupLRTB_idx by (try assumption; try lia; right; reflexivity); f_equal; f_equal; lia).
Qed.

Lemma p8_range n i : n mod 16 = 0 -> 0 <= i < n -> 0 <= p8 n i < n.
Proof. intros Hn Hi. unfold p8. apply pLRTB8_range; [assumption|]. apply r8_range; assumption. Qed.

Lemma p8_inj n i j : n mod 16 = 0 -> 0 <= i < n -> 0 <= j < n -> p8 n i = p8 n j -> i = j.
Proof.
  intros Hn Hi Hj He. unfold p8 in He. apply pLRTB8_inj in He; [|assumption|apply r8_range; assumption|apply r8_range; assumption].
  apply r8_inj; [lia|lia|assumption].
Qed.

(* ---- perfect bound *)
Definition pPB (N : Z) (ls : bool) (n i : Z) : Z :=
  let s := i / (2 * N) in
  if (i / N) mod 2 =? 0 then s * (2 * N) + 2 * (i mod (2 * N))
  else
    let p := s * (2 * N) + 2 * ((i - N) mod (2 * N)) + 2 in
    (if (N =? 4) || (N =? 6) || (N =? 8) then
       (if (N =? 4) && ls then (if i mod N <? 2 then p + 4 else p - 4)
        else (if i mod 2 =? 0 then p + 2 else p - 2))
     else p) - 1.

Lemma nupPB_idx IW i n pages bt ls nn tf : fits IW n -> 0 <= i < n -> nn = 2 \/ nn = 4 \/ nn = 6 \/ nn = 8 ->
  fst (nupPerfectBound IW i n pages bt ls nn tf) = getPage pages (pPB nn ls n i).
Proof.
  intros Hf Hi HN. start_idx IW Hf.
  unfold nupPerfectBound. cbv beta zeta. rewrite !getPageNumber_getPage.
  destruct HN as [-> | [-> | [-> | ->]]];
    change (2 * 2) with 4; change (2 * 4) with 8; change (2 * 6) with 12; change (2 * 8) with 16;
    cbn [Z.eqb Pos.eqb orb andb];
    unwrap IW; unfold pPB; cbv zeta; cbn [Z.eqb Pos.eqb orb andb]; rewrite ?fst_if; cbn [fst];
    destruct ls; cbn [orb andb]; split_ifs; try reflexivity; f_equal; lia.
Qed.

Lemma pPB_range N ls n i : N = 2 \/ N = 4 \/ N = 6 \/ N = 8 -> n mod (2 * N) = 0 -> 0 <= i < n -> 0 <= pPB N ls n i < n.
Proof.
  intros HN Hn Hi. unfold pPB. cbv zeta.
  destruct HN as [-> | [-> | [-> | ->]]]; cbn [Z.eqb Pos.eqb orb andb]; destruct ls; cbn [orb andb]; split_ifs; lia.
Qed.

Lemma pPB_inj N ls n i j : N = 2 \/ N = 4 \/ N = 6 \/ N = 8 -> n mod (2 * N) = 0 -> 0 <= i < n -> 0 <= j < n ->
  pPB N ls n i = pPB N ls n j -> i = j.
Proof.
  intros HN Hn Hi Hj. unfold pPB. cbv zeta.
  destruct HN as [-> | [-> | [-> | ->]]]; cbn [Z.eqb Pos.eqb orb andb]; destruct ls; cbn [orb andb]; split_ifs; lia.
Qed.
