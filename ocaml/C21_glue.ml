(* C21 glue.  page tree on the wire:  tree := L<hexid> | ( tree* )   tokens separated by spaces.
   "trim" tree sel | "remove" tree sel | "collect" tree sel | "write" tree sel | "insert" tree sel before
   -> <ids, comma separated hex>|count=<hex root count> *)
open Model
open Common

let kType = bytes_of_hex "54797065"
let kPage = bytes_of_hex "50616765"
let kPages = bytes_of_hex "5061676573"
let kMediaBox = bytes_of_hex "4d65646961426f78"
let box = OArr [OInt (z_of_int 0); OInt (z_of_int 0); OInt (z_of_int 100); OInt (z_of_int 100)]
let leaf_dict = [(kType, OName kPage); (kMediaBox, box)]
let node_dict = [(kType, OName kPages)]

let rest s = String.sub s 1 (String.length s - 1)
let toks s = List.filter (fun x -> x <> "") (String.split_on_char ' ' s)

let rec parse_tree (ts : string list) : ptree * string list =
  match ts with
  | "(" :: r -> let (kids, r') = parse_kids r [] in (PNode (node_dict, kids), r')
  | t :: r when String.length t > 0 && t.[0] = 'L' -> (PLeaf (n_of_hex (rest t), leaf_dict), r)
  | _ -> failwith "tree"
and parse_kids ts acc =
  match ts with
  | ")" :: r -> (List.rev acc, r)
  | _ -> let (t, r) = parse_tree ts in parse_kids r (t :: acc)

let tree_of_string s = match parse_tree (toks s) with (t, []) -> t | _ -> failwith "trailing"
let sel_of_string s = List.map (fun z -> n_of_hex (hex_of_z z)) (zlist_of_string s)

let show (t : ptree) : string =
  (* the result must also pass the structural core *)
  let ok = tree_ok false t in
  String.concat "," (List.map hex_of_n (ids t)) ^ "|count=" ^ hex_of_z (root_count t) ^ (if ok then "" else "|INVALID")

let dispatch fn args = match fn, args with
  | "trim", [t; s] -> show (op_trim (sel_of_string s) (tree_of_string t))
  | "remove", [t; s] -> show (op_remove (sel_of_string s) (tree_of_string t))
  | "collect", [t; s] -> show (op_collect (sel_of_string s) (tree_of_string t))
  | "write", [t; _] -> show (op_write (tree_of_string t))
  | "insert", [t; s; b] -> show (op_insert (bool_of_str b) (sel_of_string s) (tree_of_string t))
  | "versions", [ensured; h; r] ->
    (* header and catalog version as 10*major+minor (hex), r = "-" for none *)
    let root = if r = "-" then None else Some (n_of_hex r) in
    let (h', r') = write_versions (bool_of_str ensured) (n_of_hex h) root in
    "header=" ^ hex_of_n h' ^ " root=" ^ (match r' with None -> "-" | Some v -> hex_of_n v)
  | _ -> failwith ("unknown function " ^ fn)
let () = main dispatch
