(* C01 — the generated table of file-writing functions (Generated.v, from the Go sources on every run)
   tied to the keys of the model. *)
From Coq Require Import String List Bool.
From PV Require Import C01.FS C01.Model C01.Proofs C01.Table C01.Generated.
Import ListNotations.
Open Scope string_scope.

(* the model key that a syntactic classification stands for *)
Definition key_of_dkey (d : dkey) : option key :=
  match d with
  | DFlag => Some KFlag
  | DErr => Some KErr
  | DNoDefer => Some KNone
  | DShadowedErr => Some KAlways
  | DRollbackFirst | DReleaseAlways | DRemovesStaging | DNA => None
  end.

(* one output file, written through one staging helper *)
Definition single_output (r : frow) : bool :=
  match f_helper r with
  | HStaged | HPdfStaged | HCut | HNewFile => true
  | HMulti | HMultiRollback | HMultiReserve | HStagingCtor | HReadOnly | HInPlace => false
  end.

Definition name_in (l : list (string * string)) (r : frow) : bool :=
  existsb (fun pn => String.eqb (fst pn) (f_pkg r) && String.eqb (snd pn) (f_name r)) l.

(* Functions whose commit/cleanup decision is not deferred (DNoDefer): nothing runs when their body
   panics, so a panic leaves the staging file (or the reserved new output) behind.  For WriteReader / Write
   the only panic source inside the body is the caller's io.Reader; CopyFile copies from an *os.File.
   Every other single-output function must be keyed on a completion flag. *)
Definition panic_unsafe : list (string * string) :=
  [ ("pdfcpu", "WriteReader"); ("pdfcpu", "CopyFile"); ("pdfcpu", "Write");
    ("api", "writeMultiFillOutputWith"); ("api", "writeAttachmentToPath") ].
(* no function is unsafe when the body just returns an error *)
Definition error_unsafe : list (string * string) := [].

Definition row_flag_ok (r : frow) : bool :=
  implb (single_output r && negb (name_in panic_unsafe r)) (dkey_eqb (f_key r) DFlag).
Definition row_fault_ok (r : frow) : bool :=
  implb (single_output r && negb (name_in error_unsafe r))
        (dkey_eqb (f_key r) DFlag || dkey_eqb (f_key r) DErr || dkey_eqb (f_key r) DNoDefer).

Lemma dkey_eqb_eq a b : dkey_eqb a b = true -> a = b.
Proof. destruct a, b; cbn; intros H; try reflexivity; discriminate H. Qed.

Lemma all_file_functions_safe_proof :
  forall r, In r table -> single_output r = true -> name_in panic_unsafe r = false ->
  key_of_dkey (f_key r) = Some KFlag /\ forall fin, safe_for KFlag fin.
Proof.
  assert (Hall : forallb row_flag_ok table = true) by (vm_compute; reflexivity).
  intros r Hin Hs Hn. rewrite forallb_forall in Hall. specialize (Hall r Hin).
  unfold row_flag_ok in Hall. rewrite Hs, Hn in Hall. cbn in Hall.
  apply dkey_eqb_eq in Hall. rewrite Hall. split; [reflexivity|]. intros fin. left. reflexivity.
Qed.

Lemma all_file_functions_fault_safe_proof :
  forall r, In r table -> single_output r = true ->
  exists k, key_of_dkey (f_key r) = Some k /\ forall fin, fin <> CPanic -> safe_for k fin.
Proof.
  assert (Hall : forallb row_fault_ok table = true) by (vm_compute; reflexivity).
  intros r Hin Hs. rewrite forallb_forall in Hall. specialize (Hall r Hin).
  unfold row_fault_ok in Hall. rewrite Hs in Hall. cbn in Hall.
  apply orb_true_iff in Hall. destruct Hall as [Hall|Hall]; [apply orb_true_iff in Hall; destruct Hall as [Hall|Hall]|];
    apply dkey_eqb_eq in Hall; rewrite Hall; eexists; (split; [reflexivity|]); intros fin Hf.
  - left. reflexivity.
  - right. split; [discriminate|exact Hf].
  - right. split; [discriminate|exact Hf].
Qed.

(* the form multi-fill transactions: both register their rollback before the record loop, and the record
   writer they share is an error- and fault-safe stagedOutput user (not deferred: KNone) *)
Definition is_tx (r : frow) : bool := helper_eqb (f_helper r) HMultiRollback.
Lemma multi_fill_rows_proof :
  (forall r, In r table -> is_tx r = true -> f_key r = DRollbackFirst) /\
  existsb (fun r => String.eqb (f_name r) "multiFillFormJSONWith" && is_tx r) table = true /\
  existsb (fun r => String.eqb (f_name r) "multiFillFormCSVWith" && is_tx r) table = true /\
  (forall r, In r table -> f_name r = "writeMultiFillOutputWith" ->
     exists k, key_of_dkey (f_key r) = Some k /\ k <> KAlways /\ forall fin, fin <> CPanic -> safe_for k fin).
Proof.
  split; [|split; [vm_compute; reflexivity|split; [vm_compute; reflexivity|]]].
  - assert (Hall : forallb (fun r => implb (is_tx r) (dkey_eqb (f_key r) DRollbackFirst)) table = true) by (vm_compute; reflexivity).
    intros r Hin Htx. rewrite forallb_forall in Hall. specialize (Hall r Hin). rewrite Htx in Hall. cbn in Hall.
    apply dkey_eqb_eq. exact Hall.
  - assert (Hall : forallb (fun r => implb (String.eqb (f_name r) "writeMultiFillOutputWith")
                                        (dkey_eqb (f_key r) DFlag || dkey_eqb (f_key r) DErr || dkey_eqb (f_key r) DNoDefer)) table = true)
      by (vm_compute; reflexivity).
    intros r Hin Hname. rewrite forallb_forall in Hall. specialize (Hall r Hin). rewrite Hname in Hall. cbn in Hall.
    apply orb_true_iff in Hall. destruct Hall as [Hall|Hall]; [apply orb_true_iff in Hall; destruct Hall as [Hall|Hall]|];
      apply dkey_eqb_eq in Hall; rewrite Hall; eexists; (split; [reflexivity|]); (split; [discriminate|]); intros fin Hf.
    + left. reflexivity.
    + right. split; [discriminate|exact Hf].
    + right. split; [discriminate|exact Hf].
Qed.

(* attachment extraction: the reserving function hands the reservations made so far to its caller on every
   error return and the caller releases them (checked by genc01, which fails otherwise); the per-attachment
   writer is an error- and fault-safe stagedOutput user *)
Lemma attachment_rows_proof :
  existsb (fun r => String.eqb (f_name r) "writeAttachments" && helper_eqb (f_helper r) HMultiReserve
                    && dkey_eqb (f_key r) DReleaseAlways) table = true /\
  (forall r, In r table -> helper_eqb (f_helper r) HMultiReserve = true -> f_key r = DReleaseAlways) /\
  (forall r, In r table -> f_name r = "writeAttachmentToPath" ->
     exists k, key_of_dkey (f_key r) = Some k /\ k <> KAlways /\ forall fin, fin <> CPanic -> safe_for k fin).
Proof.
  split; [vm_compute; reflexivity|split].
  - assert (Hall : forallb (fun r => implb (helper_eqb (f_helper r) HMultiReserve) (dkey_eqb (f_key r) DReleaseAlways)) table = true)
      by (vm_compute; reflexivity).
    intros r Hin Hh. rewrite forallb_forall in Hall. specialize (Hall r Hin). rewrite Hh in Hall. cbn in Hall.
    apply dkey_eqb_eq. exact Hall.
  - assert (Hall : forallb (fun r => implb (String.eqb (f_name r) "writeAttachmentToPath")
                                        (dkey_eqb (f_key r) DFlag || dkey_eqb (f_key r) DErr || dkey_eqb (f_key r) DNoDefer)) table = true)
      by (vm_compute; reflexivity).
    intros r Hin Hname. rewrite forallb_forall in Hall. specialize (Hall r Hin). rewrite Hname in Hall. cbn in Hall.
    apply orb_true_iff in Hall. destruct Hall as [Hall|Hall]; [apply orb_true_iff in Hall; destruct Hall as [Hall|Hall]|];
      apply dkey_eqb_eq in Hall; rewrite Hall; eexists; (split; [reflexivity|]); (split; [discriminate|]); intros fin Hf.
    + left. reflexivity.
    + right. split; [discriminate|exact Hf].
    + right. split; [discriminate|exact Hf].
Qed.

(* the staging-file constructor: every error return after the staging file exists removes f.Name(), never
   the destination (checked by genc01): `create_staged_file` in Model.v is its model *)
Lemma create_staged_file_row_proof :
  existsb (fun r => String.eqb (f_name r) "createStagedFile" && helper_eqb (f_helper r) HStagingCtor
                    && dkey_eqb (f_key r) DRemovesStaging) table = true.
Proof. vm_compute. reflexivity. Qed.

(* the table is not empty and contains the anchored functions *)
Lemma table_nonvacuous_proof :
  existsb (fun r => String.eqb (f_name r) "TrimFile" && dkey_eqb (f_key r) DFlag) table = true /\
  existsb (fun r => String.eqb (f_name r) "MergeAppendFile" && dkey_eqb (f_key r) DFlag) table = true /\
  existsb (fun r => String.eqb (f_name r) "writeCutOutputWith" && dkey_eqb (f_key r) DFlag) table = true /\
  existsb (fun r => String.eqb (f_name r) "WriteContext" && dkey_eqb (f_key r) DFlag) table = true /\
  existsb (fun r => String.eqb (f_name r) "MergeCreateFile" && dkey_eqb (f_key r) DFlag) table = true /\
  60 <= length (filter single_output table).
Proof. vm_compute. repeat split; try reflexivity. repeat constructor. Qed.
