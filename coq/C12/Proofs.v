(* C12 — proofs over the model of string.go (Escape/Unescape, EncodeName/DecodeName)
   and of the literal-string scanner of parse.go. *)
From Coq Require Import NArith ZArith List Bool Lia ZifyBool ZifyNat ZifyN.
From PV Require Import Lib.GoInt C12.Model.
Import ListNotations.
Open Scope N_scope.
Ltac Zify.zify_post_hook ::= Z.div_mod_to_equations.

(* ================================================================ Escape / Unescape *)

Lemma revl_rev l : revl l = rev l.
Proof. unfold revl. rewrite rev_append_rev. apply app_nil_r. Qed.

Definition clean (s : ust) : Prop := esc s = false /\ longEol s = false /\ octal s = [].

Lemma urun_app s a b :
  urun s (a ++ b) = match urun s a with Some s' => urun s' b | None => None end.
Proof.
  revert s; induction a as [|c a IH]; intros s; cbn [urun app]; [reflexivity|].
  destruct (ustep s c); auto.
Qed.

(* one source byte: from a clean state, its escape sequence is consumed, leaves a
   clean state and appends exactly that byte *)
Lemma urun_esc1 s c : clean s ->
  exists s', urun s (esc1 c) = Some s' /\ clean s' /\ out s' = c :: out s.
Proof.
  intros (He & Hl & Ho). destruct s as [e l o ou]; cbn in He, Hl, Ho; subst.
  unfold esc1.
  repeat match goal with |- context[if ?b then _ else _] =>
     let E := fresh "E" in destruct b eqn:E end;
  repeat match goal with H: (_ =? _) = true |- _ => apply N.eqb_eq in H; subst end;
  try (eexists; split; [vm_compute; reflexivity| split; [repeat split|reflexivity]]).
  - (* \ ( ) *)
    match goal with H : (_ || _) = true |- _ =>
      apply orb_true_iff in H; destruct H as [H|H]; [apply orb_true_iff in H; destruct H as [H|H]|];
      apply N.eqb_eq in H; subst end;
    eexists; (split; [vm_compute; reflexivity| split; [repeat split|reflexivity]]).
  - (* any other byte is a regular character *)
    match goal with H : (_ || _) = false |- _ =>
      apply orb_false_iff in H; destruct H as [H _]; apply orb_false_iff in H; destruct H as [H92 _] end.
    cbn [urun]. unfold ustep. cbn [longEol octal esc out].
    rewrite H92. cbn [negb andb]. eexists; split; [reflexivity|]. split; [repeat split|reflexivity].
Qed.

Lemma urun_escape s : forall st0, clean st0 ->
  exists st1, urun st0 (Escape s) = Some st1 /\ clean st1 /\ out st1 = rev s ++ out st0.
Proof.
  unfold Escape. induction s as [|c s IH]; intros st0 Hcl.
  - exists st0. cbn. auto.
  - cbn [flat_map]. rewrite urun_app.
    destruct (urun_esc1 st0 c Hcl) as (s1 & R1 & C1 & O1). rewrite R1.
    destruct (IH s1 C1) as (s2 & R2 & C2 & O2). exists s2. split; [exact R2|]. split; [exact C2|].
    rewrite O2, O1. cbn [rev]. rewrite <- app_assoc. reflexivity.
Qed.

Theorem unescape_escape s : Unescape (Escape s) = Ok s.
Proof.
  unfold Unescape.
  destruct (urun_escape s uinit) as (s1 & R1 & (_ & _ & Ho) & O1); [repeat split|].
  rewrite R1. unfold ufinish. rewrite revl_rev, Ho, O1. cbn [out uinit].
  rewrite app_nil_r, rev_involutive. reflexivity.
Qed.

(* the "illegal \ in octal code sequence" error of Unescape is unreachable *)
Lemma ustep_total s c : exists s', ustep s c = R s'.
Proof.
  destruct s as [e l o ou]. unfold ustep. cbn [esc longEol octal out].
  repeat (match goal with
    | |- context[match ?o with [] => _ | _ :: _ => _ end] => destruct o
    | |- context[let '(_, _) := escaped ?c in _] => destruct (escaped c)
    | |- context[if ?b then _ else _] => destruct b
    end; cbn [esc longEol octal out negb andb]);
  eexists; reflexivity.
Qed.

Theorem unescape_total l : exists b, Unescape l = Ok b.
Proof.
  unfold Unescape. generalize uinit. induction l as [|c l IH]; intros s; cbn [urun].
  - eexists; reflexivity.
  - destruct (ustep_total s c) as (s' & E). rewrite E. apply IH.
Qed.

(* ------------------------------------------------ escaped parentheses / scanner *)

Lemma parensEscaped_esc1 c tail :
  parensEscaped false (esc1 c ++ tail) = parensEscaped false tail.
Proof.
  unfold esc1.
  repeat match goal with |- context[if ?b then _ else _] =>
     let E := fresh "E" in destruct b eqn:E end; try reflexivity.
  match goal with H : (_ || _) = false |- _ =>
    apply orb_false_iff in H; destruct H as [H H41]; apply orb_false_iff in H; destruct H as [H92 H40] end.
  cbn [app parensEscaped]. rewrite H92, H40, H41. reflexivity.
Qed.

Theorem escape_parens_escaped s : parensEscaped false (Escape s) = true.
Proof.
  unfold Escape. induction s as [|c s IH]; [reflexivity|].
  cbn [flat_map]. rewrite parensEscaped_esc1. exact IH.
Qed.

(* the scanner, positioned inside the literal (nesting j, not escaped), steps over
   the escape sequence of one byte without changing j *)
Lemma balLoop_esc1 c i j tail : (j <> 0)%Z ->
  balLoop i j false (esc1 c ++ tail) = balLoop (i + Z.of_nat (length (esc1 c)))%Z j false tail.
Proof.
  intros Hj. unfold esc1.
  repeat match goal with |- context[if ?b then _ else _] =>
     let E := fresh "E" in destruct b eqn:E end;
  try (cbn [app balLoop length negb andb N.eqb Pos.eqb]; f_equal; lia).
  match goal with H : (_ || _) = false |- _ =>
    apply orb_false_iff in H; destruct H as [H H41]; apply orb_false_iff in H; destruct H as [H92 H40] end.
  cbn [app balLoop length negb andb]. rewrite H92, H40, H41. cbn [andb].
  destruct (j =? 0)%Z eqn:Ej; [lia|]. f_equal.
Qed.

Lemma balLoop_escape s : forall i j tail, (j <> 0)%Z ->
  balLoop i j false (Escape s ++ tail) = balLoop (i + Z.of_nat (length (Escape s)))%Z j false tail.
Proof.
  unfold Escape. induction s as [|c s IH]; intros i j tail Hj.
  - cbn. f_equal. lia.
  - cbn [flat_map]. rewrite <- app_assoc, balLoop_esc1 by exact Hj.
    rewrite IH by exact Hj. rewrite app_length. f_equal. lia.
Qed.

Theorem balanced_prefix_escape s rest :
  balancedParenthesesPrefix (40 :: Escape s ++ 41 :: rest) = (Z.of_nat (length (Escape s)) + 1)%Z.
Proof.
  unfold balancedParenthesesPrefix. cbn [balLoop negb andb N.eqb Pos.eqb Z.eqb Z.add Z.sub].
  rewrite balLoop_escape by lia.
  replace (Z.of_nat (length (Escape s)) + 1)%Z with (1 + Z.of_nat (length (Escape s)))%Z by lia.
  generalize (1 + Z.of_nat (length (Escape s)))%Z. intros i. reflexivity.
Qed.

Lemma firstn_app_exact {A} (a b : list A) : firstn (length a) (a ++ b) = a.
Proof. induction a as [|x a IH]; cbn; [destruct b; reflexivity | now rewrite IH]. Qed.
Lemma skipn_app_exact {A} (a b : list A) : skipn (length a) (a ++ b) = b.
Proof. induction a as [|x a IH]; cbn; auto. Qed.

(* what the literal-string parser relies on: "(" Escape s ")" rest is split exactly at
   the closing parenthesis written by the writer, whatever follows *)
Theorem parse_escape s rest :
  parseStringLiteral (40 :: Escape s ++ 41 :: rest) = Ok (Escape s, rest).
Proof.
  assert (Hgen : forall t l, t = Escape s ++ 41 :: rest -> l = 40 :: t ->
            parseStringLiteral l =
            if (balancedParenthesesPrefix l <? 0)%Z then Err
            else Ok (skipn 1 (firstn (Z.to_nat (balancedParenthesesPrefix l)) l),
                     skipn (Z.to_nat (balancedParenthesesPrefix l) + 1) l)).
  { intros t l Ht ->. destruct t as [|x y]; [destruct (Escape s); discriminate|]. reflexivity. }
  rewrite (Hgen _ _ eq_refl eq_refl). clear Hgen.
  rewrite balanced_prefix_escape.
  set (e := Escape s).
  destruct (Z.of_nat (length e) + 1 <? 0)%Z eqn:E; [lia|].
  replace (Z.to_nat (Z.of_nat (length e) + 1)) with (length (40 :: e)) by (cbn [length]; lia).
  replace (40 :: e ++ 41 :: rest) with ((40 :: e) ++ 41 :: rest) by reflexivity.
  rewrite firstn_app_exact.
  replace (length (cons 40%N e) + 1)%nat with (length ((40 :: e) ++ [41])) by (rewrite app_length; reflexivity).
  replace ((40 :: e) ++ 41 :: rest) with (((40 :: e) ++ [41]) ++ rest) by (rewrite <- app_assoc; reflexivity).
  rewrite skipn_app_exact. reflexivity.
Qed.

(* ================================================================ EncodeName / DecodeName *)

(* specification of the encoder, independent of the `replaced` optimisation *)
Definition enc1 (c : N) : bytes :=
  if needsHexSequence c then [35; hexdig (c / 16); hexdig (c mod 16)] else [c].
Definition encSpec (s : bytes) : bytes := flat_map enc1 s.

Lemma encLoop_spec l : forall preR rep sbR,
  (rep = false -> sbR = []) ->
  let '(rep', sbR') := encLoop preR rep sbR l in
  (rep = true -> rep' = true /\ rev sbR' = rev sbR ++ encSpec l) /\
  (rep = false -> (rep' = false /\ encSpec l = l) \/ (rep' = true /\ rev sbR' = rev preR ++ encSpec l)).
Proof.
  induction l as [|ch r IH]; intros preR rep sbR Hinv; cbn [encLoop].
  - split; intros Hr.
    + split; [exact Hr|]. cbn. now rewrite app_nil_r.
    + left. split; [exact Hr| reflexivity].
  - unfold encSpec. cbn [flat_map]. fold (encSpec r). unfold enc1.
    destruct (needsHexSequence ch) eqn:En.
    + specialize (IH (ch :: preR) true
        (hexdig (ch mod 16) :: hexdig (ch / 16) :: 35 :: (if rep then sbR else preR ++ sbR))
        ltac:(discriminate)).
      destruct (encLoop _ _ _ r) as [rep' sbR']. destruct IH as [IH _].
      destruct (IH eq_refl) as [Hr' Hs]. split; intros Hr; subst rep.
      * split; [exact Hr'|]. rewrite Hs. cbn [rev]. rewrite <- !app_assoc. reflexivity.
      * right. split; [exact Hr'|]. rewrite Hs, (Hinv eq_refl), app_nil_r. cbn [rev].
        rewrite <- !app_assoc. reflexivity.
    + specialize (IH (ch :: preR) rep (if rep then ch :: sbR else sbR)).
      destruct rep.
      * specialize (IH ltac:(discriminate)).
        destruct (encLoop _ _ _ r) as [rep' sbR']. destruct IH as [IH _].
        destruct (IH eq_refl) as [Hr' Hs]. split; [|discriminate]. intros _.
        split; [exact Hr'|]. rewrite Hs. cbn [rev]. rewrite <- app_assoc. reflexivity.
      * specialize (IH Hinv).
        destruct (encLoop _ _ _ r) as [rep' sbR']. destruct IH as [_ IH].
        split; [discriminate|]. intros _.
        destruct (IH eq_refl) as [[Hr' Hs]|[Hr' Hs]].
        -- left. split; [exact Hr'|]. cbn [app]. now rewrite Hs.
        -- right. split; [exact Hr'|]. rewrite Hs. cbn [rev]. rewrite <- app_assoc. reflexivity.
Qed.

Lemma EncodeName_spec s : EncodeName s = encSpec s.
Proof.
  unfold EncodeName. pose proof (encLoop_spec s [] false [] (fun _ => eq_refl)) as H.
  destruct (encLoop [] false [] s) as [rep' sbR']. destruct H as [_ H].
  destruct (H eq_refl) as [[Hr Hs]|[Hr Hs]]; subst rep'.
  - now rewrite Hs.
  - rewrite revl_rev, Hs. reflexivity.
Qed.

(* hex digit facts *)
Lemma unhex_hexdig v : v < 16 -> unhex (hexdig v) = Some v.
Proof.
  intros Hv. unfold unhex, hexdig.
  destruct (v <? 10) eqn:E.
  - replace ((48 <=? 48 + v) && (48 + v <=? 57)) with true by lia. f_equal. lia.
  - replace ((48 <=? 87 + v) && (87 + v <=? 57)) with false by lia.
    replace ((97 <=? 87 + v) && (87 + v <=? 102)) with true by lia. f_equal. lia.
Qed.

Lemma needsHex_false c : needsHexSequence c = false ->
  c <> 0 /\ (c =? 35) = false /\ regularNameChar c = true.
Proof.
  unfold needsHexSequence, regularNameChar.
  destruct (isDelimiter c) eqn:Ed; cbn [orb negb andb]; [discriminate|].
  destruct (c =? 35) eqn:E35; [discriminate|]. intros H. repeat split; lia.
Qed.

Lemma hexdig_regular v : v < 16 -> isHexDigit (hexdig v) = true.
Proof. intros Hv. unfold isHexDigit. now rewrite unhex_hexdig. Qed.

Lemma N_eqb_0_false c : c <> 0 -> (c =? 0) = false.
Proof. intros; lia. Qed.

(* decoding an encoded string, from any loop state *)
Lemma decLoop_enc s : forall preR rep sbR,
  bytes_ok s = true -> ~ In 0 s -> (rep = false -> sbR = []) ->
  exists rep' sbR', decLoop preR rep sbR (encSpec s) = inr (rep', sbR') /\
  (rep = true -> rep' = true /\ rev sbR' = rev sbR ++ s) /\
  (rep = false -> (rep' = false /\ encSpec s = s) \/ (rep' = true /\ rev sbR' = rev preR ++ s)).
Proof.
  induction s as [|c s IH]; intros preR rep sbR Hok Hnz Hinv.
  - exists rep, sbR. cbn. split; [reflexivity|]. split; intros Hr.
    + split; [exact Hr| now rewrite app_nil_r].
    + left. auto.
  - cbn [bytes_ok forallb] in Hok. apply andb_true_iff in Hok. destruct Hok as [Hc Hok].
    assert (Hc0 : c <> 0) by (intros ->; apply Hnz; left; reflexivity).
    assert (Hnz' : ~ In 0 s) by (intros Hin; apply Hnz; right; exact Hin).
    unfold encSpec. cbn [flat_map]. fold (encSpec s). unfold enc1.
    destruct (needsHexSequence c) eqn:En.
    + cbn [app decLoop N.eqb negb].
      rewrite !unhex_hexdig by lia.
      replace (c / 16 * 16 + c mod 16 =? 0) with false by lia.
      replace (c / 16 * 16 + c mod 16) with c by lia.
      destruct (IH (hexdig (c mod 16) :: hexdig (c / 16) :: 35 :: preR) true
                  (c :: (if rep then sbR else preR ++ sbR)) Hok Hnz' ltac:(discriminate))
        as (rep' & sbR' & Hrun & Ht & _).
      exists rep', sbR'. split; [exact Hrun|].
      destruct (Ht eq_refl) as [Hr' Hs]. split; intros Hr; subst rep.
      * split; [exact Hr'|]. rewrite Hs. cbn [rev]. rewrite <- app_assoc. reflexivity.
      * right. split; [exact Hr'|]. rewrite Hs, (Hinv eq_refl), app_nil_r. cbn [rev].
        rewrite <- app_assoc. reflexivity.
    + destruct (needsHex_false c En) as (_ & E35 & _).
      cbn [app decLoop]. rewrite (N_eqb_0_false c Hc0), E35. cbn [negb].
      destruct rep.
      * destruct (IH (c :: preR) true (c :: sbR) Hok Hnz' ltac:(discriminate))
          as (rep' & sbR' & Hrun & Ht & _).
        exists rep', sbR'. split; [exact Hrun|]. split; [|discriminate]. intros _.
        destruct (Ht eq_refl) as [Hr' Hs]. split; [exact Hr'|]. rewrite Hs. cbn [rev].
        rewrite <- app_assoc. reflexivity.
      * destruct (IH (c :: preR) false sbR Hok Hnz' Hinv) as (rep' & sbR' & Hrun & _ & Hf).
        exists rep', sbR'. split; [exact Hrun|]. split; [discriminate|]. intros _.
        destruct (Hf eq_refl) as [[Hr' Hs]|[Hr' Hs]].
        -- left. split; [exact Hr'|]. cbn [app]. now rewrite Hs.
        -- right. split; [exact Hr'|]. rewrite Hs. cbn [rev]. rewrite <- app_assoc. reflexivity.
Qed.

Theorem decode_encode_name s : bytes_ok s = true -> ~ In 0 s ->
  DecodeName (EncodeName s) = DOk s.
Proof.
  intros Hok Hnz. rewrite EncodeName_spec. unfold DecodeName.
  destruct (decLoop_enc s [] false [] Hok Hnz (fun _ => eq_refl)) as (rep' & sbR' & Hrun & _ & Hf).
  rewrite Hrun. destruct (Hf eq_refl) as [[Hr Hs]|[Hr Hs]]; subst rep'.
  - now rewrite Hs.
  - rewrite revl_rev, Hs. reflexivity.
Qed.

(* the excluded case is really excluded: a NUL byte is encoded as #00, which the
   decoder rejects (string.go:EncodeName "TODO: Handle invalid character 0x00") *)
Lemma decLoop_enc_nul s : forall preR rep sbR,
  bytes_ok s = true -> In 0 s ->
  decLoop preR rep sbR (encSpec s) = inl ENul.
Proof.
  induction s as [|c s IH]; intros preR rep sbR Hok Hin; [destruct Hin|].
  cbn [bytes_ok forallb] in Hok. apply andb_true_iff in Hok. destruct Hok as [Hc Hok].
  unfold encSpec. cbn [flat_map]. fold (encSpec s). unfold enc1.
  destruct (N.eq_dec c 0) as [->|Hc0].
  - reflexivity.
  - assert (Hin' : In 0 s) by (destruct Hin as [E|Hin]; [congruence|exact Hin]).
    destruct (needsHexSequence c) eqn:En.
    + cbn [app decLoop N.eqb negb].
      rewrite !unhex_hexdig by lia.
      replace (c / 16 * 16 + c mod 16 =? 0) with false by lia.
      apply IH; assumption.
    + destruct (needsHex_false c En) as (_ & E35 & _).
      cbn [app decLoop]. rewrite (N_eqb_0_false c Hc0), E35. cbn [negb].
      apply IH; assumption.
Qed.

Theorem decode_encode_name_nul s : bytes_ok s = true -> In 0 s ->
  DecodeName (EncodeName s) = DErr ENul.
Proof.
  intros Hok Hin. rewrite EncodeName_spec. unfold DecodeName.
  now rewrite (decLoop_enc_nul s [] false [] Hok Hin).
Qed.

(* charset of the encoded form *)
Lemma nameWF_enc1 c tail : c < 256 -> nameWF (enc1 c ++ tail) = nameWF tail.
Proof.
  intros Hc. unfold enc1. destruct (needsHexSequence c) eqn:En.
  - cbn [app nameWF N.eqb Pos.eqb]. rewrite !hexdig_regular by lia. reflexivity.
  - destruct (needsHex_false c En) as (_ & E35 & Hreg).
    cbn [app nameWF]. rewrite E35, Hreg. reflexivity.
Qed.

Theorem encode_name_charset s : bytes_ok s = true -> nameWF (EncodeName s) = true.
Proof.
  rewrite EncodeName_spec. unfold encSpec.
  induction s as [|c s IH]; intros Hok; [reflexivity|].
  cbn [bytes_ok forallb] in Hok. apply andb_true_iff in Hok. destruct Hok as [Hc Hok].
  cbn [flat_map]. rewrite nameWF_enc1 by lia. apply IH, Hok.
Qed.

(* nameWF really says what the property text says: every byte is a printable
   non-delimiter, and a '#' is followed by two hex digits *)
Lemma nameWF_bytes l : nameWF l = true ->
  Forall (fun c => 33 <= c <= 126 /\ isDelimiter c = false) l.
Proof.
  revert l.
  enough (H : forall n l, (length l <= n)%nat -> nameWF l = true ->
            Forall (fun c => 33 <= c <= 126 /\ isDelimiter c = false) l)
    by (intros l; apply (H (length l)); lia).
  induction n as [|n IH]; intros l Hlen Hwf.
  - destruct l; [constructor | cbn in Hlen; lia].
  - destruct l as [|c r]; [constructor|]. cbn [nameWF] in Hwf. cbn [length] in Hlen.
    destruct (c =? 35) eqn:E35.
    + destruct r as [|h1 [|h2 r']]; try discriminate.
      apply andb_true_iff in Hwf. destruct Hwf as [Hwf Hr']. apply andb_true_iff in Hwf.
      destruct Hwf as [Hh1 Hh2].
      assert (Hhex : forall h, isHexDigit h = true -> 33 <= h <= 126 /\ isDelimiter h = false).
      { intros h Hh. unfold isHexDigit, unhex in Hh. unfold isDelimiter.
        destruct ((48 <=? h) && (h <=? 57)) eqn:A; [split; lia|].
        destruct ((97 <=? h) && (h <=? 102)) eqn:B; [split; lia|].
        destruct ((65 <=? h) && (h <=? 70)) eqn:C; [split; lia|]. discriminate. }
      cbn [length] in Hlen.
      constructor; [apply N.eqb_eq in E35; subst c; split; [lia|reflexivity]|].
      constructor; [apply Hhex, Hh1|]. constructor; [apply Hhex, Hh2|].
      apply IH; [lia|exact Hr'].
    + apply andb_true_iff in Hwf. destruct Hwf as [Hreg Hr].
      constructor; [|apply IH; [lia|exact Hr]].
      unfold regularNameChar in Hreg. destruct (isDelimiter c); [rewrite andb_false_r in Hreg; discriminate|].
      split; [lia|reflexivity].
Qed.

(* ================================================================ combined statements *)

Lemma literal_roundtrip (s rest : bytes) :
  parseStringLiteral (40 :: Escape s ++ 41 :: rest) = Ok (Escape s, rest)
  /\ Unescape (Escape s) = Ok s.
Proof. split; [apply parse_escape | apply unescape_escape]. Qed.

Lemma encode_name_charset_full (s : bytes) : bytes_ok s = true ->
  nameWF (EncodeName s) = true
  /\ Forall (fun c => 33 <= c <= 126 /\ isDelimiter c = false) (EncodeName s).
Proof.
  intros Hok. pose proof (encode_name_charset s Hok) as H.
  split; [exact H | apply nameWF_bytes, H].
Qed.
