// Synthetic documents for C38: pages with no / single / multiple content streams,
// own / inherited / missing resource dictionaries, optional Flate compression.
package main

import (
	"bytes"
	"compress/zlib"
	"fmt"
	"math/rand"
	"strings"
)

type pageSpec struct {
	Kind    int      // 0 = no /Contents, 1 = single stream (indirect), 2 = array of streams, 3 = direct array inside an indirect array object
	Streams [][]byte // decoded content of each stream
	Res     int      // 0 = own /Resources, 1 = inherited from /Pages, 2 = none anywhere (only legal when the content uses none)
	Flate   bool
}

type docSpec struct {
	Pages []pageSpec
	Tree  *treeNode `json:",omitempty"` // nil = flat page tree (all pages are kids of the root /Pages node)
}

// treeNode: a /Pages node (Leaf < 0) with its kids, or a page (Leaf = index into docSpec.Pages).
// The pages must appear in index order in a left-to-right walk.
type treeNode struct {
	Leaf int
	Kids []*treeNode `json:",omitempty"`
}

func leaf(i int) *treeNode          { return &treeNode{Leaf: i} }
func node(k ...*treeNode) *treeNode { return &treeNode{Leaf: -1, Kids: k} }

// shape renders the kid list of the node, e.g. "((0 1) 2)".
func (t *treeNode) shape() string {
	if t.Leaf >= 0 {
		return fmt.Sprint(t.Leaf)
	}
	s := make([]string, len(t.Kids))
	for i, k := range t.Kids {
		s[i] = k.shape()
	}
	return "(" + strings.Join(s, " ") + ")"
}

func (t *treeNode) count() int {
	if t.Leaf >= 0 {
		return 1
	}
	n := 0
	for _, k := range t.Kids {
		n += k.count()
	}
	return n
}

func (t *treeNode) depth() int {
	if t.Leaf >= 0 {
		return 0
	}
	d := 0
	for _, k := range t.Kids {
		if kd := k.depth(); kd > d {
			d = kd
		}
	}
	return d + 1
}

// genTree builds a random /Pages node over pages lo..hi-1 with at most maxDepth levels of /Pages nodes.
func genTree(rnd *rand.Rand, lo, hi, maxDepth int) *treeNode {
	t := &treeNode{Leaf: -1}
	for lo < hi {
		if maxDepth <= 1 || rnd.Intn(2) == 0 {
			t.Kids = append(t.Kids, leaf(lo))
			lo++
			continue
		}
		n := 1 + rnd.Intn(hi-lo)
		t.Kids = append(t.Kids, genTree(rnd, lo, lo+n, maxDepth-1))
		lo += n
	}
	return t
}

// chain wraps pages lo..hi-1 into d nested single-kid /Pages nodes.
func chain(lo, hi, d int) *treeNode {
	t := &treeNode{Leaf: -1}
	for i := lo; i < hi; i++ {
		t.Kids = append(t.Kids, leaf(i))
	}
	for ; d > 1; d-- {
		t = node(t)
	}
	return t
}

// fixedTrees: the shapes a merge produces and other boundary shapes for n pages (as root nodes).
func fixedTrees(n int) []*treeNode {
	flat := chain(0, n, 1)
	out := []*treeNode{flat}
	if n >= 2 {
		// Kids=[Pages[p1..pk] p(k+1)..pn] and Kids=[p1 Pages[...]] and two merged documents
		out = append(out, node(append([]*treeNode{chain(0, n-1, 1)}, leaf(n-1))...))
		out = append(out, node(leaf(0), chain(1, n, 1)))
		out = append(out, node(chain(0, 1, 1), chain(1, n, 1)))
		out = append(out, node(chain(0, 1, 3), chain(1, n, 1))) // depth 4
	}
	if n >= 3 {
		out = append(out, node(chain(0, 1, 1), leaf(1), chain(2, n, 2)))
		out = append(out, node(node(chain(0, 2, 1), leaf(2)), chain(3, n, 1)))
	}
	return out
}

func (d docSpec) inherits() bool {
	for _, p := range d.Pages {
		if p.Res == 1 {
			return true
		}
	}
	return false
}

const markerStr = "/Artifact <</Subtype /Watermark /Type /Pagination >>BDC"

// content vocabulary: ordinary operators plus fragments that look like parts of a watermark block.
var vocab = []string{
	"q", "Q", "1 0 0 1 10 20 cm", "0.5 g", "1 0 0 RG", "10 10 100 50 re", "f", "S", "n", "W",
	"BT /F1 12 Tf 72 700 Td (Hello) Tj ET", "BT /F1 9 Tf 10 10 Td (EMC BDC q Q) Tj ET",
	"/GS0 gs", "/GS7 gs", "/Fm0 Do", "/Fm3 Do", "/Im1 Do",
	"/OC /MC0 BDC", "EMC", "/Span <</ActualText (x)>> BDC", "BMC",
	"/Artifact <</Subtype /Watermark >>BDC", "/Artifact <</Type /Pagination>> BDC", "/Artifact BMC",
	"/Artifact <</Subtype /Watermark /Type /Pagination>> BDC", // differs from pdfcpu's marker by a space
	"% comment /Artifact", "(EMC) Tj", "0 0 m 100 100 l S", "/Artifact", "<</Subtype /Watermark /Type /Pagination >>BDC",
	"/Artifact <</Subtype /Watermark /Type /Pagination >>BD",
}

var seps = []string{" ", "\n", "\r\n", "  ", "\t", " \n"}

// genContent returns artifact-free content: fragments of the marker may occur, the marker itself never.
func genContent(rnd *rand.Rand, maxTok int) []byte {
	for {
		c := genContent1(rnd, maxTok)
		if !bytes.Contains(c, []byte(markerStr)) {
			return c
		}
	}
}

func genContent1(rnd *rand.Rand, maxTok int) []byte {
	var b bytes.Buffer
	n := rnd.Intn(maxTok + 1)
	switch rnd.Intn(8) {
	case 0:
		b.WriteString(seps[rnd.Intn(len(seps))]) // leading white space
	}
	for i := 0; i < n; i++ {
		b.WriteString(vocab[rnd.Intn(len(vocab))])
		if i < n-1 || rnd.Intn(3) == 0 {
			b.WriteString(seps[rnd.Intn(len(seps))])
		}
	}
	return b.Bytes()
}

func genDocSpec(rnd *rand.Rand, nPages int) docSpec {
	var d docSpec
	inherit := rnd.Intn(3) == 0
	for i := 0; i < nPages; i++ {
		var p pageSpec
		switch k := rnd.Intn(10); {
		case k == 0:
			p.Kind = 0
		case k <= 4:
			p.Kind = 1
			p.Streams = [][]byte{genContent(rnd, 8)}
		default:
			p.Kind = 2
			if rnd.Intn(6) == 0 {
				p.Kind = 3
			}
			n := 1 + rnd.Intn(4)
			if rnd.Intn(4) != 0 && n == 1 {
				n = 2
			}
			for j := 0; j < n; j++ {
				p.Streams = append(p.Streams, genContent(rnd, 5))
			}
		}
		if inherit && rnd.Intn(3) != 0 {
			p.Res = 1
		}
		p.Flate = rnd.Intn(2) == 0
		d.Pages = append(d.Pages, p)
	}
	return d
}

func streamObj(content []byte, flate bool) string {
	if flate {
		var zb bytes.Buffer
		zw := zlib.NewWriter(&zb)
		zw.Write(content)
		zw.Close()
		return fmt.Sprintf("<< /Length %d /Filter /FlateDecode >>\nstream\n%s\nendstream", zb.Len(), zb.String())
	}
	return fmt.Sprintf("<< /Length %d >>\nstream\n%s\nendstream", len(content), string(content))
}

const resDictStr = "<< /Font << /F1 4 0 R >> /ExtGState << /GS0 5 0 R /GS7 5 0 R >> /XObject << /Fm0 6 0 R /Fm3 6 0 R /Im1 6 0 R >> /Properties << /MC0 7 0 R >> >>"

// buildPDF writes a classic-xref PDF 1.7 for the spec.
func buildPDF(d docSpec) []byte {
	objs := map[int]string{}
	next := 10
	alloc := func() int { next++; return next }
	var pageObjs []int
	for _, p := range d.Pages {
		pg := alloc()
		pageObjs = append(pageObjs, pg)
		contents := ""
		switch p.Kind {
		case 1:
			c := alloc()
			objs[c] = streamObj(p.Streams[0], p.Flate)
			contents = fmt.Sprintf(" /Contents %d 0 R", c)
		case 2, 3:
			var refs []string
			for _, s := range p.Streams {
				c := alloc()
				objs[c] = streamObj(s, p.Flate)
				refs = append(refs, fmt.Sprintf("%d 0 R", c))
			}
			if p.Kind == 2 {
				contents = " /Contents [" + strings.Join(refs, " ") + "]"
			} else {
				a := alloc()
				objs[a] = "[" + strings.Join(refs, " ") + "]"
				contents = fmt.Sprintf(" /Contents %d 0 R", a)
			}
		}
		res := ""
		if p.Res == 0 {
			res = " /Resources " + resDictStr
		}
		objs[pg] = fmt.Sprintf("<< /Type /Page /Parent %%PARENT%% 0 R /MediaBox [0 0 612 792]%s%s >>", res, contents)
	}
	objs[1] = "<< /Type /Catalog /Pages 2 0 R >>"
	pagesRes := ""
	if d.inherits() {
		pagesRes = " /Resources " + resDictStr
	}
	tree := d.Tree
	if tree == nil {
		tree = chain(0, len(d.Pages), 1)
	}
	if tree.Leaf >= 0 || tree.count() != len(d.Pages) {
		panic("bad page tree")
	}
	var emit func(t *treeNode, self, parent int)
	emit = func(t *treeNode, self, parent int) {
		var kids []string
		for _, k := range t.Kids {
			if k.Leaf >= 0 {
				pg := pageObjs[k.Leaf]
				objs[pg] = strings.Replace(objs[pg], "%PARENT%", fmt.Sprint(self), 1)
				kids = append(kids, fmt.Sprintf("%d 0 R", pg))
				continue
			}
			o := alloc()
			kids = append(kids, fmt.Sprintf("%d 0 R", o))
			emit(k, o, self)
		}
		par, res := "", ""
		if parent > 0 {
			par = fmt.Sprintf(" /Parent %d 0 R", parent)
		} else {
			res = pagesRes
		}
		objs[self] = fmt.Sprintf("<< /Type /Pages%s /Count %d /Kids [%s]%s >>", par, t.count(), strings.Join(kids, " "), res)
	}
	emit(tree, 2, 0)
	objs[4] = "<< /Type /Font /Subtype /Type1 /BaseFont /Helvetica >>"
	objs[5] = "<< /Type /ExtGState /CA 1 >>"
	objs[6] = "<< /Type /XObject /Subtype /Form /BBox [0 0 10 10] /Length 0 >>\nstream\n\nendstream"
	objs[7] = "<< /Type /OCG /Name (Layer) >>"

	var b bytes.Buffer
	b.WriteString("%PDF-1.7\n%\xe2\xe3\xcf\xd3\n")
	offs := make([]int, next+1)
	for i := 1; i <= next; i++ {
		s, ok := objs[i]
		if !ok {
			continue
		}
		offs[i] = b.Len()
		fmt.Fprintf(&b, "%d 0 obj\n%s\nendobj\n", i, s)
	}
	xref := b.Len()
	fmt.Fprintf(&b, "xref\n0 %d\n", next+1)
	b.WriteString("0000000000 65535 f \n")
	for i := 1; i <= next; i++ {
		if offs[i] == 0 {
			b.WriteString("0000000000 00000 f \n")
		} else {
			fmt.Fprintf(&b, "%010d 00000 n \n", offs[i])
		}
	}
	fmt.Fprintf(&b, "trailer\n<< /Size %d /Root 1 0 R >>\nstartxref\n%d\n%%%%EOF\n", next+1, xref)
	return b.Bytes()
}
