(* C05 — proofs about the sanitizer model (Model.v): every name sanitize.Path returns is a
   harmless single path component.  Part 1: lists, UTF-8, pathPart, Path. *)
From Coq Require Import NArith ZArith List Bool Lia ZifyBool ZifyN.
From PV Require Import Lib.GoInt C05.Model.
Import ListNotations.
Open Scope N_scope.
Ltac Zify.zify_post_hook ::= Z.div_mod_to_equations.

(* ------------------------------------------------------------------ generic lists *)
Lemma leqb_eq : forall a b, leqb a b = true <-> a = b.
Proof.
  induction a as [|x a IH]; destruct b as [|y b]; simpl; split; intro H; try congruence; try discriminate.
  - apply andb_true_iff in H. destruct H as [Hx Hr]. apply N.eqb_eq in Hx. apply IH in Hr. congruence.
  - inversion H; subst. rewrite N.eqb_refl. simpl. apply IH. reflexivity.
Qed.

Lemma leqb_neq : forall a b, leqb a b = false <-> a <> b.
Proof.
  intros a b. split; intro H.
  - intro E. apply leqb_eq in E. congruence.
  - destruct (leqb a b) eqn:E; [apply leqb_eq in E; contradiction | reflexivity].
Qed.

Lemma isNil_true : forall {A} (l : list A), isNil l = true <-> l = [].
Proof. intros A [|x l]; simpl; split; congruence. Qed.
Lemma isNil_false : forall {A} (l : list A), isNil l = false <-> l <> [].
Proof. intros A [|x l]; simpl; split; congruence. Qed.

Lemma dropWhile_Forall : forall {A} (P : A -> Prop) f l, Forall P l -> Forall P (dropWhile f l).
Proof.
  intros A P f l H. induction H as [|x l Hx Hl IH]; simpl; [constructor|].
  destruct (f x); [exact IH | constructor; assumption].
Qed.

Lemma dropWhile_suffix : forall {A} (f : A -> bool) l, exists pre, l = pre ++ dropWhile f l.
Proof.
  intros A f l. induction l as [|x l IH]; simpl.
  - exists []. reflexivity.
  - destruct (f x).
    + destruct IH as [pre E]. exists (x :: pre). simpl. congruence.
    + exists []. reflexivity.
Qed.

Lemma dropWhile_hd : forall {A} (f : A -> bool) l x t, dropWhile f l = x :: t -> f x = false.
Proof.
  intros A f l. induction l as [|y l IH]; simpl; intros x t H; [discriminate|].
  destruct (f y) eqn:E; [eauto | inversion H; subst; exact E].
Qed.

Lemma trimBoth_Forall : forall {A} (P : A -> Prop) f l, Forall P l -> Forall P (trimBoth f l).
Proof.
  intros A P f l H. unfold trimBoth. apply Forall_rev. apply dropWhile_Forall. apply Forall_rev.
  apply dropWhile_Forall. exact H.
Qed.

Lemma trimBoth_first : forall {A} (f : A -> bool) l x t, trimBoth f l = x :: t -> f x = false.
Proof.
  intros A f l x t H. unfold trimBoth in H.
  destruct (dropWhile_suffix f (rev (dropWhile f l))) as [pre E].
  set (k := dropWhile f (rev (dropWhile f l))) in *.
  assert (Em : dropWhile f l = rev k ++ rev pre).
  { rewrite <- (rev_involutive (dropWhile f l)). rewrite E. apply rev_app_distr. }
  rewrite H in Em. simpl in Em. eapply dropWhile_hd. exact Em.
Qed.

Lemma trimBoth_last : forall {A} (f : A -> bool) l t y, trimBoth f l = t ++ [y] -> f y = false.
Proof.
  intros A f l t y H. unfold trimBoth in H.
  assert (E : dropWhile f (rev (dropWhile f l)) = y :: rev t).
  { rewrite <- (rev_involutive (dropWhile f (rev (dropWhile f l)))). rewrite H.
    rewrite rev_app_distr. reflexivity. }
  eapply dropWhile_hd. exact E.
Qed.

Lemma takeWhile_Forall : forall {A} (P : A -> Prop) f l, Forall P l -> Forall P (takeWhile f l).
Proof.
  intros A P f l H. induction H as [|x l Hx Hl IH]; simpl; [constructor|].
  destruct (f x); constructor; assumption.
Qed.

(* ------------------------------------------------------------------ splitOn / joinWith *)
Lemma splitOn_nonnil : forall sep s, splitOn sep s <> [].
Proof.
  intros sep s. induction s as [|b t IH]; simpl; [discriminate|].
  destruct (b =? sep); [discriminate|]. destruct (splitOn sep t); discriminate.
Qed.

Lemma splitOn_Forall : forall (P : N -> Prop) sep s, Forall P s -> Forall (Forall P) (splitOn sep s).
Proof.
  intros P sep s H. induction H as [|b t Hb Ht IH]; simpl.
  - repeat constructor.
  - destruct (b =? sep).
    + constructor; [constructor | exact IH].
    + destruct (splitOn sep t) as [|c cs]; [repeat constructor; assumption|].
      inversion IH; subst. constructor; [constructor; assumption | assumption].
Qed.

Lemma splitOn_no_sep : forall sep s, Forall (Forall (fun b => b <> sep)) (splitOn sep s).
Proof.
  intros sep s. induction s as [|b t IH]; simpl.
  - repeat constructor.
  - destruct (b =? sep) eqn:E.
    + constructor; [constructor | exact IH].
    + apply N.eqb_neq in E. destruct (splitOn sep t) as [|c cs]; [repeat constructor; assumption|].
      inversion IH; subst. constructor; [constructor; assumption | assumption].
Qed.

Lemma splitOn_nosep : forall sep n, Forall (fun b => b <> sep) n -> splitOn sep n = [n].
Proof.
  intros sep n H. induction H as [|b t Hb Ht IH]; simpl; [reflexivity|].
  apply N.eqb_neq in Hb. rewrite Hb, IH. reflexivity.
Qed.

Lemma splitOn_app_sep : forall sep a b, splitOn sep (a ++ sep :: b) = splitOn sep a ++ splitOn sep b.
Proof.
  intros sep a b. induction a as [|x a IH]; simpl.
  - rewrite N.eqb_refl. reflexivity.
  - destruct (x =? sep); [rewrite IH; reflexivity|].
    rewrite IH. destruct (splitOn sep a) as [|c cs] eqn:E; [exfalso; eapply splitOn_nonnil; eauto|].
    reflexivity.
Qed.

Lemma splitOn_joinWith : forall sep l, l <> [] -> Forall (Forall (fun b => b <> sep)) l ->
  splitOn sep (joinWith [sep] l) = l.
Proof.
  intros sep l. induction l as [|x t IH]; intros Hne H; [congruence|].
  inversion H as [|x' t' Hx Ht]; subst. destruct t as [|y t].
  - simpl. apply splitOn_nosep. exact Hx.
  - change (joinWith [sep] (x :: y :: t)) with (x ++ sep :: joinWith [sep] (y :: t)).
    rewrite splitOn_app_sep. rewrite IH; [|discriminate|exact Ht].
    rewrite splitOn_nosep by exact Hx. reflexivity.
Qed.

(* ------------------------------------------------------------------ UTF-8 decoding *)
(* every decoded item is either an ASCII byte of the input (width 1) or a code point >= 0x80 *)
Definition itemSpec (s : bytes) (it : N * N) : Prop :=
  (fst it < 0x80 /\ In (fst it) s) \/ 0x80 <= fst it.

Lemma itemSpec_cons : forall b s it, itemSpec s it -> itemSpec (b :: s) it.
Proof. intros b s it [[H1 H2]|H]; [left; split; [assumption | right; assumption] | right; assumption]. Qed.

Lemma Forall_itemSpec_cons : forall b s l, Forall (itemSpec s) l -> Forall (itemSpec (b :: s)) l.
Proof. intros b s l H. eapply Forall_impl; [|exact H]. intros a. apply itemSpec_cons. Qed.

Lemma decode_spec_n : forall n s, (length s <= n)%nat -> Forall (itemSpec s) (decode s).
Proof.
  induction n as [|n IH]; intros s Hl.
  - destruct s; [constructor | simpl in Hl; lia].
  - destruct s as [|s0 t]; [constructor|].
    assert (Ht : Forall (itemSpec (s0 :: t)) (decode t)).
    { apply Forall_itemSpec_cons. apply IH. simpl in Hl. lia. }
    assert (Herr : Forall (itemSpec (s0 :: t)) ((RuneError, 1) :: decode t)).
    { constructor; [right; unfold RuneError; simpl; lia | exact Ht]. }
    simpl decode.
    destruct (s0 <? 0x80) eqn:E0.
    { constructor; [left; simpl; split; [lia | left; reflexivity] | exact Ht]. }
    destruct ((s0 <? 0xC2) || (0xF4 <? s0)) eqn:E1; [exact Herr|].
    destruct (s0 <? 0xE0) eqn:E2.
    { destruct t as [|s1 t1]; [exact Herr|].
      destruct (cont s1) eqn:C1; [|exact Herr].
      constructor; [right; simpl; lia|].
      apply Forall_itemSpec_cons. apply Forall_itemSpec_cons. apply IH. simpl in Hl. lia. }
    destruct (s0 <? 0xF0) eqn:E3.
    { destruct t as [|s1 [|s2 t2]]; try exact Herr.
      match goal with |- context [if ?c then _ else _] => destruct c eqn:C1 end; [|exact Herr].
      constructor.
      - right. simpl. unfold inr, cont in C1. destruct (s0 =? 0xE0) eqn:Ea; destruct (s0 =? 0xED) eqn:Eb; lia.
      - do 3 apply Forall_itemSpec_cons. apply IH. simpl in Hl. lia. }
    destruct t as [|s1 [|s2 [|s3 t3]]]; try exact Herr.
    match goal with |- context [if ?c then _ else _] => destruct c eqn:C1 end; [|exact Herr].
    constructor.
    + right. simpl. unfold inr, cont in C1. destruct (s0 =? 0xF0) eqn:Ea; destruct (s0 =? 0xF4) eqn:Eb; lia.
    + do 4 apply Forall_itemSpec_cons. apply IH. simpl in Hl. lia.
Qed.

Lemma decode_spec : forall s, Forall (itemSpec s) (decode s).
Proof. intros s. apply (decode_spec_n (length s)). lia. Qed.

(* ------------------------------------------------------------------ UTF-8 encoding *)
Lemma encodeRune_spec : forall r,
  (r < 0x80 /\ encodeRune r = [r]) \/
  (0x80 <= r /\ encodeRune r <> [] /\ Forall (fun b => 0x80 <= b < 0x100) (encodeRune r)).
Proof.
  intros r. unfold encodeRune.
  destruct (r <? 0x80) eqn:E0; [left; split; [lia | reflexivity]|].
  right. split; [lia|].
  destruct (r <? 0x800) eqn:E1.
  { split; [discriminate|]. repeat constructor; lia. }
  destruct ((0x10FFFF <? r) || inr 0xD800 0xDFFF r) eqn:E2.
  { split; [discriminate|]. repeat constructor; lia. }
  unfold inr in E2.
  destruct (r <? 0x10000) eqn:E3.
  { split; [discriminate|]. repeat constructor; lia. }
  split; [discriminate|]. repeat constructor; lia.
Qed.

(* ------------------------------------------------------------------ what a good name is *)
(* code points the sanitizer lets through *)
Definition goodRune (r : N) : Prop := badRune r = false /\ r <> 0x2F /\ r <> 0x5C.

Definition first_ok (n : list N) : Prop := forall x t, n = x :: t -> x <> 0x20 /\ x <> 0x2E.
Definition last_ok (n : list N) : Prop := forall t y, n = t ++ [y] -> y <> 0x20 /\ y <> 0x2E.

(* rune level *)
Definition partOK (q : runes) : Prop := q <> [] /\ Forall goodRune q /\ first_ok q /\ last_ok q.

(* byte level: printable, not a separator, not NUL/control/DEL, none of the seven specials (less, greater, colon, double quote, bar, question mark, asterisk) *)
Definition byte_ok (b : N) : Prop :=
  0x20 <= b < 0x100 /\ b <> 0x22 /\ b <> 0x2A /\ b <> 0x2F /\ b <> 0x3A /\ b <> 0x3C /\ b <> 0x3E
  /\ b <> 0x3F /\ b <> 0x5C /\ b <> 0x7C /\ b <> 0x7F.

Definition name_ok (n : bytes) : Prop := n <> [] /\ Forall byte_ok n /\ first_ok n /\ last_ok n.

Lemma goodRune_underscore : goodRune 0x5F.
Proof. unfold goodRune. split; [reflexivity | split; discriminate]. Qed.

Lemma snoc_cons_inv : forall {A} (a : A) s t y, s <> [] -> a :: s = t ++ [y] -> exists t', s = t' ++ [y].
Proof.
  intros A a s t y Hs H. destruct t as [|b t'].
  - simpl in H. inversion H; subst. congruence.
  - simpl in H. inversion H; subst. eauto.
Qed.

Lemma last_ok_app : forall a b, b <> [] -> last_ok b -> last_ok (a ++ b).
Proof.
  intros a b Hb Hl t y H.
  destruct (exists_last Hb) as [b' [z Eb]]. subst b.
  rewrite app_assoc in H. apply app_inj_tail in H. destruct H as [_ Hy]. subst z.
  eapply Hl. reflexivity.
Qed.

Lemma first_ok_app : forall a b, a <> [] -> first_ok a -> first_ok (a ++ b).
Proof.
  intros a b Ha Hf x t H. destruct a as [|a0 a']; [congruence|]. simpl in H. inversion H; subst.
  eapply Hf. reflexivity.
Qed.

(* ------------------------------------------------------------------ pathPart *)
Definition inP (r : N) : Prop := r <> 0x2F /\ r <> 0x5C.

Lemma ppLoop_good : forall rs b, Forall inP rs -> Forall goodRune (ppLoop rs b).
Proof.
  intros rs. induction rs as [|r t IH]; intros b H; simpl; [constructor|].
  inversion H as [|r' t' Hr Ht]; subst.
  destruct (badRune r) eqn:E.
  - destruct b; [apply IH; exact Ht | constructor; [exact goodRune_underscore | apply IH; exact Ht]].
  - constructor; [split; [exact E | exact Hr] | apply IH; exact Ht].
Qed.

Lemma spaceOrDot_false : forall x, spaceOrDot x = false -> x <> 0x20 /\ x <> 0x2E.
Proof. intros x H. unfold spaceOrDot in H. lia. Qed.

Lemma pathPart_ok : forall rs, Forall inP rs -> pathPart rs <> [] -> partOK (pathPart rs).
Proof.
  intros rs H Hne. unfold pathPart in *.
  set (s := trimBoth spaceOrDot (ppLoop rs false)) in *.
  assert (Hg : Forall goodRune s) by (apply trimBoth_Forall; apply ppLoop_good; exact H).
  assert (Hf : first_ok s).
  { intros x t E. apply spaceOrDot_false. eapply trimBoth_first. exact E. }
  assert (Hl : last_ok s).
  { intros t y E. apply spaceOrDot_false. eapply trimBoth_last. exact E. }
  destruct (isNil s) eqn:En; [congruence|]. apply isNil_false in En.
  match goal with |- context [if ?c then _ else _] => destruct c end.
  - split; [discriminate|]. split; [constructor; [exact goodRune_underscore | exact Hg]|]. split.
    + intros x t E. inversion E; subst. split; discriminate.
    + intros t y E. destruct (snoc_cons_inv _ _ _ _ En E) as [t' E']. eapply Hl. exact E'.
  - split; [exact En | split; [exact Hg | split; [exact Hf | exact Hl]]].
Qed.

(* ------------------------------------------------------------------ Path *)
Lemma partOK_join : forall a b, partOK a -> partOK b -> partOK (a ++ [0x5F] ++ b).
Proof.
  intros a b [Ha [Hga [Hfa Hla]]] [Hb [Hgb [Hfb Hlb]]]. split; [|split; [|split]].
  - destruct a; [congruence | discriminate].
  - apply Forall_app. split; [exact Hga|]. apply Forall_app. split; [|exact Hgb].
    constructor; [exact goodRune_underscore | constructor].
  - apply first_ok_app; assumption.
  - apply last_ok_app; [|apply last_ok_app; assumption]. simpl. discriminate.
Qed.

Lemma joinWith_ok : forall l, l <> [] -> Forall partOK l -> partOK (joinWith [0x5F] l).
Proof.
  intros l. induction l as [|x t IH]; intros Hne H; [congruence|].
  inversion H as [|x' t' Hx Ht]; subst. destruct t as [|y t]; [exact Hx|].
  change (joinWith [0x5F] (x :: y :: t)) with (x ++ [0x5F] ++ joinWith [0x5F] (y :: t)).
  apply partOK_join; [exact Hx | apply IH; [discriminate | exact Ht]].
Qed.

Lemma cleanPart_ok : forall part, Forall inP part -> Forall partOK (cleanPart part).
Proof.
  intros part H. unfold cleanPart.
  set (p := trimBoth isSpace part).
  assert (Hp : Forall inP p) by (apply trimBoth_Forall; exact H).
  destruct (isNil p || leqb p [0x2E] || leqb p [0x2E; 0x2E]); [constructor|].
  destruct (isNil (pathPart p)) eqn:E; [constructor|].
  apply isNil_false in E. constructor; [apply pathPart_ok; assumption | constructor].
Qed.

Lemma dropDrive_Forall : forall (P : N * N -> Prop) it, Forall P it -> Forall P (dropDrive it).
Proof.
  intros P it H. unfold dropDrive. destruct it as [|[c0 w0] [|[c1 w1] rest]]; try exact H.
  destruct ((w0 =? 1) && (c1 =? 0x3A)); [|exact H].
  inversion H as [|a l Ha Hl]; subst. inversion Hl; subst. assumption.
Qed.

Lemma flat_map_Forall : forall {A B} (P : B -> Prop) (f : A -> list B) l,
  (forall x, In x l -> Forall P (f x)) -> Forall P (flat_map f l).
Proof.
  intros A B P f l H. induction l as [|x t IH]; simpl; [constructor|].
  apply Forall_app. split; [apply H; left; reflexivity | apply IH; intros y Hy; apply H; right; exact Hy].
Qed.

Lemma pathRunes_ok : forall s rs, pathRunes s = Ok rs -> partOK rs.
Proof.
  intros s rs H. unfold pathRunes in H.
  destruct (existsb (N.eqb 0) s); [discriminate|].
  set (s1 := map (fun b => if b =? 0x5C then 0x2F else b) s) in *.
  set (it := dropDrive (trimBoth (fun x => isSpace (fst x)) (decode s1))) in *.
  assert (Hs1 : Forall (fun b => b <> 0x5C) s1).
  { unfold s1. apply Forall_forall. intros b Hb. apply in_map_iff in Hb. destruct Hb as [a [Ea _]].
    destruct (a =? 0x5C) eqn:E; lia. }
  assert (Hit : Forall (fun x => fst x <> 0x5C) it).
  { unfold it. apply dropDrive_Forall. apply trimBoth_Forall.
    eapply Forall_impl; [|apply decode_spec]. intros a [[Hlt Hin]|Hge]; [|lia].
    rewrite Forall_forall in Hs1. apply Hs1. exact Hin. }
  assert (Hcp : Forall (fun r => r <> 0x5C) (map fst it)).
  { apply Forall_forall. intros r Hr. apply in_map_iff in Hr. destruct Hr as [x [Ex Hx]]. subst r.
    rewrite Forall_forall in Hit. apply Hit. exact Hx. }
  set (parts := splitOn 0x2F (map fst it)) in *.
  assert (Hparts : Forall (Forall inP) parts).
  { pose proof (splitOn_no_sep 0x2F (map fst it)) as H1.
    pose proof (splitOn_Forall _ 0x2F _ Hcp) as H2. fold parts in H1, H2.
    rewrite Forall_forall in *. intros c Hc. specialize (H1 c Hc). specialize (H2 c Hc).
    rewrite Forall_forall in *. intros r Hr. split; [apply H1 | apply H2]; exact Hr. }
  destruct (isNil (flat_map cleanPart parts)) eqn:En; [discriminate|].
  inversion H; subst rs. apply isNil_false in En.
  apply joinWith_ok; [exact En|].
  apply flat_map_Forall. intros c Hc. apply cleanPart_ok. rewrite Forall_forall in Hparts. apply Hparts. exact Hc.
Qed.

(* ------------------------------------------------------------------ runes -> bytes *)
Lemma goodRune_ascii_byte_ok : forall r, goodRune r -> r < 0x80 -> byte_ok r.
Proof.
  intros r [Hb [H1 H2]] Hlt. unfold badRune, special, isControl, inr in Hb. unfold byte_ok. lia.
Qed.

Lemma high_byte_ok : forall b, 0x80 <= b < 0x100 -> byte_ok b.
Proof. intros b H. unfold byte_ok. lia. Qed.

Lemma encodeRune_bytes_ok : forall r, goodRune r -> Forall byte_ok (encodeRune r).
Proof.
  intros r Hg. destruct (encodeRune_spec r) as [[Hlt E]|[Hge [Hne Hb]]].
  - rewrite E. constructor; [apply goodRune_ascii_byte_ok; assumption | constructor].
  - eapply Forall_impl; [|exact Hb]. intros b. apply high_byte_ok.
Qed.

Lemma encode_app : forall a b, encode (a ++ b) = encode a ++ encode b.
Proof. intros a b. unfold encode. apply flat_map_app. Qed.

Lemma encode_ok : forall rs, partOK rs -> name_ok (encode rs).
Proof.
  intros rs [Hne [Hg [Hf Hl]]]. split; [|split; [|split]].
  - destruct rs as [|r t]; [congruence|]. unfold encode. simpl.
    destruct (encodeRune_spec r) as [[_ E]|[_ [Hn _]]].
    + rewrite E. discriminate.
    + destruct (encodeRune r); [congruence | discriminate].
  - unfold encode. apply flat_map_Forall. intros r Hr. apply encodeRune_bytes_ok.
    rewrite Forall_forall in Hg. apply Hg. exact Hr.
  - destruct rs as [|r t]; [congruence|]. intros x u E. unfold encode in E. simpl in E.
    destruct (encodeRune_spec r) as [[_ Er]|[_ [Hn Hb]]].
    + rewrite Er in E. simpl in E. inversion E; subst. eapply Hf. reflexivity.
    + destruct (encodeRune r) as [|b0 bs]; [congruence|]. simpl in E. inversion E; subst.
      inversion Hb; subst. lia.
  - destruct (exists_last Hne) as [rs' [r Ers]]. subst rs. intros u y E.
    rewrite encode_app in E. unfold encode at 2 in E. simpl in E. rewrite app_nil_r in E.
    destruct (encodeRune_spec r) as [[_ Er]|[_ [Hn Hb]]].
    + rewrite Er in E. apply app_inj_tail in E. destruct E as [_ Ey]. subst y. eapply Hl. reflexivity.
    + destruct (exists_last Hn) as [e' [z Ee]]. rewrite Ee in E. rewrite app_assoc in E.
      apply app_inj_tail in E. destruct E as [_ Ey]. subst y.
      rewrite Ee in Hb. apply Forall_app in Hb. destruct Hb as [_ Hz]. inversion Hz; subst. lia.
Qed.

(* ------------------------------------------------------------------ main sanitizer theorem *)
Lemma Path_ok : forall s n, Path s = Ok n ->
  name_ok n /\ exists rs, n = encode rs /\ Forall goodRune rs.
Proof.
  intros s n H. unfold Path in H. destruct (pathRunes s) as [rs|] eqn:E; [|discriminate].
  inversion H; subst n. apply pathRunes_ok in E. split; [apply encode_ok; exact E|].
  exists rs. split; [reflexivity | apply E].
Qed.

Lemma Path_rejects_NUL : forall s, In 0 s -> Path s = Err.
Proof.
  intros s H. unfold Path, pathRunes.
  assert (E : existsb (N.eqb 0) s = true) by (apply existsb_exists; exists 0; split; [exact H | reflexivity]).
  rewrite E. reflexivity.
Qed.
