(* C29 — lemmas.  All statements are for arbitrary documents: any number of pages, fields and
   annotations, any nesting depth of the field forest. *)
From Coq Require Import NArith List Bool Lia.
From PV Require Import C29.Model.
Import ListNotations.
Open Scope N_scope.

(* ---------- induction over the rose tree ---------- *)
Section FieldInd.
  Variable P : field -> Prop.
  Hypothesis step : forall i t w r p ks, Forall P ks -> P (Field i t w r p ks).
  Fixpoint field_ind2 (f : field) : P f :=
    match f with
    | Field i t w r p ks =>
        step i t w r p ks
          ((fix go (l : list field) : Forall P l :=
              match l with
              | [] => Forall_nil P
              | k :: rest => Forall_cons k (field_ind2 k) (go rest)
              end) ks)
    end.
End FieldInd.

Lemma own_sig_eq : forall i t w r p ks,
  own_sig (Field i t w r p ks) = osig t || existsb own_sig ks.
Proof.
  intros i t w r p ks. reflexivity.
Qed.

Definition effv (inh t : option ftype) : option ftype :=
  match t with Some x => Some x | None => inh end.

Lemma nodes_eq : forall inh i t w r p ks,
  nodes inh (Field i t w r p ks) = (i, effv inh t) :: flat_map (nodes (effv inh t)) ks.
Proof.
  intros inh i t w r p ks. reflexivity.
Qed.

Lemma existsb_flat_map : forall (A B : Type) (g : B -> bool) (h : A -> list B) l,
  existsb g (flat_map h l) = existsb (fun a => existsb g (h a)) l.
Proof.
  intros A B g h l. induction l as [|a rest IH]; simpl; [reflexivity|].
  now rewrite existsb_app, IH.
Qed.

Lemma existsb_ext_in : forall (A : Type) (g h : A -> bool) l,
  (forall a, In a l -> g a = h a) -> existsb g l = existsb h l.
Proof.
  intros A g h l Hgh. induction l as [|a rest IH]; simpl; [reflexivity|].
  rewrite Hgh by (left; reflexivity). rewrite IH; [reflexivity|].
  intros b Hb. apply Hgh. now right.
Qed.

Definition nsig (x : N * option ftype) : bool := osig (snd x).

(* cacheSig looks at the OWN /FT; the property speaks about the EFFECTIVE type.  They agree on
   "is there a signature anywhere in this subtree" (to any depth). *)
Lemma own_sig_nodes : forall f inh, osig inh = false ->
  existsb nsig (nodes inh f) = own_sig f.
Proof.
  intros f. induction f as [i t w r p ks IH] using field_ind2. intros inh Hinh.
  rewrite nodes_eq, own_sig_eq. simpl existsb. unfold nsig at 1. simpl snd.
  destruct (osig t) eqn:Ht.
  - destruct t as [x|]; simpl in Ht; [|discriminate]. simpl. now rewrite Ht.
  - assert (He : osig (effv inh t) = false) by (destruct t; simpl; assumption).
    rewrite He. simpl. rewrite existsb_flat_map.
    apply existsb_ext_in. intros k Hk. rewrite Forall_forall in IH. now apply IH.
Qed.

Lemma own_sig_forest : forall l, existsb nsig (forest_nodes l) = own_sig_any l.
Proof.
  intros l. unfold forest_nodes, own_sig_any. rewrite existsb_flat_map.
  apply existsb_ext_in. intros f _. now apply own_sig_nodes.
Qed.

Lemma filter_nil_existsb : forall (A : Type) (g : A -> bool) l,
  filter g l = [] <-> existsb g l = false.
Proof.
  intros A g l. induction l as [|a rest IH]; simpl; [tauto|].
  destruct (g a); simpl; [split; discriminate|exact IH].
Qed.

Lemma filter_all : forall (A : Type) (g : A -> bool) l,
  (forall a, In a l -> g a = true) -> filter g l = l.
Proof.
  intros A g l Hg. induction l as [|a rest IH]; simpl; [reflexivity|].
  rewrite Hg by (left; reflexivity). f_equal. apply IH. intros b Hb. apply Hg. now right.
Qed.

Lemma filter_none : forall (A : Type) (g : A -> bool) l,
  (forall a, In a l -> g a = false) -> filter g l = [].
Proof.
  intros A g l Hg. induction l as [|a rest IH]; simpl; [reflexivity|].
  rewrite Hg by (left; reflexivity). apply IH. intros b Hb. apply Hg. now right.
Qed.

Lemma filter_filter : forall (A : Type) (g h : A -> bool) l,
  filter h (filter g l) = filter (fun x => g x && h x) l.
Proof.
  intros A g h l. induction l as [|a rest IH]; simpl; [reflexivity|].
  destruct (g a); simpl; [destruct (h a); now rewrite IH|exact IH].
Qed.

Lemma mem_In : forall v l, mem v l = true <-> In v l.
Proof.
  intros v l. unfold mem. rewrite existsb_exists. split.
  - intros [x [Hx Hv]]. apply N.eqb_eq in Hv. now subst.
  - intros Hv. exists v. split; [assumption|apply N.eqb_refl].
Qed.

(* ---------- pages: the sweep is a list of (page, annotation) removals ---------- *)
Lemma alist_remove_from_annots : forall a v,
  alist (remove_from_annots a v) = filter (fun x => negb (x =? v)) (alist a).
Proof.
  intros [l|] v; simpl; [|reflexivity].
  destruct l as [|x rest]; [reflexivity|].
  unfold remove_from_annots.
  destruct (filter (fun x0 : N => negb (x0 =? v)) (x :: rest)) as [|y l'] eqn:Hf; reflexivity.
Qed.

Definition apply_ops (L : list (N * N)) (pages : list page) : list page :=
  fold_left (fun pg o => remove_page_annot pg (fst o) (snd o)) L pages.

Lemma apply_ops_app : forall L1 L2 pages,
  apply_ops (L1 ++ L2) pages = apply_ops L2 (apply_ops L1 pages).
Proof. intros L1 L2 pages. unfold apply_ops. apply fold_left_app. Qed.

Lemma rsa_ops : forall pages f, remove_sig_annot pages f = apply_ops (ops f) pages.
Proof.
  intros pages [i t w r p ks].
  unfold remove_sig_annot, widget_block, ops. simpl.
  destruct w, r; simpl; try reflexivity.
  - destruct p as [pg|]; simpl; [|reflexivity].
    destruct ks as [|[ki kt kw kr kp kks] [|k2 rest]]; simpl; try reflexivity.
    destruct kw, kr; simpl; try reflexivity.
    destruct kp as [q|]; reflexivity.
  - destruct ks as [|[ki kt kw kr kp kks] [|k2 rest]]; simpl; try reflexivity.
    destruct kw, kr; simpl; try reflexivity.
    destruct kp as [q|]; reflexivity.
  - destruct ks as [|[ki kt kw kr kp kks] [|k2 rest]]; simpl; try reflexivity.
    destruct kw, kr; simpl; try reflexivity.
    destruct kp as [q|]; reflexivity.
Qed.

Lemma sweep_ops : forall fields pages, sweep pages fields = apply_ops (all_ops fields) pages.
Proof.
  unfold sweep, all_ops. intros fields. induction fields as [|f rest IH]; intros pages; simpl.
  - reflexivity.
  - destruct (keep f); simpl.
    + apply IH.
    + rewrite apply_ops_app, IH, rsa_ops. reflexivity.
Qed.

(* effect of a list of removals on one page's Annots *)
Definition ops_on (L : list (N * N)) (pid : N) (a : option (list N)) : option (list N) :=
  fold_left (fun a o => if pid =? fst o then remove_from_annots a (snd o) else a) L a.

Lemma apply_ops_map : forall L pages,
  apply_ops L pages = map (fun pg : page => (fst pg, ops_on L (fst pg) (snd pg))) pages.
Proof.
  induction L as [|o L IH]; intros pages.
  - simpl. rewrite <- (map_id pages) at 1. apply map_ext. intros [pid a]. reflexivity.
  - unfold apply_ops. simpl. fold (apply_ops L (remove_page_annot pages (fst o) (snd o))).
    rewrite IH. unfold remove_page_annot. rewrite map_map. apply map_ext.
    intros [pid a]. simpl. destruct (pid =? fst o); reflexivity.
Qed.

Lemma in_ops_cons : forall o L pid v,
  in_ops (o :: L) pid v = ((fst o =? pid) && (snd o =? v)) || in_ops L pid v.
Proof. reflexivity. Qed.

Lemma alist_ops_on : forall L pid a,
  alist (ops_on L pid a) = filter (fun v => negb (in_ops L pid v)) (alist a).
Proof.
  induction L as [|o L IH]; intros pid a.
  - simpl. symmetry. apply filter_all. reflexivity.
  - simpl ops_on. fold (ops_on L pid (if pid =? fst o then remove_from_annots a (snd o) else a)).
    rewrite IH. destruct (pid =? fst o) eqn:Hp.
    + rewrite alist_remove_from_annots, filter_filter. apply filter_ext. intros v.
      rewrite in_ops_cons. rewrite (N.eqb_sym (fst o) pid), Hp. simpl.
      rewrite (N.eqb_sym v (snd o)). now rewrite negb_orb.
    + apply filter_ext. intros v. rewrite in_ops_cons.
      rewrite (N.eqb_sym (fst o) pid), Hp. reflexivity.
Qed.

Lemma in_ops_In : forall L pid v, in_ops L pid v = true <-> In (pid, v) L.
Proof.
  intros L pid v. unfold in_ops. rewrite existsb_exists. split.
  - intros [[a b] [Hin Hab]]. simpl in Hab. apply andb_true_iff in Hab as [Ha Hb].
    apply N.eqb_eq in Ha. apply N.eqb_eq in Hb. now subst.
  - intros Hin. exists (pid, v). split; [assumption|]. simpl. now rewrite !N.eqb_refl.
Qed.

(* every removal names the top-level field or its only kid *)
Lemma ops_shape : forall f o, In o (ops f) ->
  snd o = f_id f \/ exists k, f_kids f = [k] /\ snd o = f_id k.
Proof.
  intros [i t w r p ks] o. unfold ops. simpl.
  assert (Hk : forall L : list (N * N),
            L = match ks with
                | [k] => if f_widget k && f_rect k
                         then match f_p k with Some q => [(q, f_id k)] | None => [] end else []
                | _ => [] end ->
            In o L -> exists k, ks = [k] /\ snd o = f_id k).
  { intros L HL Hin. subst L.
    destruct ks as [|k [|k2 rest]]; try contradiction.
    destruct (f_widget k && f_rect k); [|contradiction].
    destruct (f_p k) as [q|]; [|contradiction].
    destruct Hin as [Ho|[]]. subst o. exists k. split; reflexivity. }
  destruct w; simpl.
  - destruct r; simpl; [|contradiction].
    destruct p as [pg|]; [|contradiction].
    intros [Ho|Hin]; [left; now subst o|right; eapply Hk; [reflexivity|exact Hin]].
  - intros Hin. right. eapply Hk; [reflexivity|exact Hin].
Qed.

Lemma all_ops_shape : forall fields o, In o (all_ops fields) ->
  exists f, In f fields /\ keep f = false /\
            (snd o = f_id f \/ exists k, f_kids f = [k] /\ snd o = f_id k).
Proof.
  intros fields o Hin. unfold all_ops in Hin. apply in_flat_map in Hin as [f [Hf Ho]].
  apply filter_In in Hf as [Hf Hk]. exists f. split; [assumption|]. split.
  - now apply negb_true_iff in Hk.
  - now apply ops_shape.
Qed.

(* ---------- RemoveAllSignatures: what holds for every document ---------- *)
Ltac ra_cases d fm f rest g arr Hfm Hfs Harr :=
  unfold remove_all;
  destruct (d_form d) as [fm|] eqn:Hfm;
  [ destruct (fm_fields fm) as [|f rest] eqn:Hfs;
    [ | destruct (filter keep (f :: rest)) as [|g arr] eqn:Harr ] | ].

Lemma visible_fields_remove_all : forall d,
  visible_fields (remove_all d) = filter keep (visible_fields d).
Proof.
  intros d. unfold visible_fields at 2.
  ra_cases d fm f rest g arr Hfm Hfs Harr; unfold visible_fields; cbn [d_acro d_form fm_fields];
    rewrite ?Hfm; rewrite ?Hfs; rewrite ?Harr; destruct (d_acro d); try reflexivity;
    symmetry; assumption.
Qed.

Lemma visible_sigflags_remove_all : forall d, visible_sigflags (remove_all d) = false.
Proof.
  intros d.
  ra_cases d fm f rest g arr Hfm Hfs Harr; unfold visible_sigflags; cbn [d_acro d_form fm_sigflags];
    rewrite ?Hfm; destruct (d_acro d); try reflexivity.
Qed.

Lemma flags_remove_all : forall d,
  d_perms (remove_all d) = false /\ d_perm (remove_all d) = d_perm d /\ d_dss (remove_all d) = false /\
  d_legal (remove_all d) = false /\ d_ext (remove_all d) = false /\
  d_others (remove_all d) = d_others d.
Proof.
  intros d.
  ra_cases d fm f rest g arr Hfm Hfs Harr; cbn [d_perms d_perm d_dss d_legal d_ext d_others]; repeat split.
Qed.

Lemma pages_remove_all : forall d, wf_doc d ->
  d_pages (remove_all d) = apply_ops (all_ops (visible_fields d)) (d_pages d).
Proof.
  intros d Hwf. unfold wf_doc in Hwf. unfold visible_fields.
  ra_cases d fm f rest g arr Hfm Hfs Harr; cbn [d_pages]; rewrite ?Hwf, ?Hfs; try apply sweep_ops; try reflexivity.
  destruct (d_acro d); reflexivity.
Qed.

Lemma Forall2_map_r : forall (A B : Type) (R : A -> B -> Prop) (h : A -> B) l,
  (forall a, In a l -> R a (h a)) -> Forall2 R l (map h l).
Proof.
  intros A B R h l HR. induction l as [|a rest IH]; simpl; constructor.
  - apply HR. now left.
  - apply IH. intros b Hb. apply HR. now right.
Qed.

Lemma only_sig_probes_removed_all : forall d, wf_doc d -> only_sig_probes_removed d (remove_all d).
Proof.
  intros d Hwf. unfold only_sig_probes_removed.
  pose proof (flags_remove_all d) as [Hp [Hpm [Hd [Hl [He Ho]]]]].
  rewrite (pages_remove_all d Hwf), apply_ops_map.
  split; [apply visible_fields_remove_all|].
  split; [rewrite map_map; reflexivity|].
  split.
  - apply Forall2_map_r. intros [pid a] _. simpl. split; [reflexivity|].
    exists (in_ops (all_ops (visible_fields d)) pid). split; [apply alist_ops_on|].
    intros v Hv. apply in_ops_In in Hv. apply all_ops_shape in Hv as [f [Hf [Hk Hs]]].
    exists f. repeat split; assumption.
  - repeat split; try assumption. apply visible_sigflags_remove_all.
Qed.

(* ---------- the supported class ---------- *)
Lemma nodes_no_sig : forall f inh, osig inh = false -> own_sig f = false ->
  forall x, In x (nodes inh f) -> osig (snd x) = false.
Proof.
  intros f inh Hinh Hown x Hx.
  pose proof (own_sig_nodes f inh Hinh) as He. rewrite Hown in He.
  destruct (osig (snd x)) eqn:Hs; [|reflexivity].
  assert (existsb nsig (nodes inh f) = true) as Ht
    by (apply existsb_exists; exists x; split; assumption).
  congruence.
Qed.

Lemma top_ok_keep : forall f, top_ok f = true -> keep f = true ->
  forall x, In x (nodes None f) -> osig (snd x) = false.
Proof.
  intros f Hok Hk x Hx. unfold top_ok, keep in *.
  destruct (f_ft f) as [t|] eqn:Hft; [|discriminate].
  destruct t; simpl in Hk; try discriminate;
    (unfold no_nested_sig in Hok; apply negb_true_iff in Hok;
     exact (nodes_no_sig f None eq_refl Hok x Hx)).
Qed.

Lemma top_ok_drop : forall f, top_ok f = true -> keep f = false ->
  forall x, In x (nodes None f) -> osig (snd x) = true.
Proof.
  intros f Hok Hk x Hx. unfold top_ok, keep in *.
  destruct (f_ft f) as [t|] eqn:Hft; [|discriminate].
  destruct t; simpl in Hk; try discriminate.
  unfold all_sig_below in Hok. rewrite forallb_forall in Hok. now apply Hok.
Qed.

Lemma forest_filter_keep : forall fields, forallb top_ok fields = true ->
  forest_nodes (filter keep fields) = nonsig_nodes fields.
Proof.
  unfold nonsig_nodes, forest_nodes.
  induction fields as [|f rest IH]; intros Hok; simpl; [reflexivity|].
  simpl in Hok. apply andb_true_iff in Hok as [Hf Hrest].
  rewrite filter_app. destruct (keep f) eqn:Hk; simpl.
  - rewrite IH by assumption. f_equal. symmetry. apply filter_all.
    intros x Hx. now rewrite (top_ok_keep f Hf Hk x Hx).
  - rewrite IH by assumption.
    rewrite (filter_none _ _ (nodes None f)); [reflexivity|].
    intros x Hx. now rewrite (top_ok_drop f Hf Hk x Hx).
Qed.

Lemma nonsig_nodes_no_sig : forall fields x, In x (nonsig_nodes fields) -> osig (snd x) = false.
Proof.
  intros fields x Hx. unfold nonsig_nodes in Hx. apply filter_In in Hx as [_ Hs].
  now apply negb_true_iff in Hs.
Qed.

Lemma ops_ids_in_nodes : forall f o, In o (ops f) -> In (snd o) (map fst (nodes None f)).
Proof.
  intros f o Ho. destruct (ops_shape f o Ho) as [Hs|[k [Hks Hs]]]; rewrite Hs;
    destruct f as [i t w r p ks]; rewrite nodes_eq; simpl.
  - now left.
  - right. simpl in Hks. subst ks. simpl. rewrite app_nil_r.
    destruct k as [ki kt kw kr kp kks]. rewrite nodes_eq. simpl. now left.
Qed.

(* under top_ok, every removal pair names a signature dictionary *)
Lemma all_ops_sig : forall fields o, forallb top_ok fields = true -> In o (all_ops fields) ->
  In (snd o) (map fst (filter nsig (forest_nodes fields))).
Proof.
  intros fields o Hok Ho. unfold all_ops in Ho. apply in_flat_map in Ho as [f [Hf Hof]].
  apply filter_In in Hf as [Hf Hk]. apply negb_true_iff in Hk.
  rewrite forallb_forall in Hok. specialize (Hok f Hf).
  apply ops_ids_in_nodes in Hof. apply in_map_iff in Hof as [x [Hx1 Hx2]].
  apply in_map_iff. exists x. split; [assumption|].
  apply filter_In. split.
  - unfold forest_nodes. apply in_flat_map. exists f. split; assumption.
  - unfold nsig. now apply (top_ok_drop f Hok Hk).
Qed.

Lemma on_some_page_sub : forall pages pages' v,
  (forall pg', In pg' pages' -> exists pg, In pg pages /\ forall x, In x (alist (snd pg')) -> In x (alist (snd pg))) ->
  on_some_page pages' v = true -> on_some_page pages v = true.
Proof.
  intros pages pages' v Hsub Hon. unfold on_some_page in *.
  apply existsb_exists in Hon as [pg' [Hpg' Hv]].
  destruct (Hsub pg' Hpg') as [pg [Hpg Hincl]].
  apply existsb_exists. exists pg. split; [assumption|].
  apply existsb_exists in Hv as [x [Hx Hxv]].
  apply existsb_exists. exists x. split; [now apply Hincl|assumption].
Qed.

Section Supported.
  Variable d : doc.
  Hypothesis Hsup : supported d = true.

  Let Hparts : d_acro d = true /\ forallb top_ok (visible_fields d) = true /\
    existsb (fun o : N * option ftype => osig (snd o) && on_some_page (d_pages d) (fst o)) (d_others d) = false /\
    widgets_reached d = true.
  Proof.
    unfold supported in Hsup.
    apply andb_true_iff in Hsup as [H1 Hw]. apply andb_true_iff in H1 as [H2 Ho].
    apply andb_true_iff in H2 as [Ha Ht].
    apply negb_true_iff in Ho. repeat split; assumption.
  Qed.

  Lemma supported_wf : wf_doc d.
  Proof.
    destruct Hparts as [Ha _]. unfold wf_doc. destruct (d_form d); [assumption|exact I].
  Qed.

  Lemma supported_pages :
    d_pages (remove_all d) =
    map (fun pg : page => (fst pg, ops_on (all_ops (visible_fields d)) (fst pg) (snd pg))) (d_pages d).
  Proof. rewrite (pages_remove_all d supported_wf). apply apply_ops_map. Qed.

  (* on a page, "is removed by the sweep" and "is a signature dictionary" coincide *)
  Lemma removed_iff_sig : forall pg v, In pg (d_pages d) -> In v (alist (snd pg)) ->
    in_ops (all_ops (visible_fields d)) (fst pg) v = mem v (sig_ids d).
  Proof.
    intros pg v Hpg Hv. destruct Hparts as [_ [Htop [Hoth Hw]]].
    destruct (mem v (sig_ids d)) eqn:Hm.
    - unfold widgets_reached in Hw. rewrite forallb_forall in Hw. specialize (Hw pg Hpg).
      rewrite forallb_forall in Hw. specialize (Hw v Hv). rewrite Hm in Hw. exact Hw.
    - destruct (in_ops (all_ops (visible_fields d)) (fst pg) v) eqn:Hi; [|reflexivity].
      apply in_ops_In in Hi. apply (all_ops_sig _ _ Htop) in Hi. simpl in Hi.
      assert (mem v (sig_ids d) = true) as Ht.
      { apply mem_In. unfold sig_ids. apply in_or_app. left. exact Hi. }
      congruence.
  Qed.

  Lemma supported_non_sig_unchanged : non_sig_unchanged d (remove_all d).
  Proof.
    destruct Hparts as [_ [Htop _]].
    pose proof (flags_remove_all d) as [_ [_ [_ [_ [_ Ho]]]]].
    unfold non_sig_unchanged. rewrite supported_pages.
    split; [rewrite visible_fields_remove_all; now apply forest_filter_keep|].
    split; [apply visible_fields_remove_all|].
    split; [rewrite map_map; reflexivity|].
    split; [|assumption].
    apply Forall2_map_r. intros pg Hpg. simpl. split; [reflexivity|].
    rewrite alist_ops_on. apply filter_ext_in. intros v Hv.
    now rewrite (removed_iff_sig pg v Hpg Hv).
  Qed.

  Lemma supported_no_sig_left : no_sig_left d (remove_all d).
  Proof.
    destruct Hparts as [_ [Htop [Hoth _]]].
    pose proof (flags_remove_all d) as [Hp [Hpm [Hd [Hl [He Ho]]]]].
    pose proof supported_non_sig_unchanged as [Hforest [_ [_ [Hpages _]]]].
    assert (Hnodes : forall x, In x (forest_nodes (visible_fields (remove_all d))) -> osig (snd x) = false).
    { intros x Hx. rewrite Hforest in Hx. eapply nonsig_nodes_no_sig. exact Hx. }
    assert (Hpg : forall pg v, In pg (d_pages (remove_all d)) -> In v (alist (snd pg)) ->
                               mem v (sig_ids d) = false /\
                               exists pg0, In pg0 (d_pages d) /\ In v (alist (snd pg0))).
    { intros pg v Hin Hv. rewrite supported_pages in Hin. apply in_map_iff in Hin as [pg0 [Heq Hin0]].
      subst pg. simpl in Hv. rewrite alist_ops_on in Hv. apply filter_In in Hv as [Hv0 Hrm].
      rewrite (removed_iff_sig pg0 v Hin0 Hv0) in Hrm. apply negb_true_iff in Hrm.
      split; [assumption|]. exists pg0. split; assumption. }
    unfold no_sig_left. split; [|split; [exact Hnodes|split]].
    - unfold sig_ids. rewrite Ho.
      rewrite (filter_none _ _ (forest_nodes _)); [|exact Hnodes]. simpl.
      rewrite (filter_none _ _ (d_others d)); [reflexivity|].
      intros o Hin. apply andb_false_iff.
      destruct (osig (snd o)) eqn:Hs; [right|left; reflexivity].
      destruct (on_some_page (d_pages (remove_all d)) (fst o)) eqn:Hon; [|reflexivity].
      assert (on_some_page (d_pages d) (fst o) = true) as Hon0.
      { eapply on_some_page_sub; [|exact Hon].
        intros pg' Hpg'. rewrite supported_pages in Hpg'. apply in_map_iff in Hpg' as [pg0 [Heq Hin0]].
        exists pg0. split; [assumption|]. intros x Hx. subst pg'. simpl in Hx.
        rewrite alist_ops_on in Hx. now apply filter_In in Hx as [Hx0 _]. }
      assert (existsb (fun o0 : N * option ftype => osig (snd o0) && on_some_page (d_pages d) (fst o0)) (d_others d) = true) as Hex.
      { apply existsb_exists. exists o. split; [assumption|]. now rewrite Hs, Hon0. }
      congruence.
    - intros pg v Hin Hv. now destruct (Hpg pg v Hin Hv).
    - repeat split; try assumption. apply visible_sigflags_remove_all.
  Qed.
End Supported.

(* ---------- no signatures <-> error, nothing written ---------- *)
Lemma sig_ids_nil_has_sigs : forall d, wf_doc d -> (sig_ids d = [] <-> has_sigs d = false).
Proof.
  intros d Hwf. unfold sig_ids, has_sigs.
  assert (Hvis : visible_fields d = match d_form d with Some fm => fm_fields fm | None => [] end).
  { unfold visible_fields, wf_doc in *. destruct (d_form d); [now rewrite Hwf|].
    destruct (d_acro d); reflexivity. }
  rewrite Hvis. rewrite <- own_sig_forest.
  change (fun x : N * option ftype => osig (snd x)) with nsig.
  generalize (forest_nodes match d_form d with Some fm => fm_fields fm | None => [] end) as F.
  generalize (fun o : N * option ftype => osig (snd o) && on_some_page (d_pages d) (fst o)) as g.
  intros g F. split.
  - intros Hnil. apply app_eq_nil in Hnil as [H1 H2].
    apply map_eq_nil in H1. apply map_eq_nil in H2.
    apply filter_nil_existsb in H1. apply filter_nil_existsb in H2.
    now rewrite H1, H2.
  - intros Hh. apply orb_false_iff in Hh as [H1 H2].
    apply filter_nil_existsb in H1. apply filter_nil_existsb in H2.
    now rewrite H1, H2.
Qed.

Lemma no_sigs_error : forall d, wf_doc d -> (sig_ids d = [] <-> remove_signatures d = None).
Proof.
  intros d Hwf. rewrite (sig_ids_nil_has_sigs d Hwf). unfold remove_signatures.
  destruct (has_sigs d); split; intros H; try reflexivity; discriminate.
Qed.

Lemma sigs_removed : forall d d', remove_signatures d = Some d' -> d' = remove_all d /\ has_sigs d = true.
Proof.
  intros d d' H. unfold remove_signatures in H. destruct (has_sigs d); [|discriminate].
  inversion H. split; reflexivity.
Qed.

(* ---------- catalog clean-up: every layout, with or without a usable form ---------- *)
Lemma catalog_cleared : forall d d', remove_signatures d = Some d' ->
  d_perms d' = false /\ d_dss d' = false /\ d_legal d' = false /\ d_ext d' = false.
Proof.
  intros d d' H. apply sigs_removed in H as [Hd _]. subst d'.
  pose proof (flags_remove_all d) as [Hp [_ [Hd [Hl [He _]]]]]. repeat split; assumption.
Qed.

(* form = None (no /AcroForm, or validation dropped it): nothing but the catalog changes *)
Lemma no_form_remove_all : forall d, d_form d = None ->
  d_pages (remove_all d) = d_pages d /\ d_others (remove_all d) = d_others d /\
  d_form (remove_all d) = None /\ d_acro (remove_all d) = d_acro d /\ d_perm (remove_all d) = d_perm d.
Proof. intros d H. unfold remove_all. rewrite H. simpl. repeat split; assumption. Qed.
