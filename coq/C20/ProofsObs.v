(* C20 — what equal unfoldings let a reader conclude (navigation lemmas), and the
   executable comparison simb decides sim. *)
From Coq Require Import List ZArith NArith Bool Lia.
From PV Require Import C20.Model C20.Spec C20.Proofs.
Import ListNotations.
Open Scope Z_scope.

Definition atom (o : obj) : bool :=
  match o with ONull | OBool _ | OInt _ | OFloat _ | OName _ | OStr _ | OHex _ => true | _ => false end.

Lemma same_unfolding_atom : forall g1 o1 g2 o2,
  same_unfolding g1 o1 g2 o2 -> atom (deref g1 o1) = true -> deref g2 o2 = deref g1 o1.
Proof.
  intros g1 o1 g2 o2 H A. pose proof (H 1%nat) as H1. simpl in H1.
  destruct (deref g1 o1), (deref g2 o2); simpl in *; try contradiction; try discriminate; congruence.
Qed.

Lemma F2_length : forall (R : obj -> obj -> Prop) l1 l2, Forall2 R l1 l2 -> length l1 = length l2.
Proof. intros R l1 l2 F. induction F; simpl; auto. Qed.

Lemma F2_nth : forall (R : obj -> obj -> Prop) l1 l2, Forall2 R l1 l2 ->
  forall i x y, nth_error l1 i = Some x -> nth_error l2 i = Some y -> R x y.
Proof.
  intros R l1 l2 F. induction F as [|a b t1 t2 Hab F IH]; intros i x y Hx Hy.
  - destruct i; discriminate.
  - destruct i as [|j]; simpl in Hx, Hy.
    + inversion Hx; inversion Hy; subst. exact Hab.
    + exact (IH j x y Hx Hy).
Qed.

Lemma same_unfolding_array : forall g1 o1 g2 o2 l1,
  same_unfolding g1 o1 g2 o2 -> deref g1 o1 = OArr l1 ->
  exists l2, deref g2 o2 = OArr l2 /\ length l1 = length l2 /\
             forall i x y, nth_error l1 i = Some x -> nth_error l2 i = Some y -> same_unfolding g1 x g2 y.
Proof.
  intros g1 o1 g2 o2 l1 H E.
  pose proof (H 1%nat) as H1. simpl in H1. rewrite E in H1.
  destruct (deref g2 o2) eqn:E2; simpl in H1; try contradiction.
  exists l. split. reflexivity. split. exact (F2_length _ _ _ H1).
  intros i x y Hx Hy n. pose proof (H (S n)) as Hn. simpl in Hn. rewrite E, E2 in Hn. simpl in Hn.
  exact (F2_nth _ _ _ Hn i x y Hx Hy).
Qed.

Lemma same_unfolding_dict : forall g1 o1 g2 o2 d1,
  same_unfolding g1 o1 g2 o2 -> deref g1 o1 = ODict d1 ->
  exists d2, deref g2 o2 = ODict d2 /\
    forall k, match lookup k d1, lookup k d2 with
              | None, None => True
              | Some v1, Some v2 => same_unfolding g1 (norm g1 d1 k v1) g2 (norm g2 d2 k v2)
              | _, _ => False end.
Proof.
  intros g1 o1 g2 o2 d1 H E.
  pose proof (H 1%nat) as H1. simpl in H1. rewrite E in H1.
  destruct (deref g2 o2) eqn:E2; simpl in H1; try contradiction.
  exists d. split. reflexivity. intro k. pose proof (H1 k) as Hk.
  destruct (lookup k d1) eqn:L1, (lookup k d) eqn:L2; try contradiction; auto.
  intro n. pose proof (H (S n)) as Hn. simpl in Hn. rewrite E, E2 in Hn. simpl in Hn.
  specialize (Hn k). rewrite L1, L2 in Hn. exact Hn.
Qed.

Lemma same_unfolding_stream : forall g1 o1 g2 o2 d1 r1,
  same_unfolding g1 o1 g2 o2 -> deref g1 o1 = OStream d1 r1 ->
  exists d2 r2, deref g2 o2 = OStream d2 r2 /\ rawbytes r1 = rawbytes r2 /\
    forall k, match lookup k d1, lookup k d2 with
              | None, None => True
              | Some v1, Some v2 => same_unfolding g1 (norm g1 d1 k v1) g2 (norm g2 d2 k v2)
              | _, _ => False end.
Proof.
  intros g1 o1 g2 o2 d1 r1 H E.
  pose proof (H 1%nat) as H1. simpl in H1. rewrite E in H1.
  destruct (deref g2 o2) eqn:E2; simpl in H1; try contradiction.
  destruct H1 as [H1 Hr].
  exists d, raw. split. reflexivity. split. exact Hr. intro k. pose proof (H1 k) as Hk.
  destruct (lookup k d1) eqn:L1, (lookup k d) eqn:L2; try contradiction; auto.
  intro n. pose proof (H (S n)) as Hn. simpl in Hn. rewrite E, E2 in Hn. simpl in Hn.
  destruct Hn as [Hn _]. specialize (Hn k). rewrite L1, L2 in Hn. exact Hn.
Qed.

(* ---- simb decides sim ---- *)
Section Dec.
  Variables g1 g2 : graph.
  Variable rec : obj -> obj -> bool.
  Variable R : obj -> obj -> Prop.
  Hypothesis Hrec : forall x y, rec x y = true <-> R x y.

  Lemma simb_list_spec : forall l1 l2, simb_list rec l1 l2 = true <-> Forall2 R l1 l2.
  Proof.
    induction l1 as [|x t1 IH]; destruct l2 as [|y t2]; simpl; split; intro H; try discriminate; try constructor; try inversion H; subst; auto.
    - apply andb_true_iff in H. apply Hrec. apply H.
    - apply andb_true_iff in H. apply IH. apply H.
    - apply andb_true_iff. split. apply Hrec. assumption. apply IH. assumption.
  Qed.

  Lemma simb_entry_spec : forall d1 d2 k, simb_entry g1 g2 rec d1 d2 k = true <->
    match lookup k d1, lookup k d2 with
    | None, None => True
    | Some v1, Some v2 => R (norm g1 d1 k v1) (norm g2 d2 k v2)
    | _, _ => False end.
  Proof.
    intros d1 d2 k. unfold simb_entry.
    destruct (lookup k d1), (lookup k d2); try apply Hrec; split; intro H; auto; try discriminate; contradiction.
  Qed.

  Lemma simb_dict_spec : forall d1 d2, simb_dict g1 g2 rec d1 d2 = true <-> simdict R g1 g2 d1 d2.
  Proof.
    intros d1 d2. unfold simb_dict, simdict. split.
    - intros H k. apply andb_true_iff in H. destruct H as [H1 H2].
      rewrite forallb_forall in H1, H2.
      destruct (lookup k d1) as [v1|] eqn:L1.
      + pose proof (H1 (k, v1) (lookup_In _ _ _ L1)) as Hk. simpl in Hk.
        apply simb_entry_spec in Hk. rewrite L1 in Hk. exact Hk.
      + destruct (lookup k d2) as [v2|] eqn:L2; auto.
        pose proof (H2 (k, v2) (lookup_In _ _ _ L2)) as Hk. simpl in Hk.
        apply simb_entry_spec in Hk. rewrite L1, L2 in Hk. exact Hk.
    - intro H. apply andb_true_iff. split; apply forallb_forall; intros [k v] _; simpl;
        apply simb_entry_spec; apply H.
  Qed.
End Dec.

Theorem simb_spec : forall n g1 o1 g2 o2, simb n g1 o1 g2 o2 = true <-> sim n g1 o1 g2 o2.
Proof.
  induction n as [|m IH]; intros g1 o1 g2 o2; simpl. split; auto.
  assert (forall x y, simb m g1 x g2 y = true <-> sim m g1 x g2 y) as Hrec by (intros; apply IH).
  destruct (deref g1 o1), (deref g2 o2); simpl; try (split; intro H; [discriminate|contradiction]).
  - split; auto.
  - split; intro H. apply Bool.eqb_prop; exact H. subst; apply Bool.eqb_reflx.
  - apply Z.eqb_eq.
  - apply beqb_eq.
  - apply beqb_eq.
  - apply beqb_eq.
  - apply beqb_eq.
  - apply IH.
  - apply simb_list_spec. exact Hrec.
  - apply simb_dict_spec. exact Hrec.
  - rewrite andb_true_iff. rewrite (simb_dict_spec g1 g2 _ _ Hrec). rewrite beqb_eq. reflexivity.
Qed.
