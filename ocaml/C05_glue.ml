open Model
open Common
let hb = hex_of_bytes
let bh = bytes_of_hex
let res_b r = match r with Ok v -> "ok:" ^ hb v | Err -> "err"
(* list of byte strings: comma separated hex, "-" = empty string, "" = empty list *)
let blist_of_string s =
  if s = "" then [] else List.map (fun x -> if x = "-" then [] else bh x) (String.split_on_char ',' s)
let string_of_blist l = String.concat "," (List.map (fun x -> if x = [] then "-" else hb x) l)
let dispatch fn args = match fn, args with
  | "Path", [s] -> res_b (path (bh s))
  | "PathOr", [s; f] -> hb (pathOr (bh s) (bh f))
  | "clean", [p] -> hb (clean (bh p))
  | "join2", [a; b] -> hb (join2 (bh a) (bh b))
  | "base", [p] -> hb (baseOf (bh p))
  | "dir", [p] -> hb (dirOf (bh p))
  | "dec", [n] -> hb (dec (n_of_hex n))
  | "outPath", [d; i; s] -> hb (attachmentOutputPath (bh d) (n_of_hex i) (bh s))
  | "resPath", [p; t] -> hb (attachmentReservationPath (bh p) (bh t))
  | "writeAttachments", [d; names] ->
      (* 16-character token, like hex.EncodeToString of 8 random bytes *)
      let ((fs, written), st) = writeAttachments nameTooLong [] (bh d) (blist_of_string names) (bh "30313233343536373839616263646566") in
      let l = String.concat "," (List.sort compare (List.map hb fs)) in
      (match int_of_n st with 0 -> "ok:" | 1 -> "collision:" | _ -> "error:") ^ l
  | "imageFileName", [a; b; c; d] -> hb (imageFileName (bh a) (bh b) (bh c) (bh d))
  | "fontFileName", [a; b; c] -> hb (fontFileName (bh a) (bh b) (bh c))
  | "bookmarkFileName", [i; t] -> hb (bookmarkFileName (n_of_hex i) (bh t))
  | "csvName", [r; d] -> hb (multiFillCSVName (bh r) (bh d))
  | "metadataFileName", [a; b; c; d] -> hb (metadataFileName (bh a) (bh b) (bh c) (bh d))
  | "splitBookmarks", [d; titles] ->
      let (w, ok) = splitAlongBookmarks stagedTooLong (bh d) (blist_of_string titles) in
      (if ok then "ok:" else "error:") ^ String.concat "," (List.sort_uniq compare (List.map hb w))
  | "gobFileName", [p] -> res_b (gobFileName (bh p))
  | "classRange", [lo; n] ->
      String.concat "," (List.map (fun (r, (f, u)) -> hex_of_n r ^ ":" ^ hex_of_n f ^ ":" ^ hex_of_n u)
        (classRange (nat_of_int (int_of_n (n_of_hex n))) (n_of_hex lo)))
  | "decode", [s] -> String.concat "," (List.map (fun (r, w) -> hex_of_n r ^ ":" ^ hex_of_n w) (decode (bh s)))
  | "encode", [rs] -> hb (encode (nlist_of_string rs))
  | _ -> failwith ("unknown function " ^ fn)
let () = main dispatch
