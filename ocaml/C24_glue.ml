(* C24 glue: code model (functions c_...) and specification model (functions alg...) of the RC4 and MD5 based algorithms, R 2,3,4. *)
open Model
open Common

let enc o u p id r l emd =
  { eO = bytes_of_hex o; eU = bytes_of_hex u; eOE = []; eUE = []; ePerms = []; eL = n_of_hex l; eP = z_of_hex p;
    eR = n_of_hex r; eEmd = bool_of_str emd; eID = bytes_of_hex id }

let ok_key (ok, key) = str_of_bool ok ^ "|" ^ hex_of_bytes key

(* SHA-2 / AES are parameters of the R5/R6 models: they are replayed from a tape recorded by the harness
   (entries "md5hex(prim:arghex:...)=resulthex" separated by ';'); a query that is not on the tape is an error, so the
   model has to ask for exactly the primitive applications the recorded computation made. *)
let load_tape (t : string) : (string, string) Hashtbl.t =
  let h = Hashtbl.create 64 in
  if t <> "" then List.iter (fun e ->
    match String.index_opt e '=' with
    | Some i -> Hashtbl.replace h (String.sub e 0 i) (String.sub e (i + 1) (String.length e - i - 1))
    | None -> failwith "bad tape entry") (String.split_on_char ';' t);
  h

let query h prim (args : n list list) : n list =
  let k = Digest.to_hex (Digest.string (String.concat ":" (prim :: List.map hex_of_bytes args))) in
  match Hashtbl.find_opt h k with
  | Some v -> bytes_of_hex v
  | None -> failwith ("primitive application not on the tape: " ^ prim)

let opt_bytes s = if s = "!" then None else Some (bytes_of_hex s)
let vres_key (v, key) = match v with VOk -> "ok|" ^ hex_of_bytes key | VNo -> "no" | VErr -> "err"
let b = bytes_of_hex
let aes_enc r o u oe ue perms p emd =
  { eO = b o; eU = b u; eOE = b oe; eUE = b ue; ePerms = b perms; eL = n_of_int 256; eP = z_of_hex p;
    eR = n_of_hex r; eEmd = bool_of_str emd; eID = [] }

let dispatch_aes fn args = match fn, args with
  | _, [] -> failwith "no tape"
  | _, tape :: rest ->
    let h = load_tape tape in
    let h256 x = query h "h256" [x] and h384 x = query h "h384" [x] and h512 x = query h "h512" [x] in
    let ce k iv d = query h "ce" [k; iv; d] and cd k iv d = query h "cd" [k; iv; d] in
    let ee k blk = query h "ee" [k; blk] and ed k blk = query h "ed" [k; blk] in
    (match fn, rest with
     | "aes_hash6", [input; pw; u] ->
       (match c_hashRev6 h256 h384 h512 ce (b input) (b pw) (b u) with Some x -> hex_of_bytes x | None -> "none")
     | "s_alg2B", [input; pw; u] ->
       (match alg2B h256 h384 h512 ce (b input) (b pw) (b u) with Some x -> hex_of_bytes x | None -> "none")
     | "aes_vuser", [r; pw; prep; u; ue] ->
       vres_key (c_validate_user_aes h256 h384 h512 ce cd (fun _ -> opt_bytes prep) (b pw) (aes_enc r "" u "" ue "" "0" "true"))
     | "aes_vowner", [r; pw; prep; o; oe; u] ->
       vres_key (c_validate_owner_aes h256 h384 h512 ce cd (fun _ -> opt_bytes prep) (b pw) (aes_enc r o u oe "" "" "0" "true"))
     | "s_alg11", [r; pw; prep; u; ue] ->
       (match alg11 h256 h384 h512 ce cd (fun _ -> opt_bytes prep) (n_of_hex r) (b pw) (b u) (b ue) with
        | None -> "err" | Some (true, k) -> "ok|" ^ hex_of_bytes k | Some (false, _) -> "no")
     | "s_alg12", [r; pw; prep; o; oe; u] ->
       (match alg12 h256 h384 h512 ce cd (fun _ -> opt_bytes prep) (n_of_hex r) (b pw) (b o) (b oe) (b u) with
        | None -> "err" | Some (true, k) -> "ok|" ^ hex_of_bytes k | Some (false, _) -> "no")
     | "aes_calc", [r; upw; uprep; opw; oprep; ru; ro; fk] ->
       let prep x = if hex_of_bytes x = String.lowercase_ascii upw then opt_bytes uprep
                    else if hex_of_bytes x = String.lowercase_ascii opw then opt_bytes oprep
                    else failwith "prep: unexpected password" in
       (match c_calc_ou_aes h256 h384 h512 ce prep (n_of_hex r) (b upw) (b opw) (b ru) (b ro) (b fk) with
        | None -> "none"
        | Some (((u, o), ue), oe) -> String.concat "|" (List.map hex_of_bytes [u; o; ue; oe]))
     | "s_alg89", [r; upw; uprep; opw; oprep; vsu; ksu; vso; kso; fk] ->
       (match alg8 h256 h384 h512 ce (fun _ -> opt_bytes uprep) (n_of_hex r) (b upw) (b vsu) (b ksu) (b fk) with
        | None -> "none"
        | Some (u, ue) ->
          (match alg9 h256 h384 h512 ce (fun _ -> opt_bytes oprep) (n_of_hex r) (b opw) (b vso) (b kso) u (b fk) with
           | None -> "none"
           | Some (o, oe) -> String.concat "|" (List.map hex_of_bytes [u; o; ue; oe])))
     | "aes_wperms", [p; emd; fk] ->
       (match c_write_perms ee (z_of_hex p) (bool_of_str emd) (b fk) with Some x -> hex_of_bytes x | None -> "none")
     | "s_alg10", [p; emd; rnd; fk] -> hex_of_bytes (alg10 ee (z_of_hex p) (bool_of_str emd) (b rnd) (b fk))
     | "aes_vperms", [perms; p; emd; fk] ->
       (match c_validate_perms ed (aes_enc "5" "" "" "" "" perms p emd) (b fk) with VOk -> "ok" | VNo -> "no" | VErr -> "err")
     | "s_alg13", [perms; p; emd; fk] -> str_of_bool (alg13 ed (b perms) (b fk) (z_of_hex p) (bool_of_str emd))
     | _ -> failwith ("unknown function " ^ fn))

let dispatch fn args = match fn, args with
  | "aes_prepared", [raw; prep] ->
    (* the password bytes of R5/R6: firstn 127 of the prepared password *)
    (match c_prepared_password (fun _ -> opt_bytes prep) (bytes_of_hex raw) with Some x -> hex_of_bytes x | None -> "!")
  | ("aes_hash6" | "s_alg2B" | "aes_vuser" | "aes_vowner" | "s_alg11" | "s_alg12" | "aes_calc" | "s_alg89"
    | "aes_wperms" | "s_alg10" | "aes_vperms" | "s_alg13"), _ -> dispatch_aes fn args
  | "md5", [m] -> hex_of_bytes (md5 (bytes_of_hex m))
  | "rc4", [k; d] -> hex_of_bytes (rc4 (bytes_of_hex k) (bytes_of_hex d))
  | "encKey", [pw; o; p; id; r; l; emd] -> hex_of_bytes (c_encKey (bytes_of_hex pw) (enc o "" p id r l emd))
  | "s_alg2", [pw; o; p; id; r; l; emd] ->
    hex_of_bytes (alg2 (bytes_of_hex pw) (bytes_of_hex o) (z_of_hex p) (bytes_of_hex id) (n_of_hex r) (n_of_hex l) (bool_of_str emd))
  | "key", [opw; upw; r; l] -> hex_of_bytes (c_key (bytes_of_hex opw) (bytes_of_hex upw) (n_of_hex r) (n_of_hex l))
  | "o", [opw; upw; r; l] -> hex_of_bytes (c_o (bytes_of_hex opw) (bytes_of_hex upw) (n_of_hex r) (n_of_hex l))
  | "s_alg3", [opw; upw; r; l] -> hex_of_bytes (alg3 (bytes_of_hex opw) (bytes_of_hex upw) (n_of_hex r) (n_of_hex l))
  | "u", [pw; o; p; id; r; l; emd] ->
    let (u, key) = c_u (bytes_of_hex pw) (enc o "" p id r l emd) in hex_of_bytes u ^ "|" ^ hex_of_bytes key
  | "s_alg45", [pw; o; p; id; r; l; emd] ->
    let key = alg2 (bytes_of_hex pw) (bytes_of_hex o) (z_of_hex p) (bytes_of_hex id) (n_of_hex r) (n_of_hex l) (bool_of_str emd) in
    if int_of_n (n_of_hex r) = 2 then hex_of_bytes (alg4 key) else hex_of_bytes (alg5_16 key (bytes_of_hex id))
  | "vuser", [pw; o; u; p; id; r; l; emd] -> ok_key (c_validate_user_rc4 (bytes_of_hex pw) (enc o u p id r l emd))
  | "s_alg6", [pw; o; u; p; id; r; l; emd] ->
    ok_key (alg6 (bytes_of_hex pw) (bytes_of_hex o) (bytes_of_hex u) (z_of_hex p) (bytes_of_hex id) (n_of_hex r) (n_of_hex l) (bool_of_str emd))
  | "vowner", [opw; upw; o; u; p; id; r; l; emd] ->
    ok_key (c_validate_owner_rc4 (bytes_of_hex opw) (bytes_of_hex upw) (enc o u p id r l emd))
  | "s_alg7", [opw; upw; o; u; p; id; r; l; emd] ->
    ok_key (alg7 (bytes_of_hex opw) (bytes_of_hex upw) (bytes_of_hex o) (bytes_of_hex u) (z_of_hex p) (bytes_of_hex id) (n_of_hex r) (n_of_hex l) (bool_of_str emd))
  | _ -> failwith ("unknown function " ^ fn)
let () = main dispatch
