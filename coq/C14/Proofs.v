(* C14 — proofs about coq/C14/Model.v *)
From Coq Require Import ZArith NArith List Bool Lia ZifyBool ZifyNat ZifyN.
From PV Require Import Lib.GoInt C14.Model.
Import ListNotations.
Open Scope Z_scope.
Ltac Zify.zify_post_hook ::= Z.to_euclidean_division_equations.

Arguments digit_char : simpl never.
Local Notation D := digit_char.

Definition isdig (d : Z) : Prop := 0 <= d <= 9.

(* ---------------- printing ---------------- *)

Lemma digits_fuel_lt f x : x < 10 -> digits_fuel (S f) x = [digit_char x].
Proof. intros Hx. simpl. destruct (Z.ltb_spec x 10); [reflexivity | lia]. Qed.

Lemma digits_fuel_ge f x : 10 <= x ->
  digits_fuel (S f) x = digits_fuel f (x / 10) ++ [digit_char (x mod 10)].
Proof. intros Hx. simpl. destruct (Z.ltb_spec x 10); [lia | reflexivity]. Qed.

Lemma dc0 : digit_char 0 = b_0.
Proof. reflexivity. Qed.

Lemma fmt0_2 x : 0 <= x <= 99 -> fmt0 2 x = dec2 x.
Proof.
  intros Hx. unfold fmt0, digits, dec2.
  destruct (Z.ltb_spec x 0) as [Hn|_]; [lia|].
  destruct (Z_lt_le_dec x 10) as [Hs|Hs].
  - rewrite digits_fuel_lt by lia. simpl.
    replace (x / 10) with 0 by lia. replace (x mod 10) with x by lia. reflexivity.
  - rewrite digits_fuel_ge by lia. rewrite digits_fuel_lt by lia. reflexivity.
Qed.

Lemma fmt0_4 x : 0 <= x <= 9999 -> fmt0 4 x = dec4 x.
Proof.
  intros Hx. unfold fmt0, digits, dec4.
  destruct (Z.ltb_spec x 0) as [Hn|_]; [lia|].
  destruct (Z_lt_le_dec x 10) as [H1|H1].
  { rewrite digits_fuel_lt by lia. simpl.
    replace (x / 1000) with 0 by lia. replace (x / 100 mod 10) with 0 by lia.
    replace (x / 10 mod 10) with 0 by lia. replace (x mod 10) with x by lia. reflexivity. }
  rewrite digits_fuel_ge by lia.
  destruct (Z_lt_le_dec x 100) as [H2|H2].
  { rewrite digits_fuel_lt by lia. simpl.
    replace (x / 1000) with 0 by lia. replace (x / 100 mod 10) with 0 by lia.
    replace (x / 10 mod 10) with (x / 10) by lia. reflexivity. }
  rewrite digits_fuel_ge by lia.
  destruct (Z_lt_le_dec x 1000) as [H3|H3].
  { rewrite digits_fuel_lt by lia. simpl.
    replace (x / 1000) with 0 by lia.
    replace (x / 100 mod 10) with (x / 10 / 10) by lia. reflexivity. }
  rewrite digits_fuel_ge by lia. rewrite digits_fuel_lt by lia. simpl.
  replace (x / 1000) with (x / 10 / 10 / 10) by (rewrite !Z.div_div by lia; reflexivity).
  replace (x / 100) with (x / 10 / 10) by (rewrite !Z.div_div by lia; reflexivity). reflexivity.
Qed.

(* ---------------- digit characters ---------------- *)

Lemma char_digit_dc d : isdig d -> char_digit (digit_char d) = Some d.
Proof.
  unfold isdig, char_digit, digit_char. intros Hd.
  destruct (N.leb_spec 48 (Z.to_N (48 + d))); destruct (N.leb_spec (Z.to_N (48 + d)) 57);
    cbn [andb]; try lia. f_equal. lia.
Qed.

Lemma dc_neq d c : isdig d -> (c < 48 \/ 57 < c)%N -> (digit_char d =? c)%N = false.
Proof. unfold isdig, digit_char. intros Hd Hc. apply N.eqb_neq. lia. Qed.

Lemma dc_tzsep d : isdig d -> timezoneSeparator (digit_char d) = false.
Proof.
  intros Hd. unfold timezoneSeparator, b_plus, b_minus, b_Z.
  rewrite !dc_neq by (auto; lia). reflexivity.
Qed.

(* ---------------- Atoi on digit strings ---------------- *)

Lemma atoi_digits_dc acc d r : isdig d ->
  atoi_digits acc (digit_char d :: r) = atoi_digits (acc * 10 + d) r.
Proof. intros Hd. cbn [atoi_digits]. rewrite char_digit_dc by assumption. reflexivity. Qed.

Lemma atoi_body_pos r v : r <> [] -> atoi_digits 0 r = Some v -> 0 <= v <= 9999 ->
  atoi_body false r = Some v.
Proof.
  intros Hr Hd Hv. unfold atoi_body. destruct r as [|b r]; [congruence|]. rewrite Hd.
  change (minS 64) with (-9223372036854775808). change (maxS 64) with 9223372036854775807.
  destruct (Z.leb_spec (-9223372036854775808) v); destruct (Z.leb_spec v 9223372036854775807);
    simpl; try lia. reflexivity.
Qed.

Lemma atoi_dc2 a b : isdig a -> isdig b ->
  atoi [digit_char a; digit_char b] = Some (10 * a + b).
Proof.
  intros Ha Hb. unfold atoi, b_minus, b_plus.
  rewrite !dc_neq by (auto; lia).
  apply atoi_body_pos; [discriminate| |unfold isdig in *; lia].
  rewrite !atoi_digits_dc by assumption. cbn [atoi_digits]. f_equal. lia.
Qed.

Lemma atoi_dc1 a : isdig a -> atoi [digit_char a] = Some a.
Proof.
  intros Ha. unfold atoi, b_minus, b_plus.
  rewrite !dc_neq by (auto; lia).
  apply atoi_body_pos; [discriminate| |unfold isdig in *; lia].
  rewrite !atoi_digits_dc by assumption. cbn [atoi_digits]. f_equal.
Qed.

Lemma atoi_dc4 a b c d : isdig a -> isdig b -> isdig c -> isdig d ->
  atoi [digit_char a; digit_char b; digit_char c; digit_char d] = Some (1000 * a + 100 * b + 10 * c + d).
Proof.
  intros Ha Hb Hc Hd. unfold atoi, b_minus, b_plus.
  rewrite !dc_neq by (auto; lia).
  apply atoi_body_pos; [discriminate| |unfold isdig in *; lia].
  rewrite !atoi_digits_dc by assumption. cbn [atoi_digits]. f_equal. lia.
Qed.

Lemma len_step_more n k v : (k + 2 <= n)%nat -> len_step n k v = More v.
Proof.
  unfold len_step. intros Hn. destruct (Nat.eqb_spec n k); [lia|].
  destruct (Nat.eqb_spec n (S k)); [lia|]. reflexivity.
Qed.

Lemma parseYear_more y3 y2 y1 y0 rest :
  isdig y3 -> isdig y2 -> isdig y1 -> isdig y0 -> (2 <= length rest)%nat ->
  parseYear (D y3 :: D y2 :: D y1 :: D y0 :: rest) = More (1000 * y3 + 100 * y2 + 10 * y1 + y0).
Proof.
  intros H3 H2 H1 H0 Hl. unfold parseYear, slice. cbn [Nat.sub skipn firstn].
  rewrite atoi_dc4 by assumption. apply len_step_more. cbn [length]. lia.
Qed.

Lemma parseMonth_more a0 a1 a2 a3 m1 m0 rest :
  isdig m1 -> isdig m0 -> 1 <= 10 * m1 + m0 <= 12 -> (2 <= length rest)%nat ->
  parseMonth (a0 :: a1 :: a2 :: a3 :: D m1 :: D m0 :: rest) = More (10 * m1 + m0).
Proof.
  intros H1 H0 Hr Hl. unfold parseMonth, slice. cbn [Nat.sub skipn firstn].
  rewrite atoi_dc2 by assumption.
  assert (E : ((10 * m1 + m0 <? 1) || (12 <? 10 * m1 + m0)) = false) by lia. rewrite E.
  apply len_step_more. cbn [length]. lia.
Qed.

Lemma dim_le_31 y m : days_in_month y m <= 31.
Proof.
  unfold days_in_month.
  repeat match goal with |- context [if ?c then _ else _] => destruct c end; lia.
Qed.

Lemma parseDay_more a0 a1 a2 a3 a4 a5 d1 d0 rest y m :
  isdig d1 -> isdig d0 -> 1 <= 10 * d1 + d0 <= days_in_month y m -> (2 <= length rest)%nat ->
  parseDay (a0 :: a1 :: a2 :: a3 :: a4 :: a5 :: D d1 :: D d0 :: rest) y m = More (10 * d1 + d0).
Proof.
  intros H1 H0 Hr Hl. unfold parseDay, slice. cbn [Nat.sub skipn firstn].
  rewrite atoi_dc2 by assumption. pose proof (dim_le_31 y m) as Hd.
  assert (E : ((10 * d1 + d0 <? 1) || (31 <? 10 * d1 + d0)) = false) by lia. rewrite E.
  assert (E2 : (days_in_month y m <? 10 * d1 + d0) = false) by lia. rewrite E2.
  apply len_step_more. cbn [length]. lia.
Qed.

Lemma parseHour_more a0 a1 a2 a3 a4 a5 a6 a7 h1 h0 rest :
  isdig h1 -> isdig h0 -> 10 * h1 + h0 <= 23 -> (2 <= length rest)%nat ->
  parseHour (a0 :: a1 :: a2 :: a3 :: a4 :: a5 :: a6 :: a7 :: D h1 :: D h0 :: rest) = More (10 * h1 + h0).
Proof.
  intros H1 H0 Hr Hl. unfold parseHour, slice. cbn [Nat.sub skipn firstn].
  rewrite atoi_dc2 by assumption.
  assert (E : (23 <? 10 * h1 + h0) = false) by lia. rewrite E.
  apply len_step_more. cbn [length]. lia.
Qed.

Lemma parseMinute_more a0 a1 a2 a3 a4 a5 a6 a7 a8 a9 i1 i0 rest :
  isdig i1 -> isdig i0 -> 10 * i1 + i0 <= 59 -> (2 <= length rest)%nat ->
  parseMinute (a0 :: a1 :: a2 :: a3 :: a4 :: a5 :: a6 :: a7 :: a8 :: a9 :: D i1 :: D i0 :: rest) = More (10 * i1 + i0).
Proof.
  intros H1 H0 Hr Hl. unfold parseMinute, slice. cbn [Nat.sub skipn firstn].
  rewrite atoi_dc2 by assumption.
  assert (E : (59 <? 10 * i1 + i0) = false) by lia. rewrite E.
  apply len_step_more. cbn [length]. lia.
Qed.

Lemma parseSecond_more a0 a1 a2 a3 a4 a5 a6 a7 a8 a9 a10 a11 s1 s0 r0 rest :
  isdig s1 -> isdig s0 -> 10 * s1 + s0 <= 59 ->
  parseSecond (a0 :: a1 :: a2 :: a3 :: a4 :: a5 :: a6 :: a7 :: a8 :: a9 :: a10 :: a11 :: D s1 :: D s0 :: r0 :: rest)
  = SMore (10 * s1 + s0) 14.
Proof.
  intros H1 H0 Hr. unfold parseSecond, slice. cbn [nth]. rewrite dc_tzsep by assumption.
  cbn [Nat.sub skipn firstn]. rewrite atoi_dc2 by assumption.
  assert (E : (59 <? 10 * s1 + s0) = false) by lia. rewrite E.
  cbn [length]. destruct (Nat.eqb_spec (S (S (S (S (S (S (S (S (S (S (S (S (S (S (S (length rest)))))))))))))))) 14); [lia|].
  reflexivity.
Qed.
Lemma split_on_ne sep b r : (b =? sep)%N = false ->
  split_on sep (b :: r) = match split_on sep r with [] => [[b]] | h :: t => (b :: h) :: t end.
Proof. intros E. cbn [split_on]. rewrite E. reflexivity. Qed.

Lemma split_on_eq sep r : split_on sep (sep :: r) = [] :: split_on sep r.
Proof. cbn [split_on]. rewrite N.eqb_refl. reflexivity. Qed.

Lemma parseTimezone_full a0 a1 a2 a3 a4 a5 a6 a7 a8 a9 a10 a11 a12 a13 sg z1 z0 w1 w0 :
  isdig z1 -> isdig z0 -> isdig w1 -> isdig w0 -> 10 * z1 + z0 <= 23 -> 10 * w1 + w0 <= 59 ->
  sg = b_plus \/ sg = b_minus ->
  parseTimezone (a0 :: a1 :: a2 :: a3 :: a4 :: a5 :: a6 :: a7 :: a8 :: a9 :: a10 :: a11 :: a12 :: a13 ::
                 sg :: D z1 :: D z0 :: b_apos :: D w1 :: D w0 :: [b_apos]) 14
  = Some (if (sg =? b_minus)%N then ((10 * z1 + z0) * -1, (10 * w1 + w0) * -1) else (10 * z1 + z0, 10 * w1 + w0)).
Proof.
  intros Hz1 Hz0 Hw1 Hw0 Hh Hm Hsg. unfold parseTimezone. cbn [nth length skipn].
  assert (Esep : timezoneSeparator sg = true) by (destruct Hsg; subst; reflexivity).
  assert (EZ : (sg =? b_Z)%N = false) by (destruct Hsg; subst; reflexivity).
  rewrite Esep. cbn [negb orb Nat.eqb is_nil].
  unfold b_minus at 1. rewrite dc_neq by (auto; lia).
  cbn [map]. unfold b_sp. rewrite !dc_neq by (auto; lia).
  change ((b_apos =? 32)%N) with false. cbv iota.
  unfold b_apos at 1. rewrite split_on_ne by (apply dc_neq; auto; lia).
  rewrite split_on_ne by (apply dc_neq; auto; lia).
  fold b_apos. rewrite split_on_eq.
  unfold b_apos at 1. rewrite split_on_ne by (apply dc_neq; auto; lia).
  rewrite split_on_ne by (apply dc_neq; auto; lia).
  fold b_apos. rewrite split_on_eq. cbn [split_on].
  unfold parseTimezoneHours, parseTimezoneMinutes. rewrite !atoi_dc2 by assumption. rewrite EZ.
  cbn [andb is_nil].
  assert (E1 : Z.rem (10 * z1 + z0) 24 = 10 * z1 + z0) by (unfold isdig in *; lia). rewrite E1.
  assert (E2 : (59 <? 10 * w1 + w0) = false) by lia. rewrite E2.
  destruct (sg =? b_minus)%N; reflexivity.
Qed.
Lemma trim_right0_id l : l <> [] -> last l 0%N <> 0%N -> trim_right0 l = l.
Proof.
  induction l as [|a l IH]; [congruence|]. intros _ Hlast.
  destruct l as [|b r].
  - cbn in Hlast |- *. destruct (N.eqb_spec a 0); [contradiction | reflexivity].
  - change (last (a :: b :: r) 0%N) with (last (b :: r) 0%N) in Hlast.
    cbn [trim_right0]. cbn [trim_right0] in IH. rewrite IH by (congruence || assumption).
    reflexivity.
Qed.

Lemma dec2_dig x : 0 <= x <= 99 -> isdig (x / 10) /\ isdig (x mod 10) /\ 10 * (x / 10) + x mod 10 = x.
Proof. unfold isdig. intros Hx. lia. Qed.

Lemma dec4_dig x : 0 <= x <= 9999 ->
  isdig (x / 1000) /\ isdig (x / 100 mod 10) /\ isdig (x / 10 mod 10) /\ isdig (x mod 10) /\
  1000 * (x / 1000) + 100 * (x / 100 mod 10) + 10 * (x / 10 mod 10) + x mod 10 = x.
Proof. unfold isdig. intros Hx. lia. Qed.

Lemma DateTime_iso y mo d h mi s sg zh zm :
  0 <= y <= 9999 -> 1 <= mo <= 12 -> 1 <= d <= days_in_month y mo ->
  0 <= h <= 23 -> 0 <= mi <= 59 -> 0 <= s <= 59 ->
  sg = b_plus \/ sg = b_minus -> 0 <= zh <= 23 -> 0 <= zm <= 59 ->
  DateTime (iso_string y mo d h mi s sg zh zm) = DOk (Civil y mo d h mi s (signed_off sg zh zm)).
Proof.
  intros Hy Hmo Hd Hh Hmi Hs Hsg Hzh Hzm.
  pose proof (dim_le_31 y mo) as Hdim.
  destruct (dec4_dig y Hy) as (Y3 & Y2 & Y1 & Y0 & EY).
  destruct (dec2_dig mo ltac:(lia)) as (M1 & M0 & EM).
  destruct (dec2_dig d ltac:(lia)) as (D1 & D0 & ED).
  destruct (dec2_dig h ltac:(lia)) as (H1 & H0 & EH).
  destruct (dec2_dig mi ltac:(lia)) as (I1 & I0 & EI).
  destruct (dec2_dig s ltac:(lia)) as (S1 & S0 & ES).
  destruct (dec2_dig zh ltac:(lia)) as (Z1 & Z0 & EZ).
  destruct (dec2_dig zm ltac:(lia)) as (W1 & W0 & EW).
  unfold iso_string, dec4, dec2. cbn [app].
  unfold DateTime, prevalidate_strict.
  cbn [has_prefix]. change ((254 =? b_D)%N) with false. cbn [andb].
  unfold trim_prefix. cbn [has_prefix]. change ((239 =? b_D)%N) with false. cbn [andb].
  rewrite trim_right0_id by (cbn [last]; discriminate).
  cbn [length Nat.ltb Nat.leb]. cbn [has_prefix]. rewrite !N.eqb_refl. cbn [andb skipn].
  rewrite parseYear_more by (assumption || (cbn [length]; lia)).
  rewrite parseMonth_more by (assumption || (cbn [length]; lia) || lia).
  rewrite EY, EM.
  rewrite parseDay_more by (assumption || (cbn [length]; lia) || lia).
  rewrite parseHour_more by (assumption || (cbn [length]; lia) || lia).
  rewrite parseMinute_more by (assumption || (cbn [length]; lia) || lia).
  rewrite parseSecond_more by (assumption || lia).
  rewrite parseTimezone_full by (assumption || lia).
  rewrite ED, EH, EI, ES, EZ, EW. unfold signed_off.
  destruct (sg =? b_minus)%N; do 2 f_equal; lia.
Qed.

(* sign byte, zone hours and zone minutes that DateString prints for an offset *)
Definition off_sign (off : Z) : N := if off <? 0 then b_minus else b_plus.
Definition off_hours (off : Z) : Z := Z.abs off / 3600.
Definition off_minutes (off : Z) : Z := Z.abs off / 60 mod 60.

Lemma DateString_iso t : in_scope t ->
  DateString t = iso_string (cy t) (cmo t) (cd t) (ch t) (cmi t) (cs t)
                            (off_sign (coff t)) (off_hours (coff t)) (off_minutes (coff t)).
Proof.
  intros (Hy & (Hmo & Hd & Hh & Hmi & Hs) & Hrem & Hoff).
  pose proof (dim_le_31 (cy t) (cmo t)) as Hdim.
  unfold DateString, iso_string, off_sign, off_hours, off_minutes.
  rewrite fmt0_4 by assumption.
  rewrite (fmt0_2 (cmo t)) by lia. rewrite (fmt0_2 (cd t)) by lia. rewrite (fmt0_2 (ch t)) by lia.
  rewrite (fmt0_2 (cmi t)) by lia. rewrite (fmt0_2 (cs t)) by lia.
  set (off := coff t) in *.
  assert (Ek : off = 60 * Z.quot off 60) by lia.
  set (k := Z.quot off 60) in *.
  assert (Es : (k <? 0) = (off <? 0)) by lia. rewrite Es.
  assert (Eh : Z.quot (if off <? 0 then - k else k) 60 = Z.abs off / 3600) by (destruct (Z.ltb_spec off 0); lia).
  assert (Em : Z.rem (if off <? 0 then - k else k) 60 = Z.abs off / 60 mod 60) by (destruct (Z.ltb_spec off 0); lia).
  rewrite Eh, Em.
  rewrite (fmt0_2 (Z.abs off / 3600)) by lia. rewrite (fmt0_2 (Z.abs off / 60 mod 60)) by lia.
  reflexivity.
Qed.

Lemma off_fields off : Z.rem off 60 = 0 -> -86400 < off < 86400 ->
  (off_sign off = b_plus \/ off_sign off = b_minus) /\ 0 <= off_hours off <= 23 /\ 0 <= off_minutes off <= 59 /\
  signed_off (off_sign off) (off_hours off) (off_minutes off) = off.
Proof.
  intros Hrem Hoff. unfold off_sign, off_hours, off_minutes, signed_off.
  destruct (Z.ltb_spec off 0) as [Hn|Hn].
  - change ((b_minus =? b_minus)%N) with true. cbv iota. repeat split; auto; lia.
  - change ((b_plus =? b_minus)%N) with false. cbv iota. repeat split; auto; lia.
Qed.

Lemma date_roundtrip t : in_scope t -> DateTime (DateString t) = DOk t.
Proof.
  intros Hin. rewrite DateString_iso by assumption.
  destruct Hin as (Hy & (Hmo & Hd & Hh & Hmi & Hs) & Hrem & Hoff).
  destruct (off_fields (coff t) Hrem Hoff) as (Hsg & Hzh & Hzm & Eoff).
  rewrite DateTime_iso by assumption. rewrite Eoff. destruct t; reflexivity.
Qed.

Lemma datestring_valid t : in_scope t ->
  exists sg zh zm,
    DateString t = iso_string (cy t) (cmo t) (cd t) (ch t) (cmi t) (cs t) sg zh zm /\
    (sg = b_plus \/ sg = b_minus) /\ 0 <= zh <= 23 /\ 0 <= zm <= 59 /\
    signed_off sg zh zm = coff t.
Proof.
  intros Hin. exists (off_sign (coff t)), (off_hours (coff t)), (off_minutes (coff t)).
  split; [apply DateString_iso; assumption|].
  destruct Hin as (_ & _ & Hrem & Hoff). apply off_fields; assumption.
Qed.

Lemma num2_dc a b : isdig a -> isdig b -> num2 (D a) (D b) = Some (10 * a + b).
Proof. intros Ha Hb. unfold num2, dig. rewrite !char_digit_dc by assumption. reflexivity. Qed.

Lemma in_rng_some lo hi v : lo <= v <= hi -> in_rng lo hi (Some v) = true.
Proof. unfold in_rng. lia. Qed.

Lemma iso_full_b_iso y mo d h mi s sg zh zm :
  0 <= y <= 9999 -> 1 <= mo <= 12 -> 1 <= d <= days_in_month y mo ->
  0 <= h <= 23 -> 0 <= mi <= 59 -> 0 <= s <= 59 ->
  sg = b_plus \/ sg = b_minus -> 0 <= zh <= 23 -> 0 <= zm <= 59 ->
  iso_full_b (iso_string y mo d h mi s sg zh zm) = true.
Proof.
  intros Hy Hmo Hd Hh Hmi Hs Hsg Hzh Hzm.
  pose proof (dim_le_31 y mo) as Hdim.
  destruct (dec4_dig y Hy) as (Y3 & Y2 & Y1 & Y0 & EY).
  destruct (dec2_dig mo ltac:(lia)) as (M1 & M0 & EM).
  destruct (dec2_dig d ltac:(lia)) as (D1 & D0 & ED).
  destruct (dec2_dig h ltac:(lia)) as (H1 & H0 & EH).
  destruct (dec2_dig mi ltac:(lia)) as (I1 & I0 & EI).
  destruct (dec2_dig s ltac:(lia)) as (S1 & S0 & ES).
  destruct (dec2_dig zh ltac:(lia)) as (Z1 & Z0 & EZ).
  destruct (dec2_dig zm ltac:(lia)) as (W1 & W0 & EW).
  unfold iso_string, dec4, dec2. cbn [app]. unfold iso_full_b.
  rewrite !num2_dc by assumption. rewrite !N.eqb_refl.
  rewrite EM, ED, EH, EI, ES, EZ, EW.
  replace (100 * (10 * (y / 1000) + y / 100 mod 10) + (10 * (y / 10 mod 10) + y mod 10)) with y by lia.
  rewrite !in_rng_some by lia.
  assert (Esg : ((sg =? b_plus)%N || (sg =? b_minus)%N) = true) by (destruct Hsg; subst; reflexivity).
  rewrite Esg. cbn [andb].
  lia.
Qed.

Lemma datestring_iso_full t : in_scope t -> iso_full_b (DateString t) = true.
Proof.
  intros Hin. rewrite DateString_iso by assumption.
  destruct Hin as (Hy & (Hmo & Hd & Hh & Hmi & Hs) & Hrem & Hoff).
  destruct (off_fields (coff t) Hrem Hoff) as (Hsg & Hzh & Hzm & _).
  apply iso_full_b_iso; assumption.
Qed.

Lemma datestring_injective t1 t2 : in_scope t1 -> in_scope t2 -> DateString t1 = DateString t2 -> t1 = t2.
Proof.
  intros H1 H2 E. pose proof (date_roundtrip t1 H1) as R1. rewrite E, (date_roundtrip t2 H2) in R1.
  congruence.
Qed.

(* the bounds of the scope are needed: outside them the round trip fails in the model
   (year with five digits; offset of 24h; offset with seconds) *)
Lemma scope_tight :
  DateTime (DateString (Civil 10000 1 1 0 0 0 0)) <> DOk (Civil 10000 1 1 0 0 0 0) /\
  DateTime (DateString (Civil 2024 1 1 0 0 0 86400)) <> DOk (Civil 2024 1 1 0 0 0 86400) /\
  DateTime (DateString (Civil 2024 1 1 0 0 0 (-86400))) <> DOk (Civil 2024 1 1 0 0 0 (-86400)) /\
  DateTime (DateString (Civil 2024 1 1 0 0 0 30)) <> DOk (Civil 2024 1 1 0 0 0 30).
Proof. vm_compute. repeat split; discriminate. Qed.

(* ---------------- (instant, location) form ---------------- *)
Section LocatedProofs.
  Variable Loc : Type.
  Variable zone_offset : Loc -> Z -> Z.
  Variable civil_fields : Z -> Z -> civil.
  (* package time, trusted: the civil reading carries the offset it was taken at, is a valid
     calendar date/time, and denotes the instant it was taken from *)
  Hypothesis civil_fields_off : forall u off, coff (civil_fields u off) = off.
  Hypothesis civil_fields_valid : forall u off, valid_civil (civil_fields u off).
  Hypothesis civil_fields_instant : forall u off, unix_of (civil_fields u off) = u.

  Lemma date_roundtrip_located l u :
    0 <= cy (civil_at Loc zone_offset civil_fields l u) <= 9999 ->
    Z.rem (zone_offset l u) 60 = 0 -> -86400 < zone_offset l u < 86400 ->
    exists c, DateTime (DateStringAt Loc zone_offset civil_fields l u) = DOk c /\
              unix_of c = u /\ coff c = zone_offset l u.
  Proof.
    intros Hy Hrem Hoff. exists (civil_at Loc zone_offset civil_fields l u).
    unfold DateStringAt. split; [|split].
    - apply date_roundtrip. unfold in_scope, civil_at in *. rewrite civil_fields_off.
      split; [assumption|]. split; [apply civil_fields_valid|]. split; assumption.
    - apply civil_fields_instant.
    - apply civil_fields_off.
  Qed.
End LocatedProofs.
