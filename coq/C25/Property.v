(* C25 — Wrong passwords are rejected and password changes take effect.
   Property theorems only.  Model: C25/Model.v (transcribed from read.go setupEncryptionKey / handlePermissions /
   needsOwnerAndUserPassword / handleUnencryptedFile, write.go updateEncryption / handleEncryption, the password
   slots of pkg/api, and from crypto.go which password goes into which digest).  [prep] is processInput
   (golang.org/x/text PRECIS profile), a parameter of every statement. *)
From Coq Require Import NArith ZArith List Bool.
Import ListNotations.
From PV Require Import C25.Model C25.Proofs.
Open Scope N_scope.

(* 1. Opening with neither the user nor the owner password fails: the decision is never "opened", it is
      ErrWrongPassword (or, for AES-256, the password preparation error), for every command and every value of
      the other inputs of setupEncryptionKey; a decrypt request returns an error and leaves the document as it is
      (no content is produced). *)
Theorem C25_neither_password_rejected : forall prep e a b,
  validate_owner prep e a b <> VOk -> validate_user prep e b <> VOk ->
  opens prep e a b = false
  /\ (access prep false e a b = EWrongPassword \/ access prep false e a b = EValidate)
  /\ (validate_owner prep e a b = VNo -> validate_user prep e b = VNo -> access prep false e a b = EWrongPassword)
  /\ (exists x, step prep (Encrypted e) (OpDecrypt a b) = (RErr x, Encrypted e))
  /\ forall nb pk be hp, opened (setup_key nb (validate_owner prep e a b) (validate_user prep e b) pk be hp) = false.
Proof. exact neither_password_rejected. Qed.
Print Assumptions C25_neither_password_rejected.

(* 2. Changing the user password, the owner password or the permissions succeeds only on an encrypted document
      and only when the owner password validates (the code also insists on the user password). *)
Theorem C25_change_requires_owner : forall prep d o d',
  is_change o = true -> step prep d o = (ROk, d') ->
  exists e, d = Encrypted e /\ validate_owner prep e (fst (slots o)) (snd (slots o)) = VOk
            /\ validate_user prep e (snd (slots o)) = VOk.
Proof. exact change_requires_owner. Qed.
Print Assumptions C25_change_requires_owner.

(* 2b. ... and without it the operation reports an error and the document stays exactly as it was. *)
Theorem C25_change_without_owner_refused : forall prep d o e,
  is_change o = true -> d = Encrypted e ->
  validate_owner prep e (fst (slots o)) (snd (slots o)) <> VOk ->
  exists x, step prep d o = (RErr x, d) /\ x <> OpenOwner /\ x <> OpenUser.
Proof. exact change_without_owner_refused. Qed.
Print Assumptions C25_change_without_owner_refused.

(* 2c. Any failing operation leaves the document unchanged. *)
Theorem C25_error_writes_nothing : forall prep d o x d', step prep d o = (RErr x, d') -> d' = d.
Proof. exact step_err_unchanged. Qed.
Print Assumptions C25_error_writes_nothing.

(* 3. After ANY history of encrypt / decrypt / change-user / change-owner / set-permissions calls with right and
      wrong credentials, starting from an unencrypted document, for every algorithm and every password (any bytes,
      any length, whatever the preparation does to them): let c be the current passwords as the caller understands
      them (cur: the passwords of the last successful encrypt, updated by every successful change; an operation
      whose new AES-256 password the preparation rejects fails and changes nothing).  Then
      (i) a pair of credential slots opens the document exactly when the owner slot is accepted for the current
      owner password (R<=4: an empty owner slot falls back to the user slot, key()) or the user slot is accepted
      for the current user password, "accepted" meaning: same prepared form (R<=4 padded/truncated to 32 bytes,
      R>=5 processInput + 127 bytes); (ii) the current passwords open it; (iii) a password accepted for neither
      current password - in particular a replaced one - does not open it from the user slot, nor from the owner
      slot unless the current user password is (equivalent to) the empty one; (iv) the current passwords are ones
      the preparation accepts.
      (Before pdfcpu dd3e7ff0 the AES-256 writer hashed the raw password and (ii) failed for passwords the reader's
      preparation rejects, rewrites or truncates: findings aes256-password-prep-asymmetric and
      aes256-password-over-127-bytes-not-truncated-on-write; the harness oracle still reports them under these
      classes.) *)
Theorem C25_only_current_passwords_open : forall prep h,
  match run prep Plain h, cur prep None Plain h with
  | Plain, None => True
  | Encrypted e, Some c =>
    (forall a b, opens prep e a b = true <->
       owner_accepts prep c a b \/ (~ slot_err prep (cR c) a /\ accepts prep (cR c) (cU c) b))
    /\ opens prep e (cO c) [] = true /\ opens prep e [] (cU c) = true
    /\ (forall x, ~ accepts prep (cR c) (cO c) x -> ~ accepts prep (cR c) (cU c) x ->
          opens prep e [] x = false /\ (~ accepts prep (cR c) (cU c) [] -> opens prep e x [] = false))
    /\ rprep prep (cR c) (cO c) <> None /\ rprep prep (cR c) (cU c) <> None
  | _, _ => False
  end.
Proof. exact history_current. Qed.
Print Assumptions C25_only_current_passwords_open.

(* 4. After any history, a WRONG password x - one whose prepared form differs from the prepared forms of the current
      owner and user passwords (and the user password is not the empty one) - is refused everywhere: it does not open or
      decrypt the document from either slot, no change operation succeeds with x as the owner credential, and none with
      x as the user credential; the document stays as it is.  Whether two spellings (letter case, width, normalisation
      form) are the same password is decided by the preparation alone: the statement needs no hypothesis on prep, and
      "prep must not identify letters of different case" is checked on the implementation against NFKC computed
      independently (correspondence stream "prepared", oracle classes wrong-password-accepted:<kind>:<operation>). *)
Theorem C25_wrong_password_refused_everywhere : forall prep h e c x,
  run prep Plain h = Encrypted e -> cur prep None Plain h = Some c ->
  x <> [] ->
  rprep prep (cR c) x <> rprep prep (cR c) (cO c) ->
  rprep prep (cR c) x <> rprep prep (cR c) (cU c) ->
  rprep prep (cR c) [] <> rprep prep (cR c) (cU c) ->
  opens prep e x [] = false /\ opens prep e [] x = false
  /\ (exists err, step prep (Encrypted e) (OpDecrypt x []) = (RErr err, Encrypted e))
  /\ (exists err, step prep (Encrypted e) (OpDecrypt [] x) = (RErr err, Encrypted e))
  /\ (forall o, is_change o = true -> fst (slots o) = x ->
        exists err, step prep (Encrypted e) o = (RErr err, Encrypted e))
  /\ (forall o, is_change o = true -> snd (slots o) = x -> fst (slots o) <> [] ->
        exists err, step prep (Encrypted e) o = (RErr err, Encrypted e)).
Proof. exact wrong_password_refused. Qed.
Print Assumptions C25_wrong_password_refused_everywhere.

(* non-vacuity: a history with equal passwords, a refused change, a change through the empty owner slot *)
Example C25_nonvacuous :
  let prep := fun x : bytes => Some x in
  let h := [OpEncrypt 4 [115] [115] 0%Z;                 (* owner = user = "s" *)
            OpChangeUser [120] [115] [110];              (* wrong owner "x": refused *)
            OpChangeUser [] [115] [110];                 (* empty owner slot: owner follows the user password *)
            OpChangeOwner [110] [110] [111]] in          (* owner := "o" *)
  cur prep None Plain h = Some (mkCreds 4 [111] [110])
  /\ match run prep Plain h with
     | Encrypted e => opens prep e [] [115] = false /\ opens prep e [115] [] = false
                      /\ opens prep e [] [110] = true /\ opens prep e [111] [] = true
     | Plain => False
     end.
Proof. vm_compute. repeat split; intros; congruence. Qed.

(* non-vacuity, AES-256 with a preparation that rejects byte 32, rewrites byte 170 to 97 and is followed by the
   truncation: a rewritten and a 130-byte password open their own document, a rejected one cannot be set *)
Example C25_nonvacuous_aes :
  let prep := fun x : bytes => if existsb (N.eqb 32) x then None else Some (map (fun b => if b =? 170 then 97 else b) x) in
  let long := repeat 120 130 in
  let h := [OpEncrypt 5 [111] [109; 32; 112] 0%Z;        (* user password with a space: refused, nothing written *)
            OpEncrypt 5 [111] [170] 0%Z;                 (* user password rewritten by the preparation *)
            OpChangeUser [111] [97] long] in             (* old user password given in its prepared form; new one > 127 bytes *)
  cur prep None Plain h = Some (mkCreds 5 [111] long)
  /\ match run prep Plain h with
     | Encrypted e => opens prep e [] long = true /\ opens prep e [] (firstn 127 long) = true
                      /\ opens prep e [] [170] = false /\ opens prep e [111] [] = true
     | Plain => False
     end.
Proof. vm_compute. repeat split; intros; congruence. Qed.
