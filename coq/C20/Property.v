(* C20 — Optimization never changes what a document shows.
   Property theorems only; each is closed by an exact lemma and followed by Print Assumptions.

   Vocabulary (coq/C20/Spec.v): `sim n g1 o1 g2 o2` = object o1 read in graph g1 and o2 read in
   g2 agree to depth n for a reader that follows references (font-name entries of font dicts
   are read without the subset tag); `same_unfolding` = for every n.  Everything a page shows
   (Kids order and count, boxes, Rotate, Contents bytes, Resources down to font files and
   image bytes) is part of the unfolding of the page tree root. *)
From Coq Require Import List ZArith NArith Bool.
From PV Require Import C20.Model C20.ModelScan C20.Spec C20.Proofs C20.ProofsEqual C20.ProofsDedup C20.ProofsObs C20.ProofsTerm C20.ProofsRes C20.ProofsIdem C20.ProofsScan.
Import ListNotations.
Open Scope Z_scope.

(* 1. The equality test the optimizer relies on is sound, for every graph (cycles, shared
      subobjects, missing referents), every pair of objects and every amount of fuel: if the
      model of model.EqualObjects(o1, o2, xRefTable, nil) answers (true, nil), nothing a
      reader can reach distinguishes o1 from o2.  In particular the visited-`pairs` shortcut
      (a pair being compared higher up on the path counts as equal) is sound. *)
Theorem C20_equal_objects_sound : forall g limit fuel o1 o2,
  wfg g -> wfo o1 = true -> wfo o2 = true ->
  EqualObjects fuel limit g o1 o2 [] = CT -> forall n, sim n g o1 g o2.
Proof. exact equal_objects_sound. Qed.
Print Assumptions C20_equal_objects_sound.

(* 1b. EqualObjects terminates: for every graph (cycles that alternate between a direct
      object and a reference included: no pair is recorded on those, the recursion depth
      check ends them), every limit = xRefTable.MaxRecursionDepth(), every pair of objects and
      every pairs slice, the fuel `enoughFuel limit` = limit + 2 (a function of the limit
      only) or any larger fuel is never exhausted.  Such a descent ends in the error outcome
      CE (ErrMaxRecursionDepthExceeded), never in true: every caller (handleDuplicateFontObject,
      handleDuplicateImageObject, optimizeXObjectForm, optimizeContentStreamUsage) returns the
      error, Optimize fails and writes nothing; no reference is substituted on an error. *)
Theorem C20_equal_objects_terminates : forall limit g o1 o2 pairs fuel,
  (enoughFuel limit <= fuel)%nat -> EqualObjects fuel limit g o1 o2 pairs <> CFuel.
Proof. exact equal_objects_terminates. Qed.
Print Assumptions C20_equal_objects_terminates.

(* 2. Deduplication preserves every unfolding: if every object of g' is the object of g with
      some references b replaced by references a such that a and b have the same unfolding
      in g, then any object rewritten the same way shows in g' exactly what it showed in g
      (to every depth: covers cyclic graphs; o is e.g. the catalog, a page, a resource dict). *)
Theorem C20_dedup_preserves_unfolding : forall (g g' : graph) (R : Z -> Z -> Prop),
  (forall a b, R a b -> forall n, sim n g (ORef a 0) g (ORef b 0)) ->
  (forall nr, rewr R (g' nr) (g nr)) ->
  forall n o' o, rewr R o' o -> sim n g' o' g o.
Proof. exact dedup_gen. Qed.
Print Assumptions C20_dedup_preserves_unfolding.

(* 3. The two together, for the substitution the optimizer builds: sigma redirects r to
      sigma r only when EqualObjects answered (true, nil) on the two objects. *)
Theorem C20_optimizer_subst_preserves : forall g sigma fuel limit,
  wfg g ->
  (forall r, sigma r <> r ->
     isref (g r) = false /\ isref (g (sigma r)) = false /\
     EqualObjects fuel limit g (g (sigma r)) (g r) [] = CT) ->
  forall o n, sim n (substg sigma g) (substo sigma o) g o.
Proof. exact optimizer_subst_preserves. Qed.
Print Assumptions C20_optimizer_subst_preserves.

(* 3b. Page content streams (Configuration.OptimizeDuplicateContentStreams): the duplicate
      test of optimizeContentStreamUsage (same StreamLength and EqualObjects on the two stream
      dicts, since the fix "deduplicate content streams only when their stream dicts are equal
      too") only identifies streams with the same unfolding: dictionaries (filters, decode
      parameters) and bytes.  A corollary of theorem 1. *)
Theorem C20_content_dedup_preserves : forall g fuel limit a b,
  wfg g -> contentStreamDup fuel limit g (g a) (g b) = CT ->
  forall n, sim n g (ORef a 0) g (ORef b 0).
Proof. exact content_dedup_preserves. Qed.
Print Assumptions C20_content_dedup_preserves.

(* 4. "Shows the same" is an equivalence (also across graphs). *)
Theorem C20_unfolding_equivalence :
  (forall n g o, sim n g o g o) /\
  (forall n g1 o1 g2 o2, sim n g1 o1 g2 o2 -> sim n g2 o2 g1 o1) /\
  (forall n g1 o1 g2 o2 g3 o3, sim n g1 o1 g2 o2 -> sim n g2 o2 g3 o3 -> sim n g1 o1 g3 o3).
Proof. exact (conj sim_refl (conj sim_sym sim_trans)). Qed.
Print Assumptions C20_unfolding_equivalence.

(* 5. What equal unfoldings mean for a reader: equal atoms (Rotate, box numbers, names),
      arrays of equal length with pairwise equal unfoldings (Kids: page count and order;
      boxes; Contents arrays), dicts with the same keys and equal unfoldings per key,
      streams with the same bytes. *)
Theorem C20_unfolding_observes : forall g1 o1 g2 o2, same_unfolding g1 o1 g2 o2 ->
  (atom (deref g1 o1) = true -> deref g2 o2 = deref g1 o1) /\
  (forall l1, deref g1 o1 = OArr l1 ->
     exists l2, deref g2 o2 = OArr l2 /\ length l1 = length l2 /\
       forall i x y, nth_error l1 i = Some x -> nth_error l2 i = Some y -> same_unfolding g1 x g2 y) /\
  (forall d1, deref g1 o1 = ODict d1 ->
     exists d2, deref g2 o2 = ODict d2 /\
       forall k, match lookup k d1, lookup k d2 with
                 | None, None => True
                 | Some v1, Some v2 => same_unfolding g1 (norm g1 d1 k v1) g2 (norm g2 d2 k v2)
                 | _, _ => False end) /\
  (forall d1 r1, deref g1 o1 = OStream d1 r1 ->
     exists d2 r2, deref g2 o2 = OStream d2 r2 /\ rawbytes r1 = rawbytes r2 /\
       forall k, match lookup k d1, lookup k d2 with
                 | None, None => True
                 | Some v1, Some v2 => same_unfolding g1 (norm g1 d1 k v1) g2 (norm g2 d2 k v2)
                 | _, _ => False end).
Proof.
  intros g1 o1 g2 o2 H. split; [|split; [|split]].
  - apply same_unfolding_atom. exact H.
  - intros l1. apply same_unfolding_array. exact H.
  - intros d1. apply same_unfolding_dict. exact H.
  - intros d1 r1. apply same_unfolding_stream. exact H.
Qed.
Print Assumptions C20_unfolding_observes.

(* 6. The executable comparison used by the harness decides sim. *)
Theorem C20_simb_decides_sim : forall n g1 o1 g2 o2, simb n g1 o1 g2 o2 = true <-> sim n g1 o1 g2 o2.
Proof. exact simb_spec. Qed.
Print Assumptions C20_simb_decides_sim.

(* 7. Resource consolidation (ConsolidatePageResources, run by OptimizeXRefTable ->
      optimizeResourceDicts): every page gets a pruned CLONE of its (possibly shared:
      indirect category dict, shared Resources dict, inherited Resources) category dict.
      For every store of shared dicts, every list of pages (any sharing, any subsets of used
      names): the shared dicts are unchanged, and every page resolves every name its content
      uses to the object it resolved to before, whatever was pruned for the other pages. *)
Theorem C20_consolidate_preserves_resolution : forall st pages,
  fst (consolidateCloned st pages) = st /\
  length (snd (consolidateCloned st pages)) = length pages /\
  forall i p d n, nth_error pages i = Some p ->
    nth_error (snd (consolidateCloned st pages)) i = Some d ->
    memb n (snd p) = true -> lookupR n d = lookupR n (st (fst p)).
Proof. exact consolidate_preserves_resolution. Qed.
Print Assumptions C20_consolidate_preserves_resolution.

(* ... which is what the clone is for: the same pass pruning in place loses a name that a
   later page sharing the dict uses (page 1 uses /F1, page 2 uses /F2 of the same dict). *)
Theorem C20_consolidate_inplace_refuted : exists st pages i p d n,
  nth_error pages i = Some p /\ nth_error (snd (consolidateInPlace st pages)) i = Some d /\
  memb n (snd p) = true /\ lookupR n (st (fst p)) = Some 11 /\ lookupR n d = None.
Proof. exact consolidate_inplace_refuted. Qed.
Print Assumptions C20_consolidate_inplace_refuted.

(* 7b. removeEmptyContentStreams (OptimizeDuplicateContentStreams): a /Contents array keeps
      exactly the elements with non-empty decoded content -- one-byte elements (q, Q, newline)
      included -- so the page's decoded content, the concatenation, is unchanged. *)
Theorem C20_remove_empty_preserves_content : forall l,
  pageContent (removeEmpty l) = pageContent l /\
  forall c, In c (removeEmpty l) <-> In c l /\ c <> [].
Proof. intro l. split. apply removeEmpty_content. apply removeEmpty_keeps. Qed.
Print Assumptions C20_remove_empty_preserves_content.

(* 8. "Optimizing an already optimized document removes nothing further", for the duplicate
      form pass (optimizeXObjectResource strips /PieceInfo, THEN optimizeXObjectForm compares
      with the cached forms): for every graph, limit and list of forms, running the pass on
      its own result changes nothing. *)
Theorem C20_form_dedup_idempotent : forall limit g (forms : list obj),
  dedup obj normForm (eqForm limit g) (dedup obj normForm (eqForm limit g) forms) =
  dedup obj normForm (eqForm limit g) forms.
Proof. exact form_dedup_idempotent. Qed.
Print Assumptions C20_form_dedup_idempotent.

(* ... and the order matters: comparing first and stripping afterwards keeps two duplicate
   forms that both carry a PieceInfo in the first pass (2 forms) and merges them only in the
   second (1 form). *)
Theorem C20_dedup_late_not_idempotent :
  formDedupLateCounts 100 pi_g [7; 8] = (2%nat, 1%nat) /\ formDedupCounts 100 pi_g [7; 8] = (1%nat, 1%nat).
Proof. exact dedup_late_not_idempotent. Qed.
Print Assumptions C20_dedup_late_not_idempotent.

(* 9. Which resource names a page USES is decided by a scanner over the decoded content
      (parseContent; model: used_names).  On content built from the grammar
          segment ::= [ " (" body ") Tj" ]  use
          body    ::= (plain byte | '\' any byte)*    with balanced unescaped parentheses
          use     ::= " /n 12 Tf" | " /n Do" | " /n gs" | " /n cs" | " /Pattern cs /n scn"
                    | " /n sh" | " /T /n BDC"
      (plain byte: anything but '\'; unescaped '(' ')' nested to ANY depth as long as they
      balance -- balb; so bodies contain \\ at the end, runs of backslashes before ')' and '(',
      \) \( octal escapes, line continuations, nested (a (b (c)) d), '/', '<', '[', '%')
      the scanner reports exactly the names in operator position, with their categories, in
      order: no name used after a string is lost, whatever the string contains.
      (Unbalanced strings -- illegal, seen in the wild -- go through the modelled fallback, the
      first ')' preceded by an even number of backslashes; the theorem is about balanced ones.) *)
Theorem C20_used_names_exact : forall segs,
  forallb seg_ok segs = true ->
  used_names (renderSegs segs) = SOk (map segName segs).
Proof. exact used_names_exact. Qed.
Print Assumptions C20_used_names_exact.

(* the two former defect witnesses: nested balanced parentheses ("(x (y) /F9 z) Tj /F2 12 Tf",
   class content-scanner-nested-parentheses-lose-used-resource, before 896a0b77) and the
   run-on string ("(a) Tj /F2 12 Tf %)", class content-scanner-string-runs-on-to-later-parenthesis,
   896a0b77 without b5e38ac0): /F2 is reported in both *)
Theorem C20_scanner_former_witnesses :
  used_names nested_content = SOk [(CFont, [70; 50]%N)] /\
  used_names runon_content = SOk [(CFont, [70; 50]%N)].
Proof. exact former_witnesses. Qed.
Print Assumptions C20_scanner_former_witnesses.

(* ---- non-vacuity ---- *)
(* "(Folder C:\\) Tj /F2 12 Tf (a\\\) b\(\101) Tj /Im1 Do /GS1 gs" *)
Definition ex_segs : list seg :=
  [ (Some [APlain 67; APlain 58; AEsc 92], UFont, [70; 50]%N);
    (Some [APlain 120; APlain 40; APlain 121; APlain 40; APlain 47; APlain 41; AEsc 41; APlain 41; APlain 37], UShading, [83; 104; 49]%N);
    (Some [APlain 97; AEsc 92; AEsc 41; APlain 32; APlain 98; AEsc 40; AEsc 49; APlain 48; APlain 49], UXObject, [73; 109; 49]%N);
    (None, UExtGState, [71; 83; 49]%N) ].
Example C20_scanner_nonvacuous :
  forallb seg_ok ex_segs = true /\
  used_names (renderSegs ex_segs) = SOk [(CFont, [70; 50]%N); (CShading, [83; 104; 49]%N); (CXObject, [73; 109; 49]%N); (CExtGState, [71; 83; 49]%N)].
Proof. split; vm_compute; reflexivity. Qed.

(* two cyclic font-like structures (child <-> parent back references) with different
   subset tags: EqualObjects says true through the pairs shortcut, and they are related *)
Definition ex_g : graph := fun nr =>
  match nr with
  | 1 => ODict [(kType, OName kFont); (kBaseFont, OName [65;66;43;88]%N); ([68]%N, OArr [ORef 2 0])]
  | 2 => ODict [([80]%N, ORef 1 0); ([87]%N, OInt 7)]
  | 3 => ODict [(kType, OName kFont); (kBaseFont, OName [67;68;43;88]%N); ([68]%N, OArr [ORef 4 0])]
  | 4 => ODict [([80]%N, ORef 3 0); ([87]%N, OInt 7)]
  | 5 => ODict [([80]%N, ORef 3 0); ([87]%N, OInt 8)]
  | _ => ONull
  end.
Example C20_nonvacuous :
  EqualObjects (enoughFuel 100) 100 ex_g (ex_g 3) (ex_g 1) [] = CT /\
  EqualObjects (enoughFuel 100) 100 ex_g (ORef 4 0) (ORef 5 0) [] = CF /\
  EqualObjects (enoughFuel 100) 100 mixed_g (ORef 1 0) (ORef 2 0) [] = CE /\
  EqualObjects (enoughFuel 3) 3 mixed_g (ORef 1 0) (ORef 2 0) [] = CE /\
  EqualObjects (enoughFuel 3) 3 ex_g (ex_g 3) (ex_g 1) [] = CE /\
  simb 9 ex_g (ORef 1 0) ex_g (ORef 3 0) = true /\ simb 9 ex_g (ORef 4 0) ex_g (ORef 5 0) = false /\
  (forall nr, wfo (ex_g nr) = true).
Proof.
  repeat split; try (vm_compute; reflexivity).
  intro nr. unfold ex_g.
  destruct nr as [|p|p]; try reflexivity.
  do 3 (destruct p; try reflexivity).
Qed.
