(* C08 — the recursion skeleton of the object parser (pkg/pdfcpu/model/parse.go:
   parseObjectContext / parseObjectValue / parseArray / parseHexLiteralOrDict / parseDict / processDictKeys /
   ParseObjectContext), with the level bookkeeping of CheckRecursionDepth, over ABSTRACT token-level
   functions (Section variables): the white-space skipper, the name reader used for dict keys and the
   leaf-object readers (name, hex string, literal string, boolean/null, number or reference).
   The concrete token functions are modelled and tied to the code in C11 (coq/C11/Model.v, same
   recursion structure); here only what they do to the LENGTH of the line matters.  No proofs here.

   Instrumentation: every result carries [mx], the deepest level any call of
   parseObjectContext was made with (the model's stand-in for the depth of the Go call stack). *)
From Coq Require Import NArith ZArith List Bool.
From PV Require Import C08.Model.
Import ListNotations.
Open Scope N_scope.

Definition bytes := list N.

Inductive perr := PDepth | POther.
Inductive pres := POk (rest : bytes) (mx : Z) | PErr (e : perr) (mx : Z) | POOF.

Section Skel.
Variable trim : bytes -> bytes.                    (* trimLeftSpace(l, false), the string *)
Variable tls : bool -> bytes -> bytes * bool.      (* trimLeftSpace(l, relaxed): (string, eol) *)
Variable pname : bytes -> bool * bytes.            (* parseName on a dict key: (decoded without error, new line) *)
Variable leaf : bytes -> option bytes.             (* parseName | parseHexLiteral | parseStringLiteral |
                                                      parseBooleanOrNull | parseNumericOrIndRef: new line, None = error *)

Fixpoint parse_obj (fuel : nat) (relaxed : bool) (maxd level : Z) (l : bytes) {struct fuel} : pres :=
  match fuel with
  | O => POOF
  | S f =>
    match l with
    | [] => PErr POther level                                          (* noBuf *)
    | _ =>
      if depth_exceeded maxd level then PErr PDepth level else         (* CheckRecursionDepth("parse object", level, ..) *)
      match trim l with
      | [] => PErr POther level
      | (c :: t) as l1 =>
        if c =? 91 then                                                (* '[' parseArray (its own depth check: same level) *)
          match t with
          | [] => PErr POther level
          | _ => match trim t with
                 | [] => PErr POther level
                 | l2 => parse_arr f relaxed maxd level l2 level
                 end
          end
        else if (c =? 60) && (match t with d :: _ => d =? 60 | [] => false end) then   (* "<<" parseDict *)
          match t with
          | _ :: ((_ :: _ :: _) as t2) =>
            match trim t2 with
            | [] => PErr POther level
            | l2 => parse_dict f relaxed maxd level l2 level
            end
          | _ => PErr POther level                                     (* len(l) < 4 *)
          end
        else match leaf l1 with
             | Some r => POk r level
             | None => PErr POther level
             end
      end
    end
  end
(* the for loop of parseArray; l is non-empty and trimmed *)
with parse_arr (fuel : nat) (relaxed : bool) (maxd level : Z) (l : bytes) (mx : Z) {struct fuel} : pres :=
  match fuel with
  | O => POOF
  | S f =>
    match l with
    | [] => PErr POther mx
    | c :: t =>
      if c =? 93 then POk t mx else
      match parse_obj f relaxed maxd (level + 1) l with
      | POk l' m =>
        match l' with
        | [] => PErr POther (Z.max mx m)
        | _ => match trim l' with
               | [] => PErr POther (Z.max mx m)
               | l'' => parse_arr f relaxed maxd level l'' (Z.max mx m)
               end
        end
      | PErr e m => PErr e (Z.max mx m)
      | POOF => POOF
      end
    end
  end
(* the for loop of processDictKeys + the end of parseDict *)
with parse_dict (fuel : nat) (relaxed : bool) (maxd level : Z) (l : bytes) (mx : Z) {struct fuel} : pres :=
  match fuel with
  | O => POOF
  | S f =>
    match l with
    | [] => POk [] mx
    | c :: t =>
      if (c =? 62) && (match t with c' :: _ => c' =? 62 | [] => false end) then POk (tl t) mx else
      match pname l with
      | (false, l1) =>
        if relaxed then parse_dict f relaxed maxd level (fst (tls relaxed (tl l1))) mx   (* skip junk, continue *)
        else PErr POther mx
      | (true, l1) =>
        let '(l2, eol) := tls relaxed l1 in
        match l2 with
        | [] => PErr POther mx
        | _ =>
          let vres := if eol then POk l2 mx else parse_obj f relaxed maxd (level + 1) l2 in
          match vres with
          | POk l3 m =>
            match l3 with
            | _ :: _ :: _ =>
              match trim l3 with
              | [] => PErr POther (Z.max mx m)
              | l4 => parse_dict f relaxed maxd level l4 (Z.max mx m)
              end
            | _ => PErr POther (Z.max mx m)
            end
          | PErr e m => PErr e (Z.max mx m)
          | POOF => POOF
          end
        end
      end
    end
  end.

(* ParseObjectContext: strict, then relaxed unless the depth limit was hit *)
Definition parse_fuel (l : bytes) : nat := (2 * length l + 2)%nat.
Definition parse_top (maxd level : Z) (l : bytes) : pres :=
  match l with
  | [] => PErr POther level
  | _ =>
    match parse_obj (parse_fuel l) false maxd level l with
    | PErr POther m =>
      match parse_obj (parse_fuel l) true maxd level l with
      | POk r m' => POk r (Z.max m m')
      | PErr e m' => PErr e (Z.max m m')
      | POOF => POOF
      end
    | r => r
    end
  end.
End Skel.
