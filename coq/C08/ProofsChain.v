(* C08 — proofs about the xref /Prev chain loop, the outline sibling scan and depth-guarded descent. *)
From Coq Require Import NArith ZArith List Bool Lia ZifyBool ZifyNat ZifyN.
From PV Require Import C08.Model.
Import ListNotations.

(* ------------------------------------------------------------------ /Prev chain *)

Lemma memz_In : forall z l, memz z l = true <-> In z l.
Proof.
  intros z l. unfold memz. rewrite existsb_exists. split.
  - intros [x [Hin Heq]]. apply Z.eqb_eq in Heq. subst. exact Hin.
  - intros Hin. exists z. split; [exact Hin | apply Z.eqb_refl].
Qed.
Lemma memz_false : forall z l, memz z l = false <-> ~ In z l.
Proof. intros z l. rewrite <- memz_In. destruct (memz z l); split; intro H; congruence. Qed.

Section Prev.
Variable next : Z -> step.
Variable alt : Z -> option Z.
Variable D : list Z.                       (* the offsets at which a section with a /Prev can be read *)
Hypothesis HD : forall z p, next z = SNext p -> In z D.

(* every offset the loop goes on from is new and lies in D: |D| + 1 rounds at most *)
Lemma prev_loop_inv : forall fuel offs off,
  NoDup offs -> incl offs D -> (length D < length offs + fuel)%nat ->
  match prev_loop fuel next alt offs off with
  | COOF => False
  | CErr => True
  | CDone l | CCycle l => NoDup l /\ (length l <= S (length D))%nat /\ (exists k, l = k ++ offs)
  end.
Proof.
  induction fuel as [|f IH]; intros offs off Hnd Hincl Hlen.
  - exfalso. pose proof (NoDup_incl_length Hnd Hincl). lia.
  - pose proof (NoDup_incl_length Hnd Hincl) as Hle.
    simpl.
    assert (Hstep : forall off1, ~ In off1 offs ->
      match (match next off1 with SErr => CErr | SEnd => CDone (off1 :: offs)
                                | SNext p => prev_loop f next alt (off1 :: offs) p end) with
      | COOF => False | CErr => True
      | CDone l | CCycle l => NoDup l /\ (length l <= S (length D))%nat /\ (exists k, l = k ++ offs) end).
    { intros off1 Hn1. destruct (next off1) as [| |p] eqn:En; [exact I | |].
      - split; [constructor; assumption|]. split; [simpl; lia | exists [off1]; reflexivity].
      - assert (Hin : In off1 D) by (eapply HD; exact En).
        assert (Hnd1 : NoDup (off1 :: offs)) by (constructor; assumption).
        assert (Hi1 : incl (off1 :: offs) D) by (intros x [Hx|Hx]; [subst; exact Hin | apply Hincl; exact Hx]).
        specialize (IH (off1 :: offs) p Hnd1 Hi1 ltac:(simpl; lia)).
        destruct (prev_loop f next alt (off1 :: offs) p) as [l|l| |]; try exact IH.
        + destruct IH as [Ha [Hb [k Hk]]]. split; [exact Ha|]. split; [exact Hb|].
          exists (k ++ [off1]). rewrite <- app_assoc. exact Hk.
        + destruct IH as [Ha [Hb [k Hk]]]. split; [exact Ha|]. split; [exact Hb|].
          exists (k ++ [off1]). rewrite <- app_assoc. exact Hk. }
    destruct (memz off offs) eqn:Em.
    + destruct (alt off) as [off'|]; [|exact I].
      destruct (memz off' offs) eqn:Em'.
      * split; [exact Hnd|]. split; [lia | exists []; reflexivity].
      * apply Hstep. apply memz_false. exact Em'.
    + apply Hstep. apply memz_false. exact Em.
Qed.
End Prev.

Lemma tab_next_dom : forall t z p, tab_next t z = SNext p -> In z (map fst t).
Proof.
  induction t as [|[k v] t IH]; intros z p; simpl; [discriminate|].
  destruct (Z.eqb_spec k z) as [E|E]; intros H; [left; exact E | right; eapply IH; exact H].
Qed.

Lemma prev_chain_inv : forall tn ta start,
  match prev_chain tn ta start with
  | COOF => False
  | CErr => True
  | CDone l | CCycle l => NoDup l /\ (length l <= S (length tn))%nat
  end.
Proof.
  intros tn ta start. unfold prev_chain.
  pose proof (prev_loop_inv (tab_next tn) (tab_alt ta) (map fst tn) (tab_next_dom tn)
                (S (length tn)) [] start (NoDup_nil Z) (fun x (H : In x []) => match H with end)) as H.
  rewrite map_length in H. specialize (H ltac:(simpl; lia)).
  destruct (prev_loop (S (length tn)) (tab_next tn) (tab_alt ta) [] start) as [l|l| |]; try exact H.
  - destruct H as [Ha [Hb _]]. split; assumption.
  - destruct H as [Ha [Hb _]]. split; assumption.
Qed.

(* ------------------------------------------------------------------ outline sibling list *)

Open Scope N_scope.

Lemma memN_false : forall n l, mem n l = false <-> ~ In n l.
Proof.
  intros n l. unfold mem. split.
  - intros H Hin. assert (Ht : existsb (N.eqb n) l = true).
    { apply existsb_exists. exists n. split; [exact Hin | apply N.eqb_refl]. }
    congruence.
  - intros H. destruct (existsb (N.eqb n) l) eqn:E; [|reflexivity].
    apply existsb_exists in E. destruct E as [x [Hx Hq]]. apply N.eqb_eq in Hq. subst. contradiction.
Qed.

Section Sibling.
Variable item : N -> option (option N).
Variable D : list N.
Hypothesis HD : forall n nx, item n = Some nx -> In n D.

Lemma sibling_scan_no_oof : forall fuel visited seen cur,
  NoDup visited -> incl visited D -> (S (length D) < length visited + fuel)%nat ->
  sibling_scan fuel item visited seen cur <> SOOF.
Proof.
  induction fuel as [|f IH]; intros visited seen cur Hnd Hincl Hlen.
  - exfalso. pose proof (NoDup_incl_length Hnd Hincl). lia.
  - simpl. destruct cur as [n|]; [|discriminate].
    destruct (mem n visited) eqn:Ev; [discriminate|].
    destruct (item n) as [nx|] eqn:Ei; [|discriminate].
    destruct (mem n seen); [discriminate|].
    apply IH.
    + constructor; [apply memN_false; exact Ev | exact Hnd].
    + intros x [Hx|Hx]; [subst; eapply HD; exact Ei | apply Hincl; exact Hx].
    + simpl. lia.
Qed.
End Sibling.

Lemma tab_item_dom : forall t n nx, tab_item t n = Some nx -> In n (map fst t).
Proof.
  induction t as [|[k v] t IH]; intros n nx; simpl; [discriminate|].
  destruct (N.eqb_spec k n) as [E|E]; intros H; [left; exact E | right; eapply IH; exact H].
Qed.

Lemma sibling_list_no_oof : forall t seen first, sibling_list t seen first <> SOOF.
Proof.
  intros t seen first. unfold sibling_list.
  apply sibling_scan_no_oof with (D := map fst t).
  - apply tab_item_dom.
  - constructor.
  - intros x Hx. destruct Hx.
  - rewrite map_length. simpl. lia.
Qed.

(* ------------------------------------------------------------------ depth-guarded descent *)

Fixpoint rose_ind2 (P : rose -> Prop) (H : forall ks, Forall P ks -> P (Rose ks)) (t : rose) : P t :=
  match t with
  | Rose ks => H ks ((fix go (l : list rose) : Forall P l :=
                        match l with
                        | [] => Forall_nil P
                        | x :: r => Forall_cons x (rose_ind2 P H x) (go r)
                        end) ks)
  end.

Lemma descent_loop_bound : forall (rec : rose -> Z * bool) (lo hi : Z) ks,
  Forall (fun k => (lo <= fst (rec k) <= hi)%Z) ks ->
  forall mx, (lo - 1 <= mx <= hi)%Z -> (mx <= fst (descent_loop rec ks mx) <= hi)%Z.
Proof.
  intros rec lo hi ks HF. induction HF as [|k ks Hk HF IH]; intros mx Hmx; simpl; [lia|].
  destruct (rec k) as [m ok] eqn:Er. simpl in Hk.
  destruct ok.
  - specialize (IH (Z.max mx m) ltac:(lia)). lia.
  - simpl. lia.
Qed.

(* no call is ever made with depth > effective limit + 1, whatever the nesting of the input *)
Lemma guarded_descent_bound : forall t maxd depth,
  (depth <= eff_depth maxd + 1)%Z ->
  (depth <= fst (guarded_descent maxd depth t) <= eff_depth maxd + 1)%Z.
Proof.
  intros t. induction t as [ks IH] using rose_ind2. intros maxd depth Hd.
  simpl. unfold depth_exceeded. destruct (Z.ltb_spec (eff_depth maxd) depth) as [Hx|Hx]; [simpl; lia|].
  apply descent_loop_bound with (lo := (depth + 1)%Z); [|lia].
  eapply Forall_impl; [|exact IH]. simpl. intros k Hk. apply Hk. lia.
Qed.

(* a nesting deeper than the limit is rejected, one within it is accepted *)
Fixpoint rdepth (t : rose) : Z :=
  match t with Rose ks => (1 + fold_right (fun k m => Z.max (rdepth k) m) 0 ks)%Z end.

Definition maxd_list (ks : list rose) : Z := fold_right (fun k m => Z.max (rdepth k) m) 0%Z ks.
Lemma rdepth_Rose : forall ks, rdepth (Rose ks) = (1 + maxd_list ks)%Z.
Proof. reflexivity. Qed.
Lemma maxd_list_nonneg : forall ks, (0 <= maxd_list ks)%Z.
Proof. induction ks as [|k ks IH]; unfold maxd_list in *; simpl; lia. Qed.
Lemma maxd_list_cons : forall k ks, maxd_list (k :: ks) = Z.max (rdepth k) (maxd_list ks).
Proof. reflexivity. Qed.
Lemma rdepth_pos : forall t, (1 <= rdepth t)%Z.
Proof. intros [ks]. rewrite rdepth_Rose. pose proof (maxd_list_nonneg ks). lia. Qed.

Lemma descent_loop_ok : forall (rec : rose -> Z * bool) ks,
  Forall (fun k => snd (rec k) = true) ks -> forall mx, snd (descent_loop rec ks mx) = true.
Proof.
  intros rec ks HF. induction HF as [|k ks Hk HF IH]; intros mx; simpl; [reflexivity|].
  destruct (rec k) as [m ok] eqn:Er. simpl in Hk. subst ok. apply IH.
Qed.

Lemma guarded_descent_accepts : forall t maxd depth,
  (depth + rdepth t <= eff_depth maxd + 1)%Z -> snd (guarded_descent maxd depth t) = true.
Proof.
  intros t. induction t as [ks IH] using rose_ind2. intros maxd depth Hd.
  rewrite rdepth_Rose in Hd. pose proof (maxd_list_nonneg ks) as Hp.
  simpl. unfold depth_exceeded. destruct (Z.ltb_spec (eff_depth maxd) depth) as [Hx|Hx]; [lia|].
  apply descent_loop_ok.
  assert (Hall : Forall (fun k => (rdepth k <= maxd_list ks)%Z) ks).
  { clear. induction ks as [|k ks IHk]; constructor.
    - rewrite maxd_list_cons. lia.
    - eapply Forall_impl; [|exact IHk]. intros a Ha. cbv beta in Ha. rewrite maxd_list_cons. lia. }
  rewrite Forall_forall in *. intros k Hk. apply IH; [exact Hk|]. specialize (Hall k Hk). lia.
Qed.

Lemma prev_loop_terminates : forall next alt D,
  (forall z p, next z = SNext p -> In z D) ->
  forall start,
  match prev_loop (S (length D)) next alt [] start with
  | COOF => False
  | CErr => True
  | CDone l | CCycle l => NoDup l /\ (length l <= S (length D))%nat
  end.
Proof.
  intros next alt D HD start.
  pose proof (prev_loop_inv next alt D HD (S (length D)) [] start (NoDup_nil Z)
                (fun x (H : In x []) => match H with end) (Nat.lt_succ_diag_r (length D))) as H.
  destruct (prev_loop (S (length D)) next alt [] start) as [l|l| |]; try exact H.
  - destruct H as [Ha [Hb _]]. split; assumption.
  - destruct H as [Ha [Hb _]]. split; assumption.
Qed.

(* ------------------------------------------------------------------ object stream index *)

Lemma indexed_ok_spec : forall arr_nil len index,
  indexed_ok arr_nil len index = true <-> arr_nil = false /\ (0 <= index < len)%Z.
Proof.
  intros arr_nil len index. unfold indexed_ok. destruct arr_nil; simpl.
  - split; [discriminate | intros [H _]; discriminate].
  - destruct (Z.ltb_spec index 0) as [Ha|Ha]; destruct (Z.leb_spec len index) as [Hb|Hb]; simpl; split; intros Hc;
      try discriminate; try (destruct Hc as [_ Hc]; lia); try reflexivity; try (split; [reflexivity | lia]).
Qed.

(* whenever the guard lets an index through, the slice access is in bounds: for EVERY int, also the
   negative ones an 8 byte xref stream field with the top bit set decodes to *)
Lemma indexed_ok_in_bounds : forall (A : Type) (arr : list A) index,
  indexed_ok false (Z.of_nat (length arr)) index = true ->
  exists x, nth_error arr (Z.to_nat index) = Some x.
Proof.
  intros A arr index H. apply indexed_ok_spec in H. destruct H as [_ H].
  destruct (nth_error arr (Z.to_nat index)) as [x|] eqn:E; [exists x; reflexivity|].
  apply nth_error_None in E. lia.
Qed.

Lemma buf_top_bit_negative :
  buf_to_int64 [128; 0; 0; 0; 0; 0; 0; 0]%N = (-9223372036854775808)%Z
  /\ indexed_ok false 4 (buf_to_int64 [128; 0; 0; 0; 0; 0; 0; 0]%N) = false
  /\ buf_to_int64 [255; 255]%N = 65535%Z.
Proof. vm_compute. repeat split; reflexivity. Qed.

(* ------------------------------------------------------------------ BER length / end-of-contents *)

Lemma getb_in : forall ber i, (0 <= i < Z.of_nat (length ber))%Z -> exists b, getb ber i = Some b.
Proof.
  intros ber i H. unfold getb. destruct (Z.ltb_spec i 0) as [Hn|Hn]; [lia|].
  destruct (nth_error ber (Z.to_nat i)) as [b|] eqn:E; [exists b; reflexivity|].
  apply nth_error_None in E. lia.
Qed.

Lemma slice_in : forall ber lo cnt, (0 <= lo)%Z -> (0 <= cnt)%Z -> (lo + cnt <= Z.of_nat (length ber))%Z ->
  exists bs, slice ber lo cnt = Some bs.
Proof.
  intros ber lo cnt H1 H2 H3. unfold slice.
  destruct (Z.ltb_spec lo 0); [lia|]. destruct (Z.ltb_spec cnt 0); [lia|].
  destruct (Z.ltb_spec (Z.of_nat (length ber)) (lo + cnt)); [lia|]. simpl. eexists. reflexivity.
Qed.

Definition bytes_wf (ber : list N) : Prop := Forall (fun b => (b < 256)%N) ber.

Lemma getb_wf : forall ber i b, bytes_wf ber -> getb ber i = Some b -> (b < 256)%N.
Proof.
  intros ber i b Hwf H. unfold getb in H. destruct (i <? 0)%Z; [discriminate|].
  apply nth_error_In in H. unfold bytes_wf in Hwf. rewrite Forall_forall in Hwf. apply Hwf. exact H.
Qed.

Lemma land127 : forall b, N.land b 127 = (b mod 128)%N.
Proof. intros b. change 127%N with (N.ones 7). rewrite N.land_ones. reflexivity. Qed.

Lemma fold_len_nonneg : forall bs acc, (0 <= acc)%Z -> (0 <= fold_left (fun l b => (l * 256 + Z.of_N b)%Z) bs acc)%Z.
Proof. induction bs as [|b bs IH]; intros acc H; simpl; [exact H | apply IH; lia]. Qed.

(* readLength never indexes or slices outside [0, len), for EVERY byte string and EVERY int offset;
   on success the length is non-negative and the cursor has advanced and stays inside the data *)
Lemma read_length_safe : forall ber offset, bytes_wf ber ->
  match read_length ber offset with
  | LOOB => False
  | LErr => True
  | LOk len _ next => (0 <= len)%Z /\ (offset < next <= Z.of_nat (length ber))%Z
  end.
Proof.
  intros ber offset Hwf. unfold read_length.
  destruct (Z.ltb_spec offset 0) as [H0|H0]; simpl; [exact I|].
  destruct (Z.leb_spec (Z.of_nat (length ber)) offset) as [H1|H1]; simpl; [exact I|].
  destruct (getb_in ber offset ltac:(lia)) as [first Ef]. rewrite Ef.
  pose proof (getb_wf _ _ _ Hwf Ef) as Hb.
  destruct (N.eqb_spec first 128) as [E8|E8]; [split; lia|].
  destruct (N.ltb_spec first 128) as [Hlt|Hge]; [split; lia|].
  rewrite land127.
  assert (Hcnt : (Z.of_N (first mod 128) = Z.of_N first - 128)%Z).
  { assert (Hq : (first = 128 * 1 + (first - 128))%N) by lia.
    assert (Hm : (first mod 128 = first - 128)%N).
    { symmetry. apply (N.mod_unique first 128 1); [lia | exact Hq]. }
    rewrite Hm. lia. }
  rewrite Hcnt.
  destruct (Z.ltb_spec 4 (Z.of_N first - 128)) as [H4|H4]; [exact I|].
  destruct (Z.ltb_spec (Z.of_nat (length ber) - (offset + 1)) (Z.of_N first - 128)) as [Hx|Hx]; [exact I|].
  destruct (getb_in ber (offset + 1) ltac:(lia)) as [b0 Eb]. rewrite Eb.
  destruct (b0 =? 0)%N; [exact I|].
  destruct ((Z.of_N first - 128 =? 4)%Z && (127 <? b0)%N); [exact I|].
  destruct (slice_in ber (offset + 1) (Z.of_N first - 128) ltac:(lia) ltac:(lia) ltac:(lia)) as [bs Es]. rewrite Es.
  split; [apply fold_len_nonneg; lia | lia].
Qed.

Lemma is_indef_term_safe : forall ber offset, is_indef_term ber offset <> IOOB.
Proof.
  intros ber offset. unfold is_indef_term.
  destruct (Z.ltb_spec offset 0) as [H0|H0]; simpl; [discriminate|].
  destruct (Z.ltb_spec (Z.of_nat (length ber)) offset) as [H1|H1]; simpl; [discriminate|].
  destruct (Z.ltb_spec (Z.of_nat (length ber) - offset) 2) as [H2|H2]; [discriminate|].
  destruct (getb_in ber offset ltac:(lia)) as [a Ea]. destruct (getb_in ber (offset + 1) ltac:(lia)) as [b Eb].
  rewrite Ea, Eb. discriminate.
Qed.

(* the weakened guard `offset < 0 || offset >= len(ber)` would read one past the end *)
Lemma is_indef_term_needs_two : getb [48; 128; 2; 1; 1; 0]%N 6 = None /\ is_indef_term [48; 128; 2; 1; 1; 0]%N 5 = IErr.
Proof. vm_compute. split; reflexivity. Qed.

(* ------------------------------------------------------------------ detectMarker *)

Lemma index_from_range : forall p s i, index_from p s i = (-1)%Z \/ (i <= index_from p s i)%Z.
Proof.
  intros p s. induction s as [|c t IH]; intros i; simpl.
  - destruct (prefixb p []); [right; lia | left; reflexivity].
  - destruct (prefixb p (c :: t)); [right; lia|]. destruct (IH (i + 1)%Z) as [H|H]; [left; exact H | right; lia].
Qed.

Lemma str_index_range : forall p s, str_index p s = (-1)%Z \/ (0 <= str_index p s)%Z.
Proof. intros p s. apply index_from_range. Qed.

Lemma skipn_length_Z : forall (l : list N) off, (0 <= off <= Z.of_nat (length l))%Z ->
  Z.of_nat (length (skipn (Z.to_nat off) l)) = (Z.of_nat (length l) - off)%Z.
Proof. intros l off H. rewrite skipn_length. lia. Qed.

(* with the look-ahead guarded, the loop reads only inside the line and ends within |line|+1 rounds *)
Lemma dm_loop_safe : forall fuel is_endobj marker line off ind,
  (1 <= Z.of_nat (length marker))%Z -> (Z.of_nat (length marker) <= off < Z.of_nat (length line))%Z ->
  (length line < fuel)%nat ->
  match dm_loop fuel true is_endobj marker line off ind with DRes _ => True | _ => False end.
Proof.
  induction fuel as [|f IH]; intros is_endobj marker line off ind Hm Hoff Hf; [lia|].
  simpl. destruct (getb_in line off ltac:(lia)) as [c Ec]. rewrite Ec.
  destruct (is_marker_term c); [exact I|].
  set (line1 := skipn (Z.to_nat off) line).
  assert (Hl1 : Z.of_nat (length line1) = (Z.of_nat (length line) - off)%Z) by (apply skipn_length_Z; lia).
  assert (Hcont :
    match (let i := str_index marker line1 in
           if (i <? 0)%Z then DRes (-1)
           else if (Z.of_nat (length line1) <=? i + Z.of_nat (length marker))%Z then DRes (-1)
           else dm_loop f true is_endobj marker line1 (i + Z.of_nat (length marker))%Z (ind + (i + Z.of_nat (length marker)))%Z)
    with DRes _ => True | _ => False end).
  { cbv zeta. destruct (Z.ltb_spec (str_index marker line1) 0) as [Hi|Hi]; [exact I|].
    destruct (Z.leb_spec (Z.of_nat (length line1)) (str_index marker line1 + Z.of_nat (length marker))) as [Hx|Hx]; [exact I|].
    apply IH; lia. }
  destruct is_endobj; [|exact Hcont].
  destruct (Z.leb_spec 0 (str_index m_xref line1)) as [Hj|Hj]; simpl; [|exact Hcont].
  destruct (Z.ltb_spec (str_index m_xref line1 + 4) (Z.of_nat (length line1))) as [Hk|Hk]; [|exact Hcont].
  destruct (getb_in line1 (str_index m_xref line1 + 4) ltac:(lia)) as [r Er]. rewrite Er.
  destruct (is_marker_term r); [exact I | exact Hcont].
Qed.

Lemma detect_marker_safe : forall is_endobj line,
  match detect_marker true is_endobj line with DRes _ => True | _ => False end.
Proof.
  intros is_endobj line. unfold detect_marker.
  set (marker := if is_endobj then m_endobj else m_stream).
  assert (Hm : Z.of_nat (length marker) = 6%Z) by (destruct is_endobj; reflexivity).
  destruct (Z.ltb_spec (str_index marker line) 0) as [Hi|Hi]; [exact I|].
  destruct (Z.leb_spec (Z.of_nat (length line)) (str_index marker line + Z.of_nat (length marker))) as [Hx|Hx]; [exact I|].
  apply dm_loop_safe; lia.
Qed.

(* "endobjstartxref" ending exactly at the end of the buffer: the unguarded look-ahead reads line[j+4] = line[len] *)
Lemma detect_marker_unguarded_oob :
  detect_marker false true [101;110;100;111;98;106;115;116;97;114;116;120;114;101;102]%N = DOOB
  /\ detect_marker true true [101;110;100;111;98;106;115;116;97;114;116;120;114;101;102]%N = DRes (-1).
Proof. vm_compute. split; reflexivity. Qed.

(* ------------------------------------------------------------------ Flate predictor parameters *)

Local Ltac Zify.zify_post_hook ::= Z.div_mod_to_equations.

Lemma safe_add_some : forall a b r, safe_add a b = Some r -> (0 <= a /\ 0 <= b /\ r = a + b)%Z.
Proof.
  intros a b r. unfold safe_add.
  destruct (Z.ltb_spec a 0) as [Ha|Ha]; simpl; [discriminate|]. destruct (Z.ltb_spec b 0) as [Hb|Hb]; simpl; [discriminate|].
  destruct (max_int <? a + b)%Z; [discriminate|]. intros Hr. inversion Hr. lia.
Qed.
Lemma safe_mul_some : forall a b r, safe_mul a b = Some r -> (0 <= a /\ 0 <= b /\ r = a * b)%Z.
Proof.
  intros a b r. unfold safe_mul.
  destruct (Z.ltb_spec a 0) as [Ha|Ha]; simpl; [discriminate|]. destruct (Z.ltb_spec b 0) as [Hb|Hb]; simpl; [discriminate|].
  destruct (max_int <? a * b)%Z; [discriminate|]. intros Hr. inversion Hr. lia.
Qed.

Lemma flate_parameters_some : forall colors bpc columns c b k,
  flate_parameters colors bpc columns = Some (c, b, k) -> (1 <= c /\ 1 <= b /\ 1 <= k)%Z.
Proof.
  intros colors bpc columns c b k. unfold flate_parameters.
  destruct colors as [c0|]; [destruct (Z.leb_spec c0 0) as [Hc|Hc]; [discriminate|]|];
  (destruct bpc as [b0|];
   [destruct ((b0 =? 1)%Z || (b0 =? 2)%Z || (b0 =? 4)%Z || (b0 =? 8)%Z || (b0 =? 16)%Z) eqn:Eb; [|discriminate]|]);
  (destruct columns as [k0|]; [destruct (Z.leb_spec k0 0) as [Hk|Hk]; [discriminate|]|]);
  intros Hr; inversion Hr; subst; lia.
Qed.

Lemma predictor_row_params_pos : forall p c b k rs rl bpp,
  (1 <= c)%Z -> (1 <= b)%Z -> (1 <= k)%Z ->
  predictor_row_params p c b k = Some (rs, rl, bpp) -> (1 <= rs /\ 1 <= rl /\ 1 <= bpp)%Z.
Proof.
  intros p c b k rs rl bpp Hc Hb Hk. unfold predictor_row_params.
  destruct (safe_mul b c) as [bits|] eqn:E1; [|discriminate]. apply safe_mul_some in E1.
  destruct (safe_add bits 7) as [bitsr|] eqn:E2; [|discriminate]. apply safe_add_some in E2.
  destruct (safe_mul bits k) as [rowbits|] eqn:E3; [|discriminate]. apply safe_mul_some in E3.
  destruct (safe_add rowbits 7) as [rowbitsr|] eqn:E4; [|discriminate]. apply safe_add_some in E4.
  assert (Hbits : (1 <= bits)%Z) by nia.
  assert (Hrb : (1 <= rowbits)%Z) by nia.
  destruct (p =? 2)%Z.
  - intros H. inversion H. subst. lia.
  - destruct (safe_add (rowbitsr / 8) 1) as [rl0|] eqn:E5; [|discriminate]. apply safe_add_some in E5.
    intros H. inversion H. subst. lia.
Qed.

(* whatever the /DecodeParms say: if the predictor stage accepts them, the number of colour components, the row
   size, the row length and the bytes per pixel are all >= 1 — every divisor in the stage (len(row)/colors in
   applyHorDiff, b.Len()%rowSize in decodePostProcess) is non-zero and every row buffer is non-empty *)
Lemma post_process_params_pos : forall predictor colors bpc columns c rs rl bpp,
  post_process_params predictor colors bpc columns = PPRows c rs rl bpp ->
  (1 <= c /\ 1 <= rs /\ 1 <= rl /\ 1 <= bpp)%Z.
Proof.
  intros predictor colors bpc columns c rs rl bpp. unfold post_process_params.
  destruct predictor as [p|]; [|discriminate].
  destruct (p =? 1)%Z; [discriminate|]. destruct (valid_predictor p); simpl; [|discriminate].
  destruct (flate_parameters colors bpc columns) as [[[c0 b0] k0]|] eqn:Ef; [|discriminate].
  apply flate_parameters_some in Ef. destruct Ef as [Hc [Hb Hk]].
  destruct (predictor_row_params p c0 b0 k0) as [[[rs0 rl0] bpp0]|] eqn:Er; [|discriminate].
  intros H. inversion H. subst.
  pose proof (predictor_row_params_pos _ _ _ _ _ _ _ Hc Hb Hk Er). lia.
Qed.

Lemma post_process_params_examples :
  post_process_params (Some 2%Z) (Some 0%Z) None None = PPErr /\
  post_process_params (Some 2%Z) (Some 1%Z) None None = PPRows 1 1 1 1 /\
  post_process_params (Some 12%Z) (Some 3%Z) (Some 8%Z) (Some 5%Z) = PPRows 3 15 16 3 /\
  post_process_params (Some 1%Z) (Some 0%Z) None None = PPass.
Proof. vm_compute. repeat split; reflexivity. Qed.

(* ------------------------------------------------------------------ cmap format 4 layout *)

(* an accepted layout covers all four segment arrays: every 2-byte read endCode[s], startCode[s], idDelta[s],
   idRangeOffset[s] for a segment s < segCount lies inside the subtable's declared (and available) length *)
Lemma cmap4_layout_in_bounds : forall avail format declared segx2 size n e st d rg,
  (0 <= segx2)%Z ->
  cmap4_layout avail format declared segx2 = Some (size, n, e, st, d, rg) ->
  (size <= avail)%Z /\ (1 <= n)%Z /\
  forall s, (0 <= s < n)%Z ->
    (0 <= e + 2 * s /\ e + 2 * s + 2 <= size)%Z /\ (0 <= st + 2 * s /\ st + 2 * s + 2 <= size)%Z /\
    (0 <= d + 2 * s /\ d + 2 * s + 2 <= size)%Z /\ (0 <= rg + 2 * s /\ rg + 2 * s + 2 <= size)%Z.
Proof.
  intros avail format declared segx2 size n e st d rg Hs. unfold cmap4_layout.
  destruct (avail <? 16)%Z eqn:E1; [discriminate|].
  destruct (negb (format =? 4)%Z) eqn:E2; [discriminate|].
  destruct (declared <? 16)%Z eqn:E3; [discriminate|].
  destruct (avail <? declared)%Z eqn:E4; [discriminate|].
  destruct ((segx2 =? 0)%Z || negb (segx2 mod 2 =? 0)%Z) eqn:E5; [discriminate|].
  destruct (declared <? c4_range_off (segx2 / 2) + 2 * (segx2 / 2))%Z eqn:E6; [discriminate|].
  apply Z.ltb_ge in E1, E3, E4, E6. apply orb_false_iff in E5. destruct E5 as [E5a E5b].
  apply Z.eqb_neq in E5a. apply negb_false_iff in E5b. apply Z.eqb_eq in E5b.
  intros H. injection H as J1 J2 J3 J4 J5 J6. subst.
  assert (Hn : (1 <= segx2 / 2)%Z) by lia.
  set (q := (segx2 / 2)%Z) in *. clearbody q. clear E5a E5b.
  unfold c4_range_off, c4_delta_off, c4_start_off, c4_end_off in *.
  split; [lia|]. split; [exact Hn|]. intros s Hs2. lia.
Qed.

(* checking only up to the idDelta array (`deltaOff+2*segCount`) would accept a subtable that ends
   in front of idRangeOffset: one segment, declared length 22 *)
Lemma cmap4_layout_example :
  cmap4_layout 24 4 22 2 = None /\ cmap4_layout 24 4 24 2 = Some (24, 1, 14, 18, 20, 22)%Z.
Proof. vm_compute. split; reflexivity. Qed.
