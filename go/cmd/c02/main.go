// Harness for C02: replacing an existing file is atomic at every crash point.
//
// The harness re-executes itself as a small child process (`hC02 child <op> <dir>`) that performs ONE
// real pdfcpu operation replacing an existing file in a scratch directory, under strace:
//
//	K (trace)  the recorded syscalls that touch the scratch directory (openat/fchmod/write/close/
//	           renameat/unlinkat …, consecutive writes collapsed, reads/stats/input closes dropped) must
//	           equal the mutation skeleton of the model's trace for the operation's protocol;
//	O (trace)  in the recording no pre-existing file is ever opened for writing, written, chmod-ed,
//	           unlinked or used as a rename source;
//	O (kill)   `strace -e inject=<syscall>:signal=SIGKILL:when=N` kills the child at its N-th call of each
//	           traced syscall; afterwards the destination holds its old bytes or the complete new output
//	           (bytes of the uninterrupted run, or for randomised outputs a PDF that validates), every other
//	           pre-existing file is unchanged, and every new name is a hidden ".<base>.tmp-*" file next to
//	           the destination;
//	K (kill)   the directory after the kill must be the model's crash state at the cut the strace log shows.
package main

import (
	"bufio"
	"bytes"
	"fmt"
	"os"
	"os/exec"
	"path/filepath"
	"regexp"
	"runtime"
	"sort"
	"strconv"
	"strings"
	"syscall"

	"github.com/pdfcpu/pdfcpu/pkg/api"
	"github.com/pdfcpu/pdfcpu/pkg/cli"
	"github.com/pdfcpu/pdfcpu/pkg/pdfcpu"
	"github.com/pdfcpu/pdfcpu/pkg/pdfcpu/model"
	"github.com/pdfcpu/pdfcpu/pkg/pdfcpu/types"
	"verif/vh"
)

const scratch = "/tmp/c02-scratch"

var (
	reDate = regexp.MustCompile(`D:\d{14}`)
	reID   = regexp.MustCompile(`/ID\s*\[\s*<[0-9A-Fa-f]+>\s*<[0-9A-Fa-f]+>\s*\]`)
)

// pdfcpu stamps every output with the current time (CreationDate/ModDate) and a fresh document ID:
// two runs of one operation differ in exactly these bytes.  Outputs are compared modulo them.
func normPDF(b []byte) []byte {
	b = reDate.ReplaceAll(b, []byte("D:00000000000000"))
	return reID.ReplaceAll(b, []byte("/ID[<00><00>]"))
}

// pdfcpu's object numbering also depends on Go map iteration order, so two runs of one operation are
// not byte-identical.  "The complete output" therefore means: identical to the reference run modulo
// time stamps/ID, or — a complete PDF (ends in %%EOF, validates) with the page count of the reference
// run and its length up to the width of renumbered object references.
func sameOutput(b, ref []byte) bool {
	if ref == nil {
		return false
	}
	if bytes.Equal(b, ref) || bytes.Equal(normPDF(b), normPDF(ref)) {
		return true
	}
	if !bytes.HasPrefix(ref, []byte("%PDF-")) || !bytes.HasPrefix(b, []byte("%PDF-")) {
		return false
	}
	if !bytes.HasSuffix(bytes.TrimRight(b, "\r\n"), []byte("%%EOF")) {
		return false
	}
	if d := len(b) - len(ref); d > 64 || d < -64 {
		return false
	}
	conf := model.NewDefaultConfiguration()
	conf.UserPW, conf.OwnerPW = "user", "owner"
	if err := api.Validate(bytes.NewReader(b), conf); err != nil {
		return false
	}
	nb, err1 := api.PageCount(bytes.NewReader(b), conf)
	nr, err2 := api.PageCount(bytes.NewReader(ref), conf)
	return err1 == nil && err2 == nil && nb == nr
}

// model path ids of the fixed names
var pathID = map[string]int{"in.pdf": 2, "out.pdf": 3, "in2.pdf": 4, "other.dat": 5, "att.txt": 6, "target.pdf": 7, "store/report.pdf": 8}

type op struct {
	name    string
	proto   string      // model protocol (ocaml/C02_glue.ml syntax)
	dest    string      // file name of the destination
	fin     string      // how the body ends: ok / err
	outPDF  bool        // the existing output must be a PDF (merge append)
	corrupt bool        // the input is not a PDF (processing error after the staging file was opened)
	enc     bool        // output is encrypted (validate with the password)
	stdin   bool        // the child reads in.pdf from stdin (cli stream)
	noOut   bool        // no out.pdf in the directory (in-place operations)
	kind    string      // what the named output is: "" regular | absent | symlink-same | symlink-other | symlink-chain | dangling | hardlink
	fault   string      // "mktemp": creating the staging file is expected to fail (staging name > NAME_MAX)
	outName string      // name of the existing explicit output (default out.pdf)
	mode    os.FileMode // permission bits of the destination before the run (0 = 0640 for in.pdf, 0600 for out.pdf)
	run     func(dir string) error
}

func p(dir, n string) string { return filepath.Join(dir, n) }

// an output base name of n bytes.  The staging name is "." + base + ".tmp-" + up to 10 digits: with
// NAME_MAX = 255 it cannot be created for bases of 249 bytes and more (ENAMETOOLONG); between 240 and 248
// bytes it depends on the number of random digits (241 bytes: fails in ~98 % of the runs), so the sweep
// uses 250 and 251 (always fails) and 200 (always succeeds).
func long(n int) string { return strings.Repeat("o", n-4) + ".pdf" }

func init() {
	for _, n := range []int{200, 250, 251} {
		pathID[long(n)] = 3
	}
}

// no object streams / xref streams: the time stamps and the document ID stay plain text (see normPDF)
func conf() *model.Configuration {
	c := model.NewDefaultConfiguration()
	c.WriteObjectStream = false
	c.WriteXRefStream = false
	return c
}

func cliRotateStdin(d string) error {
	_, err := cli.Dispatch(cli.RotateCommand("-", p(d, "out.pdf"), 90, nil, conf()))
	return err
}

func encConf() *model.Configuration { return model.NewAESConfiguration("user", "owner", 256) }

func ops() []op {
	return []op{
		{name: "optimize-inplace", proto: "api:flag:2:2:-", dest: "in.pdf", fin: "ok", noOut: true,
			run: func(d string) error { return api.OptimizeFile(p(d, "in.pdf"), "", conf()) }},
		{name: "rotate-existing", proto: "api:flag:2:2:3", dest: "out.pdf", fin: "ok",
			run: func(d string) error { return api.RotateFile(p(d, "in.pdf"), p(d, "out.pdf"), 90, nil, conf()) }},
		{name: "mergeappend-existing", proto: "api:flag:-:-:3", dest: "out.pdf", fin: "ok", outPDF: true,
			run: func(d string) error {
				return api.MergeAppendFile([]string{p(d, "in2.pdf")}, p(d, "out.pdf"), false, conf())
			}},
		{name: "writereader-existing", proto: "pdf:none:-:3", dest: "out.pdf", fin: "ok",
			run: func(d string) error {
				return pdfcpu.WriteReader(p(d, "out.pdf"), bytes.NewReader(bytes.Repeat([]byte("new content "), 3000)))
			}},
		// write-protected destinations: a publish step that treats them specially (unlink before rename, …)
		// would show as an extra remove/rename-away in the trace and as a missing destination after a kill
		{name: "optimize-inplace-0444", proto: "api:flag:2:2:-", dest: "in.pdf", fin: "ok", noOut: true, mode: 0o444,
			run: func(d string) error { return api.OptimizeFile(p(d, "in.pdf"), "", conf()) }},
		{name: "optimize-inplace-0400", proto: "api:flag:2:2:-", dest: "in.pdf", fin: "ok", noOut: true, mode: 0o400,
			run: func(d string) error { return api.OptimizeFile(p(d, "in.pdf"), "", conf()) }},
		{name: "writereader-existing-0444", proto: "pdf:none:-:3", dest: "out.pdf", fin: "ok", mode: 0o444,
			run: func(d string) error {
				return pdfcpu.WriteReader(p(d, "out.pdf"), bytes.NewReader(bytes.Repeat([]byte("new content "), 3000)))
			}},
		// explicit existing outputs with long base names: the staging file next to them can (200) or cannot
		// (241, 251) be created; a failing CreateTemp must be a clean error, never a fallback to the output itself
		{name: "optimize-existing-long250", proto: "api:flag:2:2:3", dest: long(250), outName: long(250), fin: "ok", fault: "mktemp",
			run: func(d string) error { return api.OptimizeFile(p(d, "in.pdf"), p(d, long(250)), conf()) }},
		{name: "optimize-corrupt-existing-long251", proto: "api:flag:2:2:3", dest: long(251), outName: long(251), fin: "ok", fault: "mktemp", corrupt: true,
			run: func(d string) error { return api.OptimizeFile(p(d, "in.pdf"), p(d, long(251)), conf()) }},
		{name: "optimize-existing-long200", proto: "api:flag:2:2:3", dest: long(200), outName: long(200), fin: "ok",
			run: func(d string) error { return api.OptimizeFile(p(d, "in.pdf"), p(d, long(200)), conf()) }},
		// the CLI stream path (`pdfcpu rotate - out.pdf`: stdin input, named output; cli.Dispatch -> streamInOutForOperation
		// -> createStreamOutput) with the output reached through a symlink into another directory / being a regular file
		{name: "cli-rotate-stdin-symlink-other", proto: "cli:-:3", dest: "out.pdf", fin: "ok", stdin: true, kind: "symlink-other", run: cliRotateStdin},
		{name: "cli-rotate-stdin-regular", proto: "cli:-:3", dest: "out.pdf", fin: "ok", stdin: true, run: cliRotateStdin},
		{name: "encrypt-inplace", proto: "api:flag:2:2:-", dest: "in.pdf", fin: "ok", enc: true, noOut: true,
			run: func(d string) error { return api.EncryptFile(p(d, "in.pdf"), "", encConf()) }},
		{name: "optimize-corrupt-inplace", proto: "api:flag:2:2:-", dest: "in.pdf", fin: "err", corrupt: true, noOut: true,
			run: func(d string) error { return api.OptimizeFile(p(d, "in.pdf"), "", conf()) }},
		// thorough only from here
		{name: "watermark-inplace", proto: "api:flag:2:2:-", dest: "in.pdf", fin: "ok", noOut: true,
			run: func(d string) error {
				return api.AddTextWatermarksFile(p(d, "in.pdf"), "", nil, true, "Draft", "fo:Courier, scale:.9, op:.6", conf())
			}},
		{name: "attach-inplace", proto: "api:flag:2:2:-", dest: "in.pdf", fin: "ok", noOut: true,
			run: func(d string) error {
				return api.AddAttachmentsFile(p(d, "in.pdf"), "", []string{p(d, "att.txt")}, false, conf())
			}},
		{name: "trim-existing", proto: "api:flag:2:2:3", dest: "out.pdf", fin: "ok",
			run: func(d string) error { return api.TrimFile(p(d, "in.pdf"), p(d, "out.pdf"), []string{"1"}, conf()) }},
		{name: "copyfile-existing", proto: "pdf:none:2:3", dest: "out.pdf", fin: "ok",
			run: func(d string) error { _, err := pdfcpu.CopyFile(p(d, "in.pdf"), p(d, "out.pdf"), true); return err }},
		{name: "writecontext-existing", proto: "pdf:flag:-:3", dest: "out.pdf", fin: "ok",
			run: func(d string) error {
				ctx, err := api.ReadContextFile(p(d, "in.pdf"))
				if err != nil {
					return err
				}
				ctx.Write.DirName = d
				ctx.Write.FileName = "out.pdf"
				return pdfcpu.WriteContext(ctx)
			}},
		{name: "mergecreate-existing-long251", proto: "api:flag:-:-:3", dest: long(251), outName: long(251), fin: "ok", fault: "mktemp",
			run: func(d string) error {
				return api.MergeCreateFile([]string{p(d, "in.pdf"), p(d, "in2.pdf")}, p(d, long(251)), false, conf())
			}},
		{name: "mergecreate-existing-long200", proto: "api:flag:-:-:3", dest: long(200), outName: long(200), fin: "ok",
			run: func(d string) error {
				return api.MergeCreateFile([]string{p(d, "in.pdf"), p(d, "in2.pdf")}, p(d, long(200)), false, conf())
			}},
		{name: "trim-existing-long250", proto: "api:flag:2:2:3", dest: long(250), outName: long(250), fin: "ok", fault: "mktemp",
			run: func(d string) error { return api.TrimFile(p(d, "in.pdf"), p(d, long(250)), []string{"1"}, conf()) }},
		{name: "trim-corrupt-existing-long200", proto: "api:flag:2:2:3", dest: long(200), outName: long(200), fin: "err", corrupt: true,
			run: func(d string) error { return api.TrimFile(p(d, "in.pdf"), p(d, long(200)), []string{"1"}, conf()) }},
		{name: "writereader-existing-long250", proto: "pdf:none:-:3", dest: long(250), outName: long(250), fin: "ok", fault: "mktemp",
			run: func(d string) error {
				return pdfcpu.WriteReader(p(d, long(250)), bytes.NewReader(bytes.Repeat([]byte("new content "), 3000)))
			}},
		{name: "cli-rotate-stdin-absent", proto: "cli:-:3", dest: "out.pdf", fin: "ok", stdin: true, kind: "absent", run: cliRotateStdin},
		{name: "cli-rotate-stdin-readonly", proto: "cli:-:3", dest: "out.pdf", fin: "ok", stdin: true, mode: 0o444, run: cliRotateStdin},
		{name: "cli-rotate-stdin-symlink-same", proto: "cli:-:3", dest: "out.pdf", fin: "ok", stdin: true, kind: "symlink-same", run: cliRotateStdin},
		{name: "cli-rotate-stdin-symlink-chain", proto: "cli:-:3", dest: "out.pdf", fin: "ok", stdin: true, kind: "symlink-chain", run: cliRotateStdin},
		{name: "cli-rotate-stdin-dangling", proto: "cli:-:3", dest: "out.pdf", fin: "ok", stdin: true, kind: "dangling", run: cliRotateStdin},
		{name: "cli-rotate-stdin-hardlink", proto: "cli:-:3", dest: "out.pdf", fin: "ok", stdin: true, kind: "hardlink", run: cliRotateStdin},
		{name: "optimize-existing-symlink-other", proto: "api:flag:2:2:3", dest: "out.pdf", fin: "ok", kind: "symlink-other",
			run: func(d string) error { return api.OptimizeFile(p(d, "in.pdf"), p(d, "out.pdf"), conf()) }},
		{name: "writereader-existing-symlink-same", proto: "pdf:none:-:3", dest: "out.pdf", fin: "ok", kind: "symlink-same",
			run: func(d string) error {
				return pdfcpu.WriteReader(p(d, "out.pdf"), bytes.NewReader(bytes.Repeat([]byte("new content "), 3000)))
			}},
		{name: "rotate-existing-0400", proto: "api:flag:2:2:3", dest: "out.pdf", fin: "ok", mode: 0o400,
			run: func(d string) error { return api.RotateFile(p(d, "in.pdf"), p(d, "out.pdf"), 90, nil, conf()) }},
		{name: "writecontext-existing-0444", proto: "pdf:flag:-:3", dest: "out.pdf", fin: "ok", mode: 0o444,
			run: func(d string) error {
				ctx, err := api.ReadContextFile(p(d, "in.pdf"))
				if err != nil {
					return err
				}
				ctx.Write.DirName = d
				ctx.Write.FileName = "out.pdf"
				return pdfcpu.WriteContext(ctx)
			}},
		{name: "cli-watermark-stdin-existing-0444", proto: "cli:-:3", dest: "out.pdf", fin: "ok", stdin: true, mode: 0o444,
			run: func(d string) error {
				in, out := "-", p(d, "out.pdf")
				wm, err := api.TextWatermark("Draft", "fo:Courier, scale:.9, op:.6", true, false, types.POINTS)
				if err != nil {
					return err
				}
				cmd := &cli.Command{InFile: &in, OutFile: &out, Watermark: wm, Conf: conf()}
				_, err = cli.AddWatermarks(cmd)
				return err
			}},
		{name: "cli-watermark-stdin-existing", proto: "cli:-:3", dest: "out.pdf", fin: "ok", stdin: true,
			run: func(d string) error {
				in, out := "-", p(d, "out.pdf")
				wm, err := api.TextWatermark("Draft", "fo:Courier, scale:.9, op:.6", true, false, types.POINTS)
				if err != nil {
					return err
				}
				cmd := &cli.Command{InFile: &in, OutFile: &out, Watermark: wm, Conf: conf()}
				_, err = cli.AddWatermarks(cmd)
				return err
			}},
	}
}

func child(args []string) {
	runtime.LockOSThread()
	api.DisableConfigDir()
	syscall.Umask(0o022)
	for _, o := range ops() {
		if o.name == args[0] {
			if err := o.run(args[1]); err != nil {
				fmt.Fprintln(os.Stderr, "child:", err)
				os.Exit(3)
			}
			os.Exit(0)
		}
	}
	os.Exit(4)
}

func main() {
	if len(os.Args) >= 4 && os.Args[1] == "child" {
		child(os.Args[2:])
		return
	}
	r := vh.Start("C02")
	defer r.Finish()
	api.DisableConfigDir()
	syscall.Umask(0o022)
	os.MkdirAll(scratch, 0o755)
	base := filepath.Join(scratch, fmt.Sprintf("run-%d", os.Getpid()))
	os.RemoveAll(base)
	os.MkdirAll(base, 0o755)
	defer os.RemoveAll(base)
	h := &harness{r: r, base: base}
	h.prepare()
	all := ops()
	n := r.Pick(14, len(all))
	for _, o := range all[:n] {
		h.runOp(o)
	}
}

// ---------------------------------------------------------------------------------------------

type harness struct {
	r     *vh.Run
	base  string
	small []byte // a 1-page PDF
	multi []byte // a 3-page PDF
	self  string
	n     int
}

func (h *harness) prepare() {
	repo := os.Getenv("VERIF_REPO")
	if repo == "" {
		repo = "/repo"
	}
	var err error
	h.small, err = os.ReadFile(filepath.Join(repo, "pkg/testdata/test.pdf"))
	if err != nil {
		panic(err)
	}
	sp := filepath.Join(h.base, "small.pdf")
	os.WriteFile(sp, h.small, 0o644)
	mp := filepath.Join(h.base, "multi.pdf")
	if err := api.MergeCreateFile([]string{sp, sp, sp}, mp, false, nil); err != nil {
		panic("cannot build the multi-page sample: " + err.Error())
	}
	h.multi, _ = os.ReadFile(mp)
	h.self, err = os.Executable()
	if err != nil {
		panic(err)
	}
}

type entry struct {
	mode os.FileMode
	data []byte // for a symlink: the bytes (and mode) of the file the path resolves to
	link string // symbolic link to this (relative) path
	hard string // hard link of this name
	aux  bool   // not part of the model's directory (a pure symlink: intermediate link, dangling destination)
}

// the initial directory of an operation
func (h *harness) initial(o op) map[string]entry {
	m := map[string]entry{
		"in.pdf":    {mode: 0o640, data: h.multi},
		"in2.pdf":   {mode: 0o644, data: h.small},
		"other.dat": {mode: 0o600, data: []byte("other")},
		"att.txt":   {mode: 0o644, data: []byte("attachment\n")},
	}
	if o.corrupt {
		m["in.pdf"] = entry{mode: 0o640, data: []byte("%PDF-1.7\nthis is not a pdf\n")}
	}
	if !o.noOut {
		out := "out.pdf"
		if o.outName != "" {
			out = o.outName
		}
		if o.outPDF {
			m[out] = entry{mode: 0o600, data: h.small}
		} else {
			m[out] = entry{mode: 0o600, data: []byte("EXISTING OUTPUT, not a PDF")}
		}
	}
	if o.mode != 0 {
		e := m[o.dest]
		e.mode = o.mode
		m[o.dest] = e
	}
	old := []byte("EXISTING OUTPUT, not a PDF")
	switch o.kind {
	case "absent":
		delete(m, "out.pdf")
	case "symlink-same":
		m["target.pdf"] = entry{mode: 0o600, data: old}
		m["out.pdf"] = entry{mode: 0o600, data: old, link: "target.pdf"}
	case "symlink-other":
		m["store/report.pdf"] = entry{mode: 0o640, data: old}
		m["out.pdf"] = entry{mode: 0o640, data: old, link: "store/report.pdf"}
	case "symlink-chain":
		m["target.pdf"] = entry{mode: 0o600, data: old}
		m["l2.pdf"] = entry{link: "target.pdf", aux: true}
		m["out.pdf"] = entry{mode: 0o600, data: old, link: "l2.pdf"}
	case "dangling":
		m["out.pdf"] = entry{link: "missing.pdf", aux: true}
	case "hardlink":
		m["target.pdf"] = entry{mode: 0o600, data: old}
		m["out.pdf"] = entry{mode: 0o600, data: old, hard: "target.pdf"}
	}
	return m
}

func (h *harness) mkdir(o op, init map[string]entry) string {
	h.n++
	d := filepath.Join(h.base, fmt.Sprintf("d%d", h.n))
	os.RemoveAll(d)
	if err := os.MkdirAll(d, 0o755); err != nil {
		panic(err)
	}
	for n, e := range init {
		if e.link != "" || e.hard != "" {
			continue
		}
		os.MkdirAll(filepath.Dir(p(d, n)), 0o755)
		if err := os.WriteFile(p(d, n), e.data, 0o644); err != nil {
			panic(err)
		}
		os.Chmod(p(d, n), e.mode)
	}
	for n, e := range init {
		switch {
		case e.hard != "":
			if err := os.Link(p(d, e.hard), p(d, n)); err != nil {
				panic(err)
			}
		case e.link != "":
			if err := os.Symlink(e.link, p(d, n)); err != nil {
				panic(err)
			}
		}
	}
	return d
}

var traced = []string{"openat", "rename", "renameat", "renameat2", "unlink", "unlinkat", "fchmod", "fchmodat", "chmod", "close", "write", "pwrite64", "copy_file_range", "sendfile", "truncate", "ftruncate", "link", "linkat", "symlinkat"}

// run the child under strace; inject = "" or "<syscall>:<N>"
func (h *harness) strace(o op, dir, inject string) (log string, exit int, killed bool) {
	logf := filepath.Join(h.base, "strace.log")
	os.Remove(logf)
	args := []string{"-f", "-qq", "-s", "0", "-o", logf, "-e", "signal=none", "-e", "trace=" + strings.Join(traced, ",")}
	if inject != "" {
		sc := strings.SplitN(inject, ":", 2)
		args = append(args, "-e", "inject="+sc[0]+":signal=SIGKILL:when="+sc[1])
	}
	args = append(args, h.self, "child", o.name, dir)
	cmd := exec.Command("/usr/bin/strace", args...)
	if o.stdin {
		f, err := os.Open(p(dir, "in.pdf"))
		if err == nil {
			defer f.Close()
			cmd.Stdin = f
		}
	}
	var stderr bytes.Buffer
	cmd.Stderr = &stderr
	err := cmd.Run()
	b, _ := os.ReadFile(logf)
	log = string(b)
	if err != nil {
		if ee, ok := err.(*exec.ExitError); ok {
			exit = ee.ExitCode()
			if ws, ok := ee.Sys().(syscall.WaitStatus); ok && ws.Signaled() {
				killed = true
			}
		} else {
			exit = -1
		}
	}
	if strings.Contains(log, "+++ killed by SIGKILL +++") {
		killed = true
	}
	return
}

// ---- strace log -> events ----

type sysEvent struct {
	pid      string
	name     string
	args     string
	ret      string // "0", "-1 EEXIST", "?" …
	inflight bool   // never returned (killed)
}

var (
	reLine    = regexp.MustCompile(`^(\d+)\s+(.*)$`)
	reCall    = regexp.MustCompile(`^([a-z0-9_]+)\((.*)\)\s+= (.*)$`)
	reUnfin   = regexp.MustCompile(`^([a-z0-9_]+)\((.*) <unfinished \.\.\.>$`)
	reResumed = regexp.MustCompile(`^<\.\.\. ([a-z0-9_]+) resumed>(.*)\)\s+= (.*)$`)
	reStr     = regexp.MustCompile(`"((?:[^"\\]|\\.)*)"`)
)

func parseLog(log string) []sysEvent {
	var evs []sysEvent
	pending := map[string]int{} // pid -> index of its unfinished event
	sc := bufio.NewScanner(strings.NewReader(log))
	sc.Buffer(make([]byte, 1<<20), 1<<24)
	for sc.Scan() {
		m := reLine.FindStringSubmatch(sc.Text())
		if m == nil {
			continue
		}
		pid, rest := m[1], m[2]
		if c := reCall.FindStringSubmatch(rest); c != nil {
			evs = append(evs, sysEvent{pid: pid, name: c[1], args: c[2], ret: strings.TrimSpace(c[3])})
			continue
		}
		if u := reUnfin.FindStringSubmatch(rest); u != nil {
			evs = append(evs, sysEvent{pid: pid, name: u[1], args: u[2], inflight: true})
			pending[pid] = len(evs) - 1
			continue
		}
		if rs := reResumed.FindStringSubmatch(rest); rs != nil {
			if i, ok := pending[pid]; ok {
				evs[i].args += rs[2]
				evs[i].ret = strings.TrimSpace(rs[3])
				evs[i].inflight = false
				delete(pending, pid)
			}
			continue
		}
	}
	for i := range evs {
		if strings.HasPrefix(evs[i].ret, "?") {
			evs[i].inflight = true
		}
	}
	return evs
}

func strArgs(args string) []string {
	var l []string
	for _, m := range reStr.FindAllStringSubmatch(args, -1) {
		s, err := strconv.Unquote(`"` + m[1] + `"`)
		if err != nil {
			s = m[1]
		}
		l = append(l, s)
	}
	return l
}

func retOK(ret string) bool { return !strings.HasPrefix(ret, "-1") && !strings.HasPrefix(ret, "?") }
func retClass(e sysEvent) string {
	switch {
	case e.inflight:
		return "?"
	case retOK(e.ret):
		return "ok"
	case strings.Contains(e.ret, "EEXIST"):
		return "eexist"
	case strings.Contains(e.ret, "ENOENT"):
		return "enoent"
	}
	return "eio"
}

var reTmp = regexp.MustCompile(`^\.(.+)\.tmp-[^/]+$`)

// hidden staging name next to dest?
func isStagingName(name, dest string) bool {
	m := reTmp.FindStringSubmatch(name)
	return m != nil && strings.HasPrefix(name, "."+dest+".tmp-")
}

type absTrace struct {
	skel      []string // mutation skeleton, completed calls
	inflight  bool     // the last skeleton-relevant call never returned
	violation []string // writes into pre-existing files
}

// abstract the events that touch dir
func abstract(evs []sysEvent, dir string, init map[string]entry, dest string) absTrace {
	var a absTrace
	fdName := map[string]string{} // fd -> base name (files of dir)
	created := map[string]bool{}  // names created by the run
	readonly := map[string]bool{} // fd opened O_RDONLY
	name := func(n string) string {
		if id, ok := pathID[n]; ok {
			return fmt.Sprintf("%x", id)
		}
		if isStagingName(n, dest) {
			return "T"
		}
		return "?" + n
	}
	push := func(s string, e sysEvent) {
		if e.inflight {
			a.inflight = true
			return
		}
		s += "=" + retClass(e)
		if strings.HasPrefix(s, "write") && len(a.skel) > 0 && a.skel[len(a.skel)-1] == s {
			return
		}
		a.skel = append(a.skel, s)
	}
	inDir := func(path string) (string, bool) {
		rel, err := filepath.Rel(dir, path)
		if err != nil || rel == "." || strings.HasPrefix(rel, "..") {
			return "", false
		}
		return rel, true
	}
	pre := func(n string) bool { _, ok := init[n]; return ok && !created[n] }
	for _, e := range evs {
		switch e.name {
		case "openat":
			ss := strArgs(e.args)
			if len(ss) == 0 {
				continue
			}
			n, ok := inDir(ss[0])
			if !ok {
				continue
			}
			flags := e.args
			fd := strings.Fields(e.ret + " x")[0]
			excl := strings.Contains(flags, "O_CREAT") && strings.Contains(flags, "O_EXCL")
			wr := strings.Contains(flags, "O_WRONLY") || strings.Contains(flags, "O_RDWR") || strings.Contains(flags, "O_TRUNC") || strings.Contains(flags, "O_APPEND")
			switch {
			case excl:
				if name(n) == "T" {
					push("mktemp", e)
				} else {
					push("openx("+name(n)+")", e)
				}
				if !e.inflight && retOK(e.ret) {
					fdName[fd] = n
					created[n] = true
				}
			case wr:
				push("openw("+name(n)+")", e)
				if pre(n) && !e.inflight && retOK(e.ret) {
					a.violation = append(a.violation, "open-for-writing "+n)
				}
				if !e.inflight && retOK(e.ret) {
					fdName[fd] = n
				}
			default:
				if !e.inflight && retOK(e.ret) {
					fdName[fd] = n
					readonly[fd] = true
				}
			}
		case "write", "pwrite64", "fchmod", "ftruncate", "close", "copy_file_range", "sendfile":
			fd := strings.TrimSpace(strings.SplitN(e.args, ",", 2)[0])
			if e.name == "copy_file_range" {
				// copy_file_range(fd_in, off_in, fd_out, off_out, len, flags): io.Copy between two files
				if f := strings.Split(e.args, ","); len(f) >= 3 {
					fd = strings.TrimSpace(f[2])
				}
			}
			n, ok := fdName[fd]
			if !ok {
				continue
			}
			switch e.name {
			case "close":
				if !readonly[fd] {
					push("close("+name(n)+")", e)
				}
				if !e.inflight {
					delete(fdName, fd)
					delete(readonly, fd)
				}
			case "fchmod":
				push("chmod("+name(n)+")", e)
				if pre(n) {
					a.violation = append(a.violation, "chmod "+n)
				}
			case "ftruncate":
				push("truncate("+name(n)+")", e)
				if pre(n) {
					a.violation = append(a.violation, "truncate "+n)
				}
			default:
				push("write("+name(n)+")", e)
				if pre(n) {
					a.violation = append(a.violation, "write "+n)
				}
			}
		case "rename", "renameat", "renameat2":
			ss := strArgs(e.args)
			if len(ss) != 2 {
				continue
			}
			a1, ok1 := inDir(ss[0])
			b1, ok2 := inDir(ss[1])
			if !ok1 && !ok2 {
				continue
			}
			push("rename("+name(a1)+","+name(b1)+")", e)
			if ok1 && pre(a1) {
				a.violation = append(a.violation, "rename-away "+a1)
			}
			if !e.inflight && retOK(e.ret) {
				delete(created, a1)
			}
		case "unlink", "unlinkat", "truncate", "chmod", "fchmodat", "link", "linkat", "symlinkat":
			for _, s := range strArgs(e.args) {
				if n, ok := inDir(s); ok {
					opn := map[string]string{"unlink": "remove", "unlinkat": "remove"}[e.name]
					if opn == "" {
						opn = e.name
					}
					push(opn+"("+name(n)+")", e)
					if pre(n) {
						a.violation = append(a.violation, e.name+" "+n)
					}
					break
				}
			}
		}
	}
	return a
}

// ---- directory state ----

func modelInit(init map[string]entry, dest string) string {
	var l []string
	for n, e := range init {
		if e.aux {
			continue
		}
		l = append(l, fmt.Sprintf("%x:%x:%02x", pathID[n], uint32(e.mode), 0x10+pathID[n]))
	}
	sort.Strings(l)
	return strings.Join(l, ";")
}

type dirState struct {
	canon   string   // in the model's rendering
	destTag string   // old / new / bad
	stray   []string // new names that are not hidden staging files
	damaged []string // pre-existing files other than dest that changed
	missing []string
}

func (h *harness) isNew(o op, b []byte, ref []byte, path string) bool {
	if sameOutput(b, ref) {
		return true
	}
	if !o.enc {
		return false
	}
	// randomised output (encryption): same length as the reference and a PDF that validates with the password
	if ref != nil && len(b) != len(ref) {
		return false
	}
	conf := model.NewDefaultConfiguration()
	conf.UserPW, conf.OwnerPW = "user", "owner"
	return api.ValidateFile(path, conf) == nil
}

func (h *harness) observe(o op, dir string, init map[string]entry, ref []byte) dirState {
	var st dirState
	var l []string
	seen := map[string]bool{}
	var names []string
	filepath.Walk(dir, func(path string, fi os.FileInfo, err error) error {
		if err != nil || path == dir || fi.IsDir() {
			return nil
		}
		rel, _ := filepath.Rel(dir, path)
		names = append(names, rel)
		return nil
	})
	for _, n := range names {
		lfi, err := os.Lstat(p(dir, n))
		if err != nil {
			continue
		}
		e0, known := init[n]
		if !known && n == o.dest && o.kind == "absent" {
			// a new output: whatever it holds is not a replacement; rendered for the trace comparison only
			b, _ := os.ReadFile(p(dir, n))
			tag := "ff"
			st.destTag = "partial-new-file"
			if h.isNew(o, b, ref, p(dir, n)) {
				tag = "02"
				st.destTag = "new"
			}
			l = append(l, fmt.Sprintf("%x:%x:%s", pathID[n], uint32(lfi.Mode().Perm()), tag))
			continue
		}
		if !known {
			if isStagingName(n, o.dest) && lfi.Mode().IsRegular() {
				l = append(l, "T")
			} else {
				st.stray = append(st.stray, n)
				l = append(l, "?"+n)
			}
			continue
		}
		seen[n] = true
		if e0.aux {
			// a pure symlink must stay what it was
			if t, err := os.Readlink(p(dir, n)); err != nil || t != e0.link {
				st.damaged = append(st.damaged, n+"(symlink)")
			}
			continue
		}
		// through symlinks: what the path resolves to
		fi, err := os.Stat(p(dir, n))
		if err != nil {
			delete(seen, n)
			continue
		}
		b, _ := os.ReadFile(p(dir, n))
		tag := "ff"
		switch {
		case bytes.Equal(b, e0.data):
			tag = fmt.Sprintf("%02x", 0x10+pathID[n])
			if n == o.dest {
				st.destTag = "old"
			}
		case n == o.dest && h.isNew(o, b, ref, p(dir, n)):
			tag = "02"
			st.destTag = "new"
		case n == o.dest:
			st.destTag = "bad"
		default:
			st.damaged = append(st.damaged, n)
		}
		if n != o.dest && fi.Mode().Perm() != e0.mode {
			st.damaged = append(st.damaged, n+"(mode)")
		}
		l = append(l, fmt.Sprintf("%x:%x:%s", pathID[n], uint32(fi.Mode().Perm()), tag))
	}
	for n := range init {
		if !seen[n] {
			st.missing = append(st.missing, n)
			if n == o.dest {
				st.destTag = "missing"
			}
		}
	}
	sort.Strings(l)
	st.canon = strings.Join(l, ";")
	return st
}

// ---- one operation ----

func (h *harness) runOp(o op) {
	r := h.r
	init := h.initial(o)
	minit := modelInit(init, o.dest)
	chunks := "02"
	if o.fin == "err" {
		chunks = "-"
	}
	// 1. recording
	dir := h.mkdir(o, init)
	log, exit, killed := h.strace(o, dir, "")
	// a dangling symlink as output: O_EXCL fails (the name exists), stat fails: clean error expected; the
	// model has no symlinks, so no K for it.  An absent output is a new file, not a replacement: trace K only.
	wantErr := o.fin == "err" || o.fault != "" || o.kind == "dangling"
	looseDest := o.kind == "dangling" || o.kind == "absent"
	fault := "-"
	if o.fault != "" {
		fault = o.fault
	}
	wantExit := 0
	if wantErr {
		wantExit = 3
	}
	if killed || (exit != 0 && exit != 3) {
		r.OracleFail("harness-recording-failed:"+o.name, map[string]any{"op": o.name}, fmt.Sprintf("exit=%d killed=%v log tail=%s", exit, killed, tail(log, 600)))
		return
	}
	if exit != wantExit {
		// e.g. an operation that must fail cleanly (staging file cannot be created) reported success:
		// keep going, the trace oracle and the kill sweep below show what it did to the destination
		r.OracleFail("operation-result-unexpected:"+o.name, map[string]any{"op": o.name},
			fmt.Sprintf("exit=%d want=%d (0 = success, 3 = error)", exit, wantExit))
	}
	var ref []byte
	if !wantErr {
		ref, _ = os.ReadFile(p(dir, o.dest))
	}
	evs := parseLog(log)
	abs := abstract(evs, dir, init, o.dest)
	st := h.observe(o, dir, init, ref)
	ctl := "ok"
	if wantErr {
		ctl = "err"
	}
	r.Count("op:" + o.name)
	if o.kind != "dangling" {
		r.Case("trace", []string{o.proto, minit, chunks, o.fin, fault}, ctl+"|"+strings.Join(abs.skel, ";")+"|"+st.canon)
	}
	if len(abs.violation) > 0 {
		r.OracleFail("writes-into-preexisting-file:"+o.name, map[string]any{"op": o.name}, strings.Join(abs.violation, "; "))
	} else {
		r.OracleOK()
	}
	want := "new"
	if wantErr {
		want = "old"
	}
	if o.kind == "dangling" {
		want = ""
	}
	if st.destTag != want || len(st.stray)+len(st.damaged)+len(st.missing) > 0 || strings.Contains(st.canon, "T") {
		r.OracleFail("uninterrupted-run-wrong-result:"+o.name, map[string]any{"op": o.name}, fmt.Sprintf("dest=%s state=%s", st.destTag, st.canon))
	} else {
		r.OracleOK()
	}
	os.RemoveAll(dir)

	// 2. kill points: per thread and syscall, the ordinals of the calls from the first touch of dir on
	type key struct{ pid, name string }
	count := map[key]int{}
	points := map[string]map[int]bool{}
	started := false
	for _, e := range evs {
		count[key{e.pid, e.name}]++
		if !started && strings.Contains(e.args, dir) {
			started = true
		}
		if !started {
			continue
		}
		// only calls that belong to the file protocol: they name dir, or use an fd (write/close/fchmod)
		if points[e.name] == nil {
			points[e.name] = map[int]bool{}
		}
		points[e.name][count[key{e.pid, e.name}]] = true
	}
	var plan []string
	for name, set := range points {
		var ns []int
		for n := range set {
			ns = append(ns, n)
		}
		sort.Ints(ns)
		limit := len(ns)
		if !r.Thorough() && limit > 6 {
			// sample: first two, last two, two random
			pick := map[int]bool{ns[0]: true, ns[1]: true, ns[limit-1]: true, ns[limit-2]: true}
			for len(pick) < 6 {
				pick[ns[r.Rand.Intn(limit)]] = true
			}
			ns = ns[:0]
			for n := range pick {
				ns = append(ns, n)
			}
			sort.Ints(ns)
		} else if limit > 60 {
			pick := map[int]bool{}
			for i := 0; i < 12; i++ {
				pick[ns[i]] = true
				pick[ns[limit-1-i]] = true
			}
			for len(pick) < 60 {
				pick[ns[r.Rand.Intn(limit)]] = true
			}
			ns = ns[:0]
			for n := range pick {
				ns = append(ns, n)
			}
			sort.Ints(ns)
		}
		for _, n := range ns {
			plan = append(plan, fmt.Sprintf("%s:%d", name, n))
		}
	}
	sort.Strings(plan)
	for _, inj := range plan {
		dir := h.mkdir(o, init)
		log, exit, killed := h.strace(o, dir, inj)
		input := map[string]any{"op": o.name, "kill_at": inj}
		if !killed {
			// the N-th call was not reached in this run (thread scheduling): a complete run
			r.Count("kill-not-reached")
			if exit != 0 && exit != 3 {
				r.OracleFail("harness-kill-run-failed:"+o.name, input, fmt.Sprintf("exit=%d log tail=%s", exit, tail(log, 400)))
			}
			os.RemoveAll(dir)
			continue
		}
		r.Count("kill:" + strings.SplitN(inj, ":", 2)[0])
		kevs := parseLog(log)
		kabs := abstract(kevs, dir, init, o.dest)
		kst := h.observe(o, dir, init, ref)
		detail := fmt.Sprintf("dest=%s state=%s skeleton=%s", kst.destTag, kst.canon, strings.Join(kabs.skel, ";"))
		switch {
		case !looseDest && kst.destTag != "old" && kst.destTag != "new":
			r.OracleFail("crash-leaves-destination-"+kst.destTag+":"+o.name, input, detail)
		case !looseDest && wantErr && kst.destTag != "old":
			r.OracleFail("crash-publishes-failed-output:"+o.name, input, detail)
		case len(kst.damaged)+len(kst.missing) > 0:
			r.OracleFail("crash-damages-other-file:"+o.name, input, detail+fmt.Sprintf(" damaged=%v missing=%v", kst.damaged, kst.missing))
		case len(kst.stray) > 0:
			r.OracleFail("crash-leftover-not-hidden:"+o.name, input, detail+fmt.Sprintf(" stray=%v", kst.stray))
		case len(kabs.violation) > 0:
			r.OracleFail("writes-into-preexisting-file:"+o.name, input, strings.Join(kabs.violation, "; "))
		default:
			r.OracleOK()
		}
		infl := "0"
		if kabs.inflight {
			infl = "1"
		}
		// the kill lands on syscall entry or exit: the interrupted call may or may not have happened
		if !looseDest {
			r.Case("crash", []string{o.proto, minit, chunks, o.fin, fault, strconv.Itoa(len(kabs.skel)), infl, kst.canon}, "match")
		}
		os.RemoveAll(dir)
	}
}

func tail(s string, n int) string {
	if len(s) > n {
		return s[len(s)-n:]
	}
	return s
}
