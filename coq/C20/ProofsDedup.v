(* C20 — replacing references by references to objects with the same unfolding does not
   change the unfolding of anything (cyclic graphs included). *)
From Coq Require Import List ZArith NArith Bool Lia.
From PV Require Import C20.Model C20.Spec C20.Proofs C20.ProofsEqual.
Import ListNotations.
Open Scope Z_scope.

Section Dedup.
  Variables g g' : graph.
  Variable R : Z -> Z -> Prop.
  Hypothesis HR : forall a b, R a b -> forall n, sim n g (ORef a 0) g (ORef b 0).
  Hypothesis Hg : forall nr, rewr R (g' nr) (g nr).

  Lemma rewr_list_Forall2 : forall (P : obj -> obj -> Prop) l' l,
    (forall x' x, rewr R x' x -> P x' x) -> rewr_list (rewr R) l' l -> Forall2 P l' l.
  Proof.
    intros P l'. induction l' as [|x' t' IH]; destruct l as [|x t]; simpl; intros HP H; try contradiction; constructor.
    - apply HP. apply H.
    - apply IH. exact HP. apply H.
  Qed.

  Lemma rewr_dict_lookup : forall d' d, rewr_dict (rewr R) d' d ->
    forall k, match lookup k d', lookup k d with
              | None, None => True
              | Some v', Some v => rewr R v' v
              | _, _ => False end.
  Proof.
    induction d' as [|[k' v'] t' IH]; destruct d as [|[k0 v0] t]; simpl; intros H k; try contradiction; auto.
    destruct H as [Hk [Hv Ht]]. simpl in Hk. subst k0.
    destruct (beqb k' k). exact Hv. apply IH. exact Ht.
  Qed.

  Section Level.
    Variable m : nat.
    Hypothesis IH : forall o' o, rewr R o' o -> sim m g' o' g o.

    Lemma rewr_simdict : forall d' d, rewr_dict (rewr R) d' d ->
      simdict (fun x y => sim m g' x g y) g' g d' d.
    Proof.
      intros d' d H. apply simdict_intro. intro k. pose proof (rewr_dict_lookup d' d H k) as Hk.
      destruct (lookup k d'), (lookup k d); try contradiction; auto.
    Qed.

    Lemma rewr_head : forall o' o, rewr R o' o -> simhead (fun x y => sim m g' x g y) g' g o' o.
    Proof.
      intros o' o H.
      destruct o'; destruct o; simpl in H; try discriminate H;
        try (injection H as H; subst); simpl; auto.
      - apply rewr_list_Forall2; assumption.
      - apply rewr_simdict. exact H.
      - destruct H as [H1 H2]. subst. split. apply rewr_simdict. exact H1. reflexivity.
    Qed.
  End Level.

  Theorem dedup_gen : forall n o' o, rewr R o' o -> sim n g' o' g o.
  Proof.
    induction n as [|m IH]; intros o' o H. exact I.
    destruct (isref o') eqn:Er.
    - destruct o'; try discriminate. destruct o; simpl in H; try discriminate H.
      rename nr into a, nr0 into b.
      pose proof (HR a b H (S m)) as B. simpl in B.
      pose proof (rewr_head m IH (g' a) (g a) (Hg a)) as A.
      simpl.
      apply (simhead_trans (fun x y => sim m g' x g y) (fun x y => sim m g x g y) _ g' g g _ (g a) _);
        [|exact A|exact B].
      intros x y z Hxy Hyz. eapply sim_trans; eauto.
    - assert (isref o = false) as Er'.
      { destruct o'; destruct o; simpl in H; try discriminate H; try reflexivity; try discriminate Er. }
      pose proof (rewr_head m IH o' o H) as A.
      simpl. destruct o'; try discriminate Er; destruct o; try discriminate Er'; exact A.
  Qed.
End Dedup.

(* ---- the substitution sigma is such a rewriting ---- *)
Lemma rewr_substo : forall (sigma : Z -> Z) (o : obj), rewr (fun a b => a = sigma b) (substo sigma o) o.
Proof.
  intro sigma. fix IH 1. intro o. destruct o; simpl; try reflexivity.
  - destruct (sigma nr =? nr) eqn:E; simpl. apply Z.eqb_eq in E. congruence. reflexivity.
  - induction l as [|x t IHl]; simpl. exact I. split. apply IH. exact IHl.
  - induction d as [|[k v] t IHl]; simpl. exact I. split. reflexivity. split. apply IH. exact IHl.
  - split; [|reflexivity]. induction d as [|[k v] t IHl]; simpl. exact I. split. reflexivity. split. apply IH. exact IHl.
Qed.

Lemma sim_ref_of_targets : forall g a b,
  isref (g a) = false -> isref (g b) = false ->
  (forall n, sim n g (g a) g (g b)) -> forall n, sim n g (ORef a 0) g (ORef b 0).
Proof.
  intros g a b Ha Hb H n.
  apply (sim_deref_l n g (ORef a 0) g (ORef b 0)). exact Ha.
  apply sim_sym. apply (sim_deref_l n g (ORef b 0) g (deref g (ORef a 0))). exact Hb.
  apply sim_sym. simpl. apply H.
Qed.

Theorem subst_preserves_unfolding : forall g sigma,
  (forall r, sigma r <> r -> forall n, sim n g (ORef (sigma r) 0) g (ORef r 0)) ->
  forall o, same_unfolding (substg sigma g) (substo sigma o) g o.
Proof.
  intros g sigma H o n.
  apply (dedup_gen g (substg sigma g) (fun a b => a = sigma b)).
  - intros a b E k. subst a. destruct (Z.eq_dec (sigma b) b) as [e|ne]. rewrite e. apply sim_refl. apply H. exact ne.
  - intro nr. unfold substg. apply rewr_substo.
  - apply rewr_substo.
Qed.

(* the optimizer's step: sigma maps r to r' only when EqualObjects said (true, nil) for the
   two dereferenced objects (handleDuplicateFontObject, handleDuplicateImageObject,
   optimizeXObjectForm call it with the dicts / stream dicts themselves, pairs = nil) *)
Theorem optimizer_subst_preserves : forall g sigma fuel limit,
  wfg g ->
  (forall r, sigma r <> r ->
     isref (g r) = false /\ isref (g (sigma r)) = false /\
     EqualObjects fuel limit g (g (sigma r)) (g r) [] = CT) ->
  forall o, same_unfolding (substg sigma g) (substo sigma o) g o.
Proof.
  intros g sigma fuel limit Hg H o. apply subst_preserves_unfolding.
  intros r ne. destruct (H r ne) as [H1 [H2 H3]].
  apply sim_ref_of_targets; auto.
  apply (equal_objects_sound g limit fuel); auto.
Qed.

(* ---- page content streams: the duplicate test goes through EqualObjects ---- *)
Theorem content_dedup_preserves : forall g fuel limit a b,
  wfg g -> contentStreamDup fuel limit g (g a) (g b) = CT ->
  forall n, sim n g (ORef a 0) g (ORef b 0).
Proof.
  intros g fuel limit a b Hg H.
  unfold contentStreamDup in H.
  destruct (g a) eqn:Ea; try discriminate. destruct (g b) eqn:Eb; try discriminate.
  destruct (Nat.eqb (length (rawbytes raw)) (length (rawbytes raw0))); try discriminate.
  intro n. apply sim_sym. revert n.
  apply sim_ref_of_targets; try (rewrite Eb; reflexivity); try (rewrite Ea; reflexivity).
  rewrite Ea, Eb.
  apply (equal_objects_sound g limit fuel); auto.
  - pose proof (Hg b) as W. rewrite Eb in W. exact W.
  - pose proof (Hg a) as W. rewrite Ea in W. exact W.
Qed.
