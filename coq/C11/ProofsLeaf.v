(* C11 — each leaf kind reads back; the follow condition. *)
From Coq Require Import NArith ZArith List Bool Lia ZifyBool ZifyNat ZifyN.
From PV Require Import Lib.GoInt C11.Model C11.ProofsLex.
Import ListNotations.
Open Scope N_scope.
Ltac Zify.zify_post_hook ::= Z.div_mod_to_equations.

(* ------------------------------------------------------------------ names *)

Lemma hexval_hexdig : forall v, v < 16 -> hexval (hexdig v) = Some v.
Proof.
  intros v Hv. unfold hexdig, hexval.
  destruct (v <? 10) eqn:E.
  - assert ((48 <=? 48 + v) && (48 + v <=? 57) = true) as -> by lia. f_equal. lia.
  - assert ((48 <=? 87 + v) && (87 + v <=? 57) = false) as -> by lia.
    assert ((97 <=? 87 + v) && (87 + v <=? 102) = true) as -> by lia. f_equal. lia.
Qed.

Lemma hexdig_range : forall v, v < 16 -> 48 <= hexdig v <= 57 \/ 97 <= hexdig v <= 102.
Proof. intros v Hv. unfold hexdig. destruct (v <? 10) eqn:E; lia. Qed.

Lemma decode_enc1 : forall c r, 0 < c < 256 ->
  decode_name (enc1 c ++ r) = match decode_name r with Some x => Some (c :: x) | None => None end.
Proof.
  intros c r Hc. unfold enc1. destruct (needs_hex c) eqn:E.
  - cbn [app decode_name].
    change (35 =? 0) with false. change (35 =? 35) with true. cbv iota.
    rewrite !hexval_hexdig by lia.
    assert (c / 16 * 16 + c mod 16 = c) as -> by lia.
    assert (c =? 0 = false) as -> by lia. reflexivity.
  - cbn [app decode_name]. unfold needs_hex in E.
    assert (c =? 0 = false) as -> by lia.
    assert (c =? 35 = false) as -> by lia. reflexivity.
Qed.

Lemma decode_encode : forall s, name_wf s = true -> decode_name (encode_name s) = Some s.
Proof.
  induction s as [|c t IH]; intros H; [reflexivity|].
  cbn [name_wf forallb] in H. apply andb_true_iff in H. destruct H as [Hc Ht].
  unfold encode_name. cbn [flat_map]. rewrite decode_enc1 by lia.
  fold (encode_name t). rewrite IH by exact Ht. reflexivity.
Qed.

Lemma tokch_name_intro : forall c, 33 <= c <= 126 -> in_set set_name c = false -> tokch (in_set set_name) c.
Proof. intros c H1 H2. split; assumption. Qed.

Lemma enc1_tok : forall c, c < 256 -> Forall (tokch (in_set set_name)) (enc1 c).
Proof.
  intros c Hc. unfold enc1. destruct (needs_hex c) eqn:E.
  - pose proof (hexdig_range (c / 16)) as H1. pose proof (hexdig_range (c mod 16)) as H2.
    assert (Ha : c / 16 < 16) by lia. assert (Hb : c mod 16 < 16) by lia.
    specialize (H1 Ha). specialize (H2 Hb).
    apply Forall_cons; [|apply Forall_cons; [|apply Forall_cons; [|apply Forall_nil]]];
      (apply tokch_name_intro; [lia|unfold in_set, set_name; cbn [existsb]; lia]).
  - unfold needs_hex in E. apply Forall_cons; [|apply Forall_nil].
    apply tokch_name_intro; [lia|unfold in_set, set_name; cbn [existsb]; lia].
Qed.

Lemma encode_tok : forall s, name_wf s = true -> Forall (tokch (in_set set_name)) (encode_name s).
Proof.
  induction s as [|c t IH]; intros H; [constructor|].
  cbn [name_wf forallb] in H. apply andb_true_iff in H. destruct H as [Hc Ht].
  unfold encode_name. cbn [flat_map]. apply Forall_app. split; [apply enc1_tok; lia|apply IH; exact Ht].
Qed.

Lemma parse_name_enc : forall s rest, name_wf s = true -> tok_end rest = true ->
  parse_name (47 :: encode_name s ++ rest) = (Some s, rest).
Proof.
  intros s rest Hs Hend. unfold parse_name. change (47 =? 47) with true. cbv iota.
  rewrite tok_split_tok; [|exact sub_name|apply encode_tok; exact Hs|exact Hend].
  destruct rest as [|c t].
  - rewrite app_nil_r, decode_encode by exact Hs. reflexivity.
  - rewrite decode_encode by exact Hs. reflexivity.
Qed.

(* the written name: "/ " for the empty one *)
Lemma parse_name_print : forall s rest, name_wf s = true -> tok_end rest = true ->
  parse_name (print_name s ++ rest) = (Some s, residue (OName s) ++ rest).
Proof.
  intros s rest Hs Hend. destruct s as [|c t].
  - reflexivity.
  - unfold print_name, residue. cbn [app]. apply (parse_name_enc (c :: t)); assumption.
Qed.

(* ------------------------------------------------------------------ literal strings *)

Lemma bal_scan_wf : forall s j esc rest, bal_wf j esc s = true ->
  bal_scan j esc (s ++ 41 :: rest) = Some (s, rest).
Proof.
  induction s as [|c t IH]; intros j esc rest H.
  - cbn [bal_wf] in H. apply andb_true_iff in H. destruct H as [He Hj].
    destruct esc; [discriminate|]. apply N.eqb_eq in Hj. subst j. reflexivity.
  - cbn [bal_wf] in H. cbn [app bal_scan]. destruct esc.
    + rewrite IH by exact H. reflexivity.
    + destruct (c =? 92).
      * rewrite IH by exact H. reflexivity.
      * apply andb_true_iff in H. destruct H as [Hz Hrest].
        destruct ((if c =? 40 then j + 1 else if c =? 41 then j - 1 else j) =? 0); [discriminate|].
        rewrite IH by exact Hrest. reflexivity.
Qed.

Lemma parse_strlit_print : forall s rest, bal_wf 1 false s = true ->
  parse_strlit (40 :: s ++ 41 :: rest) = POk (OStr s) rest.
Proof.
  intros s rest H. unfold parse_strlit.
  assert (Hne : exists a b, s ++ 41 :: rest = a :: b) by (destruct s; cbn [app]; eauto).
  destruct Hne as (a & b & E). rewrite E. rewrite <- E.
  rewrite bal_scan_wf by exact H. reflexivity.
Qed.

(* the text types.Escape produces is always such a content *)
Lemma escape_bal : forall s j, 1 <= j -> bal_wf j false (escape s) = (j =? 1).
Proof.
  induction s as [|c t IH]; intros j Hj; [reflexivity|].
  unfold escape. cbn [flat_map]. fold (escape t). unfold esc1.
  destruct (c =? 10); [cbn [app bal_wf]; change (92 =? 92) with true; cbv iota; apply IH; exact Hj|].
  destruct (c =? 13); [cbn [app bal_wf]; change (92 =? 92) with true; cbv iota; apply IH; exact Hj|].
  destruct (c =? 9); [cbn [app bal_wf]; change (92 =? 92) with true; cbv iota; apply IH; exact Hj|].
  destruct (c =? 8); [cbn [app bal_wf]; change (92 =? 92) with true; cbv iota; apply IH; exact Hj|].
  destruct (c =? 12); [cbn [app bal_wf]; change (92 =? 92) with true; cbv iota; apply IH; exact Hj|].
  destruct ((c =? 92) || (c =? 40) || (c =? 41)) eqn:E.
  - cbn [app bal_wf]. change (92 =? 92) with true. cbv iota. apply IH; exact Hj.
  - cbn [app bal_wf].
    assert (c =? 92 = false) as -> by lia.
    assert (c =? 40 = false) as -> by lia.
    assert (c =? 41 = false) as -> by lia.
    assert (j =? 0 = false) as -> by lia. cbn [negb andb]. apply IH; exact Hj.
Qed.

(* ------------------------------------------------------------------ hex strings *)

Lemma is_hex_range : forall c, is_hex c = true -> 48 <= c <= 102 /\ c <> 62 /\ is_hexws c = false.
Proof.
  intros c H. unfold is_hex, hex_upper in H. unfold is_hexws.
  destruct ((48 <=? c) && (c <=? 57)) eqn:E1; [lia|].
  destruct ((65 <=? c) && (c <=? 70)) eqn:E2; [lia|].
  destruct ((97 <=? c) && (c <=? 102)) eqn:E3; [lia|discriminate].
Qed.

Lemma split_at_hex : forall s rest, forallb is_hex s = true -> split_at 62 (s ++ 62 :: rest) = Some (s, rest).
Proof.
  induction s as [|c t IH]; intros rest H.
  - reflexivity.
  - cbn [forallb] in H. apply andb_true_iff in H. destruct H as [Hc Ht].
    cbn [app split_at]. destruct (is_hex_range c Hc) as (Hr & Hn & _).
    assert (c =? 62 = false) as -> by lia. rewrite IH by exact Ht. reflexivity.
Qed.

Lemma trim_uspace_hex : forall f c t, is_hex c = true -> trim_uspace f (c :: t) = c :: t.
Proof.
  intros f c t Hc. destruct f as [|f]; [reflexivity|].
  cbn [trim_uspace]. destruct (is_hex_range c Hc) as (Hr & _ & _).
  rewrite uspace_len_33 by lia. reflexivity.
Qed.

Lemma trim_right_hex : forall s, forallb is_hex s = true -> trim_right s = s.
Proof.
  induction s as [|c t IH]; intros H; [reflexivity|].
  cbn [forallb] in H. apply andb_true_iff in H. destruct H as [Hc Ht].
  cbn [trim_right]. unfold uspaces_only. rewrite trim_uspace_hex by exact Hc.
  rewrite IH by exact Ht. reflexivity.
Qed.

Lemma trim_space_hex : forall s, forallb is_hex s = true -> trim_space s = s.
Proof.
  intros s H. unfold trim_space. destruct s as [|c t]; [reflexivity|].
  pose proof H as H'. cbn [forallb] in H'. apply andb_true_iff in H'. destruct H' as [Hc _].
  rewrite trim_uspace_hex by exact Hc. apply trim_right_hex. exact H.
Qed.

Definition up1 (c : N) : N := match hex_upper c with Some u => u | None => c end.

Lemma hex_string_hex : forall s b, forallb is_hex s = true ->
  hex_string b s = Some (map up1 s ++ (if xorb b (Nat.odd (length s)) then [48] else [])).
Proof.
  induction s as [|c t IH]; intros b H.
  - cbn [hex_string map length app]. change (Nat.odd 0) with false. rewrite xorb_false_r. reflexivity.
  - cbn [forallb] in H. apply andb_true_iff in H. destruct H as [Hc Ht].
    cbn [hex_string]. destruct (is_hex_range c Hc) as (_ & _ & Hws). rewrite Hws.
    unfold is_hex in Hc. cbn [map].
    change (up1 c) with (match hex_upper c with Some u => u | None => c end).
    destruct (hex_upper c) as [u|]; [|discriminate].
    rewrite IH by exact Ht. cbn [length]. rewrite Nat.odd_succ, <- Nat.negb_odd.
    cbn [app]. do 3 f_equal. destruct b, (Nat.odd (length t)); reflexivity.
Qed.

Lemma parse_hexlit_print : forall s rest, forallb is_hex s = true ->
  parse_hexlit (60 :: s ++ 62 :: rest) = POk (OHex (hex_norm s)) rest.
Proof.
  intros s rest H. unfold parse_hexlit. rewrite split_at_hex by exact H.
  rewrite trim_space_hex by exact H.
  destruct s as [|c t]; [reflexivity|].
  rewrite hex_string_hex by exact H. unfold hex_norm. rewrite xorb_false_l. reflexivity.
Qed.

(* ------------------------------------------------------------------ numbers *)

Lemma bool_or_null_num : forall c t, (is_digit c = true \/ c = 45) -> bool_or_null (c :: t) = None.
Proof.
  intros c t Hc. unfold bool_or_null, s_null, s_true, s_false. cbn [ci_prefix].
  assert (Hl : lower c = c).
  { unfold lower. unfold is_digit in Hc. assert ((65 <=? c) && (c <=? 90) = false) as -> by lia. reflexivity. }
  rewrite Hl. unfold is_digit in Hc.
  assert (c =? 110 = false) as -> by lia.
  assert (c =? 116 = false) as -> by lia.
  assert (c =? 102 = false) as -> by lia. reflexivity.
Qed.

Lemma delimiter_num2 : forall c, in_set set_num2 c = true -> delimiter c = true.
Proof. intros c. unfold delimiter, in_set, set_num2. cbn [existsb]. lia. Qed.

Lemma plain_num2 : forall c, in_set set_num2 c = true -> plain c = true /\ c <> 82.
Proof. intros c. unfold plain, in_set, set_num2. cbn [existsb]. lia. Qed.

(* written integer *)
Lemma parse_numeric_int : forall z rest, in_i64 z = true -> follow rest = true ->
  parse_numeric (itoa z ++ rest) = (OInt z, rest).
Proof.
  intros z rest Hz Hf. unfold follow in Hf.
  apply andb_true_iff in Hf. destruct Hf as [Hf HnR].
  apply andb_true_iff in Hf. destruct Hf as [Hend Hnoref].
  unfold parse_numeric.
  rewrite tok_split_tok; [|exact sub_num1|apply numch_toks; [apply itoa_numch|auto]|exact Hend].
  destruct (itoa_shape z) as (c & t & E & Hc & Ht).
  destruct rest as [|r0 rest'].
  - rewrite app_nil_r. rewrite E. rewrite zero_hack_digits by exact Ht. rewrite <- E.
    rewrite atoi_itoa by exact Hz. reflexivity.
  - rewrite E. rewrite zero_hack_digits by exact Ht. rewrite <- E.
    rewrite atoi_itoa by exact Hz. cbn [negb].
    unfold no_ref in Hnoref.
    destruct (delimiter r0); [reflexivity|]. cbn [orb] in Hnoref.
    destruct (lookahead (r0 :: rest')); [discriminate|reflexivity].
Qed.

(* written indirect reference: no condition on what follows *)
Lemma parse_numeric_ref : forall a b rest, in_i64 a = true -> in_i64 b = true ->
  parse_numeric (itoa a ++ 32 :: itoa b ++ 32 :: 82 :: rest) = (ORef a b, rest).
Proof.
  intros a b rest Ha Hb. unfold parse_numeric.
  rewrite tok_split_tok; [|exact sub_num1|apply numch_toks; [apply itoa_numch|auto]|reflexivity].
  destruct (itoa_shape a) as (c & t & E & Hc & Ht).
  rewrite E. rewrite zero_hack_digits by exact Ht. rewrite <- E.
  rewrite atoi_itoa by exact Ha. cbn [negb].
  change (delimiter 32) with false. cbv iota.
  unfold lookahead.
  destruct (itoa_shape b) as (c' & t' & E' & Hc' & Ht').
  assert (Hp : plain c' = true) by (unfold plain, is_digit in *; lia).
  rewrite E'. cbn [app]. rewrite trim_sp_plain by exact Hp.
  change (c' :: t' ++ 32 :: 82 :: rest) with ((c' :: t') ++ 32 :: 82 :: rest). rewrite <- E'.
  rewrite tok_split_tok; [|exact sub_num2|apply numch_toks; [apply itoa_numch|auto]|reflexivity].
  rewrite E'. rewrite <- E'.
  change (delimiter 32) with false. cbv iota.
  rewrite atoi_itoa by exact Hb.
  rewrite trim_sp_plain by reflexivity. reflexivity.
Qed.

(* written real *)
Lemma span_du_digits : forall l c t, Forall (fun c => is_digit c = true) l ->
  is_digit c = false -> c <> 95 -> span_du (l ++ c :: t) = (l, false, c :: t).
Proof.
  induction l as [|d l IH]; intros c t Hl Hc Hu.
  - cbn [app span_du]. rewrite Hc. assert (c =? 95 = false) as -> by lia. reflexivity.
  - inversion Hl as [|? ? Hd Hl']; subst. cbn [app span_du]. rewrite Hd.
    rewrite IH by assumption. reflexivity.
Qed.

Lemma span_du_digits_end : forall l, Forall (fun c => is_digit c = true) l -> span_du l = (l, false, []).
Proof.
  induction l as [|d l IH]; intros Hl; [reflexivity|].
  inversion Hl as [|? ? Hd Hl']; subst. cbn [span_du]. rewrite Hd. rewrite IH by assumption. reflexivity.
Qed.

Definition real_ok (m : N) : bool := (Z.of_N m <? f64_over * 10 ^ 12)%Z.

Lemma parse_float_real : forall neg m, real_ok m = true ->
  parse_float (print_real neg m) = Some (neg, m, (-12)%Z).
Proof.
  intros neg m Hm. unfold print_real.
  pose proof (utoa_digits (m / pow12)) as Hip.
  pose proof (utoa_nonempty (m / pow12)) as Hne.
  pose proof (fixdigits_digits 12 (m mod pow12)) as Hfp.
  set (ip := utoa (m / pow12)) in *. set (fp := fixdigits 12 (m mod pow12) []) in *.
  assert (Hbody : forall s ng, pf_body ng s (ip ++ 46 :: fp) = Some (ng, m, (-12)%Z)).
  { intros s ng. unfold pf_body.
    rewrite span_du_digits; [|exact Hip|reflexivity|lia].
    change (46 =? 46) with true. cbv iota beta. rewrite span_du_digits_end by exact Hfp.
    cbv iota beta zeta.
    destruct (ip ++ fp) as [|x y] eqn:Eds.
    { apply app_eq_nil in Eds. destruct Eds as [Eds _]. congruence. }
    rewrite <- Eds. cbn [orb andb].
    assert (Hlen : length fp = 12%nat) by (unfold fp; rewrite fixdigits_length; reflexivity).
    rewrite Hlen.
    assert (Hval : dval 0 (ip ++ fp) = m).
    { rewrite dval_app. unfold ip, fp. rewrite utoa_val, fixdigits_val.
      change (10 ^ N.of_nat 12) with pow12. unfold pow12.
      assert (m mod 1000000000000 mod 1000000000000 = m mod 1000000000000) as -> by lia. lia. }
    rewrite Hval.
    assert (Hov : overflows m (Z.of_nat (length (ip ++ fp))) (0 - Z.of_nat 12) = false).
    { unfold overflows. destruct (m =? 0); [reflexivity|].
      change (0 <=? 0 - Z.of_nat 12)%Z with false. cbv iota.
      destruct (Z.of_nat (length (ip ++ fp)) <? - (0 - Z.of_nat 12))%Z; [reflexivity|].
      change (- (0 - Z.of_nat 12))%Z with 12%Z. unfold real_ok in Hm. lia. }
    rewrite Hov. reflexivity. }
  destruct neg.
  - cbn [app]. unfold parse_float. change (is_sign 45) with true. cbv iota.
    change (45 =? 45) with true. apply Hbody.
  - cbn [app]. destruct ip as [|c t] eqn:Eip; [congruence|].
    inversion Hip as [|? ? Hc _]; subst. cbn [app]. unfold parse_float.
    unfold is_sign. unfold is_digit in Hc.
    assert ((c =? 43) || (c =? 45) = false) as -> by lia.
    assert (c =? 45 = false) as -> by lia.
    apply (Hbody (c :: t ++ 46 :: fp) false).
Qed.

Lemma replace1_none : forall a b l, Forall (fun c => c <> a) l -> replace1 a b l = l.
Proof.
  induction l as [|c t IH]; intros H; [reflexivity|].
  inversion H as [|? ? Hc Ht]; subst. cbn [replace1].
  assert (c =? a = false) as -> by lia. rewrite IH by exact Ht. reflexivity.
Qed.

Lemma print_real_shape : forall neg m, exists c0 pre fp,
  print_real neg m = c0 :: pre ++ 46 :: fp /\
  (is_digit c0 = true \/ c0 = 45) /\
  Forall (fun c => is_digit c = true) pre /\ Forall (fun c => is_digit c = true) fp /\
  (neg = false -> zero_hack (print_real neg m) = print_real neg m) /\
  (neg = true -> c0 = 45).
Proof.
  intros neg m. unfold print_real.
  pose proof (utoa_digits (m / pow12)) as Hip.
  pose proof (utoa_nonempty (m / pow12)) as Hne.
  pose proof (fixdigits_digits 12 (m mod pow12)) as Hfp.
  destruct neg.
  - exists 45, (utoa (m / pow12)), (fixdigits 12 (m mod pow12) []). cbn [app].
    repeat split; auto. discriminate.
  - destruct (utoa (m / pow12)) as [|c t] eqn:E; [congruence|].
    inversion Hip as [|? ? Hc Ht]; subst.
    exists c, t, (fixdigits 12 (m mod pow12) []). cbn [app].
    repeat split; auto.
    + intros _. change (c :: t ++ 46 :: fixdigits 12 (m mod pow12) []) with ((c :: t) ++ 46 :: fixdigits 12 (m mod pow12) []).
      apply zero_hack_real; [exact Hip|exact Hfp|discriminate].
    + discriminate.
Qed.

Lemma zero_hack_minus : forall t, zero_hack (45 :: t) = 45 :: t.
Proof. intros t. unfold zero_hack. destruct t; reflexivity. Qed.

Lemma print_real_numch : forall neg m, Forall (fun c => numch c = true) (print_real neg m).
Proof.
  intros neg m. destruct (print_real_shape neg m) as (c0 & pre & fp & E & Hc0 & Hpre & Hfp & _).
  rewrite E. constructor.
  - unfold numch. destruct Hc0 as [-> | ->]; reflexivity.
  - apply Forall_app. split; [apply digits_numch; exact Hpre|].
    constructor; [reflexivity|apply digits_numch; exact Hfp].
Qed.

Lemma parse_numeric_real : forall neg m rest, real_ok m = true -> tok_end rest = true ->
  parse_numeric (print_real neg m ++ rest) = (OReal neg m (-12)%Z, rest).
Proof.
  intros neg m rest Hm Hend. unfold parse_numeric.
  rewrite tok_split_tok; [|exact sub_num1|apply numch_toks; [apply print_real_numch|auto]|exact Hend].
  destruct (print_real_shape neg m) as (c0 & pre & fp & E & Hc0 & Hpre & Hfp & Hzh & Hneg).
  assert (Hz : zero_hack (print_real neg m) = print_real neg m).
  { destruct neg; [|apply Hzh; reflexivity]. rewrite E. rewrite (Hneg eq_refl). apply zero_hack_minus. }
  assert (Hnocomma : replace1 44 46 (print_real neg m) = print_real neg m).
  { apply replace1_none. eapply Forall_impl; [|apply print_real_numch].
    intros c Hc. unfold numch, is_digit in Hc. lia. }
  assert (Hfl : parse_float_tok (print_real neg m) = Some (neg, m, (-12)%Z)).
  { unfold parse_float_tok. rewrite Hnocomma. rewrite parse_float_real by exact Hm. reflexivity. }
  assert (Hdc : has_dot_comma (print_real neg m) = true).
  { rewrite E. unfold has_dot_comma. cbn [existsb]. rewrite existsb_app. cbn [existsb].
    change (46 =? 46) with true. rewrite !orb_true_r. reflexivity. }
  assert (Hat : atoi (print_real neg m) = ASyntax \/ atoi (print_real neg m) = ARange).
  { rewrite E. apply atoi_bad. reflexivity. }
  destruct rest as [|r0 rest'].
  - rewrite app_nil_r. rewrite Hz.
    destruct Hat as [-> | ->]; rewrite ?Hdc; unfold float_or_null; rewrite Hfl; reflexivity.
  - rewrite E at 1. rewrite <- E. rewrite Hz.
    destruct Hat as [-> | ->]; rewrite ?Hdc; unfold float_or_null; rewrite Hfl; reflexivity.
Qed.
