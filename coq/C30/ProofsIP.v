(* C30 — proofs, part 1: Go's net.IP classification + pdfcpu's blocked predicate  =  the RFC spec.
   Byte-level case reasoning: the only enumerations are over ONE byte (256 values) for the four bit-mask
   identities; addresses are never enumerated. *)
From Coq Require Import ZArith NArith List Bool Lia ZifyBool ZifyNat ZifyN.
From PV Require Import C30.Model C30.Spec.
Import ListNotations.
Open Scope N_scope.
Ltac Zify.zify_post_hook ::= Z.div_mod_to_equations.

Definition bytes (l : list N) : Prop := Forall (fun b => b < 256) l.

Lemma bytesb_bytes l : bytesb l = true <-> bytes l.
Proof.
  unfold bytesb, bytes. rewrite forallb_forall, Forall_forall. unfold byteb.
  split; intros H x Hx; specialize (H x Hx); lia.
Qed.

(* ---- one-byte mask identities, by checking the 256 byte values *)
Fixpoint below (n : nat) : list N := match n with O => [] | S k => N.of_nat k :: below k end.
Lemma below_In n b : b < N.of_nat n -> In b (below n).
Proof.
  induction n as [|k IH]; intros Hb; [lia|].
  cbn [below]. destruct (N.eq_dec b (N.of_nat k)) as [E|E]; [left; auto|right; apply IH; lia].
Qed.
Lemma byte_cases (P : N -> bool) : forallb P (below 256) = true -> forall b, b < 256 -> P b = true.
Proof. intros H b Hb. rewrite forallb_forall in H. apply H. apply below_In. exact Hb. Qed.

Lemma land_240 b : b < 256 -> N.land b 240 = (b / 16) * 16.
Proof. intros Hb. apply N.eqb_eq. revert b Hb. apply byte_cases. vm_compute. reflexivity. Qed.
Lemma land_254 b : b < 256 -> N.land b 254 = (b / 2) * 2.
Proof. intros Hb. apply N.eqb_eq. revert b Hb. apply byte_cases. vm_compute. reflexivity. Qed.
Lemma land_192 b : b < 256 -> N.land b 192 = (b / 64) * 64.
Proof. intros Hb. apply N.eqb_eq. revert b Hb. apply byte_cases. vm_compute. reflexivity. Qed.
Lemma land_15 b : b < 256 -> N.land b 15 = b mod 16.
Proof. intros Hb. apply N.eqb_eq. revert b Hb. apply byte_cases. vm_compute. reflexivity. Qed.

(* ---- list_eqb *)
Lemma list_eqb_eq a b : list_eqb a b = true <-> a = b.
Proof.
  revert b. induction a as [|x xs IH]; intros [|y ys]; cbn [list_eqb]; try (split; [discriminate|discriminate]); [tauto|].
  rewrite andb_true_iff, N.eqb_eq, IH. split; [intros [-> ->]; reflexivity|intros E; injection E; auto].
Qed.
Lemma list_eqb_refl a : list_eqb a a = true.
Proof. apply list_eqb_eq. reflexivity. Qed.
Lemma list_eqb_sym a b : list_eqb a b = list_eqb b a.
Proof.
  apply eq_true_iff_eq. rewrite !list_eqb_eq. split; congruence.
Qed.

(* ---- big-endian value of a byte string *)
Definition P256 (l : list N) : N := 256 ^ N.of_nat (length l).

Lemma fold_acc l : forall acc,
  fold_left (fun a b => a * 256 + b) l acc = acc * P256 l + num l.
Proof.
  unfold P256. induction l as [|x xs IH]; intros acc.
  - cbn. lia.
  - unfold num. cbn [fold_left length]. rewrite (IH (acc * 256 + x)), (IH (0 * 256 + x)).
    rewrite Nat2N.inj_succ, N.pow_succ_r'. ring.
Qed.

Lemma num_cons x xs : num (x :: xs) = x * P256 xs + num xs.
Proof. unfold num at 1. cbn [fold_left]. rewrite fold_acc. ring. Qed.

Lemma num_app l1 l2 : num (l1 ++ l2) = num l1 * P256 l2 + num l2.
Proof. unfold num at 1. rewrite fold_left_app. fold (num l1). apply fold_acc. Qed.

Lemma P256_pos l : 0 < P256 l.
Proof. unfold P256. apply N.neq_0_lt_0. apply N.pow_nonzero. discriminate. Qed.

Lemma P256_cons x xs : P256 (x :: xs) = 256 * P256 xs.
Proof. unfold P256. cbn [length]. rewrite Nat2N.inj_succ, N.pow_succ_r'. reflexivity. Qed.

Lemma num_bound l : bytes l -> num l < P256 l.
Proof.
  induction 1 as [|x xs Hx Hxs IH].
  - cbn. lia.
  - rewrite num_cons, P256_cons. pose proof (P256_pos xs) as Hp. nia.
Qed.

Lemma num_split hi lo : bytes lo ->
  num (hi ++ lo) / P256 lo = num hi /\ num (hi ++ lo) mod P256 lo = num lo.
Proof.
  intros Hlo. pose proof (num_bound lo Hlo) as Hb. rewrite num_app.
  split.
  - symmetry. apply (N.div_unique _ _ _ (num lo)); [exact Hb|ring].
  - symmetry. apply (N.mod_unique _ _ (num hi)); [exact Hb|ring].
Qed.

Lemma num_inj l1 : forall l2, bytes l1 -> bytes l2 -> length l1 = length l2 -> num l1 = num l2 -> l1 = l2.
Proof.
  induction l1 as [|x xs IH]; intros [|y ys] H1 H2 Hl Hn; try discriminate; [reflexivity|].
  inversion H1 as [|? ? Hx Hxs]; subst. inversion H2 as [|? ? Hy Hys]; subst.
  injection Hl as Hl. rewrite !num_cons in Hn.
  assert (HP : P256 xs = P256 ys) by (unfold P256; rewrite Hl; reflexivity).
  rewrite HP in Hn.
  pose proof (num_bound xs Hxs) as B1. pose proof (num_bound ys Hys) as B2. rewrite HP in B1.
  destruct (N.div_mod_unique (P256 ys) x y (num xs) (num ys) B1 B2) as [E1 E2]; [lia|].
  subst y. f_equal. apply IH; auto.
Qed.

Lemma num_eqb l1 l2 : bytes l1 -> bytes l2 -> length l1 = length l2 ->
  (num l1 =? num l2) = list_eqb l1 l2.
Proof.
  intros H1 H2 Hl. apply eq_true_iff_eq. rewrite N.eqb_eq, list_eqb_eq.
  split; [apply num_inj; assumption|intros ->; reflexivity].
Qed.

(* ---- the spec with its constants evaluated *)
Lemma spec_v4_alt v : spec_v4 v =
  ((v / 16777216 =? 127) || (v / 16777216 =? 10) || (v / 1048576 =? 2753) || (v / 65536 =? 49320)
   || (v / 65536 =? 43518) || (v / 268435456 =? 14) || (v =? 0)).
Proof. reflexivity. Qed.

Definition T120 : N := 2 ^ 120.
Definition T112 : N := 2 ^ 112.
Definition T32 : N := 2 ^ 32.

Lemma spec_v6_alt v : spec_v6 v =
  ((v =? 1) || (v =? 0) || (v / T120 / 2 =? 126) || (v / T112 / 64 =? 1018) || (v / T120 =? 255)
   || ((v / T32 =? 65535) && spec_v4 (v mod T32))).
Proof.
  unfold spec_v6, in_cidr.
  rewrite !N.div_div by (unfold T120, T112; discriminate).
  reflexivity.
Qed.

(* ---- 4-byte addresses *)
Lemma num4 a0 a1 a2 a3 : num [a0;a1;a2;a3] = a0 * 16777216 + a1 * 65536 + a2 * 256 + a3.
Proof. unfold num. cbn [fold_left]. ring. Qed.

Lemma blocked4 a0 a1 a2 a3 : a0 < 256 -> a1 < 256 -> a2 < 256 -> a3 < 256 ->
  revocationBlockedIP [a0;a1;a2;a3] = spec_v4 (num [a0;a1;a2;a3]).
Proof.
  intros H0 H1 H2 H3. rewrite spec_v4_alt, num4.
  set (v := a0 * 16777216 + a1 * 65536 + a2 * 256 + a3).
  assert (E24 : v / 16777216 = a0) by (subst v; lia).
  assert (E20 : v / 1048576 = a0 * 16 + a1 / 16) by (subst v; lia).
  assert (E16 : v / 65536 = a0 * 256 + a1) by (subst v; lia).
  assert (E28 : v / 268435456 = a0 / 16) by (subst v; lia).
  assert (E0 : (v =? 0) = (a0 =? 0) && (a1 =? 0) && (a2 =? 0) && (a3 =? 0)) by (subst v; lia).
  rewrite E24, E20, E16, E28, E0. clear E24 E20 E16 E28 E0 v.
  unfold revocationBlockedIP, IsLoopback, IsPrivate, IsLinkLocalUnicast, IsLinkLocalMulticast,
    IsMulticast, IsUnspecified.
  cbn [To4 length Nat.eqb at_ nth].
  rewrite (land_240 a1 H1), (land_240 a0 H0).
  unfold Equal, IPv4zero, IPv6unspecified, IPv4. cbn.
  remember (a1 / 16) as q1 eqn:Q1. remember (a0 / 16) as q0 eqn:Q0.
  assert (B1 : 16 * q1 <= a1 < 16 * q1 + 16) by (subst q1; lia).
  assert (B0 : 16 * q0 <= a0 < 16 * q0 + 16) by (subst q0; lia).
  clear Q1 Q0. lia.
Qed.
