(* C03 — M-FS with inode identity: directory entries bound to inodes, several spellings of one entry,
   hard links (two entries, one inode) and symbolic links (entry -> entry, followed by stat/open but not by
   rename / O_EXCL), and on top of it the success path of pdfcpu's staging protocols.
   Executable definitions only (no proofs).  Types `file`, `bytes`, `errno`, `mode_new`, `mode_tmp` are
   those of C01/FS.v.  There is no fault plan here: C03 is about runs in which no filesystem call fails
   for an external reason; the genuine results EEXIST / ENOENT are modelled. *)
From stdpp Require Import gmap.
From Coq Require Import NArith.
From PV Require Import C01.FS.

(* a directory entry: a regular file bound to an inode, or a symbolic link to another entry *)
Inductive dent := DFile (ino : positive) | DLink (target : positive).

(* a path string as pdfcpu sees it: the entry it denotes after filepath.Abs/Clean, and which of the
   spellings of that entry it is ("x", "./x", "/abs/dir/x", …).  String equality compares both;
   equality after filepath.Abs compares the entry only. *)
Record sp := Sp { sp_ent : positive; sp_var : N }.
Definition sp_eqb (a b : sp) : bool := Pos.eqb (sp_ent a) (sp_ent b) && N.eqb (sp_var a) (sp_var b).
Definition abs_eqb (a b : sp) : bool := Pos.eqb (sp_ent a) (sp_ent b).
Definition opt_sp_eqb (a b : option sp) : bool :=
  match a, b with
  | Some x, Some y => sp_eqb x y
  | None, None => true
  | _, _ => false
  end.

(* state: directory, inode table, log of the inodes that were modified (write / chmod), and the
   snapshots the body took of its input *)
Record ist := IS { idir : gmap positive dent; inos : gmap positive file;
                   wlog : list positive; reads : list (option bytes) }.

Inductive rr (A : Type) := ROk (a : A) (s : ist) | RErr (e : errno) (s : ist).
Arguments ROk {A}. Arguments RErr {A}.

(* path resolution follows symbolic links (bounded like the kernel's ELOOP limit) *)
Fixpoint follow (fuel : nat) (d : gmap positive dent) (e : positive) : option positive :=
  match fuel with
  | O => None
  | S n => match d !! e with
           | Some (DFile i) => Some i
           | Some (DLink e') => follow n d e'
           | None => None
           end
  end.
Definition resolve (d : gmap positive dent) (e : positive) : option positive := follow 40 d e.

(* one past the largest key in use *)
Definition fresh_key {A} (m : gmap positive A) : positive := Pos.succ (pmax_list (map fst (map_to_list m))).

(* permission bits a file gets when it is created with perm `p` under the process umask: p AND NOT umask *)
Definition create_mode (umask p : N) : N := N.ldiff p umask.

Section Prims.
Variable fresh_ent : gmap positive dent -> positive.
Variable fresh_ino : gmap positive file -> positive.
(* the process umask *)
Variable umask : N.
(* O_CREATE with perm 0666 (open_excl, openStagedFile) and os.CreateTemp's 0600 *)
Definition perm_new : N := create_mode umask 438.
Definition perm_tmp : N := create_mode umask 384.

(* os.Open(p): the descriptor is bound to the inode *)
Definition open_rd (p : sp) (s : ist) : rr positive :=
  match resolve (idir s) (sp_ent p) with
  | Some i => match inos s !! i with Some _ => ROk i s | None => RErr ENOENT s end
  | None => RErr ENOENT s
  end.
(* os.OpenFile(p, O_WRONLY|O_CREATE|O_EXCL, 0666): fails if the NAME exists, also when it is a (dangling) symlink *)
Definition open_excl (p : sp) (s : ist) : rr positive :=
  match idir s !! sp_ent p with
  | Some _ => RErr EEXIST s
  | None => let i := fresh_ino (inos s) in
            ROk i (IS (<[sp_ent p := DFile i]> (idir s)) (<[i := File [] perm_new]> (inos s)) (wlog s) (reads s))
  end.
(* os.Stat(p): follows symlinks *)
Definition stat (p : sp) (s : ist) : rr (positive * file) :=
  match resolve (idir s) (sp_ent p) with
  | Some i => match inos s !! i with Some f => ROk (i, f) s | None => RErr ENOENT s end
  | None => RErr ENOENT s
  end.
(* os.CreateTemp(dir, pattern) / the O_EXCL retry loop: a new entry bound to a new empty inode *)
Definition create_temp (md : N) (s : ist) : rr (positive * positive) :=
  let t := fresh_ent (idir s) in
  let i := fresh_ino (inos s) in
  ROk (t, i) (IS (<[t := DFile i]> (idir s)) (<[i := File [] md]> (inos s)) (wlog s) (reads s)).
(* f.Chmod(md), f.Write(b): on the inode the descriptor is bound to *)
Definition fchmod (i : positive) (md : N) (s : ist) : rr unit :=
  match inos s !! i with
  | Some f => ROk tt (IS (idir s) (<[i := File (fdata f) md]> (inos s)) (i :: wlog s) (reads s))
  | None => RErr ENOENT s
  end.
Definition write (i : positive) (b : bytes) (s : ist) : ist :=
  match inos s !! i with
  | Some f => IS (idir s) (<[i := File (fdata f ++ b) (fmode f)]> (inos s)) (i :: wlog s) (reads s)
  | None => s
  end.
(* reading through the input descriptor: what the inode holds now *)
Definition read (i : positive) (s : ist) : ist :=
  IS (idir s) (inos s) (wlog s) ((fdata <$> (inos s !! i)) :: reads s).
(* os.Rename(a, b): re-binds the NAME b (no symlink following) *)
Definition rename (a b : positive) (s : ist) : rr unit :=
  match idir s !! a with
  | Some de => ROk tt (IS (<[b := de]> (delete a (idir s))) (inos s) (wlog s) (reads s))
  | None => RErr ENOENT s
  end.

(* the body of an operation: it reads from the input descriptor (if any) and writes chunks into the
   output descriptor, in any order *)
Inductive bstep := BRead | BWrite (c : bytes).
Fixpoint run_body (fd : option positive) (ofd : positive) (b : list bstep) (s : ist) : ist :=
  match b with
  | [] => s
  | BRead :: r => run_body fd ofd r (match fd with Some i => read i s | None => s end)
  | BWrite c :: r => run_body fd ofd r (write ofd c s)
  end.
Fixpoint output_of (b : list bstep) : bytes :=
  match b with
  | [] => []
  | BRead :: r => output_of r
  | BWrite c :: r => c ++ output_of r
  end.

(* pkg/api/file.go openStagedOutputWithOperations, second half (target = inFile or the existing outFile):
   stat(target); CreateTemp(Dir(target), "."+Base(target)+".tmp-*"); Chmod(fi.Mode().Perm());
   result: (output descriptor, temporaryFile, destination) *)
Definition open_tmp (target : option sp) (s : ist) : rr (positive * positive * option positive) :=
  match target with
  | None => RErr ENOENT s
  | Some tg =>
    match stat tg s with
    | RErr e s => RErr e s
    | ROk (_, fi) s =>
      match create_temp perm_tmp s with
      | RErr e s => RErr e s
      | ROk (t, i) s =>
        match fchmod i (fmode fi) s with
        | RErr e s => RErr e s
        | ROk _ s => ROk (i, t, Some (sp_ent tg)) s
        end
      end
    end
  end.

(* openStagedOutputWithOperations(input, inFile, outFile, …): `outFile != "" && inFile != outFile` is a STRING test *)
Definition open_staged (inF outF : option sp) (s : ist) : rr (positive * positive * option positive) :=
  match outF with
  | Some o =>
    if negb (opt_sp_eqb inF outF) then
      match open_excl o s with
      | ROk i s => ROk (i, sp_ent o, None) s
      | RErr EEXIST s => open_tmp (Some o) s
      | RErr e s => RErr e s
      end
    else open_tmp inF s
  | None => open_tmp inF s
  end.

(* the *File skeleton of pkg/api (see C01/Model.v api_file), success path:
   f1 := os.Open(rd); tmpFile := outFile if outFile != "" && inFile != outFile else "";
   staged := openStagedOutput(f1, inFile, tmpFile); body; ok = true; commit: close output, close inputs,
   destination == "" ? done : ReplaceFile(temporaryFile, destination) *)
Definition api_i (rd : option sp) (inF outF : option sp) (b : list bstep) (s : ist) : rr unit :=
  match (match rd with
         | Some x => match open_rd x s with ROk i s => ROk (Some i) s | RErr e s => RErr e s end
         | None => ROk None s end) with
  | RErr e s => RErr e s
  | ROk fd s =>
    let tmpFile := match outF with
                   | Some _ => if negb (opt_sp_eqb inF outF) then outF else None
                   | None => None end in
    match open_staged inF tmpFile s with
    | RErr e s => RErr e s
    | ROk (ofd, t, dest) s =>
      let s := run_body fd ofd b s in
      match dest with
      | None => ROk tt s
      | Some d => rename t d s
      end
    end
  end.

(* pkg/api/annotation.go AddAnnotationsFile / AddAnnotationsMapFile / RemoveAnnotationsFile(inFile, outFile, …, incr = true):
     if outFile != "" && inFile != outFile { tmpFile = outFile }          — STRING test; incr is ignored: the usual skeleton
     else if incr { f := os.OpenFile(inFile, O_RDWR); …AsIncrement(f) }   — the increment is appended to the input's inode
   (`b` is what the operation writes: the complete output in the first case, the increment in the second) *)
Definition incr_api_i (x : sp) (outF : option sp) (b : list bstep) (s : ist) : rr unit :=
  let inplace := match outF with None => true | Some o => sp_eqb x o end in
  if inplace then
    match open_rd x s with
    | ROk i s => ROk tt (write i (output_of b) s)
    | RErr e s => RErr e s
    end
  else api_i (Some x) (Some x) outF b s.

(* pkg/api/file.go outputAliasesInputWith: Abs(in) == Abs(out), else both exist and os.SameFile *)
Definition output_aliases_input (inF outF : sp) (s : ist) : bool :=
  if abs_eqb inF outF then true
  else match stat outF s with
       | RErr _ _ => false
       | ROk (io, _) _ => match stat inF s with
                          | RErr _ _ => false
                          | ROk (ii, _) _ => Pos.eqb ii io
                          end
       end.

(* rejectGridImageOutputAlias / rejectNUpImageOutputAlias / rejectBookletImageOutputAlias /
   validateImportImagesOutput: `for i, inFile := range inFiles { if outputAliasesInput(inFile, outFile) { refuse } }` —
   the output is compared with EVERY input *)
Definition reject_alias (ins : list sp) (out : sp) (s : ist) : bool :=
  existsb (fun x => output_aliases_input x out s) ins.

(* the image mode of GridFile / NUpFile / BookletFile: refuse an output that aliases any image; the images are
   not opened by the skeleton (f1 == nil): openStagedOutput(nil, inFiles[0], outFile); body; commit *)
Definition multi_image_i (ins : list sp) (out : sp) (b : list bstep) (s : ist) : rr unit :=
  if reject_alias ins out s then RErr EEXIST s
  else api_i None (head ins) (Some out) b s.

(* ImportImagesFile(imgFiles, outFile): refuse an aliasing output; importImagesInputFile: an existing outFile is
   opened and appended to (inFile = outFile: in-place update of outFile), a missing one is created *)
Definition import_images_i (ins : list sp) (out : sp) (b : list bstep) (s : ist) : rr unit :=
  if reject_alias ins out s then RErr EEXIST s
  else match open_rd out s with
       | ROk _ _ => api_i (Some out) (Some out) (Some out) b s
       | RErr _ _ => api_i None None (Some out) b s
       end.

(* pkg/pdfcpu/io.go createStagedFile(path): openStagedFile = O_RDWR|O_CREATE|O_EXCL on a random name with
   perm 0666 (the file gets 0666 &^ umask); then `if fi, err := os.Stat(path); err == nil { f.Chmod(fi.Mode().Perm()) }`:
   the explicit chmod is not subject to the umask *)
Definition create_staged_file (path : sp) (s : ist) : rr (positive * positive) :=
  match create_temp perm_new s with
  | RErr e s => RErr e s
  | ROk (t, i) s =>
    match stat path s with
    | RErr _ s => ROk (t, i) s
    | ROk (_, fi) s => match fchmod i (fmode fi) s with
                       | RErr e s => RErr e s
                       | ROk _ s => ROk (t, i) s
                       end
    end
  end.

(* pkg/pdfcpu/io.go CopyFile(src, dest, overwrite = true): open src; from.Stat(); os.Stat(dest);
   same file: close and return; else createStagedFile(dest); io.Copy; finishStagedFile: rename(tmp, dest) *)
Definition copy_file_i (src dst : sp) (s : ist) : rr unit :=
  match open_rd src s with
  | RErr e s => RErr e s
  | ROk i s =>
    let same := match stat dst s with ROk (j, _) _ => Pos.eqb i j | RErr _ _ => false end in
    if same then ROk tt s
    else match create_staged_file dst s with
         | RErr e s => RErr e s
         | ROk (t, o) s =>
           let s := read i s in
           let s := write o (match inos s !! i with Some f => fdata f | None => [] end) s in
           rename t (sp_ent dst) s
         end
  end.

(* pdfcpu.WriteReader(path, r) / WriteContext's file path: createStagedFile; write; rename *)
Definition write_reader_i (path : sp) (b : list bstep) (s : ist) : rr unit :=
  match create_staged_file path s with
  | RErr e s => RErr e s
  | ROk (t, o) s => rename t (sp_ent path) (run_body None o b s)
  end.
End Prims.

(* the destination of the api skeleton *)
Definition api_dest (inF outF : option sp) : option sp :=
  match outF with
  | Some o => if opt_sp_eqb inF outF then inF else Some o
  | None => inF
  end.

(* ---------- entry points for the correspondence harness ---------- *)
Definition fresh_ent_hi (d : gmap positive dent) : positive := Pos.max 64%positive (fresh_key d).
Definition fresh_ino_hi (m : gmap positive file) : positive := Pos.max 64%positive (fresh_key m).
Definition mk_state (d : list (positive * dent)) (i : list (positive * file)) : ist :=
  IS (list_to_map d) (list_to_map i) [] [].
Definition dir_to_list (s : ist) : list (positive * dent) := map_to_list (idir s).
Definition inos_to_list (s : ist) : list (positive * file) := map_to_list (inos s).
Definition run_api_i (umask : N) := api_i fresh_ent_hi fresh_ino_hi umask.
Definition run_copy_i (umask : N) := copy_file_i fresh_ent_hi fresh_ino_hi umask.
Definition run_write_reader_i (umask : N) := write_reader_i fresh_ent_hi fresh_ino_hi umask.
Definition run_aliases := output_aliases_input.
Definition run_incr_api_i (umask : N) := incr_api_i fresh_ent_hi fresh_ino_hi umask.
Definition run_multi_image_i (umask : N) := multi_image_i fresh_ent_hi fresh_ino_hi umask.
Definition run_import_images_i (umask : N) := import_images_i fresh_ent_hi fresh_ino_hi umask.
