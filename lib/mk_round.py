#!/usr/bin/env python3
"""usage: mk_round.py <round> Cxx...   -- prepare red-team round N for the given properties:
worktree /tmp/mut<N>-Cxx of /repo HEAD, prompt /tmp/mutprompts/Cxx.r<N>.txt, launch text Cxx.r<N>.launch
(lists every earlier change for the property so the new one must differ)."""
import sys,json,glob,os,subprocess,re
rnd=sys.argv[1]; props=sys.argv[2:]
os.makedirs('/tmp/mutprompts',exist_ok=True)
for p in props:
    base=open(f'/tmp/mutprompts/{p}.txt').read() if os.path.exists(f'/tmp/mutprompts/{p}.txt') else None
    if base is None:
        print('no base prompt for',p); continue
    wt=f'/tmp/mut{rnd}-{p}'
    txt=base.replace(f'/tmp/mut-{p}',wt)
    open(f'/tmp/mutprompts/{p}.r{rnd}.txt','w').write(txt)
    earlier=[]
    for d in sorted(glob.glob(f'/verif/seeded/{p}*'))+sorted(glob.glob(f'/tmp/mut[0-9]-{p}-out')):
        try: m=json.load(open(d+'/meta.json'))
        except Exception: continue
        s=(m.get('summary','') or '')[:420]; n=(m.get('needs','') or '')[:200]
        e=f'{s} [needs: {n}]'
        if e not in earlier: earlier.append(e)
    launch=(f"Your complete task description is in the file /tmp/mutprompts/{p}.r{rnd}.txt — read it and carry it out exactly. "
      "Do not read anything under /verif. (Ignore files named verif_export_*.go in the tree: they are build-tag-guarded test hooks, not part of the product; do not modify them.) "
      f"IMPORTANT: other engineers already delivered the following {len(earlier)} change(s) for this property; yours must be clearly DIFFERENT from all of them — a different function or mechanism, "
      "preferably exercising a different clause of the property statement, a different entry point/command, or a different anchored file:\n"+
      "\n".join(f"({i+1}) {e}" for i,e in enumerate(earlier)))
    if int(rnd) >= 4:
        launch += ("\nSTYLE FOR THIS ROUND: make the change MINIMAL — one to three lines of the kind a classical mutation or a careless edit produces: a changed comparison operator or boundary (< vs <=, off-by-one), a changed constant, a dropped or inverted condition, a swapped argument or wrong variable, a removed statement, an early return, a wrong default — placed in code on the property's data path (it may be a helper OUTSIDE the anchored files that the anchored code calls). It must still need a specific input/sequence/fault to show and must pass the existing suite. "
                   "The machine is heavily loaded: run the full test suite only once with your final change (and at most once on the pristine tree); keep the demonstration fast (< 1 minute).")
    open(f'/tmp/mutprompts/{p}.r{rnd}.launch','w').write(launch)
    if not os.path.isdir(wt):
        subprocess.run(['git','-C','/repo','worktree','add','--detach','-q',wt,'HEAD'],check=True)
    os.makedirs(wt+'-out',exist_ok=True)
    print(p,'ready',len(earlier),'earlier')
