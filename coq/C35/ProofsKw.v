(* C35 — keywords: Join(sorted, "; ") followed by FieldsFunc + TrimSpace gives the list back
   when no keyword contains a separator or an outer blank; refuted otherwise. *)
From Coq Require Import NArith List Bool Lia.
From PV Require Import C35.Model C35.ProofsStr.
Import ListNotations.
Open Scope N_scope.

Definition nosep (w : str) : Prop := existsb is_sep w = false.

Lemma fields_aux_nosep : forall w cur s, nosep w -> fields_aux cur (w ++ s) = fields_aux (cur ++ w) s.
Proof.
  unfold nosep. induction w as [|c w IH]; simpl; intros cur s H.
  - now rewrite app_nil_r.
  - apply orb_false_iff in H as [Hc Hw]. rewrite Hc. rewrite IH by assumption.
    now rewrite <- app_assoc.
Qed.

Lemma wfk_spec : forall k, wfk k = true -> nosep k /\ trim k = k /\ k <> [].
Proof.
  intros k H. unfold wfk in H. apply andb_true_iff in H as [H H3]. apply andb_true_iff in H as [H1 H2].
  apply negb_true_iff in H1. apply seqb_eq in H2. repeat split; try assumption.
  intros ->. discriminate.
Qed.

Lemma fields_join : forall ks pre, ks <> [] -> Forall (fun k => wfk k = true) ks -> nosep pre ->
  fields_aux pre (join ks) = (pre ++ hd [] ks) :: map (cons 32) (tl ks).
Proof.
  induction ks as [|x r IH]; intros pre Hne Hwf Hpre; [congruence|].
  inversion Hwf as [|? ? Hx Hr]; subst.
  destruct (wfk_spec _ Hx) as [Nx [_ Ex]].
  destruct r as [|y r'].
  - simpl. rewrite <- (app_nil_r x) at 1. rewrite fields_aux_nosep by assumption. simpl.
    destruct (pre ++ x) eqn:E; [apply app_eq_nil in E as [_ E]; contradiction|reflexivity].
  - change (join (x :: y :: r')) with (x ++ 59 :: 32 :: join (y :: r')).
    rewrite fields_aux_nosep by assumption.
    cbn [fields_aux]. change (is_sep 59) with true. cbv iota.
    destruct (pre ++ x) eqn:E; [apply app_eq_nil in E as [_ E]; contradiction|]. rewrite <- E.
    cbn [fields_aux]. change (is_sep 32) with false. cbv iota.
    rewrite IH; [|discriminate|assumption|reflexivity]. reflexivity.
Qed.

Lemma trim_cons_space : forall c k, is_space c = true -> trim (c :: k) = trim k.
Proof. intros c k H. unfold trim. simpl. now rewrite H. Qed.

Lemma fields_join_trim : forall ks, Forall (fun k => wfk k = true) ks -> map trim (fields (join ks)) = ks.
Proof.
  intros [|x r] H; [reflexivity|].
  unfold fields. rewrite fields_join; [|discriminate|assumption|reflexivity].
  inversion H as [|? ? Hx Hr]; subst. simpl.
  destruct (wfk_spec _ Hx) as [_ [Tx _]]. rewrite Tx. f_equal.
  clear -Hr. induction r as [|y r IH]; simpl; [reflexivity|].
  inversion Hr as [|? ? Hy Hr']; subst. destruct (wfk_spec _ Hy) as [_ [Ty _]].
  rewrite trim_cons_space by reflexivity. rewrite Ty. f_equal. now apply IH.
Qed.

Lemma fold_left_map_trim : forall (fs : list str) acc,
  fold_left (fun a f => set_ins (trim f) a) fs acc = fold_left (fun a k => set_ins k a) (map trim fs) acc.
Proof. induction fs as [|f r IH]; simpl; intros acc; [reflexivity|]. apply IH. Qed.

(* reading back what finalizeKeywords wrote *)
Lemma kw_of_text_join : forall ks, ssorted ks -> Forall (fun k => wfk k = true) ks -> kw_of_text (join ks) = ks.
Proof.
  intros ks Hs Hw. unfold kw_of_text. rewrite fold_left_map_trim, fields_join_trim by assumption.
  now apply fold_ins_sorted_id.
Qed.

Lemma wfk_not_blank : forall ks, forallb wfk ks = true -> no_blank ks = true.
Proof.
  intros ks H. unfold no_blank. rewrite forallb_forall in *. intros k Hk.
  destruct (wfk_spec _ (H k Hk)) as [_ [T N]]. unfold blank. rewrite T. destruct k; [congruence|reflexivity].
Qed.

Lemma fold_ins_trim_wf : forall ks acc, forallb wfk ks = true ->
  fold_left (fun a k => set_ins (trim k) a) ks acc = fold_left (fun a k => set_ins k a) ks acc.
Proof.
  induction ks as [|k r IH]; simpl; intros acc H; [reflexivity|].
  apply andb_true_iff in H as [Hk Hr]. destruct (wfk_spec _ Hk) as [_ [T _]]. rewrite T. now apply IH.
Qed.

Lemma map_trim_wf : forall ks, forallb wfk ks = true -> map trim ks = ks.
Proof.
  induction ks as [|k r IH]; simpl; intros H; [reflexivity|].
  apply andb_true_iff in H as [Hk Hr]. destruct (wfk_spec _ Hk) as [_ [T _]]. rewrite T. f_equal. now apply IH.
Qed.

(* defect (i): the hypothesis cannot be dropped *)
Lemma kw_separator_refuted :
  kw_of_text (join [[97; 44; 98]]) = [[97]; [98]]           (* "a,b"  lists as "a","b" *)
  /\ kw_of_text (join [trim [32; 108]]) = [[108]]           (* " l"   is stored as "l" *)
  /\ kw_of_text (join [[59]]) = [].                         (* ";"    disappears *)
Proof. vm_compute. repeat split. Qed.
