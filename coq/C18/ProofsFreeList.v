(* C18 — EnsureValidFreeList: whatever the free entries' links are (any number of damaged links, any map
   iteration order), the repaired entries form ONE chain from object 0 through free entries ending in 0;
   every free entry is on it or is a dead generation-65535 entry linking to 0. *)
From Coq Require Import ZArith NArith List Bool Lia ZifyBool ZifyNat ZifyN Sorting.Permutation.
From PV Require Import C18.Model.
Import ListNotations.
Open Scope N_scope.

Lemma take_nr_spec f : forall m x m', take_nr f m = Some (x, m') ->
  e_nr x = f /\ Permutation m (x :: m') /\ length m = S (length m').
Proof.
  induction m as [|y t IH]; intros x m' H; cbn in H; [discriminate|].
  destruct (N.eqb_spec (e_nr y) f) as [E|E].
  - inversion H; subst. repeat split; auto.
  - destruct (take_nr f t) as [[z t']|] eqn:Et; [|discriminate]. inversion H; subst.
    destruct (IH _ _ eq_refl) as (H1 & H2 & H3). repeat split; [exact H1| |cbn; lia].
    rewrite H2. apply perm_swap.
Qed.

Lemma follow_spec : forall fuel m f v r b, (length m <= length fuel)%nat -> follow fuel m f = (v, r, b) ->
  Permutation m (v ++ r) /\ exists g, pathb f v g = true /\ (b = true -> g = 0).
Proof.
  induction fuel as [|u fuel IH]; intros m f v r b Hl H; cbn [follow] in H.
  - destruct (N.eqb_spec f 0) as [E|E].
    + inversion H; subst. split; [reflexivity|]. exists 0. split; [reflexivity|auto].
    + destruct (take_nr f m) as [[x m']|]; inversion H; subst;
        (split; [reflexivity|]; exists f; split; [cbn; apply N.eqb_refl|discriminate]).
  - destruct (N.eqb_spec f 0) as [E|E].
    + inversion H; subst. split; [reflexivity|]. exists 0. split; [reflexivity|auto].
    + destruct (take_nr f m) as [[x m']|] eqn:Et.
      * destruct (take_nr_spec _ _ _ _ Et) as (Hn & Hp & Hlen).
        destruct (follow fuel m' (e_a x)) as [[v' r'] b'] eqn:Ef. inversion H; subst v r b.
        destruct (IH m' (e_a x) v' r' b') as (Hp' & g & Hg & Hb); [cbn in Hl; lia|exact Ef|].
        split; [rewrite Hp; cbn; constructor; exact Hp'|].
        exists g. split; [cbn [pathb]; rewrite Hn, N.eqb_refl; exact Hg|exact Hb].
      * inversion H; subst. split; [reflexivity|]. exists f. split; [cbn; apply N.eqb_refl|discriminate].
Qed.

Lemma set_last_nrs v k : map e_nr (set_last v k) = map e_nr v.
Proof. induction v as [|x [|y t] IH]; [reflexivity|reflexivity|]. cbn [set_last map] in *. rewrite IH. reflexivity. Qed.

Lemma path_set_last : forall v f g k, v <> [] -> pathb f v g = true -> pathb f (set_last v k) k = true.
Proof.
  induction v as [|x [|y t] IH]; intros f g k Hne H; [contradiction| |].
  - cbn in *. apply andb_true_iff in H. destruct H as [H _]. rewrite H, N.eqb_refl. reflexivity.
  - cbn [set_last pathb] in *. apply andb_true_iff in H. destruct H as [H1 H2]. rewrite H1. cbn [andb].
    apply (IH _ g); [discriminate|exact H2].
Qed.

Lemma path_app : forall a f g b g2, pathb f a g = true -> pathb g b g2 = true -> pathb f (a ++ b) g2 = true.
Proof.
  induction a as [|x a IH]; intros f g b g2 H1 H2; cbn [app pathb] in *.
  - apply N.eqb_eq in H1. subst. exact H2.
  - apply andb_true_iff in H1. destruct H1 as [H1 H1']. rewrite H1. cbn [andb]. eapply IH; eassumption.
Qed.

Lemma follow_bad_nonempty k t v r : follow (k :: t) (k :: t) (e_nr k) = (v, r, false) -> v <> [].
Proof.
  cbn [follow take_nr]. destruct (e_nr k =? 0); [discriminate|]. rewrite N.eqb_refl.
  destruct (follow t t (e_a k)) as [[v' r'] b']. intros H. inversion H. discriminate.
Qed.

Local Opaque set_last.

Lemma validate_spec h frees h' chain m : validate_free_list h frees = (h', chain, m) ->
  pathb h' chain 0 = true /\ Permutation (map e_nr frees) (map e_nr (chain ++ m)).
Proof.
  unfold validate_free_list.
  destruct (follow frees frees h) as [[v1 m1] end1] eqn:E1.
  destruct (follow_spec _ _ _ _ _ _ (Nat.le_refl _) E1) as (P1 & g1 & G1 & B1).
  destruct end1.
  - intros H. inversion H; subst. rewrite (B1 eq_refl) in G1. split; [exact G1|apply Permutation_map; exact P1].
  - destruct m1 as [|k t].
    + destruct v1 as [|x v1'] eqn:Ev.
      * intros H. inversion H; subst. split; [reflexivity|apply Permutation_map; exact P1].
      * intros H. inversion H; subst. split.
        -- apply (path_set_last _ _ g1); [discriminate|exact G1].
        -- rewrite app_nil_r in *. rewrite set_last_nrs. apply Permutation_map. exact P1.
    + destruct (follow (k :: t) (k :: t) (e_nr k)) as [[v2 m2] end2] eqn:E2.
      destruct (follow_spec _ _ _ _ _ _ (Nat.le_refl _) E2) as (P2 & g2 & G2 & B2).
      assert (G2' : pathb (e_nr k) (if end2 then v2 else set_last v2 0) 0 = true).
      { destruct end2; [rewrite (B2 eq_refl) in G2; exact G2|].
        apply (path_set_last _ _ g2); [eapply follow_bad_nonempty; exact E2|exact G2]. }
      assert (N2 : map e_nr (if end2 then v2 else set_last v2 0) = map e_nr v2).
      { destruct end2; [reflexivity|apply set_last_nrs]. }
      assert (PP : Permutation (map e_nr frees) (map e_nr v1 ++ map e_nr v2 ++ map e_nr m2)).
      { rewrite <- !map_app. apply Permutation_map. rewrite P1. apply Permutation_app_head. exact P2. }
      destruct v1 as [|x v1'] eqn:Ev.
      * intros H. inversion H; subst. split; [exact G2'|]. rewrite map_app, N2. exact PP.
      * intros H. inversion H; subst. split.
        -- eapply path_app; [|exact G2']. apply (path_set_last _ _ g1); [discriminate|exact G1].
        -- rewrite !map_app, N2, set_last_nrs, <- app_assoc. exact PP.
Qed.

Definition dead_entry (x : ent) : Prop := e_b x = 65535 /\ e_a x = 0.

Lemma dangling_spec : forall m h chain dead h' c d,
  pathb h chain 0 = true -> Forall dead_entry dead -> dangling h chain dead m = (h', c, d) ->
  pathb h' c 0 = true /\ Forall dead_entry d /\
  Permutation (map e_nr (c ++ d)) (map e_nr (chain ++ dead ++ m)).
Proof.
  induction m as [|x t IH]; intros h chain dead h' c d Hp Hd H; cbn [dangling] in H.
  - inversion H; subst. rewrite app_nil_r. auto.
  - destruct (N.eqb_spec (e_b x) 65535) as [E|E].
    + assert (Hd' : Forall dead_entry (mk_ent (e_nr x) 0 (e_b x) true :: dead)).
      { constructor; [split; [exact E|reflexivity]|exact Hd]. }
      destruct (IH _ _ _ _ _ _ Hp Hd' H) as (A & B & C).
      split; [exact A|]. split; [exact B|]. rewrite C. rewrite !map_app. cbn [map e_nr].
      apply Permutation_app_head. rewrite <- Permutation_middle. reflexivity.
    + assert (Hp' : pathb (e_nr x) (mk_ent (e_nr x) h (e_b x) true :: chain) 0 = true).
      { cbn [pathb e_nr e_a]. rewrite N.eqb_refl. exact Hp. }
      destruct (IH _ _ _ _ _ _ Hp' Hd H) as (A & B & C).
      split; [exact A|]. split; [exact B|]. rewrite C. rewrite !map_app. cbn [map e_nr app].
      rewrite <- !Permutation_middle. reflexivity.
Qed.

(* MAIN: for EVERY head link, EVERY set of free entries with ARBITRARY links and generations (any number of
   damaged links: to in-use objects, missing objects, themselves, earlier entries, beyond /Size) and EVERY
   iteration order of the Go map, the result is one chain  0 -> c1 -> ... -> cn -> 0  whose members
   together with the dead entries are exactly the free entries. *)
Theorem ensure_valid_chain h frees :
  let '(h', c, d) := ensure_valid_free_list h frees in
  pathb h' c 0 = true /\ Forall dead_entry d /\ Permutation (map e_nr (c ++ d)) (map e_nr frees).
Proof.
  unfold ensure_valid_free_list.
  destruct (validate_free_list h frees) as [[h1 chain] m] eqn:Ev.
  destruct (validate_spec _ _ _ _ _ Ev) as (Hp & Hperm).
  destruct (dangling h1 chain [] m) as [[h' c] d] eqn:Ed.
  destruct (dangling_spec _ _ _ _ _ _ _ Hp (Forall_nil _) Ed) as (A & B & C).
  split; [exact A|]. split; [exact B|]. rewrite C. cbn [app]. symmetry. exact Hperm.
Qed.

(* consequences: no entry is visited twice, and every link on the chain is a free entry's number *)
Corollary ensure_valid_nodup h frees : NoDup (map e_nr frees) ->
  let '(_, c, d) := ensure_valid_free_list h frees in NoDup (map e_nr (c ++ d)).
Proof.
  intros Hn. pose proof (ensure_valid_chain h frees) as H.
  destruct (ensure_valid_free_list h frees) as [[h' c] d]. destruct H as (_ & _ & P).
  eapply Permutation_NoDup; [symmetry; exact P|exact Hn].
Qed.
