open Model
open Common
let w64 = z_of_int 64
let zero = z_of_int 0
let pr (p, r) = hex_of_z p ^ (if r then "r" else "")
let bp = function
  | Ok l -> "ok:" ^ String.concat "," (List.map pr l)
  | Err -> "panic"
let zmap_of_string (s : string) : (z * bool) list =
  if s = "" then [] else
  List.map (fun e -> match String.split_on_char ':' e with
    | [k; v] -> (z_of_hex k, v = "1")
    | _ -> failwith "bad map entry") (String.split_on_char ',' s)
let posfn name i n ps bt ls nn tf =
  let f = match name with
    | "nup2OutputPageNr" -> nup2OutputPageNr
    | "nup4OutputPageNr" -> nup4OutputPageNr
    | "nup4BasicSideFoldOutputPageNr" -> nup4BasicSideFoldOutputPageNr
    | "nup4BasicTopFoldOutputPageNr" -> nup4BasicTopFoldOutputPageNr
    | "nup4AdvancedSideFoldOutputPageNr" -> nup4AdvancedSideFoldOutputPageNr
    | "nupLRTBOutputPageNr" -> nupLRTBOutputPageNr
    | "nup8OutputPageNr" -> nup8OutputPageNr
    | "nupPerfectBound" -> nupPerfectBound
    | _ -> failwith ("unknown position function " ^ name) in
  f w64 i n ps bt ls nn tf
let dispatch fn args = match fn, args with
  | "pos", [name; i; n; ps; nn; bt; ls; tf] ->
    pr (posfn name (z_of_hex i) (z_of_hex n) (zlist_of_string ps) (z_of_hex bt) (bool_of_str ls) (z_of_hex nn) (bool_of_str tf))
  | "ordering", [nn; bt; bd; ls; tf; mf; fo; ps] ->
    bp (getBookletOrdering w64 (z_of_hex nn) (z_of_hex bt) (z_of_hex bd) (bool_of_str ls) (bool_of_str tf) (bool_of_str mf) (z_of_hex fo) (zlist_of_string ps))
  | "pageordering", [nn; bt; bd; ls; tf; ps; n] ->
    bp (getBookletPageOrdering w64 (z_of_hex nn) (z_of_hex bt) (z_of_hex bd) (bool_of_str ls) (bool_of_str tf) (zlist_of_string ps) (z_of_hex n))
  | "orderingmap", [nn; bt; bd; ls; tf; mf; fo; m] ->
    bp (getBookletOrderingOfMap w64 (z_of_hex nn) (z_of_hex bt) (z_of_hex bd) (bool_of_str ls) (bool_of_str tf) (bool_of_str mf) (z_of_hex fo) (zmap_of_string m))
  | "sortsel", [m] -> string_of_zlist (sortSelectedPages (zmap_of_string m))
  | "nupslotsmap", [nn; m] -> string_of_zlist (nupSlotsOfMap w64 (z_of_hex nn) (zmap_of_string m))
  | "nuppagesmap", [nn; m] -> hex_of_z (nupOutputPagesOfMap (z_of_hex nn) (zmap_of_string m))
  | "getPageNumber", [ps; n] -> hex_of_z (getPageNumber w64 (zlist_of_string ps) (z_of_hex n) zero false zero false)
  | "get4upPos", [p; l] -> hex_of_z (get4upPos w64 (z_of_hex p) (bool_of_str l) zero false zero false)
  | "nupPageNumber", [i; ps] -> hex_of_z (nupPageNumber w64 (z_of_hex i) (zlist_of_string ps) zero false zero false)
  | "nupslots", [nn; ps] -> string_of_zlist (nupSlots w64 (z_of_hex nn) (zlist_of_string ps))
  | "nuppages", [nn; ps] -> hex_of_z (nupOutputPages (z_of_hex nn) (zlist_of_string ps))
  | _ -> failwith ("unknown function " ^ fn)
let () = main dispatch
